(* GenC07.v — the float layer of C07 over the maxIndex that is REGENERATED from the Go source.
   generated/GeneratedF.v (written by the translator on every run from operated/shifting_spatial_id.go) contains
       GeneratedF.GetShiftingSpatialID_maxIndex x y v hZoom  =  int64(math.Pow(2, float64(hZoom)) - 1)
   — the local maxIndex of operated.GetShiftingSpatialID as a function of the parameters and of hZoom; GenEqFShift proves it equal to the
   hand-written ShiftF.max_index_f.  Here the wrap / the API twin are written over an arbitrary guard bound (`wrap_with`), instantiated with
   the generated maxIndex (`wrap_g`, `shift_api_g`), and the main float-layer results of ShiftF.v are restated for these: an edit of the
   maxIndex expression in /repo changes GeneratedF, breaks gen_GetShiftingSpatialID_maxIndex_eq and with it every theorem below, hence
   properties/C07.v.  Still hand-written (not regenerated): the loop of additions, int64(math.Mod(..)), the reading and printing of the ID. *)
From Coq Require Import ZArith Lia Floats List Bool String.
From SIDGen Require GeneratedF.
From SID Require Import Base Str Ids F64 Shift ShiftF GenEqFShift.
Import ListNotations.
Open Scope Z_scope.

(* the wrap of ShiftF.wrap_f with the guard bound maxIndex as a parameter:
   if s > maxIndex || s < 0 { for s < 0 { s += tile }; s = int64(math.Mod(float64(s), math.Pow(2, float64(hZoom)))) } *)
Definition wrap_with (maxIndex : option Z) (fuel : nat) (i d h : Z) : option Z :=
  match maxIndex, tile_f h with
  | Some mx, Some w =>
      let s := i + d in
      if (mx <? s) || (s <? 0)
      then match addloop fuel s w with
           | Some t => Ztrunc_f (fmod_int (of_Z t) (pow2f h))
           | None => None
           end
      else Some s
  | _, _ => None
  end.
Lemma wrap_f_is_wrap_with fuel i d h : wrap_f fuel i d h = wrap_with (max_index_f h) fuel i d h.
Proof. reflexivity. Qed.

(* the generated maxIndex; x y v = the shift parameters of GetShiftingSpatialID (the Go expression does not use them) *)
Definition max_index_g (x y v h : Z) : option Z := GeneratedF.GetShiftingSpatialID_maxIndex x y v h.
(* the wrap on one axis, guard taken from the generated definition *)
Definition wrap_g (x y v : Z) (fuel : nat) (i d h : Z) : option Z := wrap_with (max_index_g x y v h) fuel i d h.
Definition wrap_gx (x y v : Z) (i d h : Z) : option Z :=
  match tile_f h with
  | Some w => match fuel_for (i + d) w with Some fuel => wrap_g x y v fuel i d h | None => None end
  | None => None
  end.
Definition shift_eid_g (i : eid) (dx dy dv : Z) : option eid :=
  match wrap_gx dx dy dv (ex i) dx (eh i), wrap_gx dx dy dv (ey i) dy (eh i) with
  | Some x, Some y => Some {| eh := eh i; ex := x; ey := y; ev := ev i; ef := ef i + dv |}
  | _, _ => None
  end.
(* operated.GetShiftingSpatialID through the float layer, maxIndex as generated *)
Definition shift_api_g (id : string) (dx dy dv : Z) : option string :=
  match parse_eid id with
  | None => Some EmptyString
  | Some i => option_map print_eid (shift_eid_g i dx dy dv)
  end.

(* ---- the tie: everything over the generated maxIndex IS the twin that is run side by side with the Go code ---- *)
Lemma wrap_g_eq x y v fuel i d h : wrap_g x y v fuel i d h = wrap_f fuel i d h.
Proof. unfold wrap_g, max_index_g. rewrite gen_GetShiftingSpatialID_maxIndex_eq. reflexivity. Qed.
Lemma wrap_gx_eq x y v i d h : wrap_gx x y v i d h = wrap_fx i d h.
Proof. unfold wrap_gx, wrap_fx. destruct (tile_f h); [|reflexivity]. destruct (fuel_for (i + d) z); [apply wrap_g_eq|reflexivity]. Qed.
Theorem shift_api_g_eq id dx dy dv : shift_api_g id dx dy dv = shift_api_f id dx dy dv.
Proof. unfold shift_api_g, shift_api_f. destruct (parse_eid id) as [i|]; [|reflexivity]. unfold shift_eid_g, shift_eid_f. now rewrite !wrap_gx_eq. Qed.

(* ---- the main results, over the generated definition ---- *)
(* the generated maxIndex is the last index of the grid, exactly, for every zoom a binary64 power of two can carry (0..52 ⊇ 0..35) *)
Theorem max_index_g_exact x y v h : 0 <= h <= 52 -> GeneratedF.GetShiftingSpatialID_maxIndex x y v h = Some (2 ^ h - 1).
Proof. intros Hh. rewrite gen_GetShiftingSpatialID_maxIndex_eq. now apply max_index_f_exact. Qed.

(* the wrap guarded by the generated maxIndex is the exact modular translation under x + dx <= 2^53, whatever the (sufficient) fuel *)
Theorem wrap_g_exact x y v fuel i d h : 0 <= h <= 52 -> i + d <= 2 ^ 53 ->
  addloop fuel (i + d) (2 ^ h) <> None ->
  wrap_with (GeneratedF.GetShiftingSpatialID_maxIndex x y v h) fuel i d h = Some ((i + d) mod 2 ^ h).
Proof. intros Hh Hs Hf. change (wrap_g x y v fuel i d h = Some ((i + d) mod 2 ^ h)). rewrite wrap_g_eq. now apply wrap_f_exact. Qed.

(* the API twin over the generated maxIndex: modular translation for -4094 * 2^h <= x + dx <= 2^53 (likewise y) ... *)
Theorem shift_api_g_exact i dx dy dv : valid i -> hshift_ok i (ex i) dx -> hshift_ok i (ey i) dy ->
  shift_api_g (print_eid i) dx dy dv = Some (print_eid (shift_spec i dx dy dv)).
Proof. intros. rewrite shift_api_g_eq. now apply shift_api_f_exact. Qed.
(* ... in particular on the property's quantifier *)
Theorem shift_api_g_quantifier i dx dy dv : valid i -> Z.abs dx <= 4 * 2 ^ eh i -> Z.abs dy <= 4 * 2 ^ eh i ->
  shift_api_g (print_eid i) dx dy dv = Some (print_eid (shift_spec i dx dy dv)).
Proof. intros. rewrite shift_api_g_eq. now apply shift_api_f_quantifier. Qed.

(* and where the tie ends: beyond 2^53 the wrap guarded by the generated maxIndex returns 0 where the exact answer is 1 *)
Theorem wrap_g_refuted : exists x y v fuel i d h, 0 <= h <= 35 /\ 0 <= i < 2 ^ h /\ 2 ^ 53 < i + d /\
  wrap_with (GeneratedF.GetShiftingSpatialID_maxIndex x y v h) fuel i d h = Some 0 /\ (i + d) mod 2 ^ h = 1.
Proof.
  destruct wrap_f_refuted as (fuel & i & d & h & H1 & H2 & H3 & H4 & H5).
  exists d, 0, 0, fuel, i, d, h. split; [exact H1|]. split; [exact H2|]. split; [exact H3|]. split; [|exact H5].
  change (wrap_g d 0 0 fuel i d h = Some 0). rewrite wrap_g_eq. exact H4.
Qed.
