(* Conc.v — C19: concurrent calls of a library that keeps no mutable shared state do not interfere.

   What a proof can carry here (DESIGN.md 6 C19, 8): the Go memory model and Go's semantics are not available in Coq, so the theorem is about
   an abstract machine that every sequentially-consistent, data-race-free execution of a Go program is an instance of:

     - a *thread* (goroutine executing one exported call, with its own arguments) is a deterministic step function over its private state
       `Local` (registers, stack, objects allocated by the call itself, the instruction about to be executed, the result so far);
     - all threads see one shared store `Shared` (package-level variables, the heap cells that existed before the calls started: the
       caller-provided slices and objects);
     - a *schedule* is the list of thread identifiers in the order in which they take their atomic steps: any list, any number of threads,
       any number of steps (no fairness, no bound).

   Theorem (`interleaving_is_solo`): if no step changes the shared store, then under every schedule every thread ends in exactly the state it
   reaches when it runs alone for the same number of steps, and the shared store is left as it was. Consequently each call returns, in any mix,
   the result it returns when run alone (`parallel_result_is_solo`, `finished_call_same_result`), and the inputs are unmodified.

   The premise "no step changes the shared store" is made checkable (`premise`): the scanner `harness/cmd/vscan` lists every instruction
   (a `site`) of the functions reachable from the exported API that may write memory that is not private to the call; each instruction of a
   thread is either at a listed site or does not write the shared store (`scanned`: this is the soundness of the SSA/RTA scan, *trusted*, see
   meta/C19.json). The file generated on every run (`SharedState.v`) defines `shared_sites`; `shared_sites = []` is proved there by `reflexivity`.

   The converse direction is shown by a counterexample (`write_site_breaks_noninterference`): one write site is enough to make a schedule
   observable, so the premise cannot be dropped. *)
From Coq Require Import List Arith Lia Bool String.
Import ListNotations.

(* ---------- the premise as data ---------- *)

(* one instruction that may write memory shared between calls, as reported by the scan of the source tree *)
Record site := mk_site {
  s_pkg  : string;   (* package path of the function that contains the instruction *)
  s_func : string;   (* function or method *)
  s_kind : string;   (* global-store | global-mapupdate | global-append | param-store | param-mapupdate | go-statement | sync-use | atomic-use |
                        unsafe-use | global-ref-call *)
  s_pos  : string    (* file:line:column and the object concerned *)
}.

(* the premise of C19: the scan found no such instruction *)
Definition premise (sites : list site) : Prop := sites = [].

Definition premiseb (sites : list site) : bool := match sites with [] => true | _ => false end.
Lemma premiseb_spec sites : premiseb sites = true <-> premise sites.
Proof. unfold premise. destruct sites; cbn; split; intro H; [reflexivity | reflexivity | discriminate | discriminate]. Qed.

(* ---------- the machine ---------- *)

Section Conc.
  Variables (Shared Local : Type).
  Variable step : Shared -> Local -> Shared * Local.       (* one atomic step of a call *)

  Definition upd (ls : nat -> Local) (t : nat) (l : Local) : nat -> Local :=
    fun u => if Nat.eqb u t then l else ls u.

  (* run an arbitrary schedule (list of thread identifiers): any number of threads, any number of steps *)
  Fixpoint run (sched : list nat) (s : Shared) (ls : nat -> Local) : Shared * (nat -> Local) :=
    match sched with
    | [] => (s, ls)
    | t :: r => let '(s', l') := step s (ls t) in run r s' (upd ls t l')
    end.

  (* thread alone, from the same store, taking n steps *)
  Fixpoint solo (n : nat) (s : Shared) (l : Local) : Local :=
    match n with O => l | S m => solo m s (snd (step s l)) end.

  Definition steps_of (sched : list nat) (t : nat) : nat := count_occ Nat.eq_dec sched t.

  Lemma solo_snoc n s l : solo (S n) s l = snd (step s (solo n s l)).
  Proof. revert l. induction n as [|m IH]; intros l; cbn in *; [reflexivity|]. now rewrite <- IH. Qed.

  Lemma solo_add n m s l : solo (n + m) s l = solo m s (solo n s l).
  Proof. revert l. induction n as [|k IH]; intros l; cbn; [reflexivity|]. apply IH. Qed.

  Section Frame.
    (* no step changes the shared store *)
    Hypothesis frame : forall s l, fst (step s l) = s.

    Theorem interleaving_is_solo sched : forall s ls t,
      fst (run sched s ls) = s /\
      snd (run sched s ls) t = solo (steps_of sched t) s (ls t).
    Proof.
      unfold steps_of.
      induction sched as [|u r IH]; intros s ls t; cbn [run count_occ]; [split; reflexivity|].
      destruct (step s (ls u)) as [s' l'] eqn:E.
      assert (Es : s' = s) by (rewrite <- (frame s (ls u)), E; reflexivity). subst s'.
      destruct (IH s (upd ls u l') t) as [H1 H2]. split; [exact H1|].
      rewrite H2. unfold upd. destruct (Nat.eq_dec u t) as [->|N].
      - rewrite Nat.eqb_refl. cbn [solo]. now rewrite E.
      - destruct (Nat.eqb_spec t u); [congruence|reflexivity].
    Qed.

    (* the shared store (package-level state and the caller-provided arguments) is left unchanged by any mix *)
    Corollary shared_unchanged sched s ls : fst (run sched s ls) = s.
    Proof. exact (proj1 (interleaving_is_solo sched s ls 0)). Qed.

    (* what a thread computes does not depend on which other threads exist, what they run, or how they are scheduled:
       two schedules that give thread t the same number of steps, over any two families of other threads, leave t in the same state *)
    Corollary independent_of_the_others sched1 sched2 s ls1 ls2 t :
      ls1 t = ls2 t -> steps_of sched1 t = steps_of sched2 t ->
      snd (run sched1 s ls1) t = snd (run sched2 s ls2) t.
    Proof.
      intros El En. rewrite (proj2 (interleaving_is_solo sched1 s ls1 t)), (proj2 (interleaving_is_solo sched2 s ls2 t)).
      now rewrite El, En.
    Qed.

    (* results: `result` reads the value returned by the call from the private state *)
    Variable Res : Type.
    Variable result : Local -> Res.

    Corollary parallel_result_is_solo sched s ls t :
      result (snd (run sched s ls) t) = result (solo (steps_of sched t) s (ls t)).
    Proof. now rewrite (proj2 (interleaving_is_solo sched s ls t)). Qed.

    (* a call that has returned stays returned: `finished l` means that the thread takes no further effective step *)
    Definition finished (s : Shared) (l : Local) : Prop := snd (step s l) = l.

    Lemma solo_finished k s l : finished s l -> solo k s l = l.
    Proof. intros F. induction k as [|k IH]; cbn; [reflexivity|]. rewrite F. exact IH. Qed.

    (* if the call run alone returns after n steps, then in every schedule that lets it take at least n steps it has returned the same
       result, whatever the other threads do *)
    Corollary finished_call_same_result sched s ls t n :
      finished s (solo n s (ls t)) -> n <= steps_of sched t ->
      snd (run sched s ls) t = solo n s (ls t).
    Proof.
      intros F Hn. rewrite (proj2 (interleaving_is_solo sched s ls t)).
      replace (steps_of sched t) with (n + (steps_of sched t - n)) by lia.
      rewrite solo_add. apply solo_finished. exact F.
    Qed.

    (* boolean form used by the run-time comparison (DC19.v): with a reflexive boolean equality on private states, the list of flags
       "thread i in the parallel run = thread i alone" is all true, for every schedule and every number k of threads *)
    Variable leqb : Local -> Local -> bool.
    Hypothesis leqb_refl : forall l, leqb l l = true.

    Definition equal_flags (sched : list nat) (s : Shared) (ls : nat -> Local) (k : nat) : list bool :=
      map (fun t => leqb (snd (run sched s ls) t) (solo (steps_of sched t) s (ls t))) (seq 0 k).

    Corollary equal_flags_all_true sched s ls k : equal_flags sched s ls k = repeat true k.
    Proof.
      unfold equal_flags.
      assert (G : forall a, map (fun t => leqb (snd (run sched s ls) t) (solo (steps_of sched t) s (ls t))) (seq a k) = repeat true k).
      { induction k as [|k IH]; intros a; cbn [seq map repeat]; [reflexivity|].
        rewrite (proj2 (interleaving_is_solo sched s ls a)), leqb_refl. f_equal. apply IH. }
      apply G.
    Qed.
  End Frame.

  (* ---------- from the scan to the frame condition ---------- *)

  (* `at_site l` : the instruction that the thread in private state l is about to execute is one of the instructions listed by the scan
     (None: it is not). `scanned sites at_site` is what the scanner is trusted for:
       (1) complete: every instruction it classifies as a possible write to non-private memory is in the list;
       (2) sound: an instruction it does not classify so leaves the shared store as it is. *)
  Variable at_site : Local -> option site.

  Record scanned (sites : list site) : Prop := {
    scan_complete : forall l st, at_site l = Some st -> In st sites;
    scan_sound    : forall s l, at_site l = None -> fst (step s l) = s
  }.

  Lemma premise_gives_frame sites : scanned sites -> premise sites -> forall s l, fst (step s l) = s.
  Proof.
    intros [Hc Hs] P s l. unfold premise in P. subst sites.
    destruct (at_site l) as [st|] eqn:E; [destruct (Hc l st E)|]. exact (Hs s l E).
  Qed.

  (* C19 as stated: under the premise, for every schedule, parallel = solo and the shared store is unchanged *)
  Theorem noninterference_under_premise sites : scanned sites -> premise sites ->
    forall sched s ls t,
      fst (run sched s ls) = s /\ snd (run sched s ls) t = solo (steps_of sched t) s (ls t).
  Proof. intros Sc P sched s ls t. exact (interleaving_is_solo (premise_gives_frame sites Sc P) sched s ls t). Qed.

  Theorem finished_call_same_result_under_premise sites : scanned sites -> premise sites ->
    forall sched s ls t n, finished s (solo n s (ls t)) -> n <= steps_of sched t -> snd (run sched s ls) t = solo n s (ls t).
  Proof. intros Sc P. exact (finished_call_same_result (premise_gives_frame sites Sc P)). Qed.
End Conc.

(* What `scanned` amounts to. With an empty list it is exactly the frame condition (so the theorems "under the premise" are the frame theorem
   read through the scanner's report, not a stronger result), and with a non-empty list it constrains nothing by itself (every machine is
   `scanned` by the list that blames every instruction). The logical content of C19 on the machine is the frame theorem; what `scanned` adds is
   the *name* of what is trusted about the Go tool chain: the report of harness/cmd/vscan is complete and an unreported instruction does not write. *)
Lemma scanned_nil_iff_frame (Shared Local : Type) (step : Shared -> Local -> Shared * Local) :
  (exists at_site, scanned Shared Local step at_site []) <-> (forall s l, fst (step s l) = s).
Proof.
  split.
  - intros [at_site Sc]. exact (premise_gives_frame Shared Local step at_site [] Sc eq_refl).
  - intro F. exists (fun _ => None). split; [intros l st H; discriminate H | intros s l _; apply F].
Qed.

Lemma scanned_blame_everything (Shared Local : Type) (step : Shared -> Local -> Shared * Local) (st : site) :
  scanned Shared Local step (fun _ => Some st) [st].
Proof. split; [intros l st' H; injection H as <-; left; reflexivity | intros s l H; discriminate H]. Qed.

(* The form instantiated by the generated file (step "ssa-premise": `shared_sites` is the list printed by the scan of the tree under analysis):
   `premiseb sites = true` is discharged there by `eq_refl`, which type-checks only when the generated list is empty. *)
Theorem noninterference_for_scanned_list (sites : list site) : premiseb sites = true ->
  forall (Shared Local : Type) (step : Shared -> Local -> Shared * Local) (at_site : Local -> option site),
    scanned Shared Local step at_site sites ->
    forall sched s ls t,
      fst (run Shared Local step sched s ls) = s /\
      snd (run Shared Local step sched s ls) t = solo Shared Local step (steps_of sched t) s (ls t).
Proof.
  intros P Sh Lo step at_site Sc. apply (noninterference_under_premise Sh Lo step at_site sites Sc). now apply premiseb_spec.
Qed.

(* ---------- histories: "the result it returns when run alone" ---------- *)

(* A process keeps a state between the calls made in it (package-level variables, caches); a call maps the state and its arguments to a new
   state and a result. `result_after h a` is what the call with arguments `a` returns in a process in which the calls `h` were made before
   (in that order), starting from the state of a fresh process; `result_after [] a` is the result "when run alone".
   If results are functions of the arguments alone (the library keeps no state that a result depends on), every history gives the same result:
   any two processes, fresh or not, agree on every call. The run-time check of this hypothesis is the fresh-process comparison of the harness
   (the same calls made alone in their own process, and made in another order in another process, must return what they return in the mix).
   The converse direction is shown on a memo table keyed on part of the arguments (`Memo`): the first call decides what later calls return. *)
Section History.
  Variables (State Arg Res : Type).
  Variable call : State -> Arg -> State * Res.
  Variable fresh : State.

  Fixpoint state_after (h : list Arg) (s : State) : State :=
    match h with
    | [] => s
    | a :: r => state_after r (fst (call s a))
    end.

  Definition result_after (h : list Arg) (a : Arg) : Res := snd (call (state_after h fresh) a).

  (* results depend on the arguments only, in every state a process can be in *)
  Definition args_only : Prop := exists f : Arg -> Res, forall h a, result_after h a = f a.

  Definition history_independent : Prop := forall h1 h2 a, result_after h1 a = result_after h2 a.

  Theorem args_only_gives_history_independence : args_only -> history_independent.
  Proof. intros [f Hf] h1 h2 a. now rewrite (Hf h1 a), (Hf h2 a). Qed.

  (* in particular: after any history a call returns what it returns as the only call of a fresh process *)
  Corollary args_only_same_as_alone : args_only -> forall h a, result_after h a = result_after [] a.
  Proof. intros H h a. exact (args_only_gives_history_independence H h [] a). Qed.

  (* and conversely: comparing every history with the fresh process is a complete test of the hypothesis *)
  Theorem same_as_alone_gives_args_only : (forall h a, result_after h a = result_after [] a) -> args_only.
  Proof. intro H. exists (fun a => result_after [] a). exact H. Qed.

  Theorem same_as_alone_iff_args_only : (forall h a, result_after h a = result_after [] a) <-> args_only.
  Proof. split; [apply same_as_alone_gives_args_only | apply args_only_same_as_alone]. Qed.

  (* a sufficient condition read off the code: no call changes the state *)
  Lemma stateless_calls_are_args_only : (forall s a, fst (call s a) = s) -> args_only.
  Proof.
    intro F. exists (fun a => snd (call fresh a)). intros h a. unfold result_after.
    assert (E : forall h s, state_after h s = s).
    { induction h0 as [|b r IH]; intro s; cbn; [reflexivity|]. rewrite F. apply IH. }
    now rewrite E.
  Qed.
End History.

(* A memo table keyed on part of the arguments: the argument is (key, row), the true result is key + row, the table remembers the first result
   per key. Run alone, (1, 7) returns 8; after (1, 5) it returns 6. *)
Module Memo.
  Definition State := list (nat * nat).
  Definition Arg := (nat * nat)%type.
  Fixpoint lookup (k : nat) (t : State) : option nat :=
    match t with
    | [] => None
    | (k', v) :: r => if Nat.eqb k k' then Some v else lookup k r
    end.
  Definition call (t : State) (a : Arg) : State * nat :=
    match lookup (fst a) t with
    | Some v => (t, v)
    | None => ((fst a, fst a + snd a) :: t, fst a + snd a)
    end.
  Lemma history_dependent :
    result_after State Arg nat call [] [] (1, 7) = 8 /\ result_after State Arg nat call [] [(1, 5)] (1, 7) = 6.
  Proof. split; reflexivity. Qed.
End Memo.

Theorem memo_on_part_of_the_arguments_is_history_dependent :
  exists (State Arg Res : Type) (call : State -> Arg -> State * Res) (fresh : State), ~ history_independent State Arg Res call fresh.
Proof.
  exists Memo.State, Memo.Arg, nat, Memo.call, []. intro H.
  specialize (H [] [(1, 5)] (1, 7)). destruct Memo.history_dependent as [E1 E2]. rewrite E1, E2 in H. discriminate H.
Qed.

(* ---------- non-vacuity: a concrete system that satisfies the premise ---------- *)

(* Two kinds of calls over a shared read-only argument (a list of numbers): thread state = (program counter, accumulator);
   "sum" adds the shared elements one by one, "count" counts them; a call is finished when its pc is past the end. *)
Module Example2.
  Definition Shared := list nat.
  Record local := { kind : bool; pc : nat; acc : nat }.     (* kind: true = sum, false = count *)
  Definition step (s : Shared) (l : local) : Shared * local :=
    match nth_error s (pc l) with
    | Some x => (s, {| kind := kind l; pc := S (pc l); acc := if kind l then acc l + x else S (acc l) |})
    | None => (s, l)
    end.
  Definition at_site (_ : local) : option site := None.

  Lemma frame s l : fst (step s l) = s.
  Proof. unfold step. destruct (nth_error s (pc l)); reflexivity. Qed.

  Lemma is_scanned : scanned Shared local step at_site [].
  Proof. split; [intros l st H; discriminate H | intros s l _; apply frame]. Qed.

  Definition start (t : nat) : local := {| kind := Nat.even t; pc := 0; acc := 0 |}.
  Definition store : Shared := [3; 5; 7].
  (* threads 0 and 1 interleaved unevenly, thread 0 finishing first *)
  Definition sched : list nat := [0; 1; 0; 0; 1; 0; 1; 1].

  Lemma concrete_run :
    fst (run Shared local step sched store start) = store /\
    acc (snd (run Shared local step sched store start) 0) = 15 /\
    acc (snd (run Shared local step sched store start) 1) = 3 /\
    acc (solo Shared local step 4 store (start 0)) = 15 /\
    acc (solo Shared local step 4 store (start 1)) = 3.
  Proof. vm_compute. repeat split. Qed.
End Example2.

(* ---------- the premise cannot be dropped: one write site makes the schedule observable ---------- *)

(* A "memoising" call: the shared store is a cache cell; a call reads the cell into its result and then writes its own argument into it.
   Run alone from an empty cache the call returns 0; after another call has run it returns the other call's argument. *)
Module Cache.
  Definition Shared := nat.
  Record local := { arg : nat; pc : nat; res : nat }.
  Definition step (s : Shared) (l : local) : Shared * local :=
    match pc l with
    | 0 => (s, {| arg := arg l; pc := 1; res := s |})          (* read the cache *)
    | 1 => (arg l, {| arg := arg l; pc := 2; res := res l |})    (* write the cache: the write site *)
    | _ => (s, l)
    end.
  Definition start (t : nat) : local := {| arg := S t; pc := 0; res := 0 |}.

  Lemma schedule_observable :
    res (snd (run Shared local step [0; 0; 1; 1] 0 start) 1) = 1 /\
    res (solo Shared local step 2 0 (start 1)) = 0.
  Proof. vm_compute. split; reflexivity. Qed.
End Cache.

Theorem write_site_breaks_noninterference :
  exists (Shared Local : Type) (step : Shared -> Local -> Shared * Local) sched s ls t,
    snd (run Shared Local step sched s ls) t <> solo Shared Local step (steps_of sched t) s (ls t).
Proof.
  exists Cache.Shared, Cache.local, Cache.step, [0; 0; 1; 1], 0, Cache.start, 1.
  intro H. apply (f_equal Cache.res) in H. vm_compute in H. discriminate H.
Qed.
