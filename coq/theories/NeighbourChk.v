(* NeighbourChk.v — C08, review round: the run-time checkers used by DC08 and what they are proved to mean.
   (Neighbour.v is imported by many other properties and is left untouched; its earlier checkers check_fixed / check_N are no longer
   used by DC08.)  Differences to the earlier checkers:
   - three-valued: `None` = the case is outside the domain on which the model claims anything (an ID that parses but is not valid —
     zoom outside 0..35, index outside the grid — or layer counts beyond the capacity bound); the dispatch entry answers bad_case there;
   - no input class is answered `true` wholesale: malformed IDs and negative layer counts have a definite expected observation
     (empty strings / an error with no list), the number of members of a fixed-size query is checked at every zoom;
   - spelling: an accepted non-canonical spelling ("+3/07/-0/+1/-01") of a valid ID is judged like its canonical form (proved below). *)
From Coq Require Import ZArith Lia List Bool String.
From SID Require Import Base Str Ids Shift Neighbour.
Import ListNotations.
Open Scope Z_scope.
Open Scope list_scope.

(* ---- capacity bound ----
   The Go code allocates make([]string, 0, (2V+1)(2H+1)^2 - 1) before looping: 16 bytes per slot whatever the input list, a panic
   ("makeslice: cap out of range") once the product wraps or exceeds the address space (observed: H = 1730000000, V = 0).
   The model has no such limit; everything said about the code is said under this bound (2^16 slots = 1 MiB). *)
Definition capacity (H V : Z) : Z := (2 * H + 1) * (2 * H + 1) * (2 * V + 1).
Definition capacity_ok (H V : Z) : Prop := 0 <= H /\ 0 <= V /\ capacity H V <= 2 ^ 16.
Definition capacity_okb (H V : Z) : bool := (0 <=? H) && (0 <=? V) && (capacity H V <=? 2 ^ 16).
Lemma capacity_okb_spec H V : capacity_okb H V = true <-> capacity_ok H V.
Proof. unfold capacity_okb, capacity_ok. rewrite !andb_true_iff, !Z.leb_le. tauto. Qed.

(* ---- spelling independence: the models read an ID only through parse_eid ---- *)
Lemma shift_api_spell s i dx dy dv : parse_eid s = Some i -> fields_ok i = true ->
  shift_api s dx dy dv = shift_api (print_eid i) dx dy dv.
Proof. intros P F. unfold shift_api. now rewrite P, parse_print_eid. Qed.
Theorem n6_spell s i : parse_eid s = Some i -> fields_ok i = true -> n6_api s = n6_api (print_eid i).
Proof. intros P F. unfold n6_api. cbn [flat_map]. now rewrite !(shift_api_spell s i) by assumption. Qed.
Theorem n8_spell s i : parse_eid s = Some i -> fields_ok i = true -> n8_api s = n8_api (print_eid i).
Proof. intros P F. unfold n8_api. cbn [flat_map]. now rewrite !(shift_api_spell s i) by assumption. Qed.
Theorem n26_spell s i : parse_eid s = Some i -> fields_ok i = true -> n26_api s = n26_api (print_eid i).
Proof. intros P F. unfold n26_api, layer26. cbn [flat_map]. now rewrite !(shift_api_spell s i) by assumption. Qed.
(* lists: ss spells l member by member *)
Definition spells (ss : list string) (l : list eid) : Prop := Forall2 (fun s i => parse_eid s = Some i /\ fields_ok i = true) ss l.
Lemma spells_parse_all ss l : spells ss l -> parse_all ss = Some l.
Proof. induction 1 as [|s i ss l [P F] _ IH]; cbn; [reflexivity|]. now rewrite P, IH. Qed.
Lemma spells_print l : forallb fields_ok l = true -> spells (map print_eid l) l.
Proof.
  induction l as [|a r IH]; cbn [map forallb]; intros H; constructor.
  - apply andb_true_iff in H. destruct H as [Ha _]. split; [now apply parse_print_eid|exact Ha].
  - apply IH. apply andb_true_iff in H. tauto.
Qed.
Theorem nN_spell ss l H V : spells ss l -> nN_api ss H V = nN_api (map print_eid l) H V.
Proof.
  intros S. unfold nN_api. destruct ((H <? 0) || (V <? 0)); [reflexivity|].
  assert (W : forallb well_formed ss = true /\ forallb well_formed (map print_eid l) = true).
  { induction S as [|s i ss l [P F] _ IH]; cbn [map forallb]; [auto|]. destruct IH as [A B]. rewrite A, B.
    unfold well_formed. rewrite P, parse_print_eid by exact F. auto. }
  destruct W as [W1 W2]. rewrite W1, W2. cbn [negb]. do 2 f_equal. rewrite !loops_stencil.
  apply flat_map_ext. intros o. induction S as [|s i ss l [P F] _ IH]; cbn [map]; [reflexivity|].
  f_equal; [|apply IH; (cbn [map forallb] in W1, W2; apply andb_true_iff in W1, W2; tauto)].
  unfold shift_str. now apply shift_api_spell.
Qed.

(* ---- fixed-size queries ---- *)
Definition empties (k : nat) : list string := repeat EmptyString k.
Definition check_fixed3 (offs : list off) (id : string) (obs : list string) : option bool :=
  match parse_eid id with
  | None => Some (list_eqb String.eqb obs (empties (List.length offs)))    (* no error result: one empty string per offset *)
  | Some i =>
      if validb i then
        Some (set_eq obs (nb_ref i offs) && Nat.eqb (List.length obs) (List.length offs) &&
              (if 3 <=? 2 ^ eh i then nodup_chk obs && negb (mem_str (print_eid i) obs) else true))
      else None
  end.
(* the `else true` above is the property itself: distinctness and "not the voxel itself" are claimed only where 3 <= 2^h *)
Theorem check_fixed3_sound offs s i obs : parse_eid s = Some i -> valid i -> check_fixed3 offs s obs = Some true ->
  (forall m, In m obs <-> exists o, In o offs /\ m = print_eid (shift_o i o)) /\
  List.length obs = List.length offs /\
  (3 <= 2 ^ eh i -> NoDup obs /\ ~ In (print_eid i) obs).
Proof.
  intros P Hv. unfold check_fixed3. rewrite P, (proj2 (validb_spec i) Hv). intros [= E].
  rewrite !andb_true_iff in E. destruct E as [[A L] B]. split; [|split].
  - intros m. rewrite (proj1 (set_eq_spec _ _) A m). unfold nb_ref. rewrite in_map_iff. split.
    + intros (o & <- & Ho). eauto.
    + intros (o & Ho & ->). eauto.
  - now apply Nat.eqb_eq.
  - intros Hn. apply Z.leb_le in Hn. rewrite Hn in B. rewrite andb_true_iff in B. destruct B as [B2 B3].
    split; [now apply nodup_chk_sound|]. intros Hc. apply mem_str_In in Hc. rewrite Hc in B3. discriminate.
Qed.
Theorem check_fixed3_malformed offs s obs : parse_eid s = None -> check_fixed3 offs s obs = Some true ->
  obs = empties (List.length offs).
Proof.
  intros P. unfold check_fixed3. rewrite P. intros [= E].
  now destruct (list_eqb_spec String.eqb String.eqb_spec obs (empties (List.length offs))).
Qed.

(* ---- N-layer query ----  obs = (error?, list).  On an error the list must be absent/empty. *)
Definition check_N3 (ids : list string) (H V : Z) (err : bool) (r : list string) : option bool :=
  let is_err_empty := err && match r with [] => true | _ => false end in
  if (H <? 0) || (V <? 0) then Some is_err_empty
  else if negb (capacity_okb H V) then None
  else match parse_all ids with
       | None => Some is_err_empty
       | Some l =>
           if forallb validb l then
             Some (negb err && set_eq r (nN_ref l H V) && nodup_chk r && count_ok l H V r)
           else None
       end.
Theorem check_N3_sound ss l H V err r : spells ss l -> valids l -> capacity_ok H V -> check_N3 ss H V err r = Some true ->
  err = false /\ NoDup r /\
  (forall s, In s r <-> exists i o, In i l /\ In o (stencil H V) /\ s = print_eid (shift_o i o)) /\
  (forall i, l = [i] -> 2 * H + 1 <= 2 ^ eh i ->
     Z.of_nat (List.length r) = (2 * H + 1) * (2 * H + 1) * (2 * V + 1) - 1 /\ ~ In (print_eid i) r).
Proof.
  intros S Hl Hc. pose proof Hc as (HH & HV & _). unfold check_N3.
  replace ((H <? 0) || (V <? 0)) with false by (symmetry; apply orb_false_iff; split; apply Z.ltb_ge; assumption).
  rewrite (proj2 (capacity_okb_spec H V) Hc). cbn [negb]. rewrite (spells_parse_all _ _ S).
  replace (forallb validb l) with true by (symmetry; apply forallb_forall; intros i Hi; apply validb_spec; now apply Hl).
  intros [= E]. rewrite !andb_true_iff in E. destruct E as [[[E0 A] B] C].
  split; [now destruct err|]. split; [now apply nodup_chk_sound|]. split.
  - intros s. rewrite (proj1 (set_eq_spec _ _) A s). apply in_nN_ref.
  - intros i -> Hn. unfold count_ok in C. apply Z.leb_le in Hn. rewrite Hn in C.
    rewrite andb_true_iff in C. destruct C as [C1 C2]. split; [now apply Z.eqb_eq|].
    intros Hm. apply mem_str_In in Hm. rewrite Hm in C2. discriminate.
Qed.
Theorem check_N3_error_cases ids H V err r :
  (H < 0 \/ V < 0 \/ (capacity_ok H V /\ parse_all ids = None)) -> check_N3 ids H V err r = Some true -> err = true /\ r = [].
Proof.
  intros D. unfold check_N3.
  assert (G : Some (err && match r with [] => true | _ => false end) = Some true -> err = true /\ r = []).
  { intros [= E]. apply andb_true_iff in E. destruct E as [E1 E2]. split; [exact E1|]. now destruct r. }
  destruct (Z.ltb_spec H 0) as [h|h]; cbn [orb]; [exact G|]. destruct (Z.ltb_spec V 0) as [v|v]; [exact G|].
  destruct D as [D|[D|[D1 D2]]]; try lia. rewrite (proj2 (capacity_okb_spec H V) D1), D2. exact G.
Qed.
(* what the model does in the error cases is exactly what the checker demands there (Neighbour.nN_negative, nN_malformed: Err) *)

(* ---- the theorems about the model, restated on the domain on which they are claimed of the code (capacity bound) ---- *)
Theorem cap_nN_exact l H V : valids l -> capacity_ok H V ->
  exists r, nN_api (map print_eid l) H V = Ok r /\ NoDup r /\
    forall s, In s r <-> exists i dx dy dv, In i l /\ - H <= dx <= H /\ - H <= dy <= H /\ - V <= dv <= V /\
                                     ~ (dx = 0 /\ dy = 0 /\ dv = 0) /\ s = print_eid (shift_spec i dx dy dv).
Proof. intros Hl (HH & HV & _). now apply v_nN_exact. Qed.
Theorem cap_nN_count i H V : valid i -> capacity_ok H V -> 2 * H + 1 <= 2 ^ eh i ->
  exists r, nN_api [print_eid i] H V = Ok r /\ NoDup r /\
    Z.of_nat (List.length r) = (2 * H + 1) * (2 * H + 1) * (2 * V + 1) - 1 /\ ~ In (print_eid i) r.
Proof. intros Hv (HH & HV & _). now apply v_nN_count. Qed.
Theorem cap_nN_union l H V s : valids l -> capacity_ok H V ->
  (In s (nN_list (map print_eid l) H V) <-> exists i, In i l /\ In s (nN_list [print_eid i] H V)).
Proof. intros Hl (HH & HV & _). now apply v_nN_union. Qed.
Theorem cap_nN_empty H V : capacity_ok H V -> nN_api [] H V = Ok [].
Proof. intros (HH & HV & _). now apply nN_empty_input. Qed.
Theorem cap_nN_symmetric H V i j : capacity_ok H V -> valid i -> valid j ->
  (In (print_eid j) (nN_list [print_eid i] H V) <-> In (print_eid i) (nN_list [print_eid j] H V)).
Proof. intros (HH & HV & _). now apply v_nN_symmetric. Qed.
Lemma capacity_V_small H V : capacity_ok H V -> 0 <= V <= 2 ^ 61.
Proof.
  intros (HH & HV & C). unfold capacity in C. split; [exact HV|].
  assert (2 ^ 16 <= 2 ^ 61) by (apply Z.pow_le_mono_r; lia). nia.
Qed.
Theorem cap_nN_asym_nil i H V : valid i -> capacity_ok H V -> asym (nN1 H V) (print_eid i) = [].
Proof. intros Hv Hc. pose proof (capacity_V_small H V Hc). destruct Hc as (HH & _). now apply nN_asym_nil. Qed.
(* accepted spellings of valid IDs: the whole list query *)
Theorem cap_nN_spelling ss l H V : spells ss l -> nN_api ss H V = nN_api (map print_eid l) H V.
Proof. exact (nN_spell ss l H V). Qed.
