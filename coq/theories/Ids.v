(* Ids.v — extended spatial IDs as records and as strings (object.ExtendedSpatialID, ResetExtendedSpatialID, ID()) *)
From Coq Require Import ZArith String Ascii List Bool Lia DecimalString Decimal.
From SID Require Import Base Str.
Import ListNotations.
Open Scope Z_scope.

Record eid := { eh : Z; ex : Z; ey : Z; ev : Z; ef : Z }.
Definition mk h x y v f := {| eh := h; ex := x; ey := y; ev := v; ef := f |}.

Definition eid_eqb (a b : eid) : bool :=
  (eh a =? eh b) && (ex a =? ex b) && (ey a =? ey b) && (ev a =? ev b) && (ef a =? ef b).
Lemma eid_eqb_spec a b : reflect (a = b) (eid_eqb a b).
Proof.
  destruct a as [a1 a2 a3 a4 a5], b as [b1 b2 b3 b4 b5]. unfold eid_eqb; cbn.
  destruct (Z.eqb_spec a1 b1), (Z.eqb_spec a2 b2), (Z.eqb_spec a3 b3), (Z.eqb_spec a4 b4), (Z.eqb_spec a5 b5);
    cbn; constructor; congruence.
Qed.

(* valid IDs of the grid *)
Definition valid (i : eid) : Prop :=
  0 <= eh i <= 35 /\ 0 <= ev i <= 35 /\ 0 <= ex i < 2 ^ eh i /\ 0 <= ey i < 2 ^ eh i /\ - 2 ^ ev i <= ef i < 2 ^ ev i.
Definition validb (i : eid) : bool :=
  (0 <=? eh i) && (eh i <=? 35) && (0 <=? ev i) && (ev i <=? 35) &&
  (0 <=? ex i) && (ex i <? 2 ^ eh i) && (0 <=? ey i) && (ey i <? 2 ^ eh i) &&
  (- 2 ^ ev i <=? ef i) && (ef i <? 2 ^ ev i).
Lemma validb_spec i : validb i = true <-> valid i.
Proof. unfold validb, valid. rewrite !andb_true_iff, !Z.leb_le, !Z.ltb_lt. tauto. Qed.

(* object.ResetExtendedSpatialID: split on "/", exactly five fields, each an int64 *)
Definition parse_eid (s : string) : option eid :=
  match split s with
  | [a; b; c; d; e] =>
      match parse a, parse b, parse c, parse d, parse e with
      | Some h, Some x, Some y, Some v, Some f => Some {| eh := h; ex := x; ey := y; ev := v; ef := f |}
      | _, _, _, _, _ => None
      end
  | _ => None
  end.
(* ExtendedSpatialID.ID() *)
Definition print_eid (i : eid) : string :=
  join [print (eh i); print (ex i); print (ey i); print (ev i); print (ef i)].

Lemma nilempty_noslash w : noslash (NilEmpty.string_of_uint w) = true.
Proof. induction w; cbn; auto. Qed.
Lemma nilzero_noslash u : noslash (NilZero.string_of_uint u) = true.
Proof. unfold NilZero.string_of_uint. destruct u; try reflexivity; apply nilempty_noslash. Qed.
Lemma print_noslash z : noslash (print z) = true.
Proof.
  unfold print, NilZero.string_of_int. destruct (Z.to_int z) as [u|u].
  - apply nilzero_noslash.
  - cbn [noslash]. rewrite nilzero_noslash. reflexivity.
Qed.

Definition fields_ok (i : eid) : bool :=
  int64_ok (eh i) && int64_ok (ex i) && int64_ok (ey i) && int64_ok (ev i) && int64_ok (ef i).

Lemma valid_fields_ok i : valid i -> fields_ok i = true.
Proof.
  intros (Hh & Hv & Hx & Hy & Hf). unfold fields_ok, int64_ok.
  assert (P : forall z, 0 <= z <= 35 -> 2 ^ z <= 2 ^ 35) by (intros; apply Z.pow_le_mono_r; lia).
  pose proof (P _ Hh). pose proof (P _ Hv).
  assert (2 ^ 35 < 2 ^ 63) by (apply Z.pow_lt_mono_r; lia).
  rewrite !andb_true_iff, !Z.leb_le, !Z.ltb_lt. lia.
Qed.

(* parsing what was printed returns the same five numbers in the same positions *)
Theorem parse_print_eid i : fields_ok i = true -> parse_eid (print_eid i) = Some i.
Proof.
  unfold fields_ok. rewrite !andb_true_iff. intros ((((H1 & H2) & H3) & H4) & H5).
  unfold parse_eid, print_eid. rewrite split_join.
  - rewrite !parse_print by assumption. destruct i; reflexivity.
  - discriminate.
  - cbn. rewrite !print_noslash. reflexivity.
Qed.

Fixpoint parse_all (l : list string) : option (list eid) :=
  match l with
  | [] => Some []
  | s :: r => match parse_eid s, parse_all r with Some i, Some t => Some (i :: t) | _, _ => None end
  end.
Lemma parse_all_None l s : In s l -> parse_eid s = None -> parse_all l = None.
Proof.
  induction l as [|a r IH]; [contradiction|]. cbn. intros [->|Hin] Hs.
  - now rewrite Hs.
  - rewrite (IH Hin Hs). destruct (parse_eid a); reflexivity.
Qed.
Lemma parse_all_print l : forallb fields_ok l = true -> parse_all (map print_eid l) = Some l.
Proof.
  induction l as [|a r IH]; cbn [forallb map parse_all]; [reflexivity|]. rewrite andb_true_iff. intros [Ha Hr].
  now rewrite parse_print_eid, IH.
Qed.

Definition check_zoom (z : Z) : bool := (0 <=? z) && (z <=? 35).
Lemma check_zoom_spec z : check_zoom z = true <-> 0 <= z <= 35.
Proof. unfold check_zoom. rewrite andb_true_iff, !Z.leb_le. tauto. Qed.

(* ---- shape.ConvertSpatialIdsToExtendedSpatialIds / ConvertExtendedSpatialIdsToSpatialIds: field permutations on the split strings ---- *)
Definition sid_to_eid_str (s : string) : option string :=
  match split s with
  | [z; f; x; y] => Some (join [z; x; y; z; f])
  | _ => None
  end.
Definition eid_to_sid_str (s : string) : option string :=
  match split s with
  | [h; x; y; v; f] => Some (join [h; f; x; y])
  | _ => None
  end.
Fixpoint map_opt {A B} (f : A -> option B) (l : list A) : option (list B) :=
  match l with
  | [] => Some []
  | a :: r => match f a with
              | Some b => match map_opt f r with Some t => Some (b :: t) | None => None end
              | None => None
              end
  end.
Definition sids_to_eids (l : list string) : result (list string) :=
  match map_opt sid_to_eid_str l with Some r => Ok r | None => Err end.
Definition eids_to_sids (l : list string) : result (list string) :=
  match map_opt eid_to_sid_str l with Some r => Ok r | None => Err end.

Lemma map_opt_length {A B} (f : A -> option B) l r : map_opt f l = Some r -> length r = length l.
Proof.
  revert r. induction l as [|a l IH]; cbn; intros r.
  - intros [= <-]. reflexivity.
  - destruct (f a); [|discriminate]. destruct (map_opt f l); [|discriminate]. intros [= <-]. cbn. f_equal. now apply IH.
Qed.
Lemma map_opt_None {A B} (f : A -> option B) l a : In a l -> f a = None -> map_opt f l = None.
Proof.
  induction l as [|b l IH]; [contradiction|]. cbn. intros [->|Hin] Ha.
  - now rewrite Ha.
  - destruct (f b); [|reflexivity]. now rewrite IH.
Qed.
Lemma map_opt_nth {A B} (f : A -> option B) l r n a : map_opt f l = Some r -> nth_error l n = Some a ->
  exists b, nth_error r n = Some b /\ f a = Some b.
Proof.
  revert r n. induction l as [|x l IH]; cbn; intros r n.
  - intros _ H. destruct n; discriminate.
  - destruct (f x) as [b|] eqn:E; [|discriminate]. destruct (map_opt f l) as [t|]; [|discriminate].
    intros [= <-]. destruct n as [|n]; cbn.
    + intros [= <-]. eauto.
    + intros H. eapply IH; eauto.
Qed.

(* ---- the ancestor-or-equal relation between voxels (pure integer form; Voxel.v proves it equivalent to "the regions meet") ---- *)
(* one-axis relation: the coarser index is the ancestor of the finer *)
Definition rel1 (z1 i1 z2 i2 : Z) : Prop :=
  if z1 <=? z2 then anc (z2 - z1) i2 = i1 else anc (z1 - z2) i1 = i2.
Definition overlaps (i j : eid) : Prop :=
  rel1 (eh i) (ex i) (eh j) (ex j) /\ rel1 (eh i) (ey i) (eh j) (ey j) /\ rel1 (ev i) (ef i) (ev j) (ef j).
Definition rel1b (z1 i1 z2 i2 : Z) : bool :=
  if z1 <=? z2 then anc (z2 - z1) i2 =? i1 else anc (z1 - z2) i1 =? i2.
Definition overlapsb (i j : eid) : bool :=
  rel1b (eh i) (ex i) (eh j) (ex j) && rel1b (eh i) (ey i) (eh j) (ey j) && rel1b (ev i) (ef i) (ev j) (ef j).
Lemma rel1b_spec z1 i1 z2 i2 : rel1b z1 i1 z2 i2 = true <-> rel1 z1 i1 z2 i2.
Proof. unfold rel1b, rel1. destruct (z1 <=? z2); apply Z.eqb_eq. Qed.
Lemma overlapsb_spec i j : overlapsb i j = true <-> overlaps i j.
Proof. unfold overlapsb, overlaps. rewrite !andb_true_iff, !rel1b_spec. tauto. Qed.
Lemma rel1_sym z1 i1 z2 i2 : rel1 z1 i1 z2 i2 <-> rel1 z2 i2 z1 i1.
Proof.
  unfold rel1. destruct (Z.leb_spec z1 z2), (Z.leb_spec z2 z1); try tauto; try lia.
  assert (z1 = z2) by lia. subst. rewrite Z.sub_diag, !anc_0. split; congruence.
Qed.
Lemma rel1_refl z i : rel1 z i z i.
Proof. unfold rel1. rewrite Z.leb_refl, Z.sub_diag. apply anc_0. Qed.
Lemma overlaps_sym i j : overlaps i j <-> overlaps j i.
Proof. unfold overlaps. rewrite (rel1_sym (eh i)), (rel1_sym (eh i) (ey i)), (rel1_sym (ev i)). tauto. Qed.
Lemma overlaps_refl i : overlaps i i.
Proof. unfold overlaps. repeat split; apply rel1_refl. Qed.
