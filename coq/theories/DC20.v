(* DC20.v — dispatch entries of property C20 (the exported helper algebra obeys its mathematical laws).
   corr = the executable model's output equals the implementation's observed output (sets as sorted lists, ordered lists in order,
          visit sequences in order, floats bit for bit);
   prop = the law's boolean checker accepts the implementation's observed output. *)
From Coq Require Import ZArith String List Bool Floats.
From SID Require Import Base Str Wire F64 ExactRef SetOps SetMore Comb VecF OrdMax PointLaws MatCtor.
Import ListNotations.
Local Open Scope list_scope.
Open Scope string_scope.

(* ---------- generic set helpers, instantiated at int64 and string ---------- *)
Section Generic.
  Context {A : Type} (eqb : A -> A -> bool) (sort : list A -> list A) (asL : val -> option (list A)) (ofL : list A -> val)
          (as1 : val -> option A).
  Definition idord (l : list A) : list A := l.
  Definition leq (a b : list A) : bool := list_eqb eqb a b.
  Definition d_union (args : list val) (obs : val) : verdict :=
    match args with
    | [a; b] => match asL a, asL b, asL obs with
                | Some l1, Some l2, Some o =>
                    let m := union eqb idord l1 l2 in
                    mkv (leq (sort m) (sort o)) (is_set_of eqb (l1 ++ l2) o) "-" (ofL (sort m))
                | _, _, _ => bad_case end
    | _ => bad_case
    end.
  Definition d_unique (args : list val) (obs : val) : verdict :=
    match args with
    | [a] => match asL a, asL obs with
             | Some l, Some o =>
                 let m := unique eqb idord l in
                 mkv (leq (sort m) (sort o)) (is_set_of eqb l o) "-" (ofL (sort m))
             | _, _ => bad_case end
    | _ => bad_case
    end.
  Definition d_difference (args : list val) (obs : val) : verdict :=
    match args with
    | [a; b] => match asL a, asL b, asL obs with
                | Some l1, Some l2, Some o =>
                    let m := difference eqb l1 l2 in
                    mkv (leq m o) (follows eqb (fun x => negb (memb eqb x l2)) l1 o) "-" (ofL m)
                | _, _, _ => bad_case end
    | _ => bad_case
    end.
  Definition d_intersect (args : list val) (obs : val) : verdict :=
    match args with
    | [a; b] => match asL a, asL b, asL obs with
                | Some l1, Some l2, Some o =>
                    let m := intersect eqb l1 l2 in
                    mkv (leq m o) (follows eqb (fun x => memb eqb x l1) l2 o) "-" (ofL m)
                | _, _, _ => bad_case end
    | _ => bad_case
    end.
  Definition d_include (args : list val) (obs : val) : verdict :=
    match args with
    | [a; x] => match asL a, as1 x, obs with
                | Some l, Some t, VB o =>
                    let m := include eqb l t in
                    mkv (Bool.eqb m o) (check_include eqb l t o) "-" (VB m)
                | _, _, _ => bad_case end
    | _ => bad_case
    end.
End Generic.

(* ---------- Max / Min (int64) ---------- *)
Definition res_Z (r : result Z) : val := match r with Ok z => VZ z | Err => VE (VZ 0) end.
Definition d_maxmin (is_max : bool) (args : list val) (obs : val) : verdict :=
  match args with
  | [a] => match as_LZ a with
           | Some l =>
               let m := if is_max then maxl l else minl l in
               let corr := match m, obs with Err, VE (VZ 0%Z) => true | Ok z, VZ o => Z.eqb z o | _, _ => false end in
               let prop := match l, obs with
                           | [], VE _ => true
                           | _ :: _, VZ o => if is_max then check_max l o else check_min l o
                           | _, _ => false end in
               mkv corr prop "-" (res_Z m)
           | None => bad_case end
  | _ => bad_case
  end.

(* ---------- CalculateArithmeticShift ---------- *)
Definition in_int64 (z : Z) : bool := (- 2 ^ 63 <=? z)%Z && (z <? 2 ^ 63)%Z.
Definition shift_domain (i s : Z) : bool :=
  in_int64 i && (-63 <? s)%Z && (s <? 63)%Z && (if (0 <=? s)%Z then in_int64 (i * 2 ^ s) else true).
Definition d_ashift (args : list val) (obs : val) : verdict :=
  match args, obs with
  | [VZ i; VZ s], VZ o =>
      if shift_domain i s then mkv (Z.eqb (ashift i s) o) (check_ashift i s o) "-" (VZ (ashift i s))
      else bad_case                                  (* outside the property's quantifier: never generated *)
  | _, _ => bad_case
  end.

(* ---------- Combinations ---------- *)
Definition as_LLZ (v : val) : option (list (list Z)) :=
  match as_L v with Some l => all_opt (map as_LZ l) | None => None end.
Definition of_LLZ (l : list (list Z)) : val := VL (map of_LZ l).
Definition d_comb (args : list val) (obs : val) : verdict :=
  match args, as_LLZ obs with
  | [VZ n; VZ k], Some o =>
      if (0 <=? k)%Z && (k <=? n)%Z && (n <=? 12)%Z then
        match combinations n k with
        | Some m => mkv (ll_eqb m o) (check_comb n k o) "-" (of_LLZ m)
        | None => bad_case
        end
      else bad_case
  | _, _ => bad_case
  end.

(* ---------- floats ---------- *)
Definition as_fvec (v : val) : option fvec := match v with VL [VF a; VF b; VF c] => Some (FV a b c) | _ => None end.
Definition of_fvec (p : fvec) : val := VL [VF (fx p); VF (fy p); VF (fz p)].
Definition as_fquat (v : val) : option fquat := match v with VL [VF w; VF a; VF b; VF c] => Some (FQ w a b c) | _ => None end.
Definition of_fquat (q : fquat) : val := VL [VF (fqw q); VF (fqx q); VF (fqy q); VF (fqz q)].
Definition as_fmat (v : val) : option fmat :=
  match v with VL [VF a; VF b; VF c; VF d; VF e; VF f; VF g; VF h; VF i] => Some (FM a b c d e f g h i) | _ => None end.
Definition of_fmat (m : fmat) : val := VL (map VF (fmat_list m)).
Definition hyp_of (oracle : oracle_t) (x y : float) : float := match oracle "hypot" [VF x; VF y] with VF r => r | _ => nan end.
Definition fun_of (oracle : oracle_t) (name : string) (x : float) : float := match oracle name [VF x] with VF r => r | _ => nan end.

(* bitwise comparison of two wire values of the same shape *)
Fixpoint val_eqb (a b : val) : bool :=
  match a, b with
  | VF x, VF y => feqb_bits x y
  | VB x, VB y => Bool.eqb x y
  | VZ x, VZ y => Z.eqb x y
  | VL l, VL k => (fix go (l k : list val) : bool :=
                     match l, k with [] , [] => true | x :: l', y :: k' => val_eqb x y && go l' k' | _, _ => false end) l k
  | VE x, VE y => val_eqb x y
  | VNil, VNil => true
  | _, _ => false
  end.

Definition dquat_of (q : fquat) : option dquat :=
  match dy_of (fqw q), dy_of (fqx q), dy_of (fqy q), dy_of (fqz q) with
  | Some w, Some x, Some y, Some z => Some (w, x, y, z)
  | _, _, _, _ => None
  end.
Definition dmat_of (m : fmat) : option dmat :=
  match dvec_of (FV (f00 m) (f01 m) (f02 m)), dvec_of (FV (f10 m) (f11 m) (f12 m)), dvec_of (FV (f20 m) (f21 m) (f22 m)) with
  | Some a, Some b, Some c => Some (a, b, c)
  | _, _, _ => None
  end.
Definition opt_vec (v : val) : option dvec := match as_fvec v with Some f => dvec_of f | None => None end.
Definition opt_dy (v : val) : option dy := match v with VF f => dy_of f | _ => None end.
Definition opt_mat (v : val) : option dmat := match as_fmat v with Some f => dmat_of f | None => None end.
Definition opt_quat (v : val) : option dquat := match as_fquat v with Some f => dquat_of f | None => None end.

(* VecOps: a, b, f |-> [Add; Sub; Scale f a; Dot; Cross; L1Norm a; Norm a; Norm b; Unit a; Cos; Translate; DistancePoint;
                        NewVectorFromPoints a b; a.(a x b); b.(a x b); a.a; b.b] *)
Definition vecops_model (hyp : float -> float -> float) (a b : fvec) (f : float) : val :=
  let c := fcross a b in
  VL [of_fvec (fadd a b); of_fvec (fsub a b); of_fvec (fscale f a); VF (fdot a b); of_fvec c; VF (fl1norm a);
      VF (fnorm hyp a); VF (fnorm hyp b); of_fvec (funit hyp a); VF (fcosv hyp a b); of_fvec (ftranslate a b);
      VF (fdistance hyp a b); of_fvec (fvec_from_points a b); VF (fdot a c); VF (fdot b c); VF (fdot a a); VF (fdot b b)].
Definition vecops_check (a b : dvec) (f : dy) (obs : val) : bool :=
  let ex := dv_forall small_int a && dv_forall small_int b && small_int f in
  match obs with
  | VL [oadd; osub; oscale; odot; ocross; ol1; ona; onb; ounit; ocos; otr; odist; ofp; opa; opb; oaa; obb] =>
      match opt_vec oadd, opt_vec osub, opt_vec oscale, opt_dy odot, opt_vec ocross, opt_dy ol1, opt_dy ona, opt_dy onb with
      | Some vadd, Some vsub, Some vscale, Some vdot, Some vcross, Some vl1, Some vna, Some vnb =>
          match opt_vec otr, opt_dy odist, opt_vec ofp, opt_dy opa, opt_dy opb, opt_dy oaa, opt_dy obb with
          | Some vtr, Some vdist, Some vfp, Some vpa, Some vpb, Some vaa, Some vbb =>
              ck_add ex a b vadd && ck_sub ex a b vsub && ck_scale ex f a vscale && ck_dot ex a b vdot && ck_cross ex a b vcross &&
              ck_l1 ex a vl1 && ck_norm a vna && ck_norm b vnb &&
              (dv_is0 a || match opt_vec ounit with Some u => ck_unit a u | None => false end) &&
              (dv_is0 a || dv_is0 b || match opt_dy ocos with Some c => ck_cos a b vna vnb c | None => false end) &&
              ck_add ex a b vtr && ck_norm (dv_sub b a) vdist && ck_sub ex b a vfp &&
              ck_perp ex a b vpa a && ck_perp ex a b vpb b && ck_dot ex a a vaa && ck_dot ex b b vbb &&
              ck_lagrange ex vcross vdot vaa vbb
          | _, _, _, _, _, _, _ => false
          end
      | _, _, _, _, _, _, _, _ => false
      end
  | _ => false
  end.
Definition d_vecops (oracle : oracle_t) (args : list val) (obs : val) : verdict :=
  match args with
  | [va; vb; VF f] =>
      match as_fvec va, as_fvec vb with
      | Some a, Some b =>
          let m := vecops_model (hyp_of oracle) a b f in
          match dvec_of a, dvec_of b, dy_of f with
          | Some da, Some db, Some df =>
              if dv_forall moderate da && dv_forall moderate db && moderate df then mkv (val_eqb m obs) (vecops_check da db df obs) "-" m
              else bad_case
          | _, _, _ => bad_case end
      | _, _ => bad_case
      end
  | _ => bad_case
  end.

(* LineOps: p, q, t |-> for l = NewLineFromPoints(p, q): [ToPoint 0; ToPoint 1; ToPoint t; Start; End; Direction] *)
Definition lineops_model (p q : fvec) (t : float) : val :=
  let d := fvec_from_points p q in
  VL [of_fvec (fline_to_point p d 0); of_fvec (fline_to_point p d 1); of_fvec (fline_to_point p d t); of_fvec p;
      of_fvec (fline_end p d); of_fvec d].
Definition lineops_check (p q : dvec) (t : dy) (obs : val) : bool :=
  let ex := dv_forall small_int p && dv_forall small_int q && small_int t in
  match obs with
  | VL [o0; o1; ot; os; oe; od] =>
      match opt_vec o0, opt_vec o1, opt_vec ot, opt_vec os, opt_vec oe, opt_vec od with
      | Some v0, Some v1, Some vt, Some vs, Some ve, Some vd =>
          dv_eqb v0 p && dv_eqb vs p && ck_line_end ex p q v1 && ck_line_end ex p q ve && ck_line_t ex p q t vt && ck_sub ex q p vd
      | _, _, _, _, _, _ => false
      end
  | _ => false
  end.
Definition d_lineops (args : list val) (obs : val) : verdict :=
  match args with
  | [vp; vq; VF t] =>
      match as_fvec vp, as_fvec vq with
      | Some p, Some q =>
          let m := lineops_model p q t in
          match dvec_of p, dvec_of q, dy_of t with
          | Some dp, Some dq, Some dt =>
              if dv_forall moderate dp && dv_forall moderate dq && moderate dt then mkv (val_eqb m obs) (lineops_check dp dq dt obs) "-" m
              else bad_case
          | _, _, _ => bad_case end
      | _, _ => bad_case
      end
  | _ => bad_case
  end.

(* MatOps: A, B, C, v |-> [A.B; (A.B).C; A.(B.C); (A.B).v; A.(B.v); I.A; A.I; I.v] *)
Definition matops_model (a b c : fmat) (v : fvec) : val :=
  VL [of_fmat (fmmul a b); of_fmat (fmmul (fmmul a b) c); of_fmat (fmmul a (fmmul b c)); of_fvec (fmulvec (fmmul a b) v);
      of_fvec (fmulvec a (fmulvec b v)); of_fmat (fmmul fmunit a); of_fmat (fmmul a fmunit); of_fvec (fmulvec fmunit v)].
Definition matops_check (a b c : dmat) (v : dvec) (obs : val) : bool :=
  let ex := dm_forall small_int a && dm_forall small_int b && dm_forall small_int c && dv_forall small_int v in
  match obs with
  | VL [oab; oabc1; oabc2; oabv1; oabv2; oia; oai; oiv] =>
      match opt_mat oab, opt_mat oabc1, opt_mat oabc2, opt_vec oabv1, opt_vec oabv2, opt_mat oia, opt_mat oai, opt_vec oiv with
      | Some mab, Some m1, Some m2, Some v1, Some v2, Some mia, Some mai, Some viv =>
          let abc := dm_mul (dm_mul a b) c in
          let babc := dm_mul (dm_mul (dm_abs a) (dm_abs b)) (dm_abs c) in
          let abv := dm_mulvec (dm_mul a b) v in
          let babv := dm_mulvec (dm_mul (dm_abs a) (dm_abs b)) (dv_abs v) in
          dm_chk ex mab (dm_mul a b) (dm_mul (dm_abs a) (dm_abs b)) &&
          dm_chk ex m1 abc babc && dm_chk ex m2 abc babc && (if ex then dm_eqb m1 m2 else true) &&
          chkv ex v1 abv babv && chkv ex v2 abv babv && (if ex then dv_eqb v1 v2 else true) &&
          dm_eqb mia a && dm_eqb mai a && dv_eqb viv v
      | _, _, _, _, _, _, _, _ => false
      end
  | _ => false
  end.
Definition d_matops (args : list val) (obs : val) : verdict :=
  match args with
  | [va; vb; vc; vv] =>
      match as_fmat va, as_fmat vb, as_fmat vc, as_fvec vv with
      | Some a, Some b, Some c, Some v =>
          let m := matops_model a b c v in
          match dmat_of a, dmat_of b, dmat_of c, dvec_of v with
          | Some da, Some db, Some dc, Some dv =>
              if dm_forall moderate da && dm_forall moderate db && dm_forall moderate dc && dv_forall moderate dv
              then mkv (val_eqb m obs) (matops_check da db dc dv obs) "-" m else bad_case
          | _, _, _, _ => bad_case end
      | _, _, _, _ => bad_case
      end
  | _ => bad_case
  end.

(* RotateBetweenVector: a, b |-> quaternion.
   Law: unit quaternion (2^-30) carrying a onto b (sine of the angle <= 2^-30, same side). Two recorded defects, each excused ONLY for the
   conjunct it breaks and only when the rest of what the branch must deliver is still verified, and the model agrees bit for bit:
   - quat_fallback_half_turn: the code took its fallback branch (model's own test cos+1 < Minima; exactly: 1+cos < 2^-32) although b is not
     exactly opposite: the result must still be a unit quaternion turning a onto -a;
   - quat_norm_cancellation: generic branch with 1+cos < 2^-19: the direction must still be right within 2^-30 and | |q|^2-1 | <= 2^-16.
   Anything else that fails the law — NaN components, exactly opposite pairs, larger 1+cos — is a property failure. *)
Definition d_rotate (oracle : oracle_t) (args : list val) (obs : val) : verdict :=
  match args with
  | [va; vb] =>
      match as_fvec va, as_fvec vb with
      | Some a, Some b =>
          match dvec_of a, dvec_of b with
          | Some da, Some db =>
              if dv_forall moderate da && dv_forall moderate db && negb (dv_is0 da) && negb (dv_is0 db) then
                let hyp := hyp_of oracle in
                let m := of_fquat (frotate_between hyp (fun_of oracle "sin") (fun_of oracle "cos") a b) in
                let corr := val_eqb m obs in
                match opt_quat obs with
                | None => mkv corr false "-" m
                | Some q =>
                    if check_rotation q da db then mkv corr true "-" m
                    else if exactly_opposite da db then mkv corr false "-" m
                    else if frotate_fallback hyp a b then
                      if corr && cos_below 32 da db && check_half_turn q da then mkv corr false "quat_fallback_half_turn" m
                      else mkv corr false "-" m
                    else if corr && cos_below 19 da db && check_direction_loose_norm q da db then mkv corr false "quat_norm_cancellation" m
                    else mkv corr false "-" m
                end
              else bad_case                 (* zero vector / outside the moderate range: outside the quantifier, never generated *)
          | _, _ => bad_case end
      | _, _ => bad_case
      end
  | _ => bad_case
  end.
(* QuatFromAxisAngle: axis, angle |-> unit quaternion whose vector part is parallel to the axis *)
Definition d_axis_angle (oracle : oracle_t) (args : list val) (obs : val) : verdict :=
  match args with
  | [va; VF ang] =>
      match as_fvec va with
      | Some a =>
          let m := of_fquat (fquat_axis_angle (hyp_of oracle) (fun_of oracle "sin") (fun_of oracle "cos") a ang) in
          match dvec_of a, dy_of ang with
          | Some da, Some dang =>
              if dv_forall moderate da && negb (dv_is0 da) && moderate dang then
                mkv (val_eqb m obs) (match opt_quat obs with Some q => unit_quat q && parallel_or_zero (dq_v q) da | None => false end) "-" m
              else bad_case
          | _, _ => bad_case end
      | None => bad_case
      end
  | _ => bad_case
  end.

(* PointOps: points, v, p, q, eps |-> [MaxPoint; MinPoint (E on empty); p.IsClose(q, eps); UniqueAppend(points, p, eps); AlmostEqual(p.X, q.X, eps);
                                       DegreeToRadian(eps); RadianToDegree(eps)] *)
Fixpoint as_fvecs (l : list val) : option (list fvec) :=
  match l with
  | [] => Some []
  | v :: r => match as_fvec v, as_fvecs r with Some p, Some t => Some (p :: t) | _, _ => None end
  end.
Fixpoint dvecs_of (l : list fvec) : option (list dvec) :=
  match l with
  | [] => Some []
  | v :: r => match dvec_of v, dvecs_of r with Some p, Some t => Some (p :: t) | _, _ => None end
  end.
Definition res_pt (r : result fvec) : val := match r with Ok p => of_fvec p | Err => VE (of_fvec (FV 0 0 0)) end.
Definition unique_append (pts : list fvec) (p : fvec) (eps : float) : list fvec :=
  uappend (fun x q => fis_close x q eps) pts p.              (* PointLaws.uappend: appended iff no member IsClose to p *)
Definition pointops_model (pts : list fvec) (v p q : fvec) (eps : float) : val :=
  VL [res_pt (fmax_point true pts v); res_pt (fmax_point false pts v); VB (fis_close p q eps);
      VL (map of_fvec (unique_append pts p eps)); VB (almost_equal (fx p) (fx q) eps); VF (deg2rad eps); VF (rad2deg eps)].
Definition pointops_check (pts : list dvec) (v p q : dvec) (eps : dy) (obs : val) : bool :=
  match obs with
  | VL [omax; omin; VB oclose; VL oua; VB oae; VF od2r; VF or2d] =>
      (match pts with
       | [] => is_err omax && is_err omin
       | _ => match opt_vec omax, opt_vec omin with
              | Some mx, Some mn => ck_best true pts v mx && ck_best false pts v mn
              | _, _ => false end
       end) &&
      ck_almost (dvx p) (dvx q) eps oae &&
      (if oclose then ck_almost (dvx p) (dvx q) eps true && ck_almost (dvy p) (dvy q) eps true && ck_almost (dvz p) (dvz q) eps true
       else ck_almost (dvx p) (dvx q) eps false || ck_almost (dvy p) (dvy q) eps false || ck_almost (dvz p) (dvz q) eps false) &&
      (* UniqueAppend: unchanged only if a member is within eps of p in every coordinate, extended by p only if none is (exact comparison) *)
      (match all_opt (map opt_vec oua) with
       | Some r => ck_unique_append dv_eqb pts p eps r
       | None => false end) &&
      (* degree <-> radian against pi itself (112 binary digits), not against the code's constants *)
      match dy_of od2r, dy_of or2d with
      | Some a, Some b => ck_d2r eps a && ck_r2d eps b
      | _, _ => false end
  | _ => false
  end.
Definition d_pointops (args : list val) (obs : val) : verdict :=
  match args with
  | [VL vpts; vv; vp; vq; VF eps] =>
      match as_fvecs vpts, as_fvec vv, as_fvec vp, as_fvec vq with
      | Some pts, Some v, Some p, Some q =>
          let m := pointops_model pts v p q eps in
          match dvecs_of pts, dvec_of v, dvec_of p, dvec_of q, dy_of eps with
          | Some dpts, Some dv, Some dp, Some dq, Some de =>
              if forallb (dv_forall moderate) dpts && dv_forall moderate dv && dv_forall moderate dp && dv_forall moderate dq && moderate de
              then mkv (val_eqb m obs) (pointops_check dpts dv dp dq de obs) "-" m else bad_case
          | _, _, _, _, _ => bad_case end
      | _, _, _, _ => bad_case
      end
  | _ => bad_case
  end.

(* Max / Min at float64: bit-identical to a member, bounding every member (exact dyadic comparison); -0 / +0 and equal elements: the
   model keeps the first one, as the code does *)
Definition as_LF (v : val) : option (list float) := match as_L v with Some l => all_opt (map as_F l) | None => None end.
Definition d_maxminF (is_max : bool) (args : list val) (obs : val) : verdict :=
  match args with
  | [a] => match as_LF a with
           | Some l =>
               let m := if is_max then maxF l else minF l in
               let mv := match m with Ok z => VF z | Err => VE (VF 0%float) end in
               let corr := match m, obs with Err, VE (VF z) => feqb_bits z 0%float | Ok z, VF o => feqb_bits z o | _, _ => false end in
               match dlist_of l with
               | None => bad_case                          (* NaN / infinite members: outside the stated domain, never generated *)
               | Some dl =>
                   let prop := match l, obs with
                               | [], VE _ => true
                               | _ :: _, VF o =>
                                   match dy_of o with
                                   | Some d => existsb (feqb_bits o) l && forallb (fun x => if is_max then dleb x d else dleb d x) dl
                                   | None => false end
                               | _, _ => false end in
                   mkv corr prop "-" mv
               end
           | None => bad_case end
  | _ => bad_case
  end.

(* NewMatrix3(m00 .. m22): every element read back in row-major order, and the three columns through MulVec of the basis vectors *)
(* the nine wire arguments are decoded positionally into the model constructor MatCtor.fnew_matrix3 (row-major, as spatial.NewMatrix3) *)
Lemma as_fmat_new_matrix3 a b c d e f g h i :
  as_fmat (VL [VF a; VF b; VF c; VF d; VF e; VF f; VF g; VF h; VF i]) = Some (fnew_matrix3 a b c d e f g h i).
Proof. reflexivity. Qed.
Definition d_newmatrix (args : list val) (obs : val) : verdict :=
  match as_fmat (VL args) with
  | Some a =>
      let m := VL [of_fmat a; of_fvec (fmulvec a (FV 1 0 0)); of_fvec (fmulvec a (FV 0 1 0)); of_fvec (fmulvec a (FV 0 0 1))] in
      let prop :=
        match dmat_of a, obs with
        | Some da, VL [om; c0; c1; c2] =>
            match opt_mat om, opt_vec c0, opt_vec c1, opt_vec c2 with
            | Some dm, Some v0, Some v1, Some v2 =>
                dm_eqb dm da && dv_eqb v0 (dm_col dvx da) && dv_eqb v1 (dm_col dvy da) && dv_eqb v2 (dm_col dvz da)
            | _, _, _, _ => false end
        | _, _ => false end in
      match dmat_of a with Some da => if dm_forall moderate da then mkv (val_eqb m obs) prop "-" m else bad_case | None => bad_case end
  | None => bad_case
  end.

(* ScalarOps: x, y, tol, ang |-> [AlmostEqual(x,y,tol); AlmostEqual(y,x,tol); DegreeToRadian(ang); RadianToDegree(ang); RadianToDegree(DegreeToRadian(ang))] *)
Definition d_scalarops (args : list val) (obs : val) : verdict :=
  match args with
  | [VF x; VF y; VF tol; VF ang] =>
      let m := VL [VB (almost_equal x y tol); VB (almost_equal y x tol); VF (deg2rad ang); VF (rad2deg ang); VF (rad2deg (deg2rad ang))] in
      match dy_of x, dy_of y, dy_of tol, dy_of ang with
      | Some dx, Some dy, Some dt, Some da =>
          if wide dx && wide dy && wide dt && wide da then
            let prop := match obs with
                        | VL [VB o1; VB o2; VF od; VF or; VF ort] =>
                            ck_almost dx dy dt o1 && ck_almost dy dx dt o2 && Bool.eqb o1 o2 &&
                            match dy_of od, dy_of or, dy_of ort with
                            | Some d, Some r, Some rt => ck_d2r da d && ck_r2d da r && ck_roundtrip da rt
                            | _, _, _ => false end
                        | _ => false end in
            mkv (val_eqb m obs) prop "-" m
          else bad_case
      | _, _, _, _ => bad_case end
  | _ => bad_case
  end.

(* the set helpers at float64: only NaN-free lists (== is not reflexive on NaN: outside the laws); +0 and -0 are one key *)
Definition of_LF (l : list float) : val := VL (map VF l).
Definition nan_free (args : list val) : bool :=
  forallb (fun v => match v with VF f => negb (is_nan f) | _ => match as_LF v with Some l => negb (has_nanF l) | None => false end end) args.
Definition guardF (f : list val -> val -> verdict) (args : list val) (obs : val) : verdict := if nan_free args then f args obs else bad_case.

Definition table_C20 : table :=
  [("Union/int64", fun _ => d_union Z.eqb sort_Z as_LZ of_LZ); ("Union/string", fun _ => d_union String.eqb sort_strings as_LS of_LS);
   ("Unique/int64", fun _ => d_unique Z.eqb sort_Z as_LZ of_LZ); ("Unique/string", fun _ => d_unique String.eqb sort_strings as_LS of_LS);
   ("Difference/int64", fun _ => d_difference Z.eqb as_LZ of_LZ); ("Difference/string", fun _ => d_difference String.eqb as_LS of_LS);
   ("Intersect/int64", fun _ => d_intersect Z.eqb as_LZ of_LZ); ("Intersect/string", fun _ => d_intersect String.eqb as_LS of_LS);
   ("Include/int64", fun _ => d_include Z.eqb as_LZ as_Z); ("Include/string", fun _ => d_include String.eqb as_LS as_S);
   ("Union/int32", fun _ => d_union Z.eqb sort_Z as_LZ of_LZ); ("Unique/int32", fun _ => d_unique Z.eqb sort_Z as_LZ of_LZ);
   ("Difference/int32", fun _ => d_difference Z.eqb as_LZ of_LZ); ("Intersect/int32", fun _ => d_intersect Z.eqb as_LZ of_LZ);
   ("Include/int32", fun _ => d_include Z.eqb as_LZ as_Z);
   ("Union/float64", fun _ => guardF (d_union PrimFloat.eqb fsortF as_LF of_LF)); ("Unique/float64", fun _ => guardF (d_unique PrimFloat.eqb fsortF as_LF of_LF));
   ("Difference/float64", fun _ => guardF (d_difference PrimFloat.eqb as_LF of_LF)); ("Intersect/float64", fun _ => guardF (d_intersect PrimFloat.eqb as_LF of_LF));
   ("Include/float64", fun _ => guardF (d_include PrimFloat.eqb as_LF as_F));
   ("Max/int", fun _ => d_maxmin true); ("Min/int", fun _ => d_maxmin false); ("Max/int32", fun _ => d_maxmin true); ("Min/int32", fun _ => d_maxmin false);
   ("Max/float32", fun _ => d_maxminF true); ("Min/float32", fun _ => d_maxminF false); ("ScalarOps", fun _ => d_scalarops);
   ("Max/int64", fun _ => d_maxmin true); ("Min/int64", fun _ => d_maxmin false);
   ("Max/float64", fun _ => d_maxminF true); ("Min/float64", fun _ => d_maxminF false); ("NewMatrix3", fun _ => d_newmatrix);
   ("CalculateArithmeticShift", fun _ => d_ashift);
   ("Combinations", fun _ => d_comb);
   ("VecOps", d_vecops); ("LineOps", fun _ => d_lineops); ("MatOps", fun _ => d_matops);
   ("RotateBetweenVector", d_rotate); ("QuatFromAxisAngle", d_axis_angle); ("PointOps", fun _ => d_pointops)].
