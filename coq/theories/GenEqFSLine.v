(* GenEqFSLine.v — common/spatial/line3.go regenerated = VecF.v; a line is (start point, direction). *)
From Coq Require Import ZArith Bool Floats.
From SIDGen Require Import GeneratedF GeneratedFS.
From SID Require Import F64 VecF GenFTac GenEqFSTac.
Open Scope float_scope.

(* line3.go: a line is (start point, direction) *)
Lemma gen_NewLineFromPoints_eq : forall s e, GeneratedFS.NewLineFromPoints (tv s) (tv e) = (tv s, tv (fvec_from_points s e)).
Proof. gen_fs ltac:(unfold fvec_from_points, fsub). Qed.
Lemma gen_Line3_ToPoint_eq : forall p d t, GeneratedFS.Line3_ToPoint (tv p, tv d) t = tv (fline_to_point p d t).
Proof. gen_fs ltac:(unfold fline_to_point, ftranslate, fadd, fscale). Qed.
Lemma gen_Line3_End_eq : forall p d, GeneratedFS.Line3_End (tv p, tv d) = tv (fline_end p d).
Proof. gen_fs ltac:(unfold fline_end, ftranslate, fadd). Qed.
Lemma gen_Line3_Start_eq : forall p d, GeneratedFS.Line3_Start (tv p, tv d) = tv p.
Proof. gen_fs ltac:(idtac). Qed.

