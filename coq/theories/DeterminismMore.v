(* DeterminismMore.v — property C16, instances for the models of the overlap checks (C05, Overlap.v), of the cross-call
   de-duplication of the key conversions (C11, QuadkeyConv.v) and of the clearance corridor (C14, Corridor.v).
   Generic layer and the other instances: Determinism.v. *)
From Coq Require Import ZArith Lia List Bool Permutation String.
From SID Require Import Base Str Ids ZoomCore ChangeZoom Neighbour SetOps Overlap QuadkeyConv Line Corridor Determinism.
Import ListNotations.
Open Scope Z_scope.

(* ---- parsing a list of strings whose members are the same gives parsed lists whose members are the same ---- *)
Lemma map_opt_members {A B} (f : A -> option B) l e : map_opt f l = Some e ->
  (forall s, In s l -> exists i, f s = Some i /\ In i e) /\ (forall i, In i e -> exists s, In s l /\ f s = Some i).
Proof.
  revert e. induction l as [|a r IH]; intros e; cbn [map_opt].
  - intros [= <-]. split; [intros s []|intros i []].
  - destruct (f a) as [b|] eqn:Fa; [|discriminate]. destruct (map_opt f r) as [t|]; [|discriminate]. intros [= <-].
    destruct (IH t eq_refl) as [I1 I2]. split.
    + intros s [<-|Hs]; [exists b; split; [exact Fa|now left]|]. destruct (I1 s Hs) as (i & Fi & Hi). exists i. split; [exact Fi|now right].
    + intros i [<-|Hi]; [exists a; split; [now left|exact Fa]|]. destruct (I2 i Hi) as (s & Hs & Fs). exists s. split; [now right|exact Fs].
Qed.
Lemma map_opt_total {A B} (f : A -> option B) l : (forall s, In s l -> f s <> None) -> exists e, map_opt f l = Some e.
Proof.
  induction l as [|a r IH]; intros H; cbn [map_opt]; [eauto|].
  destruct (f a) as [b|] eqn:Fa; [|exfalso; apply (H a (or_introl eq_refl) Fa)].
  destruct IH as (t & ->); [intros s Hs; apply H; now right|]. eauto.
Qed.
Theorem map_opt_same_members {A B} (f : A -> option B) l l' e : same_members l l' -> map_opt f l = Some e ->
  exists e', map_opt f l' = Some e' /\ same_members e e'.
Proof.
  intros E M. destruct (map_opt_members f l e M) as [I1 I2].
  destruct (map_opt_total f l') as (e' & M').
  { intros s Hs. destruct (I1 s (proj2 (E s) Hs)) as (i & -> & _). discriminate. }
  exists e'. split; [exact M'|]. destruct (map_opt_members f l' e' M') as [J1 J2]. intros i. split.
  - intros Hi. destruct (I2 i Hi) as (s & Hs & Fs). destruct (J1 s (proj1 (E s) Hs)) as (j & Fj & Hj). congruence.
  - intros Hi. destruct (J2 i Hi) as (s & Hs & Fs). destruct (I1 s (proj2 (E s) Hs)) as (j & Fj & Hj). congruence.
Qed.
Lemma parse_all_map_opt l : parse_all l = map_opt parse_eid l.
Proof. induction l as [|a r IH]; cbn [parse_all map_opt]; [reflexivity|]. rewrite IH. destruct (parse_eid a), (map_opt parse_eid r); reflexivity. Qed.

(* ---- B6. overlap of two lists (detector.Check*ArrayOverlap): the answer is blind to order and repetition in either list ---- *)
Theorem ext_array_deterministic l1 l1' l2 l2' e1 e2 :
  parse_all l1 = Some e1 -> parse_all l2 = Some e2 -> (forall i, In i e1 -> valid i) -> (forall j, In j e2 -> valid j) ->
  same_members l1 l1' -> same_members l2 l2' -> ext_array l1 l2 = ext_array l1' l2'.
Proof.
  intros P1 P2 V1 V2 E1 E2. rewrite parse_all_map_opt in P1, P2.
  destruct (map_opt_same_members parse_eid l1 l1' e1 E1 P1) as (e1' & P1' & M1).
  destruct (map_opt_same_members parse_eid l2 l2' e2 E2 P2) as (e2' & P2' & M2).
  rewrite <- parse_all_map_opt in P1, P2, P1', P2'.
  rewrite (ext_array_spec l1 l2 e1 e2 P1 P2 V1 V2).
  rewrite (ext_array_spec l1' l2' e1' e2' P1' P2' (same_members_valid _ _ _ M1 V1) (same_members_valid _ _ _ M2 V2)).
  f_equal. apply exists_pair_set_only; assumption.
Qed.
Theorem sp_array_deterministic l1 l1' l2 l2' e1 e2 :
  map_opt ChangeZoom.parse_sid l1 = Some e1 -> map_opt ChangeZoom.parse_sid l2 = Some e2 -> (forall i, In i e1 -> sdom i) -> (forall j, In j e2 -> sdom j) ->
  same_members l1 l1' -> same_members l2 l2' -> sp_array l1 l2 = sp_array l1' l2'.
Proof.
  intros P1 P2 V1 V2 E1 E2.
  destruct (map_opt_same_members _ l1 l1' e1 E1 P1) as (e1' & P1' & M1).
  destruct (map_opt_same_members _ l2 l2' e2 E2 P2) as (e2' & P2' & M2).
  rewrite (sp_array_spec l1 l2 e1 e2 P1 P2 V1 V2).
  rewrite (sp_array_spec l1' l2' e1' e2' P1' P2' (same_members_valid _ _ _ M1 V1) (same_members_valid _ _ _ M2 V2)).
  f_equal. apply exists_pair_set_only; assumption.
Qed.
(* the pairwise forms take two IDs: the answer does not depend on the argument order either *)
Theorem ext_overlap_symmetric a b : ext_overlap a b = ext_overlap b a.
Proof. exact (ext_overlap_sym a b). Qed.

(* ---- B7. key conversions (transform.Convert…ToQuadkeysAnd…): the de-duplication map is shared by all inputs of one call, so which
   GROUP a pair lands in depends on the input order, but the reported pairs — every pair once — do not ---- *)
Definition pairs_of (pss : list (list pair)) (p : pair) : Prop := exists ps, In ps pss /\ In p ps.
Theorem run_pairs pss : NoDup (List.concat (run [] pss)) /\ forall p, In p (List.concat (run [] pss)) <-> pairs_of pss p.
Proof.
  destruct (run_spec pss []) as (N & _ & M & _). split; [exact N|]. intros p. specialize (M p). cbn [In] in M. unfold pairs_of. tauto.
Qed.
Theorem run_deterministic pss pss' : same_members pss pss' ->
  Permutation (List.concat (run [] pss)) (List.concat (run [] pss')).
Proof.
  intros E. destruct (run_pairs pss) as [N M], (run_pairs pss') as [N' M'].
  apply NoDup_Permutation; [exact N|exact N'|]. intros p. rewrite M, M'. unfold pairs_of.
  split; intros (ps & Hps & Hp); exists ps; (split; [now apply E|exact Hp]).
Qed.
Corollary run_permuted pss pss' : Permutation pss pss' -> Permutation (List.concat (run [] pss)) (List.concat (run [] pss')).
Proof. intros P. apply run_deterministic, perm_same_members, P. Qed.
Corollary run_repeated pss : Permutation (List.concat (run [] (pss ++ pss))) (List.concat (run [] pss)).
Proof. apply run_deterministic, app_self_same_members. Qed.
(* the grouping itself is order dependent: the checker therefore compares the flattened pair sets across permuted inputs *)
Example run_groups_depend_on_order :
  run [] [[(1, 0); (2, 0)]; [(2, 0)]] = [[(1, 0); (2, 0)]] /\ run [] [[(2, 0)]; [(1, 0); (2, 0)]] = [[(2, 0)]; [(1, 0)]].
Proof. split; vm_compute; reflexivity. Qed.

(* the same about the IDs of a call: `conv` (the common body of ConvertExtendedSpatialIDsToQuadkeysAndVerticalIDs / ...AndAltitudekeys,
   QuadkeyConv.e2q / e2qa) on two ID lists with the same members, both calls successful: the pairs of all returned groups, flattened,
   are permutations of one duplicate-free list (which pairs one ID yields is QuadkeyConv.id_pairs) *)
Section ConvPairs.
  Context {P : Type}.
  Variables (oh ov : Z) (par : P) (vert : Z -> Z -> result (list Z)).
  Let idp := id_pairs oh vert.
  Lemma pairs_exist ids : (forall s, In s ids -> idp s <> Err) -> exists pss, Forall2 (fun s ps => idp s = Ok ps) ids pss.
  Proof.
    induction ids as [|a r IH]; intros H; [exists []; constructor|].
    destruct (idp a) as [ps|] eqn:E; [|exfalso; exact (H a (or_introl eq_refl) E)].
    destruct IH as (pss & F); [intros s Hs; apply H; now right|]. exists (ps :: pss). constructor; assumption.
  Qed.
  Lemma forall2_members ids pss : Forall2 (fun s ps => idp s = Ok ps) ids pss ->
    forall ps, In ps pss <-> exists s, In s ids /\ idp s = Ok ps.
  Proof.
    induction 1 as [|s ps ids pss Hs F IH]; intros q; cbn [In]; [split; [intros []|intros (s & [] & _)]|]. rewrite IH. split.
    - intros [<-|(t & Ht & Hq)]; [exists s; auto|exists t; auto].
    - intros (t & [<-|Ht] & Hq); [left; congruence|right; eauto].
  Qed.
  Lemma concat_groups (k : list (list pair)) : List.concat (map (@g_pairs P) (map (mkgroup oh ov par) k)) = List.concat k.
  Proof. induction k as [|a r IH]; cbn; [reflexivity|]. now rewrite IH. Qed.
  Lemma conv_ok_inv ids gs : conv oh ov par vert ids = Ok gs ->
    exists pss, Forall2 (fun s ps => idp s = Ok ps) ids pss /\ gs = map (mkgroup oh ov par) (run [] pss).
  Proof.
    unfold conv. destruct (negb (qcheck oh ov)); [discriminate|]. intros E.
    destruct (pairs_exist ids) as (pss & F).
    { intros s Hs He. rewrite (conv_loop_err oh ov par vert ids [] s Hs He) in E. discriminate. }
    exists pss. split; [exact F|]. rewrite (conv_loop_run oh ov par vert ids [] pss F) in E. now injection E as <-.
  Qed.
  Theorem conv_pairs_deterministic ids ids' gs gs' : same_members ids ids' ->
    conv oh ov par vert ids = Ok gs -> conv oh ov par vert ids' = Ok gs' ->
    Permutation (List.concat (map (@g_pairs P) gs)) (List.concat (map (@g_pairs P) gs')) /\ NoDup (List.concat (map (@g_pairs P) gs)).
  Proof.
    intros E C C'. destruct (conv_ok_inv ids gs C) as (pss & F & ->), (conv_ok_inv ids' gs' C') as (pss' & F' & ->).
    rewrite !concat_groups. split; [|exact (proj1 (run_pairs pss))]. apply run_deterministic.
    intros ps. rewrite (forall2_members ids pss F), (forall2_members ids' pss' F').
    split; intros (s & Hs & Hp); exists s; (split; [now apply E|exact Hp]).
  Qed.
  (* both calls fail or both succeed *)
  Lemma conv_loop_err_inv ids : forall seen, conv_loop oh ov par vert seen ids = Err -> exists s, In s ids /\ idp s = Err.
  Proof.
    induction ids as [|a r IH]; intros seen; cbn [conv_loop]; [discriminate|].
    destruct (id_pairs oh vert a) as [ps|] eqn:Ea; [|intros _; exists a; split; [now left|exact Ea]].
    destruct (fresh seen ps) as [s1 k]. destruct (conv_loop oh ov par vert s1 r) as [gs|] eqn:Er; [discriminate|].
    intros _. destruct (IH s1 Er) as (s & Hs & He). exists s. split; [now right|exact He].
  Qed.
  Lemma forall2_ok ids pss : Forall2 (fun s ps => idp s = Ok ps) ids pss -> forall s, In s ids -> exists ps, idp s = Ok ps.
  Proof. induction 1 as [|s ps ids pss Hs F IH]; intros t; [intros []|]. intros [<-|Ht]; [eauto|now apply IH]. Qed.
  Lemma conv_err_transport ids ids' gs : same_members ids ids' -> conv oh ov par vert ids = Ok gs -> conv oh ov par vert ids' = Err -> False.
  Proof.
    intros E C C'. destruct (conv_ok_inv ids gs C) as (pss & F & _). unfold conv in C, C'.
    destruct (negb (qcheck oh ov)); [discriminate|]. destruct (conv_loop_err_inv ids' [] C') as (s & Hs & He).
    destruct (forall2_ok ids pss F s (proj2 (E s) Hs)) as (ps & Hp). unfold idp in *. congruence.
  Qed.
  Theorem conv_deterministic ids ids' : same_members ids ids' ->
    match conv oh ov par vert ids, conv oh ov par vert ids' with
    | Ok gs, Ok gs' => Permutation (List.concat (map (@g_pairs P) gs)) (List.concat (map (@g_pairs P) gs')) /\ NoDup (List.concat (map (@g_pairs P) gs))
    | Err, Err => True
    | _, _ => False
    end.
  Proof.
    intros E. destruct (conv oh ov par vert ids) as [gs|] eqn:C, (conv oh ov par vert ids') as [gs'|] eqn:C'.
    - exact (conv_pairs_deterministic ids ids' gs gs' E C C').
    - exact (conv_err_transport ids ids' gs E C C').
    - exact (conv_err_transport ids' ids gs' (same_members_sym _ _ E) C' C).
    - exact I.
  Qed.
End ConvPairs.

(* the three exported forms: E2Q (index form / refused height range), E2QA (altitude keys), S2Q (spatial-ID notation first) *)
Definition pairs_of_groups {P} (gs : list (group P)) : list pair := List.concat (map (@g_pairs P) gs).
Definition groups_agree {P} (a b : result (list (group P))) : Prop :=
  match a, b with
  | Ok gs, Ok gs' => Permutation (pairs_of_groups gs) (pairs_of_groups gs') /\ NoDup (pairs_of_groups gs)
  | Err, Err => True
  | _, _ => False
  end.
Theorem e2q_perm_invariant {P} (par : P) idx ids ids' oh ov : same_members ids ids' -> groups_agree (e2q par idx ids oh ov) (e2q par idx ids' oh ov).
Proof. intros E. unfold e2q. apply conv_deterministic, E. Qed.
Theorem e2qa_perm_invariant ids ids' oq oa E O : same_members ids ids' -> groups_agree (e2qa ids oq oa E O) (e2qa ids' oq oa E O).
Proof. intros M. unfold e2qa. apply conv_deterministic, M. Qed.
Theorem s2q_perm_invariant {P} (par : P) idx sids sids' oh ov : same_members sids sids' -> groups_agree (s2q par idx sids oh ov) (s2q par idx sids' oh ov).
Proof.
  intros E. unfold s2q, sids_to_eids. destruct (map_opt sid_to_eid_str sids) as [l|] eqn:M.
  - destruct (map_opt_same_members sid_to_eid_str sids sids' l E M) as (l' & -> & S). apply e2q_perm_invariant, S.
  - destruct (map_opt sid_to_eid_str sids') as [l'|] eqn:M'; [|exact I].
    destruct (map_opt_same_members sid_to_eid_str sids' sids l' (same_members_sym _ _ E) M') as (l0 & M0 & _). congruence.
Qed.

(* ---- B8. corridor (transform.GetExtendedSpatialIdsWithinRadiusOfLine, after the fixes 70c64b2 and 915e48e).  The measuring loop
   reuses one closest.Measure whose search state is carried from candidate to candidate: Corridor.v threads that state (`St`,
   `measure : St -> id -> result (bool * St)`) through the candidates in SORTED order, as the code does since 915e48e.  Whatever the
   three map orders and whatever order the line's IDs arrive in: both runs fail, or both succeed with permutations of one
   duplicate-free list.  (Before 915e48e the candidates were measured in map order: identical calls returned different sets, D15b.) ---- *)
Theorem corridor_deterministic on ou oq on' ou' oq' fit (St : Type) (st0 : St) measure L L' skip :
  (forall l, Permutation (on l) l) -> (forall l, Permutation (ou l) l) -> (forall l, Permutation (oq l) l) ->
  (forall l, Permutation (on' l) l) -> (forall l, Permutation (ou' l) l) -> (forall l, Permutation (oq' l) l) ->
  Permutation L L' ->
  match corridor on ou oq fit St st0 measure (Ok L) skip, corridor on' ou' oq' fit St st0 measure (Ok L') skip with
  | Ok r, Ok r' => Permutation r r' /\ NoDup r
  | Err, Err => True
  | _, _ => False
  end.
Proof.
  intros Pn Pu Pq Pn' Pu' Pq' P.
  pose proof (corridor_order_blind on ou oq on' ou' oq' fit St st0 measure L L' skip Pn Pu Pq Pn' Pu' Pq' P) as X.
  destruct (corridor on ou oq fit St st0 measure (Ok L) skip) as [r|] eqn:E; [|exact X].
  destruct (corridor on' ou' oq' fit St st0 measure (Ok L') skip) as [r'|]; [|exact X].
  split; [exact X|]. exact (corridor_NoDup on ou oq Pn Pu Pq fit St st0 measure (Ok L) skip r E).
Qed.

(* ---- B9. line (shape.GetExtendedSpatialIdsOnLine): the recursion is fixed by the two points, the only map is the final Unique ---- *)
Theorem line_deterministic (P : Type) vox_top vox_in mid small (ord ord' : list eid -> list eid) fuel (s e : P) l :
  (forall x, Permutation (ord x) x) -> (forall x, Permutation (ord' x) x) ->
  Line.line_ids P vox_top vox_in mid small fuel s e = Some l -> Permutation (ord l) (ord' l) /\ NoDup (ord l).
Proof.
  intros Po Po' E. split; [apply perm_ord; [exact Po|exact Po'|apply Permutation_refl]|].
  eapply Permutation_NoDup; [apply Permutation_sym, Po|]. exact (Line.line_NoDup P vox_top vox_in mid small fuel s e l E).
Qed.

(* ---- B10. (quadkey, vertical index) -> IDs (transform.ConvertQuadkeysAndVerticalIDsTo(Extended)SpatialIDs): every item expanded,
   then deleteDuplicationList (a map used as a set).  Items with the same members: both calls fail, or permutations of one
   duplicate-free list ---- *)
Lemma q2e_loop_inv oh ov items :
  (q2e_loop oh ov items = Err <-> exists it, In it items /\ q2e_item oh ov it = Err) /\
  (forall l, q2e_loop oh ov items = Ok l -> forall s, In s l <-> exists it li, In it items /\ q2e_item oh ov it = Ok li /\ In s li).
Proof.
  induction items as [|a r [IE IO]]; cbn [q2e_loop].
  - split; [split; [discriminate|intros (it & [] & _)]|]. intros l [= <-] s. split; [intros []|intros (it & li & [] & _)].
  - destruct (q2e_item oh ov a) as [la|] eqn:Ea.
    + destruct (q2e_loop oh ov r) as [t|] eqn:Er.
      * split.
        -- split; [discriminate|]. intros (it & [<-|Hin] & He); [congruence|].
           destruct IE as [_ IE2]. specialize (IE2 (ex_intro _ it (conj Hin He))). discriminate.
        -- intros l [= <-] s. rewrite in_app_iff, (IO t eq_refl s). split.
           ++ intros [Hs|(it & li & Hin & Hi & Hs)]; [exists a, la; repeat split; auto; now left|exists it, li; repeat split; auto; now right].
           ++ intros (it & li & [<-|Hin] & Hi & Hs); [left; congruence|right; eauto].
      * split; [|discriminate]. split; [|reflexivity]. intros _. destruct IE as [IE1 _].
        destruct (IE1 eq_refl) as (it & Hin & He). exists it. split; [now right|exact He].
    + split; [|discriminate]. split; [|reflexivity]. intros _. exists a. split; [now left|exact Ea].
Qed.
Theorem q2e_deterministic (ord ord' : list string -> list string) items items' oh ov :
  (forall x, Permutation (ord x) x) -> (forall x, Permutation (ord' x) x) -> same_members items items' ->
  match q2e items oh ov, q2e items' oh ov with
  | Ok a, Ok a' => Permutation (ord a) (ord' a') /\ NoDup (ord a)
  | Err, Err => True
  | _, _ => False
  end.
Proof.
  intros Po Po' E. unfold q2e. destruct (negb (echeck oh ov)); [exact I|].
  destruct (q2e_loop_inv oh ov items) as [IE IO], (q2e_loop_inv oh ov items') as [IE' IO'].
  destruct (q2e_loop oh ov items) as [l|] eqn:E1, (q2e_loop oh ov items') as [l'|] eqn:E2.
  - assert (M : same_members l l').
    { intros s. rewrite (IO l eq_refl s), (IO' l' eq_refl s). split; intros (it & li & Hin & Hi & Hs); exists it, li; (split; [now apply E|auto]). }
    split.
    + apply perm_ord; [exact Po|exact Po'|]. apply NoDup_Permutation; try apply dedup_strings_NoDup.
      intros s. rewrite !dedup_strings_In. apply M.
    + eapply Permutation_NoDup; [apply Permutation_sym, Po|apply dedup_strings_NoDup].
  - destruct IE' as [IE1 _]. destruct (IE1 eq_refl) as (it & Hin & He).
    destruct IE as [_ IE2]. specialize (IE2 (ex_intro _ it (conj (proj2 (E it) Hin) He))). discriminate.
  - destruct IE as [IE1 _]. destruct (IE1 eq_refl) as (it & Hin & He).
    destruct IE' as [_ IE2]. specialize (IE2 (ex_intro _ it (conj (proj1 (E it) Hin) He))). discriminate.
  - exact I.
Qed.
(* the spatial-ID form re-labels every string of that result: same members, same error status *)
Theorem q2s_deterministic items items' z : same_members items items' ->
  match q2s items z, q2s items' z with
  | Ok a, Ok a' => same_members a a'
  | Err, Err => True
  | _, _ => False
  end.
Proof.
  intros E. pose proof (q2e_deterministic (fun x => x) (fun x => x) items items' z z id_is_order id_is_order E) as X.
  unfold q2s. destruct (q2e items z z) as [a|], (q2e items' z z) as [a'|]; try (exfalso; exact X); [|exact I]. destruct X as [P _].
  unfold eids_to_sids. destruct (map_opt eid_to_sid_str a) as [r|] eqn:M.
  - destruct (map_opt_same_members eid_to_sid_str a a' r (perm_same_members _ _ P) M) as (r' & -> & S). exact S.
  - destruct (map_opt eid_to_sid_str a') as [r'|] eqn:M'; [|exact I].
    destruct (map_opt_same_members eid_to_sid_str a' a r' (same_members_sym _ _ (perm_same_members _ _ P)) M') as (r0 & M0 & _). congruence.
Qed.
