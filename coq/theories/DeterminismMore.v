(* DeterminismMore.v — property C16, instances for the models of the overlap checks (C05, Overlap.v), of the cross-call
   de-duplication of the key conversions (C11, QuadkeyConv.v) and of the clearance corridor (C14, Corridor.v).
   Generic layer and the other instances: Determinism.v. *)
From Coq Require Import ZArith Lia List Bool Permutation String.
From SID Require Import Base Str Ids ZoomCore ChangeZoom Neighbour SetOps Overlap QuadkeyConv Corridor Determinism.
Import ListNotations.
Open Scope Z_scope.

(* ---- parsing a list of strings whose members are the same gives parsed lists whose members are the same ---- *)
Lemma map_opt_members {A B} (f : A -> option B) l e : map_opt f l = Some e ->
  (forall s, In s l -> exists i, f s = Some i /\ In i e) /\ (forall i, In i e -> exists s, In s l /\ f s = Some i).
Proof.
  revert e. induction l as [|a r IH]; intros e; cbn [map_opt].
  - intros [= <-]. split; [intros s []|intros i []].
  - destruct (f a) as [b|] eqn:Fa; [|discriminate]. destruct (map_opt f r) as [t|]; [|discriminate]. intros [= <-].
    destruct (IH t eq_refl) as [I1 I2]. split.
    + intros s [<-|Hs]; [exists b; split; [exact Fa|now left]|]. destruct (I1 s Hs) as (i & Fi & Hi). exists i. split; [exact Fi|now right].
    + intros i [<-|Hi]; [exists a; split; [now left|exact Fa]|]. destruct (I2 i Hi) as (s & Hs & Fs). exists s. split; [now right|exact Fs].
Qed.
Lemma map_opt_total {A B} (f : A -> option B) l : (forall s, In s l -> f s <> None) -> exists e, map_opt f l = Some e.
Proof.
  induction l as [|a r IH]; intros H; cbn [map_opt]; [eauto|].
  destruct (f a) as [b|] eqn:Fa; [|exfalso; apply (H a (or_introl eq_refl) Fa)].
  destruct IH as (t & ->); [intros s Hs; apply H; now right|]. eauto.
Qed.
Theorem map_opt_same_members {A B} (f : A -> option B) l l' e : same_members l l' -> map_opt f l = Some e ->
  exists e', map_opt f l' = Some e' /\ same_members e e'.
Proof.
  intros E M. destruct (map_opt_members f l e M) as [I1 I2].
  destruct (map_opt_total f l') as (e' & M').
  { intros s Hs. destruct (I1 s (proj2 (E s) Hs)) as (i & -> & _). discriminate. }
  exists e'. split; [exact M'|]. destruct (map_opt_members f l' e' M') as [J1 J2]. intros i. split.
  - intros Hi. destruct (I2 i Hi) as (s & Hs & Fs). destruct (J1 s (proj1 (E s) Hs)) as (j & Fj & Hj). congruence.
  - intros Hi. destruct (J2 i Hi) as (s & Hs & Fs). destruct (I1 s (proj2 (E s) Hs)) as (j & Fj & Hj). congruence.
Qed.
Lemma parse_all_map_opt l : parse_all l = map_opt parse_eid l.
Proof. induction l as [|a r IH]; cbn [parse_all map_opt]; [reflexivity|]. rewrite IH. destruct (parse_eid a), (map_opt parse_eid r); reflexivity. Qed.

(* ---- B6. overlap of two lists (detector.Check*ArrayOverlap): the answer is blind to order and repetition in either list ---- *)
Theorem ext_array_deterministic l1 l1' l2 l2' e1 e2 :
  parse_all l1 = Some e1 -> parse_all l2 = Some e2 -> (forall i, In i e1 -> valid i) -> (forall j, In j e2 -> valid j) ->
  same_members l1 l1' -> same_members l2 l2' -> ext_array l1 l2 = ext_array l1' l2'.
Proof.
  intros P1 P2 V1 V2 E1 E2. rewrite parse_all_map_opt in P1, P2.
  destruct (map_opt_same_members parse_eid l1 l1' e1 E1 P1) as (e1' & P1' & M1).
  destruct (map_opt_same_members parse_eid l2 l2' e2 E2 P2) as (e2' & P2' & M2).
  rewrite <- parse_all_map_opt in P1, P2, P1', P2'.
  rewrite (ext_array_spec l1 l2 e1 e2 P1 P2 V1 V2).
  rewrite (ext_array_spec l1' l2' e1' e2' P1' P2' (same_members_valid _ _ _ M1 V1) (same_members_valid _ _ _ M2 V2)).
  f_equal. apply exists_pair_set_only; assumption.
Qed.
Theorem sp_array_deterministic l1 l1' l2 l2' e1 e2 :
  map_opt ChangeZoom.parse_sid l1 = Some e1 -> map_opt ChangeZoom.parse_sid l2 = Some e2 -> (forall i, In i e1 -> sdom i) -> (forall j, In j e2 -> sdom j) ->
  same_members l1 l1' -> same_members l2 l2' -> sp_array l1 l2 = sp_array l1' l2'.
Proof.
  intros P1 P2 V1 V2 E1 E2.
  destruct (map_opt_same_members _ l1 l1' e1 E1 P1) as (e1' & P1' & M1).
  destruct (map_opt_same_members _ l2 l2' e2 E2 P2) as (e2' & P2' & M2).
  rewrite (sp_array_spec l1 l2 e1 e2 P1 P2 V1 V2).
  rewrite (sp_array_spec l1' l2' e1' e2' P1' P2' (same_members_valid _ _ _ M1 V1) (same_members_valid _ _ _ M2 V2)).
  f_equal. apply exists_pair_set_only; assumption.
Qed.
(* the pairwise forms take two IDs: the answer does not depend on the argument order either *)
Theorem ext_overlap_symmetric a b : ext_overlap a b = ext_overlap b a.
Proof. exact (ext_overlap_sym a b). Qed.

(* ---- B7. key conversions (transform.Convert…ToQuadkeysAnd…): the de-duplication map is shared by all inputs of one call, so which
   GROUP a pair lands in depends on the input order, but the reported pairs — every pair once — do not ---- *)
Definition pairs_of (pss : list (list pair)) (p : pair) : Prop := exists ps, In ps pss /\ In p ps.
Theorem run_pairs pss : NoDup (List.concat (run [] pss)) /\ forall p, In p (List.concat (run [] pss)) <-> pairs_of pss p.
Proof.
  destruct (run_spec pss []) as (N & _ & M & _). split; [exact N|]. intros p. specialize (M p). cbn [In] in M. unfold pairs_of. tauto.
Qed.
Theorem run_deterministic pss pss' : same_members pss pss' ->
  Permutation (List.concat (run [] pss)) (List.concat (run [] pss')).
Proof.
  intros E. destruct (run_pairs pss) as [N M], (run_pairs pss') as [N' M'].
  apply NoDup_Permutation; [exact N|exact N'|]. intros p. rewrite M, M'. unfold pairs_of.
  split; intros (ps & Hps & Hp); exists ps; (split; [now apply E|exact Hp]).
Qed.
Corollary run_permuted pss pss' : Permutation pss pss' -> Permutation (List.concat (run [] pss)) (List.concat (run [] pss')).
Proof. intros P. apply run_deterministic, perm_same_members, P. Qed.
Corollary run_repeated pss : Permutation (List.concat (run [] (pss ++ pss))) (List.concat (run [] pss)).
Proof. apply run_deterministic, app_self_same_members. Qed.
(* the grouping itself is order dependent: the checker therefore compares the flattened pair sets across permuted inputs *)
Example run_groups_depend_on_order :
  run [] [[(1, 0); (2, 0)]; [(2, 0)]] = [[(1, 0); (2, 0)]] /\ run [] [[(2, 0)]; [(1, 0); (2, 0)]] = [[(2, 0)]; [(1, 0)]].
Proof. split; vm_compute; reflexivity. Qed.

(* ---- B8. corridor (transform.GetExtendedSpatialIdsWithinRadiusOfLine, after fix 70c64b2): whatever the three map orders and
   whatever order the line's IDs arrive in, two successful runs with the same oracle answers return permutations of one list ---- *)
Theorem corridor_deterministic on ou oq on' ou' oq' :
  (forall l, Permutation (on l) l) -> (forall l, Permutation (ou l) l) -> (forall l, Permutation (oq l) l) ->
  (forall l, Permutation (on' l) l) -> (forall l, Permutation (ou' l) l) -> (forall l, Permutation (oq' l) l) ->
  forall fit measure L L' skip r r', Permutation L L' ->
  corridor on ou oq fit measure (Ok L) skip = Ok r -> corridor on' ou' oq' fit measure (Ok L') skip = Ok r' ->
  Permutation r r' /\ NoDup r.
Proof.
  intros Pn Pu Pq Pn' Pu' Pq' fit measure L L' skip r r' PL E E'.
  destruct (corridor_inv on ou oq Pn Pu Pq fit measure _ _ _ E) as (L0 & p & H & V & a & EL & Ep & Ef & Ea & N & M & _).
  destruct (corridor_inv on' ou' oq' Pn' Pu' Pq' fit measure _ _ _ E') as (L0' & p' & H' & V' & a' & EL' & Ep' & Ef' & Ea' & N' & M' & _).
  injection EL as <-. injection EL' as <-.
  rewrite (pick_perm L L' PL) in Ep. rewrite Ep in Ep'. injection Ep' as <-. rewrite Ef in Ef'. injection Ef' as <- <-.
  pose proof (nN_api_perm L L' H V PL) as NP. rewrite Ea, Ea' in NP.
  split; [|exact N]. apply NoDup_Permutation; [exact N|exact N'|]. intros s. rewrite M, M', (NP s).
  assert (IL : In s L <-> In s L') by (apply perm_same_members, PL). rewrite IL. tauto.
Qed.
