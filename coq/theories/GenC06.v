(* GenC06.v — C06's main results restated over the definitions REGENERATED from /repo's Go source (generated/GeneratedF.v float
   kernels, generated/Generated.v constants): the voxel of a point through getHorizontalTileIdOnPoint / getVerticalTileIdOnAltitude,
   the re-storing of a point through Point.SetLon / Point.SetLat, the thresholds and zoom switches of shape/line.go, and the
   wrap width of GetShiftingSpatialID used by the face-neighbour test. Rewriting lemmas: GenEqFPoint, GenEqFShift, LineGen.
   Not regenerated (hand transcription, tied by differential execution only): the control flow of middleSpatialIds and of
   GetExtendedSpatialIdsOnLine, the float midpoint, NewPoint's call sequence, the wrap loop of GetShiftingSpatialID. *)
From Coq Require Import ZArith Lia List Bool String Floats.
From SIDGen Require Generated GeneratedF.
From SID Require Import Base Str Ids Shift ShiftF F64 PointF Line LineGen GenEqFPoint GenEqFShift.
Import ListNotations.
Open Scope Z_scope.

Section Gen.
  Variable M : GeneratedF.libm.
  Variables h v : Z.
  Let tanf := GeneratedF.m_tan M.
  Let cosf := GeneratedF.m_cos M.
  Let logf := GeneratedF.m_log M.

  (* voxel of a stored point through the generated index kernels (int64() of the three locals, as the Go code formats them) *)
  Definition gen_vox (p : point) : eid :=
    match Ztrunc_f (GeneratedF.getHorizontalTileIdOnPoint_lonIndex (plon p) (plat p) h),
          Ztrunc_f (GeneratedF.getHorizontalTileIdOnPoint_latIndex M (plon p) (plat p) h),
          Ztrunc_f (GeneratedF.getVerticalTileIdOnAltitude_vIndex (palt p) v) with
    | Some x, Some y, Some f => mk h x y v f
    | _, _, _ => mk h 0 0 v 0
    end.
  (* object.NewPoint over the generated setters (the recursion stores every point again; the error is ignored) *)
  Definition gen_restore (p : point) : point :=
    fst (let '(a, b, c, e1) := GeneratedF.Point_SetLon 0 0 0 (plon p) in
         if e1 then ({| plon := a; plat := b; palt := c |}, true)
         else let '(a, b, c, e2) := GeneratedF.Point_SetLat a b c (plat p) in
              if e2 then ({| plon := a; plat := b; palt := c |}, true)
              else ({| plon := a; plat := b; palt := palt p |}, false)).
  Definition gen_vox_in (p : point) : eid := gen_vox (gen_restore p).
  (* thresholds of shape/line.go from the generated decimals and switches *)
  Definition gen_thresholds : float * float * float :=
    let '(lo, la) := if Generated.LineSwitch_hZoom <=? h
                     then (dec2f Generated.HightZoomLonMinima, dec2f Generated.HightZoomLatMinima)
                     else (dec2f Generated.LonMinima, dec2f Generated.LatMinima) in
    (lo, la, if Generated.LineSwitch_vZoom <=? v then dec2f Generated.HightZoomAltMinima else dec2f Generated.AltMinima).

  Lemma gen_vox_eq p : gen_vox p = vox_top_pt tanf cosf logf h v p.
  Proof.
    unfold gen_vox, vox_top_pt, vox_of, point_eid.
    rewrite gen_getHorizontalTileIdOnPoint_lonIndex_eq, gen_getHorizontalTileIdOnPoint_latIndex_eq,
      gen_getVerticalTileIdOnAltitude_vIndex_eq. fold tanf cosf logf.
    destruct (x_f (plon p) h); [|reflexivity]. destruct (y_f tanf cosf logf (plat p) h); [|reflexivity].
    destruct (f_f (palt p) v); reflexivity.
  Qed.
  Lemma gen_restore_eq p : gen_restore p = restore p.
  Proof. unfold gen_restore, restore. now rewrite <- new_point_over_generated_setters. Qed.
  Lemma gen_vox_in_eq p : gen_vox_in p = vox_in_pt tanf cosf logf h v p.
  Proof. unfold gen_vox_in, vox_in_pt. now rewrite gen_restore_eq, gen_vox_eq. Qed.
  Lemma gen_thresholds_eq : gen_thresholds = thresholds h v.
  Proof. unfold gen_thresholds, thresholds. vm_compute dec2f. reflexivity. Qed.

  (* the line model over the generated definitions *)
  Definition gen_line_ids (s e : point) : option (list eid) :=
    line_ids point gen_vox gen_vox_in mid_pt (small_pt gen_thresholds) line_fuel s e.
  Definition gen_unstable (p : point) : bool := negb (eid_eqb (gen_vox_in p) (gen_vox p)).
  Definition gen_folds (s e : point) : list eid :=
    (if (plon s =? 180)%float then [gen_vox s] else []) ++ (if (plon e =? 180)%float then [gen_vox e] else []).
End Gen.

(* extensionality of the recursion in its oracles *)
Lemma mids_ext (P : Type) (vi vi' : P -> eid) mid (sm sm' : P -> P -> bool) :
  (forall p, vi p = vi' p) -> (forall a b, sm a b = sm' a b) ->
  forall fuel s e, mids P vi mid sm fuel s e = mids P vi' mid sm' fuel s e.
Proof.
  intros Hv Hs. induction fuel as [|n IH]; intros s e; cbn [mids]; [reflexivity|].
  rewrite !Hv, Hs, !IH. reflexivity.
Qed.
Lemma line_ids_ext (P : Type) (vt vt' vi vi' : P -> eid) mid (sm sm' : P -> P -> bool) :
  (forall p, vt p = vt' p) -> (forall p, vi p = vi' p) -> (forall a b, sm a b = sm' a b) ->
  forall fuel s e, line_ids P vt vi mid sm fuel s e = line_ids P vt' vi' mid sm' fuel s e.
Proof.
  intros Ht Hv Hs fuel s e. unfold line_ids. rewrite !Ht, (mids_ext P vi vi' mid sm sm' Hv Hs). reflexivity.
Qed.

(* the model that is executed and compared with the Go code IS the recursion over the regenerated kernels and constants *)
Theorem gen_line_ids_is_model M h v s e :
  gen_line_ids M h v s e = line_ids_pt (GeneratedF.m_tan M) (GeneratedF.m_cos M) (GeneratedF.m_log M) h v s e.
Proof.
  unfold gen_line_ids, line_ids_pt. apply line_ids_ext.
  - apply gen_vox_eq.
  - apply gen_vox_in_eq.
  - intros a b. now rewrite gen_thresholds_eq.
Qed.

(* main results, over the generated definitions *)
Theorem gen_line_NoDup M h v s e l : gen_line_ids M h v s e = Some l -> NoDup l.
Proof. apply line_NoDup. Qed.
Theorem gen_line_ends M h v s e l : gen_line_ids M h v s e = Some l -> In (gen_vox M h v s) l /\ In (gen_vox M h v e) l.
Proof. apply line_ends. Qed.
Theorem gen_line_single M h v s e : gen_vox M h v s = gen_vox M h v e -> gen_line_ids M h v s e = Some [gen_vox M h v s].
Proof. apply line_single. Qed.
Theorem gen_line_emitted M h v s e l :
  mids point (gen_vox_in M h v) mid_pt (small_pt (gen_thresholds h v)) line_fuel s e = Some l ->
  forall i, In i l -> exists a b k n, sub mid_pt s e a b k n /\ i = gen_vox M h v (gen_restore (mid_pt a b)).
Proof. intros H. exact (mids_sub point _ mid_pt _ s e line_fuel s e 0 O l (sub0 mid_pt s e) H). Qed.

(* PARTIAL chain theorem over the generated definitions: if the executed run reports that all its A1/A2 node checks passed and
   no end point changes its (generated) voxel when stored again through the generated setters, the set is the generated
   model's set and is one connected chain from the generated start voxel *)
Theorem gen_line_connected_checked M h v s e l d :
  line_run (GeneratedF.m_tan M) (GeneratedF.m_cos M) (GeneratedF.m_log M) h v s e = Some (l, d, true) ->
  gen_unstable M h v s = false -> gen_unstable M h v e = false ->
  gen_line_ids M h v s e = Some l /\
  forall i, In i l -> reach (adjF (gen_folds M h v s e)) l (gen_vox M h v s) i.
Proof.
  intros Hrun Us Ue. unfold gen_unstable in Us, Ue. rewrite gen_vox_in_eq, gen_vox_eq in Us, Ue.
  split.
  - rewrite gen_line_ids_is_model, <- line_run_ids, Hrun. reflexivity.
  - unfold gen_folds. rewrite !gen_vox_eq. exact (line_pt_checked_connected _ _ _ h v s e l d Hrun Us Ue).
Qed.

(* D14 over the generated setter: storing the stored latitude -80.7500753463 again yields -80.7500753462, no error *)
Theorem gen_setlat_not_idempotent :
  GeneratedF.Point_SetLat 0 0 0 d14_lat = (0, d14_lat2, 0, false)%float /\ (d14_lat2 =? d14_lat)%float = false.
Proof. split; [rewrite gen_Point_SetLat_eq|]; vm_compute; reflexivity. Qed.
(* ... and with Go's recorded Tan/Cos/Log answers the D14 start point is unstable for the generated kernels (rows ...393 / ...392) *)
Definition d14_libm : GeneratedF.libm :=
  let z := fun _ : float => nan in let z2 := fun _ _ : float => nan in
  GeneratedF.mk_libm z z z d14_cos z z d14_log z z z z z z d14_tan z z z2 z2 z2 z2.
Theorem gen_D14_in_class :
  gen_vox d14_libm 34 6 d14_start = mk 34 10772080123 15465462393 6 0 /\
  gen_vox_in d14_libm 34 6 d14_start = mk 34 10772080123 15465462392 6 0 /\
  gen_unstable d14_libm 34 6 d14_start = true.
Proof.
  unfold gen_unstable. rewrite gen_vox_in_eq, gen_vox_eq. destruct d14_rows as [A B].
  change (GeneratedF.m_tan d14_libm) with d14_tan. change (GeneratedF.m_cos d14_libm) with d14_cos.
  change (GeneratedF.m_log d14_libm) with d14_log. rewrite A, B. repeat split. 
Qed.

(* the face-neighbour test wraps x and y modulo (generated maxIndex + 1): for every zoom the functions accept, the local maxIndex of
   GetShiftingSpatialID regenerated from the source is 2^h - 1, the width Line.near / Shift.shift_eid use *)
Theorem gen_shift_width a dx dy dv m : 0 <= eh a <= 35 ->
  GeneratedF.GetShiftingSpatialID_maxIndex dx dy dv (eh a) = Some m ->
  shift_eid a dx dy dv =
  {| eh := eh a; ex := wrap (ex a) dx (m + 1); ey := wrap (ey a) dy (m + 1); ev := ev a; ef := ef a + dv |}.
Proof.
  intros Hh. rewrite gen_GetShiftingSpatialID_maxIndex_eq, max_index_f_exact by lia. intros [= <-].
  unfold shift_eid. replace (2 ^ eh a - 1 + 1) with (2 ^ eh a) by lia. reflexivity.
Qed.

(* non-vacuity of gen_line_connected_checked: the equator segment (10,0,-3)-(10.5,0,40) at h = 12, v = 22 with the libm record that
   answers Tan 0 = 0, Cos 0 = 1, Log 1 = 0 (and NaN elsewhere) *)
Definition eq_libm : GeneratedF.libm :=
  let z := fun _ : float => nan in let z2 := fun _ _ : float => nan in
  GeneratedF.mk_libm z z z eq_cos z z eq_log z z z z z z eq_tan z z z2 z2 z2 z2.
Lemma gen_eq_run : exists l d,
  line_run (GeneratedF.m_tan eq_libm) (GeneratedF.m_cos eq_libm) (GeneratedF.m_log eq_libm) 12 22 eq_s1 eq_e1 = Some (l, d, true) /\
  gen_unstable eq_libm 12 22 eq_s1 = false /\ gen_unstable eq_libm 12 22 eq_e1 = false /\
  gen_line_ids eq_libm 12 22 eq_s1 eq_e1 = Some l /\ (10 < List.length l)%nat.
Proof.
  eexists. eexists. split; [vm_compute; reflexivity|]. split; [vm_compute; reflexivity|]. split; [vm_compute; reflexivity|].
  split; [vm_compute; reflexivity|]. vm_compute. lia.
Qed.
