(* BitAltRef.v — C17: the exact reference, in integer arithmetic on the floats' dyadic values (value of a float = m * 2^e), and the
   boolean checkers that the harness applies to the implementation's observed output.
   Reference of the forward direction: cell index of an altitude a in the 2^n-fold subdivision of [mn, mx) =
       clamp 0 (2^n-1) floor((a - mn) * 2^n / (mx - mn))                       (BitAltR.v: this is the exact-arithmetic twin of the loop)
   Reference of the reverse direction: bounds of cell k = mn + k (mx-mn)/2^vz and mn + (k+1)(mx-mn)/2^vz, their vertical indices at
   the output zoom = floor(bound * 2^oz / 2^25).
   Executable, no real numbers (this file is extracted). *)
From Coq Require Import ZArith Lia List Bool Floats String Ascii Sorting.Mergesort Sorting.Sorted Orders Permutation.
From SID Require Import Base Str Ids F64 ExactRef BitAlt.
Import ListNotations.
Open Scope Z_scope.

Definition dy := (Z * Z)%type.                                   (* (m, e) stands for m * 2^e *)
Definition dnum (d : dy) (E : Z) : Z := fst d * 2 ^ (snd d - E).  (* numerator at a common exponent E <= snd d *)
Definition dadd (a b : dy) : dy := let E := Z.min (snd a) (snd b) in (dnum a E + dnum b E, E).
Definition dneg (a : dy) : dy := (- fst a, snd a).
Definition dlt (a b : dy) : bool := let E := Z.min (snd a) (snd b) in dnum a E <? dnum b E.
Definition clampZ (lo hi z : Z) : Z := Z.max lo (Z.min hi z).

(* exact cell index of the altitude a *)
Definition idx_ref (a mn mx : dy) (n : Z) : Z :=
  let E := Z.min (snd a) (Z.min (snd mn) (snd mx)) in
  let A := dnum a E in let Mn := dnum mn E in let Mx := dnum mx E in
  clampZ 0 (2 ^ n - 1) (((A - Mn) * 2 ^ n) / (Mx - Mn)).
Lemma idx_ref_range a mn mx n : 0 <= n -> 0 <= idx_ref a mn mx n < 2 ^ n.
Proof. intros H. unfold idx_ref, clampZ. pose proof (pow2_pos n H). lia. Qed.

(* lower face of vertical index f at zoom v: f * 2^25 / 2^v *)
Definition vox_dy (f v : Z) : dy := (f, 25 - v).
(* bound of cell k: mn + k * (mx - mn) / 2^vz *)
Definition cell_dy (k vz : Z) (mn mx : dy) : dy :=
  let E := Z.min (snd mn) (snd mx) in
  (dnum mn E * 2 ^ vz + k * (dnum mx E - dnum mn E), E - vz).
(* vertical index at zoom oz of an altitude: floor(a * 2^oz / 2^25) *)
Definition vidx_ref (a : dy) (oz : Z) : Z := floor_scaled (fst a) (snd a) (oz - 25).

(* Rounding slack, in units of 2^-52 S with S = |mn|+|mx| (an upper bound of every quantity that is rounded).
   Forward (calcBitIndex): one level computes d = fl(mx-mn) (error <= 2^-53 |d|, halved exactly by /2) and b = fl(d/2+mn) (error <= 2^-53 |b|);
   |d| <= S, |b| <= max(|mn|,|mx|) <= S, so a level adds at most 1.5 * 2^-53 S < 2^-52 S, and the error of the two bounds it starts from is
   at most averaged ((E_mx+E_mn)/2 <= max), never amplified: after `zoom` levels every float border is within zoom * 2^-52 S of the exact one.
   The band used is (zoom+1) * 2^-52 S.
   Reverse (convertBitToVerticalID): h = fl(fl(mx-mn)/2^vz) (error <= 2^-53 S / 2^vz, the division is exact), p = fl(k*h) with |k| <= 2^(vz+1)
   (inherited <= 2^-52 S, own rounding <= 2^-53 * 2S), bound = fl(p+mn) (rounding <= 2^-53 * 3S): < 3 * 2^-52 S; the band used is 4 * 2^-52 S.
   A float answer inside the band of the exact one is counted under the finding class `bit_rounding` (forward) / `bit_rounding_reverse`;
   outside the band it is a violation. The derivation is not machine-checked; every run checks it. *)
Definition mag_sum (mn mx : dy) : dy :=
  let E := Z.min (snd mn) (snd mx) in (Z.abs (dnum mn E) + Z.abs (dnum mx E), E).
Definition slack (c : Z) (mn mx : dy) : dy := let s := mag_sum mn mx in (c * fst s, snd s - 52).
Definition idx_band (i : Z) (a mn mx : dy) (n : Z) : bool :=
  let s := slack (n + 1) mn mx in
  (idx_ref (dadd a (dneg s)) mn mx n <=? i) && (i <=? idx_ref (dadd a s) mn mx n).
Definition vidx_band (i : Z) (a mn mx : dy) (oz : Z) : bool :=
  let s := slack 4 mn mx in
  (vidx_ref (dadd a (dneg s)) oz <=? i) && (i <=? vidx_ref (dadd a s) oz).

(* the height range the property speaks about: finite, mn < mx, magnitudes far from underflow and overflow *)
Definition range_ok (mn mx : dy) : bool :=
  let s := mag_sum mn mx in
  let lg := Z.log2 (fst s) + snd s in            (* 2^lg <= |mn|+|mx| < 2^(lg+1) *)
  dlt mn mx && (0 <? fst s) && (-800 <=? lg) && (lg <=? 800).
(* reverse direction: additionally the indices must fit 64 bits with room (|altitude| * 2^10 < 2^62) and the cell number is one the
   conversion accepts (|k| <= 2^(vz+1)) *)
Definition range_ok_rev (mn mx : dy) (vz k : Z) : bool :=
  let s := mag_sum mn mx in
  range_ok mn mx && (Z.log2 (fst s) + snd s <=? 47) && (0 <=? vz) && (vz <=? 35) && (Z.abs k <=? 2 ^ (vz + 1)).

(* ---- "the observed list, as a set, is exactly the run lo..hi": sort, then walk ---- *)
Module ZOrder <: TotalLeBool.
  Definition t := Z.
  Definition leb := Z.leb.
  Theorem leb_total : forall a b, leb a b = true \/ leb b a = true.
  Proof. intros a b. unfold leb. destruct (Z.leb_spec a b); [now left|right]. apply Z.leb_le. lia. Qed.
End ZOrder.
Module ZSort := Sort ZOrder.
Definition sort_Z (l : list Z) : list Z := ZSort.sort l.
Lemma sort_Z_perm l : Permutation (sort_Z l) l.
Proof. symmetry. apply ZSort.Permuted_sort. Qed.

(* every step stays or advances by one, and the walk ends on hi *)
Fixpoint chain (prev : Z) (l : list Z) (hi : Z) : bool :=
  match l with
  | [] => prev =? hi
  | x :: r => ((x =? prev) || (x =? prev + 1)) && chain x r hi
  end.
Definition check_run (obs : list Z) (lo hi : Z) : bool :=
  match sort_Z obs with
  | [] => false
  | x :: r => (x =? lo) && chain x r hi
  end.

Lemma chain_sound : forall l p hi, chain p l hi = true ->
  p <= hi /\ (forall y, In y (p :: l) -> p <= y <= hi) /\ (forall y, p <= y <= hi -> In y (p :: l)).
Proof.
  induction l as [|x r IH]; intros p hi H; cbn [chain] in H.
  - apply Z.eqb_eq in H. subst. split; [lia|]. split; [intros y [<-|[]]; lia | intros y Hy; left; lia].
  - apply andb_true_iff in H. destruct H as [Hx Hc]. destruct (IH _ _ Hc) as (Hle & Hin & Hall).
    apply orb_true_iff in Hx. rewrite !Z.eqb_eq in Hx.
    split; [lia|]. split.
    + intros y [<-|Hy]; [lia|]. specialize (Hin y Hy). lia.
    + intros y Hy. destruct (Z.eq_dec y p) as [->|Hne]; [now left|]. right. apply Hall. lia.
Qed.
(* soundness of the run checker: acceptance means the observed list is, as a set, exactly {lo, ..., hi} (and lo <= hi) *)
Theorem check_run_sound obs lo hi : check_run obs lo hi = true -> lo <= hi /\ forall y, In y obs <-> lo <= y <= hi.
Proof.
  unfold check_run. intros H. pose proof (sort_Z_perm obs) as P.
  destruct (sort_Z obs) as [|x r] eqn:E; [discriminate|].
  apply andb_true_iff in H. destruct H as [Hx Hc]. apply Z.eqb_eq in Hx. subst x.
  destruct (chain_sound _ _ _ Hc) as (Hle & Hin & Hall). split; [exact Hle|].
  intros y. split; intros Hy.
  - apply Hin. apply (Permutation_in _ (Permutation_sym P)). exact Hy.
  - apply (Permutation_in _ P). now apply Hall.
Qed.

(* completeness on duplicate-free... in general: a list whose members are exactly lo..hi is accepted *)
Lemma chain_complete : forall l p hi, Sorted Z.le (p :: l) -> (forall y, In y (p :: l) -> y <= hi) ->
  (forall y, p <= y <= hi -> In y (p :: l)) -> chain p l hi = true.
Proof.
  induction l as [|x r IH]; intros p hi S Hub Hall; cbn [chain].
  - apply Z.eqb_eq. assert (p <= hi) by (apply Hub; now left).
    destruct (Z.eq_dec p hi) as [|Hne]; [assumption|]. destruct (Hall (p + 1) ltac:(lia)) as [?|[]]. lia.
  - inversion S as [|? ? S' Hd]; subst. inversion Hd as [|? ? Hpx]; subst.
    assert (Hsx : forall y, In y (x :: r) -> x <= y).
    { apply Sorted_StronglySorted in S'; [|intros a b c; apply Z.le_trans]. inversion S' as [|? ? _ Hf]; subst.
      intros y [<-|Hy]; [lia|]. rewrite Forall_forall in Hf. now apply Hf. }
    assert (Hx : x = p \/ x = p + 1).
    { destruct (Z.le_gt_cases x (p + 1)); [lia|].
      assert (p + 1 <= hi) by (specialize (Hub x ltac:(right; now left)); lia).
      destruct (Hall (p + 1) ltac:(lia)) as [?|Hy]; [lia|]. specialize (Hsx _ Hy). lia. }
    apply andb_true_iff. split; [apply orb_true_iff; rewrite !Z.eqb_eq; lia|].
    apply IH; [exact S' | intros y Hy; apply Hub; now right|].
    intros y Hy. destruct (Hall y ltac:(lia)) as [<-|Hin]; [|exact Hin]. left. lia.
Qed.
Theorem check_run_complete obs lo hi : lo <= hi -> (forall y, In y obs <-> lo <= y <= hi) -> check_run obs lo hi = true.
Proof.
  intros Hle Hset. unfold check_run. pose proof (sort_Z_perm obs) as P.
  assert (S : Sorted Z.le (sort_Z obs)).
  { pose proof (ZSort.Sorted_sort obs) as S0. unfold sort_Z.
    induction S0 as [|a l S0 IH Hd]; constructor; [exact IH|].
    destruct Hd as [|b l' Hab]; constructor. unfold is_true, ZOrder.leb in Hab. now apply Z.leb_le. }
  destruct (sort_Z obs) as [|x r] eqn:E.
  - exfalso. assert (In lo obs) by (apply Hset; lia). apply (Permutation_in _ (Permutation_sym P)) in H. destruct H.
  - assert (Hmem : forall y, In y (x :: r) <-> lo <= y <= hi).
    { intros y. rewrite <- Hset. split; [apply (Permutation_in _ P) | apply (Permutation_in _ (Permutation_sym P))]. }
    assert (Hx : x = lo).
    { assert (lo <= x) by (apply Hmem; now left).
      assert (Hin : In lo (x :: r)) by (apply Hmem; lia). destruct Hin as [|Hin]; [assumption|].
      apply Sorted_StronglySorted in S; [|intros a b c; apply Z.le_trans]. inversion S as [|? ? _ Hf]; subst.
      rewrite Forall_forall in Hf. specialize (Hf _ Hin). lia. }
    subst x. rewrite Z.eqb_refl. cbn [andb].
    apply chain_complete; [exact S | intros y Hy; apply Hmem in Hy; lia | intros y Hy; now apply Hmem].
Qed.

(* ---------------- forward direction: convertVerticallIDToBit and the exported conversions ---------------- *)
(* the two exact ends of the run for the voxel (v, f) *)
Definition fwd_ref (v f oz : Z) (mn mx : dy) : Z * Z :=
  (idx_ref (vox_dy f v) mn mx oz, idx_ref (vox_dy (f + 1) v) mn mx oz).
Definition check_fwd (v f oz : Z) (mn mx : dy) (obs : list Z) : bool :=
  let '(lo, hi) := fwd_ref v f oz mn mx in check_run obs lo hi.
(* the float answer (ends p <= q of the emitted run) is within the rounding band of the exact one *)
Definition band_fwd (v f oz : Z) (mn mx : dy) (p q : Z) : bool :=
  idx_band p (vox_dy f v) mn mx oz && idx_band q (vox_dy (f + 1) v) mn mx oz.

(* ---------------- reverse direction: convertBitToVerticalID ---------------- *)
Definition rev_ref (vz k oz : Z) (mn mx : dy) : Z * Z :=
  (vidx_ref (cell_dy k vz mn mx) oz, vidx_ref (cell_dy (k + 1) vz mn mx) oz).
Definition check_rev (vz k oz : Z) (mn mx : dy) (obs : list Z) : bool :=
  let '(lo, hi) := rev_ref vz k oz mn mx in check_run obs lo hi.
Definition band_rev (vz k oz : Z) (mn mx : dy) (p q : Z) : bool :=
  vidx_band p (cell_dy k vz mn mx) mn mx oz && vidx_band q (cell_dy (k + 1) vz mn mx) mn mx oz.

(* "zoom/index" strings back to indices; None if one is not of that form or carries another zoom *)
Definition parse_vstr (oz : Z) (s : string) : option Z :=
  match split s with
  | [a; b] => match parse a, parse b with
              | Some z, Some i => if z =? oz then Some i else None
              | _, _ => None
              end
  | _ => None
  end.

(* ---- sets of ID strings: sorted with a character order that extracts to a native comparison ---- *)
Fixpoint str_le (a b : string) : bool :=
  match a, b with
  | EmptyString, _ => true
  | String _ _, EmptyString => false
  | String c a', String d b' => match Ascii.compare c d with Lt => true | Gt => false | Eq => str_le a' b' end
  end.
Module StrOrd <: TotalLeBool.
  Definition t := string.
  Definition leb := str_le.
  Theorem leb_total : forall a b, leb a b = true \/ leb b a = true.
  Proof.
    unfold leb. induction a as [|c a IH]; destruct b as [|d b]; cbn [str_le]; auto.
    rewrite (Ascii.compare_antisym d c). destruct (Ascii.compare c d); cbn; auto.
  Qed.
End StrOrd.
Module StrSortF := Sort StrOrd.
Definition same_strings (a b : list string) : bool :=
  list_eqb String.eqb (dedup_sorted (StrSortF.sort a)) (dedup_sorted (StrSortF.sort b)).
