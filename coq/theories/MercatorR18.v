(* MercatorR18.v — real-number side of C18 (and of the latitude axis of the ID grid): the spherical Mercator projection on
   radius 6378137 m (EPSG:3857), its inverse, the round trip on |phi| < PI/2, the identification of the C01 grid fractions with
   the normalised projection, the formulas of the third-party library wgs84 v1.1.7 (read from its source) as the same functions,
   and the library's latitude limit as the edge of the projected square. Axioms: those of Coq's Reals only. *)
From Coq Require Import Reals Lra Psatz.
From Coquelicot Require Import Coquelicot.
From Interval Require Import Tactic.
Open Scope R_scope.

Definition Rearth : R := 6378137.
Definition merc_x (lam : R) : R := Rearth * lam.
Definition merc_y (phi : R) : R := Rearth * ln (tan phi + 1 / cos phi).
Definition merc_lon (x : R) : R := x / Rearth.
Definition merc_lat (y : R) : R := atan (sinh (y / Rearth)).
Definition mfrac (phi : R) : R := (1 - ln (tan phi + 1 / cos phi) / PI) / 2.
Definition mlat (t : R) : R := atan (sinh (PI * (1 - 2 * t))).
Definition xfrac (lon : R) : R := (lon + 180) / 360.
Definition rad (d : R) : R := d * PI / 180.

Lemma Rearth_pos : 0 < Rearth. Proof. unfold Rearth. lra. Qed.

Lemma cosh_pos x : 0 < cosh x.
Proof. unfold cosh. pose proof (exp_pos x). pose proof (exp_pos (- x)). lra. Qed.
Lemma sinh_plus_cosh x : sinh x + cosh x = exp x.
Proof. unfold sinh, cosh. lra. Qed.
Lemma sqrt_1_sinh2 x : sqrt (1 + (sinh x)²) = cosh x.
Proof.
  replace (1 + (sinh x)²) with ((cosh x)²).
  - apply sqrt_Rsqr. left. apply cosh_pos.
  - unfold Rsqr, cosh, sinh. pose proof (exp_plus x (- x)) as E. rewrite Rplus_opp_r, exp_0 in E. nra.
Qed.

Lemma ln_sec_tan_atan_sinh u : ln (tan (atan (sinh u)) + 1 / cos (atan (sinh u))) = u.
Proof.
  rewrite atan_right_inv, cos_atan.
  replace (1 / (1 / sqrt (1 + (sinh u)²))) with (sqrt (1 + (sinh u)²)).
  2:{ rewrite sqrt_1_sinh2. pose proof (cosh_pos u). field. lra. }
  rewrite sqrt_1_sinh2, sinh_plus_cosh, ln_exp. reflexivity.
Qed.

Lemma sec_plus_tan_pos phi : - (PI / 2) < phi < PI / 2 -> 0 < tan phi + 1 / cos phi.
Proof.
  intros H. pose proof (cos_gt_0 phi ltac:(lra) ltac:(lra)) as Hc.
  unfold tan. replace (sin phi / cos phi + 1 / cos phi) with ((1 + sin phi) / cos phi) by (field; lra).
  apply Rdiv_lt_0_compat; [|exact Hc].
  pose proof (SIN_bound phi) as [Hs _].
  destruct (Req_dec (sin phi) (-1)) as [E|N]; [|lra].
  exfalso. pose proof (sin2_cos2 phi) as S. unfold Rsqr in S. rewrite E in S. nra.
Qed.

Lemma sinh_ln_sec_tan phi : - (PI / 2) < phi < PI / 2 -> sinh (ln (tan phi + 1 / cos phi)) = tan phi.
Proof.
  intros H. pose proof (cos_gt_0 phi ltac:(lra) ltac:(lra)) as Hc.
  pose proof (sec_plus_tan_pos phi H) as Hp.
  set (g := tan phi + 1 / cos phi) in *.
  unfold sinh. rewrite exp_Ropp, exp_ln by exact Hp.
  assert (I : / g = 1 / cos phi - tan phi).
  { apply Rmult_eq_reg_l with g; [|lra]. rewrite Rinv_r by lra. unfold g.
    unfold tan. pose proof (sin2_cos2 phi) as SC. unfold Rsqr in SC.
    symmetry. transitivity ((1 - sin phi * sin phi) / (cos phi * cos phi)); [field; lra|].
    replace (1 - sin phi * sin phi) with (cos phi * cos phi) by lra. field. lra. }
  rewrite I. unfold g. lra.
Qed.

(* ---- the projection and its inverse ---- *)
Theorem merc_y_lat y : merc_y (merc_lat y) = y.
Proof. unfold merc_y, merc_lat. rewrite ln_sec_tan_atan_sinh. pose proof Rearth_pos. field. lra. Qed.

Theorem merc_lat_y phi : - (PI / 2) < phi < PI / 2 -> merc_lat (merc_y phi) = phi.
Proof.
  intros H. unfold merc_lat, merc_y. pose proof Rearth_pos.
  replace (Rearth * ln (tan phi + 1 / cos phi) / Rearth) with (ln (tan phi + 1 / cos phi)) by (field; lra).
  rewrite sinh_ln_sec_tan by exact H. apply atan_tan. exact H.
Qed.

Theorem merc_lon_x lam : merc_lon (merc_x lam) = lam.
Proof. unfold merc_lon, merc_x. pose proof Rearth_pos. field. lra. Qed.
Theorem merc_x_lon x : merc_x (merc_lon x) = x.
Proof. unfold merc_lon, merc_x. pose proof Rearth_pos. field. lra. Qed.

Theorem merc_lat_range y : - (PI / 2) < merc_lat y < PI / 2.
Proof. unfold merc_lat. pose proof (atan_bound (sinh (y / Rearth))). lra. Qed.

(* y = R asinh(tan phi) *)
Theorem merc_y_arcsinh phi : - (PI / 2) < phi < PI / 2 -> merc_y phi = Rearth * arcsinh (tan phi).
Proof.
  intros H. unfold merc_y, arcsinh. f_equal. f_equal. f_equal.
  pose proof (cos_gt_0 phi ltac:(lra) ltac:(lra)) as Hc.
  replace (tan phi ^ 2 + 1) with ((1 / cos phi)²).
  - rewrite sqrt_Rsqr; [reflexivity|]. left. apply Rdiv_lt_0_compat; lra.
  - unfold tan, Rsqr. pose proof (sin2_cos2 phi) as S. unfold Rsqr in S.
    field_simplify_eq; [|lra]. nra.
Qed.

(* ---- the ID grid of C01 is this projection, normalised to the unit square ---- *)
Theorem grid_row_is_mercator phi : mfrac phi = (1 - merc_y phi / (PI * Rearth)) / 2.
Proof. unfold mfrac, merc_y. pose proof Rearth_pos. pose proof PI_RGT_0. field. lra. Qed.
Theorem grid_col_is_mercator lon : xfrac lon = (1 + merc_x (rad lon) / (PI * Rearth)) / 2.
Proof. unfold xfrac, merc_x, rad. pose proof Rearth_pos. pose proof PI_RGT_0. field. lra. Qed.
Theorem mfrac_mlat t : mfrac (mlat t) = t.
Proof. unfold mfrac, mlat. rewrite ln_sec_tan_atan_sinh. pose proof PI_RGT_0. field. lra. Qed.
Theorem mlat_is_merc_lat t : mlat t = merc_lat (PI * Rearth * (1 - 2 * t)).
Proof. unfold mlat, merc_lat. f_equal. f_equal. pose proof Rearth_pos. field. lra. Qed.

(* ---- the formulas of the wgs84 library (webMercator.FromLonLat / ToLonLat) are the same functions ---- *)
Lemma tan_quarter_plus_half phi : - (PI / 2) < phi < PI / 2 -> tan (PI / 4 + phi / 2) = tan phi + 1 / cos phi.
Proof.
  intros H. set (t := phi / 2).
  assert (Ht : - (PI / 4) < t < PI / 4) by (unfold t; lra).
  pose proof (cos_gt_0 phi ltac:(lra) ltac:(lra)) as Hc.
  pose proof (cos_gt_0 t ltac:(lra) ltac:(lra)) as Hct.
  assert (Hd : 0 < cos (PI / 4 + t)) by (apply cos_gt_0; lra).
  unfold tan. rewrite sin_plus, cos_plus in *. rewrite sin_PI4, cos_PI4 in *.
  replace phi with (2 * t) by (unfold t; lra). rewrite sin_2a, cos_2a.
  assert (Hs2 : 0 < 1 / sqrt 2) by (apply Rdiv_lt_0_compat; [lra | apply sqrt_lt_R0; lra]).
  assert (Hm : 0 < cos t - sin t) by nra.
  assert (Hp : 0 < cos t + sin t).
  { assert (0 < cos (PI / 4 - t)) by (apply cos_gt_0; lra). rewrite cos_minus, sin_PI4, cos_PI4 in H0. nra. }
  pose proof (sin2_cos2 t) as S. unfold Rsqr in S.
  assert (Hc2 : cos t * cos t - sin t * sin t = (cos t - sin t) * (cos t + sin t)) by ring.
  rewrite Hc2.
  field_simplify_eq; [| repeat split; try lra; apply Rgt_not_eq, sqrt_lt_R0; lra].
  nra.
Qed.

(* webMercator.FromLonLat of wgs84 v1.1.7, read from its source: east = radian(lon) * A, north = ln(tan(radian((90+lat)/2))) * A *)
Definition lib_east (lon : R) : R := rad lon * Rearth.
Definition lib_north (lat : R) : R := ln (tan (rad ((90 + lat) / 2))) * Rearth.
(* webMercator.ToLonLat: lon = degree(east / A), lat = atan(exp(north / A)) * degree(1) * 2 - 90 *)
Definition deg (r : R) : R := r * 180 / PI.
Definition lib_lon (east : R) : R := deg (east / Rearth).
Definition lib_lat (north : R) : R := atan (exp (north / Rearth)) * deg 1 * 2 - 90.

Lemma rad_deg r : rad (deg r) = r.
Proof. unfold rad, deg. pose proof PI_RGT_0. field. lra. Qed.
Lemma deg_rad d : deg (rad d) = d.
Proof. unfold rad, deg. pose proof PI_RGT_0. field. lra. Qed.

Theorem lib_east_is_merc_x lon : lib_east lon = merc_x (rad lon).
Proof. unfold lib_east, merc_x. ring. Qed.
Theorem lib_north_is_merc_y lat : -90 < lat < 90 -> lib_north lat = merc_y (rad lat).
Proof.
  intros H. unfold lib_north, merc_y. pose proof PI_RGT_0 as Hpi.
  assert (Hr : - (PI / 2) < rad lat < PI / 2).
  { unfold rad.
    assert (0 < (lat + 90) * PI) by (apply Rmult_lt_0_compat; lra).
    assert (0 < (90 - lat) * PI) by (apply Rmult_lt_0_compat; lra). lra. }
  replace (rad ((90 + lat) / 2)) with (PI / 4 + rad lat / 2) by (unfold rad; field).
  rewrite tan_quarter_plus_half by exact Hr. ring.
Qed.
Theorem lib_lon_is_merc_lon east : lib_lon east = deg (merc_lon east).
Proof. reflexivity. Qed.
Theorem lib_lat_is_merc_lat north : lib_lat north = deg (merc_lat north).
Proof.
  unfold lib_lat. pose proof PI_RGT_0 as Hpi.
  set (u := north / Rearth).
  set (phi := 2 * atan (exp u) - PI / 2).
  assert (Ha : 0 < atan (exp u) < PI / 2).
  { split; [|apply atan_bound]. rewrite <- atan_0. apply atan_increasing. apply exp_pos. }
  assert (Hphi : - (PI / 2) < phi < PI / 2) by (unfold phi; lra).
  assert (E : merc_lat north = phi).
  { rewrite <- (merc_lat_y phi Hphi). f_equal. unfold merc_y.
    rewrite <- (tan_quarter_plus_half phi Hphi).
    replace (PI / 4 + phi / 2) with (atan (exp u)) by (unfold phi; lra).
    rewrite atan_right_inv, ln_exp. unfold u. pose proof Rearth_pos. field. lra. }
  rewrite E. unfold phi, deg. field. lra.
Qed.

(* ---- the latitude limit of the library (85.0511287798 degrees) is the edge of the square ---- *)
Definition lat_limit_deg : R := 850511287798 / 10000000000.
Theorem limit_is_square_edge : Rabs (merc_y (rad lat_limit_deg) - PI * Rearth) <= 1 / 100000.
Proof. unfold merc_y, rad, lat_limit_deg, Rearth. interval with (i_prec 100). Qed.
Theorem limit_in_row_0 : 0 <= 2 ^ 35 * mfrac (rad lat_limit_deg) < 1.
Proof. unfold mfrac, rad, lat_limit_deg. split; interval with (i_prec 100). Qed.
Theorem limit_in_last_row : 2 ^ 35 - 1 <= 2 ^ 35 * mfrac (rad (- lat_limit_deg)) < 2 ^ 35.
Proof. unfold mfrac, rad, lat_limit_deg. split; interval with (i_prec 100). Qed.

(* bounds on PI used by the exact checker of the easting *)
Definition pi_lo : R := 3141592653589793238462643383279502884197 / 1000000000000000000000000000000000000000.
Definition pi_hi : R := 3141592653589793238462643383279502884198 / 1000000000000000000000000000000000000000.
Lemma pi_bounds : pi_lo < PI < pi_hi.
Proof. unfold pi_lo, pi_hi. split; interval with (i_prec 150). Qed.

(* ---- stability of the inverse: the tolerance on the northing, read in degrees ---- *)
(* the inverse northing is a contraction: d/du atan(sinh u) = 1 / cosh u <= 1 *)
Lemma gd_derive u : is_derive (fun u => atan (sinh u)) u (1 / cosh u).
Proof.
  pose proof (cosh_pos u) as Hc.
  auto_derive; [trivial|].
  assert (E : 1 + sinh u * (sinh u * 1) = cosh u * cosh u).
  { unfold cosh, sinh. pose proof (exp_plus u (- u)) as X. rewrite Rplus_opp_r, exp_0 in X. nra. }
  rewrite E. field. lra.
Qed.
Lemma cosh_ge_1 u : 1 <= cosh u.
Proof.
  unfold cosh. pose proof (exp_pos u) as P. pose proof (exp_plus u (- u)) as X. rewrite Rplus_opp_r, exp_0 in X.
  set (a := exp u) in *. set (b := exp (- u)) in *. assert (0 < b) by apply exp_pos.
  pose proof (Rle_0_sqr (a - b)) as S. unfold Rsqr in S.
  destruct (Rle_dec 2 (a + b)); [lra|]. exfalso. assert ((a + b) * (a + b) < 2 * 2) by (apply Rmult_le_0_lt_compat; lra). nra.
Qed.
Lemma gd_contraction a b : Rabs (atan (sinh b) - atan (sinh a)) <= Rabs (b - a).
Proof.
  assert (W : forall a b, a <= b -> Rabs (atan (sinh b) - atan (sinh a)) <= Rabs (b - a)).
  { clear. intros a b Hab.
    destruct (MVT_gen (fun u => atan (sinh u)) a b (fun u => 1 / cosh u)) as (c & Hc & E).
    - intros x _. apply gd_derive.
    - intros x _. apply derivable_continuous_pt. exists (1 / cosh x). apply is_derive_Reals, gd_derive.
    - rewrite E. pose proof (cosh_ge_1 c). pose proof (cosh_pos c).
      assert (0 < 1 / cosh c <= 1).
      { split; [apply Rdiv_lt_0_compat; lra|]. apply Rmult_le_reg_r with (cosh c); [lra|]. field_simplify; lra. }
      rewrite Rabs_mult. rewrite (Rabs_pos_eq (1 / cosh c)) by lra. pose proof (Rabs_pos (b - a)). nra. }
  destruct (Rle_dec a b); [now apply W|].
  rewrite <- (Rabs_Ropp (atan (sinh b) - _)), <- (Rabs_Ropp (b - a)), !Ropp_minus_distr. apply W. lra.
Qed.
(* a northing known to within d metres pins the latitude to within d / R radians *)
Theorem merc_lat_contraction y1 y2 : Rabs (merc_lat y1 - merc_lat y2) <= Rabs (y1 - y2) / Rearth.
Proof.
  unfold merc_lat. eapply Rle_trans; [apply gd_contraction|].
  pose proof Rearth_pos. replace (y1 / Rearth - y2 / Rearth) with ((y1 - y2) / Rearth) by (field; lra).
  unfold Rdiv. rewrite Rabs_mult, (Rabs_pos_eq (/ Rearth)); [lra|]. left. now apply Rinv_0_lt_compat.
Qed.
(* hence: an observed northing within 1e-6 m of the projection of phi inverts to within 9e-12 degrees of phi *)
Theorem northing_tolerance_in_degrees y phi : - (PI / 2) < phi < PI / 2 ->
  Rabs (y - merc_y phi) <= 1 / 1000000 -> Rabs (deg (merc_lat y) - deg phi) <= 9 / 1000000000000.
Proof.
  intros Hphi H. replace (deg phi) with (deg (merc_lat (merc_y phi))) by (now rewrite merc_lat_y).
  pose proof (merc_lat_contraction y (merc_y phi)) as C.
  unfold deg. replace (merc_lat y * 180 / PI - merc_lat (merc_y phi) * 180 / PI) with ((merc_lat y - merc_lat (merc_y phi)) * (180 / PI)) by (field; apply Rgt_not_eq, PI_RGT_0).
  rewrite Rabs_mult. pose proof PI_RGT_0.
  assert (P : 0 < 180 / PI <= 573 / 10) by (split; [apply Rdiv_lt_0_compat; lra | interval]).
  rewrite (Rabs_pos_eq (180 / PI)) by lra.
  assert (Rabs (merc_lat y - merc_lat (merc_y phi)) <= (1 / 1000000) / Rearth).
  { eapply Rle_trans; [exact C|]. unfold Rdiv. apply Rmult_le_compat_r; [left; apply Rinv_0_lt_compat, Rearth_pos | exact H]. }
  pose proof (Rabs_pos (merc_lat y - merc_lat (merc_y phi))).
  apply Rle_trans with ((1 / 1000000) / Rearth * (573 / 10)); [apply Rmult_le_compat; lra|]. unfold Rearth. lra.
Qed.

(* ---- statements in the form used by properties/C18.v ---- *)
Theorem projection_round_trip lam phi : - (PI / 2) < phi < PI / 2 ->
  merc_lon (merc_x lam) = lam /\ merc_lat (merc_y phi) = phi.
Proof. intros H. split; [apply merc_lon_x | now apply merc_lat_y]. Qed.
Theorem inverse_round_trip x y :
  merc_x (merc_lon x) = x /\ merc_y (merc_lat y) = y /\ - (PI / 2) < merc_lat y < PI / 2.
Proof. split; [apply merc_x_lon | split; [apply merc_y_lat | apply merc_lat_range]]. Qed.
Theorem round_trip_in_degrees lon lat : -90 < lat < 90 ->
  lib_lon (lib_east lon) = lon /\ lib_lat (lib_north lat) = lat.
Proof.
  intros H. pose proof PI_RGT_0 as Hpi.
  assert (Hr : - (PI / 2) < rad lat < PI / 2).
  { unfold rad. assert (0 < (lat + 90) * PI) by (apply Rmult_lt_0_compat; lra).
    assert (0 < (90 - lat) * PI) by (apply Rmult_lt_0_compat; lra). lra. }
  split.
  - rewrite lib_lon_is_merc_lon, lib_east_is_merc_x, merc_lon_x. apply deg_rad.
  - rewrite lib_lat_is_merc_lat, lib_north_is_merc_y by exact H. rewrite merc_lat_y by exact Hr. apply deg_rad.
Qed.
Theorem grid_is_epsg3857 lon phi :
  xfrac lon = (1 + merc_x (rad lon) / (PI * Rearth)) / 2 /\ mfrac phi = (1 - merc_y phi / (PI * Rearth)) / 2.
Proof. split; [apply grid_col_is_mercator | apply grid_row_is_mercator]. Qed.
Theorem library_formulas lon lat east north : -90 < lat < 90 ->
  lib_east lon = merc_x (rad lon) /\ lib_north lat = merc_y (rad lat) /\
  lib_lon east = deg (merc_lon east) /\ lib_lat north = deg (merc_lat north).
Proof.
  intros H. repeat split; [apply lib_east_is_merc_x | now apply lib_north_is_merc_y | apply lib_lat_is_merc_lat].
Qed.
Theorem latitude_limit :
  Rabs (merc_y (rad lat_limit_deg) - PI * Rearth) <= 1 / 100000 /\
  0 <= 2 ^ 35 * mfrac (rad lat_limit_deg) < 1 /\ 2 ^ 35 - 1 <= 2 ^ 35 * mfrac (rad (- lat_limit_deg)) < 2 ^ 35.
Proof. split; [apply limit_is_square_edge | split; [apply limit_in_row_0 | apply limit_in_last_row]]. Qed.
Example domain_nonvacuous : - (PI / 2) < rad 35 < PI / 2 /\ -90 < 35 < 90.
Proof. split; [unfold rad; split; interval | lra]. Qed.
