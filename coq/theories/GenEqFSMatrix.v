(* GenEqFSMatrix.v — common/spatial/matrix3.go regenerated = VecF.v (a constant-bound loop over the elements is unrolled by the translator). *)
From Coq Require Import ZArith Bool Floats.
From SIDGen Require Import GeneratedF GeneratedFS.
From SID Require Import F64 VecF GenFTac GenEqFSTac.
Open Scope float_scope.

(* matrix3.go *)
Lemma gen_NewMatrix3_eq : forall a b c d e f g h i, GeneratedFS.NewMatrix3 a b c d e f g h i = tm (FM a b c d e f g h i).
Proof. gen_fs ltac:(idtac). Qed.
Lemma gen_NewUnitMatrix3_eq : GeneratedFS.NewUnitMatrix3 = tm fmunit.
Proof. gen_fs ltac:(unfold fmunit). Qed.
Lemma gen_Matrix3_Mul_eq : forall a b, GeneratedFS.Matrix3_Mul (tm a) (tm b) = tm (fmmul a b).
Proof. gen_fs ltac:(unfold fmmul). Qed.
Lemma gen_Matrix3_MulVec_eq : forall a v, GeneratedFS.Matrix3_MulVec (tm a) (tv v) = tv (fmulvec a v).
Proof. gen_fs ltac:(unfold fmulvec). Qed.

