(* VecF.v — executable binary64 models of common/spatial (vector3.go, point3.go, line3.go, matrix3.go, quat.go) and of the float helpers
   of common/util.go, written operation by operation in the order of the Go source (gonum r3 for the vector primitives).
   Go on amd64 (GOAMD64=v1) does not fuse multiply-add, so `+ - * /` and math.Sqrt/math.Abs are the IEEE operations of Coq's
   primitive floats: results are compared with the implementation bit for bit. math.Hypot, math.Sin, math.Cos are NOT modelled:
   they are parameters, answered at run time by the Go math package itself (oracle).
   Second half: exact dyadic arithmetic (every finite float is m * 2^e) and the boolean law checkers that decide, on the
   implementation's observed outputs, the real-number laws of Vec.v / Quat.v — exactly on small-integer inputs, within a stated
   rounding band otherwise. *)
From Coq Require Import ZArith Floats Bool List Lia.
From SID Require Import Base F64 ExactRef.
Import ListNotations.

(* ================= float models ================= *)
Open Scope float_scope.
Record fvec := FV { fx : float; fy : float; fz : float }.
Record fquat := FQ { fqw : float; fqx : float; fqy : float; fqz : float }.
Record fmat := FM { f00 : float; f01 : float; f02 : float; f10 : float; f11 : float; f12 : float; f20 : float; f21 : float; f22 : float }.

Definition c_minima : float := 0x1.b7cdfd9d7bdbbp-34.     (* consts.Minima = 1e-10 *)
Definition c_half : float := 0x1p-1.

Section WithMath.
  Variable hyp : float -> float -> float.     (* math.Hypot *)
  Variable sinf cosf : float -> float.        (* math.Sin, math.Cos *)

  (* gonum r3 *)
  Definition fadd (p q : fvec) : fvec := FV (fx p + fx q) (fy p + fy q) (fz p + fz q).
  Definition fsub (p q : fvec) : fvec := FV (fx p - fx q) (fy p - fy q) (fz p - fz q).
  Definition fscale (f : float) (p : fvec) : fvec := FV (f * fx p) (f * fy p) (f * fz p).
  Definition fdot (p q : fvec) : float := fx p * fx q + fy p * fy q + fz p * fz q.
  Definition fcross (p q : fvec) : fvec :=
    FV (fy p * fz q - fz p * fy q) (fz p * fx q - fx p * fz q) (fx p * fy q - fy p * fx q).
  Definition fnorm (p : fvec) : float := hyp (fx p) (hyp (fy p) (fz p)).
  Definition fl1norm (p : fvec) : float := abs (fx p) + abs (fy p) + abs (fz p).
  Definition fnanv : fvec := FV nan nan nan.
  Definition funit (p : fvec) : fvec :=
    if (fx p =? 0) && (fy p =? 0) && (fz p =? 0) then fnanv else fscale (1 / fnorm p) p.
  Definition fcosv (p q : fvec) : float := fdot p q / (fnorm p * fnorm q).

  (* common.AlmostEqual, Point3.IsClose / Translate / DistancePoint, NewVectorFromPoints *)
  Definition almost_equal (x y tol : float) : bool := (x =? y) || (abs (x - y) <=? tol).
  Definition fis_close (p q : fvec) (eps : float) : bool :=
    almost_equal (fx p) (fx q) eps && almost_equal (fy p) (fy q) eps && almost_equal (fz p) (fz q) eps.
  Definition fvec_from_points (p q : fvec) : fvec := fsub q p.
  Definition ftranslate (p a : fvec) : fvec := fadd p a.
  Definition fdistance (p q : fvec) : float := fnorm (fvec_from_points p q).
  Definition deg2rad (d : float) : float := d * c_deg2rad.
  Definition rad2deg (r : float) : float := r * c_rad2deg.

  (* Line3 (start point, direction) *)
  Definition fline_to_point (p d : fvec) (t : float) : fvec := ftranslate p (fscale t d).
  Definition fline_end (p d : fvec) : fvec := ftranslate p d.

  (* MaxPoint / MinPoint: index of the first point with the largest (smallest) dot product; strict comparison keeps the earlier one *)
  Fixpoint fbest (gt : bool) (v : fvec) (l : list fvec) (best : fvec) (bv : float) : fvec :=
    match l with
    | [] => best
    | p :: r => let d := fdot p v in
                if (if gt then bv <? d else d <? bv) then fbest gt v r p d else fbest gt v r best bv
    end.
  Definition fmax_point (gt : bool) (l : list fvec) (v : fvec) : result fvec :=
    match l with [] => Err | p :: _ => Ok (fbest gt v l p (fdot p v)) end.

  (* Matrix3 *)
  Definition fmmul (a b : fmat) : fmat :=
    FM (f00 a * f00 b + f01 a * f10 b + f02 a * f20 b) (f00 a * f01 b + f01 a * f11 b + f02 a * f21 b) (f00 a * f02 b + f01 a * f12 b + f02 a * f22 b)
       (f10 a * f00 b + f11 a * f10 b + f12 a * f20 b) (f10 a * f01 b + f11 a * f11 b + f12 a * f21 b) (f10 a * f02 b + f11 a * f12 b + f12 a * f22 b)
       (f20 a * f00 b + f21 a * f10 b + f22 a * f20 b) (f20 a * f01 b + f21 a * f11 b + f22 a * f21 b) (f20 a * f02 b + f21 a * f12 b + f22 a * f22 b).
  Definition fmulvec (a : fmat) (v : fvec) : fvec :=
    FV (fx v * f00 a + fy v * f01 a + fz v * f02 a) (fx v * f10 a + fy v * f11 a + fz v * f12 a) (fx v * f20 a + fy v * f21 a + fz v * f22 a).
  Definition fmunit : fmat := FM 1 0 0 0 1 0 0 0 1.

  (* quat.go *)
  Definition fquat_axis_angle (axis : fvec) (angle : float) : fquat :=
    let u := funit axis in
    let sh := sinf (angle * c_half) in
    FQ (cosf (angle * c_half)) (fx u * sh) (fy u * sh) (fz u * sh).
  Definition frotate_between (a b : fvec) : fquat :=
    let su := funit a in
    let eu := funit b in
    let c := fcosv su eu in
    let axis := fcross su eu in
    if c + 1 <? c_minima then
      let ax1 := fcross su (FV 0 0 1) in
      let ax := if fnorm ax1 <? c_minima then fcross a (FV 1 0 0) else ax1 in
      fquat_axis_angle ax c_pi
    else
      let s := sqrt (2 * (1 + c)) in
      let inv := 1 / s in
      FQ (s * c_half) (fx axis * inv) (fy axis * inv) (fz axis * inv).
  (* the branch the code takes: `cos+1 < consts.Minima` *)
  Definition frotate_fallback (a b : fvec) : bool := fcosv (funit a) (funit b) + 1 <? c_minima.
End WithMath.

Definition fvec_eqb (a b : fvec) : bool := feqb_bits (fx a) (fx b) && feqb_bits (fy a) (fy b) && feqb_bits (fz a) (fz b).
Definition fquat_eqb (a b : fquat) : bool :=
  feqb_bits (fqw a) (fqw b) && feqb_bits (fqx a) (fqx b) && feqb_bits (fqy a) (fqy b) && feqb_bits (fqz a) (fqz b).
Definition fmat_list (a : fmat) : list float := [f00 a; f01 a; f02 a; f10 a; f11 a; f12 a; f20 a; f21 a; f22 a].
Fixpoint flist_eqb (a b : list float) : bool :=
  match a, b with
  | [], [] => true
  | x :: a', y :: b' => feqb_bits x y && flist_eqb a' b'
  | _, _ => false
  end.
Definition fmat_eqb (a b : fmat) : bool := flist_eqb (fmat_list a) (fmat_list b).

(* ================= exact dyadic arithmetic ================= *)
Open Scope Z_scope.
Definition dy := (Z * Z)%type.          (* (m, e) stands for m * 2^e *)
Definition dman (a : dy) : Z := fst a.
Definition dexp (a : dy) : Z := snd a.
Definition d0 : dy := (0, 0).
Definition d1 : dy := (1, 0).
Definition dalign (a : dy) (e : Z) : Z := dman a * 2 ^ (dexp a - e).       (* mantissa of a at exponent e <= dexp a *)
Definition dadd (a b : dy) : dy := let e := Z.min (dexp a) (dexp b) in (dalign a e + dalign b e, e).
Definition dneg (a : dy) : dy := (- dman a, dexp a).
Definition dsub (a b : dy) : dy := dadd a (dneg b).
Definition dmul (a b : dy) : dy := (dman a * dman b, dexp a + dexp b).
Definition dabs (a : dy) : dy := (Z.abs (dman a), dexp a).
Definition dshift (a : dy) (k : Z) : dy := (dman a, dexp a + k).            (* a * 2^k *)
Definition dsgn (a : dy) : Z := Z.sgn (dman a).
Definition dleb (a b : dy) : bool := 0 <=? dman (dsub b a).
Definition dltb (a b : dy) : bool := 0 <? dman (dsub b a).
Definition deqb (a b : dy) : bool := dman (dsub b a) =? 0.
Definition dsq (a : dy) : dy := dmul a a.
(* |o - e| <= 2^k * bound *)
Definition dnear (k : Z) (o e bound : dy) : bool := dleb (dabs (dsub o e)) (dshift bound k).

(* value of a dyadic number as a rational, and the meaning of the operations (used to state what the checkers decide) *)
From Coq Require Import QArith Qabs.
Open Scope Q_scope.
Definition pow2Q (e : Z) : Q := if (0 <=? e)%Z then inject_Z (2 ^ e) else / inject_Z (2 ^ (- e)).
Definition dval (a : dy) : Q := inject_Z (dman a) * pow2Q (dexp a).

Lemma pow2Q_pos e : 0 < pow2Q e.
Proof.
  unfold pow2Q. destruct (Z.leb_spec 0 e).
  - change 0 with (inject_Z 0). rewrite <- Zlt_Qlt. apply Z.pow_pos_nonneg; lia.
  - apply Qinv_lt_0_compat. change 0 with (inject_Z 0). rewrite <- Zlt_Qlt. apply Z.pow_pos_nonneg; lia.
Qed.
Lemma pow2Q_add a b : pow2Q (a + b) == pow2Q a * pow2Q b.
Proof.
  assert (P : forall n, (0 <= n)%Z -> ~ inject_Z (2 ^ n) == 0).
  { intros n Hn E. unfold Qeq in E. cbn [Qnum Qden inject_Z] in E. pose proof (Z.pow_pos_nonneg 2 n). lia. }
  assert (M : forall x y, (0 <= x)%Z -> (0 <= y)%Z -> inject_Z (2 ^ (x + y)) == inject_Z (2 ^ x) * inject_Z (2 ^ y)).
  { intros x y Hx Hy. rewrite Z.pow_add_r by lia. rewrite inject_Z_mult. reflexivity. }
  unfold pow2Q.
  destruct (Z.leb_spec 0 a), (Z.leb_spec 0 b), (Z.leb_spec 0 (a + b)); try lia.
  - now apply M.
  - (* a >= 0, b < 0, a+b >= 0 *)
    assert (E : inject_Z (2 ^ a) == inject_Z (2 ^ (a + b)) * inject_Z (2 ^ (- b))) by (rewrite <- M by lia; f_equiv; f_equal; f_equal; lia).
    rewrite E. field. apply P. lia.
  - assert (E : inject_Z (2 ^ (- b)) == inject_Z (2 ^ a) * inject_Z (2 ^ (- (a + b)))) by (rewrite <- M by lia; f_equiv; f_equal; f_equal; lia).
    rewrite E. field. split; apply P; lia.
  - assert (E : inject_Z (2 ^ b) == inject_Z (2 ^ (a + b)) * inject_Z (2 ^ (- a))) by (rewrite <- M by lia; f_equiv; f_equal; f_equal; lia).
    rewrite E. field. apply P. lia.
  - assert (E : inject_Z (2 ^ (- a)) == inject_Z (2 ^ b) * inject_Z (2 ^ (- (a + b)))) by (rewrite <- M by lia; f_equiv; f_equal; f_equal; lia).
    rewrite E. field. split; apply P; lia.
  - assert (E : inject_Z (2 ^ (- (a + b))) == inject_Z (2 ^ (- a)) * inject_Z (2 ^ (- b))) by (rewrite <- M by lia; f_equiv; f_equal; f_equal; lia).
    rewrite E. field. split; apply P; lia.
Qed.
Lemma dalign_val a e : (e <= dexp a)%Z -> inject_Z (dalign a e) * pow2Q e == dval a.
Proof.
  intros H. unfold dalign, dval. rewrite inject_Z_mult.
  replace (dexp a) with ((dexp a - e) + e)%Z at 2 by lia. rewrite pow2Q_add.
  unfold pow2Q at 2. destruct (Z.leb_spec 0 (dexp a - e)); [|lia]. ring.
Qed.
Theorem dadd_val a b : dval (dadd a b) == dval a + dval b.
Proof.
  unfold dadd. set (e := Z.min (dexp a) (dexp b)).
  rewrite <- (dalign_val a e), <- (dalign_val b e) by (unfold e; lia).
  unfold dval; cbn [dman dexp fst snd]. rewrite inject_Z_plus. ring.
Qed.
Theorem dneg_val a : dval (dneg a) == - dval a.
Proof. unfold dval, dneg; cbn [dman dexp fst snd]. rewrite inject_Z_opp. ring. Qed.
Theorem dsub_val a b : dval (dsub a b) == dval a - dval b.
Proof. unfold dsub. rewrite dadd_val, dneg_val. ring. Qed.
Theorem dmul_val a b : dval (dmul a b) == dval a * dval b.
Proof. unfold dval, dmul; cbn [dman dexp fst snd]. rewrite inject_Z_mult, pow2Q_add. ring. Qed.
Theorem dshift_val a k : dval (dshift a k) == dval a * pow2Q k.
Proof. unfold dval, dshift; cbn [dman dexp fst snd]. rewrite pow2Q_add. ring. Qed.
Theorem dabs_val a : dval (dabs a) == Qabs (dval a).
Proof.
  unfold dval, dabs; cbn [dman dexp fst snd]. rewrite Qabs_Qmult.
  rewrite (Qabs_pos (pow2Q _)) by (apply Qlt_le_weak, pow2Q_pos).
  f_equiv.
Qed.
Lemma dsign_val a : (0 <= dman a)%Z <-> 0 <= dval a.
Proof.
  unfold dval. pose proof (pow2Q_pos (dexp a)) as P. split; intros H.
  - apply Qmult_le_0_compat; [|now apply Qlt_le_weak]. change 0 with (inject_Z 0). now rewrite <- Zle_Qle.
  - destruct (Z_lt_le_dec (dman a) 0) as [N|]; [|assumption]. exfalso.
    assert (inject_Z (dman a) < 0) by (change 0 with (inject_Z 0); now rewrite <- Zlt_Qlt).
    assert (inject_Z (dman a) * pow2Q (dexp a) < 0).
    { setoid_replace 0 with (0 * pow2Q (dexp a)) by ring. apply Qmult_lt_compat_r; assumption. }
    apply (Qlt_not_le _ _ H1 H).
Qed.
Theorem dleb_val a b : dleb a b = true <-> dval a <= dval b.
Proof.
  unfold dleb. rewrite Z.leb_le, dsign_val, dsub_val. split; intros H.
  - apply Qplus_le_l with (z := - dval a). setoid_replace (dval a + - dval a) with 0 by ring. exact H.
  - apply Qplus_le_l with (z := dval a). setoid_replace (0 + dval a) with (dval a) by ring.
    setoid_replace (dval b - dval a + dval a) with (dval b) by ring. exact H.
Qed.
Theorem dnear_val k o e bound : dnear k o e bound = true <-> Qabs (dval o - dval e) <= dval bound * pow2Q k.
Proof. unfold dnear. rewrite dleb_val, dabs_val, dsub_val, dshift_val. reflexivity. Qed.
Lemma dval_zero_iff a : dman a = 0%Z <-> dval a == 0.
Proof.
  unfold dval. split; intros H.
  - rewrite H. ring.
  - pose proof (pow2Q_pos (dexp a)) as P. apply Qmult_integral in H. destruct H as [H|H].
    + unfold Qeq in H. cbn [Qnum Qden inject_Z] in H. lia.
    + rewrite H in P. exfalso. apply (Qlt_irrefl 0), P.
Qed.
Theorem deqb_val a b : deqb a b = true <-> dval a == dval b.
Proof.
  unfold deqb. rewrite Z.eqb_eq, dval_zero_iff, dsub_val. split; intros H.
  - apply Qplus_inj_r with (z := - dval a). setoid_replace (dval a + - dval a) with 0 by ring. now rewrite <- H.
  - rewrite H. ring.
Qed.
Theorem dyadic_exact a b :
  dval (dadd a b) == dval a + dval b /\ dval (dsub a b) == dval a - dval b /\ dval (dmul a b) == dval a * dval b /\
  dval (dabs a) == Qabs (dval a) /\ (dleb a b = true <-> dval a <= dval b) /\ (deqb a b = true <-> dval a == dval b).
Proof.
  exact (conj (dadd_val a b) (conj (dsub_val a b) (conj (dmul_val a b) (conj (dabs_val a) (conj (dleb_val a b) (deqb_val a b)))))).
Qed.
Close Scope Q_scope.
Open Scope Z_scope.

(* vectors / quaternions / matrices of dyadics *)
Definition dvec := (dy * dy * dy)%type.
Definition dvx (v : dvec) := fst (fst v).
Definition dvy (v : dvec) := snd (fst v).
Definition dvz (v : dvec) := snd v.
Definition dv_map2 (f : dy -> dy -> dy) (a b : dvec) : dvec := (f (dvx a) (dvx b), f (dvy a) (dvy b), f (dvz a) (dvz b)).
Definition dv_map (f : dy -> dy) (a : dvec) : dvec := (f (dvx a), f (dvy a), f (dvz a)).
Definition dv_add := dv_map2 dadd.
Definition dv_sub := dv_map2 dsub.
Definition dv_abs := dv_map dabs.
Definition dv_scale (f : dy) := dv_map (dmul f).
Definition dv_dot (a b : dvec) : dy := dadd (dadd (dmul (dvx a) (dvx b)) (dmul (dvy a) (dvy b))) (dmul (dvz a) (dvz b)).
Definition dv_cross (a b : dvec) : dvec :=
  (dsub (dmul (dvy a) (dvz b)) (dmul (dvz a) (dvy b)), dsub (dmul (dvz a) (dvx b)) (dmul (dvx a) (dvz b)),
   dsub (dmul (dvx a) (dvy b)) (dmul (dvy a) (dvx b))).
(* the same with every product taken in absolute value and every difference replaced by a sum: the rounding-error scale *)
Definition dv_cross_abs (a b : dvec) : dvec :=
  let a := dv_abs a in let b := dv_abs b in
  (dadd (dmul (dvy a) (dvz b)) (dmul (dvz a) (dvy b)), dadd (dmul (dvz a) (dvx b)) (dmul (dvx a) (dvz b)),
   dadd (dmul (dvx a) (dvy b)) (dmul (dvy a) (dvx b))).
Definition dv_dot_abs (a b : dvec) : dy := dv_dot (dv_abs a) (dv_abs b).
Definition dv_all2 (f : dy -> dy -> bool) (a b : dvec) : bool := f (dvx a) (dvx b) && f (dvy a) (dvy b) && f (dvz a) (dvz b).
Definition dv_near (k : Z) (o e bound : dvec) : bool :=
  dnear k (dvx o) (dvx e) (dvx bound) && dnear k (dvy o) (dvy e) (dvy bound) && dnear k (dvz o) (dvz e) (dvz bound).
Definition dv_eqb := dv_all2 deqb.
Definition dv_is0 (a : dvec) : bool := (dman (dvx a) =? 0) && (dman (dvy a) =? 0) && (dman (dvz a) =? 0).

Definition dy_of (f : float) : option dy := dyadic f.
Definition dvec_of (v : fvec) : option dvec :=
  match dy_of (fx v), dy_of (fy v), dy_of (fz v) with
  | Some x, Some y, Some z => Some (x, y, z)
  | _, _, _ => None
  end.
Fixpoint dlist_of (l : list float) : option (list dy) :=
  match l with
  | [] => Some []
  | f :: r => match dy_of f, dlist_of r with Some d, Some t => Some (d :: t) | _, _ => None end
  end.

(* classes of inputs *)
(* small integer: an integer of absolute value <= 2^10: every product / sum in the helpers is then exact in binary64 *)
Definition small_int (a : dy) : bool :=
  let m := dman a in let e := dexp a in
  (m =? 0) || ((0 <=? e) && (Z.abs m * 2 ^ e <=? 1024)) || ((e <? 0) && (-60 <? e) && (Z.abs m mod 2 ^ (- e) =? 0) && (Z.abs m <=? 1024 * 2 ^ (- e))).
(* moderate magnitude: zero, or 2^-100 <= |x| <= 2^100 (no overflow / underflow anywhere in the helpers) *)
Definition moderate (a : dy) : bool :=
  let m := Z.abs (dman a) in
  (m =? 0) || ((-100 <=? Z.log2 m + dexp a) && (Z.log2 m + dexp a <? 100)).
Definition dv_forall (f : dy -> bool) (a : dvec) : bool := f (dvx a) && f (dvy a) && f (dvz a).

(* observed value against the exact value: equal when the inputs are small integers, else within 2^-48 of the error scale *)
Definition tol_exp : Z := -48.
Definition chk (exact : bool) (o e bound : dy) : bool := if exact then deqb o e else dnear tol_exp o e bound.
Definition chkv (exact : bool) (o e bound : dvec) : bool :=
  chk exact (dvx o) (dvx e) (dvx bound) && chk exact (dvy o) (dvy e) (dvy bound) && chk exact (dvz o) (dvz e) (dvz bound).

(* ---- quaternion laws on observed values ---- *)
Definition dquat := (dy * dy * dy * dy)%type.
Definition dq_w (q : dquat) := fst (fst (fst q)).
Definition dq_v (q : dquat) : dvec := (snd (fst (fst q)), snd (fst q), snd q).
Definition dq_norm2 (q : dquat) : dy := dadd (dsq (dq_w q)) (dv_dot (dq_v q) (dq_v q)).
(* |q|^2 * (q a q* / |q|^2) = (w^2 - u.u) a + 2 (u.a) u + 2 w (u x a)   (Quat.rot_formula) *)
Definition dq_rot (q : dquat) (a : dvec) : dvec :=
  let w := dq_w q in let u := dq_v q in
  dv_add (dv_add (dv_scale (dsub (dsq w) (dv_dot u u)) a) (dv_scale (dshift (dv_dot u a) 1) u)) (dv_scale (dshift w 1) (dv_cross u a)).
(* tolerance of the rotation laws: 2^-30 < 1e-9 *)
Definition qtol_exp : Z := -30.
(* angle(r, b) <= 2^-30 (as sine) and same orientation: |r x b|^2 <= 2^-60 |r|^2 |b|^2 and r.b > 0 *)
Definition same_direction (r b : dvec) : bool :=
  let c := dv_cross r b in
  dleb (dv_dot c c) (dshift (dmul (dv_dot r r) (dv_dot b b)) (2 * qtol_exp)) && (0 <? dman (dv_dot r b)).
Definition parallel_or_zero (r b : dvec) : bool :=
  let c := dv_cross r b in dleb (dv_dot c c) (dshift (dmul (dv_dot r r) (dv_dot b b)) (2 * qtol_exp)).
Definition unit_quat (q : dquat) : bool := dnear qtol_exp (dq_norm2 q) d1 d1.
Definition check_rotation (q : dquat) (a b : dvec) : bool := unit_quat q && same_direction (dq_rot q a) b.
(* b is a negative multiple of a *)
Definition exactly_opposite (a b : dvec) : bool := dv_is0 (dv_cross a b) && (dman (dv_dot a b) <? 0).
(* 1 + cos(a,b) < 2^-k, decided exactly: a.b < 0 and (a.b)^2 2^(2k) > (2^k - 1)^2 |a|^2 |b|^2 *)
Definition cos_below (k : Z) (a b : dvec) : bool :=
  let d := dv_dot a b in
  (dman d <? 0) && dltb (dmul (dmul (dsq (dsub (dshift d1 k) d1)) (dv_dot a a)) (dv_dot b b)) (dshift (dsq d) (2 * k)).
Definition dv_neg (a : dvec) : dvec := dv_map dneg a.
(* what the code's fallback branch must still deliver (Quat.rotate_between_fallback): a unit quaternion that turns a onto -a *)
Definition check_half_turn (q : dquat) (a : dvec) : bool := unit_quat q && same_direction (dq_rot q a) (dv_neg a).
(* what the generic branch must still deliver when 1+cos is tiny (cancellation in 1+cos): the direction within 2^-30, and
   | |q|^2 - 1 | <= 2^-16 *)
Definition check_direction_loose_norm (q : dquat) (a b : dvec) : bool :=
  same_direction (dq_rot q a) b && dnear (-16) (dq_norm2 q) d1 d1.

(* ================= law checkers on observed float outputs (exact arithmetic) ================= *)
(* `ex` = every input is a small integer: the observed value must then EQUAL the real-number value; otherwise it must lie within
   2^-48 times the error scale (the same expression with absolute values), which is > the accumulated rounding error of the few
   operations involved and far below the effect of any wrong component, sign or operand. *)
Definition dv_l1 (a : dvec) : dy := dadd (dadd (dabs (dvx a)) (dabs (dvy a))) (dabs (dvz a)).
Definition ck_add (ex : bool) (a b o : dvec) : bool := chkv ex o (dv_add a b) (dv_add (dv_abs a) (dv_abs b)).
Definition ck_sub (ex : bool) (a b o : dvec) : bool := chkv ex o (dv_sub a b) (dv_add (dv_abs a) (dv_abs b)).
Definition ck_scale (ex : bool) (f : dy) (a o : dvec) : bool := chkv ex o (dv_scale f a) (dv_abs (dv_scale f a)).
Definition ck_dot (ex : bool) (a b : dvec) (o : dy) : bool := chk ex o (dv_dot a b) (dv_dot_abs a b).
Definition ck_cross (ex : bool) (a b o : dvec) : bool := chkv ex o (dv_cross a b) (dv_cross_abs a b).
Definition ck_l1 (ex : bool) (a : dvec) (o : dy) : bool := chk ex o (dv_l1 a) (dv_l1 a).
(* Norm: n >= 0 and n^2 = a.a *)
Definition ck_norm (a : dvec) (o : dy) : bool := (0 <=? dman o) && dnear tol_exp (dsq o) (dv_dot a a) (dv_dot a a).
(* Unit (a <> 0): |u|^2 = 1, u x a = 0, u.a > 0 *)
Definition ck_unit (a o : dvec) : bool :=
  dv_is0 a || (dnear tol_exp (dv_dot o o) d1 d1 && dv_near tol_exp (dv_cross o a) (d0, d0, d0) (dv_cross_abs o a) && (0 <? dman (dv_dot o a))).
(* Cos: cos * |a| * |b| = a.b, with the observed norms (themselves checked by ck_norm) *)
Definition ck_cos (a b : dvec) (na nb o : dy) : bool :=
  dv_is0 a || dv_is0 b || dnear tol_exp (dmul (dmul o na) nb) (dv_dot a b) (dadd (dv_dot_abs a b) (dmul na nb)).
(* Lagrange on observed cross, dot, a.a, b.b *)
Definition ck_lagrange (ex : bool) (c : dvec) (d aa bb : dy) : bool :=
  let lhs := dadd (dv_dot c c) (dsq d) in let rhs := dmul aa bb in
  if ex then deqb lhs rhs else dnear (-46) lhs rhs rhs.
(* cross product perpendicular to its factors: observed a.(a x b) *)
Definition ck_perp (ex : bool) (a b : dvec) (o : dy) (w : dvec) : bool :=
  if ex then dman o =? 0 else dnear tol_exp o d0 (dv_dot (dv_abs w) (dv_cross_abs a b)).
(* Line3 *)
Definition ck_line_t (ex : bool) (p q : dvec) (t : dy) (o : dvec) : bool :=
  chkv ex o (dv_add p (dv_scale t (dv_sub q p))) (dv_add (dv_abs p) (dv_scale (dabs t) (dv_add (dv_abs p) (dv_abs q)))).
Definition ck_line_end (ex : bool) (p q o : dvec) : bool := chkv ex o q (dv_add (dv_abs p) (dv_abs q)).

(* matrices as rows *)
Definition dmat := (dvec * dvec * dvec)%type.
Definition dm_map (f : dvec -> dvec) (a : dmat) : dmat := (f (fst (fst a)), f (snd (fst a)), f (snd a)).
Definition dm_abs := dm_map dv_abs.
Definition dm_col (j : dvec -> dy) (b : dmat) : dvec := (j (fst (fst b)), j (snd (fst b)), j (snd b)).
Definition dm_mulvec (a : dmat) (v : dvec) : dvec := (dv_dot (fst (fst a)) v, dv_dot (snd (fst a)) v, dv_dot (snd a) v).
Definition dm_mul (a b : dmat) : dmat :=
  dm_map (fun r => (dv_dot r (dm_col dvx b), dv_dot r (dm_col dvy b), dv_dot r (dm_col dvz b))) a.
Definition dm_unit : dmat := ((d1, d0, d0), (d0, d1, d0), (d0, d0, d1)).
Definition dm_chk (ex : bool) (o e bound : dmat) : bool :=
  chkv ex (fst (fst o)) (fst (fst e)) (fst (fst bound)) && chkv ex (snd (fst o)) (snd (fst e)) (snd (fst bound)) && chkv ex (snd o) (snd e) (snd bound).
Definition dm_eqb (a b : dmat) : bool := dv_eqb (fst (fst a)) (fst (fst b)) && dv_eqb (snd (fst a)) (snd (fst b)) && dv_eqb (snd a) (snd b).
Definition dm_forall (f : dy -> bool) (a : dmat) : bool := dv_forall f (fst (fst a)) && dv_forall f (snd (fst a)) && dv_forall f (snd a).

(* MaxPoint / MinPoint: the result is a member and no member has a larger (smaller) exact dot product beyond the rounding band *)
Definition ck_best (gt : bool) (l : list dvec) (v o : dvec) : bool :=
  existsb (dv_eqb o) l &&
  forallb (fun p => let band := dshift (dadd (dv_dot_abs o v) (dv_dot_abs p v)) tol_exp in
                    if gt then dleb (dv_dot p v) (dadd (dv_dot o v) band) else dleb (dv_dot o v) (dadd (dv_dot p v) band)) l.
(* AlmostEqual: answer true  => x = y or |x - y| <= tol (1 + 2^-50);  answer false => x <> y and |x - y| > tol (exactly) *)
Definition ck_almost (x y tol : dy) (o : bool) : bool :=
  let d := dabs (dsub x y) in
  if o then deqb x y || dleb d (dadd tol (dshift (dabs tol) (-50))) else negb (deqb x y) && negb (dleb d tol).

(* ================= what the checkers decide, in rational arithmetic ================= *)
Open Scope Q_scope.
Definition qv := (Q * Q * Q)%type.
Definition q1 (a : qv) : Q := fst (fst a).
Definition q2 (a : qv) : Q := snd (fst a).
Definition q3 (a : qv) : Q := snd a.
Definition veq (a b : qv) : Prop := q1 a == q1 b /\ q2 a == q2 b /\ q3 a == q3 b.
Definition Qdot (a b : qv) : Q := q1 a * q1 b + q2 a * q2 b + q3 a * q3 b.
Definition Qcross (a b : qv) : qv := (q2 a * q3 b - q3 a * q2 b, q3 a * q1 b - q1 a * q3 b, q1 a * q2 b - q2 a * q1 b).
Definition Qvadd (a b : qv) : qv := (q1 a + q1 b, q2 a + q2 b, q3 a + q3 b).
Definition Qvscale (f : Q) (a : qv) : qv := (f * q1 a, f * q2 a, f * q3 a).
(* |q|^2 times the rotation of a by q = (w, u): the polynomial of Quat.rot_formula *)
Definition Qrot (w : Q) (u a : qv) : qv :=
  Qvadd (Qvadd (Qvscale (w * w - Qdot u u) a) (Qvscale (Qdot u a * pow2Q 1) u)) (Qvscale (w * pow2Q 1) (Qcross u a)).
Definition vq (v : dvec) : qv := (dval (dvx v), dval (dvy v), dval (dvz v)).

Lemma veq_refl a : veq a a.
Proof. repeat split; reflexivity. Qed.
Lemma Qdot_compat a a' b b' : veq a a' -> veq b b' -> Qdot a b == Qdot a' b'.
Proof. intros (A1 & A2 & A3) (B1 & B2 & B3). unfold Qdot. now rewrite A1, A2, A3, B1, B2, B3. Qed.
Lemma Qcross_compat a a' b b' : veq a a' -> veq b b' -> veq (Qcross a b) (Qcross a' b').
Proof.
  intros (A1 & A2 & A3) (B1 & B2 & B3). unfold Qcross, veq, q1, q2, q3; cbn [fst snd].
  unfold q1, q2, q3 in *. repeat split; now rewrite ?A1, ?A2, ?A3, ?B1, ?B2, ?B3.
Qed.
Lemma Qvadd_compat a a' b b' : veq a a' -> veq b b' -> veq (Qvadd a b) (Qvadd a' b').
Proof.
  intros (A1 & A2 & A3) (B1 & B2 & B3). unfold Qvadd, veq, q1, q2, q3; cbn [fst snd].
  unfold q1, q2, q3 in *. repeat split; now rewrite ?A1, ?A2, ?A3, ?B1, ?B2, ?B3.
Qed.
Lemma Qvscale_compat f f' a a' : f == f' -> veq a a' -> veq (Qvscale f a) (Qvscale f' a').
Proof.
  intros F (A1 & A2 & A3). unfold Qvscale, veq, q1, q2, q3; cbn [fst snd].
  unfold q1, q2, q3 in *. repeat split; now rewrite ?F, ?A1, ?A2, ?A3.
Qed.

Lemma dv_dot_val a b : dval (dv_dot a b) == Qdot (vq a) (vq b).
Proof. unfold dv_dot, Qdot, vq, q1, q2, q3; cbn [fst snd]. now rewrite !dadd_val, !dmul_val. Qed.
Lemma dv_cross_val a b : veq (vq (dv_cross a b)) (Qcross (vq a) (vq b)).
Proof.
  unfold dv_cross, Qcross, vq, veq, q1, q2, q3, dvx, dvy, dvz; cbn [fst snd].
  repeat split; now rewrite !dsub_val, !dmul_val.
Qed.
Lemma dv_add_val a b : veq (vq (dv_add a b)) (Qvadd (vq a) (vq b)).
Proof.
  unfold dv_add, dv_map2, Qvadd, vq, veq, q1, q2, q3, dvx, dvy, dvz; cbn [fst snd].
  repeat split; now rewrite !dadd_val.
Qed.
Lemma dv_scale_val f a : veq (vq (dv_scale f a)) (Qvscale (dval f) (vq a)).
Proof.
  unfold dv_scale, dv_map, Qvscale, vq, veq, q1, q2, q3, dvx, dvy, dvz; cbn [fst snd].
  repeat split; now rewrite !dmul_val.
Qed.
Lemma veq_trans a b c : veq a b -> veq b c -> veq a c.
Proof. intros (A1 & A2 & A3) (B1 & B2 & B3). repeat split; etransitivity; eauto. Qed.
Lemma dq_rot_val q a : veq (vq (dq_rot q a)) (Qrot (dval (dq_w q)) (vq (dq_v q)) (vq a)).
Proof.
  unfold dq_rot, Qrot.
  eapply veq_trans; [apply dv_add_val|]. apply Qvadd_compat.
  - eapply veq_trans; [apply dv_add_val|]. apply Qvadd_compat.
    + eapply veq_trans; [apply dv_scale_val|]. apply Qvscale_compat; [|apply veq_refl].
      unfold dsq. now rewrite dsub_val, dmul_val, dv_dot_val.
    + eapply veq_trans; [apply dv_scale_val|]. apply Qvscale_compat; [|apply veq_refl].
      now rewrite dshift_val, dv_dot_val.
  - eapply veq_trans; [apply dv_scale_val|]. apply Qvscale_compat; [now rewrite dshift_val|apply dv_cross_val].
Qed.
Lemma dltb0_val a : (0 <? dman a)%Z = true <-> 0 < dval a.
Proof.
  rewrite Z.ltb_lt. unfold dval. pose proof (pow2Q_pos (dexp a)) as P. split; intros H.
  - setoid_replace 0 with (0 * pow2Q (dexp a)) by ring. apply Qmult_lt_compat_r; [exact P|].
    change 0 with (inject_Z 0). now rewrite <- Zlt_Qlt.
  - destruct (Z_lt_le_dec 0 (dman a)) as [L|L]; [exact L|exfalso].
    assert (N : (0 <= dman (dneg a))%Z) by (unfold dneg, dman in *; cbn [fst]; lia).
    apply dsign_val in N. rewrite dneg_val in N. fold (dval a) in H.
    apply (Qlt_irrefl 0). apply Qlt_le_trans with (dval a); [exact H|].
    apply Qplus_le_l with (z := - dval a). setoid_replace (dval a + - dval a) with 0 by ring.
    setoid_replace (0 + - dval a) with (- dval a) by ring. exact N.
Qed.
Lemma dval_d1 : dval d1 == 1.
Proof. reflexivity. Qed.

(* the dot-product check: equality on small-integer inputs, else |o - a.b| <= 2^-48 * sum |a_i b_i| *)
Theorem ck_dot_sound ex a b o : ck_dot ex a b o = true ->
  if ex then dval o == Qdot (vq a) (vq b) else Qabs (dval o - Qdot (vq a) (vq b)) <= Qdot (vq (dv_abs a)) (vq (dv_abs b)) * pow2Q tol_exp.
Proof.
  unfold ck_dot, chk. destruct ex.
  - rewrite deqb_val, dv_dot_val. tauto.
  - rewrite dnear_val. unfold dv_dot_abs. now rewrite !dv_dot_val.
Qed.

(* the rotation check: | |q|^2 - 1 | <= 2^-30, and r = |q|^2 (q a q* ) satisfies |r x b|^2 <= 2^-60 |r|^2 |b|^2 and r.b > 0,
   i.e. the rotated direction makes an angle of sine <= 2^-30 with b, on b's side *)
Theorem check_rotation_sound q a b : check_rotation q a b = true ->
  let w := dval (dq_w q) in let u := vq (dq_v q) in let r := Qrot w u (vq a) in
  Qabs (w * w + Qdot u u - 1) <= pow2Q qtol_exp /\
  Qdot (Qcross r (vq b)) (Qcross r (vq b)) <= Qdot r r * Qdot (vq b) (vq b) * pow2Q (2 * qtol_exp) /\
  0 < Qdot r (vq b).
Proof.
  unfold check_rotation, unit_quat, same_direction. rewrite !andb_true_iff. intros [N [C S]].
  pose proof (dq_rot_val q a) as R.
  cbv zeta. split; [|split].
  - apply dnear_val in N. rewrite dval_d1 in N. unfold dq_norm2, dsq in N.
    rewrite dadd_val, dmul_val, dv_dot_val in N.
    setoid_replace (1 * pow2Q qtol_exp) with (pow2Q qtol_exp) in N by ring. exact N.
  - apply dleb_val in C. rewrite dshift_val, dmul_val, !dv_dot_val in C.
    rewrite (Qdot_compat _ _ _ _ (Qcross_compat _ _ _ _ R (veq_refl (vq b))) (Qcross_compat _ _ _ _ R (veq_refl (vq b)))) in C
      || (pose proof (dv_cross_val (dq_rot q a) b) as X;
          rewrite (Qdot_compat _ _ _ _ X X) in C;
          rewrite (Qdot_compat _ _ _ _ (Qcross_compat _ _ _ _ R (veq_refl (vq b))) (Qcross_compat _ _ _ _ R (veq_refl (vq b)))) in C).
    rewrite (Qdot_compat _ _ _ _ R R) in C. exact C.
  - apply dltb0_val in S. rewrite dv_dot_val in S. rewrite (Qdot_compat _ _ _ _ R (veq_refl (vq b))) in S. exact S.
Qed.
Close Scope Q_scope.

(* ---- independent judges for UniqueAppend and the degree/radian conversions ---- *)
Open Scope Z_scope.
(* x within tol of y, exactly / with the half-ulp slack of one rounded subtraction *)
Definition within_exact (x y tol : dy) : bool := deqb x y || dleb (dabs (dsub x y)) tol.
Definition within_loose (x y tol : dy) : bool := deqb x y || dleb (dabs (dsub x y)) (dadd tol (dshift (dabs tol) (-50))).
Definition closeE (tol : dy) (p q : dvec) : bool :=
  within_exact (dvx p) (dvx q) tol && within_exact (dvy p) (dvy q) tol && within_exact (dvz p) (dvz q) tol.
Definition closeL (tol : dy) (p q : dvec) : bool :=
  within_loose (dvx p) (dvx q) tol && within_loose (dvy p) (dvy q) tol && within_loose (dvz p) (dvz q) tol.
(* r is the observed result of UniqueAppend(pts, p, eps): unchanged only if some member is close to p, extended by p only if none is *)
Definition ck_unique_append (eqv : dvec -> dvec -> bool) (pts : list dvec) (p : dvec) (tol : dy) (r : list dvec) : bool :=
  let same := fix same (a b : list dvec) : bool :=
                match a, b with [], [] => true | x :: a', y :: b' => eqv x y && same a' b' | _, _ => false end in
  if same r pts then existsb (fun x => closeL tol x p) pts
  else same r (pts ++ [p]) && negb (existsb (fun x => closeE tol x p) pts).
(* pi to 112 binary digits (3.243F6A8885A308D313198A2E0370 hex), independent of the float constants of the code *)
Definition pi112 : dy := (16312081666030376401667486162748272, -112).
Definition d180 : dy := (180, 0).
(* DegreeToRadian(x) * 180 = x * pi and RadianToDegree(x) * pi = x * 180, within 2^-50 relative *)
Definition ck_d2r (x o : dy) : bool := dnear (-50) (dmul o d180) (dmul x pi112) (dabs (dmul x pi112)).
Definition ck_r2d (x o : dy) : bool := dnear (-50) (dmul o pi112) (dmul x d180) (dabs (dmul x d180)).
Definition ck_roundtrip (x o : dy) : bool := dnear (-50) o x (dabs x).
(* wide range used by the scalar helpers: zero or 2^-1000 <= |x| <= 2^1000 *)
Definition wide (a : dy) : bool :=
  let m := Z.abs (dman a) in (m =? 0) || ((-1000 <=? Z.log2 m + dexp a) && (Z.log2 m + dexp a <? 1000)).
