(* MatCtor.v — spatial.NewMatrix3(m00, m01, m02, m10, m11, m12, m20, m21, m22): the row-major constructor, on the models.
   Over R (Vec.mat): element (i, j) is the argument in row-major position 3i+j; applying the matrix to the basis vector e_k gives
   the k-th column; rows/columns of a product. On binary64 (VecF.fmat): the same column law for ALL FINITE entries, as real values
   (guard, stated honestly: an infinite or NaN entry breaks it, since 0 * Inf = NaN; a -0 entry may come back as +0, because
   -0 + +0 = +0 — so the statement is about values, not bit patterns). *)
From Coq Require Import Reals Lra Lia Floats.
From SID Require Import Base F64 Vec VecF VecExact OrdMax PointLaws FloatId.
Open Scope R_scope.

(* ---- over R ---- *)
Definition new_matrix3 (a00 a01 a02 a10 a11 a12 a20 a21 a22 : R) : mat := M a00 a01 a02 a10 a11 a12 a20 a21 a22.
Definition mrow (a : mat) (i : nat) : vec :=
  match i with 0%nat => V (m00 a) (m01 a) (m02 a) | 1%nat => V (m10 a) (m11 a) (m12 a) | _ => V (m20 a) (m21 a) (m22 a) end.
Definition mcol (a : mat) (j : nat) : vec :=
  match j with 0%nat => V (m00 a) (m10 a) (m20 a) | 1%nat => V (m01 a) (m11 a) (m21 a) | _ => V (m02 a) (m12 a) (m22 a) end.
Definition vget (v : vec) (k : nat) : R := match k with 0%nat => vx v | 1%nat => vy v | _ => vz v end.
Definition mget (a : mat) (i j : nat) : R := vget (mrow a i) j.
Definition basis (k : nat) : vec := match k with 0%nat => V 1 0 0 | 1%nat => V 0 1 0 | _ => V 0 0 1 end.

(* the constructor is row-major: rows are the argument triples in order, columns take every third argument *)
Theorem new_matrix3_rows a b c d e f g h i :
  mrow (new_matrix3 a b c d e f g h i) 0 = V a b c /\ mrow (new_matrix3 a b c d e f g h i) 1 = V d e f /\
  mrow (new_matrix3 a b c d e f g h i) 2 = V g h i.
Proof. repeat split. Qed.
Theorem new_matrix3_cols a b c d e f g h i :
  mcol (new_matrix3 a b c d e f g h i) 0 = V a d g /\ mcol (new_matrix3 a b c d e f g h i) 1 = V b e h /\
  mcol (new_matrix3 a b c d e f g h i) 2 = V c f i.
Proof. repeat split. Qed.
(* accessor laws: element (i,j) read through the row or through the column *)
Theorem mget_row_col a i j : (i < 3)%nat -> (j < 3)%nat -> mget a i j = vget (mcol a j) i.
Proof.
  intros Hi Hj. destruct i as [|[|[|i]]]; destruct j as [|[|[|j]]]; try reflexivity; exfalso; lia.
Qed.
(* applying the matrix to the basis vector e_k gives the k-th column, for every matrix and hence for NewMatrix3(...) *)
Theorem mulvec_basis a k : mulvec a (basis k) = mcol a k.
Proof. destruct a. destruct k as [|[|k]]; apply vec_eq; cbn; ring. Qed.
Theorem new_matrix3_basis a b c d e f g h i :
  mulvec (new_matrix3 a b c d e f g h i) (V 1 0 0) = V a d g /\ mulvec (new_matrix3 a b c d e f g h i) (V 0 1 0) = V b e h /\
  mulvec (new_matrix3 a b c d e f g h i) (V 0 0 1) = V c f i.
Proof. repeat split; apply vec_eq; cbn; ring. Qed.
(* a matrix is determined by what it does to the basis: the columns of a product are the images of the columns *)
Theorem mcol_mmul a b k : mcol (mmul a b) k = mulvec a (mcol b k).
Proof. destruct a, b. destruct k as [|[|k]]; apply vec_eq; cbn; ring. Qed.
(* element (i,j) of a product is row i of the left factor times column j of the right factor *)
Theorem mget_mmul a b i j : (i < 3)%nat -> (j < 3)%nat -> mget (mmul a b) i j = vdot (mrow a i) (mcol b j).
Proof.
  intros Hi Hj. destruct a, b. destruct i as [|[|[|i]]]; destruct j as [|[|[|j]]]; try (unfold mget, vdot; cbn; ring); exfalso; lia.
Qed.
(* a permuted argument order is a different matrix as soon as two of the permuted arguments differ: e.g. the transposed constructor *)
Theorem new_matrix3_transposed_differs a b c d e f g h i : b <> d ->
  new_matrix3 a b c d e f g h i <> new_matrix3 a d g b e h c f i.
Proof. intros N E. apply (f_equal m01) in E. cbn in E. contradiction. Qed.

(* ---- binary64 ---- *)
Definition fnew_matrix3 (a00 a01 a02 a10 a11 a12 a20 a21 a22 : pfloat) : fmat := FM a00 a01 a02 a10 a11 a12 a20 a21 a22.
Definition fmcol (a : fmat) (j : nat) : fvec :=
  match j with 0%nat => FV (f00 a) (f10 a) (f20 a) | 1%nat => FV (f01 a) (f11 a) (f21 a) | _ => FV (f02 a) (f12 a) (f22 a) end.
Definition fbasis (k : nat) : fvec := match k with 0%nat => FV 1 0 0 | 1%nat => FV 0 1 0 | _ => FV 0 0 1 end.
(* reading back is by construction bit-exact (also for NaN / Inf / -0 entries) *)
Theorem fnew_matrix3_cols a b c d e f g h i :
  fmcol (fnew_matrix3 a b c d e f g h i) 0 = FV a d g /\ fmcol (fnew_matrix3 a b c d e f g h i) 1 = FV b e h /\
  fmcol (fnew_matrix3 a b c d e f g h i) 2 = FV c f i.
Proof. repeat split. Qed.
Ltac b0 := left; repeat split; first [apply val_1 | apply val_0].
Ltac b1 := right; left; repeat split; first [apply val_1 | apply val_0].
Ltac b2 := right; right; repeat split; first [apply val_1 | apply val_0].
(* MulVec of a basis vector: every component is 1*x + 0*y + 0*z in some order — exact for finite entries *)
Theorem fmulvec_basis a k : (k < 3)%nat -> finm a -> veqR (fmulvec a (fbasis k)) (fmcol a k).
Proof.
  intros Hk (a00 & a01 & a02 & a10 & a11 & a12 & a20 & a21 & a22).
  destruct k as [|[|[|k]]]; [| | |exfalso; lia];
    unfold veqR, fmulvec, fbasis, fmcol; cbn [fx fy fz f00 f01 f02 f10 f11 f12 f20 f21 f22]; split3.
  - apply (sel_l _ _ _ _ _ _ 0); [b0|assumption..].
  - apply (sel_l _ _ _ _ _ _ 0); [b0|assumption..].
  - apply (sel_l _ _ _ _ _ _ 0); [b0|assumption..].
  - apply (sel_l _ _ _ _ _ _ 1); [b1|assumption..].
  - apply (sel_l _ _ _ _ _ _ 1); [b1|assumption..].
  - apply (sel_l _ _ _ _ _ _ 1); [b1|assumption..].
  - apply (sel_l _ _ _ _ _ _ 2); [b2|assumption..].
  - apply (sel_l _ _ _ _ _ _ 2); [b2|assumption..].
  - apply (sel_l _ _ _ _ _ _ 2); [b2|assumption..].
Qed.
Theorem fnew_matrix3_basis a b c d e f g h i : finm (fnew_matrix3 a b c d e f g h i) ->
  veqR (fmulvec (fnew_matrix3 a b c d e f g h i) (FV 1 0 0)) (FV a d g) /\
  veqR (fmulvec (fnew_matrix3 a b c d e f g h i) (FV 0 1 0)) (FV b e h) /\
  veqR (fmulvec (fnew_matrix3 a b c d e f g h i) (FV 0 0 1)) (FV c f i).
Proof.
  intros F. split; [|split].
  - exact (fmulvec_basis _ 0 ltac:(lia) F).
  - exact (fmulvec_basis _ 1 ltac:(lia) F).
  - exact (fmulvec_basis _ 2 ltac:(lia) F).
Qed.

(* non-vacuity: a concrete matrix of nine distinct integers *)
Example new_matrix3_example :
  mulvec (new_matrix3 1 2 3 4 5 6 7 8 9) (V 0 1 0) = V 2 5 8 /\ mget (new_matrix3 1 2 3 4 5 6 7 8 9) 1 2 = 6 /\
  new_matrix3 1 2 3 4 5 6 7 8 9 <> new_matrix3 1 4 7 2 5 8 3 6 9.
Proof.
  split; [apply vec_eq; cbn; ring|]. split; [reflexivity|]. apply new_matrix3_transposed_differs. lra.
Qed.
