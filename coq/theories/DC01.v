(* DC01.v — dispatch entries of property C01 (point ↦ voxel) and the NewPoint entry shared with C15 *)
From Coq Require Import ZArith String List Bool Floats.
From SID Require Import Base Str Ids Wire F64 ExactRef PointF FF XF PointCheck PointSetters.
Import ListNotations.
Open Scope string_scope.

  (* ---------- floats: points and vertices ---------- *)
  Definition ofun (oracle : oracle_t) (name : string) (x : float) : float :=
    match oracle name [VF x] with VF r => r | _ => nan end.
  Definition as_point (v : val) : option point :=
    match v with
    | VL [VF a; VF b; VF c] => Some {| plon := a; plat := b; palt := c |}
    | _ => None
    end.
  Definition of_point (p : point) : val := VL [VF (plon p); VF (plat p); VF (palt p)].
  (* list of points where VNil marks a nil pointer; returns (has_nil, non-nil points) *)
  Fixpoint as_points (l : list val) : option (bool * list point) :=
    match l with
    | [] => Some (false, [])
    | VNil :: r => match as_points r with Some (_, t) => Some (true, t) | None => None end
    | v :: r => match as_point v, as_points r with Some p, Some (b, t) => Some (b, p :: t) | _, _ => None end
    end.
  Definition res_strings (r : result (list string)) : val :=
    match r with Ok l => of_LS l | Err => VE VNil end.
  (* observed (list, error) against a model result: same error flag, and on success the same list (in order / as a set) *)
  Definition corr_list (ordered : bool) (m : result (list string)) (obs : val) : bool :=
    match m, obs with
    | Err, VE p => match as_LS p with Some [] => true | _ => false end     (* Go returns the empty list together with the error *)
    | Ok l, _ => match (if is_err obs then None else as_LS obs) with
                 | Some o => if ordered then same_list l o else same_set l o
                 | None => false end
    | _, _ => false
    end.

  (* The C01 checker on observed IDs (check_point_id / check_point_ids) is defined in PointCheck.v and proved sound in PointProofs.v.
     Here every point of a case gets its own verdict, conjunct by conjunct:
       "ok"            all conjuncts hold: requested zooms, x = exact floor, f = exact floor, 0 <= y < 2^h, 0 <= x < 2^h, f inside
                       -2^v .. 2^v (f = 2^v only for alt = 2^25 exactly, the closed top edge)
       "x_rounding"    ONLY x differs from the exact floor, by one column, and the input is in the class XF.x_rounding, decided on the
                       input by x_rounding_b (exact position within 2^(h-52) columns of a column boundary; x_rounding_b_spec)
       "alt_underflow" ONLY f (and possibly a classed x) differs and the input is in FF.alt_underflow, decided by alt_underflow_b
       "fail"          anything else: a y outside its range, wrong zooms, malformed ID, an unclassed x or f, f outside its range ...
       "ood"           the point is outside the domain on which the model is claimed to follow the code (see in_domain_point)
     A case is counted under a finding class only if the model agrees with the code, no point is "fail" and at least one is classed;
     a classed x never excuses a failing y, f, zoom or format conjunct of the same or of another point. *)
  Definition in_domain_point (p : point) : bool :=
    (abs (plon p) <=? 180)%float && (abs (plat p) <=? c_latmax)%float && (abs (palt p) <=? pow2f 40)%float.
  Definition f_range_ok (p : point) (v f : Z) : bool :=
    if (abs (palt p) <=? pow2f 25)%float
    then (- 2 ^ v <=? f)%Z && ((f <? 2 ^ v)%Z || ((f =? 2 ^ v)%Z && (palt p =? pow2f 25)%float))
    else true.
  Definition point_res (p : point) (h v : Z) (s : string) : string :=
    if negb (in_domain_point p) then "ood"
    else match parse_eid s, exact_x (plon p) h, exact_f (palt p) v with
         | Some i, Some x, Some f =>
             let base := (eh i =? h)%Z && (ev i =? v)%Z && (0 <=? ey i)%Z && (ey i <? 2 ^ h)%Z && (0 <=? ex i)%Z && (ex i <? 2 ^ h)%Z &&
                         f_range_ok p v (ef i) in
             let xok := (ex i =? x)%Z in let fok := (ef i =? f)%Z in
             if negb base then "fail"
             else if xok && fok then (if check_point_id p h v s then "ok" else "fail")
             else
               let xcl := xok || (x_rounding_b (plon p) h && (Z.abs (ex i - x) <=? 1)%Z) in
               let fcl := fok || alt_underflow_b (palt p) v in
               if xcl && fcl then (if fok then "x_rounding" else "alt_underflow") else "fail"
         | _, _, _ => "fail"
         end.
  Fixpoint points_res (ps : list point) (h v : Z) (o : list string) : list string :=
    match ps, o with
    | [], [] => []
    | p :: ps', s :: o' => point_res p h v s :: points_res ps' h v o'
    | _, _ => ["fail"]          (* different lengths *)
    end.
  Definition has (c : string) (l : list string) : bool := existsb (String.eqb c) l.
  Definition first_class (l : list string) : string :=
    match find (fun c => negb (String.eqb c "ok")) l with Some c => c | None => "-" end.
  (* observed list of one call -> per-point verdicts (spatial-ID form: converted back to the extended form first) *)
  Definition obs_res (sid : bool) (ps : list point) (h v : Z) (o : val) : list string :=
    match (if is_err o then None else as_LS o) with
    | Some l => if sid then match sids_to_eids l with Ok e => points_res ps h h e | Err => ["fail"] end
                else points_res ps h v l
    | None => ["fail"]
    end.
  Definition err_empty (o : val) : bool := match o with VE p => match as_LS p with Some [] => true | _ => false end | _ => false end.

  Definition d_points (oracle : oracle_t) (sid : bool) (args : list val) (obs : val) : verdict :=
    match args with
    | [VL pl; VZ h; VZ v] =>
        match as_points pl with
        | Some (has_nil, ps) =>
            let tanf := ofun oracle "tan" in let cosf := ofun oracle "cos" in let logf := ofun oracle "log" in
            let m := if sid then points_sid_api tanf cosf logf has_nil ps h else points_api tanf cosf logf has_nil ps h v in
            let corr := corr_list true m obs in
            let expect_err := negb (check_zoom h && check_zoom v) || has_nil in
            if expect_err then mkv corr (err_empty obs) "-" (res_strings m)
            else
              let r := obs_res sid ps h v obs in
              if has "ood" r then bad_case      (* outside the domain of the model: not generated; never scored as a pass *)
              else
                let prop := forallb (String.eqb "ok") r in
                let cls := if corr && negb prop && negb (has "fail" r) then first_class r else "-" in
                mkv corr prop cls (res_strings m)
        | None => bad_case
        end
    | _ => bad_case
    end.

  (* -2^-46 <= |lat| - |stored| <= 1e-10 + 2^-46, decided exactly on the dyadic values (all quantities scaled by 10^10 * 2^k) *)
  Definition cut_band_ok (lat stored : float) : bool :=
    match dyadic lat, dyadic stored with
    | Some (a, ea), Some (b, eb) =>
        let e := Z.min (Z.min ea eb) (-46) in
        let d := Z.abs a * 2 ^ (ea - e) - Z.abs b * 2 ^ (eb - e) in          (* cut = d * 2^e, e <= -46 *)
        let eps := 2 ^ (-46 - e) in                                          (* 2^-46 = eps * 2^e *)
        (- eps <=? d)%Z && ((d - eps) * 10 ^ 10 <=? 2 ^ (- e))%Z
    | _, _ => false
    end.
  (* NewPoint: observed = [lon; lat; alt] of the returned object, wrapped in VE when an error was returned *)
  Definition check_new_point (lon lat alt : float) (obs : val) : bool :=
    let bad := (180 <? abs lon)%float || (c_latmax <? abs (setlat_trunc lat))%float in
    if bad then is_err obs
    else match obs with
         | VL [VF a; VF b; VF c] =>
             feqb_bits a lon && feqb_bits c alt &&
             (* latitude cut toward zero by less than 1e-10, decided exactly; same sign *)
             exact_cut_ok lat b && ((0 <=? lat)%float && (0 <=? b)%float || (lat <=? 0)%float && (b <=? 0)%float)
         | _ => false
         end.
  Definition d_new_point (args : list val) (obs : val) : verdict :=
    match args with
    | [VF lon; VF lat; VF alt] =>
        let '(p, e) := new_point lon lat alt in
        let m := if e then VE (of_point p) else of_point p in
        let corr := match obs, e with
                    | VE (VL [VF a; VF b; VF c]), true => feqb_bits a (plon p) && feqb_bits b (plat p) && feqb_bits c (palt p)
                    | VL [VF a; VF b; VF c], false => feqb_bits a (plon p) && feqb_bits b (plat p) && feqb_bits c (palt p)
                    | _, _ => false end in
        let prop := check_new_point lon lat alt obs in
        (* class setlat_inexact excuses ONLY the cut conjunct: longitude and altitude stored unchanged, same sign, no error, the input
           is in the class (decided on the input through the bit-exact model: its own cut |lat| - |stored| is outside [0, 1e-10)),
           and the observed cut is still inside the proved band [-2^-46, 1e-10 + 2^-46] (SetLatProofs.setlat_cut_bounds) *)
        let inexact := negb e && negb (exact_cut_ok lat (setlat_trunc lat)) in
        let rest_ok := match obs with
                       | VL [VF a; VF b; VF c] =>
                           feqb_bits a lon && feqb_bits c alt && cut_band_ok lat b &&
                           ((0 <=? lat)%float && (0 <=? b)%float || (lat <=? 0)%float && (b <=? 0)%float)
                       | _ => false end in
        mkv corr prop (if corr && negb prop && inexact && rest_ok then "setlat_inexact" else "-") m
    | _ => bad_case
    end.


  (* LatRow (replays of the interval certificates of the meta step "latcert"): the row of a stored latitude at zoom h, against the
     row k of the real-number formula certified in Coq by interval arithmetic; near_lo / near_hi say that the real row is within
     2^(h-45) of the boundary with row k-1 / k+1, where a neighbouring answer is tolerated *)
  Definition d_lat_row (oracle : oracle_t) (args : list val) (obs : val) : verdict :=
    match args, obs with
    | [VF lat; VZ h; VZ k; VB near_lo; VB near_hi], VZ y =>
        let tanf := ofun oracle "tan" in let cosf := ofun oracle "cos" in let logf := ofun oracle "log" in
        let m := y_f tanf cosf logf lat h in
        let corr := match m with Some y' => (y' =? y)%Z | None => false end in
        let prop := (y =? k)%Z || (near_lo && (y =? k - 1)%Z) || (near_hi && (y =? k + 1)%Z) in
        mkv corr prop "-" (match m with Some y' => VZ y' | None => VNil end)
    | _, _ => bad_case
    end.

  (* PointMoveSequence: the SAME *object.Point objects are converted, then moved with SetLon/SetLat/SetAlt and converted again through
     the same pointers. args = [stored triples 1; requested triples 2; h; v; spatial-ID form?];
     observed = [ids1; ids2; triples stored after the move]. The model maps the pure function over the stored triples (the second
     list as read back from the objects) and predicts the stored triples themselves with the NewPoint model. *)
  Fixpoint as_plist (l : list val) : option (list point) :=
    match l with
    | [] => Some []
    | v :: r => match as_point v, as_plist r with Some p, Some t => Some (p :: t) | _, _ => None end
    end.
  Fixpoint stored_match (req st : list point) : bool :=
    match req, st with
    | [], [] => true
    | r :: req', s :: st' =>
        let '(n, e) := new_point (plon r) (plat r) (palt r) in
        negb e && feqb_bits (plon s) (plon n) && feqb_bits (plat s) (plat n) && feqb_bits (palt s) (palt n) && stored_match req' st'
    | _, _ => false
    end.
  Definition d_move (oracle : oracle_t) (args : list val) (obs : val) : verdict :=
    match args, obs with
    | [VL a1; VL a2; VZ h; VZ v; VB sid], VL [o1; o2; VL st] =>
        match as_plist a1, as_plist a2, as_plist st with
        | Some p1, Some r2, Some s2 =>
            let tanf := ofun oracle "tan" in let cosf := ofun oracle "cos" in let logf := ofun oracle "log" in
            let api := fun ps => if sid then points_sid_api tanf cosf logf false ps h else points_api tanf cosf logf false ps h v in
            let corr := corr_list true (api p1) o1 && corr_list true (api s2) o2 && stored_match r2 s2 in
            if negb (check_zoom h && check_zoom v) then bad_case
            else
              let r := (obs_res sid p1 h v o1 ++ obs_res sid s2 h v o2)%list in
              if has "ood" r then bad_case
              else
                let prop := forallb (String.eqb "ok") r in
                let cls := if corr && negb prop && negb (has "fail" r) then first_class r else "-" in
                mkv corr prop cls (VL [res_strings (api p1); res_strings (api s2)])
        | _, _, _ => bad_case
        end
    | _, _ => bad_case
    end.

  (* PointSetterSequence: NewPoint, then SetLon / SetLat / SetAlt in a generated order on the SAME object, read back with the getters, then
     the object is converted. args = [requested triple; ops = list of [kind 0 lon | 1 lat | 2 alt; value]; h; v];
     observed = [error flag of every setter call; stored triple; IDs].  corr: flags, stored bits and IDs against PointSetters.run_setters
     and points_api.  prop (independent of run_setters): every flag is the documented refusal, longitude / altitude are the bits of the
     last accepted write, the latitude is the last accepted request cut toward zero by < 1e-10 (class setlat_inexact as for NewPoint),
     and the ID satisfies the C01 checker for the stored point. *)
  Fixpoint as_ops (l : list val) : option (list setter) :=
    match l with
    | [] => Some []
    | VL [VZ k; VF x] :: r =>
        match as_ops r with
        | Some t => if (k =? 0)%Z then Some (SLon x :: t) else if (k =? 1)%Z then Some (SLat x :: t) else if (k =? 2)%Z then Some (SAlt x :: t) else None
        | None => None end
    | _ => None
    end.
  Definition lat_refused (x : float) : bool := (c_latmax <? abs (setlat_trunc x))%float.
  (* expected flags and the last accepted request per field, computed from the documentation of each setter, not from run_setters *)
  Fixpoint expect_ops (l : list setter) (lon latreq alt : float) : list bool * (float * float * float) :=
    match l with
    | [] => ([], (lon, latreq, alt))
    | SLon x :: r => let bad := (180 <? abs x)%float in
                     let '(fl, t) := expect_ops r (if bad then lon else x) latreq alt in (bad :: fl, t)
    | SLat x :: r => let bad := lat_refused x in
                     let '(fl, t) := expect_ops r lon (if bad then latreq else x) alt in (bad :: fl, t)
    | SAlt x :: r => let '(fl, t) := expect_ops r lon latreq x in (false :: fl, t)
    end.
  Fixpoint flags_eq (a : list bool) (b : list val) : bool :=
    match a, b with
    | [], [] => true
    | x :: a', VB y :: b' => Bool.eqb x y && flags_eq a' b'
    | _, _ => false
    end.
  Definition d_setters (oracle : oracle_t) (args : list val) (obs : val) : verdict :=
    match args, obs with
    | [VL [VF lon; VF lat; VF alt]; VL ops; VZ h; VZ v], VL [VL fl; st; ids] =>
        match as_ops ops, as_point st with
        | Some l, Some s =>
            let '(p0, e0) := new_point lon lat alt in
            if e0 || negb (check_zoom h && check_zoom v) then bad_case
            else
              let tanf := ofun oracle "tan" in let cosf := ofun oracle "cos" in let logf := ofun oracle "log" in
              let '(pm, mfl) := run_setters p0 l in
              let mids := points_api tanf cosf logf false [pm] h v in
              let corr := flags_eq mfl fl && feqb_bits (plon s) (plon pm) && feqb_bits (plat s) (plat pm) && feqb_bits (palt s) (palt pm) &&
                          corr_list true mids ids in
              let '(efl, (elon, elat, ealt)) := expect_ops l lon lat alt in
              let base := flags_eq efl fl && feqb_bits (plon s) elon && feqb_bits (palt s) ealt in
              let sign := (0 <=? elat)%float && (0 <=? plat s)%float || (elat <=? 0)%float && (plat s <=? 0)%float in
              let latv := if exact_cut_ok elat (plat s) && sign then "ok"
                          else if negb (exact_cut_ok elat (setlat_trunc elat)) && cut_band_ok elat (plat s) && sign then "setlat_inexact" else "fail" in
              let r := ((if base then "ok" else "fail") :: latv :: obs_res false [s] h v ids)%list in
              if has "ood" r then bad_case
              else
                let prop := forallb (String.eqb "ok") r in
                let cls := if corr && negb prop && negb (has "fail" r) then first_class r else "-" in
                mkv corr prop cls (VL [VL (map VB mfl); of_point pm; res_strings mids])
        | _, _ => bad_case
        end
    | _, _ => bad_case
    end.

  (* VerticalTileIdOnAltitude: the unexported getVerticalTileIdOnAltitude through its verif hook, directly against PointF.f_f:
     args = [alt; v], observed = the string "v/f".  Any float altitude with |alt| <= 2^40, v in 0..35. *)
  Definition d_vtile (args : list val) (obs : val) : verdict :=
    match args, obs with
    | [VF alt; VZ v], VS s =>
        let p := {| plon := 0%float; plat := 0%float; palt := alt |} in
        if negb (check_zoom v) || negb (in_domain_point p) then bad_case
        else
          let m := vertical_tile_id alt v in
          let corr := match m with Some t => String.eqb t s | None => false end in
          let r := match map parse (split s), exact_f alt v with
                   | [Some v'; Some f], Some f' =>
                       if negb ((v' =? v)%Z && f_range_ok p v f) then "fail"
                       else if (f =? f')%Z then "ok"
                       else if alt_underflow_b alt v then "alt_underflow" else "fail"
                   | _, _ => "fail" end in
          let prop := String.eqb r "ok" in
          mkv corr prop (if corr && negb prop && negb (String.eqb r "fail") then r else "-") (match m with Some t => VS t | None => VNil end)
    | _, _ => bad_case
    end.

Definition table_C01 : table :=
  [("GetExtendedSpatialIdsOnPoints", fun o => d_points o false); ("GetSpatialIdsOnPoints", fun o => d_points o true);
   ("NewPoint", fun _ => d_new_point); ("LatRow", d_lat_row); ("PointMoveSequence", d_move);
   ("PointSetterSequence", d_setters); ("VerticalTileIdOnAltitude", fun _ => d_vtile)].
