(* DC01.v — dispatch entries of property C01 (point ↦ voxel) and the NewPoint entry shared with C15 *)
From Coq Require Import ZArith String List Bool Floats.
From SID Require Import Base Str Ids Wire F64 ExactRef PointF FF PointCheck.
Import ListNotations.
Open Scope string_scope.

  (* ---------- floats: points and vertices ---------- *)
  Definition ofun (oracle : oracle_t) (name : string) (x : float) : float :=
    match oracle name [VF x] with VF r => r | _ => nan end.
  Definition as_point (v : val) : option point :=
    match v with
    | VL [VF a; VF b; VF c] => Some {| plon := a; plat := b; palt := c |}
    | _ => None
    end.
  Definition of_point (p : point) : val := VL [VF (plon p); VF (plat p); VF (palt p)].
  (* list of points where VNil marks a nil pointer; returns (has_nil, non-nil points) *)
  Fixpoint as_points (l : list val) : option (bool * list point) :=
    match l with
    | [] => Some (false, [])
    | VNil :: r => match as_points r with Some (_, t) => Some (true, t) | None => None end
    | v :: r => match as_point v, as_points r with Some p, Some (b, t) => Some (b, p :: t) | _, _ => None end
    end.
  Definition res_strings (r : result (list string)) : val :=
    match r with Ok l => of_LS l | Err => VE VNil end.
  (* observed (list, error) against a model result: same error flag, and on success the same list (in order / as a set) *)
  Definition corr_list (ordered : bool) (m : result (list string)) (obs : val) : bool :=
    match m, obs with
    | Err, VE _ => true
    | Ok l, _ => match (if is_err obs then None else as_LS obs) with
                 | Some o => if ordered then same_list l o else same_set l o
                 | None => false end
    | _, _ => false
    end.

  (* the C01 checker on observed IDs (check_point_id / check_point_ids) is defined in PointCheck.v and proved sound in PointProofs.v *)
  (* finding classes, evaluated only when the model agrees with the code and the checker rejects the output:
     alt_underflow — the altitude is in the class of FF.alt_underflow (decided on the input by alt_underflow_b) and the model's f differs
                     from the exact floor;
     x_rounding    — the model's x differs from the exact floor; by XF.x_f_exact_outside_class this happens only for inputs of the class
                     XF.x_rounding (exact position within 2^(h-52) columns of a column boundary).
     Anything else that the checker rejects stays unclassified ("-") and is reported as a violation. *)
  Definition class_point (p : point) (h v : Z) : string :=
    match x_f (plon p) h, exact_x (plon p) h, f_f (palt p) v, exact_f (palt p) v with
    | Some x, Some x', Some f, Some f' =>
        if negb (f =? f')%Z then (if alt_underflow_b (palt p) v then "alt_underflow" else "-")
        else if negb (x =? x')%Z then "x_rounding" else "-"
    | _, _, _, _ => "-"
    end.
  Fixpoint class_points (ps : list point) (h v : Z) : string :=
    match ps with
    | [] => "-"
    | p :: r => let c := class_point p h v in if String.eqb c "-" then class_points r h v else c
    end.
  Definition in_domain_point (p : point) : bool :=
    (abs (plon p) <=? 180)%float && (abs (plat p) <=? c_latmax)%float && (abs (palt p) <=? pow2f 25)%float.

  Definition d_points (oracle : oracle_t) (sid : bool) (args : list val) (obs : val) : verdict :=
    match args with
    | [VL pl; VZ h; VZ v] =>
        match as_points pl with
        | Some (has_nil, ps) =>
            let tanf := ofun oracle "tan" in let cosf := ofun oracle "cos" in let logf := ofun oracle "log" in
            let m := if sid then points_sid_api tanf cosf logf has_nil ps h else points_api tanf cosf logf has_nil ps h v in
            let corr := corr_list true m obs in
            let expect_err := negb (check_zoom h && check_zoom v) || has_nil in
            let prop :=
              if expect_err then is_err obs
              else if negb (forallb in_domain_point ps) then true     (* outside the documented domain nothing is claimed *)
              else match (if is_err obs then None else as_LS obs) with
                   | Some o =>
                       if sid then match sids_to_eids o with Ok e => check_point_ids ps h v e | Err => false end
                       else check_point_ids ps h v o
                   | None => false end in
            let cls := if corr && negb prop then class_points ps h v else "-" in
            mkv corr prop cls (res_strings m)
        | None => bad_case
        end
    | _ => bad_case
    end.

  (* NewPoint: observed = [lon; lat; alt] of the returned object, wrapped in VE when an error was returned *)
  Definition check_new_point (lon lat alt : float) (obs : val) : bool :=
    let bad := (180 <? abs lon)%float || (c_latmax <? abs (setlat_trunc lat))%float in
    if bad then is_err obs
    else match obs with
         | VL [VF a; VF b; VF c] =>
             feqb_bits a lon && feqb_bits c alt &&
             (* latitude cut toward zero by less than 1e-10, decided exactly; same sign *)
             exact_cut_ok lat b && ((0 <=? lat)%float && (0 <=? b)%float || (lat <=? 0)%float && (b <=? 0)%float)
         | _ => false
         end.
  Definition d_new_point (args : list val) (obs : val) : verdict :=
    match args with
    | [VF lon; VF lat; VF alt] =>
        let '(p, e) := new_point lon lat alt in
        let m := if e then VE (of_point p) else of_point p in
        let corr := match obs, e with
                    | VE (VL [VF a; VF b; VF c]), true => feqb_bits a (plon p) && feqb_bits b (plat p) && feqb_bits c (palt p)
                    | VL [VF a; VF b; VF c], false => feqb_bits a (plon p) && feqb_bits b (plat p) && feqb_bits c (palt p)
                    | _, _ => false end in
        let prop := check_new_point lon lat alt obs in
        (* class setlat_inexact, decided on the input: the bit-exact model's own cut |lat| - |stored| is outside [0, 1e-10) *)
        let inexact := negb e && negb (exact_cut_ok lat (setlat_trunc lat)) in
        mkv corr prop (if corr && negb prop && inexact then "setlat_inexact" else "-") m
    | _ => bad_case
    end.


  (* LatRow (replays of the interval certificates of the meta step "latcert"): the row of a stored latitude at zoom h, against the
     row k of the real-number formula certified in Coq by interval arithmetic; near_lo / near_hi say that the real row is within
     2^(h-45) of the boundary with row k-1 / k+1, where a neighbouring answer is tolerated *)
  Definition d_lat_row (oracle : oracle_t) (args : list val) (obs : val) : verdict :=
    match args, obs with
    | [VF lat; VZ h; VZ k; VB near_lo; VB near_hi], VZ y =>
        let tanf := ofun oracle "tan" in let cosf := ofun oracle "cos" in let logf := ofun oracle "log" in
        let m := y_f tanf cosf logf lat h in
        let corr := match m with Some y' => (y' =? y)%Z | None => false end in
        let prop := (y =? k)%Z || (near_lo && (y =? k - 1)%Z) || (near_hi && (y =? k + 1)%Z) in
        mkv corr prop "-" (match m with Some y' => VZ y' | None => VNil end)
    | _, _ => bad_case
    end.

  (* PointMoveSequence: one *object.Point converted, then moved with SetLon/SetLat/SetAlt and converted again through the same pointer.
     args = [stored triple 1; requested triple 2; h; v; spatial-ID form?]; observed = [ids1; ids2; triple stored after the move].
     The model maps the pure function over the two stored triples (the second one as read back from the object) and predicts the
     stored triple itself with the NewPoint model. *)
  Definition d_move (oracle : oracle_t) (args : list val) (obs : val) : verdict :=
    match args, obs with
    | [a1; a2; VZ h; VZ v; VB sid], VL [o1; o2; st] =>
        match as_point a1, as_point a2, as_point st with
        | Some p1, Some r2, Some s2 =>
            let tanf := ofun oracle "tan" in let cosf := ofun oracle "cos" in let logf := ofun oracle "log" in
            let api := fun p => if sid then points_sid_api tanf cosf logf false [p] h else points_api tanf cosf logf false [p] h v in
            let '(n2, e2) := new_point (plon r2) (plat r2) (palt r2) in
            let stored_ok := negb e2 && feqb_bits (plon s2) (plon n2) && feqb_bits (plat s2) (plat n2) && feqb_bits (palt s2) (palt n2) in
            let corr := corr_list true (api p1) o1 && corr_list true (api s2) o2 && stored_ok in
            let chk := fun p o =>
              if negb (in_domain_point p) then true
              else match (if is_err o then None else as_LS o) with
                   | Some l => if sid then match sids_to_eids l with Ok e => check_point_ids [p] h h e | Err => false end
                               else check_point_ids [p] h v l
                   | None => false end in
            let prop := if negb (check_zoom h && check_zoom v) then false else chk p1 o1 && chk s2 o2 in
            let cls := if corr && negb prop then class_points [p1; s2] h (if sid then h else v) else "-" in
            mkv corr prop cls (VL [res_strings (api p1); res_strings (api s2); of_point n2])
        | _, _, _ => bad_case
        end
    | _, _ => bad_case
    end.

Definition table_C01 : table :=
  [("GetExtendedSpatialIdsOnPoints", fun o => d_points o false); ("GetSpatialIdsOnPoints", fun o => d_points o true);
   ("NewPoint", fun _ => d_new_point); ("LatRow", d_lat_row); ("PointMoveSequence", d_move)].
