(* DC01.v — dispatch entries of property C01 (point ↦ voxel) and the NewPoint entry shared with C15 *)
From Coq Require Import ZArith String List Bool Floats.
From SID Require Import Base Str Ids Wire F64 ExactRef PointF.
Import ListNotations.
Open Scope string_scope.

  (* ---------- floats: points and vertices ---------- *)
  Definition ofun (oracle : oracle_t) (name : string) (x : float) : float :=
    match oracle name [VF x] with VF r => r | _ => nan end.
  Definition as_point (v : val) : option point :=
    match v with
    | VL [VF a; VF b; VF c] => Some {| plon := a; plat := b; palt := c |}
    | _ => None
    end.
  Definition of_point (p : point) : val := VL [VF (plon p); VF (plat p); VF (palt p)].
  (* list of points where VNil marks a nil pointer; returns (has_nil, non-nil points) *)
  Fixpoint as_points (l : list val) : option (bool * list point) :=
    match l with
    | [] => Some (false, [])
    | VNil :: r => match as_points r with Some (_, t) => Some (true, t) | None => None end
    | v :: r => match as_point v, as_points r with Some p, Some (b, t) => Some (b, p :: t) | _, _ => None end
    end.
  Definition res_strings (r : result (list string)) : val :=
    match r with Ok l => of_LS l | Err => VE VNil end.
  (* observed (list, error) against a model result: same error flag, and on success the same list (in order / as a set) *)
  Definition corr_list (ordered : bool) (m : result (list string)) (obs : val) : bool :=
    match m, obs with
    | Err, VE _ => true
    | Ok l, _ => match (if is_err obs then None else as_LS obs) with
                 | Some o => if ordered then same_list l o else same_set l o
                 | None => false end
    | _, _ => false
    end.

  (* C01 checker on observed IDs: exact x and f from the float's dyadic value, y in range, zooms as requested *)
  Definition check_point_id (p : point) (h v : Z) (s : string) : bool :=
    match parse_eid s, exact_x (plon p) h, exact_f (palt p) v with
    | Some i, Some x, Some f =>
        (eh i =? h)%Z && (ev i =? v)%Z && (ex i =? x)%Z && (ef i =? f)%Z && (0 <=? ey i)%Z && (ey i <? 2 ^ h)%Z &&
        (0 <=? ex i)%Z && (ex i <? 2 ^ h)%Z
    | _, _, _ => false
    end.
  Fixpoint check_point_ids (ps : list point) (h v : Z) (o : list string) : bool :=
    match ps, o with
    | [], [] => true
    | p :: ps', s :: o' => check_point_id p h v s && check_point_ids ps' h v o'
    | _, _ => false
    end.
  (* finding classes: the bit-exact model itself differs from the exact reference (two roundings before the floor / underflow) *)
  Definition class_point (tanf cosf logf : float -> float) (p : point) (h v : Z) : string :=
    match x_f (plon p) h, exact_x (plon p) h, f_f (palt p) v, exact_f (palt p) v with
    | Some x, Some x', Some f, Some f' =>
        if negb (f =? f')%Z then "alt_underflow" else if negb (x =? x')%Z then "x_rounding" else "-"
    | _, _, _, _ => "-"
    end.
  Fixpoint class_points tanf cosf logf (ps : list point) (h v : Z) : string :=
    match ps with
    | [] => "-"
    | p :: r => let c := class_point tanf cosf logf p h v in if String.eqb c "-" then class_points tanf cosf logf r h v else c
    end.
  Definition in_domain_point (p : point) : bool :=
    (abs (plon p) <=? 180)%float && (abs (plat p) <=? c_latmax)%float && (abs (palt p) <=? pow2f 25)%float.

  Definition d_points (oracle : oracle_t) (sid : bool) (args : list val) (obs : val) : verdict :=
    match args with
    | [VL pl; VZ h; VZ v] =>
        match as_points pl with
        | Some (has_nil, ps) =>
            let tanf := ofun oracle "tan" in let cosf := ofun oracle "cos" in let logf := ofun oracle "log" in
            let m := if sid then points_sid_api tanf cosf logf has_nil ps h else points_api tanf cosf logf has_nil ps h v in
            let corr := corr_list true m obs in
            let expect_err := negb (check_zoom h && check_zoom v) || has_nil in
            let prop :=
              if expect_err then is_err obs
              else if negb (forallb in_domain_point ps) then true     (* outside the documented domain nothing is claimed *)
              else match (if is_err obs then None else as_LS obs) with
                   | Some o =>
                       if sid then match sids_to_eids o with Ok e => check_point_ids ps h v e | Err => false end
                       else check_point_ids ps h v o
                   | None => false end in
            let cls := if corr && negb prop then class_points tanf cosf logf ps h v else "-" in
            mkv corr prop cls (res_strings m)
        | None => bad_case
        end
    | _ => bad_case
    end.

  (* NewPoint: observed = [lon; lat; alt] of the returned object, wrapped in VE when an error was returned *)
  Definition check_new_point (lon lat alt : float) (obs : val) : bool :=
    let bad := (180 <? abs lon)%float || (c_latmax <? abs (setlat_trunc lat))%float in
    if bad then is_err obs
    else match obs with
         | VL [VF a; VF b; VF c] =>
             feqb_bits a lon && feqb_bits c alt &&
             (* latitude cut toward zero by less than 1e-10, decided exactly; same sign *)
             exact_cut_ok lat b && ((0 <=? lat)%float && (0 <=? b)%float || (lat <=? 0)%float && (b <=? 0)%float)
         | _ => false
         end.
  Definition d_new_point (args : list val) (obs : val) : verdict :=
    match args with
    | [VF lon; VF lat; VF alt] =>
        let '(p, e) := new_point lon lat alt in
        let m := if e then VE (of_point p) else of_point p in
        let corr := match obs, e with
                    | VE (VL [VF a; VF b; VF c]), true => feqb_bits a (plon p) && feqb_bits b (plat p) && feqb_bits c (palt p)
                    | VL [VF a; VF b; VF c], false => feqb_bits a (plon p) && feqb_bits b (plat p) && feqb_bits c (palt p)
                    | _, _ => false end in
        let prop := check_new_point lon lat alt obs in
        mkv corr prop (if corr && negb prop then "setlat_inexact" else "-") m
    | _ => bad_case
    end.


Definition table_C01 : table :=
  [("GetExtendedSpatialIdsOnPoints", fun o => d_points o false); ("GetSpatialIdsOnPoints", fun o => d_points o true);
   ("NewPoint", fun _ => d_new_point)].
