(* DC04.v — dispatch entries of property C04: (arguments, observed output) ↦ verdict.
   corr = the executable model's output equals the implementation's observed output (as a sorted list of strings: same members,
          same multiplicities — the model's output is duplicate-free; error flag only, never messages);
   prop = MergeApi.prop_ext / prop_sid: on the property's domain (valid IDs, target zooms 0..35) the observed list parses and
          MergeCheck.check_merge accepts it (proved in MergeCheckProof.check_merge_correct to decide the specification exactly):
          no duplicates, exactly the specification set (filled targets replaced, everything else unchanged; "filled" decided by the
          dyadic-box reference), same covered region on unit cells, and the model's merge of the observed list changes nothing.
   A case beyond the shared work bound (Merge.within_bound) is executed on neither side: the harness reports "skipped". *)
From Coq Require Import ZArith String List Bool.
From SID Require Import Base Str Ids ZoomCore Wire Merge MergeCheck MergeApi MergeHelpers.
Import ListNotations.
Open Scope string_scope.

Definition skipped : string := "skipped:work-bound".

(* does the call enumerate unit cells at all, and if so within the bound? *)
Definition runnable (ids : list string) (H V : Z) : bool :=
  if check_zoom H && check_zoom V then
    match parse_all ids with Some l => within_bound H V l | None => true end
  else true.

Definition multiset_eqb (a b : list string) : bool := list_eqb String.eqb (sort_strings a) (sort_strings b).

Definition corr_of (m : result (list string)) (obs : val) : bool :=
  match m, obs with
  | Err, VE _ => true
  | Ok l, VE _ => false
  | Ok l, _ => match as_LS obs with Some o => multiset_eqb l o | None => false end
  | Err, _ => false
  end.

Definition d_merge_ext (args : list val) (obs : val) : verdict :=
  match args with
  | [ids; VZ H; VZ V] =>
      match as_LS ids with
      | Some ids =>
          if runnable ids H V then
            match obs with
            | VPanic | VTimeout => bad_case
            | _ => let m := merge_ext_api ids H V in
                   mkv (corr_of m obs) (prop_ext ids H V obs) "-" (match m with Ok l => of_LS l | Err => VE VNil end)
            end
          else match obs with VS s => if String.eqb s skipped then mkv true true "-" VNil else bad_case | _ => bad_case end
      | None => bad_case
      end
  | _ => bad_case
  end.

Definition d_merge_sid (args : list val) (obs : val) : verdict :=
  match args with
  | [ids; VZ z] =>
      match as_LS ids with
      | Some ids =>
          let e := match sids_to_eids ids with Ok e => e | Err => [] end in
          if runnable e z z then
            match obs with
            | VPanic | VTimeout => bad_case
            | _ => let m := merge_sid_api ids z in
                   mkv (corr_of m obs) (prop_sid ids z obs) "-" (match m with Ok l => of_LS l | Err => VE VNil end)
            end
          else match obs with VS s => if String.eqb s skipped then mkv true true "-" VNil else bad_case | _ => bad_case end
      | None => bad_case
      end
  | _ => bad_case
  end.

(* ExtendedSpatialID.Higher on its own: model = ZoomCore.higher; property = floor ancestor on all three axes for valid IDs *)
Definition d_higher (args : list val) (obs : val) : verdict :=
  match args, obs with
  | [VS id; VZ hd; VZ vd], VS o =>
      match parse_eid id with
      | Some i =>
          if ((0 <=? hd) && (hd <=? 62) && (0 <=? vd) && (vd <=? 62))%Z then
            let m := print_eid (higher i hd vd) in
            let p := if validb i && (hd <=? eh i)%Z && (vd <=? ev i)%Z
                     then String.eqb o (print_eid {| eh := (eh i - hd)%Z; ex := anc hd (ex i); ey := anc hd (ey i); ev := (ev i - vd)%Z; ef := anc vd (ef i) |})
                     else true in
            mkv (String.eqb m o) p "-" (VS m)
          else bad_case
      | None => bad_case
      end
  | _, _ => bad_case
  end.

(* the exported merge helpers as stand-alone API: a scripted sequence (construct units and highs, Merge receivers/arguments —
   the same argument object reused —, snapshots of every object before and after every Merge); model = MergeHelpers.script_model
   (heap with the aliasing the code creates), prop = MergeHelpers.script_prop (argument unchanged, receiver = union, nothing else
   touched, IsDense = count test, construction = dyadic reference), computed from the observations alone *)
Definition dec_uspec (v : val) : option uspec :=
  match v with VL [VS id; VZ hd; VZ vd] => match parse_eid id with Some i => Some (i, hd, vd) | None => None end | _ => None end.
Definition dec_hspec (v : val) : option hspec :=
  match v with VL [VZ k; VZ hd; VZ vd] => if (0 <=? k)%Z then Some (Z.to_nat k, hd, vd) else None | _ => None end.
Definition dec_op (v : val) : option (nat * nat) :=
  match v with VL [VZ r; VZ a] => if ((0 <=? r) && (0 <=? a))%Z then Some (Z.to_nat r, Z.to_nat a) else None | _ => None end.
Definition d_helpers (args : list val) (obs : val) : verdict :=
  match args with
  | [VL us; VL hs; VL ops] =>
      match all_opt (map dec_uspec us), all_opt (map dec_hspec hs), all_opt (map dec_op ops) with
      | Some us, Some hs, Some ops =>
          if script_ok us hs ops then
            match obs with
            | VPanic | VTimeout => bad_case
            | _ => let m := script_model us hs ops in mkv (val_eqb m obs) (script_prop us hs ops obs) "-" m
            end
          else bad_case
      | _, _, _ => bad_case
      end
  | _ => bad_case
  end.

Definition table_C04 : table :=
  [("MergeExtendedSpatialIds", fun _ => d_merge_ext); ("MergeSpatialIds", fun _ => d_merge_sid); ("Higher", fun _ => d_higher);
   ("HighSpatialIDOps", fun _ => d_helpers); ("MergeHelperSequence", fun _ => d_helpers)].
