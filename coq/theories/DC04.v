(* DC04.v — dispatch entries of property C04: (arguments, observed output) ↦ verdict.
   corr = the executable model's output equals the implementation's observed output (as a sorted list of strings: same members,
          same multiplicities — the model's output is duplicate-free; error flag only, never messages);
   prop = MergeApi.prop_ext / prop_sid: on the property's domain (valid IDs, target zooms 0..35) the observed list parses and
          MergeCheck.check_merge accepts it (proved in MergeCheckProof.check_merge_correct to decide the specification exactly):
          no duplicates, exactly the specification set (filled targets replaced, everything else unchanged; "filled" decided by the
          dyadic-box reference), same covered region on unit cells, canonical spelling. Idempotence and translation of the
          IMPLEMENTATION are observed by the entries MergeTwice / MergeShifted (two real calls each).
   A case beyond the shared work bound (Merge.within_bound, recomputed here from the arguments) is executed on neither side: the
   invoker answers "skipped:work-bound" and the entry answers class "skipped" (counted apart: neither an evaluation nor a pass);
   a "skipped" marker for a case that is within the bound is a bad case. *)
From Coq Require Import ZArith String List Bool.
From SID Require Import Base Str Ids ZoomCore Wire Merge MergeCheck MergeIdem MergeApi MergeHelpers MergeHistory.
Import ListNotations.
Open Scope string_scope.

Definition skipped : string := "skipped:work-bound".

(* does the call enumerate unit cells at all, and if so within the bound? *)
Definition runnable (ids : list string) (H V : Z) : bool :=
  if check_zoom H && check_zoom V then
    match parse_all ids with Some l => within_bound H V l | None => true end
  else true.

Definition multiset_eqb (a b : list string) : bool := list_eqb String.eqb (sort_strings a) (sort_strings b).

Definition corr_of (m : result (list string)) (obs : val) : bool :=
  match m, obs with
  | Err, VE _ => true
  | Ok l, VE _ => false
  | Ok l, _ => match as_LS obs with Some o => multiset_eqb l o | None => false end
  | Err, _ => false
  end.

Definition d_merge_ext (args : list val) (obs : val) : verdict :=
  match args with
  | [ids; VZ H; VZ V] =>
      match as_LS ids with
      | Some ids =>
          if runnable ids H V then
            match obs with
            | VPanic | VTimeout => bad_case
            | _ => let m := merge_ext_api ids H V in
                   mkv (corr_of m obs) (prop_ext ids H V obs) "-" (match m with Ok l => of_LS l | Err => VE VNil end)
            end
          else match obs with VS s => if String.eqb s skipped then mkv true true "skipped" VNil else bad_case | _ => bad_case end
      | None => bad_case
      end
  | _ => bad_case
  end.

Definition d_merge_sid (args : list val) (obs : val) : verdict :=
  match args with
  | [ids; VZ z] =>
      match as_LS ids with
      | Some ids =>
          let e := match sids_to_eids ids with Ok e => e | Err => [] end in
          if runnable e z z then
            match obs with
            | VPanic | VTimeout => bad_case
            | _ => let m := merge_sid_api ids z in
                   mkv (corr_of m obs) (prop_sid ids z obs) "-" (match m with Ok l => of_LS l | Err => VE VNil end)
            end
          else match obs with VS s => if String.eqb s skipped then mkv true true "skipped" VNil else bad_case | _ => bad_case end
      | None => bad_case
      end
  | _ => bad_case
  end.

(* ---- metamorphic entries: relations between two calls of the REAL function ---- *)
Definition skip_or_bad (obs : val) : verdict :=
  match obs with VS s => if String.eqb s skipped then mkv true true "skipped" VNil else bad_case | _ => bad_case end.
Definition res_val (m : result (list string)) : val := match m with Ok l => of_LS l | Err => VE VNil end.

(* MergeTwice: out1 = Merge(ids, H, V), out2 = Merge(out1, H, V), both observed on the implementation.
   corr: both equal the model's; prop (valid inputs): out1 is accepted by the checker and out2 has exactly the members of out1, none twice *)
Definition d_merge_twice (args : list val) (obs : val) : verdict :=
  match args with
  | [ids; VZ H; VZ V] =>
      match as_LS ids with
      | Some ids =>
          if runnable ids H V then
            match obs with
            | VL [o1; o2] =>
                match as_LS o1 with
                | Some l1 =>
                    if runnable l1 H V then
                      let m1 := merge_ext_api ids H V in
                      let m2 := match m1 with Ok r => merge_ext_api r H V | Err => Err end in
                      let p := prop_ext ids H V o1 &&
                               match parse_all ids with
                               | Some l => if in_domain l H V
                                           then match as_LS o2 with
                                                | Some l2 => match parse_all l1, parse_all l2 with
                                                             | Some a, Some b => nodup_eids b && set_eqb b a && list_eqb String.eqb (map print_eid b) l2
                                                             | _, _ => false
                                                             end
                                                | None => false
                                                end
                                           else true
                               | None => true
                               end in
                      mkv (corr_of m1 o1 && corr_of m2 o2) p "-" (VL [res_val m1; res_val m2])
                    else match o2 with VS s => if String.eqb s skipped then mkv true true "skipped" VNil else bad_case | _ => bad_case end
                | None => bad_case
                end
            | VE _ => let m1 := merge_ext_api ids H V in mkv (corr_of m1 obs) (prop_ext ids H V obs) "-" (res_val m1)
            | _ => bad_case
            end
          else skip_or_bad obs
      | None => bad_case
      end
  | _ => bad_case
  end.

(* MergeShifted: out = Merge(ids, H, V) and outS = Merge(ids shifted vertically by k whole zoom-0 cells, H, V), both observed.
   corr: both equal the model's; prop (valid ids): out accepted by the checker, outS = out shifted by k (same members, none twice) *)
Definition shift_ids (k : Z) (l : list eid) : list string := map (fun i => print_eid (shiftf k i)) l.
Definition d_merge_shifted (args : list val) (obs : val) : verdict :=
  match args with
  | [ids; VZ H; VZ V; VZ k] =>
      match as_LS ids with
      | Some ids =>
          match parse_all ids with
          | Some l =>
              if runnable ids H V && (Z.abs k <=? 4)%Z && forallb (fun i => (0 <=? ev i) && (ev i <=? 35))%Z l then
                match obs with
                | VL [o1; o2] =>
                    let m1 := merge_ext_api ids H V in
                    let m2 := merge_ext_api (shift_ids k l) H V in
                    let p := prop_ext ids H V o1 &&
                             (if in_domain l H V
                              then match as_LS o1, as_LS o2 with
                                   | Some l1, Some l2 => match parse_all l1, parse_all l2 with
                                                         | Some a, Some b => nodup_eids b && set_eqb b (map (shiftf k) a) && list_eqb String.eqb (map print_eid b) l2
                                                         | _, _ => false
                                                         end
                                   | _, _ => false
                                   end
                              else true) in
                    mkv (corr_of m1 o1 && corr_of m2 o2) p "-" (VL [res_val m1; res_val m2])
                | VE _ => let m1 := merge_ext_api ids H V in mkv (corr_of m1 obs) (prop_ext ids H V obs) "-" (res_val m1)
                | _ => bad_case
                end
              else if runnable ids H V then bad_case else skip_or_bad obs
          | None => bad_case
          end
      | None => bad_case
      end
  | _ => bad_case
  end.

(* ExtendedSpatialID.Higher on its own: model = ZoomCore.higher; property = floor ancestor on all three axes for valid IDs *)
Definition d_higher (args : list val) (obs : val) : verdict :=
  match args, obs with
  | [VS id; VZ hd; VZ vd], VS o =>
      match parse_eid id with
      | Some i =>
          if ((0 <=? hd) && (hd <=? 62) && (0 <=? vd) && (vd <=? 62))%Z then
            let m := print_eid (higher i hd vd) in
            let p := if validb i && (hd <=? eh i)%Z && (vd <=? ev i)%Z
                     then String.eqb o (print_eid {| eh := (eh i - hd)%Z; ex := anc hd (ex i); ey := anc hd (ey i); ev := (ev i - vd)%Z; ef := anc vd (ef i) |})
                     else true in
            mkv (String.eqb m o) p "-" (VS m)
          else bad_case
      | None => bad_case
      end
  | _, _ => bad_case
  end.

(* the exported merge helpers as stand-alone API: a scripted sequence (construct units and highs, Merge receivers/arguments —
   the same argument object reused —, snapshots of every object before and after every Merge; then setter steps
   SetX/SetZoom on constructed units and a read-back of the ORIGINAL argument IDs and of the units' IDs); model = MergeHelpers.script_model
   (heap with the aliasing the code creates), prop = MergeHelpers.script_prop (argument unchanged, receiver = union, nothing else
   touched, IsDense = count test, construction = dyadic reference), computed from the observations alone *)
Definition dec_uspec (v : val) : option uspec :=
  match v with VL [VS id; VZ hd; VZ vd] => match parse_eid id with Some i => Some (i, hd, vd) | None => None end | _ => None end.
Definition dec_hspec (v : val) : option hspec :=
  match v with VL [VZ k; VZ hd; VZ vd] => if (0 <=? k)%Z then Some (Z.to_nat k, hd, vd) else None | _ => None end.
Definition dec_op (v : val) : option (nat * nat) :=
  match v with VL [VZ r; VZ a] => if ((0 <=? r) && (0 <=? a))%Z then Some (Z.to_nat r, Z.to_nat a) else None | _ => None end.
Definition dec_set (v : val) : option sspec :=
  match v with VL [VZ j; VZ x; VZ hz; VZ vz] => if (0 <=? j)%Z then Some (Z.to_nat j, x, hz, vz) else None | _ => None end.
Definition d_helpers (args : list val) (obs : val) : verdict :=
  match args with
  | [VL us; VL hs; VL ops; VL sets] =>
      match all_opt (map dec_uspec us), all_opt (map dec_hspec hs), all_opt (map dec_op ops), all_opt (map dec_set sets) with
      | Some us, Some hs, Some ops, Some sets =>
          if script_ok us hs ops sets then
            match obs with
            | VPanic | VTimeout => bad_case
            | _ => let m := script_model us hs ops sets in mkv (val_eqb m obs) (script_prop us hs ops sets obs) "-" m
            end
          else bad_case
      | _, _, _, _ => bad_case
      end
  | _ => bad_case
  end.

(* ---- MergeHistory: a sequence of calls performed back to back in one invocation (the argument slice is one reused caller buffer;
   between the calls the caller scribbles over its argument slice, over the returned slice, and over objects it parsed itself, as the
   step's flags say). The model is pure (MergeHistory.history_independent): every step is judged exactly like a standalone call by
   the entry of its function; the case fails if any step fails. step = [kind; ids; a; b; flags], kind "ext" (ids, H, V),
   "sid" (ids, z, -), "higher" ([id], hDiff, vDiff). ---- *)
Definition step_args (v : val) : option (string * list val) :=
  match v with
  | VL [VS k; VL ids; VZ a; VZ b; VZ _] =>
      if String.eqb k "ext" then Some (k, [VL ids; VZ a; VZ b])
      else if String.eqb k "sid" then Some (k, [VL ids; VZ a])
      else if String.eqb k "higher" then match ids with [VS id] => Some (k, [VS id; VZ a; VZ b]) | _ => None end
      else None
  | _ => None
  end.
Definition step_runnable (ka : string * list val) : bool :=
  match ka with
  | (k, [ids; VZ a; VZ b]) => if String.eqb k "ext" then match as_LS ids with Some l => runnable l a b | None => true end else true
  | (k, [ids; VZ z]) => match as_LS ids with
                        | Some l => runnable (match sids_to_eids l with Ok e => e | Err => [] end) z z
                        | None => true
                        end
  | _ => true
  end.
Definition step_verdict (ka : string * list val) (o : val) : verdict :=
  let '(k, a) := ka in
  if String.eqb k "ext" then d_merge_ext a o else if String.eqb k "sid" then d_merge_sid a o else d_higher a o.
Fixpoint steps_verdict (l : list (string * list val)) (os : list val) : option (bool * bool * list val) :=
  match l, os with
  | [], [] => Some (true, true, [])
  | ka :: l', o :: os' =>
      let v := step_verdict ka o in
      if String.eqb (v_class v) "-" then
        match steps_verdict l' os' with
        | Some (c, p, ms) => Some (v_corr v && c, v_prop v && p, v_model v :: ms)
        | None => None
        end
      else None
  | _, _ => None
  end.
Definition d_history (args : list val) (obs : val) : verdict :=
  match args with
  | [VL steps] =>
      match all_opt (map step_args steps) with
      | Some l =>
          if (Nat.leb (List.length l) 12) then
            if forallb step_runnable l then
              match obs with
              | VL os => match steps_verdict l os with Some (c, p, ms) => mkv c p "-" (VL ms) | None => bad_case end
              | _ => bad_case
              end
            else skip_or_bad obs
          else bad_case
      | None => bad_case
      end
  | _ => bad_case
  end.

Definition table_C04 : table :=
  [("MergeExtendedSpatialIds", fun _ => d_merge_ext); ("MergeSpatialIds", fun _ => d_merge_sid); ("Higher", fun _ => d_higher);
   ("MergeTwice", fun _ => d_merge_twice); ("MergeShifted", fun _ => d_merge_shifted);
   ("MergeHistory", fun _ => d_history);
   ("HighSpatialIDOps", fun _ => d_helpers); ("MergeHelperSequence", fun _ => d_helpers)].
