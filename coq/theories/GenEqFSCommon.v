(* GenEqFSCommon.v — common.AlmostEqual regenerated = VecF.almost_equal. *)
From Coq Require Import ZArith Bool Floats.
From SIDGen Require Import GeneratedF GeneratedFS.
From SID Require Import F64 VecF GenFTac GenEqFSTac.
Open Scope float_scope.

(* common.AlmostEqual *)
Lemma gen_AlmostEqual_eq : forall x y tol, GeneratedFS.AlmostEqual x y tol = almost_equal x y tol.
Proof. gen_fs ltac:(unfold almost_equal). Qed.

