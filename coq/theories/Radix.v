(* Radix.v — a trie with the observable behaviour of github.com/trajectoryjp/multidimensional-radix-tree (package tree) as
   detector.CheckSpatialIdsArrayOverlap uses it (property C05):
     tree.CreateTree(tree.Create3DTable())                       rempty
     tr.Append(Indexs{f', x, y}, ZoomSetLevel(z), value)          rappend (digits of the key) t      (value is a non-nil string)
     tr.IsOverlap(Indexs{f', x, y}, ZoomSetLevel(z))              rsearch (digits of the key) t      (= len(top.searchKey(key, chop = true, ..)) > 0)
   Library facts the model rests on (read from tree.go / node.go / keyInfo.go / zoom.go, validated against the real library by the harness):
   - Create3DTable() = {{1,1,1}}: every level consumes one bit per dimension, every node has 8 branches; the branch taken at level l by a key
     of zoom z is BranchPath(l) = 4*bit(f', z-1-l) + 2*bit(x, z-1-l) + bit(y, z-1-l)   (pickup; Digits.v);
   - Node.append: at depth z the value is stored (overwritten); otherwise the branch is created when missing and the key descends;
   - Node.searchKey with chop = true: a node that carries a value answers with that record at once; otherwise, while the key has digits
     left, the branch of the next digit is followed (nil branch: no record); once the key is exhausted every existing branch is searched,
     and since every leaf carries a value, any existing branch yields a record;
   - searching a tree to which nothing was appended indexes a nil slice (panic) when the key has digits: the detector guards this case
     (fix 72f5085) and never searches the empty tree; the model answers false there.
   Keys are digit lists, most significant level first. *)
From Coq Require Import ZArith Lia List Bool.
Import ListNotations.
Open Scope Z_scope.

Inductive trie := Node (v : bool) (c : list (Z * trie)).

Definition rempty : trie := Node false [].

Fixpoint rchild (d : Z) (c : list (Z * trie)) : option trie :=
  match c with
  | [] => None
  | (d', t) :: r => if d =? d' then Some t else rchild d r
  end.
Fixpoint rset_child (d : Z) (t : trie) (c : list (Z * trie)) : list (Z * trie) :=
  match c with
  | [] => [(d, t)]
  | (d', t') :: r => if d =? d' then (d, t) :: r else (d', t') :: rset_child d t r
  end.

(* Node.append *)
Fixpoint rappend (k : list Z) (t : trie) : trie :=
  match t with Node v c =>
    match k with
    | [] => Node true c
    | d :: k' =>
      let sub := match rchild d c with Some s => s | None => rempty end in
      Node v (rset_child d (rappend k' sub) c)
    end
  end.

(* any value at or below a node *)
Fixpoint ranyval (t : trie) : bool :=
  match t with Node v c =>
    v || (fix go (l : list (Z * trie)) : bool :=
            match l with [] => false | p :: r => ranyval (snd p) || go r end) c
  end.

(* Node.searchKey(key, chop = true, _) returns at least one record *)
Fixpoint rsearch (k : list Z) (t : trie) : bool :=
  match t with Node v c =>
    if v then true else
    match k with
    | [] => existsb (fun p => ranyval (snd p)) c
    | d :: k' => match rchild d c with Some s => rsearch k' s | None => false end
    end
  end.

(* ---- specification through the set of stored keys ---- *)
Inductive stored : trie -> list Z -> Prop :=
| st_here c : stored (Node true c) []
| st_below v c d s k : rchild d c = Some s -> stored s k -> stored (Node v c) (d :: k).

Fixpoint prefix (a b : list Z) : Prop :=
  match a, b with
  | [], _ => True
  | x :: a', y :: b' => x = y /\ prefix a' b'
  | _ :: _, [] => False
  end.

Lemma rchild_set_same d t c : rchild d (rset_child d t c) = Some t.
Proof. induction c as [|[d' t'] r IH]; cbn; [now rewrite Z.eqb_refl|].
  destruct (Z.eqb_spec d d'); cbn; [now rewrite Z.eqb_refl|]. destruct (Z.eqb_spec d d'); [lia|exact IH]. Qed.

Lemma rchild_set_other d e t c : d <> e -> rchild e (rset_child d t c) = rchild e c.
Proof. intros H. induction c as [|[d' t'] r IH]; cbn.
  - destruct (Z.eqb_spec e d); [lia|reflexivity].
  - destruct (Z.eqb_spec d d'); cbn.
    + subst. destruct (Z.eqb_spec e d'); [lia|reflexivity].
    + destruct (Z.eqb_spec e d'); [reflexivity|exact IH]. Qed.

Lemma stored_rempty k : ~ stored rempty k.
Proof. intros H. inversion H; subst. cbn in *. discriminate. Qed.

(* stored keys after an append = the new key plus the old ones *)
Theorem stored_append k : forall t q, stored (rappend k t) q <-> q = k \/ stored t q.
Proof.
  induction k as [|d k IH]; intros [v c] q; cbn [rappend].
  - split.
    + intros H. inversion H as [c0 | v0 c0 d0 s0 k0 Hc Hs]; subst; [now left|]. right. econstructor; eassumption.
    + intros [->|H]; [constructor|]. inversion H as [c0 | v0 c0 d0 s0 k0 Hc Hs]; subst; [constructor|]. econstructor; eassumption.
  - set (sub := match rchild d c with Some s => s | None => rempty end).
    split.
    + intros H. inversion H as [c0 | v0 c0 d0 s0 k0 Hc Hs]; subst.
      * right. constructor.
      * destruct (Z.eq_dec d d0) as [<-|N].
        -- rewrite rchild_set_same in Hc. injection Hc as <-.
           apply IH in Hs. destruct Hs as [->|Hs]; [now left|]. right.
           unfold sub in Hs. destruct (rchild d c) eqn:E; [econstructor; eassumption|].
           now apply stored_rempty in Hs.
        -- rewrite rchild_set_other in Hc by exact N. right. econstructor; eassumption.
    + intros [->|H].
      * econstructor; [apply rchild_set_same|]. apply IH. now left.
      * inversion H as [c0 | v0 c0 d0 s0 k0 Hc Hs]; subst; [constructor|].
        destruct (Z.eq_dec d d0) as [<-|N].
        -- econstructor; [apply rchild_set_same|]. apply IH. right. unfold sub. now rewrite Hc.
        -- econstructor; [rewrite rchild_set_other by exact N; eassumption|assumption].
Qed.

(* well-formed: every child subtree holds at least one key (append never creates an empty branch) *)
Inductive twf : trie -> Prop :=
| twf_node v c : (forall d s, In (d, s) c -> twf s /\ exists k, stored s k) -> twf (Node v c).

Lemma rchild_In d c s : rchild d c = Some s -> In (d, s) c.
Proof. induction c as [|[d' t'] r IH]; cbn; [discriminate|].
  destruct (Z.eqb_spec d d'); [intros [= ->]; subst; now left | intros H; right; auto]. Qed.

Lemma ranyval_unfold v c : ranyval (Node v c) = v || existsb (fun p => ranyval (snd p)) c.
Proof. reflexivity. Qed.

Lemma stored_ranyval t k : stored t k -> ranyval t = true.
Proof.
  induction 1 as [c | v c d s k Hc Hs IH]; rewrite ranyval_unfold; [reflexivity|].
  apply orb_true_iff. right. apply existsb_exists. exists (d, s). split; [now apply rchild_In|exact IH].
Qed.

Lemma prefix_nil_r k : prefix k [] -> k = [].
Proof. destruct k; cbn; [reflexivity|tauto]. Qed.
Lemma prefix_refl k : prefix k k.
Proof. induction k; cbn; auto. Qed.

(* IsOverlap answers true exactly when a stored key is a prefix of the query or the query is a prefix of a stored key *)
Theorem search_spec q : forall t, twf t ->
  (rsearch q t = true <-> exists k, stored t k /\ (prefix k q \/ prefix q k)).
Proof.
  induction q as [|d q IH]; intros [v c] Hwf; cbn [rsearch].
  - destruct v.
    + split; [|reflexivity]. intros _. exists []. split; [constructor|left; exact I].
    + split.
      * intros H. apply existsb_exists in H. destruct H as ([d s] & Hin & _).
        inversion Hwf as [v0 c0 Hc]; subst. destruct (Hc d s Hin) as (_ & k & Hk).
        destruct (rchild d c) as [s'|] eqn:E.
        -- destruct (Hc d s' (rchild_In _ _ _ E)) as (_ & k' & Hk').
           exists (d :: k'). split; [econstructor; eassumption|right; exact I].
        -- exfalso. clear - Hin E. induction c as [|[d' t'] r IHc]; cbn in *; [tauto|].
           destruct (Z.eqb_spec d d'); [discriminate|]. destruct Hin as [[= -> ->]|Hin]; [lia|auto].
      * intros (k & Hk & _). inversion Hk as [c0 | v0 c0 d0 s0 k0 Hc Hs]; subst.
        apply existsb_exists. exists (d0, s0). split; [now apply rchild_In|].
        cbn. eapply stored_ranyval; eassumption.
  - destruct v.
    + split; [|reflexivity]. intros _. exists []. split; [constructor|left; exact I].
    + inversion Hwf as [v0 c0 Hc]; subst. destruct (rchild d c) as [s|] eqn:E.
      * destruct (Hc d s (rchild_In _ _ _ E)) as (Hws & _). rewrite (IH s Hws). split.
        -- intros (k & Hk & Hp). exists (d :: k). split; [econstructor; eassumption|].
           destruct Hp; [left|right]; cbn; tauto.
        -- intros (k & Hk & Hp). inversion Hk as [c0 | v0 c0 d0 s0 k0 Hc0 Hs]; subst.
           destruct Hp as [Hp|Hp]; cbn in Hp; destruct Hp as [<- Hp];
             rewrite E in Hc0; injection Hc0 as <-; exists k0; (split; [assumption|]); [left|right]; assumption.
      * split; [discriminate|]. intros (k & Hk & Hp).
        inversion Hk as [c0 | v0 c0 d0 s0 k0 Hc0 Hs]; subst.
        destruct Hp as [Hp|Hp]; cbn in Hp; destruct Hp as [<- _]; congruence.
Qed.

(* ---- append preserves well-formedness; the tree built from a list of keys ---- *)
Lemma rset_child_In d t c e s : In (e, s) (rset_child d t c) -> (e = d /\ s = t) \/ In (e, s) c.
Proof.
  induction c as [|[d' t'] r IH]; cbn.
  - intros [[= <- <-]|[]]. now left.
  - destruct (Z.eqb_spec d d').
    + intros [[= <- <-]|H]; [now left|right; now right].
    + intros [H|H]; [right; now left|]. destruct (IH H) as [?|?]; [now left|right; now right].
Qed.

Lemma twf_rempty : twf rempty.
Proof. constructor. intros d s []. Qed.

Theorem twf_append k : forall t, twf t -> twf (rappend k t).
Proof.
  induction k as [|d k IH]; intros [v c] Hwf; cbn [rappend]; inversion Hwf as [v0 c0 Hc]; subst.
  - constructor. exact Hc.
  - constructor. intros e s Hin. apply rset_child_In in Hin. destruct Hin as [[-> ->]|Hin]; [|exact (Hc e s Hin)].
    set (sub := match rchild d c with Some s => s | None => rempty end).
    assert (Hsub : twf sub).
    { unfold sub. destruct (rchild d c) as [t|] eqn:E; [|apply twf_rempty]. pose proof (rchild_In d c t E) as Hin'. now destruct (Hc d t Hin'). }
    split; [now apply IH|]. exists k. apply stored_append. now left.
Qed.

(* the tree after appending the keys in order (the first loop of CheckSpatialIdsArrayOverlap) *)
Definition rbuild_from (t : trie) (keys : list (list Z)) : trie := fold_left (fun t k => rappend k t) keys t.
Definition rbuild (keys : list (list Z)) : trie := rbuild_from rempty keys.

Lemma rbuild_inv keys : forall t, twf t ->
  twf (rbuild_from t keys) /\
  forall q, stored (rbuild_from t keys) q <-> In q keys \/ stored t q.
Proof.
  unfold rbuild_from. induction keys as [|k r IH]; intros t Hwf; cbn [fold_left].
  - split; [exact Hwf|]. intros q. cbn. tauto.
  - destruct (IH (rappend k t) (twf_append k t Hwf)) as [W S]. split; [exact W|].
    intros q. rewrite S, stored_append. cbn. intuition congruence.
Qed.

(* IsOverlap on the tree built from the first list: some stored key is a prefix of the query, or conversely *)
Theorem overlap_spec keys q :
  rsearch q (rbuild keys) = true <-> exists k, In k keys /\ (prefix k q \/ prefix q k).
Proof.
  destruct (rbuild_inv keys rempty twf_rempty) as [W S]. unfold rbuild.
  rewrite (search_spec q _ W). split; intros (k & Hk & P); exists k; (split; [|exact P]).
  - apply S in Hk. destruct Hk as [Hk|Hk]; [exact Hk|now apply stored_rempty in Hk].
  - apply S. now left.
Qed.

(* the order in which the keys are appended, and repetitions, do not matter *)
Corollary overlap_set_only keys keys' q : (forall k, In k keys <-> In k keys') ->
  rsearch q (rbuild keys) = rsearch q (rbuild keys').
Proof.
  intros H. apply eq_true_iff_eq. rewrite !overlap_spec.
  split; intros (k & Hk & P); exists k; (split; [apply H; exact Hk|exact P]).
Qed.
