(* PointProofs.v — C01 assembled: list structure of GetExtendedSpatialIdsOnPoints / GetSpatialIdsOnPoints (length, order, error
   cases, the spatial-ID form is the same voxel in z/f/x/y order), the per-point theorem (x, y, f of the bit-exact model against
   the exact floors, outside the two finding classes), the real-number side (the box of (X,Y,F) is the unique voxel containing
   the point), and the run-time checker with its soundness proof. *)
From Coq Require Import ZArith Reals Lia Lra Floats List Bool String.
From Flocq Require Import Core.
From SID Require Import Base Str Ids F64 ExactRef PointF Voxel PtBridge FF XF YF PtMerc PointCheck.
Import ListNotations.
Open Scope Z_scope.

(* ---------------------------------------------------------------- (1) list structure *)
(* the spatial-ID notation of a voxel with equal zooms: z/f/x/y *)
Definition print_sid (i : eid) : string := join [print (eh i); print (ef i); print (ex i); print (ey i)].

Lemma eid_to_sid_print i : eid_to_sid_str (print_eid i) = Some (print_sid i).
Proof.
  unfold eid_to_sid_str, print_eid. rewrite split_join.
  - reflexivity.
  - discriminate.
  - cbn. rewrite !print_noslash. reflexivity.
Qed.
Lemma eids_to_sids_print r : eids_to_sids (map print_eid r) = Ok (map print_sid r).
Proof.
  unfold eids_to_sids. induction r as [|i r IH]; [reflexivity|]. cbn [map map_opt]. rewrite eid_to_sid_print.
  destruct (map_opt eid_to_sid_str (map print_eid r)); [|discriminate]. injection IH as ->. reflexivity.
Qed.

Lemma Forall2_len {A B} (R : A -> B -> Prop) l r : Forall2 R l r -> List.length l = List.length r.
Proof. induction 1; cbn; congruence. Qed.

Section WithOracle.
  Variable m_tan m_cos m_log : pfloat -> pfloat.
  Notation peid := (point_eid m_tan m_cos m_log).
  Notation peids := (points_eids m_tan m_cos m_log).
  Notation papi := (points_api m_tan m_cos m_log).
  Notation psid := (points_sid_api m_tan m_cos m_log).

  Lemma points_eids_Forall2 l h v r : peids l h v = Some r -> Forall2 (fun p i => peid p h v = Some i) l r.
  Proof.
    revert r. induction l as [|p l IH]; cbn [points_eids]; intros r.
    - intros [= <-]. constructor.
    - destruct (peid p h v) as [i|] eqn:E; [|discriminate]. destruct (peids l h v) as [t|]; [|discriminate].
      intros [= <-]. constructor; [exact E | apply IH; reflexivity].
  Qed.
  Lemma Forall2_points_eids l h v r : Forall2 (fun p i => peid p h v = Some i) l r -> peids l h v = Some r.
  Proof. induction 1 as [|p i l r E _ IH]; cbn [points_eids]; [reflexivity|]. now rewrite E, IH. Qed.

  (* error cases *)
  Theorem points_api_bad_zoom has_nil l h v : ~ (0 <= h <= 35 /\ 0 <= v <= 35) -> papi has_nil l h v = Err.
  Proof.
    intros H. unfold points_api.
    destruct (check_zoom h) eqn:Eh; destruct (check_zoom v) eqn:Ev; try reflexivity.
    exfalso. apply H. split; apply check_zoom_spec; assumption.
  Qed.
  Theorem points_api_nil_point l h v : papi true l h v = Err.
  Proof. unfold points_api. destruct (negb (check_zoom h && check_zoom v)); reflexivity. Qed.
  Theorem points_sid_api_bad_zoom has_nil l z : ~ 0 <= z <= 35 -> psid has_nil l z = Err.
  Proof. intros H. unfold points_sid_api. rewrite points_api_bad_zoom by tauto. reflexivity. Qed.
  Theorem points_sid_api_nil_point l z : psid true l z = Err.
  Proof. unfold points_sid_api. now rewrite points_api_nil_point. Qed.

  (* success: one ID per point, in the order of the input *)
  Theorem points_api_ok l h v ids : papi false l h v = Ok ids ->
    (0 <= h <= 35 /\ 0 <= v <= 35) /\
    exists r, Forall2 (fun p i => peid p h v = Some i) l r /\ ids = map print_eid r.
  Proof.
    unfold points_api. destruct (check_zoom h) eqn:Eh; [|discriminate]. destruct (check_zoom v) eqn:Ev; [|discriminate].
    cbn [andb negb]. destruct (peids l h v) as [r|] eqn:E; [|discriminate]. intros [= <-].
    split; [split; apply check_zoom_spec; assumption|]. exists r. split; [apply points_eids_Forall2, E | reflexivity].
  Qed.
  Theorem points_api_complete l h v r : 0 <= h <= 35 -> 0 <= v <= 35 ->
    Forall2 (fun p i => peid p h v = Some i) l r -> papi false l h v = Ok (map print_eid r).
  Proof.
    intros Hh Hv F. unfold points_api.
    rewrite (proj2 (check_zoom_spec h) Hh), (proj2 (check_zoom_spec v) Hv). cbn [andb negb].
    now rewrite (Forall2_points_eids _ _ _ _ F).
  Qed.
  Corollary points_api_length l h v ids : papi false l h v = Ok ids -> List.length ids = List.length l.
  Proof.
    intros H. destruct (points_api_ok _ _ _ _ H) as (_ & r & F & ->). rewrite map_length. symmetry. eapply Forall2_len, F.
  Qed.
  Corollary points_api_nth l h v ids n p : papi false l h v = Ok ids -> nth_error l n = Some p ->
    exists i, peid p h v = Some i /\ nth_error ids n = Some (print_eid i).
  Proof.
    intros H Hn. destruct (points_api_ok _ _ _ _ H) as (_ & r & F & ->). clear H.
    revert n Hn. induction F as [|q i l r E _ IH]; intros n Hn.
    - destruct n; discriminate.
    - destruct n as [|n]; cbn in *.
      + injection Hn as <-. eauto.
      + apply IH, Hn.
  Qed.
  (* the spatial-ID form: the same voxel at h = v = z, printed z/f/x/y, same length and order *)
  Theorem points_sid_api_ok l z sids : psid false l z = Ok sids ->
    0 <= z <= 35 /\ exists r, Forall2 (fun p i => peid p z z = Some i) l r /\ sids = map print_sid r /\
                              papi false l z z = Ok (map print_eid r).
  Proof.
    unfold points_sid_api. destruct (papi false l z z) as [ids|] eqn:E; [|discriminate].
    destruct (points_api_ok _ _ _ _ E) as ((Hz & _) & r & F & ->). rewrite eids_to_sids_print. intros [= <-].
    split; [exact Hz|]. exists r. auto.
  Qed.
  Corollary points_sid_api_length l z sids : psid false l z = Ok sids -> List.length sids = List.length l.
  Proof.
    intros H. destruct (points_sid_api_ok _ _ _ H) as (_ & r & F & -> & _). rewrite map_length. symmetry. eapply Forall2_len, F.
  Qed.

  (* ---------------------------------------------------------------- per point: the voxel named by the model *)
  (* domain of the property, on the stored floats *)
  Definition pt_domain (p : point) : Prop :=
    ffin (plon p) = true /\ (-180 <= fval (plon p) <= 180)%R /\
    ffin (palt p) = true /\ (Rabs (fval (palt p)) <= bpow radix2 25)%R.

  (* every in-domain point gets an ID whose x is a valid column, whatever the class *)
  Theorem point_x_in_range p h v i : 0 <= h <= 35 -> pt_domain p -> peid p h v = Some i -> eh i = h /\ ev i = v /\ 0 <= ex i < 2 ^ h.
  Proof.
    intros Hh (Fl & Hl & _) E. unfold point_eid in E.
    destruct (x_f_range (plon p) h Hh Fl Hl) as (x & Ex & Hx). rewrite Ex in E.
    destruct (y_f m_tan m_cos m_log (plat p) h); [|discriminate]. destruct (f_f (palt p) v); [|discriminate].
    injection E as <-. cbn. auto.
  Qed.

  (* partial theorem of C01: outside the two finding classes the model's x and f are the exact floors, and y is the floor of
     2^h * m/2 for the float m = 1 - Log(..)/Pi that Go computed (0 <= m < 2 is equivalent to a zoom-35 row inside its range) *)
  Theorem point_eid_partial p h v : 0 <= h <= 35 -> 0 <= v <= 35 -> pt_domain p ->
    ~ x_rounding (fval (plon p)) h -> ~ alt_underflow (palt p) v ->
    ffin (merc_m m_tan m_cos m_log (plat p)) = true -> (0 <= fval (merc_m m_tan m_cos m_log (plat p)) < 2)%R ->
    peid p h v = Some (mk h (X_exact h (fval (plon p)))
                            (Zfloor (bpow radix2 h * (fval (merc_m m_tan m_cos m_log (plat p)) / 2)))
                            v (F_exact v (fval (palt p)))).
  Proof.
    intros Hh Hv (Fl & Hl & Fa & Ha) Cx Cf Fm Hm. unfold point_eid.
    rewrite (x_f_exact_outside_class _ _ Hh Fl Hl Cx).
    rewrite (y_f_inrange m_tan m_cos m_log _ _ Hh Fm Hm).
    rewrite (f_f_exact _ _ Hv Fa); [reflexivity | | exact Cf].
    apply Rle_trans with (1 := Ha). apply bpow_le. lia.
  Qed.
End WithOracle.

(* ---------------------------------------------------------------- valid input never gives an error *)
Section Totality.
  Variable m_tan m_cos m_log : pfloat -> pfloat.
  (* on the documented domain, with a Mercator float m in range, both functions succeed: no error for valid input *)
  Definition pt_ok (p : point) : Prop :=
    pt_domain p /\ ffin (merc_m m_tan m_cos m_log (plat p)) = true /\ (0 <= fval (merc_m m_tan m_cos m_log (plat p)) < 2)%R.
  Lemma point_eid_defined p h v : 0 <= h <= 35 -> 0 <= v <= 35 -> pt_ok p -> exists i, point_eid m_tan m_cos m_log p h v = Some i.
  Proof.
    intros Hh Hv ((Fl & Hl & Fa & Ha) & Fm & Hm). unfold point_eid.
    destruct (x_f_range (plon p) h Hh Fl Hl) as (x & -> & _).
    rewrite (y_f_inrange m_tan m_cos m_log _ _ Hh Fm Hm).
    destruct (f_f_defined (palt p) v Hv Fa) as (f & ->).
    - apply Rle_trans with (1 := Ha). apply bpow_le. lia.
    - eauto.
  Qed.
  Theorem points_api_total l h v : 0 <= h <= 35 -> 0 <= v <= 35 -> Forall pt_ok l ->
    exists ids, points_api m_tan m_cos m_log false l h v = Ok ids /\ List.length ids = List.length l.
  Proof.
    intros Hh Hv F.
    assert (E : exists r, Forall2 (fun p i => point_eid m_tan m_cos m_log p h v = Some i) l r).
    { induction F as [|p l Hp _ (r & IH)]; [exists []; constructor|].
      destruct (point_eid_defined p h v Hh Hv Hp) as (i & Ei). exists (i :: r). constructor; assumption. }
    destruct E as (r & Fr). exists (map print_eid r). split.
    - apply points_api_complete; assumption.
    - rewrite map_length. symmetry. eapply Forall2_len, Fr.
  Qed.
  Theorem points_sid_api_total l z : 0 <= z <= 35 -> Forall pt_ok l ->
    exists sids, points_sid_api m_tan m_cos m_log false l z = Ok sids /\ List.length sids = List.length l.
  Proof.
    intros Hz F. destruct (points_api_total l z z Hz Hz F) as (ids & E & L).
    unfold points_sid_api. rewrite E. destruct (points_api_ok _ _ _ _ _ _ _ E) as (_ & r & Fr & ->).
    rewrite eids_to_sids_print. eexists. split; [reflexivity|]. rewrite map_length in *. exact L.
  Qed.
End Totality.

(* ---------------------------------------------------------------- latitude: from the code's float m to the real Mercator row *)
Section LatitudeTie.
  Variable m_tan m_cos m_log : pfloat -> pfloat.
  Notation yf := (y_f m_tan m_cos m_log).
  Notation mm := (merc_m m_tan m_cos m_log).

  (* one certificate per latitude is enough: if the row at zoom 35 is the real-number row, so is the row at every zoom
     (the float rows are nested by y_f_nested, the real rows by nested_floor).  The premise on the zoom-35 row is what the
     meta step latcert certifies per sampled latitude with CoqInterval. *)
  Theorem y_f_all_zooms_from_35 lat (latR : R) : ffin (mm lat) = true -> (Rabs (fval (mm lat)) <= 4)%R ->
    (Rabs latR <= lat_limit)%R -> yf lat 35 = Some (Y_exact 35 latR) ->
    forall h, 0 <= h <= 35 -> yf lat h = Some (Y_exact h latR) /\ 0 <= Y_exact h latR < 2 ^ h.
  Proof.
    intros Fm Bm Hl Y35 h Hh.
    pose proof (Y_exact_range 35 latR ltac:(lia) Hl) as R35.
    destruct (y_f_nested m_tan m_cos m_log lat _ Fm Bm Y35 R35 h Hh) as [E _].
    assert (N : Y_exact h latR = anc (35 - h) (Y_exact 35 latR)) by (unfold Y_exact; apply nested_floor; lia).
    rewrite N. split; [exact E|]. rewrite <- N. apply Y_exact_range; [lia | exact Hl].
  Qed.

  (* where the tolerance band of the certificates comes from: if the code's m/2 is within 2^-45 of the real Mercator fraction,
     the row is in range, at most one row away from the real-number row, and equal to it unless the real position is within
     2^(h-45) rows of a row boundary (run-time class y_rounding of the step latcert).  The premise is a statement about Go's libm:
     it is not proved; the step latcert checks its consequence on the sampled latitudes. *)
  Definition y_rounding (latR : R) (h : Z) : Prop :=
    Zfloor (bpow radix2 h * wfrac latR - bpow radix2 (h - 45)) <> Zfloor (bpow radix2 h * wfrac latR + bpow radix2 (h - 45)).
  Theorem y_f_close lat (latR : R) h : 0 <= h <= 35 -> ffin (mm lat) = true -> (Rabs latR <= lat_limit)%R ->
    (Rabs (fval (mm lat) / 2 - wfrac latR) <= bpow radix2 (-45))%R ->
    exists y, yf lat h = Some y /\ 0 <= y < 2 ^ h /\ Y_exact h latR - 1 <= y <= Y_exact h latR + 1 /\
              (~ y_rounding latR h -> y = Y_exact h latR).
  Proof.
    intros Hh Fm Hl Hc. pose proof (wfrac_range latR Hl) as [W0 W1].
    assert (B45 : (0 < bpow radix2 (-45) < 1 / 10 ^ 13)%R).
    { split; [apply bpow_gt_0|]. replace (bpow radix2 (-45)) with (/ 35184372088832)%R by (simpl; lra). lra. }
    apply Rabs_le_inv in Hc. set (w := wfrac latR) in *. set (u := (fval (mm lat) / 2)%R) in *.
    assert (U : (0 < u < 1)%R) by lra.
    assert (M : (0 <= fval (mm lat) < 2)%R) by (unfold u in U; lra).
    exists (Zfloor (bpow radix2 h * u)). split; [apply y_f_inrange; assumption|].
    assert (Ph : (0 < bpow radix2 h)%R) by apply bpow_gt_0.
    assert (Eb : bpow radix2 (h - 45) = (bpow radix2 h * bpow radix2 (-45))%R) by (rewrite <- bpow_plus; f_equal).
    assert (D1 : (bpow radix2 h * bpow radix2 (-45) < 1)%R).
    { rewrite <- bpow_plus. change 1%R with (bpow radix2 0). apply bpow_lt. lia. }
    set (t := (bpow radix2 h * w)%R). set (t' := (bpow radix2 h * u)%R).
    assert (T : (t - bpow radix2 (h - 45) <= t' <= t + bpow radix2 (h - 45))%R) by (rewrite Eb; unfold t, t'; nra).
    fold (Y_exact h latR). fold w. fold t. unfold Y_exact. fold w. fold t.
    split; [|split].
    - split.
      + apply Zfloor_lub. simpl. unfold t'. nra.
      + apply lt_IZR. apply Rle_lt_trans with t'; [apply Zfloor_lb|]. rewrite IZR_pow2 by lia. unfold t'. nra.
    - rewrite Eb in T. split.
      + replace (Zfloor t - 1) with (Zfloor (t + IZR (-1))) by (rewrite Zfloor_shift; lia). apply Zfloor_le. simpl. lra.
      + rewrite <- Zfloor_shift. apply Zfloor_le. simpl. lra.
    - unfold y_rounding. fold w. fold t. intros C. apply Decidable.not_not in C; [|apply Z.eq_decidable].
      assert (I2 : (t - bpow radix2 (h - 45) <= t <= t + bpow radix2 (h - 45))%R) by (pose proof (bpow_gt_0 radix2 (h - 45)); lra).
      rewrite (floor_squeeze _ _ _ T C). symmetry. apply (floor_squeeze _ _ _ I2 C).
  Qed.
End LatitudeTie.

(* ---------------------------------------------------------------- (4) the real-number side *)
(* a geographic point (degrees, degrees, metres) in the normalised coordinates of Voxel.inR *)
Definition norm_pt (lon lat alt : R) : pt := (ufrac lon, wfrac lat, (alt / bpow radix2 25)%R).
Definition voxel_of (h v : Z) (lon lat alt : R) : eid := mk h (X_exact h lon) (Y_exact h lat) v (F_exact v alt).

(* among the voxels of zooms (h, v), the one named by the three floors is the one and only voxel that contains the point *)
Theorem voxel_of_unique h v lon lat alt i : eh i = h -> ev i = v ->
  (inR i (norm_pt lon lat alt) <-> i = voxel_of h v lon lat alt).
Proof.
  intros Eh Ev. unfold inR, norm_pt, voxel_of. rewrite Eh, Ev. fold (X_exact h lon). fold (Y_exact h lat).
  rewrite <- F_exact_norm. split.
  - intros (X & Y & F). destruct i as [a b c d e]. cbn in *. subst. reflexivity.
  - intros ->. cbn. auto.
Qed.
Theorem voxel_of_contains h v lon lat alt : inR (voxel_of h v lon lat alt) (norm_pt lon lat alt).
Proof. apply (voxel_of_unique h v lon lat alt); reflexivity. Qed.
(* and it is a valid ID on the documented domain (the top altitude 2^25 itself is the first cell above the grid) *)
Theorem voxel_of_valid h v lon lat alt : 0 <= h <= 35 -> 0 <= v <= 35 ->
  (-180 <= lon <= 180)%R -> (Rabs lat <= lat_limit)%R -> (- bpow radix2 25 <= alt < bpow radix2 25)%R ->
  valid (voxel_of h v lon lat alt).
Proof.
  intros Hh Hv Hl Hp Ha. unfold valid, voxel_of. cbn.
  pose proof (X_exact_range h lon ltac:(lia) Hl). pose proof (Y_exact_range h lat ltac:(lia) Hp).
  pose proof (F_exact_range v alt ltac:(lia) Ha). lia.
Qed.
(* the rows / columns / layers of one point at two zooms are nested *)
Theorem voxel_of_nested h h' v v' lon lat alt : 0 <= h <= h' -> 0 <= v <= v' ->
  ex (voxel_of h v lon lat alt) = anc (h' - h) (ex (voxel_of h' v' lon lat alt)) /\
  ey (voxel_of h v lon lat alt) = anc (h' - h) (ey (voxel_of h' v' lon lat alt)) /\
  ef (voxel_of h v lon lat alt) = anc (v' - v) (ef (voxel_of h' v' lon lat alt)).
Proof.
  intros Hh Hv. cbn. unfold X_exact, Y_exact. rewrite !F_exact_norm. repeat split; apply nested_floor; lia.
Qed.

(* ---------------------------------------------------------------- the run-time checker and its soundness *)
(* what C01 demands of one returned ID, given the stored point: requested zooms, exact x and f, y inside its range *)
Definition point_id_spec (p : point) (h v : Z) (s : string) : Prop :=
  exists i, parse_eid s = Some i /\ eh i = h /\ ev i = v /\
            ex i = X_exact h (fval (plon p)) /\ ef i = F_exact v (fval (palt p)) /\ 0 <= ey i < 2 ^ h /\ 0 <= ex i < 2 ^ h.
Theorem check_point_id_sound p h v s : 0 <= h -> ffin (plon p) = true -> ffin (palt p) = true ->
  check_point_id p h v s = true <-> point_id_spec p h v s.
Proof.
  intros Hh Fl Fa. unfold check_point_id, point_id_spec.
  rewrite (exact_x_spec _ _ Hh Fl), (exact_f_spec _ v Fa).
  destruct (parse_eid s) as [i|]; [|split; [discriminate | intros (i & E & _); discriminate]].
  rewrite !andb_true_iff, !Z.eqb_eq, !Z.leb_le, !Z.ltb_lt. split.
  - intros H. exists i. intuition.
  - intros (j & [= <-] & H). intuition.
Qed.
(* same length, same order *)
Theorem check_point_ids_sound ps h v o : 0 <= h ->
  Forall (fun p => ffin (plon p) = true /\ ffin (palt p) = true) ps ->
  check_point_ids ps h v o = true <-> Forall2 (fun p s => point_id_spec p h v s) ps o.
Proof.
  intros Hh F. revert o. induction F as [|p ps [Fl Fa] _ IH]; intros o.
  - destruct o; cbn; split; try discriminate; try constructor. intros H; inversion H.
  - destruct o as [|s o]; cbn [check_point_ids].
    + split; [discriminate | intros H; inversion H].
    + rewrite andb_true_iff, (check_point_id_sound p h v s Hh Fl Fa), IH. split.
      * intros [A B]. constructor; assumption.
      * intros H. inversion H; subst. auto.
Qed.

(* non-vacuity of the hypotheses of point_eid_partial: the point (0, 0, 1 m) at zooms (0, 25) *)
Example pt_domain_example : exists p, pt_domain p /\ ~ x_rounding (fval (plon p)) 0 /\ ~ alt_underflow (palt p) 25.
Proof.
  exists {| plon := 0%float; plat := 0%float; palt := 1%float |}. cbn [plon plat palt].
  destruct zero_val as [Z0 F0]. destruct c1_val as [V1 F1].
  split; [|split].
  - unfold pt_domain. cbn [plon palt]. rewrite Z0, V1, F0, F1, Rabs_R1.
    repeat split; try lra. change 1%R with (bpow radix2 0). apply bpow_le. lia.
  - rewrite Z0. unfold x_rounding, ufrac, lon_fold. rewrite Req_bool_false by lra.
    assert (D : (0 < bpow radix2 (0 - 52) < / 4)%R).
    { split; [apply bpow_gt_0|]. apply Rlt_le_trans with (bpow radix2 (-2)); [apply bpow_lt; lia | simpl; lra]. }
    simpl (bpow radix2 0). intros C. apply C.
    rewrite (Zfloor_imp 0), (Zfloor_imp 0); [reflexivity | simpl; lra | simpl; lra].
  - unfold alt_underflow. rewrite V1, Rabs_R1. intros [_ C].
    assert (bpow radix2 (-997 - 25) < 1)%R; [|lra]. change 1%R with (bpow radix2 0). apply bpow_lt. lia.
Qed.
