(* GridTie18.v — ties C18's "the projection the ID grid of C01 is built on" to C01's OWN definitions:
   PtMerc.mfrac / PtMerc.wfrac / PtMerc.Y_exact (latitude axis) and XF.ufrac / XF.lon_fold / XF.X_exact (longitude axis, with the
   fold of longitude 180 onto -180). MercatorR18 carries private copies of the fractions for its own lemmas; this file proves them equal
   to C01's, and restates the identification on C01's objects. *)
From Coq Require Import ZArith Reals Lra.
From Flocq Require Import Core.
From SID Require MercatorR18 PtMerc XF.
Open Scope R_scope.

Lemma mfrac_is_C01 phi : MercatorR18.mfrac phi = PtMerc.mfrac phi.
Proof. reflexivity. Qed.
Lemma rad_is_C01 lat : MercatorR18.rad lat = lat * (PI / 180).
Proof. unfold MercatorR18.rad. pose proof PI_RGT_0. field. Qed.
(* away from the fold, C01's longitude fraction is the private copy; AT longitude 180 it is not: xfrac 180 = 1, ufrac 180 = 0 *)
Lemma ufrac_is_xfrac_of_fold lon : XF.ufrac lon = MercatorR18.xfrac (XF.lon_fold lon).
Proof. reflexivity. Qed.
Lemma lon_fold_id lon : lon <> 180 -> XF.lon_fold lon = lon.
Proof. intros H. unfold XF.lon_fold. destruct (Req_bool_spec lon 180); [contradiction | reflexivity]. Qed.
Lemma lon_fold_180 : XF.lon_fold 180 = -180.
Proof. unfold XF.lon_fold. rewrite Req_bool_true by reflexivity. reflexivity. Qed.

(* C01's row and column fractions are the EPSG:3857 coordinates divided by the half-width PI*R of the projected square and mapped
   to [0,1]; for the column, of the FOLDED longitude (180 is identified with -180: the east edge x = +PI*R is the west edge) *)
Theorem grid_of_C01_is_epsg3857 lon lat :
  PtMerc.wfrac lat = (1 - MercatorR18.merc_y (MercatorR18.rad lat) / (PI * MercatorR18.Rearth)) / 2 /\
  XF.ufrac lon = (1 + MercatorR18.merc_x (MercatorR18.rad (XF.lon_fold lon)) / (PI * MercatorR18.Rearth)) / 2 /\
  (lon <> 180 -> XF.lon_fold lon = lon) /\ XF.lon_fold 180 = -180.
Proof.
  split; [|split; [|split; [apply lon_fold_id | apply lon_fold_180]]].
  - unfold PtMerc.wfrac. rewrite <- rad_is_C01, <- mfrac_is_C01. apply MercatorR18.grid_row_is_mercator.
  - rewrite ufrac_is_xfrac_of_fold. apply MercatorR18.grid_col_is_mercator.
Qed.
(* hence C01's exact indices are the floors of the scaled EPSG:3857 coordinates *)
Theorem grid_indices_of_C01 h lon lat :
  PtMerc.Y_exact h lat =
    Zfloor (bpow radix2 h * ((1 - MercatorR18.merc_y (MercatorR18.rad lat) / (PI * MercatorR18.Rearth)) / 2)) /\
  XF.X_exact h lon =
    Zfloor (bpow radix2 h * ((1 + MercatorR18.merc_x (MercatorR18.rad (XF.lon_fold lon)) / (PI * MercatorR18.Rearth)) / 2)).
Proof.
  destruct (grid_of_C01_is_epsg3857 lon lat) as (E1 & E2 & _). unfold PtMerc.Y_exact, XF.X_exact. now rewrite E1, E2.
Qed.
