(* GenEqFSPoint.v — common/spatial/point3.go (IsClose, Translate, DistancePoint) regenerated = VecF.v. Not regenerated: UniqueAppend, MaxPoint, MinPoint. *)
From Coq Require Import ZArith Bool Floats.
From SIDGen Require Import GeneratedF GeneratedFS.
From SID Require Import F64 VecF GenFTac GenEqFSTac.
Open Scope float_scope.

(* point3.go *)
Lemma gen_Point3_IsClose_eq : forall p q eps, GeneratedFS.Point3_IsClose (tv p) (tv q) eps = fis_close p q eps.
Proof. gen_fs ltac:(unfold fis_close, almost_equal). Qed.
Lemma gen_Point3_Translate_eq : forall p a, GeneratedFS.Point3_Translate (tv p) (tv a) = tv (ftranslate p a).
Proof. gen_fs ltac:(unfold ftranslate, fadd). Qed.
Lemma gen_Point3_DistancePoint_eq : forall M p q, GeneratedFS.Point3_DistancePoint M (tv p) (tv q) = fdistance (m_hypot M) p q.
Proof. gen_fs ltac:(unfold fdistance, fvec_from_points, fsub, fnorm). Qed.

