(* West.v — C02: the longitude and altitude edges of a voxel are computed by the float code with no rounding at all,
   for every zoom 0..35 and every index; hence equal to the real-number box edges, shared faces are bit-identical,
   the centre is the exact midpoint and converting it back gives the original column and vertical index. *)
From Coq Require Import ZArith Reals Lia Lra Floats List Bool Psatz.
From Flocq Require Import Core BinarySingleNaN.
From Flocq Require PrimFloat.
From SID Require Import Base F64 PointF VertexF VxBridge.
Import ListNotations.
Open Scope Z_scope.

(* ---- the float expressions of getVertexOnVoxelOffset / getAltitudeOnVerticalIndexAndZoom ---- *)
Definition west_of (xf hl : pfloat) : pfloat := (xf * 360 / hl - 180)%float.
Definition east_of (xf hl : pfloat) : pfloat := ((xf + 1) * 360 / hl - 180)%float.
Definition westf (h x : Z) : pfloat := west_of (of_Z x) (pow2f h).
Definition eastf (h x : Z) : pfloat := east_of (of_Z x) (pow2f h).
Definition bottomf (v f : Z) : pfloat := valt f v.
Definition topf (v f : Z) : pfloat := (valt f v + vres v)%float.
Definition mid (a b : pfloat) : pfloat := ((a + b) / 2)%float.
Definition clonf (h x : Z) : pfloat := mid (eastf h x) (westf h x).
Definition caltf (v f : Z) : pfloat := mid (topf v f) (bottomf v f).

(* ---- literals ---- *)
Lemma isR_360 : isR 360%float 360%R.  Proof. apply (lit_isR _ 360); [lia | vm_compute; reflexivity]. Qed.
Lemma isR_180 : isR 180%float 180%R.  Proof. apply (lit_isR _ 180); [lia | vm_compute; reflexivity]. Qed.
Lemma isR_1 : isR 1%float 1%R.        Proof. apply (lit_isR _ 1); [lia | vm_compute; reflexivity]. Qed.
Lemma isR_2 : isR 2%float 2%R.        Proof. apply (lit_isR _ 2); [lia | vm_compute; reflexivity]. Qed.
Lemma isR_0 : isR 0%float 0%R.        Proof. apply (lit_isR _ 0); [lia | vm_compute; reflexivity]. Qed.

Ltac dy :=
  unfold dyR; repeat (rewrite ?plus_IZR, ?minus_IZR, ?mult_IZR, ?opp_IZR); rewrite ?IZR_pow2 by lia;
  rewrite ?bpow_opp; change (bpow radix2 0) with 1%R; try (field; apply Rgt_not_eq, bpow_gt_0); try ring.

Lemma pow_le35 h : 0 <= h <= 35 -> 0 < 2 ^ h <= 2 ^ 35.
Proof. intros H. split; [apply Z.pow_pos_nonneg; lia | apply Z.pow_le_mono_r; lia]. Qed.

(* ---- longitude ---- *)
(* x * 360 / 2^h - 180, every step exact (also for x = 2^h: the east edge of the last column) *)
Lemma west_of_isR h x xf : 0 <= h <= 35 -> 0 <= x <= 2 ^ h -> isR xf (IZR x) ->
  isR (west_of xf (pow2f h)) (IZR (360 * x - 180 * 2 ^ h) / IZR (2 ^ h)).
Proof.
  intros Hh Hx Hxf. pose proof (pow_le35 h Hh) as Hp. change (2 ^ 35) with 34359738368 in Hp.
  pose proof (pow2f_isR h ltac:(lia)) as Hhl.
  pose proof (mul_exact _ _ _ _ Hxf isR_360 (360 * x) 0 ltac:(dy) ltac:(lia) ltac:(lia)) as H1.
  assert (Nz : bpow radix2 h <> 0%R) by (apply Rgt_not_eq, bpow_gt_0).
  pose proof (div_exact _ _ _ _ H1 Hhl (360 * x) (- h) Nz ltac:(dy) ltac:(lia) ltac:(lia)) as H2.
  pose proof (sub_exact _ _ _ _ H2 isR_180 (360 * x - 180 * 2 ^ h) (- h) ltac:(dy) ltac:(lia) ltac:(lia)) as H3.
  unfold west_of. replace (IZR (360 * x - 180 * 2 ^ h) / IZR (2 ^ h))%R with (IZR x * 360 / bpow radix2 h - 180)%R; [exact H3|].
  dy.
Qed.

Lemma succ_isR x xf : 0 <= x < 2 ^ 52 -> isR xf (IZR x) -> isR (xf + 1)%float (IZR (x + 1)).
Proof.
  intros Hx Hxf. assert (2 ^ 52 < 2 ^ 53) by (apply Z.pow_lt_mono_r; lia).
  rewrite plus_IZR. apply (add_exact _ _ _ _ Hxf isR_1 (x + 1) 0); [dy | lia | lia].
Qed.

Lemma east_of_isR h x xf : 0 <= h <= 35 -> 0 <= x < 2 ^ h -> isR xf (IZR x) ->
  isR (east_of xf (pow2f h)) (IZR (360 * (x + 1) - 180 * 2 ^ h) / IZR (2 ^ h)).
Proof.
  intros Hh Hx Hxf. pose proof (pow_le35 h Hh) as Hp. change (east_of xf (pow2f h)) with (west_of (xf + 1)%float (pow2f h)).
  apply west_of_isR; [exact Hh | lia |]. apply succ_isR; [|exact Hxf].
  assert (2 ^ 35 < 2 ^ 52) by (apply Z.pow_lt_mono_r; lia). lia.
Qed.

Lemma of_Z_small z : Z.abs z <= 2 ^ 36 -> isR (of_Z z) (IZR z).
Proof. intros H. apply of_Z_isR. assert (2 ^ 36 < 2 ^ 53) by (apply Z.pow_lt_mono_r; lia). lia. Qed.

Theorem westf_isR h x : 0 <= h <= 35 -> 0 <= x <= 2 ^ h -> isR (westf h x) (IZR (360 * x - 180 * 2 ^ h) / IZR (2 ^ h)).
Proof.
  intros Hh Hx. apply west_of_isR; try assumption. apply of_Z_small.
  pose proof (pow_le35 h Hh). assert (2 ^ 35 < 2 ^ 36) by (apply Z.pow_lt_mono_r; lia). lia.
Qed.
Theorem eastf_isR h x : 0 <= h <= 35 -> 0 <= x < 2 ^ h -> isR (eastf h x) (IZR (360 * (x + 1) - 180 * 2 ^ h) / IZR (2 ^ h)).
Proof.
  intros Hh Hx. apply east_of_isR; try assumption. apply of_Z_small.
  pose proof (pow_le35 h Hh). assert (2 ^ 35 < 2 ^ 36) by (apply Z.pow_lt_mono_r; lia). lia.
Qed.

(* the same real numbers in the customary form *)
Lemma west_value h x : 0 <= h -> (IZR (360 * x - 180 * 2 ^ h) / IZR (2 ^ h) = IZR x * 360 / IZR (2 ^ h) - 180)%R.
Proof. intros Hh. pose proof (pow2R_pos h Hh). rewrite minus_IZR, !mult_IZR. field. lra. Qed.

(* east(x) and west(x+1) are the same float *)
Theorem east_is_next_west h x : 0 <= h <= 35 -> 0 <= x -> x + 1 < 2 ^ h -> eastf h x = westf h (x + 1).
Proof.
  intros Hh Hx Hx1. unfold eastf, westf. change (east_of (of_Z x) (pow2f h)) with (west_of (of_Z x + 1)%float (pow2f h)).
  f_equal. pose proof (pow_le35 h Hh). assert (2 ^ 35 < 2 ^ 36) by (apply Z.pow_lt_mono_r; lia).
  assert (2 ^ 36 < 2 ^ 52) by (apply Z.pow_lt_mono_r; lia).
  apply isR_inj with (IZR (x + 1)).
  - apply succ_isR; [lia|]. apply of_Z_small. lia.
  - apply of_Z_small. lia.
  - apply not_0_IZR. lia.
Qed.

(* ---- altitude ---- *)
Lemma vres_isR v : 0 <= v <= 35 -> isR (vres v) (bpow radix2 (25 - v)).
Proof.
  intros Hv. unfold vres.
  pose proof (pow2f_isR 25 ltac:(lia)) as H25. pose proof (pow2f_isR v ltac:(lia)) as Hpv.
  assert (Nz : bpow radix2 v <> 0%R) by (apply Rgt_not_eq, bpow_gt_0).
  replace (bpow radix2 (25 - v)) with (bpow radix2 25 / bpow radix2 v)%R.
  - apply (div_exact _ _ _ _ H25 Hpv 1 (25 - v) Nz); [|lia|lia].
    unfold dyR, Zminus. rewrite bpow_plus, bpow_opp. field. exact Nz.
  - unfold Zminus. rewrite bpow_plus, bpow_opp. field. exact Nz.
Qed.

Lemma pow_le35' v : 0 <= v <= 35 -> 0 < 2 ^ v <= 34359738368.
Proof. intros H. pose proof (pow_le35 v H) as P. exact P. Qed.

Theorem bottomf_isR v f : 0 <= v <= 35 -> - 2 ^ v <= f <= 2 ^ v -> isR (bottomf v f) (IZR (f * 2 ^ 25) / IZR (2 ^ v)).
Proof.
  intros Hv Hf. pose proof (pow_le35' v Hv) as Hp. unfold bottomf, valt.
  assert (Hof : isR (of_Z f) (IZR f)) by (apply of_Z_small; change (2 ^ 36) with 68719476736; lia).
  pose proof (mul_exact _ _ _ _ Hof (vres_isR v Hv) f (25 - v) ltac:(reflexivity) ltac:(lia) ltac:(lia)) as H.
  replace (IZR (f * 2 ^ 25) / IZR (2 ^ v))%R with (IZR f * bpow radix2 (25 - v))%R; [exact H|].
  rewrite mult_IZR, !IZR_pow2 by lia. unfold Zminus. rewrite bpow_plus, bpow_opp. field. apply Rgt_not_eq, bpow_gt_0.
Qed.

Theorem topf_isR v f : 0 <= v <= 35 -> - 2 ^ v <= f < 2 ^ v -> isR (topf v f) (IZR ((f + 1) * 2 ^ 25) / IZR (2 ^ v)).
Proof.
  intros Hv Hf. pose proof (pow_le35' v Hv) as Hp. unfold topf, valt.
  assert (Hof : isR (of_Z f) (IZR f)) by (apply of_Z_small; change (2 ^ 36) with 68719476736; lia).
  pose proof (mul_exact _ _ _ _ Hof (vres_isR v Hv) f (25 - v) ltac:(reflexivity) ltac:(lia) ltac:(lia)) as H.
  pose proof (add_exact _ _ _ _ H (vres_isR v Hv) (f + 1) (25 - v) ltac:(unfold dyR; rewrite plus_IZR; ring) ltac:(lia) ltac:(lia)) as H2.
  replace (IZR ((f + 1) * 2 ^ 25) / IZR (2 ^ v))%R with (IZR f * bpow radix2 (25 - v) + bpow radix2 (25 - v))%R; [exact H2|].
  rewrite mult_IZR, plus_IZR, !IZR_pow2 by lia. unfold Zminus. rewrite bpow_plus, bpow_opp. field. apply Rgt_not_eq, bpow_gt_0.
Qed.

(* ---- midpoints ---- *)
Lemma mid_isR a b (m e : Z) : isR a (dyR m e) -> forall m', isR b (dyR m' e) -> Z.abs (m + m') < 2 ^ 53 -> -1000 <= e <= 900 ->
  isR (mid a b) (dyR (m + m') (e - 1)).
Proof.
  intros Ha m' Hb Hm He.
  pose proof (add_exact _ _ _ _ Ha Hb (m + m') e ltac:(unfold dyR; rewrite plus_IZR; ring) Hm ltac:(lia)) as H1.
  assert (E : (dyR m e + dyR m' e = dyR (m + m') e)%R) by (unfold dyR; rewrite plus_IZR; ring).
  rewrite E in H1.
  assert (D : (dyR (m + m') e / 2 = dyR (m + m') (e - 1))%R).
  { unfold dyR, Zminus. rewrite bpow_plus. change (bpow radix2 (- (1))) with (/ 2)%R. field. }
  rewrite <- D. apply (div_exact _ _ _ _ H1 isR_2 (m + m') (e - 1)); [lra | exact D | exact Hm | lia].
Qed.

Lemma dy_of_frac n k : 0 <= k -> (IZR n / IZR (2 ^ k))%R = dyR n (- k).
Proof. exact (dyR_div n k). Qed.

Theorem clonf_isR h x : 0 <= h <= 35 -> 0 <= x < 2 ^ h -> isR (clonf h x) (IZR (180 * (2 * x + 1) - 180 * 2 ^ h) / IZR (2 ^ h)).
Proof.
  intros Hh Hx. pose proof (pow_le35' h Hh) as Hp.
  pose proof (eastf_isR h x Hh Hx) as He. pose proof (westf_isR h x Hh ltac:(lia)) as Hw.
  rewrite dy_of_frac in He, Hw by lia.
  pose proof (mid_isR _ _ _ _ He _ Hw ltac:(lia) ltac:(lia)) as H.
  unfold clonf. replace (IZR (180 * (2 * x + 1) - 180 * 2 ^ h) / IZR (2 ^ h))%R
    with (dyR (360 * (x + 1) - 180 * 2 ^ h + (360 * x - 180 * 2 ^ h)) (- h - 1)); [exact H|].
  unfold dyR, Zminus. rewrite bpow_plus, bpow_opp. change (bpow radix2 (- (1))) with (/ 2)%R.
  rewrite <- IZR_pow2 by lia.
  replace (360 * (x + 1) + - (180 * 2 ^ h) + (360 * x + - (180 * 2 ^ h))) with (2 * (180 * (2 * x + 1) + - (180 * 2 ^ h))) by ring.
  rewrite (mult_IZR 2). pose proof (pow2R_pos h ltac:(lia)). field. lra.
Qed.

Theorem caltf_isR v f : 0 <= v <= 35 -> - 2 ^ v <= f < 2 ^ v -> isR (caltf v f) (IZR ((2 * f + 1) * 2 ^ 25) / IZR (2 ^ (v + 1))).
Proof.
  intros Hv Hf. pose proof (pow_le35' v Hv) as Hp.
  pose proof (topf_isR v f Hv Hf) as Ht. pose proof (bottomf_isR v f Hv ltac:(lia)) as Hb.
  assert (T : (IZR ((f + 1) * 2 ^ 25) / IZR (2 ^ v))%R = dyR (f + 1) (25 - v)).
  { unfold dyR. rewrite mult_IZR, !IZR_pow2 by lia. unfold Zminus. rewrite bpow_plus, bpow_opp. field. apply Rgt_not_eq, bpow_gt_0. }
  assert (B : (IZR (f * 2 ^ 25) / IZR (2 ^ v))%R = dyR f (25 - v)).
  { unfold dyR. rewrite mult_IZR, !IZR_pow2 by lia. unfold Zminus. rewrite bpow_plus, bpow_opp. field. apply Rgt_not_eq, bpow_gt_0. }
  rewrite T in Ht. rewrite B in Hb.
  pose proof (mid_isR _ _ _ _ Ht _ Hb ltac:(lia) ltac:(lia)) as H.
  unfold caltf. replace (IZR ((2 * f + 1) * 2 ^ 25) / IZR (2 ^ (v + 1)))%R with (dyR (f + 1 + f) (25 - v - 1)); [exact H|].
  unfold dyR. rewrite mult_IZR, !IZR_pow2 by lia. replace (f + 1 + f) with (2 * f + 1) by ring.
  replace (25 - v - 1) with (25 + - (v + 1)) by ring. rewrite bpow_plus, bpow_opp. field. apply Rgt_not_eq, bpow_gt_0.
Qed.

(* top(f) and bottom(f+1) are the same float (for f = -1 both are +0: checked by evaluation at the 36 zooms) *)
Definition sf_eqb (a b : spec_float) : bool :=
  match a, b with
  | S754_zero s, S754_zero t => Bool.eqb s t
  | S754_infinity s, S754_infinity t => Bool.eqb s t
  | S754_nan, S754_nan => true
  | S754_finite s m e, S754_finite t n g => Bool.eqb s t && Pos.eqb m n && Z.eqb e g
  | _, _ => false
  end.
Lemma sf_eqb_eq a b : sf_eqb a b = true -> a = b.
Proof.
  destruct a as [s|s| |s m e], b as [t|t| |t n g]; cbn; try discriminate; try reflexivity.
  - intros H. apply Bool.eqb_prop in H. now subst.
  - intros H. apply Bool.eqb_prop in H. now subst.
  - rewrite !andb_true_iff. intros [[H1 H2] H3]. apply Bool.eqb_prop in H1. apply Pos.eqb_eq in H2. apply Z.eqb_eq in H3. now subst.
Qed.
Lemma float_eq_of_sf (a b : pfloat) : sf_eqb (Prim2SF a) (Prim2SF b) = true -> a = b.
Proof. intros H. apply Prim2SF_inj. now apply sf_eqb_eq. Qed.

Definition zooms : list Z := map Z.of_nat (seq 0 36).
Lemma in_zooms v : 0 <= v <= 35 -> In v zooms.
Proof. intros H. unfold zooms. apply in_map_iff. exists (Z.to_nat v). split; [lia|]. apply in_seq. lia. Qed.
Lemma top_m1_all : forallb (fun v => sf_eqb (Prim2SF (topf v (-1))) (Prim2SF (bottomf v 0))) zooms = true.
Proof. vm_compute. reflexivity. Qed.

Theorem top_is_next_bottom v f : 0 <= v <= 35 -> - 2 ^ v <= f < 2 ^ v -> topf v f = bottomf v (f + 1).
Proof.
  intros Hv Hf. destruct (Z.eq_dec f (-1)) as [->|Nf].
  - apply float_eq_of_sf. exact (proj1 (forallb_forall _ _) top_m1_all v (in_zooms v Hv)).
  - apply isR_inj with (IZR ((f + 1) * 2 ^ 25) / IZR (2 ^ v))%R.
    + now apply topf_isR.
    + apply bottomf_isR; [exact Hv | lia].
    + pose proof (pow2R_pos v ltac:(lia)). pose proof (pow_le35' v Hv).
      intros E. apply Rmult_eq_compat_r with (r := IZR (2 ^ v)) in E. unfold Rdiv in E.
      rewrite Rmult_assoc, Rinv_l, Rmult_1_r, Rmult_0_l in E by lra. apply eq_IZR in E. nia.
Qed.

(* ---- math.Floor on a non-zero value below 2^52 ---- *)
Lemma isR_two52 : isR two52 (IZR (2 ^ 52)).
Proof. apply (lit_isR _ (2 ^ 52)); [change (2 ^ 53) with (2 * 2 ^ 52); lia | vm_compute; reflexivity]. Qed.

Lemma ffloor_eq f r : isR f r -> r <> 0%R -> (Rabs r < IZR (2 ^ 52))%R -> ffloor f = of_Z (Zfloor r).
Proof.
  intros Hf Nz Hs. unfold ffloor.
  rewrite (eqb_false _ _ _ _ Hf isR_0 Nz).
  rewrite (Ffin_not_nan f (proj2 Hf)), (Ffin_not_inf f (proj2 Hf)).
  rewrite (leb_false _ _ _ _ isR_two52 (abs_isR _ _ Hf) Hs). cbn [orb].
  now rewrite (Zfloor_f_isR f r Hf).
Qed.

Lemma Zfloor_half n : Zfloor (dyR (2 * n + 1) (-1)) = n.
Proof.
  apply Zfloor_imp. unfold dyR. change (bpow radix2 (-1)) with (/ 2)%R. rewrite !plus_IZR, mult_IZR. split; lra.
Qed.

(* int64(x) on an integral float *)
Lemma Ztrunc_of_Z z : Z.abs z <= 2 ^ 36 -> Ztrunc_f (of_Z z) = Some z.
Proof.
  intros Hz. pose proof (of_Z_small z Hz) as H. unfold Ztrunc_f.
  destruct (Z_lt_le_dec z 0) as [Neg|Pos].
  - rewrite (ltb_true _ _ _ _ H isR_0) by (apply IZR_lt; lia).
    unfold Zceil_f. rewrite (Zfloor_f_isR _ _ (opp_isR _ _ H)). cbn. rewrite <- opp_IZR, Zfloor_IZR. f_equal. lia.
  - rewrite (ltb_false _ _ _ _ H isR_0) by (apply IZR_le; lia).
    rewrite (Zfloor_f_isR _ _ H), Zfloor_IZR. reflexivity.
Qed.

(* ---- round trip on the longitude axis: the column of the centre longitude is x ---- *)
Theorem x_of_centre h x : 0 <= h <= 35 -> 0 <= x < 2 ^ h -> x_f (clonf h x) h = Some x.
Proof.
  intros Hh Hx. pose proof (pow_le35' h Hh) as Hp.
  pose proof (clonf_isR h x Hh Hx) as Hc. set (c := clonf h x) in *.
  pose proof (pow2R_pos h ltac:(lia)) as Hpr.
  set (rc := (IZR (180 * (2 * x + 1) - 180 * 2 ^ h) / IZR (2 ^ h))%R) in *.
  assert (Ec : rc = dyR (180 * (2 * x + 1) - 180 * 2 ^ h) (- h)) by (apply dy_of_frac; lia).
  assert (Lt180 : (rc < 180)%R).
  { unfold rc. apply Rmult_lt_reg_r with (IZR (2 ^ h)); [exact Hpr|]. unfold Rdiv. rewrite Rmult_assoc, Rinv_l, Rmult_1_r by lra.
    rewrite <- (mult_IZR 180). apply IZR_lt. lia. }
  unfold x_f. rewrite (eqb_false _ _ _ _ Hc isR_180) by lra.
  (* lon + 180 *)
  pose proof (add_exact _ _ _ _ Hc isR_180 (180 * (2 * x + 1)) (- h)
                ltac:(rewrite Ec; dy) ltac:(lia) ltac:(lia)) as H1.
  (* / 360 *)
  assert (Q : ((rc + 180) / 360 = dyR (2 * x + 1) (- h - 1))%R).
  { rewrite Ec. unfold dyR. replace (- h - 1) with (- h + -1) by ring. rewrite bpow_plus. change (bpow radix2 (-1)) with (/ 2)%R.
    rewrite !minus_IZR, !mult_IZR, !plus_IZR, !mult_IZR, IZR_pow2, bpow_opp by lia. field. apply Rgt_not_eq, bpow_gt_0. }
  pose proof (div_exact _ _ _ _ H1 isR_360 (2 * x + 1) (- h - 1) ltac:(lra) Q ltac:(lia) ltac:(lia)) as H2.
  (* 2^h * _ *)
  pose proof (pow2f_isR h ltac:(lia)) as Hhl.
  assert (M : (bpow radix2 h * ((rc + 180) / 360) = dyR (2 * x + 1) (-1))%R).
  { rewrite Q. unfold dyR. replace (- h - 1) with (- h + -1) by ring. rewrite bpow_plus, bpow_opp. field. apply Rgt_not_eq, bpow_gt_0. }
  pose proof (mul_exact _ _ _ _ Hhl H2 (2 * x + 1) (-1) M ltac:(lia) ltac:(lia)) as H3.
  rewrite M in H3.
  (* floor *)
  assert (V : (dyR (2 * x + 1) (-1) = IZR x + / 2)%R).
  { unfold dyR. change (bpow radix2 (-1)) with (/ 2)%R. rewrite plus_IZR, mult_IZR. field. }
  rewrite (ffloor_eq _ _ H3).
  2:{ rewrite V. assert (0 <= IZR x)%R by (apply IZR_le; lia). lra. }
  2:{ rewrite V. assert (0 <= IZR x)%R by (apply IZR_le; lia). rewrite Rabs_pos_eq by lra.
      apply Rlt_le_trans with (IZR (x + 1)); [rewrite plus_IZR; lra|]. apply IZR_le. change (2 ^ 52) with 4503599627370496. lia. }
  rewrite Zfloor_half.
  (* clamp into the last column: not taken *)
  pose proof (of_Z_small x ltac:(change (2 ^ 36) with 68719476736; lia)) as Hox.
  assert (Hmx : isR (pow2f h - 1)%float (IZR (2 ^ h - 1))).
  { rewrite minus_IZR, IZR_pow2 by lia. apply (sub_exact _ _ _ _ Hhl isR_1 (2 ^ h - 1) 0); [|lia|lia].
    unfold dyR. rewrite minus_IZR, IZR_pow2 by lia. change (bpow radix2 0) with 1%R. ring. }
  rewrite (ltb_false _ _ _ _ Hmx Hox) by (apply IZR_le; lia).
  apply Ztrunc_of_Z. change (2 ^ 36) with 68719476736. lia.
Qed.

(* ---- round trip on the vertical axis: the vertical index of the centre altitude is f (floor, also below ground) ---- *)
Theorem f_of_centre v f : 0 <= v <= 35 -> - 2 ^ v <= f < 2 ^ v -> f_f (caltf v f) v = Some f.
Proof.
  intros Hv Hf. pose proof (pow_le35' v Hv) as Hp.
  pose proof (caltf_isR v f Hv Hf) as Hc. set (c := caltf v f) in *.
  assert (Ec : (IZR ((2 * f + 1) * 2 ^ 25) / IZR (2 ^ (v + 1)))%R = dyR (2 * f + 1) (24 - v)).
  { unfold dyR. rewrite mult_IZR, !IZR_pow2 by lia. replace (24 - v) with (25 + - (v + 1)) by ring.
    rewrite (bpow_plus _ 25), bpow_opp. field. apply Rgt_not_eq, bpow_gt_0. }
  rewrite Ec in Hc.
  unfold f_f. change (pow2f 25 / pow2f v)%float with (vres v).
  pose proof (vres_isR v Hv) as Hr.
  assert (Nz : bpow radix2 (25 - v) <> 0%R) by (apply Rgt_not_eq, bpow_gt_0).
  assert (Q : (dyR (2 * f + 1) (24 - v) / bpow radix2 (25 - v) = dyR (2 * f + 1) (-1))%R).
  { unfold dyR. replace (24 - v) with (25 - v + -1) by ring. rewrite bpow_plus. field. exact Nz. }
  pose proof (div_exact _ _ _ _ Hc Hr (2 * f + 1) (-1) Nz Q ltac:(lia) ltac:(lia)) as H1.
  rewrite Q in H1.
  assert (V : (dyR (2 * f + 1) (-1) = IZR f + / 2)%R).
  { unfold dyR. change (bpow radix2 (-1)) with (/ 2)%R. rewrite plus_IZR, mult_IZR. field. }
  rewrite (ffloor_eq _ _ H1).
  2:{ rewrite V. intros E. assert (IZR (2 * f + 1) = 0)%R by (rewrite plus_IZR, mult_IZR; lra). apply eq_IZR in H. lia. }
  2:{ rewrite V. apply Rabs_def1.
      - apply Rlt_le_trans with (IZR (f + 1)); [rewrite plus_IZR; lra|]. apply IZR_le. change (2 ^ 52) with 4503599627370496. lia.
      - apply Rle_lt_trans with (IZR f); [|lra]. rewrite <- opp_IZR. apply IZR_le. change (2 ^ 52) with 4503599627370496. lia. }
  rewrite Zfloor_half. apply Ztrunc_of_Z. change (2 ^ 36) with 68719476736. lia.
Qed.
