(* GenC05.v — C05 over the kernels REGENERATED from the Go source with Go's int64 semantics explicit (generated/Generated64.v; vocabulary
   I64.v: None = run-time panic, flag = "no intermediate left the int64 range"). The overlap models (Overlap.v) are stated on unbounded Z;
   the integer kernels the detector stands on are
     - integrate.HorizontalZoomMinMax / the bounds of integrate.VerticalZoom (through ChangeExtendedSpatialIdsZoom, extended-ID checks),
     - shape.CheckZoom,
     - transform.ConvertZToMinMaxAltitudekey called as (f, z, z, consts.ZOriginValue, consts.ZBaseOffsetForNegativeFIndex)
       (spatial-ID checks: the altitude key that is loaded into / looked up in the radix tree).
   For these "int64 = Z on the property's domain" is a theorem here: on zooms 0..35 and |index| <= 2^zoom they do not panic, nothing
   wraps, and the value is the model's. Still hand-written and tied by differential execution only: the result loops, the string
   handling, the min of the zooms, the tree loops and the third-party radix tree (Radix.v).
   Must not be imported by DC05.v (bin/lint-deps). *)
From Coq Require Import ZArith Lia.
From SIDGen Require Generated Generated64.
From SID Require Import Base I64 Ids ZoomCore AltKeyCore GenTac GenEqZoom GenEqCheck GenEqAlt GenEq64Tac GenEq64Zoom GenEq64Alt.
Open Scope Z_scope.

Theorem c05_int64_HorizontalZoomMinMax_is_model zin x y zout :
  0 <= zin <= 35 -> 0 <= zout <= 35 -> Z.abs x <= 2 ^ zin -> Z.abs y <= 2 ^ zin ->
  Generated64.HorizontalZoomMinMax zin x y zout = Some (hzoom_minmax zin x y zout, true).
Proof. intros Hi Ho Hx Hy. rewrite gen64_HorizontalZoomMinMax_fits by assumption. now rewrite gen_HorizontalZoomMinMax_eq. Qed.

Theorem c05_int64_VerticalZoom_minmax_is_model zin f zout :
  0 <= zin <= 35 -> 0 <= zout <= 35 -> Z.abs f <= 2 ^ zin ->
  Generated64.VerticalZoom_minmax zin f zout = Some (vzoom_minmax zin f zout, true).
Proof. intros Hi Ho Hf. rewrite gen64_VerticalZoom_minmax_fits by assumption. now rewrite gen_VerticalZoom_minmax_eq. Qed.

Theorem c05_int64_CheckZoom_is_model z : Generated64.CheckZoom z = Some (check_zoom z, true).
Proof. rewrite gen64_CheckZoom_eq, gen_CheckZoom_eq. reflexivity. Qed.

(* the detector's altitude key: every int64 f, every zoom 0..35, with the constants as regenerated *)
Theorem c05_int64_detector_altitude_key_is_model f z : 0 <= z <= 35 ->
  Generated64.ConvertZToMinMaxAltitudekey f z z Generated.ZOriginValue Generated.ZBaseOffsetForNegativeFIndex =
  Some (enc_zz (z2key f z z zorigin zbase_offset_neg), true).
Proof.
  intros Hz. rewrite gen64_ConvertZToMinMaxAltitudekey_fits.
  - rewrite gen_ConvertZToMinMaxAltitudekey_eq, gen_ZOriginValue_eq, gen_ZBaseOffsetForNegativeFIndex_eq. reflexivity.
  - exact Hz.
  - exact Hz.
  - rewrite gen_ZOriginValue_eq. unfold zorigin. lia.
  - rewrite gen_ZBaseOffsetForNegativeFIndex_val. lia.
Qed.
(* in particular it never panics and never wraps there *)
Theorem c05_int64_detector_altitude_key_total f z : 0 <= z <= 35 ->
  exists r, Generated64.ConvertZToMinMaxAltitudekey f z z Generated.ZOriginValue Generated.ZBaseOffsetForNegativeFIndex = Some (r, true).
Proof. intros Hz. eexists. now apply c05_int64_detector_altitude_key_is_model. Qed.

Example c05_int64_examples :
  Generated64.ConvertZToMinMaxAltitudekey (-1) 25 25 Generated.ZOriginValue Generated.ZBaseOffsetForNegativeFIndex = Some ((2 ^ 24 - 1, 2 ^ 24 - 1, false), true) /\
  Generated64.ConvertZToMinMaxAltitudekey 1 26 26 Generated.ZOriginValue Generated.ZBaseOffsetForNegativeFIndex = Some ((2 ^ 25 + 1, 2 ^ 25 + 1, false), true) /\
  Generated64.VerticalZoom_minmax 3 (-1) 1 = Some (vzoom_minmax 3 (-1) 1, true) /\ vzoom_minmax 3 (-1) 1 = (-1, -1).
Proof. repeat split; vm_compute; reflexivity. Qed.
