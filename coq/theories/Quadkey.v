(* Quadkey.v — property C11, bit level: faithful executable models of transform.convertHorizontalIDToQuadkey (two bit loops with
   their early exits) and transform.convertQuadkeyToHorizontalID (walk over the base-4 string, most significant digit first, break at
   zoom); specification = bit interleaving; bound; the decoder inverts the encoder; one-to-one correspondence.
   Go `/`, `%` on int64 are Z.quot / Z.rem; `<<` is Z.shiftl. *)
From Coq Require Import ZArith Lia List Bool String.
From SID Require Import Base Str Ids.
Import ListNotations.
Open Scope Z_scope.

(* ---------- faithful model of convertHorizontalIDToQuadkey ---------- *)
(* for i = 0; t > 0 && i < h; i++ { m := t % 2; t = t / 2; q += (m * mul) << (i*2) }     (mul = 1 for x, 2 for y) *)
Fixpoint loopbits (fuel : nat) (i h t mul q : Z) : Z :=
  match fuel with
  | O => q
  | S f => if (0 <? t) && (i <? h)
           then loopbits f (i + 1) h (Z.quot t 2) mul (q + Z.shiftl (Z.rem t 2 * mul) (i * 2))
           else q
  end.
(* at most h iterations because of `i < h`: fuel h is never exhausted before the loop condition fails *)
Definition encode (h x y : Z) : Z :=
  loopbits (Z.to_nat h) 0 h y 2 (loopbits (Z.to_nat h) 0 h x 1 0).

(* the string interface: indexes := strings.Split(id, "/"); ParseInt errors are ignored (value 0 on a syntax error);
   fewer than three fields: index out of range (None) *)
Definition pz (s : string) : Z := match parse s with Some z => z | None => 0 end.
Definition encode_str (s : string) : option Z :=
  match split s with
  | a :: b :: c :: _ => Some (encode (pz a) (pz b) (pz c))
  | _ => None
  end.

(* ---------- faithful model of convertQuadkeyToHorizontalID ---------- *)
Fixpoint digits_lsb (fuel : nat) (q : Z) : list Z :=
  match fuel with
  | O => []
  | S f => if q <=? 0 then [] else (q mod 4) :: digits_lsb f (q / 4)
  end.
(* strconv.FormatInt(q, 4) for 0 <= q < 4^32 as a digit list: most significant digit first, no leading zeros, "0" for 0 *)
Definition digits4 (q : Z) : list Z := if q =? 0 then [0] else rev (digits_lsb 32 q).
(* a negative number prints as "-" followed by the digits of its absolute value; the character '-' takes the final `else` branch of the
   walk exactly like the character '0', so it is represented by the digit 0 *)
Definition chars4 (q : Z) : list Z := if q <? 0 then 0 :: digits4 (- q) else digits4 q.
(* one character: x, y are doubled; '1' sets the x bit, '2' the y bit, '3' both, anything else none *)
Definition step (acc : Z * Z) (d : Z) : Z * Z :=
  (2 * fst acc + (if (d =? 1) || (d =? 3) then 1 else 0),
   2 * snd acc + (if (d =? 2) || (d =? 3) then 1 else 0)).
(* `if i == int(zoom-1) { break }`: exactly the first `zoom` characters are read when zoom >= 1, all of them when zoom <= 0 *)
Definition decode (q zoom : Z) : Z * Z :=
  let cs := chars4 q in
  fold_left step (if zoom <=? 0 then cs else firstn (Z.to_nat zoom) cs) (0, 0).

(* ---------- specification ---------- *)
(* key = sum over the levels i < n of (bit_i x + 2 * bit_i y) * 4^i : base-4 digit i interleaves y_i x_i *)
Fixpoint isum (n : nat) (x y : Z) : Z :=
  match n with
  | O => 0
  | S m => isum m x y + (Z.b2z (Z.testbit x (Z.of_nat m)) + 2 * Z.b2z (Z.testbit y (Z.of_nat m))) * 4 ^ Z.of_nat m
  end.
Definition interleave (h x y : Z) : Z := isum (Z.to_nat h) x y.

(* recursive form used in the proofs *)
Fixpoint enc (n : nat) (x y : Z) : Z :=
  match n with O => 0 | S m => x mod 2 + 2 * (y mod 2) + 4 * enc m (x / 2) (y / 2) end.

Lemma pow4 i : 0 <= i -> 2 ^ (i * 2) = 4 ^ i.
Proof. intros. replace (i * 2) with (2 * i) by lia. rewrite Z.pow_mul_r by lia. reflexivity. Qed.

(* one loop adds  mul * sum_{j < n} bit_j(t) 4^(i+j) *)
Fixpoint bits4 (n : nat) (t : Z) : Z :=
  match n with O => 0 | S m => t mod 2 + 4 * bits4 m (t / 2) end.

Lemma bits4_0 n : bits4 n 0 = 0.
Proof. induction n; cbn [bits4]; [reflexivity|]. rewrite Z.mod_0_l, Z.div_0_l, IHn by lia. reflexivity. Qed.

Lemma loopbits_spec fuel : forall i h t mul q,
  0 <= t -> 0 <= i -> Z.of_nat fuel = h - i ->
  loopbits fuel i h t mul q = q + mul * 4 ^ i * bits4 fuel t.
Proof.
  induction fuel as [|f IH]; intros i h t mul q Ht Hi Hf; cbn [loopbits bits4].
  - lia.
  - destruct (Z.ltb_spec 0 t) as [Hpos|Hz].
    + destruct (Z.ltb_spec i h) as [Hih|Hih]; [|lia]. cbn [andb].
      rewrite Z.quot_div_nonneg, Z.rem_mod_nonneg by lia.
      rewrite IH by (try apply Z.div_pos; lia).
      rewrite Z.shiftl_mul_pow2, pow4 by lia.
      rewrite Z.pow_add_r by lia. change (4 ^ 1) with 4. ring.
    + cbn [andb]. assert (t = 0) by lia. subst t.
      rewrite Z.mod_0_l, Z.div_0_l, bits4_0 by lia. ring.
Qed.

Lemma enc_bits4 n : forall x y, enc n x y = bits4 n x + 2 * bits4 n y.
Proof. induction n; intros; cbn [enc bits4]; [reflexivity|]. rewrite IHn. ring. Qed.

Theorem encode_spec h x y : 0 <= h -> 0 <= x -> 0 <= y ->
  encode h x y = enc (Z.to_nat h) x y.
Proof.
  intros Hh Hx Hy. unfold encode.
  rewrite !loopbits_spec by lia. rewrite enc_bits4. change (4 ^ 0) with 1. ring.
Qed.

Lemma enc_bound n : forall x y, 0 <= enc n x y < 4 ^ Z.of_nat n.
Proof.
  induction n; intros x y; cbn [enc]. { cbn. lia. }
  rewrite Nat2Z.inj_succ, Z.pow_succ_r by lia.
  specialize (IHn (x / 2) (y / 2)).
  pose proof (Z.mod_pos_bound x 2). pose proof (Z.mod_pos_bound y 2). lia.
Qed.

(* ---- the recursive form is the bit-interleaving sum ---- *)
Lemma testbit_half a m : Z.testbit (a / 2) (Z.of_nat m) = Z.testbit a (Z.of_nat (S m)).
Proof. rewrite Z.div2_bits by lia. f_equal. lia. Qed.

Lemma isum_step m : forall x y, isum (S m) x y = (x mod 2 + 2 * (y mod 2)) + 4 * isum m (x / 2) (y / 2).
Proof.
  induction m as [|m IH]; intros x y.
  - cbn [isum]. change (Z.of_nat 0) with 0. rewrite !Z.bit0_mod. change (4 ^ 0) with 1. ring.
  - change (isum (S (S m)) x y) with
      (isum (S m) x y + (Z.b2z (Z.testbit x (Z.of_nat (S m))) + 2 * Z.b2z (Z.testbit y (Z.of_nat (S m)))) * 4 ^ Z.of_nat (S m)).
    rewrite IH.
    change (isum (S m) (x / 2) (y / 2)) with
      (isum m (x / 2) (y / 2) + (Z.b2z (Z.testbit (x / 2) (Z.of_nat m)) + 2 * Z.b2z (Z.testbit (y / 2) (Z.of_nat m))) * 4 ^ Z.of_nat m).
    rewrite !testbit_half. rewrite (Nat2Z.inj_succ m), Z.pow_succ_r by lia. ring.
Qed.

Lemma enc_isum n : forall x y, enc n x y = isum n x y.
Proof.
  induction n as [|n IH]; intros x y; [reflexivity|].
  rewrite isum_step. cbn [enc]. rewrite IH. ring.
Qed.

(* the model of the code computes the interleaving sum, for every zoom and all non-negative indices (also indices wider than the zoom:
   the `i < hZoom` exit drops their high bits) *)
Theorem encode_interleave h x y : 0 <= h -> 0 <= x -> 0 <= y -> encode h x y = interleave h x y.
Proof. intros. unfold interleave. rewrite encode_spec, enc_isum by assumption. reflexivity. Qed.

Theorem encode_bound h x y : 0 <= h -> 0 <= x -> 0 <= y -> 0 <= encode h x y < 4 ^ h.
Proof. intros Hh Hx Hy. rewrite encode_spec by assumption. pose proof (enc_bound (Z.to_nat h) x y) as B. now rewrite Z2Nat.id in B by assumption. Qed.

(* digit order: bit 2i of the key is bit i of x, bit 2i+1 of the key is bit i of y *)
Lemma enc_testbit n : forall x y i, (i < n)%nat ->
  Z.testbit (enc n x y) (2 * Z.of_nat i) = Z.testbit x (Z.of_nat i) /\
  Z.testbit (enc n x y) (2 * Z.of_nat i + 1) = Z.testbit y (Z.of_nat i).
Proof.
  induction n as [|n IH]; intros x y i Hi; [lia|].
  cbn [enc]. set (e := enc n (x / 2) (y / 2)).
  rewrite <- (Z.bit0_mod x), <- (Z.bit0_mod y).
  replace (Z.b2z (Z.testbit x 0) + 2 * Z.b2z (Z.testbit y 0) + 4 * e)
    with (2 * (2 * e + Z.b2z (Z.testbit y 0)) + Z.b2z (Z.testbit x 0)) by ring.
  destruct i as [|i].
  - change (2 * Z.of_nat 0) with 0. change (0 + 1) with (Z.succ 0).
    rewrite Z.testbit_0_r, Z.testbit_succ_r, Z.testbit_0_r by lia. split; reflexivity.
  - destruct (IH (x / 2) (y / 2) i ltac:(lia)) as [E1 E2]. fold e in E1, E2.
    replace (2 * Z.of_nat (S i)) with (Z.succ (Z.succ (2 * Z.of_nat i))) by lia.
    replace (Z.succ (Z.succ (2 * Z.of_nat i)) + 1) with (Z.succ (Z.succ (2 * Z.of_nat i + 1))) by lia.
    rewrite !Z.testbit_succ_r by lia. rewrite E1, E2, !testbit_half. split; reflexivity.
Qed.
Theorem encode_digits h x y i : 0 <= x -> 0 <= y -> 0 <= i < h ->
  Z.testbit (encode h x y) (2 * i) = Z.testbit x i /\ Z.testbit (encode h x y) (2 * i + 1) = Z.testbit y i.
Proof.
  intros Hx Hy Hi. rewrite encode_spec by lia.
  pose proof (enc_testbit (Z.to_nat h) x y (Z.to_nat i) ltac:(lia)) as E. now rewrite Z2Nat.id in E by lia.
Qed.

(* ---------- decoder ---------- *)
(* value-level decoder from the least significant digit *)
Fixpoint dec (n : nat) (q : Z) : Z * Z :=
  match n with
  | O => (0, 0)
  | S m => let r := dec m (q / 4) in
           (2 * fst r + q mod 2, 2 * snd r + (q / 2) mod 2)
  end.

Lemma dec_enc n : forall x y, 0 <= x < 2 ^ Z.of_nat n -> 0 <= y < 2 ^ Z.of_nat n ->
  dec n (enc n x y) = (x, y).
Proof.
  induction n; intros x y Hx Hy.
  - cbn in *. f_equal; lia.
  - rewrite Nat2Z.inj_succ, Z.pow_succ_r in Hx, Hy by lia.
    cbn [dec enc].
    set (e := enc n (x / 2) (y / 2)).
    pose proof (Z.mod_pos_bound x 2 ltac:(lia)) as Bx.
    pose proof (Z.mod_pos_bound y 2 ltac:(lia)) as By.
    assert (E4 : (x mod 2 + 2 * (y mod 2) + 4 * e) / 4 = e).
    { symmetry. apply Z.div_unique with (r := x mod 2 + 2 * (y mod 2)); lia. }
    assert (E2 : (x mod 2 + 2 * (y mod 2) + 4 * e) mod 2 = x mod 2).
    { symmetry. apply Z.mod_unique with (q := y mod 2 + 2 * e); lia. }
    assert (E3 : ((x mod 2 + 2 * (y mod 2) + 4 * e) / 2) mod 2 = y mod 2).
    { assert (D : (x mod 2 + 2 * (y mod 2) + 4 * e) / 2 = y mod 2 + 2 * e).
      { symmetry. apply Z.div_unique with (r := x mod 2); lia. }
      rewrite D. symmetry. apply Z.mod_unique with (q := e); lia. }
    rewrite E4, E2, E3. unfold e.
    rewrite IHn by (split; [apply Z.div_pos; lia | apply Z.div_lt_upper_bound; lia]).
    cbn [fst snd]. f_equal.
    + pose proof (Z.div_mod x 2). lia.
    + pose proof (Z.div_mod y 2). lia.
Qed.

(* every key below 4^n is the key of its decoded tile, which lies inside the grid: the correspondence is onto *)
Lemma enc_dec n : forall q, 0 <= q < 4 ^ Z.of_nat n ->
  enc n (fst (dec n q)) (snd (dec n q)) = q /\
  0 <= fst (dec n q) < 2 ^ Z.of_nat n /\ 0 <= snd (dec n q) < 2 ^ Z.of_nat n.
Proof.
  induction n as [|n IH]; intros q Hq.
  - cbn in *. lia.
  - rewrite Nat2Z.inj_succ, Z.pow_succ_r in Hq by lia. rewrite Nat2Z.inj_succ, Z.pow_succ_r by lia.
    cbn [dec enc fst snd].
    destruct (IH (q / 4)) as (E & Bx & By).
    { split; [apply Z.div_pos; lia | apply Z.div_lt_upper_bound; lia]. }
    set (a := fst (dec n (q / 4))) in *. set (b := snd (dec n (q / 4))) in *.
    pose proof (Z.mod_pos_bound q 2 ltac:(lia)) as B0.
    pose proof (Z.mod_pos_bound (q / 2) 2 ltac:(lia)) as B1.
    assert (A1 : (2 * a + q mod 2) mod 2 = q mod 2) by (symmetry; apply Z.mod_unique with (q := a); lia).
    assert (A2 : (2 * a + q mod 2) / 2 = a) by (symmetry; apply Z.div_unique with (r := q mod 2); lia).
    assert (A3 : (2 * b + (q / 2) mod 2) mod 2 = (q / 2) mod 2) by (symmetry; apply Z.mod_unique with (q := b); lia).
    assert (A4 : (2 * b + (q / 2) mod 2) / 2 = b) by (symmetry; apply Z.div_unique with (r := (q / 2) mod 2); lia).
    rewrite A1, A2, A3, A4, E.
    split; [|lia]. clear -Hq. Z.div_mod_to_equations. lia.
Qed.

(* ---------- list-level decoder = value-level decoder ---------- *)
Definition g (d : Z) (acc : Z * Z) : Z * Z := step acc d.

Lemma dec_0 n : dec n 0 = (0, 0).
Proof. induction n; cbn [dec]; [reflexivity|]. rewrite Z.div_0_l by lia. rewrite IHn. reflexivity. Qed.

Lemma step_digit acc q : 0 <= q ->
  step acc (q mod 4) = (2 * fst acc + q mod 2, 2 * snd acc + (q / 2) mod 2).
Proof.
  intros Hq. unfold step.
  assert (Hm : 0 <= q mod 4 < 4) by (apply Z.mod_pos_bound; lia).
  assert (E1 : q mod 2 = (q mod 4) mod 2) by (clear; Z.div_mod_to_equations; lia).
  assert (E2 : (q / 2) mod 2 = (q mod 4) / 2) by (clear; Z.div_mod_to_equations; lia).
  rewrite E1, E2.
  assert (q mod 4 = 0 \/ q mod 4 = 1 \/ q mod 4 = 2 \/ q mod 4 = 3) as [H|[H|[H|H]]] by lia;
    rewrite H; reflexivity.
Qed.

Lemma digits_dec m : forall fuel q, 0 <= q < 4 ^ Z.of_nat m -> (m <= fuel)%nat ->
  fold_right g (0, 0) (digits_lsb fuel q) = dec m q /\ (List.length (digits_lsb fuel q) <= m)%nat.
Proof.
  induction m as [|m IH]; intros fuel q Hq Hf.
  - cbn in Hq. assert (q = 0) by lia. subst q. destruct fuel; cbn; split; auto.
  - destruct fuel as [|fuel]; [lia|]. cbn [digits_lsb dec].
    destruct (Z.leb_spec q 0) as [Hz|Hpos].
    + assert (q = 0) by lia. subst q. cbn [fold_right List.length].
      rewrite Z.div_0_l, dec_0 by lia. cbn. split; [reflexivity|lia].
    + rewrite Nat2Z.inj_succ, Z.pow_succ_r in Hq by lia.
      destruct (IH fuel (q / 4)) as [E L].
      { split; [apply Z.div_pos; lia | apply Z.div_lt_upper_bound; lia]. }
      { lia. }
      cbn [fold_right List.length]. rewrite E. unfold g. rewrite step_digit by lia.
      split; [reflexivity|lia].
Qed.

(* reading the printed key: leading zero digits are absent from the string and contribute nothing *)
Theorem decode_dec (n : nat) q : (n <= 32)%nat -> 0 <= q < 4 ^ Z.of_nat n -> (0 < n)%nat ->
  decode q (Z.of_nat n) = dec n q.
Proof.
  intros Hn Hq Hpos. unfold decode, chars4, digits4.
  destruct (Z.ltb_spec q 0) as [Hneg|_]; [lia|].
  destruct (Z.leb_spec (Z.of_nat n) 0) as [Hbad|_]; [lia|].
  rewrite Nat2Z.id.
  destruct (Z.eqb_spec q 0) as [->|Hq0].
  - rewrite dec_0. destruct n; [lia|]. cbn [firstn]. destruct n; reflexivity.
  - destruct (digits_dec n 32 q Hq Hn) as [E L].
    rewrite firstn_all2 by (rewrite rev_length; exact L).
    rewrite <- E. rewrite <- fold_left_rev_right, rev_involutive. reflexivity.
Qed.

(* the round trip through the faithful encoder and decoder models *)
Theorem decode_encode_nat (n : nat) x y : (0 < n <= 32)%nat ->
  0 <= x < 2 ^ Z.of_nat n -> 0 <= y < 2 ^ Z.of_nat n ->
  decode (encode (Z.of_nat n) x y) (Z.of_nat n) = (x, y).
Proof.
  intros Hn Hx Hy. rewrite encode_spec by lia. rewrite Nat2Z.id.
  rewrite decode_dec by (try apply enc_bound; lia). now apply dec_enc.
Qed.
Theorem decode_encode h x y : 1 <= h <= 32 -> 0 <= x < 2 ^ h -> 0 <= y < 2 ^ h ->
  decode (encode h x y) h = (x, y).
Proof.
  intros Hh Hx Hy. rewrite <- (Z2Nat.id h) in * by lia. apply decode_encode_nat; [lia|assumption|assumption].
Qed.

(* one-to-one: different tiles of a zoom have different keys *)
Theorem encode_injective h x y x' y' : 1 <= h <= 32 ->
  0 <= x < 2 ^ h -> 0 <= y < 2 ^ h -> 0 <= x' < 2 ^ h -> 0 <= y' < 2 ^ h ->
  encode h x y = encode h x' y' -> x = x' /\ y = y'.
Proof.
  intros Hh Hx Hy Hx' Hy' E.
  pose proof (decode_encode h x y Hh Hx Hy) as D1. pose proof (decode_encode h x' y' Hh Hx' Hy') as D2.
  rewrite E in D1. rewrite D1 in D2. now inversion D2.
Qed.

(* onto: every integer 0 <= q < 4^h is the key of the tile the decoder returns, and that tile is inside the grid *)
Theorem encode_decode h q : 1 <= h <= 32 -> 0 <= q < 4 ^ h ->
  let '(x, y) := decode q h in encode h x y = q /\ 0 <= x < 2 ^ h /\ 0 <= y < 2 ^ h.
Proof.
  intros Hh Hq. rewrite <- (Z2Nat.id h) in * by lia. set (n := Z.to_nat h) in *.
  rewrite decode_dec by lia.
  destruct (enc_dec n q Hq) as (E & Bx & By).
  destruct (dec n q) as [x y]. cbn [fst snd] in *.
  rewrite encode_spec, Nat2Z.id by lia. auto.
Qed.

(* the string interface on a printed horizontal ID *)
Lemma encode_str_print h x y : int64_ok h = true -> int64_ok x = true -> int64_ok y = true ->
  encode_str (join [print h; print x; print y]) = Some (encode h x y).
Proof.
  intros Hh Hx Hy. unfold encode_str. rewrite split_join.
  - unfold pz. now rewrite !parse_print by assumption.
  - discriminate.
  - cbn [forallb]. rewrite !print_noslash. reflexivity.
Qed.

(* negative indices never enter a loop (`xIndexTmp > 0` fails at once): they contribute like 0 *)
Lemma loopbits_clamp fuel i h t mul q : loopbits fuel i h t mul q = loopbits fuel i h (Z.max 0 t) mul q.
Proof.
  destruct (Z.ltb_spec 0 t) as [Hp|Hn]; [now rewrite Z.max_r by lia|].
  rewrite Z.max_l by lia. destruct fuel; cbn [loopbits]; [reflexivity|].
  destruct (Z.ltb_spec 0 t); [lia|]. cbn [andb]. reflexivity.
Qed.
Theorem encode_clamp h x y : encode h x y = encode h (Z.max 0 x) (Z.max 0 y).
Proof. unfold encode. rewrite (loopbits_clamp _ _ _ x), (loopbits_clamp _ _ _ y). reflexivity. Qed.
(* a zoom below 1 runs no iteration *)
Lemma encode_nonpos_zoom h x y : h <= 0 -> encode h x y = 0.
Proof. intros H. unfold encode. replace (Z.to_nat h) with 0%nat by lia. reflexivity. Qed.

(* FormatInt(z, 10) is injective on all integers *)
Lemma print_inj a b : print a = print b -> a = b.
Proof.
  unfold print. intros H. apply (f_equal DecimalString.NilZero.int_of_string) in H.
  destruct (to_int_not_nil a), (to_int_not_nil b).
  rewrite !DecimalString.NilZero.isi in H by assumption. injection H as H.
  apply (f_equal Z.of_int) in H. now rewrite !DecimalZ.of_to in H.
Qed.
