(* Base.v — shared integer vocabulary: ancestors, ranges, arithmetic shift, result type, boolean de-duplication *)
From Coq Require Import ZArith Lia List Bool FinFun Permutation.
Import ListNotations.
Open Scope Z_scope.

Inductive result (A : Type) := Ok (a : A) | Err.
Arguments Ok {A} a. Arguments Err {A}.

Definition is_ok {A} (r : result A) : bool := match r with Ok _ => true | Err => false end.

(* ---- powers of two, ancestors (floor division by 2^d) ---- *)
Definition anc (d n : Z) : Z := n / 2 ^ d.

Lemma pow2_pos d : 0 <= d -> 0 < 2 ^ d.
Proof. intros. apply Z.pow_pos_nonneg; lia. Qed.

Lemma anc_0 n : anc 0 n = n.
Proof. unfold anc. now rewrite Z.pow_0_r, Z.div_1_r. Qed.

Lemma anc_compose a b i : 0 <= a -> 0 <= b -> anc a (anc b i) = anc (a + b) i.
Proof.
  intros Ha Hb. unfold anc. pose proof (pow2_pos a Ha). pose proof (pow2_pos b Hb).
  rewrite Z.div_div by lia. f_equal. rewrite Z.pow_add_r by lia. ring.
Qed.

Lemma desc_iff d i j : 0 <= d -> (i * 2 ^ d <= j < (i + 1) * 2 ^ d) <-> anc d j = i.
Proof.
  intros Hd. unfold anc. pose proof (pow2_pos d Hd) as Hp. split.
  - intros H. symmetry. apply Z.div_unique with (r := j - i * 2 ^ d); lia.
  - intros <-. pose proof (Z.div_mod j (2 ^ d) ltac:(lia)). pose proof (Z.mod_pos_bound j (2 ^ d) Hp). nia.
Qed.

Lemma anc_neg1 d : 0 <= d -> anc d (-1) = -1.
Proof. intros Hd. apply desc_iff; [exact Hd|]. pose proof (pow2_pos d Hd). lia. Qed.

Lemma anc_range d z n : 0 <= d <= z -> 0 <= n < 2 ^ z -> 0 <= anc d n < 2 ^ (z - d).
Proof.
  intros Hd Hn. unfold anc. pose proof (pow2_pos d ltac:(lia)) as Hp.
  assert (E : 2 ^ z = 2 ^ (z - d) * 2 ^ d) by (rewrite <- Z.pow_add_r by lia; f_equal; lia).
  split; [apply Z.div_pos; lia|]. apply Z.div_lt_upper_bound; [lia|]. lia.
Qed.

Lemma anc_range_signed d z n : 0 <= d <= z -> - 2 ^ z <= n < 2 ^ z -> - 2 ^ (z - d) <= anc d n < 2 ^ (z - d).
Proof.
  intros Hd Hn. unfold anc. pose proof (pow2_pos d ltac:(lia)) as Hp.
  assert (E : 2 ^ z = 2 ^ (z - d) * 2 ^ d) by (rewrite <- Z.pow_add_r by lia; f_equal; lia).
  split.
  - apply Z.div_le_lower_bound; [lia|]. lia.
  - apply Z.div_lt_upper_bound; [lia|]. lia.
Qed.

(* ---- Go's `for v := lo; v <= hi; v++` ---- *)
Definition zrange (lo hi : Z) : list Z := map (fun k => lo + Z.of_nat k) (seq 0 (Z.to_nat (hi - lo + 1))).

Lemma in_zrange lo hi v : In v (zrange lo hi) <-> lo <= v <= hi.
Proof. unfold zrange. rewrite in_map_iff. split.
  - intros (k & <- & Hk). apply in_seq in Hk. lia.
  - intros H. exists (Z.to_nat (v - lo)). split; [lia|]. apply in_seq. lia. Qed.
Lemma zrange_NoDup lo hi : NoDup (zrange lo hi).
Proof. unfold zrange. apply FinFun.Injective_map_NoDup; [|apply seq_NoDup]. intros a b H. lia. Qed.
Lemma zrange_length lo hi : length (zrange lo hi) = Z.to_nat (hi - lo + 1).
Proof. unfold zrange. now rewrite map_length, seq_length. Qed.
Lemma zrange_single a : zrange a a = [a].
Proof. unfold zrange. replace (a - a + 1) with 1 by lia. change (Z.to_nat 1) with 1%nat. cbn [seq map]. f_equal. change (Z.of_nat 0) with 0. lia. Qed.
Lemma zrange_empty lo hi : hi < lo -> zrange lo hi = [].
Proof. intros H. unfold zrange. replace (Z.to_nat (hi - lo + 1)) with 0%nat by lia. reflexivity. Qed.

(* ---- common.CalculateArithmeticShift ---- *)
Definition ashift (i s : Z) : Z := if 0 <=? s then Z.shiftl i s else Z.shiftr i (- s).
Lemma ashift_nonneg i s : 0 <= s -> ashift i s = i * 2 ^ s.
Proof. intros H. unfold ashift. destruct (Z.leb_spec 0 s); [|lia]. now rewrite Z.shiftl_mul_pow2. Qed.
Lemma ashift_neg i s : s <= 0 -> ashift i s = i / 2 ^ (- s).
Proof.
  intros H. unfold ashift. destruct (Z.leb_spec 0 s).
  - assert (s = 0) by lia. subst. cbn. now rewrite Z.div_1_r.
  - rewrite Z.shiftr_div_pow2 by lia. reflexivity.
Qed.

(* ---- list facts missing from the 8.16 standard library ---- *)
Lemma NoDup_app' {A} (l k : list A) :
  NoDup l -> NoDup k -> (forall x, In x l -> ~ In x k) -> NoDup (l ++ k).
Proof.
  induction 1 as [|a r Ha Hr IH]; cbn; intros Hk Hd; [exact Hk|].
  constructor.
  - rewrite in_app_iff. intros [H|H]; [contradiction|]. apply (Hd a); [now left|exact H].
  - apply IH; [exact Hk|]. intros x Hx. apply Hd. now right.
Qed.
Lemma NoDup_list_prod {A B} (l : list A) (k : list B) : NoDup l -> NoDup k -> NoDup (list_prod l k).
Proof.
  induction 1 as [|a r Ha Hr IH]; cbn; intros Hk; [constructor|].
  apply NoDup_app'.
  - apply FinFun.Injective_map_NoDup; [|exact Hk]. intros x y [= ->]. reflexivity.
  - now apply IH.
  - intros [x y] H1 H2. apply in_map_iff in H1. destruct H1 as (y' & [= <- <-] & _).
    apply in_prod_iff in H2. tauto.
Qed.

(* ---- boolean de-duplication (executable; `nodup` with an opaque decision procedure does not compute) ---- *)
Section Dedup.
  Context {A : Type} (eqb : A -> A -> bool).
  Hypothesis eqb_spec : forall a b, reflect (a = b) (eqb a b).
  Fixpoint memb (a : A) (l : list A) : bool := match l with [] => false | b :: r => eqb a b || memb a r end.
  Fixpoint nodupb (l : list A) : list A :=
    match l with [] => [] | a :: r => if memb a r then nodupb r else a :: nodupb r end.
  Lemma memb_In a l : memb a l = true <-> In a l.
  Proof.
    induction l as [|b r IH]; cbn; [split; [discriminate|tauto]|].
    rewrite orb_true_iff, IH. destruct (eqb_spec a b); split; intros [H|H]; auto; try discriminate; subst; auto.
  Qed.
  Lemma nodupb_In a l : In a (nodupb l) <-> In a l.
  Proof.
    induction l as [|b r IH]; cbn; [tauto|].
    destruct (memb b r) eqn:E.
    - rewrite IH. split; [tauto|]. intros [<-|H]; [now apply memb_In|exact H].
    - cbn. rewrite IH. tauto.
  Qed.
  Lemma nodupb_NoDup l : NoDup (nodupb l).
  Proof.
    induction l as [|b r IH]; cbn; [constructor|].
    destruct (memb b r) eqn:E; [exact IH|]. constructor; [|exact IH].
    rewrite nodupb_In. intros H. apply memb_In in H. congruence.
  Qed.
  Lemma nodupb_id l : NoDup l -> nodupb l = l.
  Proof.
    induction 1 as [|a r Ha Hr IH]; cbn; [reflexivity|].
    destruct (memb a r) eqn:E; [apply memb_In in E; contradiction|]. now rewrite IH.
  Qed.
End Dedup.
