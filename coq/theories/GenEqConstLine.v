(* GenEqConstLine.v — generated constants = the literals the models use: the six thresholds of shape/line.go (exact decimals) and the two zoom
   switches read from the line function or its helper (cited by C06). *)
From Coq Require Import ZArith Bool Lia.
From SIDGen Require Import Generated.
Open Scope Z_scope.

Lemma gen_line_thresholds_eq :
  (Generated.LonMinima, Generated.LatMinima, Generated.AltMinima) = ((2, -8), (2, -8), (3, -3)) /\
  (Generated.HightZoomLonMinima, Generated.HightZoomLatMinima, Generated.HightZoomAltMinima) = ((5, -9), (5, -10), (5, -4)).
Proof. split; reflexivity. Qed.
Lemma gen_line_switches_eq : (Generated.LineSwitch_hZoom, Generated.LineSwitch_vZoom) = (31, 34). Proof. reflexivity. Qed.
