(* VecExact.v — the link between the binary64 models of VecF.v and the real-number laws of Vec.v on integer inputs:
   when every input component is an integer of absolute value <= 2^16, every `+ - *` of Add, Sub, Scale, Dot, Cross, Matrix3.Mul,
   Matrix3.MulVec, Line3.ToPoint and their compositions up to a triple matrix product is EXACT (no rounding), so the float result
   is the integer the real-number formula gives — in particular (A.B).C and A.(B.C) are the same floats, a.(a x b) is 0, and
   Lagrange's identity holds exactly. Proved through Flocq (Bmult/Bplus/Bminus_correct) on Coq's primitive floats.
   For non-integer inputs no such theorem is claimed: there the run-time checkers bound the rounding error per case. *)
From Coq Require Import ZArith Reals Lia Lra Floats.
From Flocq Require Import Core BinarySingleNaN.
From Flocq Require PrimFloat.
From SID Require Import F64 VecF.
Open Scope Z_scope.

#[local] Instance Hprec : Prec_gt_0 FloatOps.prec := eq_refl _.
#[local] Instance Hmax : Prec_lt_emax FloatOps.prec FloatOps.emax := eq_refl _.
Notation P2B := PrimFloat.Prim2B.
Notation pfloat := Coq.Floats.PrimFloat.float.
Notation fmt := (generic_format radix2 (SpecFloat.fexp FloatOps.prec FloatOps.emax)).

(* the float x is finite and its value is the integer m *)
Definition is_int (x : pfloat) (m : Z) : Prop := is_finite (P2B x) = true /\ B2R (P2B x) = IZR m.

Lemma fmt_Z (m : Z) : Z.abs m < 2 ^ 53 -> fmt (IZR m).
Proof.
  intros Hm. replace (IZR m) with (IZR m * bpow radix2 0)%R by (cbn; ring).
  change (SpecFloat.fexp FloatOps.prec FloatOps.emax) with (FLT_exp (-1074) 53).
  apply generic_format_FLT. exists (Float radix2 m 0); [reflexivity | exact Hm | cbn; lia].
Qed.
Lemma small_Z (m : Z) : Z.abs m < 2 ^ 53 -> (Rabs (IZR m) < bpow radix2 FloatOps.emax)%R.
Proof.
  intros Hm. rewrite <- abs_IZR. apply Rlt_le_trans with (IZR (2 ^ 53)); [now apply IZR_lt|].
  change (2 ^ 53) with (radix2 ^ 53). rewrite IZR_Zpower by lia. apply bpow_le. unfold FloatOps.emax. cbn. lia.
Qed.

Lemma int_mul x y m n : is_int x m -> is_int y n -> Z.abs (m * n) < 2 ^ 53 -> is_int (x * y)%float (m * n).
Proof.
  intros [Fx Vx] [Fy Vy] Hb.
  assert (E : P2B (x * y)%float = @Bmult _ _ Hprec Hmax mode_NE (P2B x) (P2B y)) by exact (PrimFloat.mul_equiv x y).
  pose proof (Bmult_correct _ _ Hprec Hmax mode_NE (P2B x) (P2B y)) as H.
  rewrite Vx, Vy, <- mult_IZR in H.
  rewrite round_generic in H; [|apply valid_rnd_round_mode|now apply fmt_Z].
  rewrite Rlt_bool_true in H by now apply small_Z.
  destruct H as (H1 & H2 & _). unfold is_int. rewrite E, H1, H2, Fx, Fy. auto.
Qed.
Lemma int_add x y m n : is_int x m -> is_int y n -> Z.abs (m + n) < 2 ^ 53 -> is_int (x + y)%float (m + n).
Proof.
  intros [Fx Vx] [Fy Vy] Hb.
  assert (E : P2B (x + y)%float = @Bplus _ _ Hprec Hmax mode_NE (P2B x) (P2B y)) by exact (PrimFloat.add_equiv x y).
  pose proof (Bplus_correct _ _ Hprec Hmax mode_NE (P2B x) (P2B y) Fx Fy) as H.
  rewrite Vx, Vy, <- plus_IZR in H.
  rewrite round_generic in H; [|apply valid_rnd_round_mode|now apply fmt_Z].
  rewrite Rlt_bool_true in H by now apply small_Z.
  destruct H as (H1 & H2 & _). unfold is_int. rewrite E, H1, H2. auto.
Qed.
Lemma int_sub x y m n : is_int x m -> is_int y n -> Z.abs (m - n) < 2 ^ 53 -> is_int (x - y)%float (m - n).
Proof.
  intros [Fx Vx] [Fy Vy] Hb.
  assert (E : P2B (x - y)%float = @Bminus _ _ Hprec Hmax mode_NE (P2B x) (P2B y)) by exact (PrimFloat.sub_equiv x y).
  pose proof (Bminus_correct _ _ Hprec Hmax mode_NE (P2B x) (P2B y) Fx Fy) as H.
  rewrite Vx, Vy, <- minus_IZR in H.
  rewrite round_generic in H; [|apply valid_rnd_round_mode|now apply fmt_Z].
  rewrite Rlt_bool_true in H by now apply small_Z.
  destruct H as (H1 & H2 & _). unfold is_int. rewrite E, H1, H2. auto.
Qed.

(* bounded integers: products and sums of bounded integers are bounded *)
Definition bnd (B m : Z) : Prop := Z.abs m <= B.
Lemma bnd_mul A B m n : bnd A m -> bnd B n -> bnd (A * B) (m * n).
Proof. unfold bnd. intros H1 H2. rewrite Z.abs_mul. apply Z.mul_le_mono_nonneg; lia. Qed.
Lemma bnd_add A B m n : bnd A m -> bnd B n -> bnd (A + B) (m + n).
Proof. unfold bnd. lia. Qed.
Lemma bnd_sub A B m n : bnd A m -> bnd B n -> bnd (A + B) (m - n).
Proof. unfold bnd. lia. Qed.
Lemma bnd_lt B m : bnd B m -> B < 2 ^ 53 -> Z.abs m < 2 ^ 53.
Proof. unfold bnd. lia. Qed.

(* a float that is an integer bounded by B *)
Definition ib (B : Z) (x : pfloat) (m : Z) : Prop := is_int x m /\ bnd B m.
Lemma ib_mul A B x y m n : ib A x m -> ib B y n -> A * B < 2 ^ 53 -> ib (A * B) (x * y)%float (m * n).
Proof.
  intros [I1 B1] [I2 B2] H. pose proof (bnd_mul _ _ _ _ B1 B2) as Bm. split; [|exact Bm].
  apply int_mul; [exact I1|exact I2|]. eapply bnd_lt; eauto.
Qed.
Lemma ib_add A B x y m n : ib A x m -> ib B y n -> A + B < 2 ^ 53 -> ib (A + B) (x + y)%float (m + n).
Proof.
  intros [I1 B1] [I2 B2] H. pose proof (bnd_add _ _ _ _ B1 B2) as Bm. split; [|exact Bm].
  apply int_add; [exact I1|exact I2|]. eapply bnd_lt; eauto.
Qed.
Lemma ib_sub A B x y m n : ib A x m -> ib B y n -> A + B < 2 ^ 53 -> ib (A + B) (x - y)%float (m - n).
Proof.
  intros [I1 B1] [I2 B2] H. pose proof (bnd_sub _ _ _ _ B1 B2) as Bm. split; [|exact Bm].
  apply int_sub; [exact I1|exact I2|]. eapply bnd_lt; eauto.
Qed.
Lemma ib_weaken A B x m : ib A x m -> A <= B -> ib B x m.
Proof. intros [I1 B1] H. split; [exact I1|unfold bnd in *; lia]. Qed.
Lemma ib_eq B x m n : ib B x m -> m = n -> ib B x n.
Proof. intros H <-. exact H. Qed.

(* integer vectors / matrices *)
Record zvec := ZV { zx : Z; zy : Z; zz : Z }.
Definition ibv (B : Z) (v : fvec) (m : zvec) : Prop := ib B (fx v) (zx m) /\ ib B (fy v) (zy m) /\ ib B (fz v) (zz m).
Definition zdot (a b : zvec) : Z := zx a * zx b + zy a * zy b + zz a * zz b.
Definition zcross (a b : zvec) : zvec := ZV (zy a * zz b - zz a * zy b) (zz a * zx b - zx a * zz b) (zx a * zy b - zy a * zx b).
Definition zadd (a b : zvec) : zvec := ZV (zx a + zx b) (zy a + zy b) (zz a + zz b).
Definition zsub (a b : zvec) : zvec := ZV (zx a - zx b) (zy a - zy b) (zz a - zz b).
Definition zscale (f : Z) (a : zvec) : zvec := ZV (f * zx a) (f * zy a) (f * zz a).

Ltac split3 := refine (conj _ (conj _ _)).
Ltac split9 := refine (conj _ (conj _ (conj _ (conj _ (conj _ (conj _ (conj _ (conj _ _)))))))).

Section Exact.
  Variables A B : Z.
  Hypothesis HA : 0 <= A.
  Hypothesis HB : 0 <= B.

  Theorem fadd_exact a b ma mb : ibv A a ma -> ibv B b mb -> A + B < 2 ^ 53 -> ibv (A + B) (fadd a b) (zadd ma mb).
  Proof. intros (a1 & a2 & a3) (b1 & b2 & b3) H. split3; cbn [fx fy fz zx zy zz fadd fsub fscale fcross zadd zsub zscale zcross]; apply ib_add; auto. Qed.
  Theorem fsub_exact a b ma mb : ibv A a ma -> ibv B b mb -> A + B < 2 ^ 53 -> ibv (A + B) (fsub a b) (zsub ma mb).
  Proof. intros (a1 & a2 & a3) (b1 & b2 & b3) H. split3; cbn [fx fy fz zx zy zz fadd fsub fscale fcross zadd zsub zscale zcross]; apply ib_sub; auto. Qed.
  Theorem fscale_exact f a mf ma : ib A f mf -> ibv B a ma -> A * B < 2 ^ 53 -> ibv (A * B) (fscale f a) (zscale mf ma).
  Proof. intros Hf (a1 & a2 & a3) H. split3; cbn [fx fy fz zx zy zz fadd fsub fscale fcross zadd zsub zscale zcross]; apply ib_mul; auto. Qed.
  Theorem fdot_exact a b ma mb : ibv A a ma -> ibv B b mb -> 3 * (A * B) < 2 ^ 53 -> ib (3 * (A * B)) (fdot a b) (zdot ma mb).
  Proof.
    intros (a1 & a2 & a3) (b1 & b2 & b3) H. unfold fdot, zdot.
    assert (P : 0 <= A * B) by nia.
    eapply ib_weaken; [apply ib_add; [apply ib_add; [apply ib_mul|apply ib_mul|]|apply ib_mul|]|]; eauto; lia.
  Qed.
  Theorem fcross_exact a b ma mb : ibv A a ma -> ibv B b mb -> 2 * (A * B) < 2 ^ 53 -> ibv (2 * (A * B)) (fcross a b) (zcross ma mb).
  Proof.
    intros (a1 & a2 & a3) (b1 & b2 & b3) H. assert (P : 0 <= A * B) by nia.
    split3; cbn [fx fy fz zx zy zz fadd fsub fscale fcross zadd zsub zscale zcross]; (eapply ib_weaken; [apply ib_sub; [apply ib_mul|apply ib_mul|]|]; eauto; lia).
  Qed.
End Exact.

(* Matrix3 rows; Mul and MulVec entries are dot products written in the operand order of the Go source *)
Record zmat := ZM { z00 : Z; z01 : Z; z02 : Z; z10 : Z; z11 : Z; z12 : Z; z20 : Z; z21 : Z; z22 : Z }.
Definition ibm (B : Z) (a : fmat) (m : zmat) : Prop :=
  ib B (f00 a) (z00 m) /\ ib B (f01 a) (z01 m) /\ ib B (f02 a) (z02 m) /\
  ib B (f10 a) (z10 m) /\ ib B (f11 a) (z11 m) /\ ib B (f12 a) (z12 m) /\
  ib B (f20 a) (z20 m) /\ ib B (f21 a) (z21 m) /\ ib B (f22 a) (z22 m).
Definition zmmul (a b : zmat) : zmat :=
  ZM (z00 a * z00 b + z01 a * z10 b + z02 a * z20 b) (z00 a * z01 b + z01 a * z11 b + z02 a * z21 b) (z00 a * z02 b + z01 a * z12 b + z02 a * z22 b)
     (z10 a * z00 b + z11 a * z10 b + z12 a * z20 b) (z10 a * z01 b + z11 a * z11 b + z12 a * z21 b) (z10 a * z02 b + z11 a * z12 b + z12 a * z22 b)
     (z20 a * z00 b + z21 a * z10 b + z22 a * z20 b) (z20 a * z01 b + z21 a * z11 b + z22 a * z21 b) (z20 a * z02 b + z21 a * z12 b + z22 a * z22 b).
Definition zmulvec (a : zmat) (v : zvec) : zvec :=
  ZV (zx v * z00 a + zy v * z01 a + zz v * z02 a) (zx v * z10 a + zy v * z11 a + zz v * z12 a) (zx v * z20 a + zy v * z21 a + zz v * z22 a).

Lemma ib_dot3 A B x1 y1 x2 y2 x3 y3 m1 n1 m2 n2 m3 n3 : 0 <= A -> 0 <= B ->
  ib A x1 m1 -> ib B y1 n1 -> ib A x2 m2 -> ib B y2 n2 -> ib A x3 m3 -> ib B y3 n3 -> 3 * (A * B) < 2 ^ 53 ->
  ib (3 * (A * B)) (x1 * y1 + x2 * y2 + x3 * y3)%float (m1 * n1 + m2 * n2 + m3 * n3).
Proof.
  intros HA HB a1 b1 a2 b2 a3 b3 H. assert (P : 0 <= A * B) by nia.
  eapply ib_weaken; [apply ib_add; [apply ib_add; [apply ib_mul|apply ib_mul|]|apply ib_mul|]|]; eauto; lia.
Qed.
Theorem fmmul_exact A B a b ma mb : 0 <= A -> 0 <= B -> ibm A a ma -> ibm B b mb -> 3 * (A * B) < 2 ^ 53 ->
  ibm (3 * (A * B)) (fmmul a b) (zmmul ma mb).
Proof.
  intros HA HB (a00 & a01 & a02 & a10 & a11 & a12 & a20 & a21 & a22) (b00 & b01 & b02 & b10 & b11 & b12 & b20 & b21 & b22) H.
  split9; cbn [fx fy fz zx zy zz fadd fsub fscale fcross zadd zsub zscale zcross fmmul fmulvec zmmul zmulvec f00 f01 f02 f10 f11 f12 f20 f21 f22 z00 z01 z02 z10 z11 z12 z20 z21 z22]; apply ib_dot3; auto.
Qed.
Theorem fmulvec_exact A B a v ma mv : 0 <= A -> 0 <= B -> ibm A a ma -> ibv B v mv -> 3 * (B * A) < 2 ^ 53 ->
  ibv (3 * (B * A)) (fmulvec a v) (zmulvec ma mv).
Proof.
  intros HA HB (a00 & a01 & a02 & a10 & a11 & a12 & a20 & a21 & a22) (v1 & v2 & v3) H.
  split3; cbn [fx fy fz zx zy zz fadd fsub fscale fcross zadd zsub zscale zcross fmmul fmulvec zmmul zmulvec f00 f01 f02 f10 f11 f12 f20 f21 f22 z00 z01 z02 z10 z11 z12 z20 z21 z22]; apply ib_dot3; auto.
Qed.

(* ---- consequences for inputs bounded by 2^16: the real-number laws hold for the float results themselves ---- *)
Definition K : Z := 2 ^ 16.
Lemma zmmul_assoc a b c : zmmul (zmmul a b) c = zmmul a (zmmul b c).
Proof. destruct a, b, c. unfold zmmul; cbn. f_equal; ring. Qed.
Lemma zmulvec_zmmul a b v : zmulvec (zmmul a b) v = zmulvec a (zmulvec b v).
Proof. destruct a, b, v. unfold zmulvec, zmmul; cbn. f_equal; ring. Qed.

Theorem fdot_fcross_exact_K a b ma mb : ibv K a ma -> ibv K b mb ->
  ib (3 * (K * K)) (fdot a b) (zdot ma mb) /\ ibv (2 * (K * K)) (fcross a b) (zcross ma mb).
Proof.
  intros Ha Hb. split; [apply fdot_exact|apply fcross_exact]; auto; unfold K; lia.
Qed.
(* both association orders of a triple product are computed without rounding and give the same integer matrix *)
Theorem fmmul_assoc_exact a b c ma mb mc : ibm K a ma -> ibm K b mb -> ibm K c mc ->
  exists B, ibm B (fmmul (fmmul a b) c) (zmmul (zmmul ma mb) mc) /\ ibm B (fmmul a (fmmul b c)) (zmmul (zmmul ma mb) mc).
Proof.
  intros Ha Hb Hc. exists (3 * (3 * (K * K) * K)). split.
  - apply fmmul_exact; [unfold K; lia|unfold K; lia| |exact Hc|unfold K; lia].
    apply fmmul_exact; [unfold K; lia|unfold K; lia|exact Ha|exact Hb|unfold K; lia].
  - rewrite zmmul_assoc.
    replace (3 * (3 * (K * K) * K)) with (3 * (K * (3 * (K * K)))) by ring.
    apply fmmul_exact; [unfold K; lia|unfold K; lia|exact Ha| |unfold K; lia].
    apply fmmul_exact; [unfold K; lia|unfold K; lia|exact Hb|exact Hc|unfold K; lia].
Qed.
Theorem fmulvec_fmmul_exact a b v ma mb mv : ibm K a ma -> ibm K b mb -> ibv K v mv ->
  exists B, ibv B (fmulvec (fmmul a b) v) (zmulvec (zmmul ma mb) mv) /\ ibv B (fmulvec a (fmulvec b v)) (zmulvec (zmmul ma mb) mv).
Proof.
  intros Ha Hb Hv. exists (3 * (3 * (K * K) * K)). split.
  - replace (3 * (3 * (K * K) * K)) with (3 * (K * (3 * (K * K)))) by ring.
    apply fmulvec_exact; [unfold K; lia|unfold K; lia| |exact Hv|unfold K; lia].
    apply fmmul_exact; [unfold K; lia|unfold K; lia|exact Ha|exact Hb|unfold K; lia].
  - rewrite zmulvec_zmmul.
    apply fmulvec_exact; [unfold K; lia|unfold K; lia|exact Ha| |unfold K; lia].
    replace (3 * (K * K)) with (3 * (K * K)) by ring.
    apply fmulvec_exact; [unfold K; lia|unfold K; lia|exact Hb|exact Hv|unfold K; lia].
Qed.
(* a . (a x b) is computed as exactly 0, and Lagrange's identity holds for the computed values *)
Theorem fcross_perp_exact a b ma mb : ibv K a ma -> ibv K b mb -> is_int (fdot a (fcross a b)) 0 /\ is_int (fdot b (fcross a b)) 0.
Proof.
  intros Ha Hb.
  pose proof (fcross_exact K K ltac:(unfold K; lia) ltac:(unfold K; lia) a b ma mb Ha Hb ltac:(unfold K; lia)) as Hc.
  split.
  - destruct (fdot_exact K (2 * (K * K)) ltac:(unfold K; lia) ltac:(unfold K; lia) a (fcross a b) ma (zcross ma mb) Ha Hc ltac:(unfold K; lia)) as [I _].
    replace 0 with (zdot ma (zcross ma mb)) by (destruct ma, mb; unfold zdot, zcross; cbn; ring). exact I.
  - destruct (fdot_exact K (2 * (K * K)) ltac:(unfold K; lia) ltac:(unfold K; lia) b (fcross a b) mb (zcross ma mb) Hb Hc ltac:(unfold K; lia)) as [I _].
    replace 0 with (zdot mb (zcross ma mb)) by (destruct ma, mb; unfold zdot, zcross; cbn; ring). exact I.
Qed.
(* Line3: ToPoint(t) of NewLineFromPoints(p, q) for integer p, q, t is p + t (q - p) exactly; t = 1 gives q, t = 0 gives p *)
Theorem fline_exact p q t mp mq mt : ibv K p mp -> ibv K q mq -> ib K t mt ->
  exists B, ibv B (fline_to_point p (fvec_from_points p q) t) (zadd mp (zscale mt (zsub mq mp))).
Proof.
  intros Hp Hq Ht. exists (K + K * (K + K)).
  unfold fline_to_point, ftranslate, fvec_from_points.
  apply fadd_exact; [exact Hp| |unfold K; lia].
  apply fscale_exact; [exact Ht| |unfold K; lia].
  apply fsub_exact; [exact Hq|exact Hp|unfold K; lia].
Qed.

(* non-vacuity: a concrete float is an integer in this sense *)
Lemma B2R_Prim2B x : B2R (P2B x) = SF2R radix2 (Prim2SF x).
Proof. rewrite <- SF2R_B2SF, PrimFloat.B2SF_Prim2B. reflexivity. Qed.
Lemma is_finite_Prim2B x : is_finite (P2B x) = is_finite_SF (Prim2SF x).
Proof. rewrite <- PrimFloat.B2SF_Prim2B. now destruct (P2B x). Qed.
Example three_is_int : ib K 3%float 3 /\ ib K (-7)%float (-7).
Proof.
  split; (split; [split|unfold bnd, K; cbn; lia]).
  - rewrite is_finite_Prim2B. reflexivity.
  - rewrite B2R_Prim2B. vm_compute Prim2SF. unfold SF2R, F2R; cbn. lra.
  - rewrite is_finite_Prim2B. reflexivity.
  - rewrite B2R_Prim2B. replace (Prim2SF (-7)%float) with (S754_finite true 7881299347898368 (-50)) by (vm_compute; reflexivity).
    unfold SF2R, F2R; cbn. lra.
Qed.
