(* DC13.v — dispatch entries of property C13 (tile keys -> extended / spatial IDs): (arguments, observed output) ↦ verdict.
   Tiles travel as lists [hZoom; x; y; vZoom; z]; the invoker builds each with object.NewTileXYZ (a failing NewTileXYZ ends the call
   with an error, as a caller of the library would experience it). Observed extended IDs are the lists [hZoom; x; y; vZoom; z] read
   through the accessors of the returned values; observed spatial IDs are the returned strings.
   corr  = the model's output (Tile.tiles_to_eids / tiles_to_sids / new_tile) equals the observed one as a sorted MULTISET (the Go
           result is in map-iteration order), the error flag agrees, and an error carries no result (nil / empty);
   prop  = the boolean checkers below accept the OBSERVED output. The extended checker computes, per tile, C12's metre-widened cover with
           AltKey's integer formulas wid_min_z / wid_max_z and the index ranges (not with the model function key2z), tests duplicates through
           the sorted list and completeness by counting per tile; it is proved to DECIDE the specification eids_spec, which is stated without
           the conversion function (Tile.tile_fits / stems_from), and eids_accepted_observation spells out what acceptance guarantees
           (footprint, vertical zoom, cover of every tile, no stray voxel, no duplicate). Honest limits: the specification fixes the result
           up to order, so on accepted observations prop and corr necessarily agree — prop's value is that its verdict is a proved statement
           of the property, not a second implementation; zrange / expand_rec / the zoom tests are shared with the model; the spatial checker
           is proved sound (->) and complete only for footprints of the grid;
   class = "-" always, except "skipped" for a request the invoker refused because of its size (marker "c13-size-guard"), and only when
           the dispatch entry's own estimate confirms it. Requests outside the domain — some int64 operation of a tile's range computation
           wraps (AltKey.key2z64m not exact: base exponent outside 0..35 or |offset| > 2^50), or, for the spatial variant, x / y outside
           [0, 2^hZoom) — are answered bad_case (never a pass); the generators stay inside. An error together with a non-empty result
           is rejected before any domain test. *)
From Coq Require Import ZArith String List Bool Lia Permutation Reals Orders Mergesort.
From Flocq Require Import Core.
From SID Require Import Base Str Wire AltKeyCore AltKey Ids ZoomCore Notation Tile.
Import ListNotations.
Open Scope string_scope.
Open Scope list_scope.
Open Scope Z_scope.

(* =====================================================================================================================
   1. The independent per-tile reference and the checker for ConvertTileXYZsToExtendedSpatialIDs
   ===================================================================================================================== *)
(* Some (mn, mx): the tile must be accepted with exactly this range; None: the tile must make the call fail *)
Definition tile_ref (E O outV : Z) (t : tile) : option (Z * Z) :=
  let s := key_scale (tv t) E O in let g := sid_scale outV in
  if ext_check_zoom (th t) outV && zoom_ok (tv t) && in_rangeb s (tz t) then      (* zoom_ok (tv t): the conversion refuses zooms outside 0..35 (9dab435) *)
    let mn := wid_min_z s g (tz t) in let mx := wid_max_z s g (tz t) in
    if in_rangeb g mn && in_rangeb g mx then Some (mn, mx) else None
  else None.

Lemma wid_z_le s g i : wid_min_z s g i <= wid_max_z s g i.
Proof. rewrite <- wid_min_z_spec, <- wid_max_z_spec. pose proof (cover_chain s i g). lia. Qed.

Lemma key2z_by_reference k kz out E O :
  key2z k kz out E O =
  let s := key_scale kz E O in let g := sid_scale out in
  if negb (zoom_ok kz) || negb (zoom_ok out) then Err
  else if in_rangeb s k then
    let mn := wid_min_z s g k in let mx := wid_max_z s g k in
    if in_rangeb g mn && in_rangeb g mx then Ok (mn, mx) else Err
  else Err.
Proof.
  rewrite key2z_unfold, (index_exists_eq k kz false E O), key2z_raw_spec. cbv zeta. fold (key_scale kz E O).
  destruct (negb (zoom_ok kz) || negb (zoom_ok out)); [reflexivity|].
  destruct (in_rangeb (key_scale kz E O) k); cbn [negb]; [|reflexivity].
  pose proof (wid_z_le (key_scale kz E O) (sid_scale out) k) as L.
  set (mn := wid_min_z _ _ _) in *. set (mx := wid_max_z _ _ _) in *.
  unfold in_rangeb, sid_scale. cbn [sneg sz].
  destruct (Z.ltb_spec (2 ^ out - 1) mx), (Z.ltb_spec mn (- 2 ^ out)), (Z.leb_spec (- 2 ^ out) mn), (Z.ltb_spec mn (2 ^ out)),
    (Z.leb_spec (- 2 ^ out) mx), (Z.ltb_spec mx (2 ^ out)); cbn; try reflexivity; lia.
Qed.

Lemma ext_check_zoom_out h v : ext_check_zoom h v = true -> zoom_ok v = true.
Proof. unfold ext_check_zoom, zoom_ok. intros H. apply andb_true_iff in H. tauto. Qed.
Lemma tile_ref_Some E O outV t mn mx : tile_ref E O outV t = Some (mn, mx) <-> tile_accepted E O outV t mn mx.
Proof.
  unfold tile_ref, tile_accepted. rewrite key2z_by_reference. cbv zeta.
  destruct (ext_check_zoom (th t) outV) eqn:Z; cbn [andb]; [|split; [discriminate|intros [? _]; discriminate]].
  rewrite (ext_check_zoom_out _ _ Z). destruct (zoom_ok (tv t)); cbn [negb orb andb]; [|split; [discriminate|intros [_ ?]; discriminate]].
  destruct (in_rangeb (key_scale (tv t) E O) (tz t)); [|split; [discriminate|intros [_ ?]; discriminate]].
  destruct (in_rangeb _ _ && in_rangeb _ _); split; try discriminate.
  - intros [= <- <-]. auto.
  - intros [_ [= <- <-]]. reflexivity.
  - intros [_ ?]. discriminate.
Qed.
Lemma tile_ref_None E O outV t : tile_ref E O outV t = None <-> tile_rejected E O outV t.
Proof.
  unfold tile_ref, tile_rejected. rewrite key2z_by_reference. cbv zeta.
  destruct (ext_check_zoom (th t) outV) eqn:Z; cbn [andb]; [|split; auto].
  rewrite (ext_check_zoom_out _ _ Z). destruct (zoom_ok (tv t)); cbn [negb orb andb]; [|split; auto].
  destruct (in_rangeb (key_scale (tv t) E O) (tz t)); [|split; auto].
  destruct (in_rangeb _ _ && in_rangeb _ _); split; auto; try discriminate. intros [?|?]; discriminate.
Qed.

(* j has the footprint of t, the requested vertical zoom, and a vertical index inside [mn, mx] (vertical index tested first: it decides
   almost always) *)
Definition stems_in (t : tile) (outV mn mx : Z) (j : eid) : bool :=
  (ef j <=? mx) && (mn <=? ef j) && (eh j =? th t) && (ex j =? tx t) && (ey j =? ty t) && (ev j =? outV).
(* the same against a tile paired with its (pre-computed) reference range *)
Definition stems_ref (outV : Z) (tr : tile * option (Z * Z)) (j : eid) : bool :=
  match snd tr with Some (mn, mx) => stems_in (fst tr) outV mn mx j | None => false end.
Definition stems_b (E O outV : Z) (t : tile) (j : eid) : bool := stems_ref outV (t, tile_ref E O outV t) j.
(* the whole reference range of t is present (counted: r has no duplicates) *)
Definition covered_ref (outV : Z) (r : list eid) (tr : tile * option (Z * Z)) : bool :=
  match snd tr with
  | Some (mn, mx) => Z.of_nat (length (filter (stems_in (fst tr) outV mn mx) r)) =? mx - mn + 1
  | None => false
  end.
Definition covered_b (E O outV : Z) (r : list eid) (t : tile) : bool := covered_ref outV r (t, tile_ref E O outV t).
Definition rejected_ref (tr : tile * option (Z * Z)) : bool := match snd tr with None => true | Some _ => false end.
Definition rejected_b (E O outV : Z) (t : tile) : bool := rejected_ref (t, tile_ref E O outV t).

(* multiset equality of ID lists: merge sort on the five numbers (vertical index first), then ordered comparison *)
Fixpoint lex_leb (a b : list Z) : bool :=
  match a, b with
  | [], _ => true
  | _ :: _, [] => false
  | x :: a', y :: b' => if x <? y then true else if y <? x then false else lex_leb a' b'
  end.
Lemma lex_leb_total a b : lex_leb a b = true \/ lex_leb b a = true.
Proof.
  revert b. induction a as [|x a IH]; destruct b as [|y b]; cbn; auto.
  destruct (Z.ltb_spec x y), (Z.ltb_spec y x); auto; lia.
Qed.
Module EidOrder <: TotalLeBool.
  Definition t := eid.
  Definition leb (a b : eid) : bool := lex_leb [ef a; eh a; ex a; ey a; ev a] [ef b; eh b; ex b; ey b; ev b].
  Theorem leb_total : forall a b, leb a b = true \/ leb b a = true.
  Proof. intros a b. apply lex_leb_total. Qed.
End EidOrder.
Module EidSort := Sort EidOrder.
Definition eid_key (j : eid) : list Z := [ef j; eh j; ex j; ey j; ev j].
Lemma lex_leb_trans a b c : lex_leb a b = true -> lex_leb b c = true -> lex_leb a c = true.
Proof.
  revert b c. induction a as [|x a IH]; intros [|y b] [|z c]; cbn; try congruence; auto.
  destruct (Z.ltb_spec x y), (Z.ltb_spec y x), (Z.ltb_spec y z), (Z.ltb_spec z y), (Z.ltb_spec x z), (Z.ltb_spec z x);
    try congruence; try lia; intros; eapply IH; eassumption.
Qed.
Lemma lex_leb_antisym a b : lex_leb a b = true -> lex_leb b a = true -> a = b.
Proof.
  revert b. induction a as [|x a IH]; intros [|y b]; cbn; try congruence.
  destruct (Z.ltb_spec x y), (Z.ltb_spec y x); try congruence; try lia. intros H1 H2. f_equal; [lia|auto].
Qed.
Lemma eid_leb_trans : Relations_1.Transitive (fun a b => is_true (EidOrder.leb a b)).
Proof. intros a b c. unfold EidOrder.leb. apply lex_leb_trans. Qed.
Lemma eid_leb_antisym a b : EidOrder.leb a b = true -> EidOrder.leb b a = true -> a = b.
Proof.
  unfold EidOrder.leb. intros H1 H2. pose proof (lex_leb_antisym _ _ H1 H2) as E. destruct a, b; cbn in E. congruence.
Qed.

(* duplicate test and duplicate removal through the sorted list (n log n; the quadratic versions limit the result sizes that can be run) *)
Fixpoint adj_distinct (l : list eid) : bool :=
  match l with a :: (b :: _) as r => negb (eid_eqb a b) && adj_distinct r | _ => true end.
Fixpoint dedup_adj (l : list eid) : list eid :=
  match l with a :: (b :: _) as r => if eid_eqb a b then dedup_adj r else a :: dedup_adj r | _ => l end.
Definition nodup_sortb (l : list eid) : bool := adj_distinct (EidSort.sort l).
Definition dedup_sort (l : list eid) : list eid := dedup_adj (EidSort.sort l).

Lemma adj_distinct_cons2 a b l : adj_distinct (a :: b :: l) = negb (eid_eqb a b) && adj_distinct (b :: l).
Proof. reflexivity. Qed.
Lemma dedup_adj_cons2 a b l : dedup_adj (a :: b :: l) = if eid_eqb a b then dedup_adj (b :: l) else a :: dedup_adj (b :: l).
Proof. reflexivity. Qed.
Lemma ss_head_notin a b l : Sorted.StronglySorted (fun x y => is_true (EidOrder.leb x y)) (a :: b :: l) -> a <> b -> ~ In a (b :: l).
Proof.
  intros S N [E|H]; [congruence|]. inversion S as [|? ? S1 F1]; subst. inversion S1 as [|? ? S2 F2]; subst.
  inversion F1 as [|? ? Lab _]; subst. rewrite Forall_forall in F2. specialize (F2 a H). apply N. now apply eid_leb_antisym.
Qed.
Lemma ss_adj_nodup l : Sorted.StronglySorted (fun x y => is_true (EidOrder.leb x y)) l -> adj_distinct l = true -> NoDup l.
Proof.
  induction l as [|a [|b l] IH]; intros S H; [constructor|constructor; [intros []|constructor]|].
  rewrite adj_distinct_cons2 in H. apply andb_true_iff in H. destruct H as [N H]. apply negb_true_iff in N.
  constructor; [|apply IH; [now inversion S|exact H]].
  apply ss_head_notin; [exact S|]. intros E. destruct (eid_eqb_spec a b); congruence.
Qed.
Lemma nodup_adj l : NoDup l -> adj_distinct l = true.
Proof.
  induction l as [|a [|b l] IH]; intros H; try reflexivity. rewrite adj_distinct_cons2. inversion H as [|? ? Ha Hl]; subst.
  rewrite (IH Hl), andb_true_r. apply negb_true_iff. destruct (eid_eqb_spec a b) as [->|]; [|reflexivity]. exfalso. apply Ha. now left.
Qed.
Theorem nodup_sortb_spec l : nodup_sortb l = true <-> NoDup l.
Proof.
  unfold nodup_sortb. pose proof (EidSort.Permuted_sort l) as P. split.
  - intros H. apply (Permutation_NoDup (Permutation_sym P)). apply ss_adj_nodup; [|exact H]. apply EidSort.StronglySorted_sort, eid_leb_trans.
  - intros H. apply nodup_adj. exact (Permutation_NoDup P H).
Qed.
Lemma dedup_adj_In x l : In x (dedup_adj l) <-> In x l.
Proof.
  induction l as [|a [|b l] IH]; try tauto. rewrite dedup_adj_cons2. destruct (eid_eqb_spec a b) as [->|N].
  - rewrite IH. cbn [In]. tauto.
  - cbn [In] in *. rewrite IH. tauto.
Qed.
Lemma dedup_adj_nodup l : Sorted.StronglySorted (fun x y => is_true (EidOrder.leb x y)) l -> NoDup (dedup_adj l).
Proof.
  induction l as [|a [|b l] IH]; intros S; [constructor|constructor; [intros []|constructor]|].
  rewrite dedup_adj_cons2. assert (S' : Sorted.StronglySorted (fun x y => is_true (EidOrder.leb x y)) (b :: l)) by now inversion S.
  destruct (eid_eqb_spec a b) as [->|N]; [now apply IH|]. constructor; [|now apply IH].
  rewrite dedup_adj_In. now apply ss_head_notin.
Qed.
Theorem dedup_sort_spec l : NoDup (dedup_sort l) /\ forall x, In x (dedup_sort l) <-> In x l.
Proof.
  unfold dedup_sort. split; [apply dedup_adj_nodup, EidSort.StronglySorted_sort, eid_leb_trans|].
  intros x. rewrite dedup_adj_In. pose proof (EidSort.Permuted_sort l) as P.
  split; [apply (Permutation_in _ (Permutation_sym P))|apply (Permutation_in _ P)].
Qed.
Corollary dedup_sort_nodupb l : Permutation (dedup_sort l) (nodupb eid_eqf l).
Proof.
  destruct (dedup_sort_spec l) as [N M]. apply NoDup_Permutation; [exact N|apply (nodupb_NoDup eid_eqf eid_eqf_spec)|].
  intros x. rewrite M, (nodupb_In eid_eqf eid_eqf_spec). tauto.
Qed.

(* observed: Some r = no error, IDs r;  None = an error and no result.  The reference of every tile is computed once. *)
Definition check_eids (l : list tile) (E O outV : Z) (obs : option (list eid)) : bool :=
  let refs := map (fun t => (t, tile_ref E O outV t)) l in
  match obs with
  | Some r => ext_check_zoom 0 outV && nodup_sortb r && forallb (covered_ref outV r) refs && forallb (fun j => existsb (fun tr => stems_ref outV tr j) refs) r
  | None => negb (ext_check_zoom 0 outV) || existsb rejected_ref refs
  end.

Lemma forallb_map' {A B} (f : B -> bool) (g : A -> B) l : forallb f (map g l) = forallb (fun x => f (g x)) l.
Proof. induction l as [|a l IH]; cbn; [reflexivity|]. now rewrite IH. Qed.
Lemma existsb_map' {A B} (f : B -> bool) (g : A -> B) l : existsb f (map g l) = existsb (fun x => f (g x)) l.
Proof. induction l as [|a l IH]; cbn; [reflexivity|]. now rewrite IH. Qed.
Lemma forallb_ext' {A} (f g : A -> bool) l : (forall a, f a = g a) -> forallb f l = forallb g l.
Proof. intros H. induction l as [|a l IH]; cbn; [reflexivity|]. now rewrite H, IH. Qed.
Lemma check_eids_unfold l E O outV obs :
  check_eids l E O outV obs =
  match obs with
  | Some r => ext_check_zoom 0 outV && nodup_sortb r && forallb (covered_b E O outV r) l && forallb (fun j => existsb (fun t => stems_b E O outV t j) l) r
  | None => negb (ext_check_zoom 0 outV) || existsb (rejected_b E O outV) l
  end.
Proof.
  unfold check_eids. destruct obs as [r|]; [|rewrite existsb_map'; reflexivity]. rewrite forallb_map'.
  replace (forallb (fun j => existsb (fun tr => stems_ref outV tr j) (map (fun t => (t, tile_ref E O outV t)) l)) r)
    with (forallb (fun j => existsb (fun t => stems_b E O outV t j) l) r); [reflexivity|].
  apply forallb_ext'. intros j. rewrite existsb_map'. reflexivity.
Qed.

(* the specification in the words of the property *)
Definition eids_spec_k (l : list tile) (E O outV : Z) (obs : option (list eid)) : Prop :=
  match obs with
  | Some r => 0 <= outV <= 35 /\ (forall t, In t l -> exists mn mx, tile_accepted E O outV t mn mx) /\ NoDup r /\
              (forall j, In j r <-> exists t, In t l /\ from_tile E O outV t j)
  | None => ~ (0 <= outV <= 35) \/ exists t, In t l /\ tile_rejected E O outV t
  end.

Lemma stems_b_spec E O outV t j : stems_b E O outV t j = true <-> from_tile E O outV t j.
Proof.
  unfold stems_b, stems_ref, stems_in, from_tile. cbn [fst snd]. destruct (tile_ref E O outV t) as [[mn mx]|] eqn:R.
  - apply tile_ref_Some in R. rewrite !andb_true_iff, !Z.eqb_eq, !Z.leb_le. split.
    + intros H. exists mn, mx. tauto.
    + intros (mn' & mx' & [_ K] & H). destruct R as [_ K']. rewrite K' in K. injection K as <- <-. tauto.
  - split; [discriminate|]. intros (mn & mx & A & _). apply tile_ref_Some in A. congruence.
Qed.

Lemma stems_ef_inj E O outV t a b : stems_b E O outV t a = true -> stems_b E O outV t b = true -> ef a = ef b -> a = b.
Proof.
  rewrite !stems_b_spec. intros (_ & _ & _ & A1 & A2 & A3 & A4 & _) (_ & _ & _ & B1 & B2 & B3 & B4 & _) Ef.
  destruct a, b; cbn in *. congruence.
Qed.

(* pigeonhole: a duplicate-free list holding (mx - mn + 1) IDs of tile t's range holds them all — and conversely *)
Lemma covered_b_spec E O outV r t : NoDup r ->
  covered_b E O outV r t = true <->
  exists mn mx, tile_accepted E O outV t mn mx /\ forall f, mn <= f <= mx -> In (mk (th t) (tx t) (ty t) outV f) r.
Proof.
  intros Hnd. unfold covered_b, covered_ref. cbn [fst snd]. destruct (tile_ref E O outV t) as [[mn mx]|] eqn:R.
  2:{ split; [discriminate|]. intros (mn & mx & A & _). apply tile_ref_Some in A. congruence. }
  replace (filter (stems_in t outV mn mx) r) with (filter (stems_b E O outV t) r)
    by (apply filter_ext; intros j; unfold stems_b, stems_ref; cbn [fst snd]; now rewrite R).
  pose proof R as Acc. apply tile_ref_Some in Acc.
  assert (Hle : mn <= mx) by (apply tile_accepted_C12 in Acc; cbv zeta in Acc; tauto).
  set (F := filter (stems_b E O outV t) r).
  assert (HF : forall j, In j F <-> In j r /\ from_tile E O outV t j) by (intros j; unfold F; rewrite filter_In, stems_b_spec; tauto).
  assert (HFnd : NoDup (map ef F)).
  { apply NoDup_map_in; [|apply NoDup_filter; exact Hnd]. intros a b Ha Hb. unfold F in Ha, Hb. apply filter_In in Ha, Hb.
    apply (stems_ef_inj E O outV t); tauto. }
  assert (Hincl : incl (map ef F) (zrange mn mx)).
  { intros f Hf. apply in_map_iff in Hf. destruct Hf as (j & <- & Hj). apply HF in Hj. destruct Hj as [_ (mn' & mx' & [_ K] & _ & _ & _ & _ & Hr)].
    destruct Acc as [_ K']. rewrite K' in K. injection K as <- <-. apply in_zrange. exact Hr. }
  rewrite Z.eqb_eq. split.
  - intros Hlen. exists mn, mx. split; [exact Acc|]. intros f Hf.
    assert (Hin : In f (map ef F)).
    { apply (@NoDup_length_incl Z (map ef F) (zrange mn mx) HFnd); [|exact Hincl|apply in_zrange; exact Hf].
      rewrite map_length, zrange_length. fold F in Hlen. lia. }
    apply in_map_iff in Hin. destruct Hin as (j & <- & Hj). apply HF in Hj. destruct Hj as [Hjr (mn' & mx' & _ & E1 & E2 & E3 & E4 & _)].
    replace (mk (th t) (tx t) (ty t) outV (ef j)) with j; [exact Hjr|]. destruct j; cbn in *; subst; reflexivity.
  - intros (mn' & mx' & [_ K] & Hall). destruct Acc as [Z K']. rewrite K' in K. injection K as <- <-.
    assert (P : Permutation (map ef F) (zrange mn mx)).
    { apply NoDup_Permutation; [exact HFnd|apply zrange_NoDup|]. intros f. split; [apply Hincl|].
      intros Hf. apply in_zrange in Hf. apply in_map_iff. exists (mk (th t) (tx t) (ty t) outV f). split; [reflexivity|].
      apply HF. split; [apply Hall; exact Hf|]. exists mn, mx. cbn. repeat split; try reflexivity; try lia; assumption. }
    apply Permutation_length in P. rewrite map_length, zrange_length in P. fold F. lia.
Qed.

(* THE CHECKER DECIDES THE SPECIFICATION *)
Theorem check_eids_sound l E O outV obs : check_eids l E O outV obs = true <-> eids_spec_k l E O outV obs.
Proof.
  rewrite check_eids_unfold. destruct obs as [r|]; cbn [eids_spec_k].
  - rewrite !andb_true_iff, nodup_sortb_spec, !forallb_forall, ext_check_zoom_0. split.
    + intros [[[Hz Hnd] Hcov] Hst]. split; [exact Hz|]. split; [|split; [exact Hnd|]].
      * intros t Ht. pose proof (Hcov t Ht) as C. apply (covered_b_spec _ _ _ _ _ Hnd) in C. destruct C as (mn & mx & A & _). eauto.
      * intros j. split.
        -- intros Hj. specialize (Hst j Hj). apply existsb_exists in Hst. destruct Hst as (t & Ht & S). exists t. split; [exact Ht|]. now apply stems_b_spec.
        -- intros (t & Ht & (mn & mx & A & E1 & E2 & E3 & E4 & Hr)). pose proof (Hcov t Ht) as C. apply (covered_b_spec _ _ _ _ _ Hnd) in C.
           destruct C as (mn' & mx' & [_ K'] & Hall). destruct A as [_ K]. rewrite K in K'. injection K' as <- <-.
           replace j with (mk (th t) (tx t) (ty t) outV (ef j)); [apply Hall; exact Hr|]. destruct j; cbn in *; subst; reflexivity.
    + intros (Hz & Hacc & Hnd & Hmem). split; [split; [split; [exact Hz|exact Hnd]|]|].
      * intros t Ht. apply (covered_b_spec _ _ _ _ _ Hnd). destruct (Hacc t Ht) as (mn & mx & A). exists mn, mx. split; [exact A|].
        intros f Hf. apply Hmem. exists t. split; [exact Ht|]. exists mn, mx. split; [exact A|]. cbn. repeat split; try reflexivity; lia.
      * intros j Hj. apply Hmem in Hj. destruct Hj as (t & Ht & S). apply existsb_exists. exists t. split; [exact Ht|]. now apply stems_b_spec.
  - rewrite orb_true_iff, negb_true_iff, <- not_true_iff_false, ext_check_zoom_0, existsb_exists. unfold rejected_b, rejected_ref. cbn [snd].
    split; (intros [N|(t & Ht & H)]; [now left|right]); exists t; (split; [exact Ht|]).
    + apply tile_ref_None. destruct (tile_ref E O outV t); [discriminate|reflexivity].
    + apply tile_ref_None in H. now rewrite H.
Qed.

(* the model meets the specification, and the specification fixes the result up to order *)
Theorem eids_spec_k_model l E O outV : eids_spec_k l E O outV (res_opt (tiles_to_eids l E O outV)).
Proof.
  destruct (tiles_to_eids l E O outV) as [r|] eqn:H; cbn [res_opt eids_spec_k].
  - split; [apply tiles_to_eids_Ok_inv in H; tauto|]. split; [|split].
    + intros t Ht. destruct (tiles_to_eids_complete _ _ _ _ _ _ H Ht) as (mn & mx & A & _). eauto.
    + eapply tiles_to_eids_NoDup; eauto.
    + apply tiles_to_eids_members. exact H.
  - apply tiles_to_eids_err_iff. exact H.
Qed.
Theorem eids_spec_k_unique l E O outV obs : eids_spec_k l E O outV obs ->
  match obs, tiles_to_eids l E O outV with
  | Some r, Ok r' => Permutation r r'
  | None, Err => True
  | _, _ => False
  end.
Proof.
  intros S. pose proof (eids_spec_k_model l E O outV) as M. destruct obs as [r|], (tiles_to_eids l E O outV) as [r'|] eqn:H; cbn [res_opt eids_spec_k] in *.
  - destruct S as (_ & _ & N1 & M1), M as (_ & _ & N2 & M2). apply NoDup_Permutation; try assumption. intros j. rewrite M1, M2. tauto.
  - destruct S as (Hz & A & _), M as [N|(t & Ht & R)]; [contradiction|]. destruct (A t Ht) as (mn & mx & [Z K]). destruct R as [R|R]; congruence.
  - destruct M as (Hz & A & _), S as [N|(t & Ht & R)]; [contradiction|]. destruct (A t Ht) as (mn & mx & [Z K]). destruct R as [R|R]; congruence.
  - exact I.
Qed.

(* THE SPECIFICATION IN WORDS THAT DO NOT MENTION THE CONVERSION FUNCTION (Tile.tile_fits / stems_from): zooms in 0..35, z an index of
   its vertical zoom, the metre-widened cover of the tile's altitude interval inside [-2^outV, 2^outV); the IDs are exactly the voxels
   with a tile's footprint, the requested vertical zoom and a vertical index in that tile's widened cover, none twice *)
Definition eids_spec (l : list tile) (E O outV : Z) (obs : option (list eid)) : Prop :=
  match obs with
  | Some r => 0 <= outV <= 35 /\ (forall t, In t l -> tile_fits E O outV t) /\ NoDup r /\
              (forall j, In j r <-> exists t, In t l /\ stems_from E O outV t j)
  | None => ~ (0 <= outV <= 35) \/ exists t, In t l /\ ~ tile_fits E O outV t
  end.
Lemma eids_spec_iff l E O outV obs : eids_spec l E O outV obs <-> eids_spec_k l E O outV obs.
Proof.
  destruct obs as [r|]; cbn [eids_spec eids_spec_k].
  - split; intros (Hz & Hall & Hnd & Hm); (split; [exact Hz|]); (split; [|split; [exact Hnd|]]).
    + intros t Ht. eexists _, _. apply tile_accepted_iff. split; [apply Hall, Ht|split; reflexivity].
    + intros j. rewrite Hm. split; intros (t & Ht & X); exists t; (split; [exact Ht|]); now apply from_tile_iff.
    + intros t Ht. destruct (Hall t Ht) as (mn & mx & A). apply tile_accepted_iff in A. tauto.
    + intros j. rewrite Hm. split; intros (t & Ht & X); exists t; (split; [exact Ht|]); now apply from_tile_iff.
  - split; (intros [N|(t & Ht & R)]; [now left|right]); exists t; (split; [exact Ht|]); now apply tile_rejected_iff.
Qed.
Theorem check_eids_decides l E O outV obs : check_eids l E O outV obs = true <-> eids_spec l E O outV obs.
Proof. rewrite eids_spec_iff. apply check_eids_sound. Qed.
Theorem eids_spec_of_model l E O outV : eids_spec l E O outV (res_opt (tiles_to_eids l E O outV)).
Proof. apply eids_spec_iff, eids_spec_k_model. Qed.
Theorem eids_spec_fixes_result l E O outV obs : eids_spec l E O outV obs ->
  match obs, tiles_to_eids l E O outV with
  | Some r, Ok r' => Permutation r r'
  | None, Err => True
  | _, _ => False
  end.
Proof. intros S. apply eids_spec_k_unique, eids_spec_iff, S. Qed.
Lemma eids_spec_perm l E O outV r r' : Permutation r r' -> eids_spec l E O outV (Some r) -> eids_spec l E O outV (Some r').
Proof.
  intros P (Hz & Hall & Hnd & Hm). split; [exact Hz|]. split; [exact Hall|]. split; [exact (Permutation_NoDup P Hnd)|].
  intros j. rewrite <- Hm. split; [apply (Permutation_in _ (Permutation_sym P))|apply (Permutation_in _ P)].
Qed.

(* WHAT AN ACCEPTED OBSERVATION OF THE EXTENDED VARIANT GUARANTEES, in the words of the property: every tile fits; no ID twice; every ID
   keeps the footprint of a tile and has the requested vertical zoom; the IDs cover every tile (footprint x altitude interval); no ID
   strays beyond the metre-widened interval of a tile with its footprint *)
Theorem eids_accepted_observation l E O outV r : check_eids l E O outV (Some r) = true ->
  0 <= outV <= 35 /\ (forall t, In t l -> tile_fits E O outV t) /\ NoDup r /\
  (forall j, In j r -> ev j = outV /\ exists t, In t l /\ eh j = th t /\ ex j = tx t /\ ey j = ty t) /\
  (forall t p, In t l -> inT E O t p -> exists j, In j r /\ Voxel.inR j p) /\
  (forall j, In j r -> exists t, In t l /\ eh j = th t /\ ex j = tx t /\ ey j = ty t /\
     exists a, (IZR (Zfloor (tile_lo E O t)) <= a < IZR (Zceil (tile_hi E O t)))%R /\ in_cell (sid_scale outV) (ef j) a).
Proof.
  intros C. apply check_eids_decides in C. pose proof (eids_spec_fixes_result _ _ _ _ _ C) as U.
  destruct (tiles_to_eids l E O outV) as [r'|] eqn:H; [|contradiction]. destruct C as (Hz & Hall & Hnd & Hm).
  split; [exact Hz|]. split; [exact Hall|]. split; [exact Hnd|]. split; [|split].
  - intros j Hj. apply Hm in Hj. destruct Hj as (t & Ht & _ & E1 & E2 & E3 & E4 & _). split; [exact E4|]. exists t. auto.
  - intros t p Ht Hp. destruct (tiles_cover _ _ _ _ _ _ _ H Ht Hp) as (j & Hj & Hr). exists j. split; [|exact Hr].
    exact (Permutation_in _ (Permutation_sym U) Hj).
  - intros j Hj. apply (Permutation_in _ U) in Hj. destruct (tiles_no_stray _ _ _ _ _ _ H Hj) as (t & Ht & E1 & E2 & E3 & _ & W & _).
    exists t. auto.
Qed.
Theorem eids_rejected_observation l E O outV : check_eids l E O outV None = true ->
  ~ (0 <= outV <= 35) \/ exists t, In t l /\ ~ tile_fits E O outV t.
Proof. intros C. apply check_eids_decides in C. exact C. Qed.

(* =====================================================================================================================
   2. The checker for ConvertTileXYZsToSpatialIDs: the observed strings are, as a multiset, the C10 expansion of the reference IDs
   ===================================================================================================================== *)
Definition ref_range (E O outV : Z) (t : tile) : list eid :=
  match tile_ref E O outV t with
  | Some (mn, mx) => map (fun f => mk (th t) (tx t) (ty t) outV f) (zrange mn mx)
  | None => []
  end.
Definition ref_eids (l : list tile) (E O outV : Z) : option (list eid) :=
  if negb (ext_check_zoom 0 outV) || existsb (rejected_b E O outV) l then None else Some (nodupb eid_eqf (flat_map (ref_range E O outV) l)).

Definition eids_multiset_eqb (a b : list eid) : bool := list_eqb eid_eqb (EidSort.sort a) (EidSort.sort b).
Lemma eids_multiset_eqb_perm a b : eids_multiset_eqb a b = true -> Permutation a b.
Proof.
  unfold eids_multiset_eqb. intros H. destruct (list_eqb_spec eid_eqb eid_eqb_spec (EidSort.sort a) (EidSort.sort b)) as [E|]; [|discriminate].
  apply Permutation_trans with (EidSort.sort a); [apply EidSort.Permuted_sort|]. rewrite E. apply Permutation_sym, EidSort.Permuted_sort.
Qed.


(* the strings ss are the canonical spatial IDs of a permutation of ref (parsed once, compared as numbers: sorting thousands of strings
   is the dominant cost otherwise) *)
Definition sids_match (ss : list string) (ref : list eid) : bool :=
  match map_opt parse_sid ss with
  | Some js => forall2b (fun s j => String.eqb s (print_sid j)) ss js && eids_multiset_eqb js ref
  | None => false
  end.
Lemma sids_match_sound ss ref : sids_match ss ref = true -> Permutation ss (map print_sid ref).
Proof.
  unfold sids_match. destruct (map_opt parse_sid ss) as [js|]; [|discriminate]. rewrite andb_true_iff. intros [F P].
  apply eids_multiset_eqb_perm in P.
  assert (E : ss = map print_sid js).
  { apply (forall2b_spec _ (fun s j => s = print_sid j)) in F; [|intros a b; apply String.eqb_eq]. clear P.
    induction F as [|s j ss' js' H _ IH]; cbn; [reflexivity|]. f_equal; [exact H|exact IH]. }
  rewrite E. now apply Permutation_map.
Qed.
Lemma eids_multiset_eqb_refl a : eids_multiset_eqb a a = true.
Proof. unfold eids_multiset_eqb. destruct (list_eqb_spec eid_eqb eid_eqb_spec (EidSort.sort a) (EidSort.sort a)); congruence. Qed.
Lemma sids_match_complete ref : (forall j, In j ref -> fields_ok j = true /\ eh j = ev j) -> sids_match (map print_sid ref) ref = true.
Proof.
  intros H. unfold sids_match.
  assert (E : map_opt parse_sid (map print_sid ref) = Some ref).
  { induction ref as [|j r IH]; cbn [map map_opt]; [reflexivity|].
    destruct (H j (or_introl eq_refl)) as [F Z]. rewrite (parse_print_sid j F Z), IH; [reflexivity|]. intros k Hk. apply H. now right. }
  rewrite E, eids_multiset_eqb_refl, andb_true_r. clear E H.
  induction ref as [|j r IH]; cbn [map forall2b]; [reflexivity|]. now rewrite String.eqb_refl, IH.
Qed.

Definition multiset_eqb (a b : list string) : bool := list_eqb String.eqb (sort_strings a) (sort_strings b).
Lemma multiset_eqb_perm a b : multiset_eqb a b = true -> Permutation a b.
Proof.
  unfold multiset_eqb. intros H. destruct (list_eqb_spec String.eqb String.eqb_spec (sort_strings a) (sort_strings b)) as [E|]; [|discriminate].
  apply Permutation_trans with (sort_strings a); [apply Permutation_sym, sort_strings_perm|]. rewrite E. apply sort_strings_perm.
Qed.
Lemma multiset_eqb_refl a : multiset_eqb a a = true.
Proof. unfold multiset_eqb. destruct (list_eqb_spec String.eqb String.eqb_spec (sort_strings a) (sort_strings a)); congruence. Qed.

Definition check_sids (l : list tile) (E O outV : Z) (obs : option (list string)) : bool :=
  match ref_eids l E O outV, obs with
  | Some r, Some ss => sids_match ss (flat_map expand_rec r)
  | None, None => true
  | _, _ => false
  end.
Definition sids_spec (l : list tile) (E O outV : Z) (obs : option (list string)) : Prop :=
  match obs with
  | Some ss => exists r, eids_spec l E O outV (Some r) /\ Permutation ss (map print_sid (flat_map expand_rec r))
  | None => eids_spec l E O outV None
  end.

Lemma ref_range_out E O outV t : ref_range E O outV t = tile_out E O outV t.
Proof.
  unfold ref_range, tile_out. destruct (tile_ref E O outV t) as [[mn mx]|] eqn:R.
  - apply tile_ref_Some in R. now rewrite (tile_ids_accepted _ _ _ _ _ _ R).
  - apply tile_ref_None, tile_ids_Err in R. now rewrite R.
Qed.
Lemma ref_eids_model l E O outV : ref_eids l E O outV = res_opt (tiles_to_eids l E O outV).
Proof.
  unfold ref_eids, tiles_to_eids. destruct (ext_check_zoom 0 outV); cbn [negb orb]; [|reflexivity].
  destruct (existsb (rejected_b E O outV) l) eqn:X.
  - apply existsb_exists in X. destruct X as (t & Ht & R). unfold rejected_b in R. destruct (tile_ref E O outV t) eqn:T; [discriminate|].
    apply tile_ref_None, tile_ids_Err in T. assert (Y : tiles_collect E O outV l = Err) by (apply tiles_collect_Err; eauto). now rewrite Y.
  - destruct (tiles_collect E O outV l) as [a|] eqn:C.
    + apply tiles_collect_Ok in C. destruct C as [_ ->]. cbn [res_opt]. do 2 f_equal. apply flat_map_ext. intros t. apply ref_range_out.
    + exfalso. apply tiles_collect_Err in C. destruct C as (t & Ht & R). apply tile_ids_Err, tile_ref_None in R.
      apply not_true_iff_false in X. apply X. apply existsb_exists. exists t. split; [exact Ht|]. unfold rejected_b. now rewrite R.
Qed.

Theorem check_sids_sound l E O outV obs : check_sids l E O outV obs = true -> sids_spec l E O outV obs.
Proof.
  unfold check_sids. rewrite ref_eids_model. pose proof (eids_spec_of_model l E O outV) as M.
  destruct (tiles_to_eids l E O outV) as [r|]; cbn [res_opt] in *; destruct obs as [ss|]; try discriminate; cbn [sids_spec].
  - intros H. exists r. split; [exact M|]. now apply sids_match_sound.
  - intros _. exact M.
Qed.
(* the model meets the specification; and its own output is accepted by the checker (no false alarm) when the tiles' x, y are indices
   of their horizontal zoom *)
Theorem sids_spec_model l E O outV : sids_spec l E O outV (res_opt (tiles_to_sids l E O outV)).
Proof.
  pose proof (eids_spec_of_model l E O outV) as M. rewrite tiles_to_sids_print. unfold tiles_to_sids_rec.
  destruct (tiles_to_eids l E O outV) as [r|]; cbn [res_opt sids_spec] in *; [|exact M]. exists r. split; [exact M|apply Permutation_refl].
Qed.
Theorem check_sids_model l E O outV : (forall t, In t l -> footprint_ok t) ->
  check_sids l E O outV (res_opt (tiles_to_sids l E O outV)) = true.
Proof.
  intros Hf. unfold check_sids. rewrite ref_eids_model, tiles_to_sids_print. unfold tiles_to_sids_rec.
  destruct (tiles_to_eids l E O outV) as [r|] eqn:H; cbn [res_opt]; [|reflexivity]. apply sids_match_complete.
  intros j Hj. apply in_flat_map in Hj. destruct Hj as (i & Hi & Hj).
  pose proof (tiles_to_eids_valid _ _ _ _ _ H Hf i Hi) as Vi. destruct (expand_rec_valid i j Vi Hj) as (Vj & E1 & E2).
  split; [now apply valid_fields_ok|congruence].
Qed.
(* what an accepted observation guarantees, in the words of the property (tiles with x, y inside their horizontal zoom) *)
Theorem sids_spec_consequences l E O outV ss : sids_spec l E O outV (Some ss) -> (forall t, In t l -> footprint_ok t) ->
  exists r js, tiles_to_eids l E O outV = Ok r /\ tiles_to_sids_rec l E O outV = Ok js /\ Permutation ss (map print_sid js) /\
    (forall s, In s ss -> exists j, parse_sid s = Some j /\ s = print_sid j /\ valid j /\ eh j = ev j /\ In j js) /\
    (forall p, (exists j, In j js /\ Voxel.inR j p) <-> (exists i, In i r /\ Voxel.inR i p)) /\
    (forall t p, In t l -> inT E O t p -> exists j, In j js /\ Voxel.inR j p).
Proof.
  intros (r0 & S & P) Hf. pose proof (eids_spec_fixes_result _ _ _ _ _ S) as U.
  destruct (tiles_to_eids l E O outV) as [r|] eqn:H; [|contradiction]. cbn in U.
  assert (P2 : Permutation ss (map print_sid (flat_map expand_rec r))).
  { apply (Permutation_trans P). apply Permutation_map. now apply Permutation_flat_map. }
  assert (Hs : tiles_to_sids_rec l E O outV = Ok (flat_map expand_rec r)) by (unfold tiles_to_sids_rec; now rewrite H).
  assert (Hf' : forall t, In t l -> 0 <= tx t /\ 0 <= ty t) by (intros t Ht; destruct (Hf t Ht); lia).
  exists r, (flat_map expand_rec r). split; [reflexivity|]. split; [exact Hs|]. split; [exact P2|]. split; [|split].
  - intros s Hin. apply (Permutation_in _ P2) in Hin.
    assert (Hss : tiles_to_sids l E O outV = Ok (map print_sid (flat_map expand_rec r))) by (rewrite tiles_to_sids_print, Hs; reflexivity).
    destruct (tiles_to_sids_strings _ _ _ _ _ Hss Hf s Hin) as (j & A & B & C & D & js & Ejs & Hj).
    rewrite Hs in Ejs. injection Ejs as <-. exists j. auto.
  - apply (tiles_to_sids_region _ _ _ _ _ _ H Hs Hf').
  - intros t p Ht Hp. eapply tiles_to_sids_cover; eauto.
Qed.

(* =====================================================================================================================
   3. NewTileXYZ observed through the accessors
   ===================================================================================================================== *)
Definition new_tile_spec_obs (h x y v z : Z) (obs : option (list Z)) : Prop :=
  (0 <= h <= 35 /\ 0 <= v <= 35 -> obs = Some [h; x; y; v; z]) /\ (~ (0 <= h <= 35 /\ 0 <= v <= 35) -> obs = None).
Definition check_new_tile (h x y v z : Z) (obs : option (list Z)) : bool :=
  if (0 <=? h) && (h <=? 35) && (0 <=? v) && (v <=? 35)
  then match obs with Some o => list_eqb Z.eqb o [h; x; y; v; z] | None => false end
  else match obs with None => true | Some _ => false end.
Theorem check_new_tile_sound h x y v z obs : check_new_tile h x y v z obs = true <-> new_tile_spec_obs h x y v z obs.
Proof.
  unfold check_new_tile, new_tile_spec_obs.
  destruct (Z.leb_spec 0 h), (Z.leb_spec h 35), (Z.leb_spec 0 v), (Z.leb_spec v 35); cbn [andb];
    try (destruct obs; split; [discriminate|intros [_ B]; discriminate B; lia|intros _; split; [lia|reflexivity]|intros _; reflexivity]).
  destruct obs as [o|].
  - destruct (list_eqb_spec Z.eqb Z.eqb_spec o [h; x; y; v; z]) as [->|N]; split; try discriminate.
    + intros _. split; [reflexivity|lia].
    + intros _. reflexivity.
    + intros [A _]. specialize (A ltac:(lia)). congruence.
  - split; [discriminate|]. intros [A _]. specialize (A ltac:(lia)). discriminate.
Qed.
Definition tile_fields (t : tile) : list Z := [th t; tx t; ty t; tv t; tz t].
Theorem new_tile_model_spec h x y v z :
  new_tile_spec_obs h x y v z (match new_tile h x y v z with Ok t => Some (tile_fields t) | Err => None end).
Proof.
  destruct (new_tile_spec h x y v z) as [A B]. split; intros D.
  - rewrite (A D). reflexivity.
  - rewrite (B D). reflexivity.
Qed.

(* =====================================================================================================================
   4. Wire decoding and the dispatch entries
   ===================================================================================================================== *)
Definition eid_val (j : eid) : val := of_LZ [eh j; ex j; ey j; ev j; ef j].
Definition val_eid (v : val) : option eid :=
  match as_LZ v with Some [h; x; y; vz; f] => Some (mk h x y vz f) | _ => None end.

(* the request as the invoker builds it: NewTileXYZ on each list in order; the first failure ends the call with an error *)
Definition raw_tile (v : val) : option (result tile) :=
  match as_LZ v with Some [h; x; y; vz; z] => Some (new_tile h x y vz z) | _ => None end.
Fixpoint build (l : list val) : option (result (list tile)) :=
  match l with
  | [] => Some (Ok [])
  | v :: r => match raw_tile v, build r with
              | Some (Ok t), Some (Ok ts) => Some (Ok (t :: ts))
              | Some Err, Some _ => Some Err
              | Some (Ok _), Some Err => Some Err
              | _, _ => None
              end
  end.

(* observed result of an error-returning call:  OkV l = no error, list l;  ErrNil = error and nil/empty result;  ErrPartial = error
   together with a non-empty result (never acceptable);  None = unexpected shape (panic, timeout, ...) *)
Inductive obsv := OkV (l : list val) | ErrNil | ErrPartial.
Definition obs_list (v : val) : option obsv :=
  match v with
  | VE p => match as_L p with Some [] => Some ErrNil | Some _ => Some ErrPartial | None => None end
  | VPanic | VTimeout => None
  | _ => match as_L v with Some l => Some (OkV l) | None => None end
  end.

Definition exact_tiles (ts : list tile) (E O outV : Z) : bool :=
  forallb (fun t => negb (ext_check_zoom (th t) outV) || exact64 (key2z64m (tz t) (tv t) outV E O)) ts.
Definition footprint_okb (t : tile) : bool :=
  (0 <=? tx t) && (tx t <? 2 ^ th t) && (0 <=? ty t) && (ty t <? 2 ^ th t).
Lemma footprint_okb_spec t : footprint_okb t = true <-> footprint_ok t.
Proof. unfold footprint_okb, footprint_ok. rewrite !andb_true_iff, !Z.leb_le, !Z.ltb_lt. tauto. Qed.

(* the extended variant evaluated in n log n: Base.zrange converts a unary counter to Z at every step (quadratic in the extracted code)
   and nodupb is quadratic; the same lists are produced by counting up in Z and de-duplicating through the sorted list *)
Fixpoint zrange_from (n : nat) (lo : Z) : list Z := match n with O => [] | S k => lo :: zrange_from k (lo + 1) end.
Lemma zrange_from_spec n lo : zrange_from n lo = map (fun k => lo + Z.of_nat k) (seq 0 n).
Proof.
  revert lo. induction n as [|n IH]; intros lo; [reflexivity|]. cbn [zrange_from seq map]. rewrite IH, <- seq_shift, map_map. f_equal; [cbn; lia|].
  apply map_ext. intros k. lia.
Qed.
Definition zrange_fast (lo hi : Z) : list Z := zrange_from (Z.to_nat (hi - lo + 1)) lo.
Lemma zrange_fast_eq lo hi : zrange_fast lo hi = zrange lo hi.
Proof. apply zrange_from_spec. Qed.
Definition tile_ids_fast (E O outV : Z) (t : tile) : result (list eid) :=
  if negb (ext_check_zoom (th t) outV) then Err
  else match key2z (tz t) (tv t) outV E O with
       | Err => Err
       | Ok (mn, mx) => Ok (map (fun f => mk (th t) (tx t) (ty t) outV f) (zrange_fast mn mx))
       end.
Fixpoint tiles_collect_fast (E O outV : Z) (l : list tile) : result (list eid) :=
  match l with
  | [] => Ok []
  | t :: r => match tile_ids_fast E O outV t with
              | Err => Err
              | Ok a => match tiles_collect_fast E O outV r with Err => Err | Ok b => Ok (a ++ b) end
              end
  end.
Lemma tiles_collect_fast_eq E O outV l : tiles_collect_fast E O outV l = tiles_collect E O outV l.
Proof.
  induction l as [|t r IH]; [reflexivity|]. cbn [tiles_collect_fast tiles_collect]. rewrite IH.
  unfold tile_ids_fast, tile_ids. destruct (negb _); [reflexivity|]. destruct (key2z _ _ _ _ _) as [[mn mx]|]; [|reflexivity].
  now rewrite zrange_fast_eq.
Qed.
Definition tiles_to_eids_fast (l : list tile) (E O outV : Z) : result (list eid) :=
  if negb (ext_check_zoom 0 outV) then Err
  else match tiles_collect_fast E O outV l with Err => Err | Ok a => Ok (dedup_sort a) end.
Theorem tiles_to_eids_fast_spec l E O outV :
  match tiles_to_eids_fast l E O outV, tiles_to_eids l E O outV with
  | Ok a, Ok b => Permutation a b
  | Err, Err => True
  | _, _ => False
  end.
Proof.
  unfold tiles_to_eids_fast, tiles_to_eids. rewrite tiles_collect_fast_eq. destruct (ext_check_zoom 0 outV); cbn [negb]; [|exact I].
  destruct (tiles_collect E O outV l) as [a|]; [apply dedup_sort_nodupb|exact I].
Qed.

(* SIZE GUARD. The invoker refuses a request whose zoom-only estimate of the number of results exceeds its cap and returns the marker
   "c13-size-guard" instead of calling the library. `estimate` recomputes that estimate from the arguments (same formula as
   c13.go estimate()); the case is answered "skipped" only if the estimate really exceeds the cap, and bad_case otherwise. *)
Definition cap (spatial : bool) : Z := if spatial then 12000 else 140000.
Definition tile_bits (spatial : bool) (E outV : Z) (f : list Z) : option (bool * Z) :=     (* (huge?, log2 of the bound) *)
  match f with
  | [h; _; _; kz; _] =>
      if negb (zoom_ok h && zoom_ok kz) then None else
      let tall := if kz <? E then E - kz else 0 in
      let b0 := outV - 25 + tall in
      let b1 := if b0 <? 0 then 0 else b0 in
      let b2 := if spatial then (if h <? outV then b1 + 2 * (outV - h) else b1 + (h - outV)) else b1 in
      Some ((60 <? tall) || (40 <? b2), b2)
  | _ => None
  end.
Definition estimate (spatial : bool) (raw : list (list Z)) (E outV : Z) : Z :=
  if negb (zoom_ok outV) then 0 else
  let bs := map (tile_bits spatial E outV) raw in
  if existsb (fun b => match b with Some (true, _) => true | _ => false end) bs then 2 ^ 40
  else fold_right (fun b acc => match b with Some (_, n) => 2 ^ n + 1 + acc | None => acc end) 0 bs.
Definition is_marker (v : val) : bool := match v with VS s => String.eqb s "c13-size-guard" | _ => false end.

(* one call of either conversion: (corr, prop, class, model value); None = not a case of the property's domain / shape not understood
   (answered bad_case). Order of the tests: size marker; error together with a partial result (never acceptable, wherever);
   request that cannot be built; int64 domain of the range computation; for the spatial variant x, y inside the grid (the expansion
   multiplies x, y by 2^d in int64: the model over Z is the code only for footprints of the grid). *)
Definition eval_call (spatial : bool) (tiles : list val) (E O outV : Z) (obs : val) : option verdict :=
  if is_marker obs then
    match all_opt (map as_LZ tiles) with
    | Some raw => if cap spatial <? estimate spatial raw E outV then Some (mkv true true "skipped" VNil) else None
    | None => None
    end
  else
  match build tiles, obs_list obs with
  | Some _, Some ErrPartial => Some (mkv false false "-" (VE VNil))
  | Some Err, Some o =>                     (* a tile could not be built (NewTileXYZ refused it): no conversion took place *)
      let ok := match o with ErrNil => true | _ => false end in Some (mkv ok ok "-" (VE VNil))
  | Some (Ok ts), Some o =>
      if negb (exact_tiles ts E O outV) then None else
      if spatial then
        if negb (forallb footprint_okb ts) then None else
        let m := tiles_to_sids ts E O outV in
        let mv := match m with Ok ss => of_LS ss | Err => VE VNil end in
        match o with
        | ErrPartial => Some (mkv false false "-" mv)
        | ErrNil => Some (mkv (negb (is_ok m)) (check_sids ts E O outV None) "-" mv)
        | OkV vs => match all_opt (map as_S vs) with
                    | Some ss => Some (mkv (match tiles_to_sids_rec ts E O outV, m with
                                           | Ok mj, Ok ms => sids_match ss mj || multiset_eqb ms ss
                                           | _, _ => false end) (check_sids ts E O outV (Some ss)) "-" mv)
                    | None => None
                    end
        end
      else
        let m := tiles_to_eids_fast ts E O outV in
        let mv := match m with Ok r => VL (map eid_val r) | Err => VE VNil end in
        match o with
        | ErrPartial => Some (mkv false false "-" mv)
        | ErrNil => Some (mkv (negb (is_ok m)) (check_eids ts E O outV None) "-" mv)
        | OkV vs => match all_opt (map val_eid vs) with
                    | Some r => Some (mkv (match m with Ok mr => list_eqb eid_eqb mr (EidSort.sort r) | Err => false end)
                                          (check_eids ts E O outV (Some r)) "-" mv)
                    | None => None
                    end
        end
  | _, _ => None
  end.

Definition d_conv (spatial : bool) (args : list val) (obs : val) : verdict :=
  match args with
  | [VL tiles; VZ E; VZ Of; VZ outV] => match eval_call spatial tiles E Of outV obs with Some v => v | None => bad_case end
  | _ => bad_case
  end.

(* NewTileXYZ: observed [hZoom; x; y; vZoom; z] through the accessors, or an error with a nil pointer *)
Definition d_new_tile (args : list val) (obs : val) : verdict :=
  match args with
  | [VZ h; VZ x; VZ y; VZ v; VZ z] =>
      let m := match new_tile h x y v z with Ok t => Some (tile_fields t) | Err => None end in
      let mv := match m with Some f => of_LZ f | None => VE VNil end in
      match obs with
      | VE VNil => mkv (match m with None => true | Some _ => false end) (check_new_tile h x y v z None) "-" mv
      | VE _ => mkv false false "-" mv
      | VPanic | VTimeout => bad_case
      | _ => match as_LZ obs with
             | Some o => mkv (match m with Some f => list_eqb Z.eqb f o | None => false end) (check_new_tile h x y v z (Some o)) "-" mv
             | None => bad_case
             end
      end
  | _ => bad_case
  end.

(* several conversions made one after the other inside one harness call (the API has no state: each call must satisfy its own
   statement whatever was called before). args = [[ [tiles; E; O; outV; spatial?]; ... ]], observed = the list of results *)
Fixpoint eval_seq (calls obs : list val) : option (list verdict) :=
  match calls, obs with
  | [], [] => Some []
  | VL [VL tiles; VZ E; VZ Of; VZ outV; VB spatial] :: cr, o :: orest =>
      match eval_call spatial tiles E Of outV o, eval_seq cr orest with
      | Some v, Some vs => Some (v :: vs)
      | _, _ => None
      end
  | _, _ => None
  end.
Definition d_seq (args : list val) (obs : val) : verdict :=
  match args, obs with
  | [VL calls], VL os =>
      match eval_seq calls os with
      | Some vs =>
          let cl := match find (fun v => negb (String.eqb (v_class v) "-")) vs with Some v => v_class v | None => "-" end in
          mkv (forallb v_corr vs) (forallb v_prop vs) cl (VL (map v_model vs))
      | None => bad_case
      end
  | _, _ => bad_case
  end.

(* TilePair: both variants on the same arguments, observed [extended result; spatial result]. Besides the two individual verdicts the
   spatial result must be, as a multiset, the C10 expansion of the OBSERVED extended IDs, and the two error flags must agree. *)
Definition pair_ok (o1 o2 : val) : bool :=
  match obs_list o1, obs_list o2 with
  | Some (OkV v1), Some (OkV v2) =>
      match all_opt (map val_eid v1), all_opt (map as_S v2) with
      | Some r, Some ss => sids_match ss (flat_map expand_rec r) || multiset_eqb ss (flat_map expand_eid r)
      | _, _ => false
      end
  | Some ErrNil, Some ErrNil => true
  | _, _ => false
  end.
Definition d_pair (args : list val) (obs : val) : verdict :=
  match args, obs with
  | [VL tiles; VZ E; VZ Of; VZ outV], VL [o1; o2] =>
      match eval_call false tiles E Of outV o1, eval_call true tiles E Of outV o2 with
      | Some v1, Some v2 =>
          let cl := if String.eqb (v_class v1) "-" then v_class v2 else v_class v1 in
          mkv (v_corr v1 && v_corr v2) (v_prop v1 && v_prop v2 && pair_ok o1 o2) cl (VL [v_model v1; v_model v2])
      | _, _ => bad_case
      end
  | _, _ => bad_case
  end.

(* =====================================================================================================================
   5. The TileXYZ object driven through its setters, then converted; the zoom-window hook
   ===================================================================================================================== *)
Definition tile_eqb (a b : tile) : bool :=
  (th a =? th b) && (tx a =? tx b) && (ty a =? ty b) && (tv a =? tv b) && (tz a =? tz b).
Lemma tile_eqb_spec a b : tile_eqb a b = true <-> a = b.
Proof.
  unfold tile_eqb. rewrite !andb_true_iff, !Z.eqb_eq. destruct a, b; cbn. split; [intros ((((-> & ->) & ->) & ->) & ->); reflexivity|].
  intros [= -> -> -> -> ->]. tauto.
Qed.
(* one observed setter call, judged from the state observed BEFORE it: get-after-set, frame, refusal leaves the object unchanged *)
Definition zoom35 (z : Z) : bool := (0 <=? z) && (z <=? 35).
Definition check_step (prev : tile) (o : tile_op) (obs : bool * tile) : bool :=
  let '(e, cur) := obs in
  match o with
  | SetX x => negb e && tile_eqb cur (mkt (th prev) x (ty prev) (tv prev) (tz prev))
  | SetY y => negb e && tile_eqb cur (mkt (th prev) (tx prev) y (tv prev) (tz prev))
  | SetZ z => negb e && tile_eqb cur (mkt (th prev) (tx prev) (ty prev) (tv prev) z)
  | SetH h => if zoom35 h then negb e && tile_eqb cur (mkt h (tx prev) (ty prev) (tv prev) (tz prev)) else e && tile_eqb cur prev
  | SetV v => if zoom35 v then negb e && tile_eqb cur (mkt (th prev) (tx prev) (ty prev) v (tz prev)) else e && tile_eqb cur prev
  end.
Fixpoint check_trace (prev : tile) (ops : list tile_op) (obs : list (bool * tile)) : bool :=
  match ops, obs with
  | [], [] => true
  | o :: r, p :: q => check_step prev o p && check_trace (snd p) r q
  | _, _ => false
  end.
Lemma check_step_spec prev o obs : check_step prev o obs = true <-> obs = apply_op prev o.
Proof.
  destruct obs as [e cur]. unfold check_step, zoom35. destruct o as [h|x|y|v|z]; cbn [apply_op]; unfold tile_zoom_ok, max_tile_zoom;
    try (destruct ((0 <=? _) && (_ <=? 35))); rewrite andb_true_iff, tile_eqb_spec; try rewrite negb_true_iff;
    (split; [intros [-> ->]; reflexivity|intros [= -> ->]; auto]).
Qed.
Theorem check_trace_spec prev ops obs : check_trace prev ops obs = true <-> obs = run_ops prev ops.
Proof.
  revert prev obs. induction ops as [|o r IH]; intros prev [|p q]; cbn [check_trace run_ops]; try (split; [reflexivity||discriminate|reflexivity||discriminate]).
  - destruct (apply_op prev o); split; discriminate.
  - rewrite andb_true_iff, check_step_spec, IH. destruct (apply_op prev o) as [e t'] eqn:A. split.
    + intros [-> ->]. reflexivity.
    + intros [= -> ->]. auto.
Qed.

Definition decode_op (v : val) : option tile_op :=
  match as_LZ v with
  | Some [0; a] => Some (SetH a) | Some [1; a] => Some (SetX a) | Some [2; a] => Some (SetY a)
  | Some [3; a] => Some (SetV a) | Some [4; a] => Some (SetZ a)
  | _ => None
  end.
Definition init_args (v : val) : option (option (Z * Z * Z * Z * Z)) :=          (* Some None = the zero value &TileXYZ{} *)
  match as_LZ v with Some [] => Some None | Some [h; x; y; vz; z] => Some (Some (h, x, y, vz, z)) | _ => None end.
Definition obs_state (v : val) : option (bool * tile) :=
  match v with
  | VL [VB e; VZ h; VZ x; VZ y; VZ vz; VZ z] => Some (e, mkt h x y vz z)
  | _ => None
  end.
Definition state_val (p : bool * tile) : val := VL (VB (fst p) :: map VZ (tile_fields (snd p))).

(* TileObjectSequence: args [init; ops; alias?; E; O; outV]; observed [constructor result; trace; conversion result of the object (twice
   the same pointer when alias?)], or [E nil] when the constructor refuses *)
Definition d_objseq (args : list val) (obs : val) : verdict :=
  match args with
  | [init; VL opsv; VB alias; VZ E; VZ Of; VZ outV] =>
      match init_args init, all_opt (map decode_op opsv) with
      | Some ia, Some ops =>
          let start := match ia with None => Ok zero_tile | Some (h, x, y, vz, z) => new_tile h x y vz z end in
          match start, obs with
          | Err, VL [VE VNil] => mkv true true "-" (VL [VE VNil])
          | Err, _ => mkv false false "-" (VL [VE VNil])
          | Ok t0, VL [c; VL tr; conv] =>
              match as_LZ c, all_opt (map obs_state tr) with
              | Some cf, Some trace =>
                  let m := run_ops t0 ops in
                  let fin := final_tile t0 ops in
                  let tiles := if alias then [of_LZ (tile_fields fin); of_LZ (tile_fields fin)] else [of_LZ (tile_fields fin)] in
                  match eval_call false tiles E Of outV conv with
                  | Some v =>
                      let c_ok := list_eqb Z.eqb cf (tile_fields t0) in
                      let p_ctor := match ia with
                                    | None => list_eqb Z.eqb cf [0; 0; 0; 0; 0]
                                    | Some (h, x, y, vz, z) => check_new_tile h x y vz z (Some cf)
                                    end in
                      mkv (c_ok && list_eqb (fun a b => Bool.eqb (fst a) (fst b) && tile_eqb (snd a) (snd b)) m trace && v_corr v)
                          (p_ctor && check_trace t0 ops trace && v_prop v) (v_class v)
                          (VL [of_LZ (tile_fields t0); VL (map state_val m); v_model v])
                  | None => bad_case
                  end
              | _, _ => bad_case
              end
          | Ok _, _ => bad_case
          end
      | _, _ => bad_case
      end
  | _ => bad_case
  end.

(* the zoom window of the conversions observed through the verif hook VerifExtendedSpatialIDCheckZoom *)
Definition zoom_window_b (h v : Z) (b : bool) : bool := Bool.eqb b (zoom35 h && zoom35 v).
Lemma zoom_window_b_spec h v b : zoom_window_b h v b = true <-> (b = true <-> 0 <= h <= 35 /\ 0 <= v <= 35).
Proof.
  unfold zoom_window_b, zoom35. destruct (Z.leb_spec 0 h), (Z.leb_spec h 35), (Z.leb_spec 0 v), (Z.leb_spec v 35), b; cbn;
    split; try discriminate; try reflexivity; try (intros _; split; [reflexivity||lia|reflexivity||lia]); intros [A B]; try discriminate;
    try (exfalso; lia); try (specialize (B ltac:(lia)); discriminate); try (specialize (A eq_refl); lia).
Qed.
Lemma ext_check_zoom_window h v : zoom_window_b h v (ext_check_zoom h v) = true.
Proof. unfold zoom_window_b, zoom35, ext_check_zoom. apply Bool.eqb_reflx. Qed.
Definition d_checkzoom (args : list val) (obs : val) : verdict :=
  match args, obs with
  | [VZ h; VZ v], VB b => mkv (Bool.eqb b (ext_check_zoom h v)) (zoom_window_b h v b) "-" (VB (ext_check_zoom h v))
  | _, _ => bad_case
  end.
(* the whole grid lo..hi x lo..hi in one call: observed = the answers, hZoom outer, vZoom inner *)
Definition grid_pairs (lo hi : Z) : list (Z * Z) := list_prod (zrange lo hi) (zrange lo hi).
Definition d_checkzoom_grid (args : list val) (obs : val) : verdict :=
  match args, obs with
  | [VZ lo; VZ hi], VL bs =>
      if (hi - lo <? 0) || (200 <? hi - lo) then bad_case else
      match all_opt (map as_B bs) with
      | Some l =>
          let ps := grid_pairs lo hi in
          let m := map (fun p => ext_check_zoom (fst p) (snd p)) ps in
          mkv (list_eqb Bool.eqb m l)
              (Nat.eqb (length l) (length ps) && forallb (fun pb => zoom_window_b (fst (fst pb)) (snd (fst pb)) (snd pb)) (combine ps l))
              "-" (VL (map VB m))
      | None => bad_case
      end
  | _, _ => bad_case
  end.

Definition table_C13 : table :=
  [("ConvertTileXYZsToExtendedSpatialIDs", fun _ => d_conv false);
   ("ConvertTileXYZsToSpatialIDs", fun _ => d_conv true);
   ("NewTileXYZ", fun _ => d_new_tile);
   ("TileSequence", fun _ => d_seq);
   ("TilePair", fun _ => d_pair);
   ("TileObjectSequence", fun _ => d_objseq);
   ("VerifExtendedSpatialIDCheckZoom", fun _ => d_checkzoom);
   ("CheckZoomGrid", fun _ => d_checkzoom_grid)].

(* an accepted pair: the observed strings are a permutation of the expansion of the observed extended IDs *)
Theorem pair_law_sound ss r : sids_match ss (flat_map expand_rec r) || multiset_eqb ss (flat_map expand_eid r) = true ->
  Permutation ss (flat_map expand_eid r).
Proof.
  intros H. apply orb_true_iff in H. destruct H as [H|H]; [|now apply multiset_eqb_perm].
  apply sids_match_sound in H. rewrite map_flat_map' in H. erewrite flat_map_ext in H; [exact H|]. intros i. symmetry. apply expand_eid_rec.
Qed.
(* ... and the law holds of the models *)
Theorem pair_law_model l E O outV :
  match tiles_to_eids l E O outV, tiles_to_sids l E O outV with
  | Ok r, Ok ss => multiset_eqb ss (flat_map expand_eid r) = true
  | Err, Err => True
  | _, _ => False
  end.
Proof. unfold tiles_to_sids. destruct (tiles_to_eids l E O outV); [apply multiset_eqb_refl|exact I]. Qed.

(* the guard of the class: with every per-tile int64 computation exact, ConvertAltitudekeyToMinMaxZ as executed is key2z *)
Theorem exact_tiles_meaning ts E O outV t : exact_tiles ts E O outV = true -> In t ts -> ext_check_zoom (th t) outV = true ->
  go_result (key2z64m (tz t) (tv t) outV E O) = Some (key2z (tz t) (tv t) outV E O).
Proof.
  unfold exact_tiles. rewrite forallb_forall. intros H Ht Hz. specialize (H t Ht). rewrite Hz in H. cbn [negb orb] in H.
  destruct (key2z64m (tz t) (tv t) outV E O) as [[r e]|] eqn:K; cbn in H; [|discriminate]. subst e.
  cbn. f_equal. now apply key2z64m_exact.
Qed.
(* on the property's domain the class is empty *)
Theorem exact_tiles_on_domain tiles ts E O outV : build tiles = Some (Ok ts) -> 0 <= E <= 35 -> - 2 ^ 50 <= O <= 2 ^ 50 ->
  exact_tiles ts E O outV = true.
Proof.
  intros Hb HE HO. unfold exact_tiles. apply forallb_forall. intros t Ht.
  assert (Hz : 0 <= tv t <= 35).
  { revert ts Hb Ht. induction tiles as [|v r IH]; cbn [build]; intros ts Hb Ht; [injection Hb as <-; destruct Ht|].
    unfold raw_tile in Hb. destruct (as_LZ v) as [[|h [|x [|y [|vz [|z [|]]]]]]|]; try discriminate.
    destruct (new_tile h x y vz z) as [t0|] eqn:N; destruct (build r) as [[ts0|]|]; try discriminate.
    injection Hb as <-. destruct Ht as [<-|Ht]; [apply new_tile_ok in N; lia|eapply IH; eauto]. }
  destruct (ext_check_zoom (th t) outV) eqn:Z; [|reflexivity]. cbn [negb orb]. apply ext_check_zoom_spec in Z.
  rewrite key2z64m_domain by lia. reflexivity.
Qed.
