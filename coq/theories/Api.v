(* Api.v — property C15: invalid input is rejected with an error, never a panic or a silent answer.
   For every catalogued exported function (meta/C15.json) this file gives
     invalid_<fn> : args -> bool   "the documentation excludes this input", built only from the shared vocabulary
                                    (Str.split / Str.parse / Ids.parse_eid / Ids.check_zoom / float comparisons of F64),
     err_<fn>     : args -> bool   the error flag of the function's model (cheap to run: no expansion, no oracle),
   and the theorems
     <fn>_rejects : invalid_<fn> args = true -> <model> args = Err          (model of the owning property where one is compiled,
                                                                              else the validation prefix written here)
     <fn>_flag    : is_ok (<model> args) = negb (err_<fn> args)              (where the error flag has a closed form).
   "No panic" = every model is a total function and never returns the Panic observable; the runner records any panic of the
   implementation as a failure of the property (finding classes excepted, see DC15.v). *)
From Coq Require Import ZArith Lia List Bool String Floats.
From SID Require Import Base Str Ids F64 ZoomCore AltKeyCore ChangeZoom Merge MergeApi Shift Neighbour Notation PointF VertexF Line
  Project Overlap QuadkeyConv Corridor.
Import ListNotations.
Open Scope Z_scope.

(* ===================================================================================================================== *)
(* 0. vocabulary                                                                                                          *)
(* ===================================================================================================================== *)
Definition is_some {A} (o : option A) : bool := match o with Some _ => true | None => false end.
(* five '/'-separated int64 fields (object.ResetExtendedSpatialID, shape.getExtendedSpatialIdAttrs) *)
Definition wf5 (s : string) : bool := is_some (parse_eid s).
(* four '/'-separated int64 fields (detector.getSpatialIdAttrs) *)
Definition wf4 (s : string) : bool := is_some (ChangeZoom.parse_sid s).
(* field counts only (the notation changes do not interpret the fields) *)
Definition ar5 (s : string) : bool := Nat.eqb (List.length (split s)) 5.
Definition ar4 (s : string) : bool := Nat.eqb (List.length (split s)) 4.
Definition zoom_bad (z : Z) : bool := negb (check_zoom z).
Definition some_bad {A} (ok : A -> bool) (l : list A) : bool := existsb (fun a => negb (ok a)) l.

Lemma some_bad_forallb {A} (ok : A -> bool) l : some_bad ok l = negb (forallb ok l).
Proof. unfold some_bad. induction l as [|a r IH]; cbn; [reflexivity|]. rewrite IH. now destruct (ok a). Qed.
Lemma some_bad_In {A} (ok : A -> bool) l : some_bad ok l = true <-> exists a, In a l /\ ok a = false.
Proof.
  unfold some_bad. rewrite existsb_exists. split; intros (a & Ha & Hb); exists a; split; auto.
  - now apply negb_true_iff.
  - now apply negb_true_iff.
Qed.
Lemma wf5_false s : wf5 s = false <-> parse_eid s = None.
Proof. unfold wf5. destruct (parse_eid s); cbn; split; congruence. Qed.
Lemma wf4_false s : wf4 s = false <-> ChangeZoom.parse_sid s = None.
Proof. unfold wf4. destruct (ChangeZoom.parse_sid s); cbn; split; congruence. Qed.
Lemma wf5_ar5 s : wf5 s = true -> ar5 s = true.
Proof. unfold wf5, ar5, parse_eid. destruct (split s) as [|a [|b [|c [|d [|e [|f r]]]]]]; cbn; congruence. Qed.
Lemma wf4_ar4 s : wf4 s = true -> ar4 s = true.
Proof. unfold wf4, ar4, ChangeZoom.parse_sid. destruct (split s) as [|a [|b [|c [|d [|e r]]]]]; cbn; congruence. Qed.
Lemma parse_all_forallb l : is_some (parse_all l) = forallb wf5 l.
Proof.
  induction l as [|s r IH]; cbn [parse_all forallb]; [reflexivity|]. rewrite <- IH. unfold wf5.
  destruct (parse_eid s), (parse_all r); reflexivity.
Qed.
Lemma map_opt_forallb {A B} (f : A -> option B) l : is_some (map_opt f l) = forallb (fun a => is_some (f a)) l.
Proof.
  induction l as [|s r IH]; cbn [map_opt forallb]; [reflexivity|]. rewrite <- IH.
  destruct (f s), (map_opt f r); reflexivity.
Qed.
Lemma is_ok_some {A} (o : option A) : is_ok (match o with Some r => Ok r | None => Err end) = is_some o.
Proof. now destruct o. Qed.
Lemma ar4_sid_to_eid s : is_some (sid_to_eid_str s) = ar4 s.
Proof. unfold sid_to_eid_str, ar4. destruct (split s) as [|a [|b [|c [|d [|e r]]]]]; reflexivity. Qed.
Lemma ar5_eid_to_sid s : is_some (eid_to_sid_str s) = ar5 s.
Proof. unfold eid_to_sid_str, ar5. destruct (split s) as [|a [|b [|c [|d [|e [|f r]]]]]]; reflexivity. Qed.

(* a spatial ID that passes the arity check: its extended spelling parses iff its four fields are integers *)
Lemma sid_to_eid_wf s t : sid_to_eid_str s = Some t -> wf5 t = wf4 s.
Proof.
  unfold sid_to_eid_str, wf5, wf4, ChangeZoom.parse_sid, parse_eid. pose proof (ChangeZoom.split_fields_noslash s) as Hn.
  destruct (split s) as [|a [|b [|c [|d [|e r]]]]]; try discriminate. intros E.
  assert (Et : t = join [a; c; d; a; b]) by congruence. rewrite Et. clear E Et.
  cbn [forallb] in Hn. rewrite !andb_true_iff in Hn. destruct Hn as (Ha & Hb & Hc & Hd & _).
  rewrite split_join; [|discriminate|cbn; now rewrite Ha, Hb, Hc, Hd].
  destruct (parse a), (parse b), (parse c), (parse d); reflexivity.
Qed.
Lemma sids_forallb l r : map_opt sid_to_eid_str l = Some r -> forallb wf5 r = forallb wf4 l.
Proof.
  revert r. induction l as [|s l IH]; cbn [map_opt]; intros r.
  - intros [= <-]. reflexivity.
  - destruct (sid_to_eid_str s) as [t|] eqn:E; [|discriminate]. destruct (map_opt sid_to_eid_str l) as [u|]; [|discriminate].
    intros [= <-]. cbn [forallb]. now rewrite (sid_to_eid_wf s t E), (IH u eq_refl).
Qed.
Lemma forallb_wf4_ar4 l : forallb wf4 l = true -> forallb ar4 l = true.
Proof. rewrite !forallb_forall. intros H s Hs. apply wf4_ar4, H, Hs. Qed.

(* expected payload next to the error *)
Inductive payload := P_any | P_empty | P_false | P_estr.

(* ===================================================================================================================== *)
(* 1. common/object                                                                                                       *)
(* ===================================================================================================================== *)
(* ---- NewPoint(lon, lat, alt); model F64.new_point (C01). "Beyond the limit" is read after the documented truncation of
        the latitude to ten decimals (DESIGN 5.3 (ii)): 85.05112877989 is accepted and stored as the limit. ---- *)
Definition invalid_new_point (lon lat : float) : bool :=
  (180 <? abs lon)%float || (c_latmax <? abs (setlat_trunc lat))%float.
Theorem new_point_flag lon lat alt : snd (new_point lon lat alt) = invalid_new_point lon lat.
Proof.
  unfold new_point, invalid_new_point. destruct (180 <? abs lon)%float; [reflexivity|].
  destruct (c_latmax <? abs (setlat_trunc lat))%float; reflexivity.
Qed.
Theorem new_point_rejects lon lat alt : invalid_new_point lon lat = true -> snd (new_point lon lat alt) = true.
Proof. now rewrite new_point_flag. Qed.
(* accepted points: longitude and altitude are stored unchanged (the very same float), the latitude is the ten-decimal cut *)
Theorem new_point_stores lon lat alt : invalid_new_point lon lat = false ->
  fst (new_point lon lat alt) = {| plon := lon; plat := setlat_trunc lat; palt := alt |}.
Proof.
  unfold new_point, invalid_new_point. destruct (180 <? abs lon)%float; [discriminate|].
  destruct (c_latmax <? abs (setlat_trunc lat))%float; [discriminate|reflexivity].
Qed.
(* ---- Point.SetLon / Point.SetLat on an existing object: on an error the object is left as it was ---- *)
Definition set_lon (p : point) (lon : float) : point * bool :=
  if (180 <? abs lon)%float then (p, true) else ({| plon := lon; plat := plat p; palt := palt p |}, false).
Definition set_lat (p : point) (lat : float) : point * bool :=
  let l := setlat_trunc lat in
  if (c_latmax <? abs l)%float then (p, true) else ({| plon := plon p; plat := l; palt := palt p |}, false).
Definition invalid_set_lon (lon : float) : bool := (180 <? abs lon)%float.
Definition invalid_set_lat (lat : float) : bool := (c_latmax <? abs (setlat_trunc lat))%float.
Theorem set_lon_rejects p lon : invalid_set_lon lon = true -> set_lon p lon = (p, true).
Proof. unfold set_lon, invalid_set_lon. now intros ->. Qed.
Theorem set_lat_rejects p lat : invalid_set_lat lat = true -> set_lat p lat = (p, true).
Proof. unfold set_lat, invalid_set_lat. cbv zeta. now intros ->. Qed.
Theorem set_lon_stores p lon : invalid_set_lon lon = false ->
  set_lon p lon = ({| plon := lon; plat := plat p; palt := palt p |}, false).
Proof. unfold set_lon, invalid_set_lon. now intros ->. Qed.
Theorem set_lat_stores p lat : invalid_set_lat lat = false ->
  set_lat p lat = ({| plon := plon p; plat := setlat_trunc lat; palt := palt p |}, false).
Proof. unfold set_lat, invalid_set_lat. cbv zeta. now intros ->. Qed.
(* NewPoint is SetLon, SetLat, SetAlt on the zero object (the object that comes back with an error is partially filled) *)
Theorem new_point_is_setters lon lat alt :
  new_point lon lat alt =
  let '(p1, e1) := set_lon zero_point lon in
  if e1 then (p1, true)
  else let '(p2, e2) := set_lat p1 lat in
       if e2 then (p2, true) else ({| plon := plon p2; plat := plat p2; palt := alt |}, false).
Proof.
  unfold new_point, set_lon, set_lat. destruct (180 <? abs lon)%float; [reflexivity|]. cbv zeta.
  destruct (c_latmax <? abs (setlat_trunc lat))%float; reflexivity.
Qed.

(* ---- NewExtendedSpatialID / ResetExtendedSpatialID; model Notation.new_eid (C10) ---- *)
Definition invalid_new_eid (s : string) : bool := negb (wf5 s).
Theorem new_eid_flag s : is_ok (new_eid s) = negb (invalid_new_eid s).
Proof. unfold new_eid, invalid_new_eid, wf5. destruct (parse_eid s); reflexivity. Qed.
Theorem new_eid_rejects s : invalid_new_eid s = true -> new_eid s = Err.
Proof. unfold new_eid, invalid_new_eid, wf5. destruct (parse_eid s); [discriminate|reflexivity]. Qed.
(* Reset on an object that already holds `old`: an error leaves the object unchanged *)
Definition reset_eid (old : eid) (s : string) : eid * bool :=
  match parse_eid s with Some i => (i, false) | None => (old, true) end.
Theorem reset_eid_rejects old s : invalid_new_eid s = true -> reset_eid old s = (old, true).
Proof. unfold reset_eid, invalid_new_eid, wf5. destruct (parse_eid s); [discriminate|reflexivity]. Qed.

(* ---- NewTileXYZ / SetHZoom / SetVZoom (zooms 0..consts.MaxTileXYZZoom = 35; x, y, z unchecked) ---- *)
Record tile := mkt { th : Z; tx : Z; ty : Z; tv : Z; tz : Z }.
Definition new_tile (h x y v z : Z) : result tile :=
  if negb (check_zoom h) then Err else if negb (check_zoom v) then Err else Ok (mkt h x y v z).
Definition tile_set_hzoom (t : tile) (h : Z) : tile * bool :=
  if check_zoom h then (mkt h (tx t) (ty t) (tv t) (tz t), false) else (t, true).
Definition tile_set_vzoom (t : tile) (v : Z) : tile * bool :=
  if check_zoom v then (mkt (th t) (tx t) (ty t) v (tz t), false) else (t, true).
Definition invalid_new_tile (h v : Z) : bool := zoom_bad h || zoom_bad v.
Theorem new_tile_flag h x y v z : is_ok (new_tile h x y v z) = negb (invalid_new_tile h v).
Proof. unfold new_tile, invalid_new_tile, zoom_bad. destruct (check_zoom h), (check_zoom v); reflexivity. Qed.
Theorem new_tile_rejects h x y v z : invalid_new_tile h v = true -> new_tile h x y v z = Err.
Proof. unfold new_tile, invalid_new_tile, zoom_bad. destruct (check_zoom h), (check_zoom v); cbn; congruence. Qed.
Theorem tile_set_hzoom_rejects t h : zoom_bad h = true -> tile_set_hzoom t h = (t, true).
Proof. unfold tile_set_hzoom, zoom_bad. destruct (check_zoom h); [discriminate|reflexivity]. Qed.
Theorem tile_set_vzoom_rejects t v : zoom_bad v = true -> tile_set_vzoom t v = (t, true).
Proof. unfold tile_set_vzoom, zoom_bad. destruct (check_zoom v); [discriminate|reflexivity]. Qed.
(* a tile object that exists has both zooms in range *)
Definition tile_ok (t : tile) : bool := check_zoom (th t) && check_zoom (tv t).
Lemma new_tile_ok h x y v z t : new_tile h x y v z = Ok t -> tile_ok t = true.
Proof.
  unfold new_tile, tile_ok. destruct (check_zoom h) eqn:A; [|discriminate]. destruct (check_zoom v) eqn:B; [|discriminate].
  intros [= <-]. cbn. now rewrite A, B.
Qed.

(* ===================================================================================================================== *)
(* 2. shape                                                                                                               *)
(* ===================================================================================================================== *)
(* ---- GetExtendedSpatialIdsOnPoints / GetSpatialIdsOnPoints; models PointF.points_api / points_sid_api (C01).
        has_nil = the list holds a nil pointer (decided on the wire). ---- *)
Definition invalid_points (has_nil : bool) (h v : Z) : bool := zoom_bad h || zoom_bad v || has_nil.
Section Points.
  Variable m_tan m_cos m_log : float -> float.
  Theorem points_rejects has_nil l h v : invalid_points has_nil h v = true -> points_api m_tan m_cos m_log has_nil l h v = Err.
  Proof.
    unfold points_api, invalid_points, zoom_bad. destruct (check_zoom h), (check_zoom v), has_nil; cbn; congruence.
  Qed.
  (* the error flag does not depend on the coordinates as long as every intermediate value is finite (property's domain) *)
  Theorem points_flag has_nil l h v : points_eids m_tan m_cos m_log l h v <> None ->
    is_ok (points_api m_tan m_cos m_log has_nil l h v) = negb (invalid_points has_nil h v).
  Proof.
    intros N. unfold points_api, invalid_points, zoom_bad. destruct (check_zoom h), (check_zoom v), has_nil; cbn; try reflexivity.
    destruct (points_eids m_tan m_cos m_log l h v); [reflexivity|congruence].
  Qed.
  Theorem points_sid_rejects has_nil l z : invalid_points has_nil z z = true -> points_sid_api m_tan m_cos m_log has_nil l z = Err.
  Proof. intros H. unfold points_sid_api. now rewrite points_rejects. Qed.
  Theorem points_sid_flag has_nil l z : points_eids m_tan m_cos m_log l z z <> None ->
    is_ok (points_sid_api m_tan m_cos m_log has_nil l z) = negb (invalid_points has_nil z z).
  Proof.
    intros N. rewrite <- (points_flag has_nil l z z N). unfold points_sid_api, points_api.
    destruct (negb (check_zoom z && check_zoom z)); [reflexivity|]. destruct has_nil; [reflexivity|].
    destruct (points_eids m_tan m_cos m_log l z z) as [r|]; [|reflexivity].
    unfold eids_to_sids. rewrite (map_opt_map print_eid eid_to_sid_str MergeApi.print_sid) by (intros; apply eid_to_sid_print).
    reflexivity.
  Qed.
  (* ---- GetExtendedSpatialIdsOnLine / GetSpatialIdsOnLine; models Line.line_api / line_sid_api (C06).
          has_nil = start or end is nil ---- *)
  Theorem line_rejects has_nil s e h v : invalid_points has_nil h v = true -> line_api m_tan m_cos m_log has_nil s e h v = Err.
  Proof.
    intros H. apply line_api_errors. unfold invalid_points, zoom_bad in H.
    destruct has_nil; [now left|]. destruct (check_zoom h); [|now right; left]. destruct (check_zoom v); [discriminate|now right; right].
  Qed.
  Theorem line_sid_rejects has_nil s e z : invalid_points has_nil z z = true -> line_sid_api m_tan m_cos m_log has_nil s e z = Err.
  Proof. intros H. unfold line_sid_api. now rewrite line_rejects. Qed.
End Points.

(* ---- GetPointOnExtendedSpatialId / GetPointOnSpatialId; models VertexF.point_on_eid_api / point_on_sid_api (C02).
        option: 0 = enum.Vertex, 1 = enum.Center, anything else is not a PointOption ---- *)
Definition option_known (o : Z) : bool := (o =? 0) || (o =? 1).
Definition invalid_point_on_eid (id : string) (opt : Z) : bool :=
  match parse_eid id with
  | None => true
  | Some i => zoom_bad (eh i) || zoom_bad (ev i) || negb (option_known opt)
  end.
Definition invalid_point_on_sid (id : string) (opt : Z) : bool :=
  match sid_to_eid_str id with None => true | Some e => invalid_point_on_eid e opt end.
Section Vertex.
  Variable m_sinh m_atan : float -> float.
  Theorem point_on_eid_flag id opt : is_ok (point_on_eid_api m_sinh m_atan id opt) = negb (invalid_point_on_eid id opt).
  Proof.
    unfold point_on_eid_api, invalid_point_on_eid, zoom_bad, option_known. destruct (parse_eid id) as [i|]; [|reflexivity].
    destruct (check_zoom (eh i)), (check_zoom (ev i)); cbn; try reflexivity.
    destruct (opt =? 1) eqn:A; [now rewrite orb_true_r|]. destruct (opt =? 0); reflexivity.
  Qed.
  Theorem point_on_eid_rejects id opt : invalid_point_on_eid id opt = true -> point_on_eid_api m_sinh m_atan id opt = Err.
  Proof.
    intros H. pose proof (point_on_eid_flag id opt) as F. rewrite H in F. now destruct (point_on_eid_api m_sinh m_atan id opt).
  Qed.
  Theorem point_on_sid_flag id opt : is_ok (point_on_sid_api m_sinh m_atan id opt) = negb (invalid_point_on_sid id opt).
  Proof. unfold point_on_sid_api, invalid_point_on_sid. destruct (sid_to_eid_str id); [apply point_on_eid_flag|reflexivity]. Qed.
  Theorem point_on_sid_rejects id opt : invalid_point_on_sid id opt = true -> point_on_sid_api m_sinh m_atan id opt = Err.
  Proof.
    intros H. pose proof (point_on_sid_flag id opt) as F. rewrite H in F. now destruct (point_on_sid_api m_sinh m_atan id opt).
  Qed.
End Vertex.
(* the spatial form is refused exactly when it has not four fields, a field is not an integer, the zoom is out of range, or the option
   is unknown *)
Lemma invalid_point_on_sid_malformed id opt : wf4 id = false -> invalid_point_on_sid id opt = true.
Proof.
  intros H. unfold invalid_point_on_sid. destruct (sid_to_eid_str id) as [e|] eqn:E; [|reflexivity].
  unfold invalid_point_on_eid. pose proof (sid_to_eid_wf id e E) as W. rewrite H in W. unfold wf5 in W.
  now destruct (parse_eid e).
Qed.

(* ---- ConvertSpatialIdsToExtendedSpatialIds / ConvertExtendedSpatialIdsToSpatialIds; models Ids.sids_to_eids / eids_to_sids (C10).
        The fields are not interpreted: only the number of fields is documented and checked. ---- *)
Definition invalid_s2e (l : list string) : bool := some_bad ar4 l.
Definition invalid_e2s (l : list string) : bool := some_bad ar5 l.
Theorem s2e_flag l : is_ok (sids_to_eids l) = negb (invalid_s2e l).
Proof.
  unfold sids_to_eids, invalid_s2e. rewrite is_ok_some, map_opt_forallb, some_bad_forallb, negb_involutive.
  apply forallb_ext. intros s. apply ar4_sid_to_eid.
Qed.
Theorem e2s_flag l : is_ok (eids_to_sids l) = negb (invalid_e2s l).
Proof.
  unfold eids_to_sids, invalid_e2s. rewrite is_ok_some, map_opt_forallb, some_bad_forallb, negb_involutive.
  apply forallb_ext. intros s. apply ar5_eid_to_sid.
Qed.
Lemma flag_rejects {A} (r : result A) (b : bool) : is_ok r = negb b -> b = true -> r = Err.
Proof. intros F ->. now destruct r. Qed.
Theorem s2e_rejects l : invalid_s2e l = true -> sids_to_eids l = Err.
Proof. apply flag_rejects, s2e_flag. Qed.
Theorem e2s_rejects l : invalid_e2s l = true -> eids_to_sids l = Err.
Proof. apply flag_rejects, e2s_flag. Qed.

(* ---- ConvertPointListToProjectedPointList / ConvertProjectedPointListToPointList; models Project.to_projected / to_geographic
        (C18). Documented exclusion: an EPSG code that does not exist. The third-party transform is an oracle `tr`; that it refuses
        every coordinate under a code it does not know is the oracle assumption of C18 (Project.unknown_epsg_partial). With an
        empty list the loop body never runs and no error is reported: finding class unknown_epsg_empty_list of C18. ---- *)
Definition invalid_project (nonempty : bool) (crs : Z) : bool := negb (epsg_known crs) && nonempty.
Definition nonemptyb {A} (l : list A) : bool := match l with [] => false | _ => true end.
Theorem project_rejects (tr : Z -> Z -> float -> float -> float -> option (float * float * float)) crs :
  (forall a b c, tr geo_crs crs a b c = None) -> (forall a b c, tr crs geo_crs a b c = None) ->
  (forall l, invalid_project (nonemptyb l) crs = true -> snd (to_projected tr l crs) = true) /\
  (forall l, invalid_project (nonemptyb l) crs = true -> snd (to_geographic tr l crs) = true).
Proof.
  intros H1 H2. destruct (unknown_epsg_partial tr crs H1 H2) as [A B].
  split; intros l H; unfold invalid_project in H; apply andb_true_iff in H; destruct H as [_ N];
    (assert (l <> []) as NE by (destruct l; [discriminate|discriminate])); [rewrite (A l NE)|rewrite (B l NE)]; reflexivity.
Qed.
