(* Api.v — property C15: invalid input is rejected with an error, never a panic or a silent answer.
   For every catalogued exported function (meta/C15.json) this file gives
     invalid_<fn> : args -> bool   "the documentation excludes this input", built only from the shared vocabulary
                                    (Str.split / Str.parse / Ids.parse_eid / Ids.check_zoom / float comparisons of F64),
     err_<fn>     : args -> bool   the error flag of the function's model (cheap to run: no expansion, no oracle),
   and the theorems
     <fn>_rejects : invalid_<fn> args = true -> <model> args = Err          (model of the owning property where one is compiled,
                                                                              else the validation prefix written here)
     <fn>_flag    : is_ok (<model> args) = negb (err_<fn> args)              (where the error flag has a closed form).
   "No panic" = every model is a total function and never returns the Panic observable; the runner records any panic of the
   implementation as a failure of the property (finding classes excepted, see DC15.v). *)
From Coq Require Import ZArith Lia List Bool String Floats.
From SID Require Import Base Str Ids F64 ZoomCore AltKeyCore ChangeZoom Merge MergeApi Shift Neighbour Notation PointF VertexF Line
  Project Overlap QuadkeyConv Corridor.
Import ListNotations.
Open Scope Z_scope.

(* ===================================================================================================================== *)
(* 0. vocabulary                                                                                                          *)
(* ===================================================================================================================== *)
Definition is_some {A} (o : option A) : bool := match o with Some _ => true | None => false end.
(* five '/'-separated int64 fields (object.ResetExtendedSpatialID, shape.getExtendedSpatialIdAttrs) *)
Definition wf5 (s : string) : bool := is_some (parse_eid s).
(* four '/'-separated int64 fields (detector.getSpatialIdAttrs) *)
Definition wf4 (s : string) : bool := is_some (ChangeZoom.parse_sid s).
(* field counts only (the notation changes do not interpret the fields) *)
Definition ar5 (s : string) : bool := Nat.eqb (List.length (split s)) 5.
Definition ar4 (s : string) : bool := Nat.eqb (List.length (split s)) 4.
Definition zoom_bad (z : Z) : bool := negb (check_zoom z).
Definition some_bad {A} (ok : A -> bool) (l : list A) : bool := existsb (fun a => negb (ok a)) l.

Lemma some_bad_forallb {A} (ok : A -> bool) l : some_bad ok l = negb (forallb ok l).
Proof. unfold some_bad. induction l as [|a r IH]; cbn; [reflexivity|]. rewrite IH. now destruct (ok a). Qed.
Lemma some_bad_In {A} (ok : A -> bool) l : some_bad ok l = true <-> exists a, In a l /\ ok a = false.
Proof.
  unfold some_bad. rewrite existsb_exists. split; intros (a & Ha & Hb); exists a; split; auto.
  - now apply negb_true_iff.
  - now apply negb_true_iff.
Qed.
Lemma wf5_false s : wf5 s = false <-> parse_eid s = None.
Proof. unfold wf5. destruct (parse_eid s); cbn; split; congruence. Qed.
Lemma wf4_false s : wf4 s = false <-> ChangeZoom.parse_sid s = None.
Proof. unfold wf4. destruct (ChangeZoom.parse_sid s); cbn; split; congruence. Qed.
Lemma wf5_ar5 s : wf5 s = true -> ar5 s = true.
Proof. unfold wf5, ar5, parse_eid. destruct (split s) as [|a [|b [|c [|d [|e [|f r]]]]]]; cbn; congruence. Qed.
Lemma wf4_ar4 s : wf4 s = true -> ar4 s = true.
Proof. unfold wf4, ar4, ChangeZoom.parse_sid. destruct (split s) as [|a [|b [|c [|d [|e r]]]]]; cbn; congruence. Qed.
Lemma parse_all_forallb l : is_some (parse_all l) = forallb wf5 l.
Proof.
  induction l as [|s r IH]; cbn [parse_all forallb]; [reflexivity|]. rewrite <- IH. unfold wf5.
  destruct (parse_eid s), (parse_all r); reflexivity.
Qed.
Lemma map_opt_forallb {A B} (f : A -> option B) l : is_some (map_opt f l) = forallb (fun a => is_some (f a)) l.
Proof.
  induction l as [|s r IH]; cbn [map_opt forallb]; [reflexivity|]. rewrite <- IH.
  destruct (f s), (map_opt f r); reflexivity.
Qed.
Lemma forallb_ext' {A} (f g : A -> bool) l : (forall a, f a = g a) -> forallb f l = forallb g l.
Proof. intros H. induction l as [|a r IH]; cbn; [reflexivity|]. now rewrite H, IH. Qed.
Lemma is_ok_some {A} (o : option A) : is_ok (match o with Some r => Ok r | None => Err end) = is_some o.
Proof. now destruct o. Qed.
Lemma ar4_sid_to_eid s : is_some (sid_to_eid_str s) = ar4 s.
Proof. unfold sid_to_eid_str, ar4. destruct (split s) as [|a [|b [|c [|d [|e r]]]]]; reflexivity. Qed.
Lemma ar5_eid_to_sid s : is_some (eid_to_sid_str s) = ar5 s.
Proof. unfold eid_to_sid_str, ar5. destruct (split s) as [|a [|b [|c [|d [|e [|f r]]]]]]; reflexivity. Qed.

(* a spatial ID that passes the arity check: its extended spelling parses iff its four fields are integers *)
Lemma sid_to_eid_wf s t : sid_to_eid_str s = Some t -> wf5 t = wf4 s.
Proof.
  unfold sid_to_eid_str, wf5, wf4, ChangeZoom.parse_sid, parse_eid. pose proof (ChangeZoom.split_fields_noslash s) as Hn.
  destruct (split s) as [|a [|b [|c [|d [|e r]]]]]; try discriminate. intros E.
  assert (Et : t = join [a; c; d; a; b]) by congruence. rewrite Et. clear E Et.
  cbn [forallb] in Hn. rewrite !andb_true_iff in Hn. destruct Hn as (Ha & Hb & Hc & Hd & _).
  rewrite split_join; [|discriminate|cbn; now rewrite Ha, Hb, Hc, Hd].
  destruct (parse a), (parse b), (parse c), (parse d); reflexivity.
Qed.
Lemma sids_forallb l r : map_opt sid_to_eid_str l = Some r -> forallb wf5 r = forallb wf4 l.
Proof.
  revert r. induction l as [|s l IH]; cbn [map_opt]; intros r.
  - intros [= <-]. reflexivity.
  - destruct (sid_to_eid_str s) as [t|] eqn:E; [|discriminate]. destruct (map_opt sid_to_eid_str l) as [u|]; [|discriminate].
    intros [= <-]. cbn [forallb]. now rewrite (sid_to_eid_wf s t E), (IH u eq_refl).
Qed.
Lemma forallb_wf4_ar4 l : forallb wf4 l = true -> forallb ar4 l = true.
Proof. rewrite !forallb_forall. intros H s Hs. apply wf4_ar4, H, Hs. Qed.

(* expected payload next to the error *)
Inductive payload := P_any | P_empty | P_false | P_estr.

(* ===================================================================================================================== *)
(* 1. common/object                                                                                                       *)
(* ===================================================================================================================== *)
(* ---- NewPoint(lon, lat, alt); model F64.new_point (C01). "Beyond the limit" is read after the documented truncation of
        the latitude to ten decimals (DESIGN 5.3 (ii)): 85.05112877989 is accepted and stored as the limit. ---- *)
Definition invalid_new_point (lon lat : float) : bool :=
  (180 <? abs lon)%float || (c_latmax <? abs (setlat_trunc lat))%float.
Theorem new_point_flag lon lat alt : snd (new_point lon lat alt) = invalid_new_point lon lat.
Proof.
  unfold new_point, invalid_new_point. destruct (180 <? abs lon)%float; [reflexivity|].
  destruct (c_latmax <? abs (setlat_trunc lat))%float; reflexivity.
Qed.
Theorem new_point_rejects lon lat alt : invalid_new_point lon lat = true -> snd (new_point lon lat alt) = true.
Proof. now rewrite new_point_flag. Qed.
(* accepted points: longitude and altitude are stored unchanged (the very same float), the latitude is the ten-decimal cut *)
Theorem new_point_stores lon lat alt : invalid_new_point lon lat = false ->
  fst (new_point lon lat alt) = {| plon := lon; plat := setlat_trunc lat; palt := alt |}.
Proof.
  unfold new_point, invalid_new_point. destruct (180 <? abs lon)%float; [discriminate|].
  destruct (c_latmax <? abs (setlat_trunc lat))%float; [discriminate|reflexivity].
Qed.
(* ---- Point.SetLon / Point.SetLat on an existing object: on an error the object is left as it was ---- *)
Definition set_lon (p : point) (lon : float) : point * bool :=
  if (180 <? abs lon)%float then (p, true) else ({| plon := lon; plat := plat p; palt := palt p |}, false).
Definition set_lat (p : point) (lat : float) : point * bool :=
  let l := setlat_trunc lat in
  if (c_latmax <? abs l)%float then (p, true) else ({| plon := plon p; plat := l; palt := palt p |}, false).
Definition invalid_set_lon (lon : float) : bool := (180 <? abs lon)%float.
Definition invalid_set_lat (lat : float) : bool := (c_latmax <? abs (setlat_trunc lat))%float.
Theorem set_lon_rejects p lon : invalid_set_lon lon = true -> set_lon p lon = (p, true).
Proof. unfold set_lon, invalid_set_lon. now intros ->. Qed.
Theorem set_lat_rejects p lat : invalid_set_lat lat = true -> set_lat p lat = (p, true).
Proof. unfold set_lat, invalid_set_lat. cbv zeta. now intros ->. Qed.
Theorem set_lon_stores p lon : invalid_set_lon lon = false ->
  set_lon p lon = ({| plon := lon; plat := plat p; palt := palt p |}, false).
Proof. unfold set_lon, invalid_set_lon. now intros ->. Qed.
Theorem set_lat_stores p lat : invalid_set_lat lat = false ->
  set_lat p lat = ({| plon := plon p; plat := setlat_trunc lat; palt := palt p |}, false).
Proof. unfold set_lat, invalid_set_lat. cbv zeta. now intros ->. Qed.
(* NewPoint is SetLon, SetLat, SetAlt on the zero object (the object that comes back with an error is partially filled) *)
Theorem new_point_is_setters lon lat alt :
  new_point lon lat alt =
  let '(p1, e1) := set_lon zero_point lon in
  if e1 then (p1, true)
  else let '(p2, e2) := set_lat p1 lat in
       if e2 then (p2, true) else ({| plon := plon p2; plat := plat p2; palt := alt |}, false).
Proof.
  unfold new_point, set_lon, set_lat. destruct (180 <? abs lon)%float; [reflexivity|]. cbv zeta.
  destruct (c_latmax <? abs (setlat_trunc lat))%float; reflexivity.
Qed.

(* ---- NewExtendedSpatialID / ResetExtendedSpatialID; model Notation.new_eid (C10) ---- *)
Definition invalid_new_eid (s : string) : bool := negb (wf5 s).
Theorem new_eid_flag s : is_ok (new_eid s) = negb (invalid_new_eid s).
Proof. unfold new_eid, invalid_new_eid, wf5. destruct (parse_eid s); reflexivity. Qed.
Theorem new_eid_rejects s : invalid_new_eid s = true -> new_eid s = Err.
Proof. unfold new_eid, invalid_new_eid, wf5. destruct (parse_eid s); [discriminate|reflexivity]. Qed.
Theorem new_eid_rejects_unparsed s : parse_eid s = None -> new_eid s = Err.
Proof. intros H. apply new_eid_rejects. unfold invalid_new_eid. now rewrite (proj2 (wf5_false s) H). Qed.
(* Reset on an object that already holds `old`: an error leaves the object unchanged *)
Definition reset_eid (old : eid) (s : string) : eid * bool :=
  match parse_eid s with Some i => (i, false) | None => (old, true) end.
Theorem reset_eid_rejects old s : invalid_new_eid s = true -> reset_eid old s = (old, true).
Proof. unfold reset_eid, invalid_new_eid, wf5. destruct (parse_eid s); [discriminate|reflexivity]. Qed.

(* ---- NewTileXYZ / SetHZoom / SetVZoom (zooms 0..consts.MaxTileXYZZoom = 35; x, y, z unchecked) ---- *)
Record tile := mkt { th : Z; tx : Z; ty : Z; tv : Z; tz : Z }.
Definition new_tile (h x y v z : Z) : result tile :=
  if negb (check_zoom h) then Err else if negb (check_zoom v) then Err else Ok (mkt h x y v z).
Definition tile_set_hzoom (t : tile) (h : Z) : tile * bool :=
  if check_zoom h then (mkt h (tx t) (ty t) (tv t) (tz t), false) else (t, true).
Definition tile_set_vzoom (t : tile) (v : Z) : tile * bool :=
  if check_zoom v then (mkt (th t) (tx t) (ty t) v (tz t), false) else (t, true).
Definition invalid_new_tile (h v : Z) : bool := zoom_bad h || zoom_bad v.
Theorem new_tile_flag h x y v z : is_ok (new_tile h x y v z) = negb (invalid_new_tile h v).
Proof. unfold new_tile, invalid_new_tile, zoom_bad. destruct (check_zoom h), (check_zoom v); reflexivity. Qed.
Theorem new_tile_rejects h x y v z : invalid_new_tile h v = true -> new_tile h x y v z = Err.
Proof. unfold new_tile, invalid_new_tile, zoom_bad. destruct (check_zoom h), (check_zoom v); cbn; congruence. Qed.
Theorem tile_set_hzoom_rejects t h : zoom_bad h = true -> tile_set_hzoom t h = (t, true).
Proof. unfold tile_set_hzoom, zoom_bad. destruct (check_zoom h); [discriminate|reflexivity]. Qed.
Theorem tile_set_vzoom_rejects t v : zoom_bad v = true -> tile_set_vzoom t v = (t, true).
Proof. unfold tile_set_vzoom, zoom_bad. destruct (check_zoom v); [discriminate|reflexivity]. Qed.
(* a tile object that exists has both zooms in range *)
Definition tile_ok (t : tile) : bool := check_zoom (th t) && check_zoom (tv t).
Lemma new_tile_ok h x y v z t : new_tile h x y v z = Ok t -> tile_ok t = true.
Proof.
  unfold new_tile, tile_ok. destruct (check_zoom h) eqn:A; [|discriminate]. destruct (check_zoom v) eqn:B; [|discriminate].
  intros [= <-]. cbn. now rewrite A, B.
Qed.

(* ===================================================================================================================== *)
(* 2. shape                                                                                                               *)
(* ===================================================================================================================== *)
(* ---- GetExtendedSpatialIdsOnPoints / GetSpatialIdsOnPoints; models PointF.points_api / points_sid_api (C01).
        has_nil = the list holds a nil pointer (decided on the wire). ---- *)
Definition invalid_points (has_nil : bool) (h v : Z) : bool := zoom_bad h || zoom_bad v || has_nil.
Section Points.
  Variable m_tan m_cos m_log : float -> float.
  Theorem points_rejects has_nil l h v : invalid_points has_nil h v = true -> points_api m_tan m_cos m_log has_nil l h v = Err.
  Proof.
    unfold points_api, invalid_points, zoom_bad. destruct (check_zoom h), (check_zoom v), has_nil; cbn; congruence.
  Qed.
  (* the error flag does not depend on the coordinates as long as every intermediate value is finite (property's domain) *)
  Theorem points_flag has_nil l h v : points_eids m_tan m_cos m_log l h v <> None ->
    is_ok (points_api m_tan m_cos m_log has_nil l h v) = negb (invalid_points has_nil h v).
  Proof.
    intros N. unfold points_api, invalid_points, zoom_bad. destruct (check_zoom h), (check_zoom v), has_nil; cbn; try reflexivity.
    destruct (points_eids m_tan m_cos m_log l h v); [reflexivity|congruence].
  Qed.
  Theorem points_sid_rejects has_nil l z : invalid_points has_nil z z = true -> points_sid_api m_tan m_cos m_log has_nil l z = Err.
  Proof. intros H. unfold points_sid_api. now rewrite points_rejects. Qed.
  Theorem points_sid_flag has_nil l z : points_eids m_tan m_cos m_log l z z <> None ->
    is_ok (points_sid_api m_tan m_cos m_log has_nil l z) = negb (invalid_points has_nil z z).
  Proof.
    intros N. rewrite <- (points_flag has_nil l z z N). unfold points_sid_api, points_api.
    destruct (negb (check_zoom z && check_zoom z)); [reflexivity|]. destruct has_nil; [reflexivity|].
    destruct (points_eids m_tan m_cos m_log l z z) as [r|]; [|reflexivity].
    unfold eids_to_sids. rewrite (map_opt_map print_eid eid_to_sid_str MergeApi.print_sid) by (intros; apply eid_to_sid_print).
    reflexivity.
  Qed.
  (* ---- GetExtendedSpatialIdsOnLine / GetSpatialIdsOnLine; models Line.line_api / line_sid_api (C06).
          has_nil = start or end is nil ---- *)
  Theorem line_rejects has_nil s e h v : invalid_points has_nil h v = true -> line_api m_tan m_cos m_log has_nil s e h v = Err.
  Proof.
    intros H. apply line_api_errors. unfold invalid_points, zoom_bad in H.
    destruct has_nil; [now left|]. destruct (check_zoom h); [|now right; left]. destruct (check_zoom v); [discriminate|now right; right].
  Qed.
  Theorem line_sid_rejects has_nil s e z : invalid_points has_nil z z = true -> line_sid_api m_tan m_cos m_log has_nil s e z = Err.
  Proof. intros H. unfold line_sid_api. now rewrite line_rejects. Qed.
End Points.

(* ---- GetPointOnExtendedSpatialId / GetPointOnSpatialId; models VertexF.point_on_eid_api / point_on_sid_api (C02).
        option: 0 = enum.Vertex, 1 = enum.Center, anything else is not a PointOption ---- *)
Definition option_known (o : Z) : bool := (o =? 0) || (o =? 1).
Definition invalid_point_on_eid (id : string) (opt : Z) : bool :=
  match parse_eid id with
  | None => true
  | Some i => zoom_bad (eh i) || zoom_bad (ev i) || negb (option_known opt)
  end.
Definition invalid_point_on_sid (id : string) (opt : Z) : bool :=
  match sid_to_eid_str id with None => true | Some e => invalid_point_on_eid e opt end.
Section Vertex.
  Variable m_sinh m_atan : float -> float.
  Theorem point_on_eid_flag id opt : is_ok (point_on_eid_api m_sinh m_atan id opt) = negb (invalid_point_on_eid id opt).
  Proof.
    unfold point_on_eid_api, invalid_point_on_eid, zoom_bad, option_known. destruct (parse_eid id) as [i|]; [|reflexivity].
    destruct (check_zoom (eh i)); [|reflexivity]. destruct (check_zoom (ev i)); [|reflexivity]. cbn [andb negb orb].
    destruct (opt =? 1); [now rewrite orb_true_r|]. destruct (opt =? 0); reflexivity.
  Qed.
  Theorem point_on_eid_rejects id opt : invalid_point_on_eid id opt = true -> point_on_eid_api m_sinh m_atan id opt = Err.
  Proof.
    intros H. pose proof (point_on_eid_flag id opt) as F. rewrite H in F. now destruct (point_on_eid_api m_sinh m_atan id opt).
  Qed.
  Theorem point_on_sid_flag id opt : is_ok (point_on_sid_api m_sinh m_atan id opt) = negb (invalid_point_on_sid id opt).
  Proof. unfold point_on_sid_api, invalid_point_on_sid. destruct (sid_to_eid_str id); [apply point_on_eid_flag|reflexivity]. Qed.
  Theorem point_on_sid_rejects id opt : invalid_point_on_sid id opt = true -> point_on_sid_api m_sinh m_atan id opt = Err.
  Proof.
    intros H. pose proof (point_on_sid_flag id opt) as F. rewrite H in F. now destruct (point_on_sid_api m_sinh m_atan id opt).
  Qed.
End Vertex.
(* the spatial form is refused exactly when it has not four fields, a field is not an integer, the zoom is out of range, or the option
   is unknown *)
Lemma invalid_point_on_sid_malformed id opt : wf4 id = false -> invalid_point_on_sid id opt = true.
Proof.
  intros H. unfold invalid_point_on_sid. destruct (sid_to_eid_str id) as [e|] eqn:E; [|reflexivity].
  unfold invalid_point_on_eid. pose proof (sid_to_eid_wf id e E) as W. rewrite H in W. unfold wf5 in W.
  now destruct (parse_eid e).
Qed.

(* ---- ConvertSpatialIdsToExtendedSpatialIds / ConvertExtendedSpatialIdsToSpatialIds; models Ids.sids_to_eids / eids_to_sids (C10).
        The fields are not interpreted: only the number of fields is documented and checked. ---- *)
Definition invalid_s2e (l : list string) : bool := some_bad ar4 l.
Definition invalid_e2s (l : list string) : bool := some_bad ar5 l.
Theorem s2e_flag l : is_ok (sids_to_eids l) = negb (invalid_s2e l).
Proof.
  unfold sids_to_eids, invalid_s2e. rewrite is_ok_some, map_opt_forallb, some_bad_forallb, negb_involutive.
  apply forallb_ext'. intros s. apply ar4_sid_to_eid.
Qed.
Theorem e2s_flag l : is_ok (eids_to_sids l) = negb (invalid_e2s l).
Proof.
  unfold eids_to_sids, invalid_e2s. rewrite is_ok_some, map_opt_forallb, some_bad_forallb, negb_involutive.
  apply forallb_ext'. intros s. apply ar5_eid_to_sid.
Qed.
Lemma flag_rejects {A} (r : result A) (b : bool) : is_ok r = negb b -> b = true -> r = Err.
Proof. intros F ->. now destruct r. Qed.
Theorem s2e_rejects l : invalid_s2e l = true -> sids_to_eids l = Err.
Proof. apply flag_rejects, s2e_flag. Qed.
Theorem e2s_rejects l : invalid_e2s l = true -> eids_to_sids l = Err.
Proof. apply flag_rejects, e2s_flag. Qed.

(* ---- ConvertPointListToProjectedPointList / ConvertProjectedPointListToPointList (full models: Project.to_projected /
        to_geographic, C18, over the third-party transform as an oracle). Documented exclusion: an EPSG code that does not exist.
        Validation prefix (after fix e07a6eb): the code is looked up in the library's table (Project.epsg_known, wgs84 v1.1.7)
        BEFORE the loop over the points, so an unknown code is an error for every list, the empty one included; `body` is
        the rest of the function (C18). ---- *)
Definition invalid_project (crs : Z) : bool := negb (epsg_known crs).
Definition project_prefix {A} (crs : Z) (body : unit -> list A * bool) : list A * bool :=
  if negb (epsg_known crs) then ([], true) else body tt.
Definition nonemptyb {A} (l : list A) : bool := match l with [] => false | _ => true end.
Theorem project_rejects {A} crs (body : unit -> list A * bool) : invalid_project crs = true -> project_prefix crs body = ([], true).
Proof. unfold invalid_project, project_prefix. now intros ->. Qed.
Theorem project_rejects_unknown {A} crs (body : unit -> list A * bool) : epsg_known crs = false -> project_prefix crs body = ([], true).
Proof. intros H. apply project_rejects. unfold invalid_project. now rewrite H. Qed.
Theorem project_known {A} crs (body : unit -> list A * bool) : invalid_project crs = false -> project_prefix crs body = body tt.
Proof. unfold invalid_project, project_prefix. now intros ->. Qed.

(* ===================================================================================================================== *)
(* 3. integrate                                                                                                           *)
(* ===================================================================================================================== *)
(* ---- ChangeExtendedSpatialIdsZoom / ChangeSpatialIdsZoom; models ChangeZoom.change_ext_api / change_sid_api (C03) ---- *)
Definition invalid_change_ext (ids : list string) (H V : Z) : bool := zoom_bad H || zoom_bad V || some_bad wf5 ids.
Definition invalid_change_sid (sids : list string) (z : Z) : bool := zoom_bad z || some_bad wf4 sids.
Theorem change_ext_flag ids H V : is_ok (change_ext_api ids H V) = negb (invalid_change_ext ids H V).
Proof.
  unfold change_ext_api, invalid_change_ext, zoom_bad. rewrite some_bad_forallb, <- parse_all_forallb.
  destruct (check_zoom H); [|reflexivity]. destruct (check_zoom V); [|reflexivity]. cbn [andb negb orb].
  destruct (parse_all ids); reflexivity.
Qed.
Theorem change_ext_rejects ids H V : invalid_change_ext ids H V = true -> change_ext_api ids H V = Err.
Proof. apply flag_rejects, change_ext_flag. Qed.
(* the notation change refuses a member without four fields; such a member is not a well-formed spatial ID either *)
Lemma arity_fails_wf4 sids : map_opt sid_to_eid_str sids = None -> forallb wf4 sids = false.
Proof.
  intros E. destruct (forallb wf4 sids) eqn:W; [|reflexivity]. apply forallb_wf4_ar4 in W.
  pose proof (map_opt_forallb sid_to_eid_str sids) as M. rewrite E in M. cbn [is_some] in M.
  rewrite (forallb_ext' _ ar4) in M by apply ar4_sid_to_eid. congruence.
Qed.
Theorem change_sid_flag sids z : is_ok (change_sid_api sids z) = negb (invalid_change_sid sids z).
Proof.
  unfold change_sid_api, sids_to_eids, invalid_change_sid. rewrite some_bad_forallb.
  destruct (map_opt sid_to_eid_str sids) as [es|] eqn:E.
  - pose proof (change_ext_flag es z z) as F. unfold invalid_change_ext in F. rewrite some_bad_forallb, (sids_forallb _ _ E) in F.
    destruct (change_ext_api es z z); cbn [is_ok] in *; rewrite F; destruct (zoom_bad z); reflexivity.
  - rewrite (arity_fails_wf4 sids E). cbn. now rewrite orb_true_r.
Qed.
Theorem change_sid_rejects sids z : invalid_change_sid sids z = true -> change_sid_api sids z = Err.
Proof. apply flag_rejects, change_sid_flag. Qed.

(* ---- MergeExtendedSpatialIds / MergeSpatialIds; models Merge.merge_ext_api / merge_sid_api (C04) ---- *)
Theorem merge_ext_flag ids H V : is_ok (merge_ext_api ids H V) = negb (invalid_change_ext ids H V).
Proof.
  unfold merge_ext_api, invalid_change_ext, zoom_bad. rewrite some_bad_forallb, <- parse_all_forallb.
  destruct (check_zoom H); [|reflexivity]. destruct (check_zoom V); [|reflexivity]. cbn [andb negb orb].
  destruct (parse_all ids); reflexivity.
Qed.
Theorem merge_ext_rejects ids H V : invalid_change_ext ids H V = true -> merge_ext_api ids H V = Err.
Proof. apply flag_rejects, merge_ext_flag. Qed.
Theorem merge_sid_flag sids z : is_ok (merge_sid_api sids z) = negb (invalid_change_sid sids z).
Proof.
  unfold merge_sid_api, sids_to_eids, invalid_change_sid. rewrite some_bad_forallb.
  destruct (map_opt sid_to_eid_str sids) as [es|] eqn:E.
  - pose proof (merge_ext_flag es z z) as F. unfold invalid_change_ext in F. rewrite some_bad_forallb, (sids_forallb _ _ E) in F.
    destruct (merge_ext_api es z z) as [r|]; cbn [is_ok] in *.
    + destruct (eids_to_sids r); cbn [is_ok]; rewrite F; destruct (zoom_bad z); reflexivity.
    + rewrite F; destruct (zoom_bad z); reflexivity.
  - rewrite (arity_fails_wf4 sids E). cbn. now rewrite orb_true_r.
Qed.
Theorem merge_sid_rejects sids z : invalid_change_sid sids z = true -> merge_sid_api sids z = Err.
Proof. apply flag_rejects, merge_sid_flag. Qed.

(* ===================================================================================================================== *)
(* 4. operated                                                                                                            *)
(* ===================================================================================================================== *)
(* ---- GetShiftingSpatialID (no error result: "" on a malformed ID); model Shift.shift_api (C07) ---- *)
Definition invalid_shift (s : string) : bool := negb (wf5 s).
Theorem shift_rejects s dx dy dv : invalid_shift s = true -> shift_api s dx dy dv = EmptyString.
Proof. unfold invalid_shift. rewrite negb_true_iff, wf5_false. apply shift_api_malformed. Qed.
Lemma app_slash_nonempty a r : (a ++ String slash r)%string <> EmptyString.
Proof. destruct a; discriminate. Qed.
(* a well-formed ID never gives the empty string: "" means "refused" and nothing else *)
Theorem shift_accepts s dx dy dv : invalid_shift s = false -> shift_api s dx dy dv <> EmptyString.
Proof.
  unfold invalid_shift, wf5, shift_api. destruct (parse_eid s) as [i|]; [|discriminate]. intros _.
  unfold print_eid. cbn [join]. apply app_slash_nonempty.
Qed.
(* ---- Get6spatialIdsAdjacentToFaces / Get8spatialIdsAroundHorizontal / Get26spatialIdsAroundVoxel: 6 / 8 / 26 empty IDs ---- *)
Theorem n6_rejects s : invalid_shift s = true -> n6_api s = repeat EmptyString 6.
Proof. unfold invalid_shift. rewrite negb_true_iff, wf5_false. apply n6_malformed. Qed.
Theorem n8_rejects s : invalid_shift s = true -> n8_api s = repeat EmptyString 8.
Proof. unfold invalid_shift. rewrite negb_true_iff, wf5_false. apply n8_malformed. Qed.
Theorem n26_rejects s : invalid_shift s = true -> n26_api s = repeat EmptyString 26.
Proof. unfold invalid_shift. rewrite negb_true_iff, wf5_false. apply n26_malformed. Qed.
(* ---- GetNspatialIdsAroundVoxcels; model Neighbour.nN_api (C08) ---- *)
Definition invalid_nN (ids : list string) (H V : Z) : bool := (H <? 0) || (V <? 0) || some_bad wf5 ids.
Theorem nN_flag ids H V : is_ok (nN_api ids H V) = negb (invalid_nN ids H V).
Proof.
  unfold nN_api, invalid_nN. rewrite some_bad_forallb. destruct ((H <? 0) || (V <? 0)); [reflexivity|]. cbn [orb].
  rewrite (forallb_ext' well_formed wf5) by reflexivity. destruct (forallb wf5 ids); reflexivity.
Qed.
Theorem nN_rejects ids H V : invalid_nN ids H V = true -> nN_api ids H V = Err.
Proof. apply flag_rejects, nN_flag. Qed.

(* ===================================================================================================================== *)
(* 5. detector                                                                                                            *)
(* ===================================================================================================================== *)
(* ---- CheckExtendedSpatialIdsOverlap / CheckSpatialIdsOverlap; models Overlap.ext_overlap / sp_overlap (C05) ---- *)
Definition invalid_ext_overlap (a b : string) : bool := negb (wf5 a) || negb (wf5 b).
Definition invalid_sp_overlap (a b : string) : bool := negb (wf4 a) || negb (wf4 b).
Theorem ext_overlap_rejects a b : invalid_ext_overlap a b = true -> ext_overlap a b = Err.
Proof.
  unfold invalid_ext_overlap. rewrite orb_true_iff, !negb_true_iff, !wf5_false. apply ext_overlap_malformed.
Qed.
Theorem sp_overlap_rejects a b : invalid_sp_overlap a b = true -> sp_overlap a b = Err.
Proof.
  unfold invalid_sp_overlap. rewrite orb_true_iff, !negb_true_iff, !wf4_false. apply sp_overlap_malformed.
Qed.
(* ---- CheckExtendedSpatialIdsArrayOverlap / CheckSpatialIdsArrayOverlap; models Overlap.ext_array / sp_array (C05).
        The functions stop at the first overlapping pair, and the extended form examines nothing when one of the lists is empty; the
        property asks for an error only from an operation that INTERPRETS the malformed field, and the documentation promises
        false for an empty list. So an error is demanded exactly when the malformed member must have been interpreted whatever
        the evaluation order: some member is malformed, both lists are non-empty, and no pair of members is an overlapping pair
        (the answer "false" can only be given after examining every member). In all other cases either outcome is accepted by the
        property; the faithful model is still compared (a change of the validation order is a correspondence failure). ---- *)
Definition pair_hit (ov : string -> string -> result bool) (l1 l2 : list string) : bool :=
  existsb (fun a => existsb (fun b => match ov a b with Ok true => true | _ => false end) l2) l1.
Definition invalid_ext_array (l1 l2 : list string) : bool :=
  (some_bad wf5 l1 || some_bad wf5 l2) && nonemptyb l1 && nonemptyb l2 && negb (pair_hit ext_overlap l1 l2).
Definition invalid_sp_array (l1 l2 : list string) : bool :=
  (some_bad wf4 l1 || some_bad wf4 l2) && nonemptyb l1 && nonemptyb l2 && negb (pair_hit sp_overlap l1 l2).
Lemma pair_hit_intro (ov : string -> string -> result bool) l1 l2 a b :
  In a l1 -> In b l2 -> ov a b = Ok true -> pair_hit ov l1 l2 = true.
Proof.
  intros Ha Hb E. unfold pair_hit. apply existsb_exists. exists a. split; [exact Ha|].
  apply existsb_exists. exists b. split; [exact Hb|]. now rewrite E.
Qed.

Lemma ext_inner_false a l2 : ext_inner a l2 = Ok false -> forall b, In b l2 -> ext_overlap a b = Ok false.
Proof.
  induction l2 as [|c r IH]; cbn [ext_inner]; intros H b Hb; [contradiction|].
  destruct (ext_overlap a c) as [[|]|] eqn:E; try discriminate. destruct Hb as [<-|Hb]; [exact E|now apply IH].
Qed.
Lemma ext_array_false l1 l2 : ext_array l1 l2 = Ok false -> forall a, In a l1 -> ext_inner a l2 = Ok false.
Proof.
  induction l1 as [|c r IH]; cbn [ext_array]; intros H a Ha; [contradiction|].
  destruct (ext_inner c l2) as [[|]|] eqn:E; try discriminate. destruct Ha as [<-|Ha]; [exact E|now apply IH].
Qed.
Lemma ext_inner_true a l2 : ext_inner a l2 = Ok true -> exists b, In b l2 /\ ext_overlap a b = Ok true.
Proof.
  induction l2 as [|c r IH]; cbn [ext_inner]; intros H; [discriminate|].
  destruct (ext_overlap a c) as [[|]|] eqn:E; try discriminate.
  - exists c. split; [now left|exact E].
  - destruct (IH H) as (b & Hb & Eb). exists b. split; [now right|exact Eb].
Qed.
Lemma ext_array_true l1 l2 : ext_array l1 l2 = Ok true -> exists a b, In a l1 /\ In b l2 /\ ext_overlap a b = Ok true.
Proof.
  induction l1 as [|c r IH]; cbn [ext_array]; intros H; [discriminate|].
  destruct (ext_inner c l2) as [[|]|] eqn:E; try discriminate.
  - destruct (ext_inner_true c l2 E) as (b & Hb & Eb). exists c, b. repeat split; [now left|exact Hb|exact Eb].
  - destruct (IH H) as (a & b & Ha & Hb & Eb). exists a, b. repeat split; [now right|exact Hb|exact Eb].
Qed.
Lemma ext_overlap_ok_wf a b r : ext_overlap a b = Ok r -> wf5 a = true /\ wf5 b = true.
Proof.
  intros H. destruct (wf5 a) eqn:A, (wf5 b) eqn:B; auto; exfalso;
    rewrite (ext_overlap_rejects a b) in H by (unfold invalid_ext_overlap; rewrite A, B; reflexivity); discriminate.
Qed.
(* the answer "no overlap" for two non-empty lists is given only after every member has been validated *)
Lemma ext_array_false_all_wf l1 l2 : l1 <> [] -> l2 <> [] -> ext_array l1 l2 = Ok false ->
  some_bad wf5 l1 || some_bad wf5 l2 = false.
Proof.
  intros N1 N2 H. rewrite !some_bad_forallb.
  assert (P : forall a b, In a l1 -> In b l2 -> wf5 a = true /\ wf5 b = true).
  { intros a b Ha Hb. apply (ext_overlap_ok_wf a b false). apply (ext_inner_false a l2); [|exact Hb]. now apply (ext_array_false l1 l2). }
  destruct l1 as [|a1 r1]; [congruence|]. destruct l2 as [|b1 r2]; [congruence|].
  assert (F1 : forallb wf5 (a1 :: r1) = true) by (apply forallb_forall; intros a Ha; apply (P a b1 Ha (or_introl eq_refl))).
  assert (F2 : forallb wf5 (b1 :: r2) = true) by (apply forallb_forall; intros b Hb; apply (P a1 b (or_introl eq_refl) Hb)).
  now rewrite F1, F2.
Qed.
Lemma nonemptyb_true {A} (l : list A) : nonemptyb l = true -> l <> [].
Proof. destruct l; [discriminate|discriminate]. Qed.
Theorem ext_array_rejects l1 l2 : invalid_ext_array l1 l2 = true -> ext_array l1 l2 = Err.
Proof.
  unfold invalid_ext_array. rewrite !andb_true_iff, negb_true_iff. intros (((B & N1) & N2) & Hh).
  apply nonemptyb_true in N1, N2. destruct (ext_array l1 l2) as [[|]|] eqn:E; [| |reflexivity]; exfalso.
  - destruct (ext_array_true l1 l2 E) as (a & b & Ha & Hb & Eb). rewrite (pair_hit_intro ext_overlap l1 l2 a b Ha Hb Eb) in Hh. discriminate.
  - rewrite (ext_array_false_all_wf l1 l2 N1 N2 E) in B. discriminate.
Qed.
(* what is NOT demanded (accepted either way by the property, compared with the model all the same) *)
Example ext_array_not_demanded :
  ext_array ["x"%string] [] = Ok false /\ invalid_ext_array ["x"%string] [] = false /\
  ext_array ["1/0/0/1/0"%string] ["1/0/0/1/0"%string; "x"%string] = Ok true /\
  invalid_ext_array ["1/0/0/1/0"%string] ["1/0/0/1/0"%string; "x"%string] = false /\
  invalid_ext_array ["1/0/0/1/0"%string] ["1/1/0/1/0"%string; "x"%string] = true.
Proof. repeat split; vm_compute; reflexivity. Qed.

Lemma sp_insert_ok_wf l1 : forall t t', sp_insert l1 t = Ok t' -> forallb wf4 l1 = true.
Proof.
  induction l1 as [|s r IH]; cbn [sp_insert forallb]; intros t t' H; [reflexivity|]. unfold wf4 at 1.
  destruct (ChangeZoom.parse_sid s) as [i|]; [|discriminate]. destruct (fkey (ef i) (eh i)); [|discriminate]. cbn. eapply IH, H.
Qed.
Lemma sp_query_false_wf e t l2 : sp_query e t l2 = Ok false -> forallb wf4 l2 = true.
Proof.
  induction l2 as [|s r IH]; cbn [sp_query forallb]; intros H; [reflexivity|]. unfold wf4 at 1.
  destruct (ChangeZoom.parse_sid s) as [i|]; [|discriminate]. destruct (fkey (ef i) (eh i)); [|discriminate]. cbn.
  destruct e; [now apply IH|]. destruct (Radix.rsearch _ t); [discriminate|now apply IH].
Qed.
(* the first list is always validated completely; the second one up to the first hit *)
Theorem sp_array_first_list l1 l2 r : sp_array l1 l2 = Ok r -> some_bad wf4 l1 = false.
Proof.
  unfold sp_array. destruct (sp_insert l1 Radix.rempty) as [t|] eqn:E; [|discriminate]. intros _.
  rewrite some_bad_forallb, (sp_insert_ok_wf l1 _ _ E). reflexivity.
Qed.
Lemma sp_array_false_all_wf l1 l2 : sp_array l1 l2 = Ok false -> some_bad wf4 l1 || some_bad wf4 l2 = false.
Proof.
  intros H. rewrite (sp_array_first_list l1 l2 false H). cbn [orb].
  unfold sp_array in H. destruct (sp_insert l1 Radix.rempty) as [t|]; [|discriminate].
  rewrite some_bad_forallb, (sp_query_false_wf _ _ _ H). reflexivity.
Qed.
(* the keys stored by the first loop are the keys of members of the first list *)
Definition key_of (a : string) (q : list Z) : Prop :=
  exists i f', ChangeZoom.parse_sid a = Some i /\ fkey (ef i) (eh i) = Ok f' /\ q = skey (eh i) f' (ex i) (ey i).
Lemma sp_insert_stored l1 : forall t t', Radix.twf t -> sp_insert l1 t = Ok t' ->
  Radix.twf t' /\ forall q, Radix.stored t' q -> Radix.stored t q \/ exists a, In a l1 /\ key_of a q.
Proof.
  induction l1 as [|s r IH]; cbn [sp_insert]; intros t t' W H.
  - injection H as <-. split; [exact W|]. intros q Hq. now left.
  - destruct (ChangeZoom.parse_sid s) as [i|] eqn:P; [|discriminate]. destruct (fkey (ef i) (eh i)) as [f'|] eqn:F; [|discriminate].
    destruct (IH _ _ (Radix.twf_append _ t W) H) as [W' S]. split; [exact W'|]. intros q Hq.
    destruct (S q Hq) as [Hs|(a & Ha & Ka)].
    + apply Radix.stored_append in Hs. destruct Hs as [->|Hs]; [|now left]. right. exists s. split; [now left|].
      exists i, f'. repeat split; assumption.
    + right. exists a. split; [now right|exact Ka].
Qed.
Lemma sp_query_true t l2 : sp_query false t l2 = Ok true ->
  exists b q, In b l2 /\ key_of b q /\ Radix.rsearch q t = true.
Proof.
  induction l2 as [|s r IH]; cbn [sp_query]; intros H; [discriminate|].
  destruct (ChangeZoom.parse_sid s) as [i|] eqn:P; [|discriminate]. destruct (fkey (ef i) (eh i)) as [f'|] eqn:F; [|discriminate].
  destruct (Radix.rsearch (skey (eh i) f' (ex i) (ey i)) t) eqn:R.
  - exists s, (skey (eh i) f' (ex i) (ey i)). repeat split; [now left| |exact R]. exists i, f'. repeat split; assumption.
  - destruct (IH H) as (b & q & Hb & Kb & Rb). exists b, q. repeat split; [now right|exact Kb|exact Rb].
Qed.
Lemma sp_query_empty1 t l2 r : sp_query true t l2 = Ok r -> r = false.
Proof.
  induction l2 as [|s l IH]; cbn [sp_query]; intros H; [now injection H as <-|].
  destruct (ChangeZoom.parse_sid s) as [i|]; [|discriminate]. destruct (fkey (ef i) (eh i)); [|discriminate]. now apply IH.
Qed.
Lemma sp_pair_hit a b ka kb : key_of a ka -> key_of b kb -> (Radix.prefix ka kb \/ Radix.prefix kb ka) -> sp_overlap a b = Ok true.
Proof.
  intros (i & f1 & Pa & Fa & ->) (j & f2 & Pb & Fb & ->) Hp. unfold sp_overlap, sp_array. cbn [sp_insert sp_query].
  rewrite Pa, Fa, Pb, Fb.
  assert (R : Radix.rsearch (skey (eh j) f2 (ex j) (ey j)) (Radix.rappend (skey (eh i) f1 (ex i) (ey i)) Radix.rempty) = true).
  { apply (Radix.search_spec _ _ (Radix.twf_append _ _ Radix.twf_rempty)). exists (skey (eh i) f1 (ex i) (ey i)).
    split; [apply Radix.stored_append; now left|exact Hp]. }
  now rewrite R.
Qed.
Lemma sp_array_true l1 l2 : sp_array l1 l2 = Ok true -> exists a b, In a l1 /\ In b l2 /\ sp_overlap a b = Ok true.
Proof.
  unfold sp_array. destruct (sp_insert l1 Radix.rempty) as [t|] eqn:E; [|discriminate]. intros H.
  destruct (sp_insert_stored l1 _ _ Radix.twf_rempty E) as [W S].
  destruct l1 as [|a0 r0]; [apply sp_query_empty1 in H; discriminate|].
  destruct (sp_query_true t l2 H) as (b & q & Hb & Kb & R).
  apply (Radix.search_spec q t W) in R. destruct R as (k & Hk & Hp).
  destruct (S k Hk) as [Hs|(a & Ha & Ka)]; [now apply Radix.stored_rempty in Hs|].
  exists a, b. repeat split; [exact Ha|exact Hb|]. eapply sp_pair_hit; eauto.
Qed.
Theorem sp_array_rejects l1 l2 : invalid_sp_array l1 l2 = true -> sp_array l1 l2 = Err.
Proof.
  unfold invalid_sp_array. rewrite !andb_true_iff, negb_true_iff. intros (((B & N1) & N2) & Hh).
  destruct (sp_array l1 l2) as [[|]|] eqn:E; [| |reflexivity]; exfalso.
  - destruct (sp_array_true l1 l2 E) as (a & b & Ha & Hb & Eb). rewrite (pair_hit_intro sp_overlap l1 l2 a b Ha Hb Eb) in Hh. discriminate.
  - rewrite (sp_array_false_all_wf l1 l2 E) in B. discriminate.
Qed.
Example sp_array_not_demanded :
  sp_array ["3/0/0/0"%string] ["3/0/0/0"%string; "x"%string] = Ok true /\
  invalid_sp_array ["3/0/0/0"%string] ["3/0/0/0"%string; "x"%string] = false /\
  invalid_sp_array ["3/0/0/0"%string] ["3/0/1/0"%string; "x"%string] = true /\
  sp_array ["3/0/0/0"%string] ["3/0/1/0"%string; "x"%string] = Err.
Proof. repeat split; vm_compute; reflexivity. Qed.

(* ===================================================================================================================== *)
(* 6. transform                                                                                                           *)
(* ===================================================================================================================== *)
(* ---- the ID -> key conversions; models QuadkeyConv.e2q / s2q / e2qa (C11, C12) -------------------------------------------
        ConvertExtendedSpatialIDsToQuadkeysAndVerticalIDs(ids, oh, ov, maxHeight, minHeight)     index = (maxHeight == minHeight);
        ConvertSpatialIDsToQuadkeysAndVerticalIDs; ConvertExtendedSpatialIDsToQuadkeysAndAltitudekeys(ids, oq, oa, E, O).
        Documented: output quadkey zoom 1..31, output vertical zoom 0..35, five (four) integer fields, maxHeight >= minHeight
        (the bit form maxHeight > minHeight belongs to C17 and is not generated here). ---- *)
Definition id_ok (vert : Z -> Z -> result (list Z)) (s : string) : bool :=
  match parse_eid s with
  | None => false
  | Some i => echeck (eh i) (ev i) && is_ok (vert (ev i) (ef i))
  end.
Lemma id_pairs_ok oh vert s : is_ok (id_pairs oh vert s) = id_ok vert s.
Proof.
  unfold id_pairs, id_ok. destruct (parse_eid s) as [i|]; [|reflexivity].
  destruct (echeck (eh i) (ev i)); [|reflexivity]. cbn [negb andb]. destruct (vert (ev i) (ef i)); reflexivity.
Qed.
Lemma conv_loop_ok {P} oh ov (par : P) vert ids : forall seen,
  is_ok (conv_loop oh ov par vert seen ids) = forallb (id_ok vert) ids.
Proof.
  induction ids as [|s r IH]; intros seen; cbn [conv_loop forallb]; [reflexivity|].
  rewrite <- (id_pairs_ok oh vert s). destruct (id_pairs oh vert s) as [ps|]; [|reflexivity]. cbn [is_ok andb].
  destruct (fresh seen ps) as [seen' k]. rewrite <- (IH seen'). destruct (conv_loop oh ov par vert seen' r); reflexivity.
Qed.
Theorem conv_flag {P} oh ov (par : P) vert ids : is_ok (conv oh ov par vert ids) = qcheck oh ov && forallb (id_ok vert) ids.
Proof. unfold conv. destruct (qcheck oh ov); [apply conv_loop_ok|reflexivity]. Qed.

Definition invalid_e2q (index : bool) (ids : list string) (oh ov : Z) : bool :=
  negb (qcheck oh ov) || some_bad wf5 ids || (negb index && nonemptyb ids).
Definition invalid_s2q (index : bool) (sids : list string) (oh ov : Z) : bool :=
  negb (qcheck oh ov) || some_bad wf4 sids || (negb index && nonemptyb sids).
Definition invalid_e2qa (ids : list string) (oq oa : Z) : bool := negb (qcheck oq oa) || some_bad wf5 ids.
(* error flags of the models (zoom fields of parseable members may still be out of range; altitude conversion may refuse) *)
Definition err_e2q (index : bool) (ids : list string) (oh ov : Z) : bool :=
  negb (qcheck oh ov && forallb (id_ok (if index then vert_index ov else vert_bad)) ids).
Definition err_e2qa (ids : list string) (oq oa E O : Z) : bool :=
  negb (qcheck oq oa && forallb (id_ok (vert_alt oa E O)) ids).
Theorem e2q_flag {P} (par : P) index ids oh ov : is_ok (e2q par index ids oh ov) = negb (err_e2q index ids oh ov).
Proof. unfold e2q, err_e2q. now rewrite conv_flag, negb_involutive. Qed.
Theorem e2qa_flag ids oq oa E O : is_ok (e2qa ids oq oa E O) = negb (err_e2qa ids oq oa E O).
Proof. unfold e2qa, err_e2qa. now rewrite conv_flag, negb_involutive. Qed.
Lemma id_ok_wf5 vert s : id_ok vert s = true -> wf5 s = true.
Proof. unfold id_ok, wf5. destruct (parse_eid s); [reflexivity|discriminate]. Qed.
Lemma forallb_id_ok_wf5 vert ids : forallb (id_ok vert) ids = true -> forallb wf5 ids = true.
Proof. rewrite !forallb_forall. intros H s Hs. eapply id_ok_wf5, H, Hs. Qed.
Lemma id_ok_bad s : id_ok vert_bad s = false.
Proof. unfold id_ok, vert_bad. destruct (parse_eid s); [now rewrite andb_false_r|reflexivity]. Qed.
Theorem e2q_invalid_err index ids oh ov : invalid_e2q index ids oh ov = true -> err_e2q index ids oh ov = true.
Proof.
  unfold invalid_e2q, err_e2q. intros H. destruct (qcheck oh ov); [|reflexivity]. cbn [negb orb andb] in *.
  apply negb_true_iff. destruct (forallb (id_ok (if index then vert_index ov else vert_bad)) ids) eqn:F; [|reflexivity].
  rewrite some_bad_forallb, (forallb_id_ok_wf5 _ _ F) in H. cbn [negb orb] in H. destruct index; [discriminate|].
  destruct ids as [|s r]; [discriminate|]. cbn [forallb] in F. now rewrite id_ok_bad in F.
Qed.
Theorem e2q_rejects {P} (par : P) index ids oh ov : invalid_e2q index ids oh ov = true -> e2q par index ids oh ov = Err.
Proof. intros H. apply (flag_rejects _ _ (e2q_flag par index ids oh ov)), e2q_invalid_err, H. Qed.
Theorem e2qa_rejects ids oq oa E O : invalid_e2qa ids oq oa = true -> e2qa ids oq oa E O = Err.
Proof.
  intros H. apply (flag_rejects _ _ (e2qa_flag ids oq oa E O)). unfold invalid_e2qa in H. unfold err_e2qa.
  destruct (qcheck oq oa); [|reflexivity]. cbn [negb orb andb] in *. apply negb_true_iff.
  destruct (forallb (id_ok (vert_alt oa E O)) ids) eqn:F; [|reflexivity].
  rewrite some_bad_forallb, (forallb_id_ok_wf5 _ _ F) in H. discriminate.
Qed.
Definition err_s2q (index : bool) (sids : list string) (oh ov : Z) : bool :=
  match sids_to_eids sids with Err => true | Ok l => err_e2q index l oh ov end.
Theorem s2q_flag {P} (par : P) index sids oh ov : is_ok (s2q par index sids oh ov) = negb (err_s2q index sids oh ov).
Proof. unfold s2q, err_s2q. destruct (sids_to_eids sids); [apply e2q_flag|reflexivity]. Qed.
Theorem s2q_rejects {P} (par : P) index sids oh ov : invalid_s2q index sids oh ov = true -> s2q par index sids oh ov = Err.
Proof.
  intros H. apply (flag_rejects _ _ (s2q_flag par index sids oh ov)). unfold err_s2q, sids_to_eids.
  destruct (map_opt sid_to_eid_str sids) as [l|] eqn:E; [|reflexivity]. apply e2q_invalid_err.
  unfold invalid_s2q in H. unfold invalid_e2q. rewrite !some_bad_forallb in *. rewrite (sids_forallb _ _ E).
  assert (L : nonemptyb l = nonemptyb sids).
  { pose proof (map_opt_length _ _ _ E) as Len. destruct l, sids; cbn in *; congruence. }
  now rewrite L.
Qed.

(* ---- the key -> ID conversions; models QuadkeyConv.q2e / q2s (C11) ---------------------------------------------------------
        ConvertQuadkeysAndVerticalIDsToExtendedSpatialIDs(items, oh, ov) / ...ToSpatialIDs(items, z). Documented: output zooms 0..35,
        each item's quadkey zoom 1..31 and vertical zoom 0..35, maxHeight >= minHeight (qidx = (maxHeight == minHeight)). ---- *)
Definition item_zoom_bad (it : qitem) : bool := negb (qcheck (qz it) (qvz it)).
Definition invalid_q2e (items : list qitem) (oh ov : Z) : bool :=
  negb (echeck oh ov) || existsb item_zoom_bad items || existsb (fun it => negb (qidx it)) items.
Definition item_err (it : qitem) : bool := negb (qcheck (qz it) (qvz it)) || (quadkey_limit <? qk it) || negb (qidx it).
Definition err_q2e (items : list qitem) (oh ov : Z) : bool := negb (echeck oh ov) || existsb item_err items.
Lemma q2e_item_ok oh ov it : is_ok (q2e_item oh ov it) = negb (item_err it).
Proof.
  unfold q2e_item, item_err. destruct (qcheck (qz it) (qvz it)); [|reflexivity]. cbn [negb orb].
  destruct (quadkey_limit <? qk it); [reflexivity|]. cbn [orb]. destruct (qidx it); reflexivity.
Qed.
Lemma q2e_loop_ok oh ov items : is_ok (q2e_loop oh ov items) = negb (existsb item_err items).
Proof.
  induction items as [|it r IH]; cbn [q2e_loop existsb]; [reflexivity|]. rewrite negb_orb, <- (q2e_item_ok oh ov it), <- IH.
  destruct (q2e_item oh ov it); [|reflexivity]. destruct (q2e_loop oh ov r); reflexivity.
Qed.
Theorem q2e_flag items oh ov : is_ok (q2e items oh ov) = negb (err_q2e items oh ov).
Proof.
  unfold q2e, err_q2e. destruct (echeck oh ov); [|reflexivity]. cbn [negb orb]. rewrite <- (q2e_loop_ok oh ov).
  destruct (q2e_loop oh ov items); reflexivity.
Qed.
Lemma existsb_impl {A} (f g : A -> bool) l : (forall a, f a = true -> g a = true) -> existsb f l = true -> existsb g l = true.
Proof. intros H. rewrite !existsb_exists. intros (a & Ha & Hf). exists a. auto. Qed.
Theorem q2e_invalid_err items oh ov : invalid_q2e items oh ov = true -> err_q2e items oh ov = true.
Proof.
  unfold invalid_q2e, err_q2e. destruct (echeck oh ov); [|reflexivity]. cbn [negb orb]. rewrite orb_true_iff. intros [H|H].
  - revert H. apply existsb_impl. intros it E. unfold item_err, item_zoom_bad in *. now rewrite E.
  - revert H. apply existsb_impl. intros it E. unfold item_err. rewrite E. now rewrite !orb_true_r.
Qed.
Theorem q2e_rejects items oh ov : invalid_q2e items oh ov = true -> q2e items oh ov = Err.
Proof. intros H. apply (flag_rejects _ _ (q2e_flag items oh ov)), q2e_invalid_err, H. Qed.
(* the spatial form: the same call with both output zooms equal, then a notation change that cannot fail on printed IDs *)
Lemma ar5_print i : ar5 (print_eid i) = true.
Proof. rewrite <- ar5_eid_to_sid, eid_to_sid_print. reflexivity. Qed.
Lemma q2e_item_printed oh ov it l s : q2e_item oh ov it = Ok l -> In s l -> ar5 s = true.
Proof.
  unfold q2e_item. destruct (negb (qcheck (qz it) (qvz it))); [discriminate|]. destruct (quadkey_limit <? qk it); [discriminate|].
  destruct (qidx it); [|discriminate]. intros [= <-] Hs. apply in_flat_map in Hs. destruct Hs as (hp & _ & Hs).
  apply in_map_iff in Hs. destruct Hs as (f & <- & _). apply ar5_print.
Qed.
Lemma q2e_loop_printed oh ov items : forall l s, q2e_loop oh ov items = Ok l -> In s l -> ar5 s = true.
Proof.
  induction items as [|it r IH]; cbn [q2e_loop]; intros l s.
  - intros [= <-] [].
  - destruct (q2e_item oh ov it) as [a|] eqn:Ea; [|discriminate]. destruct (q2e_loop oh ov r) as [t|] eqn:Et; [|discriminate].
    intros [= <-] Hs. apply in_app_or in Hs. destruct Hs as [Hs|Hs]; [eapply q2e_item_printed; eauto|eapply IH; eauto].
Qed.
Theorem q2s_flag items z : is_ok (q2s items z) = negb (err_q2e items z z).
Proof.
  rewrite <- q2e_flag. unfold q2s, q2e. destruct (negb (echeck z z)); [reflexivity|].
  destruct (q2e_loop z z items) as [l|] eqn:E; [|reflexivity]. cbn [is_ok]. rewrite e2s_flag. apply negb_true_iff.
  unfold invalid_e2s. rewrite some_bad_forallb. apply negb_false_iff, forallb_forall. intros s Hs.
  unfold dedup_strings in Hs. apply (proj1 (nodupb_In String.eqb String.eqb_spec s l)) in Hs. eapply q2e_loop_printed; eauto.
Qed.
Theorem q2s_rejects items z : invalid_q2e items z z = true -> q2s items z = Err.
Proof. intros H. apply (flag_rejects _ _ (q2s_flag items z)), q2e_invalid_err, H. Qed.

(* ---- ConvertTileXYZsToExtendedSpatialIDs / ConvertTileXYZsToSpatialIDs(tiles, E, O, outV): validation prefix written here
        (the executable model is Tile.tiles_to_eids, C13): extendedSpatialIDCheckZoom(0, outV) before the loop (fix 322d7d5: an empty request
        is checked too), then for each tile in order extendedSpatialIDCheckZoom(tile.hZoom, outV) and
        ConvertAltitudekeyToMinMaxZ(tile.z, tile.vZoom, outV, E, O) (AltKeyCore.key2z); the first failure ends the call.
        The spatial form adds ConvertExtendedSpatialIDToSpatialIDs, which cannot fail. Documented: outV in 0..35. ---- *)
Definition tile_err (E O outV : Z) (t : tile) : bool :=
  negb (echeck (th t) outV) || negb (is_ok (key2z (tz t) (tv t) outV E O)).
Definition err_tiles (l : list tile) (E O outV : Z) : bool := negb (echeck 0 outV) || existsb (tile_err E O outV) l.
Definition invalid_tiles (outV : Z) : bool := zoom_bad outV.
Lemma echeck_bad_v h v : zoom_bad v = true -> echeck h v = false.
Proof.
  unfold zoom_bad, check_zoom, echeck. destruct (0 <=? h), (h <=? 35), (0 <=? v), (v <=? 35); cbn; congruence.
Qed.
Theorem tiles_rejects l E O outV : invalid_tiles outV = true -> err_tiles l E O outV = true.
Proof. unfold invalid_tiles, err_tiles. intros H. now rewrite (echeck_bad_v 0 outV H). Qed.
(* with a valid output zoom the tiles' own zooms cannot be the reason (a tile object has zooms 0..35): only the altitude conversion *)
Theorem tiles_flag_valid_zoom l E O outV : zoom_bad outV = false -> forallb tile_ok l = true ->
  err_tiles l E O outV = existsb (fun t => negb (is_ok (key2z (tz t) (tv t) outV E O))) l.
Proof.
  intros Hz Hl. unfold err_tiles.
  assert (Z0 : forall h, check_zoom h = true -> echeck h outV = true).
  { intros h Hh. unfold zoom_bad in Hz. apply negb_false_iff in Hz. unfold check_zoom, echeck in *.
    apply andb_true_iff in Hh, Hz. destruct Hh as [A B], Hz as [C D]. now rewrite A, B, C, D. }
  rewrite (Z0 0 eq_refl). cbn [negb orb]. induction l as [|t r IH]; [reflexivity|]. cbn [existsb forallb] in *.
  apply andb_true_iff in Hl. destruct Hl as [Ht Hr]. rewrite (IH Hr). unfold tile_ok in Ht. unfold tile_err at 1.
  apply andb_true_iff in Ht. now rewrite (Z0 (th t) (proj1 Ht)).
Qed.

(* ---- ConvertZToMinMaxAltitudekey(f, z, out, E, O) / ConvertAltitudekeyToMinMaxZ(k, kz, out, E, O); models AltKeyCore.z2key /
        key2z (C12). Since fix 9dab435 both begin with shape.CheckZoom on the source and the target zoom: a zoom outside 0..35
        (MinInt64 and MaxInt64 included) is an error before any shift is computed — it used to be served for 36..62 and to panic with
        "negative shift amount" for MinInt64. The base exponent E and the offset O are not zoom arguments in the sense of the
        property; C15 keeps E within 0..35 (what the code does outside belongs to C12, class int64_overflow). ---- *)
Definition invalid_altkey (z out : Z) : bool := zoom_bad z || zoom_bad out.
Theorem z2key_rejects f z out E O : invalid_altkey z out = true -> z2key f z out E O = Err.
Proof. unfold invalid_altkey, zoom_bad, check_zoom, z2key, AltKeyCore.zoom_ok. now intros ->. Qed.
Theorem key2z_rejects k kz out E O : invalid_altkey kz out = true -> key2z k kz out E O = Err.
Proof. unfold invalid_altkey, zoom_bad, check_zoom, key2z, AltKeyCore.zoom_ok. cbv zeta. now intros ->. Qed.
(* historical (before 9dab435 the unvalidated code answered these two calls with (0,0) and (0,8589934591), finding class
   altkey_zoom_unchecked): now refused *)
Example altkey_zoom_36_now_refused : z2key 0 36 3 25 0 = Err /\ key2z 0 3 36 25 0 = Err /\
  z2key 0 (- 2 ^ 63) 3 25 0 = Err /\ key2z 0 3 (2 ^ 63 - 1) 25 0 = Err.
Proof. repeat split; reflexivity. Qed.

(* ---- FitClearanceAroundExtendedSpatialID(id, clearance); model Corridor.fit_model (C14: control flow; distances are oracles).
        Documented: clearance >= 0; the ID has the form hZoom/x/y/vZoom/z. Whatever the clearance, 0 included, the ID is examined
        in the first iteration before anything is compared. ---- *)
Definition invalid_fit (id : string) (c : float) : bool := (c <? 0)%float || negb (vertex_ok id).
Theorem fit_rejects fuel dx dy id c : invalid_fit id c = true -> fit_model (S fuel) dx dy id c = Some Err.
Proof.
  unfold invalid_fit. rewrite orb_true_iff, negb_true_iff. intros [H|H]; [now apply fit_negative|now apply fit_malformed].
Qed.
(* a valid ID with clearance 0 is served (the measured distances are not negative) *)
Theorem fit_accepts_zero fuel dx dy i : valid i ->
  (dx (print_eid i) 1%Z <? 0)%float = false -> (dy (print_eid i) 1%Z <? 0)%float = false ->
  fit_model (S fuel) dx dy (print_eid i) 0%float = Some (Ok (0, 0)).
Proof. apply fit_zero_clearance_valid. Qed.

(* ---- GetExtendedSpatialIdsWithinRadiusOfLine(start, end, radius, hZoom, vZoom, skip); model Corridor.corridor over the line model
        (C06) and the fit model. Documented: non-nil points, zooms 0..35, radius >= 0. ---- *)
Definition invalid_corridor (has_nil : bool) (h v : Z) (r : float) : bool := invalid_points has_nil h v || (r <? 0)%float.
Theorem corridor_rejects ord_n ord_u ord_q m_tan m_cos m_log fuel dx dy (St : Type) (st0 : St)
    (measure : St -> string -> result (bool * St)) has_nil s e h v r skip :
  invalid_corridor has_nil h v r = true ->
  corridor ord_n ord_u ord_q (fit_of_model fuel dx dy r) St st0 measure (line_api m_tan m_cos m_log has_nil s e h v) skip = Err.
Proof.
  unfold invalid_corridor. rewrite orb_true_iff. intros [H|H].
  - now rewrite (line_rejects m_tan m_cos m_log has_nil s e h v H).
  - now apply corridor_negative_radius.
Qed.

(* ---- GetVoxelIDfromSpatialID(id) []int64 has no error result. After fix c5e2aa4 a string with fewer than five fields gives the
        empty list (it used to panic with index out of range); with five or more fields it returns [x; y; f] read from fields
        1, 2, 4, conversion errors discarded (Notation.voxel_id, C10). ---- *)
Definition invalid_voxel (s : string) : bool := Nat.ltb (List.length (split s)) 5.
Theorem voxel_rejects s : invalid_voxel s = true -> voxel_id s = [].
Proof. unfold invalid_voxel. rewrite Nat.ltb_lt. apply voxel_id_empty. Qed.
Theorem voxel_empty_only_if_short s : voxel_id s = [] -> invalid_voxel s = true.
Proof. unfold invalid_voxel. rewrite Nat.ltb_lt. apply voxel_id_empty. Qed.
Theorem voxel_accepts s i : parse_eid s = Some i -> voxel_id s = [ex i; ey i; ef i].
Proof. apply voxel_id_spec. Qed.

(* ===================================================================================================================== *)
(* 7. the latitude clause on the INPUT side (reusing C01's SetLatProofs: |lat| - |cut lat| lies in [-2^-46, 1e-10 + 2^-46])     *)
(* ===================================================================================================================== *)
From Coq Require Import Reals Lra.
From Flocq Require Import Core.
From SID Require Import PtBridge SetLatProofs.
Open Scope R_scope.
(* an accepted point stores a latitude within the band of the input (partial: the documented band [0, 1e-10) is refuted, D20) *)
Theorem new_point_lat_band_partial lon lat alt : ffin lat = true -> Rabs (fval lat) <= 90 -> invalid_new_point lon lat = false ->
  - bpow radix2 (-46) <= Rabs (fval lat) - Rabs (fval (F64.plat (fst (new_point lon lat alt)))) <= 1 / 10 ^ 10 + bpow radix2 (-46).
Proof. intros F H I. rewrite (new_point_stores lon lat alt I). cbn [F64.plat]. now apply setlat_cut_bounds. Qed.
(* a latitude beyond the limit by more than the cut (1e-10) and the float dust (2^-46) is refused; values in between are accepted and
   stored as (about) the limit: "beyond the limit" is read after the documented cut *)
Theorem new_point_rejects_lat_beyond lon lat alt : ffin lat = true -> Rabs (fval lat) <= 90 ->
  fval c_latmax + 1 / 10 ^ 10 + bpow radix2 (-46) < Rabs (fval lat) -> snd (new_point lon lat alt) = true.
Proof.
  intros F H B. rewrite new_point_flag. unfold invalid_new_point. apply orb_true_iff. right.
  destruct (setlat_val lat F H) as [_ Fs]. pose proof (setlat_cut_bounds lat F H) as [_ U].
  destruct (abs_val (setlat_trunc lat)) as [Va Fa]. rewrite Fs in Fa.
  assert (Fc : ffin c_latmax = true) by (vm_compute; reflexivity).
  rewrite (ltb_val _ _ Fc Fa), Va. apply Rlt_bool_true. lra.
Qed.
Close Scope R_scope.

(* ===================================================================================================================== *)
(* 8. the KIND of the error                                                                                               *)
(* ===================================================================================================================== *)
(* common/errors: a spatialIdError carries one of four codes; every other error value of the library (fmt.Errorf in the detector,
   in GetNspatialIdsAroundVoxcels, in the clearance fit; a spatialIdError wrapped by fmt.Errorf("%w ...")) is observed as `plain`.
   Each kind_<fn> follows the ORDER of the checks of the Go function: Some k = the call fails and the first failing check produces
   an error of kind k; None = the call succeeds. kind_<fn>_flag ties it to the owner's model (same error flag), <fn>_kind says which
   kind a documented exclusion produces. *)
From Coq Require Import Ascii.
Inductive ecode := KInputValue | KOptionFailed | KValueConvert | KOther | KPlain.
Definition ecode_name (k : ecode) : string :=
  match k with
  | KInputValue => "InputValueError" | KOptionFailed => "OptionFailedError" | KValueConvert => "ValueConvertError"
  | KOther => "OtherError" | KPlain => "plain"
  end%string.
Definition if_err (b : bool) (k : ecode) : option ecode := if b then Some k else None.
Lemma if_err_some b k : is_some (if_err b k) = b.
Proof. now destruct b. Qed.

(* ---- errors.NewSpatialIdError(code, detail).Error(): the message is chosen by a switch on the code (default: the message of
        OtherError, whatever the code string is), the text is "code,message" or "code,message,detail" when the detail is not empty ---- *)
Definition error_message (code : string) : string :=
  if String.eqb code "InputValueError" then "入力チェックエラー"
  else if String.eqb code "OptionFailedError" then "オプション値の指定エラー"
  else if String.eqb code "ValueConvertError" then "値の変換エラー"
  else "その他例外が発生".
Definition error_text (code detail : string) : string :=
  match detail with
  | EmptyString => code ++ "," ++ error_message code
  | _ => code ++ "," ++ error_message code ++ "," ++ detail
  end%string.
(* what the harness reads as the kind of a spatialIdError: the part of Error() before the first comma *)
Fixpoint before_comma (s : string) : string :=
  match s with
  | EmptyString => EmptyString
  | String c r => if Ascii.eqb c ","%char then EmptyString else String c (before_comma r)
  end.
Fixpoint nocomma (s : string) : bool :=
  match s with EmptyString => true | String c r => negb (Ascii.eqb c ","%char) && nocomma r end.
Lemma before_comma_app a r : nocomma a = true -> before_comma (a ++ String ","%char r) = a.
Proof.
  induction a as [|c a IH]; cbn; [reflexivity|]. destruct (Ascii.eqb c ","%char); cbn; [discriminate|]. intros H. now rewrite IH.
Qed.
Theorem error_text_code code detail : nocomma code = true -> before_comma (error_text code detail) = code.
Proof. intros H. unfold error_text. destruct detail; cbn [append]; now apply before_comma_app. Qed.
Theorem error_text_of_kind k detail : k <> KPlain -> before_comma (error_text (ecode_name k) detail) = ecode_name k.
Proof. intros _. apply error_text_code. now destruct k. Qed.
Example error_text_examples :
  error_text "InputValueError" "" = "InputValueError,入力チェックエラー"%string /\
  error_text "InputValueError" "spatialId: x" = "InputValueError,入力チェックエラー,spatialId: x"%string /\
  error_text "OptionFailedError" "" = "OptionFailedError,オプション値の指定エラー"%string /\
  error_text "ValueConvertError" "d,e" = "ValueConvertError,値の変換エラー,d,e"%string /\
  error_text "OtherError" "" = "OtherError,その他例外が発生"%string /\ error_text "Foo" "z" = "Foo,その他例外が発生,z"%string.
Proof. repeat split; reflexivity. Qed.

(* ---- common/object: every refusal is an InputValueError ---- *)
Definition kind_new_point (lon lat : PrimFloat.float) : option ecode := if_err (invalid_new_point lon lat) KInputValue.
Definition kind_set_lon (lon : PrimFloat.float) : option ecode := if_err (invalid_set_lon lon) KInputValue.
Definition kind_set_lat (lat : PrimFloat.float) : option ecode := if_err (invalid_set_lat lat) KInputValue.
Definition kind_new_eid (s : string) : option ecode := if_err (invalid_new_eid s) KInputValue.
Definition kind_new_tile (h v : Z) : option ecode := if_err (invalid_new_tile h v) KInputValue.
Definition kind_tile_set (z : Z) : option ecode := if_err (zoom_bad z) KInputValue.
Theorem kind_new_point_flag lon lat alt : is_some (kind_new_point lon lat) = snd (new_point lon lat alt).
Proof. unfold kind_new_point. now rewrite if_err_some, new_point_flag. Qed.
Theorem kind_new_eid_flag s : is_some (kind_new_eid s) = negb (is_ok (new_eid s)).
Proof. unfold kind_new_eid. now rewrite if_err_some, new_eid_flag, negb_involutive. Qed.
Theorem kind_new_tile_flag h x y v z : is_some (kind_new_tile h v) = negb (is_ok (new_tile h x y v z)).
Proof. unfold kind_new_tile. now rewrite if_err_some, new_tile_flag, negb_involutive. Qed.
Theorem object_kind :
  (forall lon lat, invalid_new_point lon lat = true -> kind_new_point lon lat = Some KInputValue) /\
  (forall lon, invalid_set_lon lon = true -> kind_set_lon lon = Some KInputValue) /\
  (forall lat, invalid_set_lat lat = true -> kind_set_lat lat = Some KInputValue) /\
  (forall s, invalid_new_eid s = true -> kind_new_eid s = Some KInputValue) /\
  (forall h v, invalid_new_tile h v = true -> kind_new_tile h v = Some KInputValue) /\
  (forall z, zoom_bad z = true -> kind_tile_set z = Some KInputValue).
Proof.
  unfold kind_new_point, kind_set_lon, kind_set_lat, kind_new_eid, kind_new_tile, kind_tile_set.
  repeat split; intros; match goal with H : _ = true |- _ => now rewrite H end.
Qed.

(* ---- shape ---- *)
Definition kind_points (has_nil : bool) (h v : Z) : option ecode := if_err (invalid_points has_nil h v) KInputValue.
(* vertices: parse (InputValueError), zoom fields (InputValueError), then the option (OptionFailedError) *)
Definition kind_point_on_eid (id : string) (opt : Z) : option ecode :=
  match parse_eid id with
  | None => Some KInputValue
  | Some i => if zoom_bad (eh i) || zoom_bad (ev i) then Some KInputValue
              else if negb (option_known opt) then Some KOptionFailed else None
  end.
Definition kind_point_on_sid (id : string) (opt : Z) : option ecode :=
  match sid_to_eid_str id with None => Some KInputValue | Some e => kind_point_on_eid e opt end.
Definition kind_s2e (l : list string) : option ecode := if_err (invalid_s2e l) KInputValue.
Definition kind_e2s (l : list string) : option ecode := if_err (invalid_e2s l) KInputValue.
Definition kind_project (crs : Z) : option ecode := if_err (invalid_project crs) KValueConvert.
Theorem kind_points_flag m_tan m_cos m_log has_nil l h v : points_eids m_tan m_cos m_log l h v <> None ->
  is_some (kind_points has_nil h v) = negb (is_ok (points_api m_tan m_cos m_log has_nil l h v)).
Proof. intros N. unfold kind_points. now rewrite if_err_some, (points_flag m_tan m_cos m_log has_nil l h v N), negb_involutive. Qed.
Theorem points_kind has_nil h v : invalid_points has_nil h v = true -> kind_points has_nil h v = Some KInputValue.
Proof. unfold kind_points. now intros ->. Qed.
Theorem kind_point_on_eid_flag id opt : is_some (kind_point_on_eid id opt) = invalid_point_on_eid id opt.
Proof.
  unfold kind_point_on_eid, invalid_point_on_eid. destruct (parse_eid id) as [i|]; [|reflexivity].
  destruct (zoom_bad (eh i) || zoom_bad (ev i)); [reflexivity|]. now destruct (option_known opt).
Qed.
Theorem kind_point_on_eid_model m_sinh m_atan id opt :
  is_some (kind_point_on_eid id opt) = negb (is_ok (point_on_eid_api m_sinh m_atan id opt)).
Proof. now rewrite kind_point_on_eid_flag, point_on_eid_flag, negb_involutive. Qed.
Theorem kind_point_on_sid_flag id opt : is_some (kind_point_on_sid id opt) = invalid_point_on_sid id opt.
Proof. unfold kind_point_on_sid, invalid_point_on_sid. destruct (sid_to_eid_str id); [apply kind_point_on_eid_flag|reflexivity]. Qed.
(* a malformed ID or a zoom field out of range gives InputValueError even when the option is unknown too; an unknown option alone
   gives OptionFailedError *)
Theorem point_on_eid_kind_input id opt : invalid_point_on_eid id 0 = true -> kind_point_on_eid id opt = Some KInputValue.
Proof.
  unfold kind_point_on_eid, invalid_point_on_eid. destruct (parse_eid id) as [i|]; [|reflexivity].
  cbn [option_known Z.eqb orb negb]. rewrite orb_false_r. now intros ->.
Qed.
Theorem point_on_eid_kind_option id opt : invalid_point_on_eid id 0 = false -> option_known opt = false ->
  kind_point_on_eid id opt = Some KOptionFailed.
Proof.
  unfold kind_point_on_eid, invalid_point_on_eid. destruct (parse_eid id) as [i|]; [|discriminate].
  cbn [option_known Z.eqb orb negb]. rewrite orb_false_r. now intros -> ->.
Qed.
Theorem notation_kind :
  (forall l, invalid_s2e l = true -> kind_s2e l = Some KInputValue) /\ (forall l, invalid_e2s l = true -> kind_e2s l = Some KInputValue) /\
  (forall crs, invalid_project crs = true -> kind_project crs = Some KValueConvert).
Proof. unfold kind_s2e, kind_e2s, kind_project. repeat split; intros; match goal with H : _ = true |- _ => now rewrite H end. Qed.

(* ---- integrate: zoom check and member parsing both give InputValueError ---- *)
Definition kind_change_ext (ids : list string) (H V : Z) : option ecode := if_err (invalid_change_ext ids H V) KInputValue.
Definition kind_change_sid (sids : list string) (z : Z) : option ecode := if_err (invalid_change_sid sids z) KInputValue.
Theorem kind_change_ext_flag ids H V : is_some (kind_change_ext ids H V) = negb (is_ok (change_ext_api ids H V)).
Proof. unfold kind_change_ext. now rewrite if_err_some, change_ext_flag, negb_involutive. Qed.
Theorem kind_merge_ext_flag ids H V : is_some (kind_change_ext ids H V) = negb (is_ok (merge_ext_api ids H V)).
Proof. unfold kind_change_ext. now rewrite if_err_some, merge_ext_flag, negb_involutive. Qed.
Theorem kind_change_sid_flag sids z : is_some (kind_change_sid sids z) = negb (is_ok (change_sid_api sids z)).
Proof. unfold kind_change_sid. now rewrite if_err_some, change_sid_flag, negb_involutive. Qed.
Theorem kind_merge_sid_flag sids z : is_some (kind_change_sid sids z) = negb (is_ok (merge_sid_api sids z)).
Proof. unfold kind_change_sid. now rewrite if_err_some, merge_sid_flag, negb_involutive. Qed.
Theorem integrate_kind :
  (forall ids H V, invalid_change_ext ids H V = true -> kind_change_ext ids H V = Some KInputValue) /\
  (forall sids z, invalid_change_sid sids z = true -> kind_change_sid sids z = Some KInputValue).
Proof. unfold kind_change_ext, kind_change_sid. split; intros; match goal with H : _ = true |- _ => now rewrite H end. Qed.

(* ---- operated: the layer counts are checked first (fmt.Errorf: plain), then every member (NewExtendedSpatialID: InputValueError) ---- *)
Definition kind_nN (ids : list string) (H V : Z) : option ecode :=
  if (H <? 0) || (V <? 0) then Some KPlain else if some_bad wf5 ids then Some KInputValue else None.
Theorem kind_nN_flag ids H V : is_some (kind_nN ids H V) = negb (is_ok (nN_api ids H V)).
Proof.
  rewrite nN_flag, negb_involutive. unfold kind_nN, invalid_nN. destruct ((H <? 0) || (V <? 0)); [reflexivity|].
  cbn [orb]. now destruct (some_bad wf5 ids).
Qed.
Theorem nN_kind_negative ids H V : (H <? 0) || (V <? 0) = true -> kind_nN ids H V = Some KPlain.
Proof. unfold kind_nN. now intros ->. Qed.
Theorem nN_kind_malformed ids H V : (H <? 0) || (V <? 0) = false -> some_bad wf5 ids = true -> kind_nN ids H V = Some KInputValue.
Proof. unfold kind_nN. now intros -> ->. Qed.

(* ---- detector ---- *)
(* extended pair: the field counts first (fmt.Errorf: plain); every other refusal comes out of ChangeExtendedSpatialIdsZoom unchanged
   (InputValueError) *)
Definition kind_ext_overlap (a b : string) : option ecode :=
  if negb (ar5 a) || negb (ar5 b) then Some KPlain else if is_ok (ext_overlap a b) then None else Some KInputValue.
Lemma ext_overlap_arity a b : negb (ar5 a) || negb (ar5 b) = true -> ext_overlap a b = Err.
Proof. unfold ext_overlap, ar5. now intros ->. Qed.
Theorem kind_ext_overlap_flag a b : is_some (kind_ext_overlap a b) = negb (is_ok (ext_overlap a b)).
Proof.
  unfold kind_ext_overlap. destruct (negb (ar5 a) || negb (ar5 b)) eqn:E; [now rewrite (ext_overlap_arity a b E)|].
  now destruct (ext_overlap a b).
Qed.
Theorem ext_overlap_kind_arity a b : negb (ar5 a) || negb (ar5 b) = true -> kind_ext_overlap a b = Some KPlain.
Proof. unfold kind_ext_overlap. now intros ->. Qed.
Theorem ext_overlap_kind_field a b : ar5 a = true -> ar5 b = true -> invalid_ext_overlap a b = true ->
  kind_ext_overlap a b = Some KInputValue.
Proof. intros A B H. unfold kind_ext_overlap. rewrite A, B. cbn. now rewrite (ext_overlap_rejects a b H). Qed.
(* extended arrays: the kind of the first failing pair in the order of the two loops *)
Fixpoint kind_ext_inner (a : string) (l2 : list string) : option ecode :=
  match l2 with
  | [] => None
  | b :: r => match ext_overlap a b with
              | Err => kind_ext_overlap a b
              | Ok true => None
              | Ok false => kind_ext_inner a r
              end
  end.
Fixpoint kind_ext_array (l1 l2 : list string) : option ecode :=
  match l1 with
  | [] => None
  | a :: r => match ext_inner a l2 with
              | Err => kind_ext_inner a l2
              | Ok true => None
              | Ok false => kind_ext_array r l2
              end
  end.
Lemma kind_ext_inner_flag a l2 : is_some (kind_ext_inner a l2) = negb (is_ok (ext_inner a l2)).
Proof.
  induction l2 as [|b r IH]; cbn [kind_ext_inner ext_inner]; [reflexivity|].
  destruct (ext_overlap a b) as [[|]|] eqn:E; [reflexivity|exact IH|]. now rewrite kind_ext_overlap_flag, E.
Qed.
Theorem kind_ext_array_flag l1 l2 : is_some (kind_ext_array l1 l2) = negb (is_ok (ext_array l1 l2)).
Proof.
  induction l1 as [|a r IH]; cbn [kind_ext_array ext_array]; [reflexivity|].
  destruct (ext_inner a l2) as [[|]|] eqn:E; [reflexivity|exact IH|]. now rewrite kind_ext_inner_flag, E.
Qed.
(* spatial forms: the parser's InputValueError is wrapped by fmt.Errorf("%w @spatialId..."), the altitude conversion's likewise:
   every refusal is observed as plain *)
Definition kind_sp_array (l1 l2 : list string) : option ecode := if is_ok (sp_array l1 l2) then None else Some KPlain.
Definition kind_sp_overlap (a b : string) : option ecode := kind_sp_array [a] [b].
Theorem kind_sp_array_flag l1 l2 : is_some (kind_sp_array l1 l2) = negb (is_ok (sp_array l1 l2)).
Proof. unfold kind_sp_array. now destruct (sp_array l1 l2). Qed.
Theorem sp_kind :
  (forall a b, invalid_sp_overlap a b = true -> kind_sp_overlap a b = Some KPlain) /\
  (forall l1 l2, invalid_sp_array l1 l2 = true -> kind_sp_array l1 l2 = Some KPlain).
Proof.
  split.
  - intros a b H. unfold kind_sp_overlap, kind_sp_array. change (sp_array [a] [b]) with (sp_overlap a b). now rewrite (sp_overlap_rejects a b H).
  - intros l1 l2 H. unfold kind_sp_array. now rewrite (sp_array_rejects l1 l2 H).
Qed.
Lemma kind_ext_overlap_two a b k : kind_ext_overlap a b = Some k -> k = KPlain \/ k = KInputValue.
Proof.
  unfold kind_ext_overlap. destruct (negb (ar5 a) || negb (ar5 b)); [intros [= <-]; now left|].
  destruct (is_ok (ext_overlap a b)); [discriminate|intros [= <-]; now right].
Qed.
Lemma kind_ext_inner_two a l2 k : kind_ext_inner a l2 = Some k -> k = KPlain \/ k = KInputValue.
Proof.
  induction l2 as [|b t IH]; cbn [kind_ext_inner]; [discriminate|].
  destruct (ext_overlap a b) as [[|]|]; [discriminate|exact IH|apply kind_ext_overlap_two].
Qed.
Lemma kind_ext_array_two l1 l2 k : kind_ext_array l1 l2 = Some k -> k = KPlain \/ k = KInputValue.
Proof.
  induction l1 as [|a r IH]; cbn [kind_ext_array]; [discriminate|].
  destruct (ext_inner a l2) as [[|]|]; [discriminate|exact IH|apply kind_ext_inner_two].
Qed.
Theorem ext_array_kind_some l1 l2 : invalid_ext_array l1 l2 = true -> exists k, kind_ext_array l1 l2 = Some k /\ (k = KPlain \/ k = KInputValue).
Proof.
  intros H. pose proof (kind_ext_array_flag l1 l2) as F. rewrite (ext_array_rejects l1 l2 H) in F. cbn in F.
  destruct (kind_ext_array l1 l2) as [k|] eqn:E; [|discriminate]. exists k. split; [reflexivity|]. eapply kind_ext_array_two, E.
Qed.

(* ---- transform: key, tile and altitude-key conversions refuse with InputValueError only ---- *)
Definition kind_e2q (index : bool) (ids : list string) (oh ov : Z) : option ecode := if_err (err_e2q index ids oh ov) KInputValue.
Definition kind_s2q (index : bool) (sids : list string) (oh ov : Z) : option ecode := if_err (err_s2q index sids oh ov) KInputValue.
Definition kind_e2qa (ids : list string) (oq oa E O : Z) : option ecode := if_err (err_e2qa ids oq oa E O) KInputValue.
Definition kind_q2e (items : list qitem) (oh ov : Z) : option ecode := if_err (err_q2e items oh ov) KInputValue.
Definition kind_tiles (l : list tile) (E O outV : Z) : option ecode := if_err (err_tiles l E O outV) KInputValue.
Definition kind_z2key (f z out E O : Z) : option ecode := if_err (negb (is_ok (z2key f z out E O))) KInputValue.
Definition kind_key2z (k kz out E O : Z) : option ecode := if_err (negb (is_ok (key2z k kz out E O))) KInputValue.
Theorem kind_conversions_flag :
  (forall (par : PrimFloat.float * PrimFloat.float) index ids oh ov, is_some (kind_e2q index ids oh ov) = negb (is_ok (e2q par index ids oh ov))) /\
  (forall (par : PrimFloat.float * PrimFloat.float) index sids oh ov, is_some (kind_s2q index sids oh ov) = negb (is_ok (s2q par index sids oh ov))) /\
  (forall ids oq oa E O, is_some (kind_e2qa ids oq oa E O) = negb (is_ok (e2qa ids oq oa E O))) /\
  (forall items oh ov, is_some (kind_q2e items oh ov) = negb (is_ok (q2e items oh ov))) /\
  (forall items z, is_some (kind_q2e items z z) = negb (is_ok (q2s items z))).
Proof.
  unfold kind_e2q, kind_s2q, kind_e2qa, kind_q2e. repeat split; intros; rewrite if_err_some.
  - now rewrite e2q_flag, negb_involutive.
  - now rewrite s2q_flag, negb_involutive.
  - now rewrite e2qa_flag, negb_involutive.
  - now rewrite q2e_flag, negb_involutive.
  - now rewrite q2s_flag, negb_involutive.
Qed.
Theorem conversions_kind :
  (forall index ids oh ov, invalid_e2q index ids oh ov = true -> kind_e2q index ids oh ov = Some KInputValue) /\
  (forall index sids oh ov, invalid_s2q index sids oh ov = true -> kind_s2q index sids oh ov = Some KInputValue) /\
  (forall ids oq oa E O, invalid_e2qa ids oq oa = true -> kind_e2qa ids oq oa E O = Some KInputValue) /\
  (forall items oh ov, invalid_q2e items oh ov = true -> kind_q2e items oh ov = Some KInputValue) /\
  (forall l E O outV, invalid_tiles outV = true -> kind_tiles l E O outV = Some KInputValue) /\
  (forall f z out E O, invalid_altkey z out = true -> kind_z2key f z out E O = Some KInputValue) /\
  (forall k kz out E O, invalid_altkey kz out = true -> kind_key2z k kz out E O = Some KInputValue).
Proof.
  unfold kind_e2q, kind_s2q, kind_e2qa, kind_q2e, kind_tiles, kind_z2key, kind_key2z. repeat split; intros.
  - now rewrite (e2q_invalid_err _ _ _ _ H).
  - pose proof (s2q_flag (0%float, 0%float) index sids oh ov) as F. rewrite (s2q_rejects (0%float, 0%float) index sids oh ov H) in F.
    cbn in F. symmetry in F. apply negb_false_iff in F. now rewrite F.
  - pose proof (e2qa_flag ids oq oa E O) as F. rewrite (e2qa_rejects ids oq oa E O H) in F. cbn in F. symmetry in F. apply negb_false_iff in F. now rewrite F.
  - now rewrite (q2e_invalid_err _ _ _ H).
  - now rewrite (tiles_rejects l E O outV H).
  - now rewrite (z2key_rejects f z out E O H).
  - now rewrite (key2z_rejects k kz out E O H).
Qed.
(* ---- the clearance fit: clearance (fmt.Errorf: plain), field count (fmt.Errorf: plain), then the vertices of the ID
        (GetPointOnExtendedSpatialId's InputValueError, returned unchanged) ---- *)
Definition kind_fit (id : string) (c : PrimFloat.float) : option ecode :=
  if (c <? 0)%float then Some KPlain else if negb (ar5 id) then Some KPlain else if negb (vertex_ok id) then Some KInputValue else None.
Lemma vertex_ok_ar5 id : vertex_ok id = true -> ar5 id = true.
Proof. unfold vertex_ok. intros H. apply wf5_ar5. unfold wf5. now destruct (parse_eid id). Qed.
Theorem kind_fit_flag id c : is_some (kind_fit id c) = invalid_fit id c.
Proof.
  unfold kind_fit, invalid_fit. destruct (c <? 0)%float; [reflexivity|]. cbn [orb].
  destruct (ar5 id) eqn:A; cbn [negb]; [now destruct (vertex_ok id)|].
  destruct (vertex_ok id) eqn:V; [|reflexivity]. apply vertex_ok_ar5 in V. congruence.
Qed.
Theorem kind_fit_struct id c : is_some (kind_fit id c) = match fit_struct id c with Some Err => true | _ => false end.
Proof.
  rewrite kind_fit_flag. unfold invalid_fit, fit_struct. destruct (c <? 0)%float; [reflexivity|]. cbn [orb].
  destruct (vertex_ok id); cbn [negb]; [|reflexivity]. now destruct (c =? 0)%float.
Qed.
Theorem fit_kind_plain id c : (c <? 0)%float || negb (ar5 id) = true -> kind_fit id c = Some KPlain.
Proof. unfold kind_fit. destruct (c <? 0)%float; [reflexivity|]. cbn [orb]. now intros ->. Qed.
Theorem fit_kind_input id c : (c <? 0)%float = false -> ar5 id = true -> vertex_ok id = false -> kind_fit id c = Some KInputValue.
Proof. unfold kind_fit. now intros -> -> ->. Qed.
(* ---- the corridor: the line first (InputValueError for a nil point or a zoom), then the fit (plain for a negative radius) ---- *)
Definition kind_corridor (has_nil : bool) (h v : Z) (r : PrimFloat.float) : option ecode :=
  if invalid_points has_nil h v then Some KInputValue else if (r <? 0)%float then Some KPlain else None.
Theorem kind_corridor_flag has_nil h v r : is_some (kind_corridor has_nil h v r) = invalid_corridor has_nil h v r.
Proof. unfold kind_corridor, invalid_corridor. destruct (invalid_points has_nil h v); [reflexivity|]. now destruct (r <? 0)%float. Qed.
Theorem corridor_kind has_nil h v r :
  (invalid_points has_nil h v = true -> kind_corridor has_nil h v r = Some KInputValue) /\
  (invalid_points has_nil h v = false -> (r <? 0)%float = true -> kind_corridor has_nil h v r = Some KPlain).
Proof. unfold kind_corridor. split; [now intros ->|now intros -> ->]. Qed.
