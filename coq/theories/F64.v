(* F64.v — binary64 layer: Coq primitive floats reproduce Go's float64 operations bit for bit
   (+ - * / compare are IEEE round-to-nearest-even in both; math.Floor/Ceil/Pow(2,n)/Mod on integral arguments are modelled here).
   Executable definitions only; theorems about them are in PtBridge.v, FF.v, XF.v, YF.v, West.v and VertexProofs.v. *)
From Coq Require Import ZArith Floats Uint63 Bool List.
Import ListNotations.
Open Scope float_scope.

(* floor of a finite float as an integer; None for infinities and NaN *)
Definition Zfloor_f (f : float) : option Z :=
  match Prim2SF f with
  | S754_zero _ => Some 0%Z
  | S754_finite s m e =>
      let v := if s then Z.neg m else Z.pos m in
      Some (match e with
            | Z0 => v
            | Zpos p => (v * Z.pow_pos 2 p)%Z
            | Zneg p => Z.div v (Z.pow_pos 2 p)
            end)
  | _ => None
  end.
Definition Zceil_f (f : float) : option Z := option_map Z.opp (Zfloor_f (- f)).
(* Go's int64(f): truncation toward zero (undefined outside the int64 range: not used there) *)
Definition Ztrunc_f (f : float) : option Z := if f <? 0 then Zceil_f f else Zfloor_f f.

(* float64(int64): correctly rounded; exact for |z| < 2^53 *)
Definition of_Z (z : Z) : float :=
  match z with
  | Z0 => 0
  | Zpos _ => of_uint63 (Uint63.of_Z z)
  | Zneg p => - of_uint63 (Uint63.of_Z (Zpos p))
  end.

Definition two52 : float := 0x1p+52.
(* math.Floor: special cases ±0, NaN, ±Inf return the argument; every |f| >= 2^52 is already integral *)
Definition ffloor (f : float) : float :=
  if (f =? 0) || is_nan f || is_infinity f || (two52 <=? abs f) then f
  else match Zfloor_f f with Some z => of_Z z | None => f end.
(* math.Ceil(x) = -math.Floor(-x) (so Ceil(-0.3) = -0) *)
Definition fceil (f : float) : float := - ffloor (- f).

(* math.Pow(2, float64(k)) for an integer k in the normal exponent range *)
Definition pow2f (k : Z) : float := ldshiftexp 1 (Uint63.of_Z (k + FloatOps.shift)).

(* math.Mod(x, y) for integral x >= 0 and integral y > 0 (both below 2^53): exact *)
Definition fmod_int (x y : float) : float :=
  match Zfloor_f x, Zfloor_f y with
  | Some a, Some b => of_Z (Z.rem a b)
  | _, _ => nan
  end.

(* constants of the Go code, as the compiler rounds them *)
Definition c_pi : float := 0x1.921fb54442d18p+1.            (* float64(math.Pi) *)
Definition c_deg2rad : float := 0x1.1df46a2529d39p-6.       (* float64(math.Pi / 180): exact constant expression, rounded once *)
Definition c_rad2deg : float := 0x1.ca5dc1a63c1f8p+5.       (* float64(180 / math.Pi) *)
Definition c_e10 : float := 10000000000.                    (* math.Pow(10, 10.0) *)
Definition c_latmax : float := 0x1.54345b1a54806p+6.        (* 85.0511287798 *)

(* ---- object.Point: NewPoint / SetLon / SetLat / SetAlt ---- *)
Definition setlat_trunc (lat : float) : float :=
  if 0 <? lat then ffloor (lat * c_e10) / c_e10 else fceil (lat * c_e10) / c_e10.
Record point := { plon : float; plat : float; palt : float }.
Definition zero_point : point := {| plon := 0; plat := 0; palt := 0 |}.
(* returns the stored point and the error flag; on error Go returns the partially filled object *)
Definition new_point (lon lat alt : float) : point * bool :=
  if 180 <? abs lon then (zero_point, true)
  else let l := setlat_trunc lat in
       if c_latmax <? abs l then ({| plon := lon; plat := 0; palt := 0 |}, true)
       else ({| plon := lon; plat := l; palt := alt |}, false).

(* bit patterns, for comparisons that distinguish nothing but the value (±0 are different bit patterns) *)
Definition feqb_bits (a b : float) : bool :=
  match Prim2SF a, Prim2SF b with
  | S754_zero s, S754_zero t => Bool.eqb s t
  | S754_infinity s, S754_infinity t => Bool.eqb s t
  | S754_nan, S754_nan => true
  | S754_finite s m e, S754_finite t n g => Bool.eqb s t && Pos.eqb m n && Z.eqb e g
  | _, _ => false
  end.
(* value equality with ±0 identified and NaN = NaN *)
Definition feqb_val (a b : float) : bool := (a =? b) || (is_nan a && is_nan b).
