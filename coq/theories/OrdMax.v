(* OrdMax.v — common.Max / common.Min at float64 and spatial.MaxPoint / MinPoint: one scan that keeps the first element whose key is
   strictly larger (smaller) than the key of the element kept so far. `abest key gt l best` is that scan for an arbitrary element
   type with a binary64 key; Max/Min[float64] is the instance key = identity, MaxPoint/MinPoint the instance key = (p . vec).
   Theorem (Flocq, on Coq's primitive floats): when every key is finite (no NaN, no infinity) the result is a member and its key,
   read as a real number, bounds the key of every member. -0 and +0 have the same real value: either may be returned (the first one met,
   as the bit-exact model decides). The theorems for int64 are in SetOps.v (on Z); Number also admits int, int32, float32, whose
   orders embed in these two. *)
From Coq Require Import ZArith Reals Lia Lra Floats List Bool.
From Flocq Require Import Core BinarySingleNaN.
From Flocq Require PrimFloat.
From SID Require Import Base F64 VecF.
Import ListNotations.

#[local] Instance Hprec : Prec_gt_0 FloatOps.prec := eq_refl _.
#[local] Instance Hmax : Prec_lt_emax FloatOps.prec FloatOps.emax := eq_refl _.
Notation P2B := PrimFloat.Prim2B.
Notation pfloat := Coq.Floats.PrimFloat.float.
Definition fin (x : pfloat) : Prop := is_finite (P2B x) = true.
Definition rv (x : pfloat) : R := B2R (P2B x).

Lemma ltb_real x y : fin x -> fin y -> (x <? y)%float = Rlt_bool (rv x) (rv y).
Proof.
  intros Fx Fy. assert (E : (x <? y)%float = @Bltb _ _ (P2B x) (P2B y)) by exact (PrimFloat.ltb_equiv x y).
  rewrite E. now apply Bltb_correct.
Qed.

Section ArgBest.
  Context {A : Type} (key : A -> pfloat).
  Fixpoint abest (gt : bool) (l : list A) (best : A) : A :=
    match l with
    | [] => best
    | p :: r => if (if gt then key best <? key p else key p <? key best)%float then abest gt r p else abest gt r best
    end.
  Definition bounds (gt : bool) (r q : A) : Prop := if gt then (rv (key q) <= rv (key r))%R else (rv (key r) <= rv (key q))%R.

  Lemma abest_spec gt : forall l best, fin (key best) -> Forall (fun p => fin (key p)) l ->
    (abest gt l best = best \/ In (abest gt l best) l) /\ bounds gt (abest gt l best) best /\
    forall q, In q l -> bounds gt (abest gt l best) q.
  Proof.
    induction l as [|p r IH]; intros best Fb Fl; cbn [abest].
    - repeat split; [now left|destruct gt; cbn; lra|intros q []].
    - inversion Fl as [|? ? Fp Fr]; subst.
      destruct gt.
      + rewrite (ltb_real _ _ Fb Fp). destruct (Rlt_bool_spec (rv (key best)) (rv (key p))) as [Hlt|Hge].
        * destruct (IH p Fp Fr) as (M & B0 & BA). cbn [bounds] in *. repeat split.
          -- right. destruct M as [->|M]; [now left|now right].
          -- lra.
          -- intros q [<-|Hq]; [exact B0|now apply BA].
        * destruct (IH best Fb Fr) as (M & B0 & BA). cbn [bounds] in *. repeat split.
          -- destruct M as [M|M]; [now left|right; now right].
          -- exact B0.
          -- intros q [<-|Hq]; [lra|now apply BA].
      + rewrite (ltb_real _ _ Fp Fb). destruct (Rlt_bool_spec (rv (key p)) (rv (key best))) as [Hlt|Hge].
        * destruct (IH p Fp Fr) as (M & B0 & BA). cbn [bounds] in *. repeat split.
          -- right. destruct M as [->|M]; [now left|now right].
          -- lra.
          -- intros q [<-|Hq]; [exact B0|now apply BA].
        * destruct (IH best Fb Fr) as (M & B0 & BA). cbn [bounds] in *. repeat split.
          -- destruct M as [M|M]; [now left|right; now right].
          -- exact B0.
          -- intros q [<-|Hq]; [lra|now apply BA].
  Qed.

  (* the Go loops start from element 0 and scan the whole slice (element 0 included) *)
  Definition best_of (gt : bool) (l : list A) : result A := match l with [] => Err | a :: _ => Ok (abest gt l a) end.
  Theorem best_of_spec gt l m : Forall (fun p => fin (key p)) l -> best_of gt l = Ok m ->
    In m l /\ forall q, In q l -> bounds gt m q.
  Proof.
    destruct l as [|a r]; [discriminate|]. intros Fl H. assert (Hm : m = abest gt (a :: r) a) by (cbn [best_of] in H; congruence). subst m. clear H. inversion Fl as [|? ? Fa Fr]; subst.
    destruct (abest_spec gt (a :: r) a Fa Fl) as (M & _ & BA). split; [|exact BA].
    change (In (abest gt (a :: r) a) (a :: r)). destruct M as [E|M]; [rewrite E; now left|exact M].
  Qed.
  Theorem best_of_err gt l : best_of gt l = Err <-> l = [].
  Proof. destruct l; cbn; split; congruence. Qed.
  (* idempotence: scanning a list that consists of the result alone, or putting the result in front, changes nothing *)
  Theorem best_of_single gt a : best_of gt [a] = Ok a.
  Proof. cbn. destruct gt; destruct (_ <? _)%float; reflexivity. Qed.
End ArgBest.

(* common.Max / Min at float64 *)
Definition maxF (l : list pfloat) : result pfloat := best_of (fun x => x) true l.
Definition minF (l : list pfloat) : result pfloat := best_of (fun x => x) false l.
Theorem maxF_spec l m : Forall fin l -> maxF l = Ok m -> In m l /\ forall x, In x l -> (rv x <= rv m)%R.
Proof. intros F H. exact (best_of_spec (fun x => x) true l m F H). Qed.
Theorem minF_spec l m : Forall fin l -> minF l = Ok m -> In m l /\ forall x, In x l -> (rv m <= rv x)%R.
Proof. intros F H. exact (best_of_spec (fun x => x) false l m F H). Qed.
Theorem maxF_err l : maxF l = Err <-> l = [].
Proof. apply best_of_err. Qed.
Theorem minF_err l : minF l = Err <-> l = [].
Proof. apply best_of_err. Qed.

(* spatial.MaxPoint / MinPoint: VecF.fbest carries the key of the kept point along; it is the same scan *)
Lemma fbest_abest gt v : forall l best, fbest gt v l best (fdot best v) = abest (fun p => fdot p v) gt l best.
Proof.
  induction l as [|p r IH]; intros best; cbn [fbest abest]; [reflexivity|].
  destruct gt; destruct (_ <? _)%float; apply IH.
Qed.
Theorem fmax_point_spec gt l v m : Forall (fun p => fin (fdot p v)) l -> fmax_point gt l v = Ok m ->
  In m l /\ forall q, In q l -> if gt then (rv (fdot q v) <= rv (fdot m v))%R else (rv (fdot m v) <= rv (fdot q v))%R.
Proof.
  intros F H. apply (best_of_spec (fun p => fdot p v) gt l m F).
  destruct l as [|a r]; [discriminate|]. cbn [fmax_point best_of] in *. now rewrite <- fbest_abest.
Qed.
Theorem fmax_point_err gt l v : fmax_point gt l v = Err <-> l = [].
Proof. destruct l; cbn; split; congruence. Qed.
Theorem fmax_point_single gt p v : fmax_point gt [p] v = Ok p.
Proof. cbn. destruct gt; destruct (_ <? _)%float; reflexivity. Qed.
