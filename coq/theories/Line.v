(* Line.v — shape.GetExtendedSpatialIdsOnLine / GetSpatialIdsOnLine (shape/line.go): the recursive midpoint subdivision.
   Part A: abstract model over `vox_top, vox_in : P -> eid`, `mid`, `small`, replicating the control flow of middleSpatialIds
           (fuel 64, None on exhaustion; the four branches; the wrap-around face-adjacency test through the Shift model),
           and the theorems that hold for EVERY oracle (whenever the run returns): NoDup, both end voxels present, single voxel,
           every emitted voxel is the re-stored voxel of the `mid` of a halving piece, chain theorem (A1 + A2 + endpoint
           stability => connected), and the same with A1/A2 CHECKED at the visited nodes instead of assumed.
   Part B: executable instance on float triples (midpoint, thresholds, x, f, SetLat bit-exact with primitive floats; the latitude
           row through the math oracle exactly as PointF.y_f), `line_api` = the ID set the Go code returns.
   Real-analysis side conditions (A1 per axis) are in LineA1.v. *)
From Coq Require Import ZArith Lia List Bool String Floats.
From SID Require Import Base Str Ids Shift F64 PointF.
Import ListNotations.
Open Scope Z_scope.
Open Scope list_scope.

(* ------------------------------------------------------------------------------------------------------------------ *)
(* Adjacency                                                                                                           *)
(* ------------------------------------------------------------------------------------------------------------------ *)

(* operated.Get6spatialIdsAdjacentToFaces: shift -1 on x, y, v, then +1 on x, y, v (GetShiftingSpatialID wraps x and y) *)
Definition six (a : eid) : list eid :=
  [shift_eid a (-1) 0 0; shift_eid a 0 (-1) 0; shift_eid a 0 0 (-1);
   shift_eid a 1 0 0; shift_eid a 0 1 0; shift_eid a 0 0 1].
(* common.Include(append(six, self), b) *)
Definition near (a b : eid) : bool := memb eid_eqb b (six a ++ [a]).

(* indices a, b of a cyclic axis of length w differ by at most one step (w | b - a - d for a step d in -1..1) *)
Definition cyc (w a b : Z) : Prop := exists d, -1 <= d <= 1 /\ (w | b - a - d).
(* the two voxels are equal or touch at least at a corner; x and y are taken modulo 2^h, exactly as the code's own
   neighbour test treats them (GetShiftingSpatialID wraps both horizontal indices) *)
Definition adj26 (a b : eid) : Prop :=
  eh a = eh b /\ ev a = ev b /\ cyc (2 ^ eh a) (ex a) (ex b) /\ cyc (2 ^ eh a) (ey a) (ey b) /\ -1 <= ef b - ef a <= 1.

Definition cycb (w a b : Z) : bool := existsb (fun d => (b - a - d) mod w =? 0) [-1; 0; 1].
Definition adj26b (a b : eid) : bool :=
  (eh a =? eh b) && (ev a =? ev b) && cycb (2 ^ eh a) (ex a) (ex b) && cycb (2 ^ eh a) (ey a) (ey b) &&
  (-1 <=? ef b - ef a) && (ef b - ef a <=? 1).

Lemma cycb_spec w a b : 0 < w -> cycb w a b = true <-> cyc w a b.
Proof.
  intros Hw. unfold cycb, cyc. rewrite existsb_exists. split.
  - intros (d & Hd & E). apply Z.eqb_eq in E. exists d. split.
    + cbn in Hd. lia.
    + apply Z.mod_divide; [lia|exact E].
  - intros (d & Hd & E). exists d. split.
    + cbn. lia.
    + apply Z.eqb_eq. apply Z.mod_divide; [lia|exact E].
Qed.
Lemma adj26b_spec a b : 0 <= eh a -> adj26b a b = true <-> adj26 a b.
Proof.
  intros Hh. pose proof (pow2_pos _ Hh) as Hw. unfold adj26b, adj26.
  rewrite !andb_true_iff, !Z.eqb_eq, !Z.leb_le, !cycb_spec by exact Hw. tauto.
Qed.

Lemma cyc_sym w a b : cyc w a b -> cyc w b a.
Proof.
  intros (d & Hd & k & E). exists (- d). split; [lia|]. exists (- k). lia.
Qed.
Lemma cyc_refl w a : cyc w a a.
Proof. exists 0. split; [lia|]. exists 0. lia. Qed.
Lemma adj26_sym a b : adj26 a b -> adj26 b a.
Proof.
  intros (E1 & E2 & X & Y & F). unfold adj26. rewrite <- E1, <- E2.
  repeat split; try reflexivity; try (now apply cyc_sym); lia.
Qed.
Lemma adj26_refl a : adj26 a a.
Proof. unfold adj26. repeat split; try apply cyc_refl; lia. Qed.
(* plain (non-cyclic) neighbours are cyclic neighbours *)
Lemma cyc_plain w a b : -1 <= b - a <= 1 -> cyc w a b.
Proof. intros H. exists (b - a). split; [lia|]. exists 0. lia. Qed.

Lemma wrap_cyc w i d : 0 < w -> -1 <= d <= 1 -> cyc w i (wrap i d w).
Proof.
  intros Hw Hd. exists d. split; [exact Hd|]. rewrite wrap_mod by exact Hw.
  exists (- ((i + d) / w)). pose proof (Z.div_mod (i + d) w ltac:(lia)). lia.
Qed.
Lemma shift_adj26 a dx dy dv : 0 <= eh a -> -1 <= dx <= 1 -> -1 <= dy <= 1 -> -1 <= dv <= 1 ->
  adj26 a (shift_eid a dx dy dv).
Proof.
  intros Hh Hx Hy Hv. pose proof (pow2_pos _ Hh) as Hw. unfold adj26, shift_eid. cbn [eh ev ex ey ef].
  repeat split; try (apply wrap_cyc; assumption); lia.
Qed.
(* the code's stop test implies touching *)
Lemma near_adj26 a b : 0 <= eh a -> near a b = true -> adj26 a b.
Proof.
  intros Hh H. unfold near in H. apply (memb_In eid_eqb eid_eqb_spec) in H.
  apply in_app_or in H. destruct H as [H|[<-|[]]]; [|apply adj26_refl].
  unfold six in H. cbn [In] in H.
  destruct H as [<-|[<-|[<-|[<-|[<-|[<-|[]]]]]]]; apply shift_adj26; (exact Hh || lia).
Qed.

(* plain 26-adjacency (no wrap): equal, or every index differs by at most one *)
Definition adjP (a b : eid) : Prop :=
  eh a = eh b /\ ev a = ev b /\ -1 <= ex b - ex a <= 1 /\ -1 <= ey b - ey a <= 1 /\ -1 <= ef b - ef a <= 1.
Definition adjPb (a b : eid) : bool :=
  (eh a =? eh b) && (ev a =? ev b) && (-1 <=? ex b - ex a) && (ex b - ex a <=? 1) &&
  (-1 <=? ey b - ey a) && (ey b - ey a <=? 1) && (-1 <=? ef b - ef a) && (ef b - ef a <=? 1).
Lemma adjPb_spec a b : adjPb a b = true <-> adjP a b.
Proof. unfold adjPb, adjP. rewrite !andb_true_iff, !Z.eqb_eq, !Z.leb_le. tauto. Qed.
Lemma adjP_sym a b : adjP a b -> adjP b a.
Proof. unfold adjP. intros (E1 & E2 & X & Y & F). rewrite E1, E2. repeat split; lia. Qed.
Lemma adjP_refl a : adjP a a.
Proof. unfold adjP. repeat split; lia. Qed.
Lemma adjP_adj26 a b : adjP a b -> adj26 a b.
Proof.
  intros (E1 & E2 & X & Y & F). unfold adj26.
  split; [exact E1|]. split; [exact E2|]. split; [now apply cyc_plain|]. split; [now apply cyc_plain|exact F].
Qed.

(* adjacency used for the chain on the globe: plain 26-adjacency (no wrap-around), except that the voxel of an end point with
   longitude exactly 180 — which the code folds onto column 0 — also touches the last column (x = 2^h - 1), as it does on the
   globe. `folds` = the voxels of such end points. *)
Definition unfold_x (a : eid) : eid := {| eh := eh a; ex := ex a + 2 ^ eh a; ey := ey a; ev := ev a; ef := ef a |}.
Definition adjF (folds : list eid) (a b : eid) : Prop :=
  adjP a b \/ (In a folds /\ adjP (unfold_x a) b) \/ (In b folds /\ adjP a (unfold_x b)).
Definition adjFb (folds : list eid) (a b : eid) : bool :=
  adjPb a b || (memb eid_eqb a folds && adjPb (unfold_x a) b) || (memb eid_eqb b folds && adjPb a (unfold_x b)).
Lemma adjFb_spec folds a b : adjFb folds a b = true <-> adjF folds a b.
Proof.
  unfold adjFb, adjF. rewrite !orb_true_iff, !andb_true_iff, !adjPb_spec, !(memb_In eid_eqb eid_eqb_spec). tauto.
Qed.
Lemma adjF_nil a b : adjF [] a b <-> adjP a b.
Proof. unfold adjF. cbn. tauto. Qed.

(* a chain: consecutive elements touch *)
Fixpoint chain (adj : eid -> eid -> Prop) (a : eid) (l : list eid) (b : eid) : Prop :=
  match l with
  | [] => adj a b
  | x :: r => adj a x /\ chain adj x r b
  end.
(* v can be reached from a by steps between touching members of l *)
Inductive reach (adj : eid -> eid -> Prop) (l : list eid) (a : eid) : eid -> Prop :=
| reach0 : In a l -> reach adj l a a
| reachS b c : reach adj l a b -> In c l -> adj b c -> reach adj l a c.

Lemma chain_app adj a l1 x l2 b : chain adj a l1 x -> chain adj x l2 b -> chain adj a (l1 ++ x :: l2) b.
Proof.
  revert a. induction l1 as [|y r IH]; cbn; intros a H1 H2.
  - split; assumption.
  - destruct H1 as [H1 H1']. split; [exact H1|]. apply IH; assumption.
Qed.
Lemma chain_snoc adj a c x b : chain adj a c x -> adj x b -> chain adj a (c ++ [x]) b.
Proof. intros H1 H2. apply chain_app; [exact H1|exact H2]. Qed.
Lemma chain_reach adj l a0 : forall c a b, reach adj l a0 a -> chain adj a c b -> incl c l -> In b l ->
  forall v, In v (c ++ [b]) -> reach adj l a0 v.
Proof.
  induction c as [|x r IH]; cbn [chain app]; intros a b Ra Hc Hi Hb v Hv.
  - destruct Hv as [<-|[]]. now apply reachS with a.
  - destruct Hc as [H1 H2].
    assert (Rx : reach adj l a0 x) by (apply reachS with a; [exact Ra|apply Hi; now left|exact H1]).
    destruct Hv as [<-|Hv]; [exact Rx|].
    apply (IH x b Rx H2); [intros z Hz; apply Hi; now right|exact Hb|exact Hv].
Qed.

Lemma reach_mono (adj adj' : eid -> eid -> Prop) l a v : (forall x y, adj x y -> adj' x y) -> reach adj l a v -> reach adj' l a v.
Proof. intros H. induction 1 as [|b c _ IH Hc Hbc]; [now apply reach0|]. apply reachS with b; auto. Qed.

(* sub-segments produced by repeated halving: `sub mid s e a b k n` — (a, b) is the k-th of the 2^n pieces of (s, e) *)
Inductive sub {P : Type} (mid : P -> P -> P) (s e : P) : P -> P -> Z -> nat -> Prop :=
| sub0 : sub mid s e s e 0 O
| subL a b k n : sub mid s e a b k n -> sub mid s e a (mid a b) (2 * k) (S n)
| subR a b k n : sub mid s e a b k n -> sub mid s e (mid a b) b (2 * k + 1) (S n).
Lemma sub_range {P : Type} (mid : P -> P -> P) s e a b k n : sub mid s e a b k n -> 0 <= k < 2 ^ Z.of_nat n.
Proof.
  induction 1 as [|a b k n _ IH|a b k n _ IH]; [cbn; lia| |];
    rewrite Nat2Z.inj_succ, Z.pow_succ_r by lia; lia.
Qed.

(* ------------------------------------------------------------------------------------------------------------------ *)
(* Part A — abstract model of middleSpatialIds / GetExtendedSpatialIdsOnLine                                          *)
(* ------------------------------------------------------------------------------------------------------------------ *)
Section Line.
  Variable P : Type.
  (* voxel of a point as the top level computes it (GetExtendedSpatialIdsOnPoints on the caller's stored points) and as the
     recursion computes it (object.NewPoint on the raw coordinates first: one more SetLat truncation) *)
  Variables vox_top vox_in : P -> eid.
  Variable mid : P -> P -> P.                (* Line3.ToPoint(0.5) *)
  Variable small : P -> P -> bool.           (* all three spans below the thresholds *)

  (* middleSpatialIds: emits the midpoint's voxel, then: stop below the thresholds; stop if the midpoint's voxel is a face
     neighbour of (or equal to) both end voxels; recurse on the far half if it is near one end; on both halves otherwise *)
  Fixpoint mids (fuel : nat) (s e : P) : option (list eid) :=
    match fuel with
    | O => None
    | S n =>
      let m := mid s e in
      let vm := vox_in m in
      if small s e then Some [vm]
      else if near (vox_in s) vm && near (vox_in e) vm then Some [vm]
      else if near (vox_in s) vm then option_map (cons vm) (mids n m e)
      else if near (vox_in e) vm then option_map (cons vm) (mids n s m)
      else match mids n s m, mids n m e with
           | Some a, Some b => Some (vm :: a ++ b)
           | _, _ => None
           end
    end.

  (* GetExtendedSpatialIdsOnLine after the nil/zoom checks: Unique of the two end voxels; if one is left, return it;
     otherwise append every emitted voxel and Unique again (map order: the executable model keeps first occurrences) *)
  Definition line_ids (fuel : nat) (s e : P) : option (list eid) :=
    let a := vox_top s in
    let b := vox_top e in
    if eid_eqb a b then Some [a]
    else option_map (fun l => nodupb eid_eqb (a :: b :: l)) (mids fuel s e).

  (* ---- the recursion instrumented with the side conditions of the chain theorem, evaluated at every node it visits ----
     adjb = the notion of touching that is checked. A node (s, e) is fine when
       A1: if it stops below the thresholds, start, midpoint and end voxels touch pairwise along the segment;
       A2: if the code's (wrapping) face-neighbour test accepts the midpoint's voxel next to an end voxel, the two touch. *)
  Section Instr.
  Variable adjb : eid -> eid -> bool.
  Definition node_ok (s e : P) : bool :=
    let vm := vox_in (mid s e) in
    if small s e then adjb (vox_in s) vm && adjb vm (vox_in e)
    else implb (near (vox_in s) vm) (adjb (vox_in s) vm) && implb (near (vox_in e) vm) (adjb vm (vox_in e)).
  (* Some true: every node visited by `mids fuel s e` is fine *)
  Fixpoint mids_ok (fuel : nat) (s e : P) : option bool :=
    match fuel with
    | O => None
    | S n =>
      let m := mid s e in
      let vm := vox_in m in
      let k := node_ok s e in
      if small s e then Some k
      else if near (vox_in s) vm && near (vox_in e) vm then Some k
      else if near (vox_in s) vm then option_map (andb k) (mids_ok n m e)
      else if near (vox_in e) vm then option_map (andb k) (mids_ok n s m)
      else match mids_ok n s m, mids_ok n m e with
           | Some a, Some b => Some (k && (a && b))
           | _, _ => None
           end
    end.

  (* executed form: the end voxels are passed down instead of recomputed (each costs three oracle queries in the executable
     instance), the recursion depth is recorded with every emitted voxel (fuel high-water mark), and the node checks are
     accumulated *)
  Definition node_okX (s : P) (vs : eid) (e : P) (ve vm : eid) : bool :=
    if small s e then adjb vs vm && adjb vm ve
    else implb (near vs vm) (adjb vs vm) && implb (near ve vm) (adjb vm ve).
  Fixpoint midsX (fuel : nat) (d : Z) (s : P) (vs : eid) (e : P) (ve : eid) : option (list (eid * Z) * bool) :=
    match fuel with
    | O => None
    | S n =>
      let m := mid s e in
      let vm := vox_in m in
      let k := node_okX s vs e ve vm in
      if small s e then Some ([(vm, d)], k)
      else if near vs vm && near ve vm then Some ([(vm, d)], k)
      else if near vs vm then
        match midsX n (d + 1) m vm e ve with Some (r, kr) => Some ((vm, d) :: r, k && kr) | None => None end
      else if near ve vm then
        match midsX n (d + 1) s vs m vm with Some (r, kr) => Some ((vm, d) :: r, k && kr) | None => None end
      else match midsX n (d + 1) s vs m vm, midsX n (d + 1) m vm e ve with
           | Some (a, ka), Some (b, kb) => Some ((vm, d) :: a ++ b, k && (ka && kb))
           | _, _ => None
           end
    end.
  Lemma midsX_spec fuel : forall d s e,
    option_map (fun r => (map fst (fst r), snd r)) (midsX fuel d s (vox_in s) e (vox_in e)) =
    match mids fuel s e, mids_ok fuel s e with Some l, Some k => Some (l, k) | _, _ => None end.
  Proof.
    induction fuel as [|n IH]; intros d s e; cbn [midsX mids mids_ok]; [reflexivity|].
    change (node_okX s (vox_in s) e (vox_in e) (vox_in (mid s e))) with (node_ok s e).
    set (m := mid s e). set (vm := vox_in m). set (k := node_ok s e).
    destruct (small s e); [reflexivity|].
    destruct (near (vox_in s) vm); destruct (near (vox_in e) vm); cbn [andb]; try reflexivity.
    - specialize (IH (d + 1) m e). fold vm in IH.
      destruct (midsX n (d + 1) m vm e (vox_in e)) as [[r kr]|]; cbn [option_map fst snd] in IH;
        destruct (mids n m e); destruct (mids_ok n m e); try discriminate; cbn [option_map fst snd map]; try reflexivity.
      injection IH as <- <-. reflexivity.
    - specialize (IH (d + 1) s m). fold vm in IH.
      destruct (midsX n (d + 1) s (vox_in s) m vm) as [[r kr]|]; cbn [option_map fst snd] in IH;
        destruct (mids n s m); destruct (mids_ok n s m); try discriminate; cbn [option_map fst snd map]; try reflexivity.
      injection IH as <- <-. reflexivity.
    - pose proof (IH (d + 1) s m) as I1. pose proof (IH (d + 1) m e) as I2. fold vm in I1, I2.
      destruct (midsX n (d + 1) s (vox_in s) m vm) as [[ra ka]|]; cbn [option_map fst snd] in I1;
        destruct (mids n s m); destruct (mids_ok n s m); try discriminate; cbn [option_map fst snd map]; try reflexivity;
      destruct (midsX n (d + 1) m vm e (vox_in e)) as [[rb kb]|]; cbn [option_map fst snd] in I2;
        destruct (mids n m e); destruct (mids_ok n m e); try discriminate; cbn [option_map fst snd map]; try reflexivity.
      injection I1 as <- <-. injection I2 as <- <-. now rewrite map_app.
  Qed.

  Lemma mids_ok_None fuel : forall s e, mids_ok fuel s e = None <-> mids fuel s e = None.
  Proof.
    induction fuel as [|n IH]; intros s e; cbn [mids mids_ok]; [tauto|].
    set (m := mid s e). set (vm := vox_in m).
    destruct (small s e); [split; discriminate|].
    destruct (near (vox_in s) vm && near (vox_in e) vm); [split; discriminate|].
    destruct (near (vox_in s) vm).
    { specialize (IH m e). destruct (mids_ok n m e); destruct (mids n m e); cbn; split; try discriminate; try reflexivity;
        intros _; exfalso; destruct IH as [I1 I2]; (discriminate (I1 eq_refl) || discriminate (I2 eq_refl)). }
    destruct (near (vox_in e) vm).
    { specialize (IH s m). destruct (mids_ok n s m); destruct (mids n s m); cbn; split; try discriminate; try reflexivity;
        intros _; exfalso; destruct IH as [I1 I2]; (discriminate (I1 eq_refl) || discriminate (I2 eq_refl)). }
    pose proof (IH s m) as [A1 A2]. pose proof (IH m e) as [B1 B2].
    destruct (mids_ok n s m); destruct (mids n s m); destruct (mids_ok n m e); destruct (mids n m e);
      split; try discriminate; try reflexivity; intros _; exfalso;
      (discriminate (A1 eq_refl) || discriminate (A2 eq_refl) || discriminate (B1 eq_refl) || discriminate (B2 eq_refl)).
  Qed.

  End Instr.

  (* ---- what holds for every oracle ---- *)
  Theorem line_NoDup fuel s e l : line_ids fuel s e = Some l -> NoDup l.
  Proof.
    unfold line_ids. destruct (eid_eqb (vox_top s) (vox_top e)).
    - intros [= <-]. constructor; [intros []|constructor].
    - destruct (mids fuel s e) as [r|]; [|discriminate]. cbn [option_map]. intros H.
      assert (E : l = nodupb eid_eqb (vox_top s :: vox_top e :: r)) by congruence.
      rewrite E. apply (nodupb_NoDup eid_eqb eid_eqb_spec).
  Qed.
  Theorem line_members fuel s e l : line_ids fuel s e = Some l ->
    forall v, In v l <-> v = vox_top s \/ v = vox_top e \/
                         (vox_top s <> vox_top e /\ exists r, mids fuel s e = Some r /\ In v r).
  Proof.
    unfold line_ids. destruct (eid_eqb_spec (vox_top s) (vox_top e)) as [E|N].
    - intros [= <-] v. cbn. rewrite <- E. split; [intros [<-|[]]; now left|].
      intros [->|[->|[C _]]]; [now left|now left|congruence].
    - destruct (mids fuel s e) as [r|]; [|discriminate]. cbn [option_map]. intros H v.
      assert (E : l = nodupb eid_eqb (vox_top s :: vox_top e :: r)) by congruence.
      rewrite E. clear H E.
      rewrite (nodupb_In eid_eqb eid_eqb_spec). cbn [In]. split.
      + intros [<-|[<-|H]]; [now left|right; now left|]. right; right. split; [exact N|]. now exists r.
      + intros [->|[->|(_ & r' & [= <-] & H)]]; auto.
  Qed.
  Theorem line_ends fuel s e l : line_ids fuel s e = Some l -> In (vox_top s) l /\ In (vox_top e) l.
  Proof. intros H. split; apply (line_members _ _ _ _ H); auto. Qed.
  Theorem line_single fuel s e : vox_top s = vox_top e -> line_ids fuel s e = Some [vox_top s].
  Proof. intros E. unfold line_ids. rewrite <- E. now destruct (eid_eqb_spec (vox_top s) (vox_top s)). Qed.

  (* every emitted voxel is the recursion's voxel of the midpoint of such a piece *)
  Theorem mids_sub s e fuel : forall a b k n l, sub mid s e a b k n -> mids fuel a b = Some l ->
    forall v, In v l -> exists a' b' k' n', sub mid s e a' b' k' n' /\ v = vox_in (mid a' b').
  Proof.
    induction fuel as [|f IH]; intros a b k n l Hs; cbn [mids]; [discriminate|].
    set (m := mid a b). set (vm := vox_in m).
    assert (Hm : forall v, v = vm -> exists a' b' k' n', sub mid s e a' b' k' n' /\ v = vox_in (mid a' b')).
    { intros v ->. exists a, b, k, n. split; [exact Hs|reflexivity]. }
    destruct (small a b); [intros [= <-] v [<-|[]]; now apply Hm|].
    destruct (near (vox_in a) vm && near (vox_in b) vm); [intros [= <-] v [<-|[]]; now apply Hm|].
    destruct (near (vox_in a) vm).
    { destruct (mids f m b) as [r|] eqn:Hr; [|discriminate]. intros [= <-] v [<-|Hv]; [now apply Hm|].
      exact (IH _ _ _ _ _ (subR mid _ _ _ _ _ _ Hs) Hr v Hv). }
    destruct (near (vox_in b) vm).
    { destruct (mids f a m) as [r|] eqn:Hr; [|discriminate]. intros [= <-] v [<-|Hv]; [now apply Hm|].
      exact (IH _ _ _ _ _ (subL mid _ _ _ _ _ _ Hs) Hr v Hv). }
    destruct (mids f a m) as [ra|] eqn:Ha; [|discriminate].
    destruct (mids f m b) as [rb|] eqn:Hb; [|discriminate].
    intros [= <-] v [<-|Hv]; [now apply Hm|]. apply in_app_or in Hv. destruct Hv as [Hv|Hv].
    - exact (IH _ _ _ _ _ (subL mid _ _ _ _ _ _ Hs) Ha v Hv).
    - exact (IH _ _ _ _ _ (subR mid _ _ _ _ _ _ Hs) Hb v Hv).
  Qed.

  (* endpoint stability: re-storing an end point (one more SetLat) does not move it to another voxel. Its failure is D14. *)
  Definition stable (p : P) : Prop := vox_in p = vox_top p.

  (* ---- chain theorem, for any notion of "touching" that the stop tests respect ---- *)
  Section Chain.
    Variable adj : eid -> eid -> Prop.
    (* A2: when the stop test finds the midpoint's voxel next to an end voxel, the two touch in the sense of adj *)
    Hypothesis near_s : forall s e, near (vox_in s) (vox_in (mid s e)) = true -> adj (vox_in s) (vox_in (mid s e)).
    Hypothesis near_e : forall s e, near (vox_in e) (vox_in (mid s e)) = true -> adj (vox_in (mid s e)) (vox_in e).
    (* A1: below the thresholds the voxels of start, midpoint and end touch pairwise along the segment *)
    Hypothesis A1 : forall s e, small s e = true ->
      adj (vox_in s) (vox_in (mid s e)) /\ adj (vox_in (mid s e)) (vox_in e).

    (* Every successful run yields the emitted voxels as a re-ordering of a chain from the recursion's start voxel to its
       end voxel: there is a list c with the same members as the output such that vox_in s - c - vox_in e is a chain. *)
    Theorem mids_chain fuel : forall s e l, mids fuel s e = Some l ->
      exists c, chain adj (vox_in s) c (vox_in e) /\ (forall v, In v c <-> In v l).
    Proof.
      induction fuel as [|n IH]; intros s e l; cbn [mids]; [discriminate|].
      pose proof (near_s s e) as Hns. pose proof (near_e s e) as Hne.
      set (m := mid s e) in *. set (vm := vox_in m) in *.
      destruct (small s e) eqn:Hs.
      - intros [= <-]. exists [vm]. split; [|tauto]. cbn. destruct (A1 s e Hs). split; assumption.
      - destruct (near (vox_in s) vm) eqn:Ns; destruct (near (vox_in e) vm) eqn:Ne; cbn [andb].
        + intros [= <-]. exists [vm]. split; [|tauto]. cbn. split; [now apply Hns|now apply Hne].
        + destruct (mids n m e) as [r|] eqn:Hr; [|discriminate]. intros [= <-].
          destruct (IH _ _ _ Hr) as (c & Hc & Hin).
          exists (vm :: c). split.
          * cbn. split; [now apply Hns | exact Hc].
          * intros v. cbn. rewrite Hin. tauto.
        + destruct (mids n s m) as [r|] eqn:Hr; [|discriminate]. intros [= <-].
          destruct (IH _ _ _ Hr) as (c & Hc & Hin).
          exists (c ++ [vm]). split.
          * apply chain_snoc; [exact Hc|]. now apply Hne.
          * intros v. rewrite in_app_iff. cbn. rewrite Hin. tauto.
        + destruct (mids n s m) as [a|] eqn:Ha; [|discriminate].
          destruct (mids n m e) as [b|] eqn:Hb; [|discriminate]. intros [= <-].
          destruct (IH _ _ _ Ha) as (ca & Hca & Hina).
          destruct (IH _ _ _ Hb) as (cb & Hcb & Hinb).
          exists (ca ++ vm :: cb). split.
          * apply chain_app; assumption.
          * intros v. rewrite in_app_iff. cbn. rewrite in_app_iff, Hina, Hinb. tauto.
    Qed.

    (* Under A1, A2 and endpoint stability every returned voxel is reachable from the start voxel by steps between touching
       returned voxels (in particular the end voxel is): the result is one connected chain, without gaps. *)
    Theorem line_connected fuel s e l : stable s -> stable e -> line_ids fuel s e = Some l ->
      forall v, In v l -> reach adj l (vox_top s) v.
    Proof.
      intros Ss Se Hl. pose proof (line_ends _ _ _ _ Hl) as [Ia Ib].
      pose proof (line_members _ _ _ _ Hl) as Hm.
      assert (R0 : reach adj l (vox_top s) (vox_top s)) by now apply reach0.
      intros v Hv. apply Hm in Hv. destruct Hv as [->|Hv]; [exact R0|].
      destruct (eid_eqb_spec (vox_top s) (vox_top e)) as [E|N].
      { destruct Hv as [->|(N & _)]; [rewrite <- E; exact R0|congruence]. }
      assert (Hr : exists r, mids fuel s e = Some r /\ (v = vox_top e \/ In v r)).
      { destruct Hv as [->|(_ & r & Hr & Hv)]; [|exists r; auto].
        unfold line_ids in Hl. destruct (eid_eqb_spec (vox_top s) (vox_top e)) as [E|_]; [congruence|].
        destruct (mids fuel s e) as [r|]; [|discriminate]. exists r. auto. }
      destruct Hr as (r & Hr & Hvr).
      destruct (mids_chain _ _ _ _ Hr) as (c & Hc & Hin). unfold stable in Ss, Se. rewrite Ss, Se in Hc.
      apply (chain_reach adj l (vox_top s) c (vox_top s) (vox_top e) R0 Hc).
      - intros z Hz. apply Hm. right; right. split; [exact N|]. exists r. split; [exact Hr|now apply Hin].
      - exact Ib.
      - apply in_or_app. destruct Hvr as [->|Hvr]; [right; now left|left; now apply Hin].
    Qed.
  End Chain.

  (* ---- chain theorem with CHECKED side conditions: no hypothesis about points other than those the run visits ---- *)
  Section Checked.
    Variable adjb : eid -> eid -> bool.
    Variable adj : eid -> eid -> Prop.
    Hypothesis adjb_adj : forall a b, adjb a b = true -> adj a b.
    Theorem mids_checked_chain fuel : forall s e l, mids fuel s e = Some l -> mids_ok adjb fuel s e = Some true ->
      exists c, chain adj (vox_in s) c (vox_in e) /\ (forall v, In v c <-> In v l).
    Proof.
      induction fuel as [|n IH]; intros s e l; cbn [mids mids_ok]; [discriminate|].
      unfold node_ok. set (m := mid s e). set (vm := vox_in m).
      destruct (small s e) eqn:Hs.
      - intros [= <-] [= K]. apply andb_true_iff in K. destruct K as [K1 K2].
        exists [vm]. split; [|tauto]. cbn. split; now apply adjb_adj.
      - destruct (near (vox_in s) vm) eqn:Ns; destruct (near (vox_in e) vm) eqn:Ne; cbn [andb implb].
        + intros [= <-] [= K]. apply andb_true_iff in K. destruct K as [K1 K2].
          exists [vm]. split; [|tauto]. cbn. split; now apply adjb_adj.
        + destruct (mids n m e) as [r|] eqn:Hr; [|discriminate]. intros [= <-].
          destruct (mids_ok adjb n m e) as [kr|] eqn:Hk; [|discriminate]. intros [= K].
          rewrite andb_true_r in K. apply andb_true_iff in K. destruct K as [K1 ->].
          destruct (IH _ _ _ Hr Hk) as (c & Hc & Hin).
          exists (vm :: c). split.
          * cbn. split; [now apply adjb_adj | exact Hc].
          * intros v. cbn. rewrite Hin. tauto.
        + destruct (mids n s m) as [r|] eqn:Hr; [|discriminate]. intros [= <-].
          destruct (mids_ok adjb n s m) as [kr|] eqn:Hk; [|discriminate]. intros [= K].
          cbn [andb] in K. apply andb_true_iff in K. destruct K as [K1 ->].
          destruct (IH _ _ _ Hr Hk) as (c & Hc & Hin).
          exists (c ++ [vm]). split.
          * apply chain_snoc; [exact Hc|]. now apply adjb_adj.
          * intros v. rewrite in_app_iff. cbn. rewrite Hin. tauto.
        + destruct (mids n s m) as [a|] eqn:Ha; [|discriminate].
          destruct (mids n m e) as [b|] eqn:Hb; [|discriminate]. intros [= <-].
          destruct (mids_ok adjb n s m) as [ka|] eqn:Hka; [|discriminate].
          destruct (mids_ok adjb n m e) as [kb|] eqn:Hkb; [|discriminate]. intros [= K].
          cbn [andb] in K. apply andb_true_iff in K. destruct K as [-> ->].
          destruct (IH _ _ _ Ha Hka) as (ca & Hca & Hina).
          destruct (IH _ _ _ Hb Hkb) as (cb & Hcb & Hinb).
          exists (ca ++ vm :: cb). split.
          * apply chain_app; assumption.
          * intros v. rewrite in_app_iff. cbn. rewrite in_app_iff, Hina, Hinb. tauto.
    Qed.
    (* if both end points are stable and every node of the run passed its check, every returned voxel is reachable from the
       start voxel through touching returned voxels *)
    Theorem line_checked_connected fuel s e l : stable s -> stable e -> line_ids fuel s e = Some l ->
      vox_top s = vox_top e \/ mids_ok adjb fuel s e = Some true ->
      forall v, In v l -> reach adj l (vox_top s) v.
    Proof.
      intros Ss Se Hl Hok. pose proof (line_ends _ _ _ _ Hl) as [Ia Ib].
      pose proof (line_members _ _ _ _ Hl) as Hm.
      assert (R0 : reach adj l (vox_top s) (vox_top s)) by now apply reach0.
      intros v Hv. apply Hm in Hv. destruct Hv as [->|Hv]; [exact R0|].
      destruct (eid_eqb_spec (vox_top s) (vox_top e)) as [E|N].
      { destruct Hv as [->|(N & _)]; [rewrite <- E; exact R0|congruence]. }
      destruct Hok as [E|Hok]; [congruence|].
      assert (Hr : exists r, mids fuel s e = Some r /\ (v = vox_top e \/ In v r)).
      { destruct Hv as [->|(_ & r & Hr & Hv)]; [|exists r; auto].
        unfold line_ids in Hl. destruct (eid_eqb_spec (vox_top s) (vox_top e)) as [E|_]; [congruence|].
        destruct (mids fuel s e) as [r|]; [|discriminate]. exists r. auto. }
      destruct Hr as (r & Hr & Hvr).
      destruct (mids_checked_chain _ _ _ _ Hr Hok) as (c & Hc & Hin). unfold stable in Ss, Se. rewrite Ss, Se in Hc.
      apply (chain_reach adj l (vox_top s) c (vox_top s) (vox_top e) R0 Hc).
      - intros z Hz. apply Hm. right; right. split; [exact N|]. exists r. split; [exact Hr|now apply Hin].
      - exact Ib.
      - apply in_or_app. destruct Hvr as [->|Hvr]; [right; now left|left; now apply Hin].
    Qed.
  End Checked.

  (* instance 1 — touching as the code's own neighbour test sees it (x and y modulo 2^h): A2 holds for every oracle *)
  Section ChainTorus.
    Variable h : Z.
    Hypothesis h_nonneg : 0 <= h.
    Hypothesis vox_in_h : forall p, eh (vox_in p) = h.
    Hypothesis A1 : forall s e, small s e = true ->
      adj26 (vox_in s) (vox_in (mid s e)) /\ adj26 (vox_in (mid s e)) (vox_in e).
    Lemma near_in_adj p q : near (vox_in p) (vox_in q) = true -> adj26 (vox_in p) (vox_in q).
    Proof. apply near_adj26. rewrite vox_in_h. exact h_nonneg. Qed.
    Theorem mids_chain_torus fuel s e l : mids fuel s e = Some l ->
      exists c, chain adj26 (vox_in s) c (vox_in e) /\ (forall v, In v c <-> In v l).
    Proof.
      apply (mids_chain adj26); [| |exact A1].
      - intros a b. apply near_in_adj.
      - intros a b H. apply adj26_sym. now apply near_in_adj.
    Qed.
    Theorem line_connected_torus fuel s e l : stable s -> stable e -> line_ids fuel s e = Some l ->
      forall v, In v l -> reach adj26 l (vox_top s) v.
    Proof.
      apply (line_connected adj26); [| |exact A1].
      - intros a b. apply near_in_adj.
      - intros a b H. apply adj26_sym. now apply near_in_adj.
    Qed.
  End ChainTorus.
End Line.

(* ------------------------------------------------------------------------------------------------------------------ *)
(* Part B — executable instance: float triples, bit-exact midpoint / thresholds / x / f / SetLat, y through the oracle  *)
(* ------------------------------------------------------------------------------------------------------------------ *)
Open Scope float_scope.
(* shape/line.go constants as the compiler rounds them *)
Definition c_lon_min : float := 0x1.5798ee2308c3ap-26.      (* LonMinima = LatMinima = 0.00000002 *)
Definition c_lat_min : float := 0x1.5798ee2308c3ap-26.
Definition c_alt_min : float := 0x1.89374bc6a7efap-9.       (* AltMinima = 0.003 *)
Definition c_hz_lon_min : float := 0x1.5798ee2308c3ap-28.   (* HightZoomLonMinima = 0.000000005 *)
Definition c_hz_lat_min : float := 0x1.12e0be826d695p-31.   (* HightZoomLatMinima = 0.0000000005 *)
Definition c_hz_alt_min : float := 0x1.0624dd2f1a9fcp-11.   (* HightZoomAltMinima = 0.0005 *)
Definition hz_switch : Z := 31.                             (* hZoom >= 31 *)
Definition vz_switch : Z := 34.                             (* vZoom >= 34 *)

(* Line3{start, end-start}.ToPoint(0.5) = start + 0.5 * (end - start), component by component (gonum r3.Sub, Scale, Add) *)
Definition fmid (a b : float) : float := a + 0.5 * (b - a).
Definition mid_pt (s e : point) : point :=
  {| plon := fmid (plon s) (plon e); plat := fmid (plat s) (plat e); palt := fmid (palt s) (palt e) |}.
Definition thresholds (h v : Z) : float * float * float :=
  let '(lo, la) := if (hz_switch <=? h)%Z then (c_hz_lon_min, c_hz_lat_min) else (c_lon_min, c_lat_min) in
  (lo, la, if (vz_switch <=? v)%Z then c_hz_alt_min else c_alt_min).
(* math.Abs(vector.X) < lonMinima && math.Abs(vector.Y) < latMinima && math.Abs(vector.Z) < altMinima, vector = end - start *)
Definition small_pt (th : float * float * float) (s e : point) : bool :=
  let '(lo, la, al) := th in
  (abs (plon e - plon s) <? lo) && (abs (plat e - plat s) <? la) && (abs (palt e - palt s) <? al).
(* object.NewPoint(x, y, z) with the error ignored: the returned (possibly partially filled) object is used *)
Definition restore (p : point) : point := fst (new_point (plon p) (plat p) (palt p)).

Definition line_fuel : nat := 64.

Section Exec.
  Variable m_tan m_cos m_log : float -> float.
  Variables h v : Z.
  (* voxel of a stored point (GetExtendedSpatialIdsOnPoints); non-finite coordinates are outside every domain here *)
  Definition vox_of (p : point) : eid :=
    match point_eid m_tan m_cos m_log p h v with Some i => i | None => mk h 0 0 v 0 end.
  Definition vox_top_pt (p : point) : eid := vox_of p.
  Definition vox_in_pt (p : point) : eid := vox_of (restore p).
  Lemma vox_of_h p : eh (vox_of p) = h.
  Proof.
    unfold vox_of, point_eid.
    destruct (x_f (plon p) h); [|reflexivity]. destruct (y_f m_tan m_cos m_log (plat p) h); [|reflexivity].
    destruct (f_f (palt p) v); reflexivity.
  Qed.
  Lemma vox_in_pt_h p : eh (vox_in_pt p) = h.
  Proof. apply vox_of_h. Qed.

  Definition line_ids_pt (s e : point) : option (list eid) :=
    line_ids point vox_top_pt vox_in_pt mid_pt (small_pt (thresholds h v)) line_fuel s e.
  (* voxels of end points with longitude exactly 180 (folded onto column 0) *)
  Definition folds_pt (s e : point) : list eid :=
    (if plon s =? 180 then [vox_top_pt s] else []) ++ (if plon e =? 180 then [vox_top_pt e] else []).
  (* executed form: end voxels passed down, depth recorded, node checks (A1/A2 for the fold-aware plain adjacency) accumulated;
     returns the IDs, the deepest recursion level reached and whether every visited node passed its check *)
  Definition line_run (s e : point) : option (list eid * Z * bool) :=
    let a := vox_top_pt s in
    let b := vox_top_pt e in
    if eid_eqb a b then Some ([a], 0%Z, true)
    else match midsX point vox_in_pt mid_pt (small_pt (thresholds h v)) (adjFb (folds_pt s e)) line_fuel 1
                     s (vox_in_pt s) e (vox_in_pt e) with
         | Some (l, k) => Some (nodupb eid_eqb (a :: b :: map fst l), fold_left Z.max (map snd l) 0%Z, k)
         | None => None
         end.
  Lemma line_run_ids s e : option_map (fun r => fst (fst r)) (line_run s e) = line_ids_pt s e.
  Proof.
    unfold line_run, line_ids_pt, line_ids.
    destruct (eid_eqb (vox_top_pt s) (vox_top_pt e)); [reflexivity|].
    pose proof (midsX_spec point vox_in_pt mid_pt (small_pt (thresholds h v)) (adjFb (folds_pt s e)) line_fuel 1 s e) as H.
    pose proof (mids_ok_None point vox_top_pt vox_in_pt mid_pt (small_pt (thresholds h v)) (adjFb (folds_pt s e)) line_fuel s e) as [N1 N2].
    destruct (midsX point vox_in_pt mid_pt (small_pt (thresholds h v)) (adjFb (folds_pt s e)) line_fuel 1 s (vox_in_pt s) e (vox_in_pt e))
      as [[l k]|]; cbn [option_map fst snd] in H |- *.
    - destruct (mids point vox_in_pt mid_pt (small_pt (thresholds h v)) line_fuel s e); [|discriminate].
      destruct (mids_ok point vox_in_pt mid_pt (small_pt (thresholds h v)) (adjFb (folds_pt s e)) line_fuel s e); [|discriminate].
      injection H as <- _. reflexivity.
    - destruct (mids point vox_in_pt mid_pt (small_pt (thresholds h v)) line_fuel s e) as [r|]; [|reflexivity].
      destruct (mids_ok point vox_in_pt mid_pt (small_pt (thresholds h v)) (adjFb (folds_pt s e)) line_fuel s e); [discriminate|].
      discriminate (N1 eq_refl).
  Qed.
  (* the flag of the executed form is the instrumented run's verdict *)
  Lemma line_run_flag s e l d : line_run s e = Some (l, d, true) ->
    vox_top_pt s = vox_top_pt e \/
    mids_ok point vox_in_pt mid_pt (small_pt (thresholds h v)) (adjFb (folds_pt s e)) line_fuel s e = Some true.
  Proof.
    unfold line_run. destruct (eid_eqb_spec (vox_top_pt s) (vox_top_pt e)) as [E|N]; [intros _; now left|].
    intros Hrun. right. revert Hrun.
    pose proof (midsX_spec point vox_in_pt mid_pt (small_pt (thresholds h v)) (adjFb (folds_pt s e)) line_fuel 1 s e) as H.
    destruct (midsX point vox_in_pt mid_pt (small_pt (thresholds h v)) (adjFb (folds_pt s e)) line_fuel 1 s (vox_in_pt s) e (vox_in_pt e))
      as [[lx k]|]; [|discriminate]. cbn [option_map fst snd] in H. intros [= _ _ ->].
    destruct (mids point vox_in_pt mid_pt (small_pt (thresholds h v)) line_fuel s e); [|discriminate].
    destruct (mids_ok point vox_in_pt mid_pt (small_pt (thresholds h v)) (adjFb (folds_pt s e)) line_fuel s e); [|discriminate].
    injection H as _ <-. reflexivity.
  Qed.
End Exec.

(* shape.GetExtendedSpatialIdsOnLine: nil check, zoom check (through GetExtendedSpatialIdsOnPoints), then the line.
   `has_nil` = one of the two pointers is nil. Fuel exhaustion is never a normal-looking value: Err. (The Go code has no fuel: where
   the model runs out of fuel — end points one ulp apart in voxels two or more apart, e.g. altitude >= 2^43 at v = 35 — the code
   recurses until the stack overflows; such inputs are outside the domain judged at run time, see meta/C06.json.) *)
Definition line_api_run (m_tan m_cos m_log : float -> float) (has_nil : bool) (s e : point) (h v : Z)
  : result (list string) * Z * bool :=
  if has_nil then (Err, 0%Z, true)
  else if negb (check_zoom h && check_zoom v) then (Err, 0%Z, true)
  else match line_run m_tan m_cos m_log h v s e with
       | Some (l, d, k) => (Ok (map print_eid l), d, k)
       | None => (Err, Z.of_nat line_fuel, false)
       end.
Definition line_api m_tan m_cos m_log has_nil s e h v : result (list string) :=
  fst (fst (line_api_run m_tan m_cos m_log has_nil s e h v)).
(* shape.GetSpatialIdsOnLine: the same with h = v = zoom, then ConvertExtendedSpatialIdsToSpatialIds *)
Definition line_sid_api m_tan m_cos m_log has_nil s e (z : Z) : result (list string) :=
  match line_api m_tan m_cos m_log has_nil s e z z with
  | Ok ids => eids_to_sids ids
  | Err => Err
  end.

(* ---- histories of calls: the model has no state, so the answer to a call is the same after any history ---- *)
Record lstep := { st_sid : bool; st_nil : bool; st_s : point; st_e : point; st_h : Z; st_v : Z }.
Definition step_answer (m_tan m_cos m_log : float -> float) (st : lstep) : result (list string) :=
  if st_sid st then line_sid_api m_tan m_cos m_log (st_nil st) (st_s st) (st_e st) (st_h st)
  else line_api m_tan m_cos m_log (st_nil st) (st_s st) (st_e st) (st_h st) (st_v st).
(* answers of the model to a sequence of calls, in order *)
Definition history_answers (m_tan m_cos m_log : float -> float) (l : list lstep) : list (result (list string)) :=
  map (step_answer m_tan m_cos m_log) l.
Theorem history_answers_independent m_tan m_cos m_log (before before' after after' : list lstep) (x : lstep) :
  nth_error (history_answers m_tan m_cos m_log (before ++ x :: after)) (List.length before) =
  Some (step_answer m_tan m_cos m_log x) /\
  nth_error (history_answers m_tan m_cos m_log (before ++ x :: after)) (List.length before) =
  nth_error (history_answers m_tan m_cos m_log (before' ++ x :: after')) (List.length before').
Proof.
  assert (H : forall b a, nth_error (history_answers m_tan m_cos m_log (b ++ x :: a)) (List.length b) =
                          Some (step_answer m_tan m_cos m_log x)).
  { intros b a. unfold history_answers. rewrite map_app. rewrite nth_error_app2; rewrite map_length; [|apply Nat.le_refl].
    rewrite Nat.sub_diag. reflexivity. }
  split; [apply H|]. now rewrite !H.
Qed.

(* the API result is the abstract model's result, printed *)
Lemma line_api_model m_tan m_cos m_log s e h v : check_zoom h = true -> check_zoom v = true ->
  line_api m_tan m_cos m_log false s e h v =
  match line_ids_pt m_tan m_cos m_log h v s e with Some l => Ok (map print_eid l) | None => Err end.
Proof.
  intros Hh Hv. unfold line_api, line_api_run. rewrite Hh, Hv. cbn [andb negb].
  rewrite <- line_run_ids. destruct (line_run m_tan m_cos m_log h v s e) as [[[l d] k]|]; reflexivity.
Qed.
Lemma line_api_errors m_tan m_cos m_log has_nil s e h v :
  has_nil = true \/ check_zoom h = false \/ check_zoom v = false -> line_api m_tan m_cos m_log has_nil s e h v = Err.
Proof.
  unfold line_api, line_api_run. intros [->|[H|H]]; [reflexivity| |]; destruct has_nil; try reflexivity; rewrite H; cbn;
    try reflexivity. now rewrite andb_false_r.
Qed.

(* ------------------------------------------------------------------------------------------------------------------ *)
(* Dyadic interpolation points                                                                                          *)
(* ------------------------------------------------------------------------------------------------------------------ *)
(* For any coordinate c on which `mid` is the exact midpoint, the k-th of the 2^n pieces (a, b) of (s, e) has
   c a = c s + k/2^n (c e - c s) and c b = c s + (k+1)/2^n (c e - c s): with mids_sub, every emitted voxel is the voxel of
   the interpolation point of parameter (2k+1)/2^(n+1) — the same parameter on all three axes. IDEAL midpoints only: the float
   midpoint mid_pt does not satisfy c_mid on any coordinate (rounding), so this section is never instantiated for the float model. *)
From Coq Require Import QArith.
Close Scope Q_scope.
Section Dyadic.
  Variable P : Type.
  Variable mid : P -> P -> P.
  Variable c : P -> Q.
  Hypothesis c_mid : forall a b, (c (mid a b) == (c a + c b) / 2)%Q.
  Definition tq (k : Z) (n : nat) : Q := (inject_Z k / inject_Z (2 ^ Z.of_nat n))%Q.
  Lemma pow2q_S n : (inject_Z (2 ^ Z.of_nat (S n)) == 2 * inject_Z (2 ^ Z.of_nat n))%Q.
  Proof. rewrite Nat2Z.inj_succ, Z.pow_succ_r by lia. now rewrite inject_Z_mult. Qed.
  Lemma pow2q_nz n : ~ (inject_Z (2 ^ Z.of_nat n) == 0)%Q.
  Proof.
    intros H. assert (0 < 2 ^ Z.of_nat n)%Z by (apply Z.pow_pos_nonneg; lia).
    unfold Qeq in H. cbn in H. lia.
  Qed.
  Lemma tq_even k n : (tq (2 * k) (S n) == tq k n)%Q.
  Proof. unfold tq. rewrite pow2q_S, inject_Z_mult. pose proof (pow2q_nz n). field. exact H. Qed.
  Lemma tq_odd k n : (tq (2 * k + 1) (S n) == (tq k n + tq (k + 1) n) / 2)%Q.
  Proof.
    unfold tq. rewrite pow2q_S, !inject_Z_plus, inject_Z_mult. pose proof (pow2q_nz n). field. exact H.
  Qed.
  Lemma tq_0 : (tq 0 0 == 0)%Q. Proof. reflexivity. Qed.
  Lemma tq_1 : (tq 1 0 == 1)%Q. Proof. reflexivity. Qed.

  Theorem sub_coord s e a b k n : sub mid s e a b k n ->
    (c a == c s + tq k n * (c e - c s))%Q /\ (c b == c s + tq (k + 1) n * (c e - c s))%Q.
  Proof.
    induction 1 as [|a b k n _ [IHa IHb]|a b k n _ [IHa IHb]].
    - change (0 + 1)%Z with 1%Z. rewrite tq_0, tq_1. split; ring.
    - split.
      + rewrite tq_even. exact IHa.
      + rewrite c_mid, IHa, IHb, tq_odd. field.
    - split.
      + rewrite c_mid, IHa, IHb, tq_odd. field.
      + replace (2 * k + 1 + 1)%Z with (2 * (k + 1))%Z by lia. rewrite tq_even. exact IHb.
  Qed.
  (* the parameter of the emitted midpoint of piece k at level n *)
  Corollary sub_mid_coord s e a b k n : sub mid s e a b k n ->
    (c (mid a b) == c s + tq (2 * k + 1) (S n) * (c e - c s))%Q /\ (0 < 2 * k + 1 < 2 ^ Z.of_nat (S n))%Z.
  Proof.
    intros H. destruct (sub_coord _ _ _ _ _ _ H) as [Ha Hb]. split.
    - rewrite c_mid, Ha, Hb, tq_odd. field.
    - pose proof (sub_range mid _ _ _ _ _ _ H) as R. rewrite Nat2Z.inj_succ, Z.pow_succ_r by lia. lia.
  Qed.
End Dyadic.

(* ------------------------------------------------------------------------------------------------------------------ *)
(* The instance satisfies the chain theorem's side conditions; finding class D14                                        *)
(* ------------------------------------------------------------------------------------------------------------------ *)
(* finding class retruncation_unstable_endpoint (D14): storing the already stored end point again (object.NewPoint inside the
   recursion: one more SetLat) moves it into another voxel. Decidable on the inputs (given the oracle answers). *)
Definition unstable_endpoint (m_tan m_cos m_log : float -> float) (h v : Z) (p : point) : bool :=
  negb (eid_eqb (vox_in_pt m_tan m_cos m_log h v p) (vox_top_pt m_tan m_cos m_log h v p)).
Lemma unstable_endpoint_false m_tan m_cos m_log h v p :
  unstable_endpoint m_tan m_cos m_log h v p = false <->
  stable point (vox_top_pt m_tan m_cos m_log h v) (vox_in_pt m_tan m_cos m_log h v) p.
Proof.
  unfold unstable_endpoint, stable. rewrite negb_false_iff.
  destruct (eid_eqb_spec (vox_in_pt m_tan m_cos m_log h v p) (vox_top_pt m_tan m_cos m_log h v p)); split; congruence.
Qed.

(* PARTIAL theorem of C06 for the float model, for every oracle: if the instrumented run reports that every node it visited
   passed its A1/A2 check (a decidable fact about this run, reported by every harness case) and no end point is in the finding
   class, the returned set is one chain, connected under plain 26-adjacency (end points at longitude 180 folded), containing
   both end voxels. Partial: that the checks pass is observed per run, not proved for all inputs (LineA1.v proves A1 for the exact
   real-number index functions only). *)
Theorem line_pt_checked_connected m_tan m_cos m_log h v s e l d :
  line_run m_tan m_cos m_log h v s e = Some (l, d, true) ->
  unstable_endpoint m_tan m_cos m_log h v s = false -> unstable_endpoint m_tan m_cos m_log h v e = false ->
  forall i, In i l -> reach (adjF (folds_pt m_tan m_cos m_log h v s e)) l (vox_top_pt m_tan m_cos m_log h v s) i.
Proof.
  intros Hrun Us Ue. apply unstable_endpoint_false in Us, Ue.
  pose proof (line_run_flag _ _ _ _ _ _ _ _ _ Hrun) as Hflag.
  pose proof (line_run_ids m_tan m_cos m_log h v s e) as Hids. rewrite Hrun in Hids. cbn [option_map fst] in Hids. symmetry in Hids.
  refine (line_checked_connected point _ _ _ _ (adjFb (folds_pt m_tan m_cos m_log h v s e))
            (adjF (folds_pt m_tan m_cos m_log h v s e)) _ line_fuel s e l Us Ue Hids Hflag).
  intros a b. apply adjFb_spec.
Qed.

(* non-vacuity: two real segments along the equator (latitude 0: Go's math.Tan(0) = 0, math.Cos(0) = 1, math.Log(1) = 0 are the
   only oracle answers needed; every other argument: NaN). The second one ends at longitude 180 exactly (fold). *)
Definition eq_tan (r : float) : float := if r =? 0 then 0 else nan.
Definition eq_cos (r : float) : float := if r =? 0 then 1 else nan.
Definition eq_log (a : float) : float := if a =? 1 then 0 else nan.
Definition eq_s1 : point := {| plon := 10; plat := 0; palt := -3 |}.
Definition eq_e1 : point := {| plon := 10.5; plat := 0; palt := 40 |}.
Definition eq_s2 : point := {| plon := 179.9; plat := 0; palt := 5 |}.
Definition eq_e2 : point := {| plon := 180; plat := 0; palt := 5 |}.
Lemma eq_run1 : exists l d, line_run eq_tan eq_cos eq_log 12 22 eq_s1 eq_e1 = Some (l, d, true) /\ (10 < List.length l)%nat /\
  unstable_endpoint eq_tan eq_cos eq_log 12 22 eq_s1 = false /\ unstable_endpoint eq_tan eq_cos eq_log 12 22 eq_e1 = false.
Proof. eexists. eexists. split; [vm_compute; reflexivity|]. split; [vm_compute; lia|]. split; vm_compute; reflexivity. Qed.
Lemma eq_run2 : exists l d, line_run eq_tan eq_cos eq_log 14 3 eq_s2 eq_e2 = Some (l, d, true) /\
  In (mk 14 0 8192 3 0) l /\ In (mk 14 16383 8192 3 0) l /\
  unstable_endpoint eq_tan eq_cos eq_log 14 3 eq_s2 = false /\ unstable_endpoint eq_tan eq_cos eq_log 14 3 eq_e2 = false.
Proof. eexists. eexists. split; [vm_compute; reflexivity|]. split; [cbn; tauto|]. split; [cbn; tauto|]. split; vm_compute; reflexivity. Qed.

(* a valid call, an invalid one (zoom 36) and the same valid call again: the first and the third answer are the same list *)
Definition eq_step1 : lstep := {| st_sid := false; st_nil := false; st_s := eq_s1; st_e := eq_e1; st_h := 12; st_v := 22 |}.
Definition eq_step_bad : lstep := {| st_sid := false; st_nil := false; st_s := eq_s1; st_e := eq_e1; st_h := 12; st_v := 36 |}.
Lemma eq_history : exists l, (10 < List.length l)%nat /\
  history_answers eq_tan eq_cos eq_log [eq_step1; eq_step_bad; eq_step1] = [Ok l; Err; Ok l].
Proof. eexists. split; [|vm_compute; reflexivity]. vm_compute. lia. Qed.

(* ---- D14, float level: SetLat is not idempotent on a stored value (no oracle involved) ---- *)
Definition d14_lat : float := -0x1.430013c06793dp+6.          (* NewPoint(45.72633137829496, -80.75007534638786, 639.72).Lat() *)
Definition d14_lat2 : float := -0x1.430013c065dc1p+6.         (* the same value stored again: -80.7500753462 *)
Lemma d14_is_stored : feqb_bits (setlat_trunc (-80.75007534638786)) d14_lat = true.
Proof. vm_compute. reflexivity. Qed.
Lemma setlat_not_idempotent : feqb_bits (setlat_trunc d14_lat) d14_lat2 = true /\ (d14_lat2 =? d14_lat) = false.
Proof. split; vm_compute; reflexivity. Qed.

(* Go's math.Tan / math.Cos / math.Log answers for the two latitudes (recorded from the Go run; every other argument: NaN) *)
Definition d14_tan (r : float) : float :=
  if r =? -0x1.68cb77fcf2a8cp+0 then -0x1.88fa5dd7cc03cp+2 else if r =? -0x1.68cb77fcf0bd9p+0 then -0x1.88fa5dd7b9733p+2 else nan.
Definition d14_cos (r : float) : float :=
  if r =? -0x1.68cb77fcf2a8cp+0 then 0x1.4932b7bdd73ebp-3 else if r =? -0x1.68cb77fcf0bd9p+0 then 0x1.4932b7bde6652p-3 else nan.
Definition d14_log (a : float) : float :=
  if a =? 0x1.4b5a3bbff3acp-4 then -0x1.41dddf1b4f804p+1 else if a =? 0x1.4b5a3bc00318p-4 then -0x1.41dddf1b498b2p+1 else nan.
Definition d14_start : point := {| plon := 0x1.6dcf86d35eafp+5; plat := d14_lat; palt := 0x1.3fdc28f5c28f6p+9 |}.
(* with these answers the stored start point lies in row ...393 and, stored again, in row ...392, at h = 34 *)
Lemma d14_rows :
  vox_top_pt d14_tan d14_cos d14_log 34 6 d14_start = mk 34 10772080123 15465462393 6 0 /\
  vox_in_pt d14_tan d14_cos d14_log 34 6 d14_start = mk 34 10772080123 15465462392 6 0.
Proof. split; vm_compute; reflexivity. Qed.
Theorem D14_in_class : unstable_endpoint d14_tan d14_cos d14_log 34 6 d14_start = true.
Proof. vm_compute. reflexivity. Qed.

(* ---- D14, control-flow level: without endpoint stability the result can have a gap (A1 holding) ---- *)
Open Scope Z_scope.
(* toy oracle on one axis: points are rows, the midpoint is the integer mean, the top level sees the start one row further out *)
Definition toy_in (p : Z) : eid := mk 4 0 p 0 0.
Definition toy_top (p : Z) : eid := if (p =? 6)%Z then mk 4 0 7 0 0 else mk 4 0 p 0 0.
Definition toy_mid (a b : Z) : Z := ((a + b) / 2)%Z.
Definition toy_small (a b : Z) : bool := false.
Theorem unstable_endpoint_refuted :
  exists l, line_ids Z toy_top toy_in toy_mid toy_small line_fuel 6 1 = Some l /\
            (forall a b, toy_small a b = true ->
               adj26 (toy_in a) (toy_in (toy_mid a b)) /\ adj26 (toy_in (toy_mid a b)) (toy_in b)) /\
            stable Z toy_top toy_in 1 /\ ~ stable Z toy_top toy_in 6 /\
            In (toy_top 1) l /\ ~ reach adj26 l (toy_top 6) (toy_top 1).
Proof.
  eexists. split; [vm_compute; reflexivity|]. split; [discriminate|]. split; [reflexivity|]. split; [discriminate|].
  split; [cbn; auto|].
  intros R.
  assert (Hinv : forall x, reach adj26 [mk 4 0 7 0 0; mk 4 0 1 0 0; mk 4 0 3 0 0; mk 4 0 4 0 0; mk 4 0 5 0 0; mk 4 0 2 0 0]
                   (mk 4 0 7 0 0) x -> x = mk 4 0 7 0 0).
  { induction 1 as [|b c _ IH Hc Hadj]; [reflexivity|]. subst b.
    apply adj26b_spec in Hadj; [|cbn; lia].
    cbn [In] in Hc. destruct Hc as [<-|[<-|[<-|[<-|[<-|[<-|[]]]]]]]; try reflexivity; vm_compute in Hadj; discriminate. }
  apply Hinv in R. discriminate.
Qed.
