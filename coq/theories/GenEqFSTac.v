(* GenEqFSTac.v — struct-value mode (generated/GeneratedFS.v = the float64 helpers of common/spatial, structs as tuples): the record-to-tuple maps
   [tv tq tm], the tactic [gen_fs] (open the records; conversion; else congruence / case split of GenFTac), no lemma about a generated definition here: every narrow file imports this one.
   One file per Go source file (GenEqFSR3, GenEqFSVector, GenEqFSMatrix, GenEqFSPoint, GenEqFSLine, GenEqFSQuat), so that a definition the translator
   cannot produce, or an edited one, breaks only the lemmas of that file. *)
From Coq Require Import ZArith Bool Floats.
From SIDGen Require Import GeneratedF GeneratedFS.
From SID Require Import F64 VecF GenFTac.
Open Scope float_scope.

Definition tv (v : fvec) : float * float * float := (fx v, fy v, fz v).
Definition tq (q : fquat) : float * float * float * float := (fqw q, fqx q, fqy q, fqz q).
Definition tm (a : fmat) : (float * float * float) * (float * float * float) * (float * float * float) :=
  ((f00 a, f01 a, f02 a), (f10 a, f11 a, f12 a), (f20 a, f21 a, f22 a)).

Ltac open_records :=
  repeat match goal with
         | v : fvec |- _ => destruct v
         | q : fquat |- _ => destruct q
         | a : fmat |- _ => destruct a
         end.
(* [models]: unfolds the model side *)
Ltac gen_fs models :=
  intros; open_records;
  first [ reflexivity
        | repeat autounfold with sidgenfs; models; unfold tv, tq, tm; cbn [fx fy fz fqw fqx fqy fqz f00 f01 f02 f10 f11 f12 f20 f21 f22];
          cbv beta iota zeta; first [ fcong | cbv beta iota zeta delta [negb andb orb]; fsolve ] ].

