(* DC14.v — dispatch entries of property C14 (clearance corridor around a line; partial by design).
   Entries and argument shapes (a point is a stored float triple VL [lon; lat; alt] or VNil for a nil pointer):
     GetExtendedSpatialIdsWithinRadiusOfLine  [p1; p2; VZ hZoom; VZ vZoom; VF radius; VB skipsMeasurement]   obs: ID list | VE _
     CorridorPair                             [p1; p2; VZ hZoom; VZ vZoom; VF radius]                        obs: VL [measured; skipped]
     CorridorSequence                         [VL [call; ...]], call = VL of the six arguments above          obs: VL [result; ...]
     FitClearanceAroundExtendedSpatialID      [VS id; VF clearance]                                          obs: VL [VZ H; VZ V] | VE _
     FitSequence                              [VL [VL [VS id; VF clearance]; ...]]                           obs: VL [result; ...]
     FitLoop                                  [VS id; VF clearance]  (the same call, judged against the replayed loops)  obs: as above
   The harness answers VS "out-of-domain" without calling the implementation when the arguments are outside the property's bounded
   quantifier (radius above 3 cell widths, horizontal zoom below 2 with a positive radius, ...: the fit does not terminate there, D16).
   Oracles (answered by the real Go code, never by a second implementation of the library):
     "line"  [p1; p2; VZ h; VZ v]          shape.GetExtendedSpatialIdsOnLine on the same arguments            -> ID list | VE _
     "fit"   [VS id; VF radius]            transform.FitClearanceAroundExtendedSpatialID                      -> VL [VZ H; VZ V] | VE _
     "vdist" [VS id; VS probed]            the distance the fit measures between a voxel and a probed voxel (FitLoop only) -> VF d
   Independent reference (validation, harness/props/c14/geom.go):
     "hdist" [p1; p2; VF radius; VL ids]   for each ID a lower and an upper bound of the chord distance between the segment and the
                                           voxel's footprint                                                  -> VL [VL [VF lo; VF hi]; ...]
   corr: skip mode: same error flag, same ID set and the same number of IDs as Corridor.corridor_exec fed with the oracle answers;
         measured mode: the same with the filter read off the observed set (L ⊆ obs ⊆ skip-mode model), and no candidate that the
         reference puts clearly inside the radius (hi < radius) is missing.
   class: gjk_axis_parallel_segment (see axis_parallel below) when the only failed check is the distance reference and the segment runs
         along a parallel or a meridian.
   prop: Corridor.check_corridor on the observed set (NoDup, zooms, L ⊆ obs, radius 0 ⇒ obs ≡ L, every added ID in the reported box of a
         line voxel), and in measured mode no added ID that the reference puts clearly outside the radius (lo > radius);
         pair: measured ⊆ skipped; sequences: equal arguments ⇒ equal results; negative radius / bad zoom / nil point ⇒ error. *)
From Coq Require Import ZArith String List Bool Floats.
From SID Require Import Base Str Ids Wire F64 Shift Neighbour Corridor.
Import ListNotations.
Open Scope string_scope.

Definition out_of_domain : string := "out-of-domain".
Definition is_ood (v : val) : bool := match v with VS s => String.eqb s out_of_domain | _ => false end.

Definition res_of_ids (obs : val) : option (result (list string)) :=
  match obs with
  | VE _ => Some Err
  | VPanic | VTimeout => None
  | _ => match as_LS obs with Some l => Some (Ok l) | None => None end
  end.
Definition ids_val (r : result (list string)) : val := match r with Ok l => of_LS l | Err => VE VNil end.
Definition res_of_fit (obs : val) : option (result (Z * Z)) :=
  match obs with
  | VE _ => Some Err
  | VL [VZ H; VZ V] => Some (Ok (H, V))
  | _ => None
  end.
Definition fit_val (r : result (Z * Z)) : val := match r with Ok (H, V) => VL [VZ H; VZ V] | Err => VE VNil end.

Definition point_ok (v : val) : bool := match v with VNil => true | VL [VF _; VF _; VF _] => true | _ => false end.
Definition is_nil (v : val) : bool := match v with VNil => true | _ => false end.

(* equality of argument values (floats by bit pattern) *)
Fixpoint val_eqb (a b : val) : bool :=
  match a, b with
  | VZ x, VZ y => Z.eqb x y
  | VS x, VS y => String.eqb x y
  | VF x, VF y => feqb_bits x y
  | VB x, VB y => Bool.eqb x y
  | VNil, VNil => true
  | VL x, VL y =>
      (fix go (x y : list val) : bool :=
         match x, y with
         | [], [] => true
         | a :: x', b :: y' => val_eqb a b && go x' y'
         | _, _ => false
         end) x y
  | _, _ => false
  end.

(* the layer counts the model uses for the picked voxel: fixed by the structure (error, or (0,0) for radius 0), else the oracle's answer *)
Definition fit_for (oracle : oracle_t) (radius : float) (id : string) : option (result (Z * Z)) :=
  match fit_struct id radius with
  | Some a => Some a
  | None => res_of_fit (oracle "fit" [VS id; VF radius])
  end.

Definition same_ids (m o : list string) : bool := set_eq m o && Nat.eqb (List.length m) (List.length o).

(* bounds from the independent reference, one pair per queried ID *)
Definition ask_hdist (oracle : oracle_t) (p1 p2 : val) (radius : float) (ids : list string) : option (list (float * float)) :=
  match ids with
  | [] => Some []
  | _ =>
      match oracle "hdist" [p1; p2; VF radius; of_LS ids] with
      | VL l =>
          let ps := map (fun v => match v with VL [VF lo; VF hi] => Some (lo, hi) | _ => None end) l in
          match all_opt ps with
          | Some r => if Nat.eqb (List.length r) (List.length ids) then Some r else None
          | None => None
          end
      | _ => None
      end
  end.

(* j_ok = false: the case cannot be judged;  j_cls: finding class of a failed property check ("-" = none) *)
Record judged := { j_corr : bool; j_prop : bool; j_model : val; j_ok : bool; j_cls : string }.
Definition jbad : judged := {| j_corr := false; j_prop := false; j_model := VNil; j_ok := false; j_cls := "-" |}.
Definition jv c p m : judged := {| j_corr := c; j_prop := p; j_model := m; j_ok := true; j_cls := "-" |}.
Definition jvc c p m cls : judged := {| j_corr := c; j_prop := p; j_model := m; j_ok := true; j_cls := cls |}.

(* Finding class gjk_axis_parallel_segment (third-party closest_go): for a segment that runs (almost) exactly along a parallel or a
   meridian — the latitude difference of the stored end points is at most 2^-9 of the longitude difference, or conversely, in degrees;
   identical end points included — the GJK distance between the segment and a voxel's hull is under-estimated in about 0.1 % of the
   segment/voxel pairs (by up to 2.5 cell widths; observed only for directions within 1e-6 of the axis, never otherwise and never an
   over-estimate), so the measured result keeps voxels farther than the radius. A decidable predicate on the arguments: *)
Definition axis_parallel (p1 p2 : val) : bool :=
  match p1, p2 with
  | VL [VF lon1; VF lat1; _], VL [VF lon2; VF lat2; _] =>
      let dlon := abs (lon1 - lon2)%float in
      let dlat := abs (lat1 - lat2)%float in
      ((dlat <=? 0x1p-9 * dlon) || (dlon <=? 0x1p-9 * dlat))%float
  | _, _ => false
  end.
Definition cls_gjk : string := "gjk_axis_parallel_segment".

(* the reference is applied at horizontal zooms 6..35 (below, a cell spans a large part of the globe and the planar hull of its corners is
   far below its footprint) and for an ordinary radius *)
Definition dist_applies (h : Z) (radius : float) : bool := (6 <=? h)%Z && (0 <? radius)%float && (radius <? infinity)%float.

Definition judge (oracle : oracle_t) (p1 p2 : val) (h v : Z) (radius : float) (skip : bool) (obs : val) : judged :=
  if is_ood obs then jv true true VNil
  else if negb (point_ok p1 && point_ok p2) then jbad
  else
    match res_of_ids obs with
    | None => jbad
    | Some o =>
        let expect_err := is_nil p1 || is_nil p2 || negb (check_zoom h && check_zoom v) || (radius <? 0)%float in
        match res_of_ids (oracle "line" [p1; p2; VZ h; VZ v]) with
        | None => jbad
        | Some line =>
            let fitp : option (result (Z * Z)) :=
              match line with
              | Ok L => match pick L with Some p => fit_for oracle radius p | None => Some Err end
              | Err => Some Err
              end in
            match fitp with
            | None => jbad
            | Some fp =>
                let oset := match o with Ok l => set_of l | Err => SS.empty end in
                let nearb := fun id => SS.mem id oset in
                let m := corridor_exec (fun _ => fp) nearb line skip in
                let mskip := if skip then m else corridor_exec (fun _ => fp) nearb line true in
                let zero := (radius =? 0)%float in
                match o with
                | Err => jv (negb (is_ok m)) (expect_err || negb (is_ok m)) (ids_val m)
                | Ok ol =>
                    if expect_err then jv (negb (is_ok m)) false (ids_val m)
                    else
                      match line, fp, m, mskip with
                      | Ok L, Ok (H, V), Ok ml, Ok msl =>
                          let structural := check_corridor h v zero L H V ol in
                          if skip || negb (dist_applies h radius) then jv (same_ids ml ol) structural (ids_val m)
                          else
                            let added := added_of L ol in
                            let missing := filter (fun x => negb (SS.mem x oset)) msl in
                            match ask_hdist oracle p1 p2 radius added, ask_hdist oracle p1 p2 radius missing with
                            | Some ba, Some bm =>
                                let far_ok := forallb (fun b => negb (radius <? fst b)%float) ba in       (* no kept voxel clearly outside *)
                                let near_ok := forallb (fun b => negb (snd b <? radius)%float) bm in      (* no dropped voxel clearly inside *)
                                let corr := same_ids ml ol && near_ok in
                                let cls := if corr && structural && negb far_ok && axis_parallel p1 p2 then cls_gjk else "-" in
                                jvc corr (structural && far_ok) (ids_val m) cls
                            | _, _ => jbad
                            end
                      | _, _, _, _ => jv false true (ids_val m)   (* the implementation succeeded where the oracles / model did not *)
                      end
                end
            end
        end
    end.

Definition verdict_of (j : judged) : verdict := if j_ok j then mkv (j_corr j) (j_prop j) (j_cls j) (j_model j) else bad_case.
(* several judged calls in one case: a failed check outside every finding class (or a failed relation between the calls) decides;
   otherwise the class of the failed check is reported, and only when the correspondence holds *)
Definition hard_fail (j : judged) : bool := negb (j_prop j) && String.eqb (j_cls j) "-".
Definition soft_class (js : list judged) : string :=
  match filter (fun j => negb (j_prop j)) js with j :: _ => j_cls j | [] => "-" end.
Definition combine_verdict (js : list judged) (extra : bool) (model : val) : verdict :=
  let corr := forallb j_corr js in
  let prop := forallb j_prop js && extra in
  let cls := if corr && extra && negb (existsb hard_fail js) then soft_class js else "-" in
  mkv corr prop cls model.

Definition d_corridor (oracle : oracle_t) (args : list val) (obs : val) : verdict :=
  match args with
  | [p1; p2; VZ h; VZ v; VF r; VB skip] => verdict_of (judge oracle p1 p2 h v r skip obs)
  | _ => bad_case
  end.

(* measured and skipped mode on the same arguments *)
Definition d_pair (oracle : oracle_t) (args : list val) (obs : val) : verdict :=
  match args, obs with
  | [p1; p2; VZ h; VZ v; VF r], VL [om; os] =>
      let jm := judge oracle p1 p2 h v r false om in
      let js := judge oracle p1 p2 h v r true os in
      if negb (j_ok jm && j_ok js) then bad_case
      else
        let sub := match res_of_ids om, res_of_ids os with
                   | Some (Ok a), Some (Ok b) => subset_s a b
                   | Some (Ok _), Some Err => false
                   | _, _ => true
                   end in
        combine_verdict [jm; js] sub (VL [j_model jm; j_model js])
  | [_; _; _; _; _], VS _ => if is_ood obs then mkv true true "-" VNil else bad_case
  | _, _ => bad_case
  end.

(* equal arguments give equal results (the function has no memory): the same error flag, and in skip mode the same IDs.
   In measured mode the IDs are not compared between two calls: each result is already pinned down by its own checks except for voxels
   whose distance equals the radius within float noise (the implementation reuses one closest.Measure across the candidates, which come
   in map order, so such a voxel may be kept by one call and dropped by the next; seen with radius 4e-11 m) *)
Definition is_skip_call (c : val) : bool := match c with VL [_; _; _; _; _; VB b] => b | _ => false end.
Definition same_outcome (a b : val) : bool :=
  match res_of_ids a, res_of_ids b with
  | Some (Ok x), Some (Ok y) => same_ids x y
  | Some Err, Some Err => true
  | None, None => is_ood a && is_ood b
  | _, _ => false
  end.
Definition same_flag (a b : val) : bool :=
  match res_of_ids a, res_of_ids b with
  | Some (Ok _), Some (Ok _) => true
  | Some Err, Some Err => true
  | None, None => is_ood a && is_ood b
  | _, _ => false
  end.
Definition same_outcome_call (c : val) (a b : val) : bool := if is_skip_call c then same_outcome a b else same_flag a b.
Fixpoint deterministic {A} (same : val -> A -> A -> bool) (l : list (val * A)) : bool :=
  match l with
  | [] => true
  | (a, r) :: t => forallb (fun q => if val_eqb a (fst q) then same a r (snd q) else true) t && deterministic same t
  end.

Definition d_sequence (oracle : oracle_t) (args : list val) (obs : val) : verdict :=
  match args, obs with
  | [VL calls], VL results =>
      if negb (Nat.eqb (List.length calls) (List.length results)) then bad_case
      else
        let js := map (fun cr => match fst cr with
                                 | VL [p1; p2; VZ h; VZ v; VF r; VB skip] => judge oracle p1 p2 h v r skip (snd cr)
                                 | _ => jbad end) (combine calls results) in
        if negb (forallb j_ok js) then bad_case
        else
          let det := deterministic same_outcome_call (combine calls results) in
          combine_verdict js det (VL (map j_model js))
  | _, _ => bad_case
  end.

(* FitClearanceAroundExtendedSpatialID: what the structure fixes is compared exactly; otherwise: no error and non-negative layer counts *)
Definition judge_fit (id : string) (c : float) (obs : val) : judged :=
  if is_ood obs then jv true true VNil
  else
    match res_of_fit obs with
    | None => jbad
    | Some o =>
        match fit_struct id c with
        | Some m =>
            let same := match m, o with
                        | Err, Err => true
                        | Ok (a, b), Ok (a', b') => (a =? a')%Z && (b =? b')%Z
                        | _, _ => false
                        end in
            jv same same (fit_val m)
        | None =>
            let ok := match o with Ok (H, V) => (0 <=? H)%Z && (0 <=? V)%Z | Err => false end in
            jv ok ok (VS "geometry")
        end
    end.
Definition d_fit (_ : oracle_t) (args : list val) (obs : val) : verdict :=
  match args with
  | [VS id; VF c] => verdict_of (judge_fit id c obs)
  | _ => bad_case
  end.
Definition same_fit (a b : val) : bool :=
  match res_of_fit a, res_of_fit b with
  | Some (Ok (x, y)), Some (Ok (x', y')) => (x =? x')%Z && (y =? y')%Z
  | Some Err, Some Err => true
  | None, None => is_ood a && is_ood b
  | _, _ => false
  end.
Definition d_fit_sequence (_ : oracle_t) (args : list val) (obs : val) : verdict :=
  match args, obs with
  | [VL calls], VL results =>
      if negb (Nat.eqb (List.length calls) (List.length results)) then bad_case
      else
        let js := map (fun cr => match fst cr with
                                 | VL [VS id; VF c] => judge_fit id c (snd cr)
                                 | _ => jbad end) (combine calls results) in
        if negb (forallb j_ok js) then bad_case
        else
          let det := deterministic (fun _ => same_fit) (combine calls results) in
          combine_verdict js det (VL (map j_model js))
  | _, _ => bad_case
  end.

(* FitLoop: the growth loops of FitClearanceAroundExtendedSpatialID replayed step by step (Corridor.fit_model, fuel 64): clearance < 0 and
   arity checks, then the FIRST loop probes the voxel shifted by n = 1, 2, ... COLUMNS (GetShiftingSpatialID(id, n, 0, 0)) and stops at
   the first n with not (clearance > dist), returning n - 1; then the SECOND loop does the same with the voxel shifted by n ROWS
   (GetShiftingSpatialID(id, 0, n, 0): the y index, i.e. southwards). The distance of every probed pair is the oracle "vdist"
   [VS id; VS probed] answered by the real shape / geodesy_go / closest_go calls; which voxel is probed is computed here (Shift model).
   What the second count means: it is returned as `verticalLayer` and GetExtendedSpatialIdsWithinRadiusOfLine passes it to
   GetNspatialIdsAroundVoxcels as the number of ALTITUDE layers, but it is measured along the latitude (y) axis: it does not depend on
   the vertical zoom nor on the altitude index of the ID (the measured points carry the latitude in the height slot, so an altitude shift
   would measure distance 0 for ever). Modelled as written; reported as a defect, not part of C14 (which speaks of the reported counts).
   corr = the model's (H, V) / error equals the observed one;
   prop = the observed counts are the least stops of their axes under those same oracle answers (Corridor.least_stop, the loop's
          specification: C14_fit_loop_meets_spec), error exactly when the structure says so. *)
Definition fit_fuel : nat := 64.
Definition vdist_of (oracle : oracle_t) (id probed : string) : float :=
  match oracle "vdist" [VS id; VS probed] with VF x => x | _ => nan end.
Definition d_fitloop (oracle : oracle_t) (args : list val) (obs : val) : verdict :=
  match args with
  | [VS id; VF c] =>
      if is_ood obs then mkv true true "-" VNil
      else
        match res_of_fit obs with
        | None => bad_case
        | Some o =>
            let dx := fun id n => vdist_of oracle id (shift_api id n 0 0) in
            let dy := fun id n => vdist_of oracle id (shift_api id 0 n 0) in
            match fit_model fit_fuel dx dy id c with
            | None => mkv false true "-" (VS "fuel")
            | Some m =>
                let same := match m, o with
                            | Err, Err => true
                            | Ok (a, b), Ok (a', b') => (a =? a')%Z && (b =? b')%Z
                            | _, _ => false
                            end in
                let prop := match o with
                            | Err => negb (is_ok m)
                            | Ok (H, V) => is_ok m && least_stop c (dx id) H && least_stop c (dy id) V
                            end in
                mkv same prop "-" (fit_val m)
            end
        end
  | _ => bad_case
  end.

Definition table_C14 : table :=
  [("GetExtendedSpatialIdsWithinRadiusOfLine", d_corridor);
   ("CorridorPair", d_pair);
   ("CorridorSequence", d_sequence);
   ("FitClearanceAroundExtendedSpatialID", d_fit);
   ("FitSequence", d_fit_sequence);
   ("FitLoop", d_fitloop)].
