(* DC14.v — dispatch entries of property C14 (clearance corridor around a line; partial by design).
   Entries and argument shapes (a point is a stored float triple VL [lon; lat; alt] or VNil for a nil pointer):
     GetExtendedSpatialIdsWithinRadiusOfLine  [p1; p2; VZ hZoom; VZ vZoom; VF radius; VB skipsMeasurement]   obs: ID list | VE _
     CorridorPair                             [p1; p2; VZ hZoom; VZ vZoom; VF radius]                        obs: VL [measured; skipped]
     CorridorSequence                         [VL [call; ...]], call = VL of the six arguments above          obs: VL [result; ...]
     FitClearanceAroundExtendedSpatialID      [VS id; VF clearance]                                          obs: VL [VZ H; VZ V] | VE _
     FitSequence                              [VL [VL [VS id; VF clearance]; ...]]                           obs: VL [result; ...]
     FitLoop                                  [VS id; VF clearance]   (same judgement as FitClearance...; kept as a separate stream)
   Bounded quantifier. The harness answers VS "out-of-domain" WITHOUT calling the implementation when the arguments are outside the
   property's bounded quantifier (D16: the fit does not terminate when no shift reaches the clearance; sizes). Such an answer is never a
   pass: the entry re-derives the reason from the arguments (size estimates through the oracle "dom"/"fitdom", which only supplies the
   cosines/row numbers) and answers class "skipped" when a cap is really exceeded, and bad_case otherwise. Caps: line span > 120 cells
   on an axis; positive radius with hZoom < 2, radius = +Inf, radius > 3 cell widths (hZoom >= 6) or > 0.5 pole-ward edge widths
   (hZoom 2..5); (line cells) x (stencil) > 250000. Coordinates outside lon +-180 / lat +-85.0511287798 / |alt| <= 2^25, NaN or Inf, are
   bad_case (the altitude bound keeps the vertical index far from the int64 limits, where Go's `altIndex + v` wraps and the model's Z
   does not). For the fit: well-formed IDs with a zoom field outside 0..35 AND a negative or huge index (GetShiftingSpatialID runs before
   the vertex check and its wrap loop spins for a negative zoom: FitClearanceAroundExtendedSpatialID("-5/-2/0/0/0", 0) never returns),
   or with x, y outside the grid of a valid zoom, are outside the quantifier of C14/C15 ("skipped").
   Oracles (answered by the real Go code, never by a second implementation of the library):
     "line"  [p1; p2; VZ h; VZ v]          shape.GetExtendedSpatialIdsOnLine on the same arguments            -> ID list | VE _
     "fit"   [VS id; VF radius]            transform.FitClearanceAroundExtendedSpatialID                      -> VL [VZ H; VZ V] | VE _
     "vdist" [VS id; VS probed]            the distance the fit measures between a voxel and a probed voxel   -> VF d
     "gjk"   [p1; p2; VL ids]              closest_go's distance between the segment and each voxel, measured with a FRESH closest.Measure
                                           per voxel (the same library calls as the corridor's loop, without its reused state)  -> VL [VF d; ...]
   Independent reference (validation, harness/props/c14/geom.go):
     "hdist" [p1; p2; VF radius; VL ids]   for each ID a lower and an upper bound of the chord distance between the segment and the
                                           voxel's footprint                                                  -> VL [VL [VF lo; VF hi]; ...]
     "mloop" [p1; p2; VL ids]              the corridor's measuring loop replayed on exactly these IDs in exactly this order: ONE
                                           closest.Measure holding the segment, reused for all IDs (its search starts from the previous ID's
                                           state), vertex call + geodesy conversion + MeasureNonnegativeDistance per ID -> VL [VF d | VE _; ...]
   corr: same error flag, same ID set and the same number of IDs as the executable model fed with the oracle answers, in BOTH modes and at
         every hZoom: skip mode Corridor.corridor_exec; measured mode Corridor.corridor_run, whose stateful measure is Corridor.replay of
         the "mloop" answers for the model's own sorted candidate list (Corridor.candidates) with Go's `dist < radius`;
         additionally (hZoom >= 6) no candidate that the reference puts clearly inside the radius (hi < radius) is missing.
   prop: Corridor.check_corridor on the observed set (NoDup, zooms, L ⊆ obs, radius 0 ⇒ obs ≡ L, every added ID in the reported box of a
         line voxel), and in measured mode at hZoom >= 6 no added ID that the reference puts clearly outside the radius (lo > radius)
         [hZoom 2..5: the distance clause is NOT COVERED — a cell spans a large part of the globe, the planar hull of its corners is far
         below its footprint and closest_go returns 0 for such cells];
         pair: measured ⊆ skipped; sequences: equal arguments ⇒ equal results (both modes; since 915e48e the measured result is a function of
         the arguments); negative radius / bad zoom / nil point ⇒ error.
   classes gjk_axis_parallel_segment / measure_reuse_axis_parallel_segment: see below. *)
From Coq Require Import ZArith String List Bool Floats.
From SID Require Import Base Str Ids Wire F64 Shift Neighbour Corridor.
Import ListNotations.
Open Scope string_scope.

Definition out_of_domain : string := "out-of-domain".
Definition is_ood (v : val) : bool := match v with VS s => String.eqb s out_of_domain | _ => false end.

Definition res_of_ids (obs : val) : option (result (list string)) :=
  match obs with
  | VE _ => Some Err
  | VPanic | VTimeout => None
  | _ => match as_LS obs with Some l => Some (Ok l) | None => None end
  end.
Definition ids_val (r : result (list string)) : val := match r with Ok l => of_LS l | Err => VE VNil end.
Definition res_of_fit (obs : val) : option (result (Z * Z)) :=
  match obs with
  | VE _ => Some Err
  | VL [VZ H; VZ V] => Some (Ok (H, V))
  | _ => None
  end.
Definition fit_val (r : result (Z * Z)) : val := match r with Ok (H, V) => VL [VZ H; VZ V] | Err => VE VNil end.

Definition is_nil (v : val) : bool := match v with VNil => true | _ => false end.
(* a stored point inside the documented ranges (finite, |lon| <= 180, |lat| <= 85.0511287798, |alt| <= 2^25), or a nil pointer *)
Definition point_ok (v : val) : bool :=
  match v with
  | VNil => true
  | VL [VF lon; VF lat; VF alt] => ((abs lon <=? 180) && (abs lat <=? c_latmax) && (abs alt <=? 33554432))%float
  | _ => false
  end.

(* equality of argument values (floats by bit pattern) *)
Fixpoint val_eqb (a b : val) : bool :=
  match a, b with
  | VZ x, VZ y => Z.eqb x y
  | VS x, VS y => String.eqb x y
  | VF x, VF y => feqb_bits x y
  | VB x, VB y => Bool.eqb x y
  | VNil, VNil => true
  | VL x, VL y =>
      (fix go (x y : list val) : bool :=
         match x, y with
         | [], [] => true
         | a :: x', b :: y' => val_eqb a b && go x' y'
         | _, _ => false
         end) x y
  | _, _ => false
  end.

(* the layer counts the model uses for the picked voxel: fixed by the structure (error, or (0,0) for radius 0), else the oracle's answer *)
Definition fit_for (oracle : oracle_t) (radius : float) (id : string) : option (result (Z * Z)) :=
  match fit_struct id radius with
  | Some a => Some a
  | None => res_of_fit (oracle "fit" [VS id; VF radius])
  end.

Definition same_ids (m o : list string) : bool := set_eq m o && Nat.eqb (List.length m) (List.length o).

(* bounds from the independent reference, one pair per queried ID *)
Definition ask_hdist (oracle : oracle_t) (p1 p2 : val) (radius : float) (ids : list string) : option (list (float * float)) :=
  match ids with
  | [] => Some []
  | _ =>
      match oracle "hdist" [p1; p2; VF radius; of_LS ids] with
      | VL l =>
          let ps := map (fun v => match v with VL [VF lo; VF hi] => Some (lo, hi) | _ => None end) l in
          match all_opt ps with
          | Some r => if Nat.eqb (List.length r) (List.length ids) then Some r else None
          | None => None
          end
      | _ => None
      end
  end.
(* closest_go with a fresh Measure per voxel *)
Definition ask_gjk (oracle : oracle_t) (p1 p2 : val) (ids : list string) : option (list float) :=
  match ids with
  | [] => Some []
  | _ =>
      match oracle "gjk" [p1; p2; of_LS ids] with
      | VL l => match all_opt (map as_F l) with
                | Some r => if Nat.eqb (List.length r) (List.length ids) then Some r else None
                | None => None
                end
      | _ => None
      end
  end.

(* the real measuring loop replayed on the model's candidate list: one distance (or the failure of the vertex call) per candidate *)
Definition ask_mloop (oracle : oracle_t) (p1 p2 : val) (cs : list string) : option (list (result float)) :=
  match cs with
  | [] => Some []
  | _ =>
      match oracle "mloop" [p1; p2; of_LS cs] with
      | VL l =>
          let rs := map (fun v => match v with VF d => Some (Ok d) | VE _ => Some Err | _ => None end) l in
          match all_opt rs with
          | Some r => if Nat.eqb (List.length r) (List.length cs) then Some r else None
          | None => None
          end
      | _ => None
      end
  end.

(* j_ok = false: the case cannot be judged;  j_skip: refused by the size guard and the refusal is confirmed;
   j_cls: finding class of a failed property check ("-" = none) *)
Record judged := { j_corr : bool; j_prop : bool; j_model : val; j_ok : bool; j_skip : bool; j_cls : string }.
Definition jbad : judged := {| j_corr := false; j_prop := false; j_model := VNil; j_ok := false; j_skip := false; j_cls := "-" |}.
Definition jskip : judged := {| j_corr := true; j_prop := true; j_model := VNil; j_ok := true; j_skip := true; j_cls := "-" |}.
Definition jvc c p m cls : judged := {| j_corr := c; j_prop := p; j_model := m; j_ok := true; j_skip := false; j_cls := cls |}.
Definition jv c p m : judged := jvc c p m "-".

(* Finding class gjk_axis_parallel_segment (third-party closest_go). For a segment that runs exactly along a parallel or a meridian
   closest_go's GJK distance between the segment and a voxel's hull is UNDER-estimated in about 0.1 % of the segment/voxel pairs (by up to
   2.5 cell widths; also with a fresh closest.Measure per voxel; observed only for directions within 1e-6 of the axis; never an
   over-estimate), so measured mode keeps voxels farther than the radius. The class is reported only when ALL of this holds:
     - the distance reference is the only failed check and the correspondence holds;
     - the stored end points differ, and their latitude difference is at most 2^-16 of their longitude difference or conversely (degrees);
     - for EVERY kept voxel that the reference puts clearly outside the radius, closest_go itself, asked with a fresh Measure through
       the oracle "gjk", reports a distance below the radius (so the library really under-estimates there; a far voxel kept although the
       fresh GJK distance is not below the radius is a failure outside the class). *)
Definition axis_parallel (p1 p2 : val) : bool :=
  match p1, p2 with
  | VL [VF lon1; VF lat1; _], VL [VF lon2; VF lat2; _] =>
      let dlon := abs (lon1 - lon2)%float in
      let dlat := abs (lat1 - lat2)%float in
      (((0 <? dlon) && (dlat <=? 0x1p-16 * dlon)) || ((0 <? dlat) && (dlon <=? 0x1p-16 * dlat)))%float
  | _, _ => false
  end.
Definition cls_gjk : string := "gjk_axis_parallel_segment".
(* Finding class measure_reuse_axis_parallel_segment (this library's measuring loop): same conditions, but for at least one kept voxel
   clearly outside the radius closest_go asked with a FRESH Measure reports a distance that is NOT below the radius — the voxel is kept
   only because the loop reuses one closest.Measure, whose search starts from the previous candidate's state and then stops too early
   (typically one of the 2V+1 altitude layers of a footprint is kept and its siblings are dropped). To keep the class from excusing a
   systematically wrong filter it is reported only when such voxels are at most one eighth of the added IDs. *)
Definition cls_reuse : string := "measure_reuse_axis_parallel_segment".

(* the independent distance reference is applied at horizontal zooms 6..35 and for an ordinary radius *)
Definition dist_applies (h : Z) (radius : float) : bool := (6 <=? h)%Z && (0 <? radius)%float && (radius <? infinity)%float.

(* is the refusal of a corridor call justified by a cap? estimates: [span in cells on the longest axis; radius in limiting cell widths;
   (line cells) x (stencil)] *)
Definition corridor_cap_exceeded (oracle : oracle_t) (p1 p2 : val) (h v : Z) (radius : float) : bool :=
  if is_nil p1 || is_nil p2 || negb (check_zoom h && check_zoom v) then false
  else
    match oracle "dom" [p1; p2; VZ h; VZ v; VF radius] with
    | VL [VF span; VF rcells; VF shifts] =>
        ((120 <? span)%float ||
         ((0 <? radius)%float &&
          ((radius =? infinity)%float || (h <? 2)%Z || (if (h <? 6)%Z then (0.5 <? rcells)%float else (3 <? rcells)%float) ||
           (250000 <? shifts)%float)))
    | _ => false
    end.

Definition judge (oracle : oracle_t) (p1 p2 : val) (h v : Z) (radius : float) (skip : bool) (obs : val) : judged :=
  if negb (point_ok p1 && point_ok p2) then jbad
  else if is_ood obs then (if corridor_cap_exceeded oracle p1 p2 h v radius then jskip else jbad)
  else
    match res_of_ids obs with
    | None => jbad
    | Some o =>
        let expect_err := is_nil p1 || is_nil p2 || negb (check_zoom h && check_zoom v) || (radius <? 0)%float in
        match res_of_ids (oracle "line" [p1; p2; VZ h; VZ v]) with
        | None => jbad
        | Some line =>
            let fitp : option (result (Z * Z)) :=
              match line with
              | Ok L => match pick L with Some p => fit_for oracle radius p | None => Some Err end
              | Err => Some Err
              end in
            match fitp with
            | None => jbad
            | Some fp =>
                let oset := match o with Ok l => set_of l | Err => SS.empty end in
                let mskip := corridor_exec (fun _ => fp) (fun _ => true) line true in
                (* measured mode: the real measuring loop is asked, with its one reused Measure, for the model's own sorted candidates *)
                match (if skip then Some [] else ask_mloop oracle p1 p2 (candidates (fun _ => fp) line)) with
                | None => jbad
                | Some answers =>
                let m := if skip then mskip else corridor_run (fun _ => fp) _ answers (replay radius) line false in
                let zero := (radius =? 0)%float in
                match o with
                | Err => jv (negb (is_ok m)) (expect_err || negb (is_ok m)) (ids_val m)
                | Ok ol =>
                    if expect_err then jv (negb (is_ok m)) false (ids_val m)
                    else
                      match line, fp, m, mskip with
                      | Ok L, Ok (H, V), Ok ml, Ok msl =>
                          let structural := check_corridor h v zero L H V ol in
                          if skip || negb (dist_applies h radius) then jv (same_ids ml ol) structural (ids_val m)
                          else
                            let added := added_of L ol in
                            let missing := sort_strings (filter (fun x => negb (SS.mem x oset)) msl) in   (* canonical order: the query must not depend on the order in which the line's IDs arrived *)
                            match ask_hdist oracle p1 p2 radius added, ask_hdist oracle p1 p2 radius missing with
                            | Some ba, Some bm =>
                                let far := map fst (filter (fun ib => (radius <? fst (snd ib))%float) (combine added ba)) in  (* kept, clearly outside *)
                                let far_ok := match far with [] => true | _ => false end in
                                let near_ok := forallb (fun b => negb (snd b <? radius)%float) bm in      (* no dropped voxel clearly inside *)
                                let corr := same_ids ml ol && near_ok in
                                if far_ok || negb (corr && structural && axis_parallel p1 p2) then jv corr (structural && far_ok) (ids_val m)
                                else
                                  match ask_gjk oracle p1 p2 far with
                                  | Some ds =>
                                      let stateful := List.length (filter (fun d => negb (d <? radius)%float) ds) in
                                      jvc corr false (ids_val m)
                                          (if Nat.eqb stateful 0 then cls_gjk
                                           else if Nat.leb (8 * stateful) (List.length added) then cls_reuse else "-")
                                  | None => jbad
                                  end
                            | _, _ => jbad
                            end
                      | _, _, _, _ => jv false false (ids_val m)   (* the implementation succeeded where the line / fit call or the model fails:
                                                                      contradicts C14_line_error / C14_fit_error *)
                      end
                end
                end
            end
        end
    end.

Definition verdict_of (j : judged) : verdict :=
  if negb (j_ok j) then bad_case
  else if j_skip j then mkv true true "skipped" VNil
  else mkv (j_corr j) (j_prop j) (j_cls j) (j_model j).
(* several judged calls in one case: any call that cannot be judged makes the case a bad case; a confirmed refusal of one call makes the
   case "skipped"; a failed check outside every finding class (or a failed relation between the calls) decides; otherwise the class of
   the failed check is reported, and only when the correspondence holds *)
Definition hard_fail (j : judged) : bool := negb (j_prop j) && String.eqb (j_cls j) "-".
Definition soft_class (js : list judged) : string :=
  match filter (fun j => negb (j_prop j)) js with j :: _ => j_cls j | [] => "-" end.
Definition combine_verdict (js : list judged) (extra : bool) (model : val) : verdict :=
  if negb (forallb j_ok js) then bad_case
  else if existsb j_skip js then mkv true true "skipped" VNil
  else
    let corr := forallb j_corr js in
    let prop := forallb j_prop js && extra in
    let cls := if corr && extra && negb (existsb hard_fail js) then soft_class js else "-" in
    mkv corr prop cls model.

Definition d_corridor (oracle : oracle_t) (args : list val) (obs : val) : verdict :=
  match args with
  | [p1; p2; VZ h; VZ v; VF r; VB skip] => verdict_of (judge oracle p1 p2 h v r skip obs)
  | _ => bad_case
  end.

(* measured and skipped mode on the same arguments *)
Definition d_pair (oracle : oracle_t) (args : list val) (obs : val) : verdict :=
  match args, obs with
  | [p1; p2; VZ h; VZ v; VF r], VL [om; os] =>
      let jm := judge oracle p1 p2 h v r false om in
      let js := judge oracle p1 p2 h v r true os in
      let sub := match res_of_ids om, res_of_ids os with
                 | Some (Ok a), Some (Ok b) => subset_s a b
                 | Some (Ok _), Some Err => false
                 | _, _ => true
                 end in
      combine_verdict [jm; js] sub (VL [j_model jm; j_model js])
  | _, _ => bad_case
  end.

(* equal arguments give equal results (the function has no memory): the same error flag and the same IDs, in both modes *)
Definition same_outcome (a b : val) : bool :=
  match res_of_ids a, res_of_ids b with
  | Some (Ok x), Some (Ok y) => same_ids x y
  | Some Err, Some Err => true
  | None, None => is_ood a && is_ood b
  | _, _ => false
  end.
Fixpoint deterministic {A} (same : A -> A -> bool) (l : list (val * A)) : bool :=
  match l with
  | [] => true
  | (a, r) :: t => forallb (fun q => if val_eqb a (fst q) then same r (snd q) else true) t && deterministic same t
  end.

Definition d_sequence (oracle : oracle_t) (args : list val) (obs : val) : verdict :=
  match args, obs with
  | [VL calls], VL results =>
      if negb (Nat.eqb (List.length calls) (List.length results)) then bad_case
      else
        let js := map (fun cr => match fst cr with
                                 | VL [p1; p2; VZ h; VZ v; VF r; VB skip] => judge oracle p1 p2 h v r skip (snd cr)
                                 | _ => jbad end) (combine calls results) in
        combine_verdict js (deterministic same_outcome (combine calls results)) (VL (map j_model js))
  | _, _ => bad_case
  end.

(* ---- the fit called directly. Every call is judged against the replayed loops (Corridor.fit_model, fuel 64): clearance < 0 and arity
   checks, then the FIRST loop probes the voxel shifted by n = 1, 2, ... COLUMNS (GetShiftingSpatialID(id, n, 0, 0)) and stops at the first
   n with not (clearance > dist), returning n - 1; then the SECOND loop does the same with the voxel shifted by n ROWS
   (GetShiftingSpatialID(id, 0, n, 0): the y index, i.e. southwards). The distance of every probed pair is the oracle "vdist"
   [VS id; VS probed] answered by the real shape / geodesy_go / closest_go calls (fresh Measure, as in the fit); which voxel is probed is
   computed here (Shift model).
   What the second count means: it is returned as `verticalLayer` and GetExtendedSpatialIdsWithinRadiusOfLine passes it to
   GetNspatialIdsAroundVoxcels as the number of ALTITUDE layers, but it is measured along the latitude (y) axis: it does not depend on
   the vertical zoom nor on the altitude index of the ID (the measured points carry the latitude in the height slot, so an altitude shift
   would measure distance 0 for ever). Modelled as written; reported as a defect, not part of C14 (which speaks of the reported counts).
   corr = the model's (H, V) / error equals the observed one;
   prop = the observed counts are the least stops of their axes under those same oracle answers (Corridor.least_stop, the loop's
          specification: C14_fit_loop_meets_spec), error exactly when the structure says so. ---- *)
Definition fit_fuel : nat := 64.
Definition vdist_of (oracle : oracle_t) (id probed : string) : float :=
  match oracle "vdist" [VS id; VS probed] with VF x => x | _ => nan end.
(* is the refusal of a fit call justified?  estimates: [clearance in widths of the voxel's shorter east-west edge] *)
Definition fit_cap_exceeded (oracle : oracle_t) (id : string) (c : float) : bool :=
  match parse_eid id with
  | None => false
  | Some i =>
      if negb (check_zoom (eh i) && check_zoom (ev i))
      then (ex i <? 0)%Z || (ey i <? 0)%Z || (2 ^ 20 <=? ex i)%Z || (2 ^ 20 <=? ey i)%Z
      else if (ex i <? 0)%Z || (ey i <? 0)%Z || (2 ^ eh i <=? ex i)%Z || (2 ^ eh i <=? ey i)%Z then true
      else
        (0 <? c)%float &&
        ((c =? infinity)%float || (eh i <? 2)%Z ||
         match oracle "fitdom" [VS id; VF c] with
         | VL [VF rcells] => if (eh i <? 6)%Z then (0.5 <? rcells)%float else (3 <? rcells)%float
         | _ => false
         end)
  end.
Definition judge_fit (oracle : oracle_t) (id : string) (c : float) (obs : val) : judged :=
  if is_ood obs then (if fit_cap_exceeded oracle id c then jskip else jbad)
  else
    match res_of_fit obs with
    | None => jbad
    | Some o =>
        let dx := fun id n => vdist_of oracle id (shift_api id n 0 0) in
        let dy := fun id n => vdist_of oracle id (shift_api id 0 n 0) in
        match fit_model fit_fuel dx dy id c with
        | None => jv false true (VS "fuel")
        | Some m =>
            let same := match m, o with
                        | Err, Err => true
                        | Ok (a, b), Ok (a', b') => (a =? a')%Z && (b =? b')%Z
                        | _, _ => false
                        end in
            let prop := match o with
                        | Err => negb (is_ok m)
                        | Ok (H, V) => is_ok m && least_stop c (dx id) H && least_stop c (dy id) V
                        end in
            jv same prop (fit_val m)
        end
    end.
Definition d_fit (oracle : oracle_t) (args : list val) (obs : val) : verdict :=
  match args with
  | [VS id; VF c] => verdict_of (judge_fit oracle id c obs)
  | _ => bad_case
  end.
Definition same_fit (a b : val) : bool :=
  match res_of_fit a, res_of_fit b with
  | Some (Ok (x, y)), Some (Ok (x', y')) => (x =? x')%Z && (y =? y')%Z
  | Some Err, Some Err => true
  | None, None => is_ood a && is_ood b
  | _, _ => false
  end.
Definition d_fit_sequence (oracle : oracle_t) (args : list val) (obs : val) : verdict :=
  match args, obs with
  | [VL calls], VL results =>
      if negb (Nat.eqb (List.length calls) (List.length results)) then bad_case
      else
        let js := map (fun cr => match fst cr with
                                 | VL [VS id; VF c] => judge_fit oracle id c (snd cr)
                                 | _ => jbad end) (combine calls results) in
        combine_verdict js (deterministic same_fit (combine calls results)) (VL (map j_model js))
  | _, _ => bad_case
  end.

Definition table_C14 : table :=
  [("GetExtendedSpatialIdsWithinRadiusOfLine", d_corridor);
   ("CorridorPair", d_pair);
   ("CorridorSequence", d_sequence);
   ("FitClearanceAroundExtendedSpatialID", d_fit);
   ("FitSequence", d_fit_sequence);
   ("FitLoop", d_fit)].
