(* QuadkeyObj.v — property C11, object wiring: the quadkey-side objects of common/object/id_object.go
     FromExtendedSpatialIDToQuadkeyAndVerticalID, FromExtendedSpatialIDToQuadkeyAndAltitudekey, QuadkeyAndVerticalID
   as records with the same fields; every exported setter = a record update of exactly one field (no validation, no clamping), every getter =
   the field, every constructor = the setters in the order the code calls them on the zero object.
   The [][2]int64 passed to SetInnerIDList / the constructors is stored AS IS (same backing array, no copy) and InnerIDList() returns it as is:
   in the sequence model the field is a reference into the caller's slices (`store`), so a later write by the caller, or through the slice the
   getter returned, is visible on both sides. The pure variant (field = the list itself) ties the objects to the groups of QuadkeyConv.v.
   The statements that cite the regenerated constants live in GenC11.v: nothing the dispatch tables depend on imports the translator's output. *)
From Coq Require Import ZArith Lia List Bool String Floats.
From SID Require Import Base Quadkey QuadkeyConv AltKeyCore Ids.
Import ListNotations.
Open Scope Z_scope.

(* ---------- the three objects ---------- *)
Section Records.
  Context {I : Type}.        (* the stored slice: a reference (sequence model) or its contents (pure model) *)
  (* struct { quadkeyZoom; innerIDList; vZoom; maxHeight; minHeight } *)
  Record vobj := mkvobj { v_qz : Z; v_inner : I; v_vz : Z; v_max : float; v_min : float }.
  (* struct { quadkeyZoom; innerIDList; altitudekeyZoom; zBaseExponent; zBaseOffset } *)
  Record aobj := mkaobj { a_qz : Z; a_inner : I; a_az : Z; a_exp : Z; a_off : Z }.

  (* SetQuadkeyZoom, SetInnerIDList, SetVerticalZoom, SetMaxHeight, SetMinHeight *)
  Definition v_set_qz (z : Z) (o : vobj) := mkvobj z (v_inner o) (v_vz o) (v_max o) (v_min o).
  Definition v_set_inner (l : I) (o : vobj) := mkvobj (v_qz o) l (v_vz o) (v_max o) (v_min o).
  Definition v_set_vz (z : Z) (o : vobj) := mkvobj (v_qz o) (v_inner o) z (v_max o) (v_min o).
  Definition v_set_max (f : float) (o : vobj) := mkvobj (v_qz o) (v_inner o) (v_vz o) f (v_min o).
  Definition v_set_min (f : float) (o : vobj) := mkvobj (v_qz o) (v_inner o) (v_vz o) (v_max o) f.
  (* SetQuadkeyZoom, SetInnerIDList, SetAltitudekeyZoom, SetZBaseExponent, SetZBaseOffset *)
  Definition a_set_qz (z : Z) (o : aobj) := mkaobj z (a_inner o) (a_az o) (a_exp o) (a_off o).
  Definition a_set_inner (l : I) (o : aobj) := mkaobj (a_qz o) l (a_az o) (a_exp o) (a_off o).
  Definition a_set_az (z : Z) (o : aobj) := mkaobj (a_qz o) (a_inner o) z (a_exp o) (a_off o).
  Definition a_set_exp (z : Z) (o : aobj) := mkaobj (a_qz o) (a_inner o) (a_az o) z (a_off o).
  Definition a_set_off (z : Z) (o : aobj) := mkaobj (a_qz o) (a_inner o) (a_az o) (a_exp o) z.

  Variable nil_inner : I.    (* the nil slice of `&T{}` *)
  Definition v_zero : vobj := mkvobj 0 nil_inner 0 0%float 0%float.
  Definition a_zero : aobj := mkaobj 0 nil_inner 0 0 0.
  (* NewFromExtendedSpatialIDToQuadkeyAndVerticalID: SetQuadkeyZoom; SetInnerIDList; SetVerticalZoom; SetMaxHeight; SetMinHeight *)
  Definition new_v (qz : Z) (l : I) (vz : Z) (mx mn : float) : vobj :=
    v_set_min mn (v_set_max mx (v_set_vz vz (v_set_inner l (v_set_qz qz v_zero)))).
  (* NewFromExtendedSpatialIDToQuadkeyAndAltitudekey: SetQuadkeyZoom; SetInnerIDList; SetAltitudekeyZoom; SetZBaseExponent; SetZBaseOffset *)
  Definition new_a (qz : Z) (l : I) (az e off : Z) : aobj :=
    a_set_off off (a_set_exp e (a_set_az az (a_set_inner l (a_set_qz qz a_zero)))).

  (* get-set and frame laws: each setter changes its own field to the argument (bit for bit for the heights) and no other field *)
  Theorem vobj_laws (o : vobj) z l f :
    v_set_qz z o = mkvobj z (v_inner o) (v_vz o) (v_max o) (v_min o) /\
    v_set_inner l o = mkvobj (v_qz o) l (v_vz o) (v_max o) (v_min o) /\
    v_set_vz z o = mkvobj (v_qz o) (v_inner o) z (v_max o) (v_min o) /\
    v_set_max f o = mkvobj (v_qz o) (v_inner o) (v_vz o) f (v_min o) /\
    v_set_min f o = mkvobj (v_qz o) (v_inner o) (v_vz o) (v_max o) f.
  Proof. repeat split; reflexivity. Qed.
  Theorem vobj_get_set (o : vobj) z l f :
    v_qz (v_set_qz z o) = z /\ v_inner (v_set_inner l o) = l /\ v_vz (v_set_vz z o) = z /\ v_max (v_set_max f o) = f /\ v_min (v_set_min f o) = f /\
    (* the heights are independent: no clamping of one against the other *)
    v_min (v_set_max f o) = v_min o /\ v_max (v_set_min f o) = v_max o.
  Proof. repeat split; reflexivity. Qed.
  Theorem aobj_laws (o : aobj) z l :
    a_set_qz z o = mkaobj z (a_inner o) (a_az o) (a_exp o) (a_off o) /\
    a_set_inner l o = mkaobj (a_qz o) l (a_az o) (a_exp o) (a_off o) /\
    a_set_az z o = mkaobj (a_qz o) (a_inner o) z (a_exp o) (a_off o) /\
    a_set_exp z o = mkaobj (a_qz o) (a_inner o) (a_az o) z (a_off o) /\
    a_set_off z o = mkaobj (a_qz o) (a_inner o) (a_az o) (a_exp o) z.
  Proof. repeat split; reflexivity. Qed.
  (* the constructors read back exactly their arguments *)
  Theorem new_v_reads_back qz l vz mx mn : new_v qz l vz mx mn = mkvobj qz l vz mx mn.
  Proof. reflexivity. Qed.
  Theorem new_a_reads_back qz l az e off : new_a qz l az e off = mkaobj qz l az e off.
  Proof. reflexivity. Qed.
End Records.
Arguments vobj : clear implicits. Arguments aobj : clear implicits.

(* struct { quadkeyZoom; quadkey; vZoom; vIndex; maxHeight; minHeight } *)
Record qobj := mkqobj { q_qz : Z; q_key : Z; q_vz : Z; q_vi : Z; q_max : float; q_min : float }.
Definition q_set_qz (z : Z) (o : qobj) := mkqobj z (q_key o) (q_vz o) (q_vi o) (q_max o) (q_min o).
Definition q_set_key (z : Z) (o : qobj) := mkqobj (q_qz o) z (q_vz o) (q_vi o) (q_max o) (q_min o).
Definition q_set_vz (z : Z) (o : qobj) := mkqobj (q_qz o) (q_key o) z (q_vi o) (q_max o) (q_min o).
Definition q_set_vi (z : Z) (o : qobj) := mkqobj (q_qz o) (q_key o) (q_vz o) z (q_max o) (q_min o).
Definition q_set_max (f : float) (o : qobj) := mkqobj (q_qz o) (q_key o) (q_vz o) (q_vi o) f (q_min o).
Definition q_set_min (f : float) (o : qobj) := mkqobj (q_qz o) (q_key o) (q_vz o) (q_vi o) (q_max o) f.
Definition q_zero : qobj := mkqobj 0 0 0 0 0%float 0%float.
(* NewQuadkeyAndVerticalID: SetQuadkeyZoom; SetQuadkey; SetVZoom; SetVIndex; SetMaxHeight; SetMinHeight *)
Definition new_q (qz key vz vi : Z) (mx mn : float) : qobj :=
  q_set_min mn (q_set_max mx (q_set_vi vi (q_set_vz vz (q_set_key key (q_set_qz qz q_zero))))).
Theorem qobj_laws (o : qobj) z f :
  q_set_qz z o = mkqobj z (q_key o) (q_vz o) (q_vi o) (q_max o) (q_min o) /\
  q_set_key z o = mkqobj (q_qz o) z (q_vz o) (q_vi o) (q_max o) (q_min o) /\
  q_set_vz z o = mkqobj (q_qz o) (q_key o) z (q_vi o) (q_max o) (q_min o) /\
  q_set_vi z o = mkqobj (q_qz o) (q_key o) (q_vz o) z (q_max o) (q_min o) /\
  q_set_max f o = mkqobj (q_qz o) (q_key o) (q_vz o) (q_vi o) f (q_min o) /\
  q_set_min f o = mkqobj (q_qz o) (q_key o) (q_vz o) (q_vi o) (q_max o) f.
Proof. repeat split; reflexivity. Qed.
Theorem new_q_reads_back qz key vz vi mx mn : new_q qz key vz vi mx mn = mkqobj qz key vz vi mx mn.
Proof. reflexivity. Qed.

(* ---------- sequence model: the caller's slices and the aliasing ---------- *)
Definition store := list (list pair).                    (* the caller's [][2]int64 values, by index *)
Fixpoint upd_nth {A} (n : nat) (a : A) (l : list A) : list A :=       (* l[n] = a; nothing when n is out of range (the harness never does it) *)
  match l, n with
  | [], _ => []
  | _ :: r, O => a :: r
  | b :: r, S m => b :: upd_nth m a r
  end.
Definition write (s : store) (sid idx : nat) (p : pair) : store :=
  match nth_error s sid with Some sl => upd_nth sid (upd_nth idx p sl) s | None => s end.
Definition deref (s : store) (r : option nat) : list pair := match r with Some sid => nth sid s [] | None => [] end.

Lemma upd_nth_length {A} n (a : A) l : List.length (upd_nth n a l) = List.length l.
Proof. revert n. induction l as [|b r IH]; intros [|n]; cbn; auto. Qed.
Lemma nth_upd_nth_same {A} n (a d : A) l : (n < List.length l)%nat -> nth n (upd_nth n a l) d = a.
Proof. revert n. induction l as [|b r IH]; intros [|n] H; cbn in *; try lia; auto. apply IH. lia. Qed.
Lemma nth_upd_nth_other {A} n m (a d : A) l : n <> m -> nth m (upd_nth n a l) d = nth m l d.
Proof. revert n m. induction l as [|b r IH]; intros [|n] [|m] H; cbn; auto; try congruence. Qed.
(* the stored slice is shared: a write to the caller's slice is what the getter shows, and writes to other slices are not *)
Theorem stored_slice_is_shared s sid idx p : (sid < List.length s)%nat ->
  deref (write s sid idx p) (Some sid) = upd_nth idx p (deref s (Some sid)).
Proof.
  intros H. unfold write, deref. destruct (nth_error s sid) as [sl|] eqn:E.
  - rewrite nth_upd_nth_same by exact H. now rewrite (nth_error_nth s sid [] E).
  - apply nth_error_None in E. lia.
Qed.
Theorem other_slices_untouched s sid sid' idx p : sid <> sid' -> deref (write s sid idx p) (Some sid') = deref s (Some sid').
Proof. intros H. unfold write, deref. destruct (nth_error s sid); [|reflexivity]. now apply nth_upd_nth_other. Qed.

Inductive objst := OV (o : vobj (option nat)) | OA (o : aobj (option nat)) | OQ (o : qobj).
Inductive step :=
| SNewV (qz : Z) (r : option nat) (vz : Z) (mx mn : float)
| SNewA (qz : Z) (r : option nat) (az e off : Z)
| SNewQ (qz key vz vi : Z) (mx mn : float)
| SSetZ (name : string) (z : Z)           (* a setter with an int64 argument, by its Go name *)
| SSetF (name : string) (f : float)       (* SetMaxHeight / SetMinHeight *)
| SSetInner (r : option nat)              (* SetInnerIDList(slices[r]) or SetInnerIDList(nil) *)
| SCallerWrite (sid idx : nat) (p : pair) (* slices[sid][idx] = p, by the caller, after the call *)
| SGetterWrite (idx : nat) (p : pair).    (* o.InnerIDList()[idx] = p *)

Definition set_z (name : string) (z : Z) (o : objst) : option objst :=
  match o with
  | OV v => if String.eqb name "SetQuadkeyZoom" then Some (OV (v_set_qz z v))
            else if String.eqb name "SetVerticalZoom" then Some (OV (v_set_vz z v)) else None
  | OA a => if String.eqb name "SetQuadkeyZoom" then Some (OA (a_set_qz z a))
            else if String.eqb name "SetAltitudekeyZoom" then Some (OA (a_set_az z a))
            else if String.eqb name "SetZBaseExponent" then Some (OA (a_set_exp z a))
            else if String.eqb name "SetZBaseOffset" then Some (OA (a_set_off z a)) else None
  | OQ q => if String.eqb name "SetQuadkeyZoom" then Some (OQ (q_set_qz z q))
            else if String.eqb name "SetQuadkey" then Some (OQ (q_set_key z q))
            else if String.eqb name "SetVZoom" then Some (OQ (q_set_vz z q))
            else if String.eqb name "SetVIndex" then Some (OQ (q_set_vi z q)) else None
  end.
Definition set_f (name : string) (f : float) (o : objst) : option objst :=
  match o with
  | OV v => if String.eqb name "SetMaxHeight" then Some (OV (v_set_max f v))
            else if String.eqb name "SetMinHeight" then Some (OV (v_set_min f v)) else None
  | OQ q => if String.eqb name "SetMaxHeight" then Some (OQ (q_set_max f q))
            else if String.eqb name "SetMinHeight" then Some (OQ (q_set_min f q)) else None
  | OA _ => None
  end.
Definition inner_ref (o : objst) : option nat :=
  match o with OV v => v_inner v | OA a => a_inner a | OQ _ => None end.

(* one step on one object slot (None: no object yet) and the caller's slices; None = the step does not exist for this object *)
Definition apply_step (st : step) (o : option objst) (s : store) : option (option objst * store) :=
  match st, o with
  | SNewV qz r vz mx mn, _ => Some (Some (OV (new_v None qz r vz mx mn)), s)
  | SNewA qz r az e off, _ => Some (Some (OA (new_a None qz r az e off)), s)
  | SNewQ qz key vz vi mx mn, _ => Some (Some (OQ (new_q qz key vz vi mx mn)), s)
  | SSetZ name z, Some ob => match set_z name z ob with Some ob' => Some (Some ob', s) | None => None end
  | SSetF name f, Some ob => match set_f name f ob with Some ob' => Some (Some ob', s) | None => None end
  | SSetInner r, Some (OV v) => Some (Some (OV (v_set_inner r v)), s)
  | SSetInner r, Some (OA a) => Some (Some (OA (a_set_inner r a)), s)
  | SCallerWrite sid idx p, _ => Some (o, write s sid idx p)
  | SGetterWrite idx p, Some ob => match inner_ref ob with
                                   | Some sid => Some (o, write s sid idx p)
                                   | None => Some (o, s)
                                   end
  | _, _ => None
  end.

(* what the getters return: int64 getters in declaration order, float getters, InnerIDList() contents *)
Definition snap := (list Z * list float * list pair)%type.
Definition snapshot (s : store) (o : option objst) : snap :=
  match o with
  | None => ([], [], [])
  | Some (OV v) => ([v_qz v; v_vz v], [v_max v; v_min v], deref s (v_inner v))
  | Some (OA a) => ([a_qz a; a_az a; a_exp a; a_off a], [], deref s (a_inner a))
  | Some (OQ q) => ([q_qz q; q_key q; q_vz q; q_vi q], [q_max q; q_min q], [])
  end.

(* two object slots; every step names its target slot; after every step BOTH objects are read back (a setter of one object must not
   show on the other) *)
Fixpoint run_steps (o0 o1 : option objst) (s : store) (l : list (bool * step)) : option (list (snap * snap) * store) :=
  match l with
  | [] => Some ([], s)
  | (t, st) :: r =>
      match apply_step st (if t then o1 else o0) s with
      | None => None
      | Some (o', s') =>
          let o0' := if t then o0 else o' in
          let o1' := if t then o' else o1 in
          match run_steps o0' o1' s' r with
          | Some (snaps, sf) => Some ((snapshot s' o0', snapshot s' o1') :: snaps, sf)
          | None => None
          end
      end
  end.

(* ---------- tie to the conversions: the returned groups are constructor results on the request's parameters ---------- *)
Definition group_of_v (o : vobj (list pair)) : group (float * float) := mkg (v_qz o) (v_vz o) (v_max o, v_min o) (v_inner o).
Definition group_of_a (o : aobj (list pair)) : group (Z * Z) := mkg (a_qz o) (a_az o) (a_exp o, a_off o) (a_inner o).
(* ConvertExtendedSpatialIDsToQuadkeysAndVerticalIDs, any vertical function: each returned object is
   NewFromExtendedSpatialIDToQuadkeyAndVerticalID(outputHZoom, idList, outputVZoom, maxHeight, minHeight): its getters return the request's
   values *)
Theorem groups_are_constructed_v oh ov (mx mn : float) vert ids gs : conv oh ov (mx, mn) vert ids = Ok gs ->
  forall g, In g gs -> g = group_of_v (new_v [] oh (g_pairs g) ov mx mn) /\ g_pairs g <> [].
Proof.
  intros E g Hg. destruct (conv_groups_generic oh ov (mx, mn) vert ids gs E) as (A & _). destruct (A g Hg) as (H1 & H2 & H3 & H4).
  split; [|exact H4]. destruct g as [hz vz pr ps]. cbn in *. subst. reflexivity.
Qed.
Theorem groups_are_constructed_a oq oa E O ids gs : e2qa ids oq oa E O = Ok gs ->
  forall g, In g gs -> g = group_of_a (new_a [] oq (g_pairs g) oa E O) /\ g_pairs g <> [].
Proof.
  unfold e2qa. intros Eq g Hg. destruct (conv_groups_generic oq oa (E, O) _ ids gs Eq) as (A & _). destruct (A g Hg) as (H1 & H2 & H3 & H4).
  split; [|exact H4]. destruct g as [hz vz pr ps]. cbn in *. subst. reflexivity.
Qed.
