(* GenC11.v — property C11: the statements that cite the regenerated constants (bounds of transform.quadkeyCheckZoom, consts.InnerID*Index).
   An edit of those bounds / indices in /repo breaks GenEqCheck.gen_QuadkeyZoom_eq / GenEqConstQuadkey.gen_InnerID_eq and therefore this file.
   NOT imported by DC11.v / Dispatch.v (the extracted model must not depend on SIDGen); only properties/C11.v imports it. *)
From Coq Require Import ZArith Lia List Bool.
From SID Require Import Base Ids AltKeyCore Quadkey QuadkeyConv QuadkeyObj.
From SIDGen Require Generated.
From SID Require GenEqCheck GenEqConstQuadkey.
Import ListNotations.
Open Scope Z_scope.

(* ---------- statements that cite the regenerated constants ---------- *)
(* the zoom window of the quadkey conversions is the pair of bounds read from the source of transform.quadkeyCheckZoom *)
Lemma gen_bounds : Generated.QuadkeyZoom_hZoom_min = 1 /\ Generated.QuadkeyZoom_hZoom_max = 31 /\
                   Generated.QuadkeyZoom_vZoom_min = 0 /\ Generated.QuadkeyZoom_vZoom_max = 35.
Proof.
  pose proof GenEqCheck.gen_QuadkeyZoom_eq as E.
  pose proof (f_equal (fun t => fst (fst (fst t))) E) as E1. pose proof (f_equal (fun t => snd (fst (fst t))) E) as E2.
  pose proof (f_equal (fun t => snd (fst t)) E) as E3. pose proof (f_equal snd E) as E4. cbn [fst snd] in E1, E2, E3, E4. auto.
Qed.
Theorem qcheck_generated h v :
  qcheck h v = (Generated.QuadkeyZoom_hZoom_min <=? h) && (h <=? Generated.QuadkeyZoom_hZoom_max) &&
               (Generated.QuadkeyZoom_vZoom_min <=? v) && (v <=? Generated.QuadkeyZoom_vZoom_max).
Proof. destruct gen_bounds as (E1 & E2 & E3 & E4). rewrite E1, E2, E3, E4. reflexivity. Qed.
(* the round trip of the keys on exactly the horizontal zooms the source accepts *)
Theorem decode_encode_generated h x y : Generated.QuadkeyZoom_hZoom_min <= h <= Generated.QuadkeyZoom_hZoom_max ->
  0 <= x < 2 ^ h -> 0 <= y < 2 ^ h -> decode (encode h x y) h = (x, y).
Proof.
  destruct gen_bounds as (E1 & E2 & _ & _). rewrite E1, E2. intros Hh. apply decode_encode. lia.
Qed.
(* innerID[i] of a [2]int64 *)
Definition inner_at (p : pair) (i : Z) : Z := nth (Z.to_nat i) [fst p; snd p] 0.
Lemma inner_at_generated p : inner_at p Generated.InnerIDQuadkeyIndex = fst p /\ inner_at p Generated.InnerIDAltitudekeyIndex = snd p.
Proof.
  pose proof (f_equal fst GenEqConstQuadkey.gen_InnerID_eq) as E1. pose proof (f_equal snd GenEqConstQuadkey.gen_InnerID_eq) as E2. cbn [fst snd] in E1, E2.
  rewrite E1, E2. split; reflexivity.
Qed.
(* altitude-key pairs, read with the exported index constants: innerID[InnerIDQuadkeyIndex] is the interleaved key of a zoom-changed tile,
   innerID[InnerIDAltitudekeyIndex] an altitude key of that ID's range *)
Theorem e2qa_spec_indexed es oq oa E O : qcheck oq oa = true -> Forall valid es ->
  (forall i, In i es -> is_ok (z2key (ef i) (ev i) oa E O) = true) ->
  exists gs, e2qa (map print_eid es) oq oa E O = Ok gs /\
    forall p, In p (List.concat (map g_pairs gs)) ->
      exists i x' y' mn mx, In i es /\ rel1 (eh i) (ex i) oq x' /\ rel1 (eh i) (ey i) oq y' /\
        inner_at p Generated.InnerIDQuadkeyIndex = interleave oq x' y' /\
        z2key (ef i) (ev i) oa E O = Ok (mn, mx) /\ mn <= inner_at p Generated.InnerIDAltitudekeyIndex <= mx.
Proof.
  intros Hq Hv Hz. destruct (e2qa_spec es oq oa E O Hq Hv Hz) as (gs & Eq & _ & _ & S). exists gs. split; [exact Eq|].
  intros [q k] Hp. apply S in Hp. destruct Hp as (i & x' & y' & mn & mx & A & B & C & D & F & G).
  destruct (inner_at_generated (q, k)) as (I1 & I2). rewrite I1, I2. cbn [fst snd]. exists i, x', y', mn, mx. tauto.
Qed.

(* ====================================================================================================== *)
(* int64: the claim "the theorems about the unbounded model transfer to the Go encoder for quadkey zooms <= 31, and not beyond" as theorems
   over the regenerated int64 kernels (SIDGen.Generated64: Go's wrap-around of + and *, the lost bits of <<, explicit). The loop structure
   around the kernels (`for cond { step }`, X loop then Y loop, both starting at i = 0) is written here by hand: `loop64` / `encode64`. *)
From SIDGen Require Generated64.
From SID Require Import I64.
From SID Require GenEq64Tac GenEq64Quadkey.

Section Loop64.
  Variables (cond64 : Z -> Z -> Z -> Z -> M bool) (step64 : Z -> Z -> Z -> Z -> M (Z * Z * Z)).
  (* `for ; cond(quadkey, i, t, hZoom); { (quadkey, i, t) = step(...) }` — at most `fuel` iterations *)
  Fixpoint loop64 (fuel : nat) (q i t h : Z) : M Z :=
    match fuel with
    | O => ret q
    | S f => bind (cond64 q i t h) (fun c =>
               if c then bind (step64 q i t h) (fun r => let '(q', i', t') := r in loop64 f q' i' t' h) else ret q)
    end.

  Variables (mul : Z) (condG : Z -> Z -> Z -> Z -> bool) (stepG : Z -> Z -> Z -> Z -> Z * Z * Z).
  Hypothesis Hm : mul = 1 \/ mul = 2.
  Hypothesis Hc : forall q i t h, cond64 q i t h = ret (condG q i t h).
  Hypothesis Hcond : forall q i t h, condG q i t h = (0 <? t) && (i <? h).
  Hypothesis Hs : forall q i t h, 0 <= i <= 30 -> 0 <= t < 2 ^ 63 -> 0 <= q <= 2 ^ 62 -> step64 q i t h = Some (stepG q i t h, true).
  Hypothesis Hv : forall q i t h, stepG q i t h = (q + Z.shiftl (Z.rem t 2 * mul) (i * 2), i + 1, Z.quot t 2).
  Hypothesis Hl : forall f i h t q, loopbits (S f) i h t mul q =
    if condG q i t h then let '(q', i', t') := stepG q i t h in loopbits f i' h t' mul q' else q.

  (* invariant 3 q <= C + mul (4^i - 1): the key so far never exceeds 2^61 while a step can still run (zoom <= 31) *)
  Lemma loop64_fits : forall fuel q i t h C, 0 <= i -> Z.of_nat fuel = h - i -> h <= 31 -> 0 <= t < 2 ^ 63 -> 0 <= q ->
    0 <= C <= 4 ^ 31 - 1 -> 3 * q <= C + mul * (4 ^ i - 1) ->
    loop64 fuel q i t h = ret (loopbits fuel i h t mul q) /\
    0 <= loopbits fuel i h t mul q /\ 3 * loopbits fuel i h t mul q <= C + mul * (4 ^ h - 1).
  Proof.
    assert (E31 : 4 ^ 31 = 4611686018427387904) by reflexivity.
    assert (E30 : 4 ^ 30 = 1152921504606846976) by reflexivity.
    assert (E62 : 2 ^ 62 = 4611686018427387904) by reflexivity.
    assert (E63 : 2 ^ 63 = 9223372036854775808) by reflexivity.
    induction fuel as [|f IH]; intros q i t h C Hi Hf Hh Ht Hq HC Hinv.
    - cbn [loop64 loopbits]. replace h with i by lia. auto.
    - assert (Hih : i <= h) by lia.
      assert (Pi : 1 <= 4 ^ i) by (apply (Z.pow_le_mono_r 4 0 i); lia).
      assert (Ph : 4 ^ i <= 4 ^ h) by (apply Z.pow_le_mono_r; lia).
      cbn [loop64]. rewrite Hc, bind_ret_l, Hl, Hcond.
      destruct (Z.ltb_spec 0 t) as [Htp|Htz]; [destruct (Z.ltb_spec i h) as [Hlt|Hge]|]; cbn [andb].
      + assert (P30 : 4 ^ i <= 4 ^ 30) by (apply Z.pow_le_mono_r; lia).
        rewrite Hs by (destruct Hm; subst mul; lia). rewrite (bind_ok _ _ (stepG q i t h) eq_refl). rewrite Hv.
        pose proof (GenEq64Quadkey.rem2_bounds t ltac:(lia)) as Hr.
        assert (Hd : 0 <= Z.quot t 2 <= t) by (split; [apply Z.quot_pos; lia | apply Z.quot_le_upper_bound; lia]).
        assert (Es : Z.shiftl (Z.rem t 2 * mul) (i * 2) = Z.rem t 2 * mul * 4 ^ i) by (rewrite Z.shiftl_mul_pow2, pow4 by lia; reflexivity).
        assert (P1 : 4 ^ (i + 1) = 4 * 4 ^ i) by (rewrite Z.pow_add_r by lia; change (4 ^ 1) with 4; ring).
        assert (Hb : Z.rem t 2 = 0 \/ Z.rem t 2 = 1) by lia.
        apply IH; try lia; rewrite ?Es, ?P1; destruct Hb as [Hb | Hb]; rewrite ?Hb; destruct Hm; subst mul; lia.
      + split; [reflexivity|]. split; [exact Hq|]. destruct Hm; subst mul; lia.
      + split; [reflexivity|]. split; [exact Hq|]. destruct Hm; subst mul; lia.
  Qed.
End Loop64.

(* convertHorizontalIDToQuadkey after its string parsing, over the generated int64 kernels: the X loop, then the Y loop *)
Definition encode64 (h x y : Z) : M Z :=
  bind (loop64 Generated64.convertHorizontalIDToQuadkey_condX Generated64.convertHorizontalIDToQuadkey_stepX (Z.to_nat h) 0 0 x h)
       (fun q1 => loop64 Generated64.convertHorizontalIDToQuadkey_condY Generated64.convertHorizontalIDToQuadkey_stepY (Z.to_nat h) q1 0 y h).

Lemma condX_is q i t h : Generated.convertHorizontalIDToQuadkey_condX q i t h = (0 <? t) && (i <? h).
Proof. repeat autounfold with sidgen. now rewrite Z.gtb_ltb. Qed.
Lemma condY_is q i t h : Generated.convertHorizontalIDToQuadkey_condY q i t h = (0 <? t) && (i <? h).
Proof. repeat autounfold with sidgen. now rewrite Z.gtb_ltb. Qed.
Lemma stepX_is q i t h : Generated.convertHorizontalIDToQuadkey_stepX q i t h = (q + Z.shiftl (Z.rem t 2 * 1) (i * 2), i + 1, Z.quot t 2).
Proof. repeat autounfold with sidgen. cbv zeta. now rewrite Z.mul_1_r. Qed.
Lemma stepY_is q i t h : Generated.convertHorizontalIDToQuadkey_stepY q i t h = (q + Z.shiftl (Z.rem t 2 * 2) (i * 2), i + 1, Z.quot t 2).
Proof. repeat autounfold with sidgen. cbv zeta. reflexivity. Qed.

(* for every quadkey zoom 0..31 and all non-negative int64 indices (inside the grid or not) the int64 computation never leaves the range and
   returns the unbounded model's key: on this domain "int64 = Z" is a theorem about the regenerated kernels, not an assumption *)
Theorem encode64_fits h x y : 0 <= h <= 31 -> 0 <= x < 2 ^ 63 -> 0 <= y < 2 ^ 63 -> encode64 h x y = Some (encode h x y, true).
Proof.
  intros Hh Hx Hy. unfold encode64, encode.
  destruct (loop64_fits _ _ 1 _ _ (or_introl eq_refl) GenEq64Quadkey.gen64_convertHorizontalIDToQuadkey_condX_eq condX_is
              GenEq64Quadkey.gen64_convertHorizontalIDToQuadkey_stepX_fits stepX_is GenEq64Quadkey.loopbits_over_generated_stepX
              (Z.to_nat h) 0 0 x h 0) as (E1 & P1 & B1); try lia.
  all: try (assert (4 ^ 31 = 4611686018427387904) by reflexivity; change (4 ^ 0) with 1; lia).
  rewrite E1, bind_ret_l. set (q1 := loopbits (Z.to_nat h) 0 h x 1 0) in *.
  assert (P31 : 4 ^ h <= 4 ^ 31) by (apply Z.pow_le_mono_r; lia).
  destruct (loop64_fits _ _ 2 _ _ (or_intror eq_refl) GenEq64Quadkey.gen64_convertHorizontalIDToQuadkey_condY_eq condY_is
              GenEq64Quadkey.gen64_convertHorizontalIDToQuadkey_stepY_fits stepY_is GenEq64Quadkey.loopbits_over_generated_stepY
              (Z.to_nat h) q1 0 y h (4 ^ h - 1)) as (E2 & _ & _); try lia.
  all: try (assert (1 <= 4 ^ h) by (apply (Z.pow_le_mono_r 4 0 h); lia); change (4 ^ 0) with 1; lia).
  exact E2.
Qed.
(* hence, for the tiles of the property's quantifier, Go's int64 result is the interleaving *)
Theorem encode64_is_interleaving h x y : 1 <= h <= 31 -> 0 <= x < 2 ^ h -> 0 <= y < 2 ^ h ->
  fits (encode64 h x y) = true /\ go_value (encode64 h x y) = Some (interleave h x y).
Proof.
  intros Hh Hx Hy.
  assert (P : 2 ^ h <= 2 ^ 31) by (apply Z.pow_le_mono_r; lia). assert (E : 2 ^ 31 < 2 ^ 63) by reflexivity.
  rewrite encode64_fits by lia. cbn [fits go_value]. rewrite encode_interleave by lia. auto.
Qed.
(* and not beyond: at zoom 32 the tile (0, 2^31) — the first zoom whose y bit reaches level 31 — makes the generated Y step shift a bit out of
   the range: Go's key is MinInt64 and flagged inexact, the unbounded model's is 2^63 *)
Theorem encode64_wraps_at_zoom_32 :
  encode64 32 0 (2 ^ 31) = Some (- 2 ^ 63, false) /\ encode 32 0 (2 ^ 31) = 2 ^ 63 /\
  Generated64.convertHorizontalIDToQuadkey_stepY 0 31 1 32 = Some ((- 2 ^ 63, 32, 0), false).
Proof. split; [vm_compute; reflexivity|]. split; [vm_compute; reflexivity|]. exact (proj1 GenEq64Quadkey.stepY_wraps_at_zoom_32). Qed.
(* whenever an int64 step reports no overflow it is the unbounded step (bridge lemmas of the translator) *)
Theorem step64_exact : forall q i t h r,
  (Generated64.convertHorizontalIDToQuadkey_stepX q i t h = Some (r, true) -> r = Generated.convertHorizontalIDToQuadkey_stepX q i t h) /\
  (Generated64.convertHorizontalIDToQuadkey_stepY q i t h = Some (r, true) -> r = Generated.convertHorizontalIDToQuadkey_stepY q i t h).
Proof.
  intros. split; [apply GenEq64Quadkey.gen64_convertHorizontalIDToQuadkey_stepX_exact | apply GenEq64Quadkey.gen64_convertHorizontalIDToQuadkey_stepY_exact].
Qed.
(* the zoom check in int64 mode: no arithmetic, never inexact, and it is the model's window *)
Theorem qcheck64 h v : Generated64.quadkeyCheckZoom h v = ret (qcheck h v).
Proof.
  rewrite GenEq64Tac.gen64_quadkeyCheckZoom_eq, GenEqCheck.gen_quadkeyCheckZoom_eq. unfold qcheck, Ids.check_zoom.
  now rewrite !andb_assoc.
Qed.
