(* GenC11.v — property C11: the statements that cite the regenerated constants (bounds of transform.quadkeyCheckZoom, consts.InnerID*Index).
   An edit of those bounds / indices in /repo breaks GenEqCheck.gen_QuadkeyZoom_eq / GenEqConstQuadkey.gen_InnerID_eq and therefore this file.
   NOT imported by DC11.v / Dispatch.v (the extracted model must not depend on SIDGen); only properties/C11.v imports it. *)
From Coq Require Import ZArith Lia List Bool.
From SID Require Import Base Ids AltKeyCore Quadkey QuadkeyConv QuadkeyObj.
From SIDGen Require Generated.
From SID Require GenEqCheck GenEqConstQuadkey.
Import ListNotations.
Open Scope Z_scope.

(* ---------- statements that cite the regenerated constants ---------- *)
(* the zoom window of the quadkey conversions is the pair of bounds read from the source of transform.quadkeyCheckZoom *)
Lemma gen_bounds : Generated.QuadkeyZoom_hZoom_min = 1 /\ Generated.QuadkeyZoom_hZoom_max = 31 /\
                   Generated.QuadkeyZoom_vZoom_min = 0 /\ Generated.QuadkeyZoom_vZoom_max = 35.
Proof.
  pose proof GenEqCheck.gen_QuadkeyZoom_eq as E.
  pose proof (f_equal (fun t => fst (fst (fst t))) E) as E1. pose proof (f_equal (fun t => snd (fst (fst t))) E) as E2.
  pose proof (f_equal (fun t => snd (fst t)) E) as E3. pose proof (f_equal snd E) as E4. cbn [fst snd] in E1, E2, E3, E4. auto.
Qed.
Theorem qcheck_generated h v :
  qcheck h v = (Generated.QuadkeyZoom_hZoom_min <=? h) && (h <=? Generated.QuadkeyZoom_hZoom_max) &&
               (Generated.QuadkeyZoom_vZoom_min <=? v) && (v <=? Generated.QuadkeyZoom_vZoom_max).
Proof. destruct gen_bounds as (E1 & E2 & E3 & E4). rewrite E1, E2, E3, E4. reflexivity. Qed.
(* the round trip of the keys on exactly the horizontal zooms the source accepts *)
Theorem decode_encode_generated h x y : Generated.QuadkeyZoom_hZoom_min <= h <= Generated.QuadkeyZoom_hZoom_max ->
  0 <= x < 2 ^ h -> 0 <= y < 2 ^ h -> decode (encode h x y) h = (x, y).
Proof.
  destruct gen_bounds as (E1 & E2 & _ & _). rewrite E1, E2. intros Hh. apply decode_encode. lia.
Qed.
(* innerID[i] of a [2]int64 *)
Definition inner_at (p : pair) (i : Z) : Z := nth (Z.to_nat i) [fst p; snd p] 0.
Lemma inner_at_generated p : inner_at p Generated.InnerIDQuadkeyIndex = fst p /\ inner_at p Generated.InnerIDAltitudekeyIndex = snd p.
Proof.
  pose proof (f_equal fst GenEqConstQuadkey.gen_InnerID_eq) as E1. pose proof (f_equal snd GenEqConstQuadkey.gen_InnerID_eq) as E2. cbn [fst snd] in E1, E2.
  rewrite E1, E2. split; reflexivity.
Qed.
(* altitude-key pairs, read with the exported index constants: innerID[InnerIDQuadkeyIndex] is the interleaved key of a zoom-changed tile,
   innerID[InnerIDAltitudekeyIndex] an altitude key of that ID's range *)
Theorem e2qa_spec_indexed es oq oa E O : qcheck oq oa = true -> Forall valid es ->
  (forall i, In i es -> is_ok (z2key (ef i) (ev i) oa E O) = true) ->
  exists gs, e2qa (map print_eid es) oq oa E O = Ok gs /\
    forall p, In p (List.concat (map g_pairs gs)) ->
      exists i x' y' mn mx, In i es /\ rel1 (eh i) (ex i) oq x' /\ rel1 (eh i) (ey i) oq y' /\
        inner_at p Generated.InnerIDQuadkeyIndex = interleave oq x' y' /\
        z2key (ef i) (ev i) oa E O = Ok (mn, mx) /\ mn <= inner_at p Generated.InnerIDAltitudekeyIndex <= mx.
Proof.
  intros Hq Hv Hz. destruct (e2qa_spec es oq oa E O Hq Hv Hz) as (gs & Eq & _ & _ & S). exists gs. split; [exact Eq|].
  intros [q k] Hp. apply S in Hp. destruct Hp as (i & x' & y' & mn & mx & A & B & C & D & F & G).
  destruct (inner_at_generated (q, k)) as (I1 & I2). rewrite I1, I2. cbn [fst snd]. exists i, x', y', mn, mx. tauto.
Qed.
