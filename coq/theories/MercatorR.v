(* MercatorR.v — C02 / real side: the Mercator row function of shape/point.go and the inverse used for voxel corners,
   over the real numbers. mfrac (mlat t) = t for every t; mlat (mfrac phi) = phi on (-pi/2, pi/2); both strictly decreasing;
   hence in exact arithmetic every latitude between the two edges of a row — in particular the midpoint — maps back to that row. *)
From Coq Require Import Reals Lra Psatz ZArith Lia.
From Flocq Require Import Core.
Open Scope R_scope.

(* Mercator fraction of a latitude (radians): getHorizontalTileIdOnPoint computes floor (2^h * mfrac (lat * pi/180)) *)
Definition mfrac (phi : R) : R := (1 - ln (tan phi + 1 / cos phi) / PI) / 2.
(* latitude (radians) of the Mercator fraction t: getVertexOnVoxelOffset computes mlat (k / 2^h) * 180/pi *)
Definition mlat (t : R) : R := atan (sinh (PI * (1 - 2 * t))).

Lemma cosh_pos x : 0 < cosh x.
Proof. unfold cosh. pose proof (exp_pos x). pose proof (exp_pos (- x)). lra. Qed.

Lemma sinh_plus_cosh x : sinh x + cosh x = exp x.
Proof. unfold sinh, cosh. lra. Qed.

Lemma sqrt_1_sinh2 x : sqrt (1 + (sinh x)²) = cosh x.
Proof.
  replace (1 + (sinh x)²) with ((cosh x)²).
  - apply sqrt_Rsqr. left. apply cosh_pos.
  - unfold Rsqr, cosh, sinh. pose proof (exp_plus x (- x)) as E. rewrite Rplus_opp_r, exp_0 in E. nra.
Qed.

Theorem mfrac_mlat t : mfrac (mlat t) = t.
Proof.
  unfold mfrac, mlat. set (u := PI * (1 - 2 * t)).
  rewrite atan_right_inv.
  rewrite cos_atan.
  replace (1 / (1 / sqrt (1 + (sinh u)²))) with (sqrt (1 + (sinh u)²)).
  2:{ rewrite sqrt_1_sinh2. pose proof (cosh_pos u). field. lra. }
  rewrite sqrt_1_sinh2, sinh_plus_cosh, ln_exp.
  unfold u. pose proof PI_RGT_0. field. lra.
Qed.

Lemma sec_plus_tan_pos phi : - (PI / 2) < phi < PI / 2 -> 0 < tan phi + 1 / cos phi.
Proof.
  intros H. pose proof (cos_gt_0 phi ltac:(lra) ltac:(lra)) as Hc.
  unfold tan. replace (sin phi / cos phi + 1 / cos phi) with ((1 + sin phi) / cos phi) by (field; lra).
  apply Rdiv_lt_0_compat; [|exact Hc].
  pose proof (SIN_bound phi) as [Hs _].
  destruct (Req_dec (sin phi) (-1)) as [E|N]; [|lra].
  exfalso. pose proof (sin2_cos2 phi) as S. unfold Rsqr in S. rewrite E in S. nra.
Qed.

Theorem mlat_mfrac phi : - (PI / 2) < phi < PI / 2 -> mlat (mfrac phi) = phi.
Proof.
  intros H. unfold mlat, mfrac.
  pose proof PI_RGT_0 as Hpi.
  pose proof (cos_gt_0 phi ltac:(lra) ltac:(lra)) as Hc.
  pose proof (sec_plus_tan_pos phi H) as Hp.
  set (g := tan phi + 1 / cos phi) in *.
  replace (PI * (1 - 2 * ((1 - ln g / PI) / 2))) with (ln g) by (field; lra).
  assert (S : sinh (ln g) = tan phi).
  { unfold sinh. rewrite exp_Ropp, exp_ln by exact Hp.
    assert (I : / g = 1 / cos phi - tan phi).
    { apply Rmult_eq_reg_l with g; [|lra]. rewrite Rinv_r by lra. unfold g.
      unfold tan. pose proof (sin2_cos2 phi) as SC. unfold Rsqr in SC.
      symmetry. transitivity ((1 - sin phi * sin phi) / (cos phi * cos phi)); [field; lra|].
      replace (1 - sin phi * sin phi) with (cos phi * cos phi) by lra. field. lra. }
    rewrite I. unfold g. lra. }
  rewrite S. apply atan_tan. exact H.
Qed.

(* ---- monotonicity ---- *)
Lemma sinh_increasing x y : x < y -> sinh x < sinh y.
Proof.
  intros H. unfold sinh. pose proof (exp_increasing x y H). pose proof (exp_increasing (- y) (- x) ltac:(lra)). lra.
Qed.

Theorem mlat_decreasing t1 t2 : t1 < t2 -> mlat t2 < mlat t1.
Proof.
  intros H. unfold mlat. apply atan_increasing. apply sinh_increasing. pose proof PI_RGT_0. nra.
Qed.

Lemma mlat_range t : - (PI / 2) < mlat t < PI / 2.
Proof. unfold mlat. pose proof (atan_bound (sinh (PI * (1 - 2 * t)))). lra. Qed.

Theorem mfrac_decreasing p1 p2 : - (PI / 2) < p1 -> p1 < p2 -> p2 < PI / 2 -> mfrac p2 < mfrac p1.
Proof.
  intros H1 H H2. apply Rnot_le_lt. intros C.
  assert (Q : mlat (mfrac p2) <= mlat (mfrac p1)).
  { destruct C as [C|C]; [left; now apply mlat_decreasing | right; now rewrite C]. }
  rewrite !mlat_mfrac in Q by lra. lra.
Qed.

(* ---- rows ---- *)
Open Scope Z_scope.
(* row of a latitude at zoom h, and the latitude of row boundary k (k = 0 is the northern limit) *)
Definition row (h : Z) (phi : R) : Z := Zfloor (IZR (2 ^ h) * mfrac phi).
Definition rowedge (h k : Z) : R := mlat (IZR k / IZR (2 ^ h)).

Lemma pow2R_gt0 h : 0 <= h -> (0 < IZR (2 ^ h))%R.
Proof. intros H. apply IZR_lt. apply Z.pow_pos_nonneg; lia. Qed.

Theorem rowedge_decreasing h k k' : 0 <= h -> k < k' -> (rowedge h k' < rowedge h k)%R.
Proof.
  intros Hh Hk. unfold rowedge. apply mlat_decreasing. pose proof (pow2R_gt0 h Hh). apply IZR_lt in Hk.
  unfold Rdiv. apply Rmult_lt_compat_r; [apply Rinv_0_lt_compat; assumption | assumption].
Qed.

(* a latitude lies in row y exactly when it lies between the row's edges (northern edge included) *)
Theorem row_iff_between h y phi : 0 <= h -> (- (PI / 2) < phi < PI / 2)%R ->
  row h phi = y <-> (rowedge h (y + 1) < phi <= rowedge h y)%R.
Proof.
  intros Hh Hphi. pose proof (pow2R_gt0 h Hh) as Hp. unfold row, rowedge.
  assert (F : forall k, (IZR k <= IZR (2 ^ h) * mfrac phi <-> phi <= mlat (IZR k / IZR (2 ^ h)))%R).
  { intros k. split; intros H.
    - assert (Q : (IZR k / IZR (2 ^ h) <= mfrac phi)%R).
      { apply Rmult_le_reg_r with (IZR (2 ^ h)); [assumption|]. unfold Rdiv. rewrite Rmult_assoc, Rinv_l by lra. lra. }
      rewrite <- (mlat_mfrac phi Hphi) at 1.
      destruct Q as [Q|Q]; [left; now apply mlat_decreasing | right; now rewrite Q].
    - apply Rnot_lt_le. intros C.
      assert (Q : (mfrac phi < IZR k / IZR (2 ^ h))%R).
      { apply Rmult_lt_reg_r with (IZR (2 ^ h)); [assumption|]. unfold Rdiv. rewrite Rmult_assoc, Rinv_l by lra. lra. }
      apply mlat_decreasing in Q. rewrite (mlat_mfrac phi Hphi) in Q. lra. }
  split.
  - intros <-. pose proof (Zfloor_lb (IZR (2 ^ h) * mfrac phi)) as Lb. pose proof (Zfloor_ub (IZR (2 ^ h) * mfrac phi)) as Ub.
    rewrite <- plus_IZR in Ub. split; [|now apply F]. apply Rnot_le_lt. intros C. apply F in C. lra.
  - intros [A B]. apply Zfloor_imp. split; [now apply F|]. apply Rnot_le_lt. intros C. apply F in C. lra.
Qed.

(* (5) in exact arithmetic the midpoint latitude of a row maps back to that row *)
Theorem row_of_midpoint h y : 0 <= h -> row h ((rowedge h y + rowedge h (y + 1)) / 2) = y.
Proof.
  intros Hh. pose proof (rowedge_decreasing h y (y + 1) Hh ltac:(lia)) as D.
  pose proof (mlat_range (IZR y / IZR (2 ^ h))) as R1. pose proof (mlat_range (IZR (y + 1) / IZR (2 ^ h))) as R2.
  fold (rowedge h y) in R1. fold (rowedge h (y + 1)) in R2.
  apply row_iff_between; [exact Hh | lra | lra].
Qed.

(* rows tile the latitude axis: every latitude whose Mercator fraction is in [0,1) lies in exactly one row of 0 .. 2^h-1 *)
Theorem lat_tiling h phi : 0 <= h -> (- (PI / 2) < phi < PI / 2)%R -> (0 <= mfrac phi < 1)%R ->
  exists! y, 0 <= y < 2 ^ h /\ (rowedge h (y + 1) < phi <= rowedge h y)%R.
Proof.
  intros Hh Hphi Hm. pose proof (pow2R_gt0 h Hh) as Hp. exists (row h phi). split.
  - split; [|now apply row_iff_between].
    unfold row. split.
    + apply Zfloor_lub. cbn. nra.
    + apply Z.lt_le_trans with (Zfloor (IZR (2 ^ h) * mfrac phi) + 1); [lia|].
      assert (Q : (IZR (2 ^ h) * mfrac phi < IZR (2 ^ h))%R) by nra.
      apply Z.le_succ_l. apply lt_IZR. apply Rle_lt_trans with (2 := Q). apply Zfloor_lb.
  - intros y' [_ B]. apply (row_iff_between h y' phi Hh Hphi). exact B.
Qed.
