From Coq Require Import ZArith String Ascii List Bool Lia DecimalString DecimalZ Decimal DecimalFacts.
Import ListNotations.
Open Scope string_scope.

(* ---- strings.Split(s, "/") and strings.Join(l, "/") ---- *)
Definition slash : ascii := "/"%char.
Fixpoint split (s : string) : list string :=
  match s with
  | EmptyString => [EmptyString]
  | String c r =>
      if Ascii.eqb c slash then EmptyString :: split r
      else match split r with
           | h :: t => String c h :: t
           | [] => [String c EmptyString]
           end
  end.
Fixpoint join (l : list string) : string :=
  match l with
  | [] => EmptyString
  | [a] => a
  | a :: r => a ++ String slash (join r)
  end.
Fixpoint noslash (s : string) : bool :=
  match s with EmptyString => true | String c r => negb (Ascii.eqb c slash) && noslash r end.

Lemma split_nonempty s : split s <> [].
Proof. destruct s as [|c r]; cbn; [discriminate|]. destruct (Ascii.eqb c slash); [discriminate|]. destruct (split r); discriminate. Qed.

Lemma split_app_slash a r : noslash a = true -> split (a ++ String slash r) = a :: split r.
Proof.
  induction a as [|c a IH]; cbn; intros H.
  - reflexivity.
  - apply andb_true_iff in H. destruct H as [Hc Ha]. apply negb_true_iff in Hc. rewrite Hc.
    rewrite (IH Ha). reflexivity.
Qed.
Lemma split_noslash a : noslash a = true -> split a = [a].
Proof.
  induction a as [|c a IH]; cbn; intros H; [reflexivity|].
  apply andb_true_iff in H. destruct H as [Hc Ha]. apply negb_true_iff in Hc. rewrite Hc, (IH Ha). reflexivity.
Qed.

Theorem split_join l : l <> [] -> forallb noslash l = true -> split (join l) = l.
Proof.
  induction l as [|a r IH]; intros Hne Hall; [congruence|].
  cbn in Hall. apply andb_true_iff in Hall. destruct Hall as [Ha Hr].
  destruct r as [|b r'].
  - cbn. now apply split_noslash.
  - cbn [join]. rewrite split_app_slash by exact Ha. f_equal. apply IH; [discriminate|exact Hr].
Qed.

(* ---- strconv.FormatInt(z, 10) and strconv.ParseInt(s, 10, 64) ---- *)
Definition print (z : Z) : string := NilZero.string_of_int (Z.to_int z).
Definition int64_ok (z : Z) : bool := (- 2 ^ 63 <=? z)%Z && (z <? 2 ^ 63)%Z.
Definition parse (s : string) : option Z :=
  let body := match s with String "+"%char r => match r with String "-"%char _ | String "+"%char _ => EmptyString | _ => r end | _ => s end in
  match NilZero.int_of_string body with
  | Some d => let z := Z.of_int d in if int64_ok z then Some z else None
  | None => None
  end.


Lemma to_int_not_nil z : Z.to_int z <> Pos Nil /\ Z.to_int z <> Neg Nil.
Proof.
  destruct z as [|p|p]; cbn; split; try discriminate; intros [= H];
    (apply (f_equal Pos.of_uint) in H; rewrite DecimalPos.Unsigned.of_to in H; cbn in H; discriminate).
Qed.

Lemma print_head z : match print z with String "+"%char _ => False | _ => True end.
Proof.
  unfold print. destruct (Z.to_int z) as [u|u]; cbn.
  - destruct u; cbn; exact I.
  - exact I.
Qed.

Theorem parse_print z : int64_ok z = true -> parse (print z) = Some z.
Proof.
  intros Hz. unfold parse.
  assert (B : match print z with String "+"%char r => match r with String "-"%char _ | String "+"%char _ => EmptyString | _ => r end | _ => print z end = print z).
  { pose proof (print_head z) as H. destruct (print z) as [|c r]; [reflexivity|].
    destruct c as [[] [] [] [] [] [] [] []]; try reflexivity. contradiction. }
  rewrite B. unfold print. destruct (to_int_not_nil z) as [N1 N2].
  rewrite NilZero.isi by assumption. rewrite DecimalZ.of_to, Hz. reflexivity.
Qed.

(* ---- a total order on strings, for canonical (sorted) comparison of ID sets ---- *)
From Coq Require Import Sorting.Mergesort Orders.
Fixpoint str_leb (a b : string) : bool :=
  match a, b with
  | EmptyString, _ => true
  | String _ _, EmptyString => false
  | String c a', String d b' =>
      let n := nat_of_ascii c in let m := nat_of_ascii d in
      if Nat.ltb n m then true else if Nat.ltb m n then false else str_leb a' b'
  end.
Module StrOrder <: TotalLeBool.
  Definition t := string.
  Definition leb := str_leb.
  Theorem leb_total : forall a b, leb a b = true \/ leb b a = true.
  Proof.
    unfold leb. induction a as [|c a IH]; destruct b as [|d b]; cbn [str_leb]; auto.
    destruct (Nat.ltb_spec (nat_of_ascii c) (nat_of_ascii d)) as [H1|H1]; auto.
    destruct (Nat.ltb_spec (nat_of_ascii d) (nat_of_ascii c)) as [H2|H2]; auto.
  Qed.
End StrOrder.
Module StrSort := Sort StrOrder.
Definition sort_strings (l : list string) : list string := StrSort.sort l.
Lemma sort_strings_perm l : Permutation.Permutation (sort_strings l) l.
Proof. symmetry. apply StrSort.Permuted_sort. Qed.

Fixpoint list_eqb {A} (eqb : A -> A -> bool) (a b : list A) : bool :=
  match a, b with
  | [], [] => true
  | x :: a', y :: b' => eqb x y && list_eqb eqb a' b'
  | _, _ => false
  end.
Lemma list_eqb_spec {A} (eqb : A -> A -> bool) (H : forall a b, reflect (a = b) (eqb a b)) a b :
  reflect (a = b) (list_eqb eqb a b).
Proof.
  revert b. induction a as [|x a IH]; destruct b as [|y b]; cbn; try (constructor; congruence).
  destruct (H x y); cbn; [|constructor; congruence].
  destruct (IH b); constructor; congruence.
Qed.
(* adjacent-duplicate removal on a sorted list: canonical set representation *)
Fixpoint dedup_sorted (l : list string) : list string :=
  match l with
  | a :: (b :: _) as r => if String.eqb a b then dedup_sorted r else a :: dedup_sorted r
  | _ => l
  end.
Definition canon (l : list string) : list string := dedup_sorted (sort_strings l).
Definition same_set (a b : list string) : bool := list_eqb String.eqb (canon a) (canon b).
Definition same_list (a b : list string) : bool := list_eqb String.eqb a b.
(* no string occurs twice *)
Definition nodup_strings (l : list string) : bool :=
  Nat.eqb (length (canon l)) (length l).
