(* FloatId.v — identities of the binary64 helpers that hold for ALL finite floats (no integrality, no magnitude restriction beyond
   "no overflow"), proved through Flocq on Coq's primitive floats:
   Line3.ToPoint(0) = Start = the start point; the unit matrix is neutral for Mul on both sides and for MulVec (as real values:
   a -0 entry may come back as +0); and the error bound for ToPoint(1) / End:
   | ToPoint(1) - q | <= 2^-51 (|p| + |q|) per coordinate — the end point is reached up to two roundings, relative to |p|+|q|, NOT
   relative to |q| (for |q| << |p| the relative error with respect to q is large: p=(1e6,..), q=(1e-3,..) gives 4.7e-8). *)
From Coq Require Import ZArith Reals Lia Lra Psatz Floats List Bool.
From Flocq Require Import Core BinarySingleNaN Plus_error Relative.
From Flocq Require PrimFloat.
From SID Require Import Base F64 VecF VecExact OrdMax PointLaws.
Open Scope R_scope.

#[local] Instance Hprec : Prec_gt_0 FloatOps.prec := eq_refl _.
#[local] Instance Hmax : Prec_lt_emax FloatOps.prec FloatOps.emax := eq_refl _.
Notation rnd := (round radix2 (SpecFloat.fexp FloatOps.prec FloatOps.emax) ZnearestE).
Notation fmtF := (generic_format radix2 (SpecFloat.fexp FloatOps.prec FloatOps.emax)).
Notation emaxR := (bpow radix2 FloatOps.emax).

(* the float x is finite and has the real value r *)
Definition val (x : pfloat) (r : R) : Prop := fin x /\ rv x = r.
Lemma val_rv x : fin x -> val x (rv x).
Proof. intros H. split; [exact H|reflexivity]. Qed.
Lemma fin_lt x : Rabs (rv x) < emaxR.
Proof. apply abs_B2R_lt_emax. Qed.
Lemma fmt_rv x : fmtF (rv x).
Proof. apply generic_format_B2R. Qed.

Lemma add_real x y : fin x -> fin y -> Rabs (rnd (rv x + rv y)) < emaxR ->
  rv (x + y)%float = rnd (rv x + rv y) /\ fin (x + y)%float.
Proof.
  intros Fx Fy Ho.
  assert (E : P2B (x + y)%float = @Bplus _ _ Hprec Hmax mode_NE (P2B x) (P2B y)) by exact (PrimFloat.add_equiv x y).
  pose proof (Bplus_correct _ _ Hprec Hmax mode_NE (P2B x) (P2B y) Fx Fy) as H.
  cbn [round_mode] in H. fold (rv x) (rv y) in H. rewrite Rlt_bool_true in H by exact Ho.
  destruct H as (H1 & H2 & _). unfold rv, fin. now rewrite E.
Qed.
Lemma V_mul x y a b : val x a -> val y b -> fmtF (a * b) -> Rabs (a * b) < emaxR -> val (x * y)%float (a * b).
Proof.
  intros [Fx Vx] [Fy Vy] G B. subst a b.
  assert (R : rnd (rv x * rv y) = rv x * rv y) by (apply round_generic; [typeclasses eauto|exact G]).
  destruct (mul_real x y Fx Fy) as [V F]; [now rewrite R|]. split; [exact F|now rewrite V].
Qed.
Lemma V_add x y a b : val x a -> val y b -> fmtF (a + b) -> Rabs (a + b) < emaxR -> val (x + y)%float (a + b).
Proof.
  intros [Fx Vx] [Fy Vy] G B. subst a b.
  assert (R : rnd (rv x + rv y) = rv x + rv y) by (apply round_generic; [typeclasses eauto|exact G]).
  destruct (add_real x y Fx Fy) as [V F]; [now rewrite R|]. split; [exact F|now rewrite V].
Qed.
Lemma val_1 : val 1%float 1.
Proof.
  split; [unfold fin; rewrite is_finite_Prim2B; reflexivity|].
  rewrite rv_SF. replace (Prim2SF 1%float) with (S754_finite false 4503599627370496 (-52)) by (vm_compute; reflexivity).
  unfold SF2R, F2R; cbn. lra.
Qed.
Lemma val_0 : val 0%float 0.
Proof.
  split; [unfold fin; rewrite is_finite_Prim2B; reflexivity|].
  rewrite rv_SF. replace (Prim2SF 0%float) with (S754_zero false) by (vm_compute; reflexivity). reflexivity.
Qed.
Lemma fmt_0 : fmtF 0.
Proof. apply generic_format_0. Qed.
Lemma lt_0_emax : Rabs 0 < emaxR.
Proof. rewrite Rabs_R0. apply bpow_gt_0. Qed.

(* x1*y1 + x2*y2 + x3*y3 when every product and partial sum is representable: no rounding *)
Lemma dot3_exact x1 x2 x3 y1 y2 y3 a1 a2 a3 b1 b2 b3 :
  val x1 a1 -> val x2 a2 -> val x3 a3 -> val y1 b1 -> val y2 b2 -> val y3 b3 ->
  fmtF (a1 * b1) -> fmtF (a2 * b2) -> fmtF (a3 * b3) -> fmtF (a1 * b1 + a2 * b2) -> fmtF (a1 * b1 + a2 * b2 + a3 * b3) ->
  Rabs (a1 * b1) < emaxR -> Rabs (a2 * b2) < emaxR -> Rabs (a3 * b3) < emaxR -> Rabs (a1 * b1 + a2 * b2) < emaxR ->
  Rabs (a1 * b1 + a2 * b2 + a3 * b3) < emaxR ->
  val (x1 * y1 + x2 * y2 + x3 * y3)%float (a1 * b1 + a2 * b2 + a3 * b3).
Proof.
  intros X1 X2 X3 Y1 Y2 Y3 G1 G2 G3 G12 G123 B1 B2 B3 B12 B123.
  apply V_add; [apply V_add; [apply V_mul|apply V_mul| |]|apply V_mul| |]; assumption.
Qed.
(* one factor triple is a unit vector of the standard basis: the sum selects the matching entry of the other triple *)
Ltac sel_side := repeat match goal with
  | |- fmtF ?e => first [ replace e with 0 by ring; apply fmt_0 | match goal with y : pfloat |- _ => replace e with (rv y) by ring; apply fmt_rv end ]
  | |- Rabs ?e < emaxR => first [ replace e with 0 by ring; apply lt_0_emax | match goal with y : pfloat |- _ => replace e with (rv y) by ring; apply fin_lt end ]
  end.
Lemma sel_l i1 i2 i3 y1 y2 y3 (k : nat) :
  (k = 0%nat /\ val i1 1 /\ val i2 0 /\ val i3 0 \/ k = 1%nat /\ val i1 0 /\ val i2 1 /\ val i3 0 \/ k = 2%nat /\ val i1 0 /\ val i2 0 /\ val i3 1) ->
  fin y1 -> fin y2 -> fin y3 ->
  val (i1 * y1 + i2 * y2 + i3 * y3)%float (rv (match k with 0%nat => y1 | 1%nat => y2 | _ => y3 end)).
Proof.
  intros H F1 F2 F3. apply val_rv in F1, F2, F3.
  destruct H as [(-> & A & B & C)|[(-> & A & B & C)|(-> & A & B & C)]].
  - replace (rv y1) with (1 * rv y1 + 0 * rv y2 + 0 * rv y3) by ring.
    apply dot3_exact; try assumption;
      try (replace (1 * rv y1) with (rv y1) by ring); try (replace (0 * rv y2) with 0 by ring); try (replace (0 * rv y3) with 0 by ring);
      try (replace (rv y1 + 0) with (rv y1) by ring); try (replace (rv y1 + 0) with (rv y1) by ring);
      first [apply fmt_rv | apply fmt_0 | apply fin_lt | apply lt_0_emax].
  - replace (rv y2) with (0 * rv y1 + 1 * rv y2 + 0 * rv y3) by ring.
    apply dot3_exact; try assumption;
      try (replace (0 * rv y1) with 0 by ring); try (replace (1 * rv y2) with (rv y2) by ring); try (replace (0 * rv y3) with 0 by ring);
      try (replace (0 + rv y2) with (rv y2) by ring); try (replace (rv y2 + 0) with (rv y2) by ring);
      first [apply fmt_rv | apply fmt_0 | apply fin_lt | apply lt_0_emax].
  - replace (rv y3) with (0 * rv y1 + 0 * rv y2 + 1 * rv y3) by ring.
    apply dot3_exact; try assumption;
      try (replace (0 * rv y1) with 0 by ring); try (replace (0 * rv y2) with 0 by ring); try (replace (1 * rv y3) with (rv y3) by ring);
      try (replace (0 + 0) with 0 by ring); try (replace (0 + rv y3) with (rv y3) by ring);
      first [apply fmt_rv | apply fmt_0 | apply fin_lt | apply lt_0_emax].
Qed.
Lemma sel_r i1 i2 i3 y1 y2 y3 (k : nat) :
  (k = 0%nat /\ val i1 1 /\ val i2 0 /\ val i3 0 \/ k = 1%nat /\ val i1 0 /\ val i2 1 /\ val i3 0 \/ k = 2%nat /\ val i1 0 /\ val i2 0 /\ val i3 1) ->
  fin y1 -> fin y2 -> fin y3 ->
  val (y1 * i1 + y2 * i2 + y3 * i3)%float (rv (match k with 0%nat => y1 | 1%nat => y2 | _ => y3 end)).
Proof.
  intros H F1 F2 F3. apply val_rv in F1, F2, F3.
  destruct H as [(-> & A & B & C)|[(-> & A & B & C)|(-> & A & B & C)]].
  - replace (rv y1) with (rv y1 * 1 + rv y2 * 0 + rv y3 * 0) by ring.
    apply dot3_exact; try assumption;
      try (replace (rv y1 * 1) with (rv y1) by ring); try (replace (rv y2 * 0) with 0 by ring); try (replace (rv y3 * 0) with 0 by ring);
      try (replace (rv y1 + 0) with (rv y1) by ring); try (replace (rv y1 + 0) with (rv y1) by ring);
      first [apply fmt_rv | apply fmt_0 | apply fin_lt | apply lt_0_emax].
  - replace (rv y2) with (rv y1 * 0 + rv y2 * 1 + rv y3 * 0) by ring.
    apply dot3_exact; try assumption;
      try (replace (rv y1 * 0) with 0 by ring); try (replace (rv y2 * 1) with (rv y2) by ring); try (replace (rv y3 * 0) with 0 by ring);
      try (replace (0 + rv y2) with (rv y2) by ring); try (replace (rv y2 + 0) with (rv y2) by ring);
      first [apply fmt_rv | apply fmt_0 | apply fin_lt | apply lt_0_emax].
  - replace (rv y3) with (rv y1 * 0 + rv y2 * 0 + rv y3 * 1) by ring.
    apply dot3_exact; try assumption;
      try (replace (rv y1 * 0) with 0 by ring); try (replace (rv y2 * 0) with 0 by ring); try (replace (rv y3 * 1) with (rv y3) by ring);
      try (replace (0 + 0) with 0 by ring); try (replace (0 + rv y3) with (rv y3) by ring);
      first [apply fmt_rv | apply fmt_0 | apply fin_lt | apply lt_0_emax].
Qed.

Definition finv (v : fvec) : Prop := fin (fx v) /\ fin (fy v) /\ fin (fz v).
Definition finm (a : fmat) : Prop :=
  fin (f00 a) /\ fin (f01 a) /\ fin (f02 a) /\ fin (f10 a) /\ fin (f11 a) /\ fin (f12 a) /\ fin (f20 a) /\ fin (f21 a) /\ fin (f22 a).
(* same real values, all finite *)
Definition veqR (u v : fvec) : Prop := val (fx u) (rv (fx v)) /\ val (fy u) (rv (fy v)) /\ val (fz u) (rv (fz v)).
Definition meqR (a b : fmat) : Prop :=
  val (f00 a) (rv (f00 b)) /\ val (f01 a) (rv (f01 b)) /\ val (f02 a) (rv (f02 b)) /\
  val (f10 a) (rv (f10 b)) /\ val (f11 a) (rv (f11 b)) /\ val (f12 a) (rv (f12 b)) /\
  val (f20 a) (rv (f20 b)) /\ val (f21 a) (rv (f21 b)) /\ val (f22 a) (rv (f22 b)).

Ltac k0 := left; repeat split; first [apply val_1 | apply val_0].
Ltac k1 := right; left; repeat split; first [apply val_1 | apply val_0].
Ltac k2 := right; right; repeat split; first [apply val_1 | apply val_0].

Theorem fmmul_unit_l a : finm a -> meqR (fmmul fmunit a) a.
Proof.
  intros (a00 & a01 & a02 & a10 & a11 & a12 & a20 & a21 & a22). unfold meqR, fmmul, fmunit; cbn [f00 f01 f02 f10 f11 f12 f20 f21 f22].
  split9.
  - apply (sel_l _ _ _ _ _ _ 0); [k0|assumption..].
  - apply (sel_l _ _ _ _ _ _ 0); [k0|assumption..].
  - apply (sel_l _ _ _ _ _ _ 0); [k0|assumption..].
  - apply (sel_l _ _ _ _ _ _ 1); [k1|assumption..].
  - apply (sel_l _ _ _ _ _ _ 1); [k1|assumption..].
  - apply (sel_l _ _ _ _ _ _ 1); [k1|assumption..].
  - apply (sel_l _ _ _ _ _ _ 2); [k2|assumption..].
  - apply (sel_l _ _ _ _ _ _ 2); [k2|assumption..].
  - apply (sel_l _ _ _ _ _ _ 2); [k2|assumption..].
Qed.
Theorem fmmul_unit_r a : finm a -> meqR (fmmul a fmunit) a.
Proof.
  intros (a00 & a01 & a02 & a10 & a11 & a12 & a20 & a21 & a22). unfold meqR, fmmul, fmunit; cbn [f00 f01 f02 f10 f11 f12 f20 f21 f22].
  split9.
  - apply (sel_r _ _ _ _ _ _ 0); [k0|assumption..].
  - apply (sel_r _ _ _ _ _ _ 1); [k1|assumption..].
  - apply (sel_r _ _ _ _ _ _ 2); [k2|assumption..].
  - apply (sel_r _ _ _ _ _ _ 0); [k0|assumption..].
  - apply (sel_r _ _ _ _ _ _ 1); [k1|assumption..].
  - apply (sel_r _ _ _ _ _ _ 2); [k2|assumption..].
  - apply (sel_r _ _ _ _ _ _ 0); [k0|assumption..].
  - apply (sel_r _ _ _ _ _ _ 1); [k1|assumption..].
  - apply (sel_r _ _ _ _ _ _ 2); [k2|assumption..].
Qed.
Theorem fmulvec_unit v : finv v -> veqR (fmulvec fmunit v) v.
Proof.
  intros (v1 & v2 & v3). unfold veqR, fmulvec, fmunit; cbn [fx fy fz f00 f01 f02 f10 f11 f12 f20 f21 f22].
  split3.
  - apply (sel_r _ _ _ _ _ _ 0); [k0|assumption..].
  - apply (sel_r _ _ _ _ _ _ 1); [k1|assumption..].
  - apply (sel_r _ _ _ _ _ _ 2); [k2|assumption..].
Qed.

(* ---- Line3 ---- *)
(* one coordinate of ToPoint(0): p + 0 * d *)
Lemma topoint0_coord p d : fin p -> fin d -> val (p + 0 * d)%float (rv p).
Proof.
  intros Fp Fd. replace (rv p) with (rv p + 0 * rv d) by ring.
  apply V_add; [now apply val_rv| | |].
  - apply V_mul; [apply val_0|now apply val_rv| |]; (replace (0 * rv d) with 0 by ring); [apply fmt_0|apply lt_0_emax].
  - replace (rv p + 0 * rv d) with (rv p) by ring. apply fmt_rv.
  - replace (rv p + 0 * rv d) with (rv p) by ring. apply fin_lt.
Qed.
Theorem fline_to_point_0 p d : finv p -> finv d -> veqR (fline_to_point p d 0) p.
Proof.
  intros (p1 & p2 & p3) (d1 & d2 & d3). unfold veqR, fline_to_point, ftranslate, fadd, fscale; cbn [fx fy fz].
  split3; now apply topoint0_coord.
Qed.

Definition u53 : R := / 2 * bpow radix2 (- 53 + 1).
Lemma u53_pos : 0 < u53 < 1.
Proof.
  unfold u53. assert (0 < bpow radix2 (-53 + 1) <= 1).
  { split; [apply bpow_gt_0|]. change 1 with (bpow radix2 0). apply bpow_le. lia. }
  lra.
Qed.
Lemma bpow51 : bpow radix2 (-51) = 4 * u53.
Proof.
  unfold u53. change (-51)%Z with (1 + (-53 + 1))%Z. rewrite bpow_plus. change (bpow radix2 1) with 2. field.
Qed.
(* rounding of a sum of two floats: relative error at most u = 2^-53, with no underflow proviso (small sums are exact) *)
Lemma add_rel x y : fmtF x -> fmtF y -> exists e, Rabs e <= u53 /\ rnd (x + y) = (x + y) * (1 + e).
Proof.
  intros Fx Fy.
  destruct (FLT_plus_error_N_ex radix2 (-1074) 53 (fun z => negb (Z.even z)) x y Fx Fy) as (e & He & E).
  exists e. split; [|exact E]. eapply Rle_trans; [exact He|].
  assert (EU : u_ro radix2 53 = u53) by reflexivity. rewrite EU. pose proof u53_pos as U.
  apply Rmult_le_reg_r with (1 + u53); [lra|]. unfold Rdiv. rewrite Rmult_assoc, Rinv_l by lra. nra.
Qed.
(* one coordinate of ToPoint(1) for the line from p to q: p + 1 * (q - p) *)
Lemma topoint1_coord p q : fin p -> fin q ->
  Rabs (rnd (rv q - rv p)) < emaxR -> Rabs (rnd (rv p + rnd (rv q - rv p))) < emaxR ->
  fin (p + 1 * (q - p))%float /\ Rabs (rv (p + 1 * (q - p))%float - rv q) <= bpow radix2 (-51) * (Rabs (rv p) + Rabs (rv q)).
Proof.
  intros Fp Fq O1 O2.
  destruct (sub_real q p Fq Fp O1) as [Vd Fd].
  assert (V1 : val (1 * (q - p))%float (rv (q - p)%float)).
  { replace (rv (q - p)%float) with (1 * rv (q - p)%float) by ring.
    apply V_mul; [apply val_1|now apply val_rv| |]; (replace (1 * rv (q - p)%float) with (rv (q - p)%float) by ring); [apply fmt_rv|apply fin_lt]. }
  destruct V1 as [F1 E1].
  destruct (add_real p (1 * (q - p))%float Fp F1) as [Vs Fs]; [rewrite E1, Vd; exact O2|].
  split; [exact Fs|]. rewrite Vs, E1, Vd.
  assert (Gq : fmtF (rv q)) by apply fmt_rv. assert (Gp : fmtF (- rv p)) by (apply generic_format_opp, fmt_rv).
  destruct (add_rel (rv q) (- rv p) Gq Gp) as (e1 & B1 & R1).
  replace (rv q + - rv p) with (rv q - rv p) in R1 by ring. rewrite R1.
  assert (Gd : fmtF ((rv q - rv p) * (1 + e1))) by (rewrite <- R1; apply generic_format_round; typeclasses eauto).
  destruct (add_rel (rv p) ((rv q - rv p) * (1 + e1)) (fmt_rv p) Gd) as (e2 & B2 & R2). rewrite R2.
  replace ((rv p + (rv q - rv p) * (1 + e1)) * (1 + e2) - rv q) with (rv q * e2 + (rv q - rv p) * e1 * (1 + e2)) by ring.
  rewrite bpow51. pose proof u53_pos as U.
  set (P := Rabs (rv p)). set (Q := Rabs (rv q)).
  assert (P0 : 0 <= P) by apply Rabs_pos. assert (Q0 : 0 <= Q) by apply Rabs_pos.
  assert (T1 : Rabs (rv q * e2) <= Q * u53).
  { rewrite Rabs_mult. apply Rmult_le_compat; try apply Rabs_pos; [apply Rle_refl|exact B2]. }
  assert (T2 : Rabs ((rv q - rv p) * e1 * (1 + e2)) <= (Q + P) * u53 * (1 + u53)).
  { rewrite !Rabs_mult. apply Rmult_le_compat; try (apply Rmult_le_pos; apply Rabs_pos); try apply Rabs_pos.
    - apply Rmult_le_compat; try apply Rabs_pos; [|exact B1]. unfold Rminus. eapply Rle_trans; [apply Rabs_triang|]. rewrite Rabs_Ropp. apply Rle_refl.
    - eapply Rle_trans; [apply Rabs_triang|]. rewrite Rabs_R1. lra. }
  eapply Rle_trans; [apply Rabs_triang|].
  assert (S0 : 0 <= (Q + P) * u53) by nra.
  assert (S1 : (Q + P) * u53 * u53 <= (Q + P) * u53) by nra.
  assert (S2 : Q * u53 <= (Q + P) * u53) by nra.
  replace ((Q + P) * u53 * (1 + u53)) with ((Q + P) * u53 + (Q + P) * u53 * u53) in T2 by ring.
  replace (4 * u53 * (P + Q)) with (4 * ((Q + P) * u53)) by ring. lra.
Qed.
Theorem fline_to_point_1 p q : finv p -> finv q ->
  (Rabs (rnd (rv (fx q) - rv (fx p))) < emaxR /\ Rabs (rnd (rv (fx p) + rnd (rv (fx q) - rv (fx p)))) < emaxR) ->
  (Rabs (rnd (rv (fy q) - rv (fy p))) < emaxR /\ Rabs (rnd (rv (fy p) + rnd (rv (fy q) - rv (fy p)))) < emaxR) ->
  (Rabs (rnd (rv (fz q) - rv (fz p))) < emaxR /\ Rabs (rnd (rv (fz p) + rnd (rv (fz q) - rv (fz p)))) < emaxR) ->
  let r := fline_to_point p (fvec_from_points p q) 1 in
  finv r /\
  Rabs (rv (fx r) - rv (fx q)) <= bpow radix2 (-51) * (Rabs (rv (fx p)) + Rabs (rv (fx q))) /\
  Rabs (rv (fy r) - rv (fy q)) <= bpow radix2 (-51) * (Rabs (rv (fy p)) + Rabs (rv (fy q))) /\
  Rabs (rv (fz r) - rv (fz q)) <= bpow radix2 (-51) * (Rabs (rv (fz p)) + Rabs (rv (fz q))).
Proof.
  intros (p1 & p2 & p3) (q1 & q2 & q3) [X1 X2] [Y1 Y2] [Z1 Z2]. cbv zeta.
  unfold fline_to_point, ftranslate, fadd, fscale, fvec_from_points, fsub, finv; cbn [fx fy fz].
  destruct (topoint1_coord _ _ p1 q1 X1 X2) as [A1 A2]. destruct (topoint1_coord _ _ p2 q2 Y1 Y2) as [B1 B2].
  destruct (topoint1_coord _ _ p3 q3 Z1 Z2) as [C1 C2]. tauto.
Qed.
