(* GenC18.v — C18's results restated over the definitions REGENERATED from /repo's Go source on every run:
   GeneratedF.Point_SetLon / Point_SetLat (common/object/coordinate.go: the setters object.NewPoint calls on the way back) and
   Generated.GeoCrs / Generated.OrthCrs (common/consts/consts.go). The wrapper model of Project.v builds the returned points with
   F64.new_point; GenEqFPoint proves that this is NewPoint's sequence over the generated setters, so the backward direction can be
   written - and its theorems read - directly on the generated code. A semantic edit of SetLon / SetLat / the two constants in the source
   breaks gen_Point_SetLon_eq / gen_Point_SetLat_eq / gen_GeoCrs_eq / gen_OrthCrs_eq and with them every theorem of this file. *)
From Coq Require Import ZArith Floats Bool List.
From SIDGen Require Generated GeneratedF.
From SID Require Import Base F64 GenEqConstCrs GenEqFPoint Project.
Import ListNotations.

(* object.NewPoint over the generated setters: SetLon, SetLat, SetAlt on a zero Point, stopping at the first error
   (NewPoint itself is not translated; this sequence is the one of GenEqFPoint.new_point_over_generated_setters) *)
Definition new_point_gen (lon lat alt : float) : point * bool :=
  let '(a, b, c, e1) := GeneratedF.Point_SetLon 0 0 0 lon in
  if e1 then ({| plon := a; plat := b; palt := c |}, true)
  else let '(a, b, c, e2) := GeneratedF.Point_SetLat a b c lat in
       if e2 then ({| plon := a; plat := b; palt := c |}, true)
       else ({| plon := a; plat := b; palt := alt |}, false).
Lemma new_point_gen_eq lon lat alt : new_point_gen lon lat alt = new_point lon lat alt.
Proof. symmetry. apply new_point_over_generated_setters. Qed.

(* both generated setters accept, and what they store *)
Definition setters_accept (x y : float) (lat' : float) : Prop :=
  GeneratedF.Point_SetLon 0 0 0 x = (x, 0%float, 0%float, false) /\ GeneratedF.Point_SetLat x 0 0 y = (x, lat', 0%float, false).
(* one of them refuses *)
Definition setters_refuse (x y : float) : Prop :=
  snd (GeneratedF.Point_SetLon 0 0 0 x) = true \/
  (snd (GeneratedF.Point_SetLon 0 0 0 x) = false /\ snd (GeneratedF.Point_SetLat x 0 0 y) = true).

Lemma new_point_accept_iff x y a :
  snd (new_point x y a) = false <-> exists lat', setters_accept x y lat'.
Proof.
  rewrite <- new_point_gen_eq. unfold new_point_gen, setters_accept. rewrite gen_Point_SetLon_eq.
  destruct (180 <? abs x)%float.
  - split; [discriminate|]. intros (l & H & _). discriminate.
  - rewrite gen_Point_SetLat_eq. destruct (c_latmax <? abs (setlat_trunc y))%float.
    + split; [discriminate|]. intros (l & _ & H). discriminate.
    + split; [|reflexivity]. intros _. exists (setlat_trunc y). split; reflexivity.
Qed.
Lemma new_point_accept_value x y a lat' :
  setters_accept x y lat' -> new_point x y a = ({| plon := x; plat := lat'; palt := a |}, false).
Proof.
  intros [H1 H2]. rewrite <- new_point_gen_eq. unfold new_point_gen. rewrite H1, H2. reflexivity.
Qed.
Lemma new_point_refuse_iff x y a : snd (new_point x y a) = true <-> setters_refuse x y.
Proof.
  rewrite <- new_point_gen_eq. unfold new_point_gen, setters_refuse. rewrite gen_Point_SetLon_eq.
  destruct (180 <? abs x)%float; cbn [snd].
  - split; auto.
  - rewrite gen_Point_SetLat_eq. destruct (c_latmax <? abs (setlat_trunc y))%float; cbn [snd].
    + split; auto.
    + split; [discriminate|]. intros [H|[_ H]]; discriminate.
Qed.

Section OverGenerated.
  Variable known : Z -> bool.
  Variable tr : Z -> Z -> float -> float -> float -> option (float * float * float).

  (* ConvertProjectedPointListToPointList written over the generated setters and the generated source-CRS constant *)
  Definition back_point_gen (crs : Z) (q : ppoint) : point + ekind :=
    match tr crs Generated.GeoCrs (px q) (py q) (pz q) with
    | Some (x, y, _) => let '(g, e) := new_point_gen x y (pz q) in if e then inr EValueConvert else inl g
    | None => inr EValueConvert
    end.
  Definition to_geographic_gen (l : list ppoint) (crs : Z) : list point * option ekind :=
    if known crs then map_until (back_point_gen crs) l else ([], Some EValueConvert).
  Lemma back_point_gen_eq crs q : back_point_gen crs q = back_point tr crs q.
  Proof.
    unfold back_point_gen, back_point. rewrite gen_GeoCrs_eq. change 4326%Z with geo_crs.
    destruct (tr crs geo_crs (px q) (py q) (pz q)) as [[[x y] z]|]; [|reflexivity]. now rewrite new_point_gen_eq.
  Qed.
  Lemma map_until_ext {A B} (f g : A -> B + ekind) l : (forall a, f a = g a) -> map_until f l = map_until g l.
  Proof. intros E. induction l as [|a r IH]; cbn [map_until]; [reflexivity|]. rewrite E, IH. reflexivity. Qed.
  Lemma to_geographic_gen_eq l crs : to_geographic_gen l crs = to_geographic known tr l crs.
  Proof. unfold to_geographic_gen, to_geographic. destruct (known crs); [|reflexivity]. apply map_until_ext, back_point_gen_eq. Qed.

  (* backward without error, on the generated code: output i is made of what the generated SetLon / SetLat store for the transform of
     input i - both accept - and of input i's own altitude: length, order, altitude bit for bit *)
  Theorem backward_over_generated l crs :
    snd (to_geographic_gen l crs) = None ->
    Forall2 (fun q g => exists x y z lat', tr crs Generated.GeoCrs (px q) (py q) (pz q) = Some (x, y, z) /\
                                           setters_accept x y lat' /\ g = {| plon := x; plat := lat'; palt := pz q |})
            l (fst (to_geographic_gen l crs)).
  Proof.
    rewrite to_geographic_gen_eq. intros H. eapply Forall2_impl; [|apply to_geographic_ok, H].
    intros q g (x & y & z & E & Hs & ->). apply new_point_accept_iff in Hs. destruct Hs as (lat' & Ha).
    exists x, y, z, lat'. rewrite gen_GeoCrs_eq. repeat split; auto; try apply Ha.
    pose proof (new_point_accept_value x y (pz q) lat' Ha) as V. pose proof (new_point_accepts x y (pz q)) as W.
    rewrite V in W. cbn [fst snd] in W. specialize (W eq_refl). inversion W. reflexivity.
  Qed.
  (* a conversion error exactly when the code is unknown, the transform refuses a point, or a generated setter refuses what the
     transform returned for a point *)
  Theorem backward_error_iff_over_generated l crs :
    snd (to_geographic_gen l crs) = Some EValueConvert <->
    known crs = false \/
    Exists (fun q => tr crs Generated.GeoCrs (px q) (py q) (pz q) = None \/
                     exists x y z, tr crs Generated.GeoCrs (px q) (py q) (pz q) = Some (x, y, z) /\ setters_refuse x y) l.
  Proof.
    rewrite to_geographic_gen_eq, to_geographic_err_iff, gen_GeoCrs_eq. change 4326%Z with geo_crs.
    split; (intros [H|H]; [now left|right]); (eapply Exists_impl; [|exact H]); intros q; unfold back_refused.
    - intros [E|(x & y & z & E & R)]; [now left|right]. exists x, y, z. split; [exact E|]. now apply new_point_refuse_iff in R.
    - intros [E|(x & y & z & E & R)]; [now left|right]. exists x, y, z. split; [exact E|]. now apply (new_point_refuse_iff x y (pz q)).
  Qed.
  (* no other error code *)
  Theorem backward_kind_over_generated l crs :
    snd (to_geographic_gen l crs) = None \/ snd (to_geographic_gen l crs) = Some EValueConvert.
  Proof. rewrite to_geographic_gen_eq. apply to_geographic_kind. Qed.

  (* there and back through the generated constants (source CRS Generated.GeoCrs, planar CRS Generated.OrthCrs), no error: same length
     and order; every point comes back as what the generated setters store for the transformed coordinates, with its own altitude *)
  Theorem round_trip_over_generated l :
    let f := to_projected known tr l Generated.OrthCrs in
    snd f = None -> snd (to_geographic_gen (fst f) Generated.OrthCrs) = None ->
    Forall2 (fun p g => exists q x y z lat',
               (exists z', tr Generated.GeoCrs Generated.OrthCrs (plon p) (plat p) (palt p) = Some (px q, py q, z')) /\ pz q = palt p /\
               tr Generated.OrthCrs Generated.GeoCrs (px q) (py q) (pz q) = Some (x, y, z) /\
               setters_accept x y lat' /\ g = {| plon := x; plat := lat'; palt := palt p |})
            l (fst (to_geographic_gen (fst f) Generated.OrthCrs)).
  Proof.
    cbn zeta. intros H1 H2. pose proof (to_projected_ok known tr l _ H1) as F1. pose proof (backward_over_generated _ _ H2) as F2.
    set (ql := fst (to_projected known tr l Generated.OrthCrs)) in *. set (gl := fst (to_geographic_gen ql Generated.OrthCrs)) in *.
    clearbody gl. clearbody ql. clear H1 H2. revert gl F2.
    induction F1 as [|p q l' ql' R F IH]; intros gl F2; inversion F2 as [|? g ? gl' Hb F2']; subst; [constructor|].
    constructor; [|apply IH; auto].
    destruct R as (x0 & y0 & z0 & E0 & Hx & Hy & Hz). destruct Hb as (x & y & z & lat' & E & Ha & ->).
    exists q, x, y, z, lat'. split; [|split; [exact Hz|split; [|split; [exact Ha|now rewrite Hz]]]].
    - exists z0. rewrite gen_GeoCrs_eq. change 4326%Z with geo_crs. rewrite E0. now subst.
    - exact E.
  Qed.
End OverGenerated.

(* non-vacuity on concrete floats, computed on the generated setters: (139, 35) is accepted and stored; latitude 86 is refused *)
Example setters_accept_nonvacuous : setters_accept 139 35 35 /\ setters_refuse 139 86 /\ setters_refuse 181 0.
Proof. vm_compute. repeat split; auto. Qed.
Example backward_over_generated_nonvacuous :
  let tr := fun (_ _ : Z) (a b c : float) => Some (a, b, 0%float) in
  to_geographic_gen epsg_known tr [ {| px := 10; py := 20; pz := 0x1.b2fffffffffffp+8 |}; {| px := 10; py := 86; pz := 7 |} ] Generated.OrthCrs
  = ([ {| plon := 10; plat := 20; palt := 0x1.b2fffffffffffp+8 |} ], Some EValueConvert).
Proof. vm_compute. reflexivity. Qed.
