(* GenTac.v (first part of the former GenEquiv.v) — the second tie between model and source.
   generated/Generated.v is rewritten by the translator (harness/cmd/vtrans) from the Go source on every run. This file proves,
   for every translated kernel, that the generated function equals the hand-written shared model the property theorems are
   stated on, and that the generated constants equal the literals the models use. A semantic edit of one of these Go
   kernels changes Generated.v and makes one of the lemmas below fail to compile — deterministically, no sampling.

   The proofs are one generic tactic ([gen_eq]): unfold every definition of Generated.v (hint database [sidgen], emitted by
   the translator, so new helper functions and constants are unfolded too) and the model; decide the comparisons one at a
   time, innermost first ([Z.leb_spec], [Z.ltb_spec], [Z.eqb_spec]); close every leaf with [lia] under [f_equal]. Nothing in
   a proof mentions a local variable, a branch or the shape of the Go code, so renamings, reordered assignments and
   restructured but equivalent conditionals are accepted. *)
From Coq Require Import ZArith Bool Lia.
From SIDGen Require Import Generated.
From SID Require Import Base Ids ZoomCore AltKeyCore.
Open Scope Z_scope.

(* ---------------------------------------------------------------------------------------------------------------- *)
(* the generic tactic *)

Ltac no_if t := lazymatch t with context [if _ then _ else _] => fail | _ => idtac end.

(* beta, iota (matches on constructors: decided conditions, destructuring lets), zeta (lets), and the boolean connectives *)
Ltac gen_red := cbv beta iota zeta delta [andb orb negb Bool.eqb fst snd].

Lemma geb_spec a b : BoolSpec (b <= a) (a < b) (Z.geb a b).
Proof. rewrite Z.geb_leb. apply Z.leb_spec. Qed.
Lemma gtb_spec a b : BoolSpec (b < a) (a <= b) (Z.gtb a b).
Proof. rewrite Z.gtb_ltb. apply Z.ltb_spec. Qed.

(* decide one condition whose operands contain no undecided conditional (innermost first) *)
Ltac gen_case :=
  match goal with
  | |- context [Z.leb ?a ?b] => no_if a; no_if b; destruct (Z.leb_spec a b)
  | |- context [Z.ltb ?a ?b] => no_if a; no_if b; destruct (Z.ltb_spec a b)
  | |- context [Z.geb ?a ?b] => no_if a; no_if b; destruct (geb_spec a b)
  | |- context [Z.gtb ?a ?b] => no_if a; no_if b; destruct (gtb_spec a b)
  | |- context [Z.eqb ?a ?b] => no_if a; no_if b; destruct (Z.eqb_spec a b)
  | |- context [if ?c then _ else _] => is_var c; destruct c
  end.

Ltac gen_leaf :=
  first [ reflexivity | lia | exfalso; lia | progress f_equal; gen_leaf ].

(* Only where a leaf is stuck: the operations lia does not interpret (shifts, truncated division, powers) are atoms to it,
   and two atoms whose arguments are written differently are different atoms. [gen_merge] identifies, in the goal and in
   the decided conditions, applications of the same operation whose arguments are equal as ring expressions, and removes
   shifts by a count that is provably (lia, under the decided conditions) 0. This accepts regrouped arithmetic and
   conditions moved across a point where both branches agree. *)
Lemma ashift_zero a s : s = 0 -> ashift a s = a.
Proof. intros ->. reflexivity. Qed.
Lemma shiftl_zero a s : s = 0 -> Z.shiftl a s = a.
Proof. intros ->. apply Z.shiftl_0_r. Qed.
Lemma shiftr_zero a s : s = 0 -> Z.shiftr a s = a.
Proof. intros ->. apply Z.shiftr_0_r. Qed.

Ltac differ2 a s a' s' := tryif (constr_eq a a'; constr_eq s s') then fail else idtac.
Ltac merge_with f a s :=
  match goal with
  | |- context [f ?a' ?s'] => differ2 a s a' s'; replace (f a' s') with (f a s) in * by (f_equal; ring)
  | _ : context [f ?a' ?s'] |- _ => differ2 a s a' s'; replace (f a' s') with (f a s) in * by (f_equal; ring)
  end.
Ltac merge_op f :=
  repeat match goal with
  | |- context [f ?a ?s] => merge_with f a s
  | _ : context [f ?a ?s] |- _ => merge_with f a s
  end.
Ltac zero_at f lem a s :=
  let E := fresh "E" in assert (E : s = 0) by lia; rewrite (lem a s E) in *; clear E.
Ltac zero_op f lem :=
  repeat match goal with
  | |- context [f ?a ?s] => zero_at f lem a s
  | _ : context [f ?a ?s] |- _ => zero_at f lem a s
  end.
Ltac merge_all := merge_op ashift; merge_op Z.shiftl; merge_op Z.shiftr; merge_op Z.quot; merge_op Z.rem; merge_op Z.pow.
Ltac zero_all := zero_op ashift ashift_zero; zero_op Z.shiftl shiftl_zero; zero_op Z.shiftr shiftr_zero.
(* [zero_all] is sound but only useful in a consistent context (lia proves any count to be 0 from contradictory conditions):
   it runs after [gen_leaf] has failed on the merged goal *)
Ltac gen_merge fuel :=
  merge_all;
  first [ gen_leaf | lazymatch fuel with S ?k => progress zero_all; gen_merge k end ].

(* [norm] is run before every step: it may rewrite, never split. [stuck] is run on a leaf [gen_leaf] cannot close. *)
Ltac gen_cases norm stuck :=
  gen_red; norm;
  first [ gen_leaf | tryif assert_succeeds gen_case then (gen_case; gen_cases norm stuck) else stuck ].

(* pass 1: the shifts as atoms (Base.ashift on both sides; what the unedited source needs; fast);
   pass 2: Base.ashift opened into Z.shiftl / Z.shiftr.
   Atoms are merged and zero shifts removed only at stuck leaves (doing it before every step was measured: far slower). *)
Ltac gen_solve norm :=
  first [ solve [ gen_cases ltac:(norm) ltac:(gen_merge 4%nat) ]
        | solve [ gen_cases ltac:(norm; unfold ashift) ltac:(gen_merge 4%nat) ] ].

(* ---------------------------------------------------------------------------------------------------------------- *)
(* result encodings: the generated functions return the Go result tuple, with `error` as a flag (true = non-nil) and the
   values the Go code returns next to a non-nil error (all zero in these kernels) *)

Definition eid_tuple (i : eid) : Z * Z * Z * Z * Z := (eh i, ex i, ey i, ev i, ef i).
Definition enc_z (r : result Z) : Z * bool := match r with Ok a => (a, false) | Err => (0, true) end.
Definition enc_zz (r : result (Z * Z)) : Z * Z * bool := match r with Ok (a, b) => (a, b, false) | Err => (0, 0, true) end.

Lemma enc_z_inj r s : enc_z r = enc_z s -> r = s.
Proof. destruct r, s; cbn; congruence. Qed.
Lemma enc_zz_inj r s : enc_zz r = enc_zz s -> r = s.
Proof. destruct r as [[a b]|], s as [[c d]|]; cbn; congruence. Qed.

Ltac models_base := unfold enc_z, enc_zz, z2key, z2key_raw, z2minkey, key2z, index_exists, hzoom_minmax, vzoom_minmax, vnum,
  zoom_ok, check_zoom, zorigin, zbase_offset_neg.
Ltac models_higher := unfold eid_tuple, higher, mk; cbn [eh ex ey ev ef].

(* ---------------------------------------------------------------------------------------------------------------- *)
(* functions *)

(* common.CalculateArithmeticShift = Base.ashift *)
Lemma gen_CalculateArithmeticShift_eq : forall i s, Generated.CalculateArithmeticShift i s = ashift i s.
Proof. intros; repeat autounfold with sidgen; gen_solve ltac:(unfold ashift). Qed.

(* from here on the generated shift is not unfolded ([autounfold] skips an opaque constant) but rewritten into Base.ashift *)
(* each GenEq*.v file makes Generated.CalculateArithmeticShift opaque while it runs gen_eq *)
Ltac gen_eq models :=
  intros; repeat autounfold with sidgen; models;
  gen_solve ltac:(rewrite ?Z.geb_leb, ?Z.gtb_ltb, ?gen_CalculateArithmeticShift_eq).

