(* QuadkeyConv.v — property C11, list level: faithful executable models of the exported key conversions of
   transform/convert_quadkey_and_Vertical_id.go when no height range is requested (maxHeight == minHeight; the binary-subdivision
   branch maxHeight > minHeight is property C17):
     ConvertExtendedSpatialIDsToQuadkeysAndVerticalIDs, ConvertSpatialIDsToQuadkeysAndVerticalIDs,
     ConvertExtendedSpatialIDsToQuadkeysAndAltitudekeys, ConvertQuadkeysAndVerticalIDsToExtendedSpatialIDs,
     ConvertQuadkeysAndVerticalIDsToSpatialIDs, deleteDuplicationList, quadkeyCheckZoom, extendedSpatialIDCheckZoom.
   Go maps (the cross-call de-duplication map, deleteDuplicationList) are modelled in first-occurrence order; theorems speak about
   membership / NoDup, the harness compares such outputs as sets. *)
From Coq Require Import ZArith Lia List Bool String.
From SID Require Import Base Str Ids ZoomCore AltKeyCore ChangeZoom Quadkey.
Import ListNotations.
Open Scope Z_scope.

Definition pair := (Z * Z)%type.                       (* [2]int64{quadkey, vertical index | altitude key} *)
Definition pair_eqb (a b : pair) : bool := (fst a =? fst b) && (snd a =? snd b).
Lemma pair_eqb_spec a b : reflect (a = b) (pair_eqb a b).
Proof.
  destruct a as [a1 a2], b as [b1 b2]. unfold pair_eqb; cbn [fst snd].
  destruct (Z.eqb_spec a1 b1), (Z.eqb_spec a2 b2); cbn; constructor; congruence.
Qed.

(* quadkeyCheckZoom / extendedSpatialIDCheckZoom *)
Definition qcheck (h v : Z) : bool := (1 <=? h) && (h <=? 31) && (0 <=? v) && (v <=? 35).
Definition echeck (h v : Z) : bool := (0 <=? h) && (h <=? 35) && (0 <=? v) && (v <=? 35).
Lemma qcheck_spec h v : qcheck h v = true <-> 1 <= h <= 31 /\ 0 <= v <= 35.
Proof. unfold qcheck. rewrite !andb_true_iff, !Z.leb_le. tauto. Qed.
Lemma echeck_spec h v : echeck h v = true <-> 0 <= h <= 35 /\ 0 <= v <= 35.
Proof. unfold echeck. rewrite !andb_true_iff, !Z.leb_le. tauto. Qed.

(* deleteDuplicationList (a Go map used as a set): first-occurrence order here, any order in the code *)
Definition dedup_strings (l : list string) : list string := nodupb String.eqb l.
Lemma dedup_strings_In s l : In s (dedup_strings l) <-> In s l.
Proof. apply nodupb_In. apply String.eqb_spec. Qed.
Lemma dedup_strings_NoDup l : NoDup (dedup_strings l).
Proof. apply nodupb_NoDup. apply String.eqb_spec. Qed.

(* ---------- the cross-call de-duplication ---------- *)
(* inner loops: walk the pairs of one input ID, keep those not yet in the map, adding them to the map on the way *)
Fixpoint fresh (seen ps : list pair) : list pair * list pair :=   (* (new map, kept pairs) *)
  match ps with
  | [] => (seen, [])
  | p :: r => if memb pair_eqb p seen then fresh seen r
              else let '(s', k) := fresh (p :: seen) r in (s', p :: k)
  end.
(* outer loop on already computed pair lists; an input whose pairs were all reported before produces no group *)
Fixpoint run (seen : list pair) (pss : list (list pair)) : list (list pair) :=
  match pss with
  | [] => []
  | ps :: r => let '(s', k) := fresh seen ps in
               match k with [] => run s' r | _ => k :: run s' r end
  end.

Lemma pmemb_In a l : memb pair_eqb a l = true <-> In a l.
Proof. apply memb_In. apply pair_eqb_spec. Qed.

Lemma fresh_spec ps : forall seen s' k, fresh seen ps = (s', k) ->
  NoDup k /\ (forall p, In p k -> In p ps /\ ~ In p seen) /\
  (forall p, In p s' <-> In p seen \/ In p k) /\ (forall p, In p ps -> In p s').
Proof.
  induction ps as [|p r IH]; intros seen s' k; cbn [fresh].
  - intros [= <- <-]. repeat split; try constructor; cbn; tauto.
  - destruct (memb pair_eqb p seen) eqn:M.
    + intros E. destruct (IH _ _ _ E) as (N & A & B & C). split; [exact N|]. split; [|split; [exact B|]].
      * intros q Hq. destruct (A q Hq). split; [now right|assumption].
      * intros q [<-|Hq]; [apply B; left; now apply pmemb_In|auto].
    + destruct (fresh (p :: seen) r) as [s1 k1] eqn:E. intros [= <- <-].
      destruct (IH _ _ _ E) as (N & A & B & C).
      assert (NM : ~ In p seen) by (rewrite <- pmemb_In; congruence).
      split; [|split; [|split]].
      * constructor; [|exact N]. intros Hp. destruct (A p Hp) as [_ X]. apply X. now left.
      * intros q [<-|Hq]; [split; [now left|exact NM]|]. destruct (A q Hq) as [X Y]. split; [now right|].
        intros Z. apply Y. now right.
      * intros q. rewrite B. cbn [In]. split; [intros [[->|H]|H]; auto|intros [H|[->|H]]; auto].
      * intros q [<-|Hq]; [apply B; left; now left|auto].
Qed.

(* no pair is reported twice across the returned groups, every pair of every input is reported, no group is empty *)
Theorem run_spec pss : forall seen,
  NoDup (List.concat (run seen pss)) /\
  (forall p, In p (List.concat (run seen pss)) -> ~ In p seen) /\
  (forall p, In p (List.concat (run seen pss)) \/ In p seen <-> (exists ps, In ps pss /\ In p ps) \/ In p seen) /\
  ~ In [] (run seen pss).
Proof.
  induction pss as [|i r IH]; intros seen; cbn [run].
  - cbn. split; [constructor|]. split; [tauto|]. split; [|tauto]. intros p. split; [tauto|]. intros [(j & [] & _)|Hs]; auto.
  - destruct (fresh seen i) as [s' k] eqn:E.
    destruct (fresh_spec _ _ _ _ E) as (Nk & Ak & Bk & Ck).
    destruct (IH s') as (N & A & B & C).
    assert (G : NoDup (k ++ List.concat (run s' r)) /\
                (forall p, In p (k ++ List.concat (run s' r)) -> ~ In p seen) /\
                (forall p, In p (k ++ List.concat (run s' r)) \/ In p seen <->
                           (exists j, In j (i :: r) /\ In p j) \/ In p seen)).
    { split; [|split].
      - apply NoDup_app'; [exact Nk|exact N|]. intros p Hp Hq. apply (A p Hq). apply Bk. now right.
      - intros p Hp. apply in_app_iff in Hp. destruct Hp as [Hp|Hp]; [now destruct (Ak p Hp)|].
        intros Hs. apply (A p Hp). apply Bk. now left.
      - intros p. rewrite in_app_iff. split.
        + intros [[Hp|Hp]|Hp]; auto.
          * left. exists i. split; [now left|]. now destruct (Ak p Hp).
          * destruct (proj1 (B p) (or_introl Hp)) as [(j & Hj & Hpj)|Hs].
            -- left. exists j. split; [now right|exact Hpj].
            -- apply Bk in Hs. destruct Hs as [Hs|Hs]; auto. left. exists i. split; [now left|]. now destruct (Ak p Hs).
        + intros [(j & [<-|Hj] & Hpj)|Hs]; auto.
          * apply Ck, Bk in Hpj. tauto.
          * destruct (proj2 (B p) (or_introl (ex_intro _ j (conj Hj Hpj)))) as [Hp|Hs]; auto.
            apply Bk in Hs. tauto. }
    destruct k as [|a k'].
    + cbn [app] in G. destruct G as (G1 & G2 & G3). repeat split; auto; apply G3.
    + cbn [List.concat]. destruct G as (G1 & G2 & G3). repeat split; auto; try apply G3.
      intros [Hbad|Hbad]; [discriminate|contradiction].
Qed.

(* ---------- IDs -> (quadkey, vertical) pair groups ---------- *)
(* object.FromExtendedSpatialIDToQuadkeyAndVerticalID / ...AndAltitudekey: output zooms, the request's parameters
   (maxHeight, minHeight | zBaseExponent, zBaseOffset) and the pair list *)
Record group (P : Type) := mkg { g_hz : Z; g_vz : Z; g_par : P; g_pairs : list pair }.
Arguments mkg {P}. Arguments g_hz {P}. Arguments g_vz {P}. Arguments g_par {P}. Arguments g_pairs {P}.

Section Conv.
  Context {P : Type}.
  Variables (oh ov : Z) (par : P).
  (* the vertical axis of one input ID (vZoom, index): the index list at the output zoom, or an error *)
  Variable vert : Z -> Z -> result (list Z).

  (* integrate.HorizontalZoom, then convertHorizontalIDToQuadkey on each "oh/x/y" *)
  Definition hkeys (i : eid) : list Z := map (fun p => encode oh (fst p) (snd p)) (hzoom (eh i) (ex i) (ey i) oh).

  (* one input string: split, five int64 fields, zoom check, then quadkeys x vertical indices (quadkey outer loop) *)
  Definition id_pairs (s : string) : result (list pair) :=
    match parse_eid s with
    | None => Err
    | Some i => if negb (echeck (eh i) (ev i)) then Err
                else match vert (ev i) (ef i) with
                     | Err => Err
                     | Ok vs => Ok (list_prod (hkeys i) vs)
                     end
    end.

  Definition mkgroup (k : list pair) : group P := mkg oh ov par k.

  (* the loop over the input IDs: any failing ID makes the whole call fail; `if len(idList) == 0 { continue }` *)
  Fixpoint conv_loop (seen : list pair) (ids : list string) : result (list (group P)) :=
    match ids with
    | [] => Ok []
    | s :: r => match id_pairs s with
                | Err => Err
                | Ok ps => let '(seen', k) := fresh seen ps in
                           match conv_loop seen' r with
                           | Err => Err
                           | Ok gs => Ok (match k with [] => gs | _ => mkgroup k :: gs end)
                           end
                end
    end.
  Definition conv (ids : list string) : result (list (group P)) :=
    if negb (qcheck oh ov) then Err else conv_loop [] ids.

  (* the loop is `run` on the pair lists of the IDs *)
  Lemma conv_loop_run ids : forall seen pss, Forall2 (fun s ps => id_pairs s = Ok ps) ids pss ->
    conv_loop seen ids = Ok (map mkgroup (run seen pss)).
  Proof.
    induction ids as [|s r IH]; intros seen pss F; inversion F as [|s' ps r' pss' Hs Hr]; subst; cbn [conv_loop run map].
    - reflexivity.
    - rewrite Hs. destruct (fresh seen ps) as [s1 k]. rewrite (IH s1 pss' Hr). destruct k; reflexivity.
  Qed.
  Lemma conv_loop_err ids : forall seen s, In s ids -> id_pairs s = Err -> conv_loop seen ids = Err.
  Proof.
    induction ids as [|a r IH]; intros seen s Hin He; [contradiction|]. destruct Hin as [->|Hin]; cbn [conv_loop].
    - now rewrite He.
    - destruct (id_pairs a); [|reflexivity]. destruct (fresh seen a0) as [s1 k]. now rewrite (IH s1 s Hin He).
  Qed.
  (* conversely, a successful loop is `run` on the pair lists of its IDs — for ANY vertical function and ANY input strings *)
  Lemma conv_loop_inv ids : forall seen gs, conv_loop seen ids = Ok gs ->
    exists pss, Forall2 (fun s ps => id_pairs s = Ok ps) ids pss /\ gs = map mkgroup (run seen pss).
  Proof.
    induction ids as [|s r IH]; intros seen gs; cbn [conv_loop].
    - intros [= <-]. exists []. split; [constructor|reflexivity].
    - destruct (id_pairs s) as [ps|] eqn:Es; [|discriminate].
      destruct (fresh seen ps) as [s1 k] eqn:Ef. destruct (conv_loop s1 r) as [gs'|] eqn:Er; [|discriminate].
      intros [= <-]. destruct (IH s1 gs' Er) as (pss & F & ->). exists (ps :: pss). split; [constructor; assumption|].
      cbn [run]. rewrite Ef. destruct k; reflexivity.
  Qed.

  (* GENERIC group theorem (no validity, any vertical function — index form, altitude keys, or the binary-subdivision form of C17):
     whenever the call succeeds, every group reports the output zooms and the request's parameters unchanged and is non-empty, no pair
     occurs twice across the groups, and the reported pairs are exactly the pairs of the input IDs *)
  Theorem conv_groups_generic ids gs : conv ids = Ok gs ->
    (forall g, In g gs -> g_hz g = oh /\ g_vz g = ov /\ g_par g = par /\ g_pairs g <> []) /\
    NoDup (List.concat (map g_pairs gs)) /\
    (forall p, In p (List.concat (map g_pairs gs)) <-> exists s ps, In s ids /\ id_pairs s = Ok ps /\ In p ps).
  Proof.
    unfold conv. destruct (negb (qcheck oh ov)); [discriminate|]. intros E.
    destruct (conv_loop_inv ids [] gs E) as (pss & F & ->).
    destruct (run_spec pss []) as (N & _ & B & C).
    assert (Ep : map g_pairs (map mkgroup (run [] pss)) = run [] pss) by (rewrite map_map; cbn [mkgroup g_pairs]; apply map_id).
    rewrite Ep. split; [|split; [exact N|]].
    - intros g Hg. apply in_map_iff in Hg. destruct Hg as (k & <- & Hk). cbn. repeat split; try reflexivity. intros ->. contradiction.
    - intros p. specialize (B p). cbn [In] in B.
      assert (B' : In p (List.concat (run [] pss)) <-> exists ps, In ps pss /\ In p ps) by tauto. rewrite B'. clear -F. split.
      + intros (ps & Hps & Hp). induction F as [|s ps0 ids pss Hs F IH]; [contradiction|]. destruct Hps as [->|Hps].
        * exists s, ps. cbn [In]. auto.
        * destruct (IH Hps) as (s' & ps' & A & B & C). exists s', ps'. cbn [In]. auto.
      + intros (s & ps & Hs & Hps & Hp). induction F as [|s0 ps0 ids pss Hs0 F IH]; [contradiction|]. destruct Hs as [->|Hs].
        * exists ps0. rewrite Hs0 in Hps. injection Hps as ->. cbn [In]. auto.
        * destruct (IH Hs) as (ps' & A & B). exists ps'. cbn [In]. auto.
  Qed.
  (* one failing ID (malformed, zoom outside 0..35, vertical step refused) fails the whole call *)
  Theorem conv_refuses ids s : In s ids -> id_pairs s = Err -> conv ids = Err.
  Proof. intros Hin He. unfold conv. destruct (negb (qcheck oh ov)); [reflexivity|]. now apply (conv_loop_err ids [] s). Qed.
End Conv.

(* vertical axis, index form (maxHeight == minHeight): integrate.VerticalZoom, de-duplicated, "ov/f" parsed back *)
Definition vert_index (ov : Z) (v f : Z) : result (list Z) := Ok (nodupb Z.eqb (vzoom v f ov)).
(* maxHeight < minHeight (or a NaN): the request is refused as soon as an ID reaches the vertical step *)
Definition vert_bad (v f : Z) : result (list Z) := Err.
(* altitude keys: ConvertZToMinMaxAltitudekey, then `for k := min; k <= max; k++` *)
Definition vert_alt (oa E O : Z) (v f : Z) : result (list Z) :=
  match z2key f v oa E O with
  | Ok (mn, mx) => Ok (zrange mn mx)
  | Err => Err
  end.

(* ConvertExtendedSpatialIDsToQuadkeysAndVerticalIDs(ids, oh, ov, maxHeight, minHeight), index = (maxHeight == minHeight) *)
Definition e2q {P} (par : P) (index : bool) (ids : list string) (oh ov : Z) : result (list (group P)) :=
  conv oh ov par (if index then vert_index ov else vert_bad) ids.
(* ConvertExtendedSpatialIDsToQuadkeysAndAltitudekeys(ids, oq, oa, zBaseExponent, zBaseOffset) *)
Definition e2qa (ids : list string) (oq oa E O : Z) : result (list (group (Z * Z))) :=
  conv oq oa (E, O) (vert_alt oa E O) ids.
(* ConvertSpatialIDsToQuadkeysAndVerticalIDs: "z/f/x/y" -> "z/x/y/z/f" (four fields required), then the extended form *)
Definition s2q {P} (par : P) (index : bool) (sids : list string) (oh ov : Z) : result (list (group P)) :=
  match sids_to_eids sids with
  | Err => Err
  | Ok l => e2q par index l oh ov
  end.

(* ---------- (quadkey, vertical index) -> IDs ---------- *)
(* object.QuadkeyAndVerticalID; qidx = (maxHeight == minHeight); otherwise maxHeight < minHeight or NaN (error) *)
Record qitem := mkq { qz : Z; qk : Z; qvz : Z; qvi : Z; qidx : bool }.
Definition quadkey_limit : Z := 4611686018427388064.

Definition q2e_item (oh ov : Z) (it : qitem) : result (list string) :=
  if negb (qcheck (qz it) (qvz it)) then Err
  else if quadkey_limit <? qk it then Err
  else let xy := decode (qk it) (qz it) in
       if qidx it then
         Ok (flat_map (fun hp => map (fun f => print_eid (mk oh (fst hp) (snd hp) ov f)) (vzoom (qvz it) (qvi it) ov))
                      (hzoom (qz it) (fst xy) (snd xy) oh))
       else Err.
Fixpoint q2e_loop (oh ov : Z) (items : list qitem) : result (list string) :=
  match items with
  | [] => Ok []
  | it :: r => match q2e_item oh ov it with
               | Err => Err
               | Ok l => match q2e_loop oh ov r with Err => Err | Ok t => Ok (l ++ t)%list end
               end
  end.
(* ConvertQuadkeysAndVerticalIDsToExtendedSpatialIDs *)
Definition q2e (items : list qitem) (oh ov : Z) : result (list string) :=
  if negb (echeck oh ov) then Err
  else match q2e_loop oh ov items with Err => Err | Ok l => Ok (dedup_strings l) end.
(* ConvertQuadkeysAndVerticalIDsToSpatialIDs: both zooms = z, then "h/x/y/v/f" -> "h/f/x/y" *)
Definition q2s (items : list qitem) (z : Z) : result (list string) :=
  match q2e items z z with
  | Err => Err
  | Ok l => eids_to_sids l
  end.

(* the pairs of the returned groups as input of the inverse conversion *)
Definition items_of {P} (gs : list (group P)) : list qitem :=
  flat_map (fun g => map (fun p => mkq (g_hz g) (fst p) (g_vz g) (snd p) true) (g_pairs g)) gs.

(* ====================================================================================================== *)
(* Specification: the per-axis zoom change of C03 *)
Definition zrel (i : eid) (oh ov : Z) (j : eid) : Prop :=
  eh j = oh /\ ev j = ov /\ rel1 (eh i) (ex i) oh (ex j) /\ rel1 (eh i) (ey i) oh (ey j) /\ rel1 (ev i) (ef i) ov (ef j).

Lemma rel1_range z1 a z2 b : 0 <= z1 -> 0 <= z2 -> rel1 z1 a z2 b -> 0 <= a < 2 ^ z1 -> 0 <= b < 2 ^ z2.
Proof.
  intros H1 H2 R Ha. unfold rel1 in R. destruct (Z.leb_spec z1 z2) as [L|L].
  - apply desc_iff in R; [|lia]. pose proof (pow2_pos (z2 - z1) ltac:(lia)) as Hp. pose proof (pow2_pos z1 H1) as Hp1.
    assert (E : 2 ^ z2 = 2 ^ z1 * 2 ^ (z2 - z1)) by (rewrite <- Z.pow_add_r by lia; f_equal; lia).
    rewrite E. nia.
  - subst b. pose proof (anc_range (z1 - z2) z1 a ltac:(lia) Ha) as B. now replace (z1 - (z1 - z2)) with z2 in B by lia.
Qed.
Lemma rel1_same z a b : rel1 z a z b <-> a = b.
Proof. unfold rel1. rewrite Z.leb_refl, Z.sub_diag, anc_0. split; congruence. Qed.

Lemma zrel_same i j : zrel i (eh i) (ev i) j <-> j = i.
Proof.
  unfold zrel. rewrite !rel1_same. split.
  - intros (A & B & C & D & E). destruct i, j; cbn in *; congruence.
  - intros ->. tauto.
Qed.

(* ---- one ID ---- *)
Lemma in_hkeys oh i q : 0 <= eh i -> 0 <= oh -> 0 <= ex i -> 0 <= ey i ->
  In q (hkeys oh i) <-> exists x' y', rel1 (eh i) (ex i) oh x' /\ rel1 (eh i) (ey i) oh y' /\ q = encode oh x' y'.
Proof.
  intros Hh Ho Hx Hy. unfold hkeys. rewrite in_map_iff. split.
  - intros ([x' y'] & <- & Hin). apply hzoom_exact in Hin; try assumption. exists x', y'. cbn [fst snd]. tauto.
  - intros (x' & y' & Rx & Ry & ->). exists (x', y'). split; [reflexivity|]. apply hzoom_exact; auto.
Qed.

Lemma nodupb_Z_In a l : In a (nodupb Z.eqb l) <-> In a l.
Proof. apply nodupb_In. apply Z.eqb_spec. Qed.

Section ConvSpec.
  Context {P : Type}.
  Variables (oh ov : Z) (par : P) (vert : Z -> Z -> result (list Z)).

  Lemma id_pairs_print i vs : fields_ok i = true -> echeck (eh i) (ev i) = true -> vert (ev i) (ef i) = Ok vs ->
    id_pairs oh vert (print_eid i) = Ok (list_prod (hkeys oh i) vs).
  Proof. intros F E V. unfold id_pairs. now rewrite parse_print_eid, E, V by assumption. Qed.

  (* generic statement: every ID well formed with zooms 0..35 and a vertical axis that does not fail *)
  Theorem conv_spec es : qcheck oh ov = true ->
    (forall i, In i es -> fields_ok i = true /\ echeck (eh i) (ev i) = true /\ 0 <= ex i /\ 0 <= ey i /\ exists vs, vert (ev i) (ef i) = Ok vs) ->
    exists gs, conv oh ov par vert (map print_eid es) = Ok gs /\
      (forall g, In g gs -> g_hz g = oh /\ g_vz g = ov /\ g_par g = par /\ g_pairs g <> []) /\
      NoDup (List.concat (map g_pairs gs)) /\
      (forall q f, In (q, f) (List.concat (map g_pairs gs)) <->
         exists i vs x' y', In i es /\ vert (ev i) (ef i) = Ok vs /\
           rel1 (eh i) (ex i) oh x' /\ rel1 (eh i) (ey i) oh y' /\ q = encode oh x' y' /\ In f vs).
  Proof.
    intros Hq H.
    set (vs_of := fun i => match vert (ev i) (ef i) with Ok vs => vs | Err => [] end).
    set (pss := map (fun i => list_prod (hkeys oh i) (vs_of i)) es).
    assert (F : Forall2 (fun s ps => id_pairs oh vert s = Ok ps) (map print_eid es) pss).
    { unfold pss. clear pss. induction es as [|i r IH]; cbn [map]; constructor.
      - destruct (H i (or_introl eq_refl)) as (Hf & He & _ & _ & vs & Hv). unfold vs_of. rewrite Hv. now apply id_pairs_print.
      - apply IH. intros j Hj. apply H. now right. }
    exists (map (mkgroup oh ov par) (run [] pss)). unfold conv. rewrite Hq. cbn [negb].
    split; [now apply conv_loop_run|].
    destruct (run_spec pss []) as (N & _ & B & C).
    assert (Ep : map g_pairs (map (mkgroup oh ov par) (run [] pss)) = run [] pss).
    { rewrite map_map. cbn [mkgroup g_pairs]. apply map_id. }
    rewrite Ep. split; [|split; [exact N|]].
    - intros g Hg. apply in_map_iff in Hg. destruct Hg as (k & <- & Hk). cbn. repeat split; try reflexivity.
      intros ->. contradiction.
    - intros q f. specialize (B (q, f)). cbn [In] in B.
      assert (B' : In (q, f) (List.concat (run [] pss)) <-> exists ps, In ps pss /\ In (q, f) ps) by tauto. rewrite B'. clear B B'.
      unfold pss. split.
      + intros (ps & Hps & Hin). apply in_map_iff in Hps. destruct Hps as (i & <- & Hi).
        apply in_prod_iff in Hin. destruct Hin as [Hk Hf].
        destruct (H i Hi) as (_ & He & Hx & Hy & vs & Hv). apply echeck_spec in He. apply qcheck_spec in Hq.
        apply in_hkeys in Hk; try lia. destruct Hk as (x' & y' & Rx & Ry & ->).
        exists i, vs, x', y'. unfold vs_of in Hf. rewrite Hv in Hf. tauto.
      + intros (i & vs & x' & y' & Hi & Hv & Rx & Ry & -> & Hf).
        exists (list_prod (hkeys oh i) (vs_of i)). split; [apply in_map_iff; exists i; auto|].
        destruct (H i Hi) as (_ & He & Hx & Hy & _). apply echeck_spec in He. apply qcheck_spec in Hq.
        apply in_prod_iff. split.
        * apply in_hkeys; try lia. exists x', y'. auto.
        * unfold vs_of. now rewrite Hv.
  Qed.
End ConvSpec.

Lemma valid_nonneg i : valid i -> fields_ok i = true /\ echeck (eh i) (ev i) = true /\ 0 <= ex i /\ 0 <= ey i.
Proof.
  intros V. split; [now apply valid_fields_ok|]. destruct V as (Hh & Hv & Hx & Hy & Hf).
  split; [apply echeck_spec; lia|lia].
Qed.

(* ---- index form: pairs = (interleaved key, vertical index) of the zoom-changed IDs ---- *)
Theorem e2q_spec {P} (par : P) es oh ov : qcheck oh ov = true -> Forall valid es ->
  exists gs, e2q par true (map print_eid es) oh ov = Ok gs /\
    (forall g, In g gs -> g_hz g = oh /\ g_vz g = ov /\ g_par g = par /\ g_pairs g <> []) /\
    NoDup (List.concat (map g_pairs gs)) /\
    (forall q f, In (q, f) (List.concat (map g_pairs gs)) <->
       exists i j, In i es /\ zrel i oh ov j /\ q = interleave oh (ex j) (ey j) /\ f = ef j).
Proof.
  intros Hq Hv. rewrite Forall_forall in Hv. unfold e2q.
  destruct (conv_spec oh ov par (vert_index ov) es Hq) as (gs & E & G & N & S).
  { intros i Hi. destruct (valid_nonneg i (Hv i Hi)) as (A & B & C & D). repeat split; try assumption.
    eexists. reflexivity. }
  exists gs. split; [exact E|]. split; [exact G|]. split; [exact N|].
  intros q f. rewrite S. clear S. apply qcheck_spec in Hq. split.
  - intros (i & vs & x' & y' & Hi & [= <-] & Rx & Ry & -> & Hf).
    apply (proj1 (nodupb_Z_In _ _)) in Hf. pose proof (Hv i Hi) as (Hh & Hvz & Hx & Hy & Hfr).
    apply vzoom_exact in Hf; try lia.
    exists i, (mk oh x' y' ov f). split; [exact Hi|]. split; [unfold zrel; cbn; tauto|]. cbn. split; [|reflexivity].
    apply encode_interleave; try lia.
    + eapply (rel1_range (eh i) (ex i) oh x'); eauto; lia.
    + eapply (rel1_range (eh i) (ey i) oh y'); eauto; lia.
  - intros (i & j & Hi & (Eh & Ev & Rx & Ry & Rf) & -> & ->).
    pose proof (Hv i Hi) as (Hh & Hvz & Hx & Hy & Hfr).
    exists i, (nodupb Z.eqb (vzoom (ev i) (ef i) ov)), (ex j), (ey j). repeat split; try assumption.
    + symmetry. apply encode_interleave; try lia.
      * eapply (rel1_range (eh i) (ex i) oh (ex j)); eauto; lia.
      * eapply (rel1_range (eh i) (ey i) oh (ey j)); eauto; lia.
    + apply nodupb_Z_In. apply vzoom_exact; try lia. exact Rf.
Qed.

(* ---- altitude-key form: same horizontal part, the vertical axis is the key range of ConvertZToMinMaxAltitudekey ---- *)
Theorem e2qa_spec es oq oa E O : qcheck oq oa = true -> Forall valid es ->
  (forall i, In i es -> is_ok (z2key (ef i) (ev i) oa E O) = true) ->
  exists gs, e2qa (map print_eid es) oq oa E O = Ok gs /\
    (forall g, In g gs -> g_hz g = oq /\ g_vz g = oa /\ g_par g = (E, O) /\ g_pairs g <> []) /\
    NoDup (List.concat (map g_pairs gs)) /\
    (forall q k, In (q, k) (List.concat (map g_pairs gs)) <->
       exists i x' y' mn mx, In i es /\ rel1 (eh i) (ex i) oq x' /\ rel1 (eh i) (ey i) oq y' /\ q = interleave oq x' y' /\
         z2key (ef i) (ev i) oa E O = Ok (mn, mx) /\ mn <= k <= mx).
Proof.
  intros Hq Hv Hz. rewrite Forall_forall in Hv. unfold e2qa.
  destruct (conv_spec oq oa (E, O) (vert_alt oa E O) es Hq) as (gs & Eq & G & N & S).
  { intros i Hi. destruct (valid_nonneg i (Hv i Hi)) as (A & B & C & D). repeat split; try assumption.
    specialize (Hz i Hi). unfold vert_alt. destruct (z2key (ef i) (ev i) oa E O) as [[mn mx]|]; [|discriminate].
    eexists. reflexivity. }
  exists gs. split; [exact Eq|]. split; [exact G|]. split; [exact N|].
  intros q k. rewrite S. clear S. apply qcheck_spec in Hq. split.
  - intros (i & vs & x' & y' & Hi & Hvs & Rx & Ry & -> & Hf).
    pose proof (Hv i Hi) as (Hh & Hvz & Hx & Hy & Hfr).
    unfold vert_alt in Hvs. destruct (z2key (ef i) (ev i) oa E O) as [[mn mx]|] eqn:Ez; [|discriminate].
    injection Hvs as <-. apply in_zrange in Hf.
    exists i, x', y', mn, mx. repeat split; try assumption; try lia.
    apply encode_interleave; try lia.
    + eapply (rel1_range (eh i) (ex i) oq x'); eauto; lia.
    + eapply (rel1_range (eh i) (ey i) oq y'); eauto; lia.
  - intros (i & x' & y' & mn & mx & Hi & Rx & Ry & -> & Ez & Hk).
    pose proof (Hv i Hi) as (Hh & Hvz & Hx & Hy & Hfr).
    exists i, (zrange mn mx), x', y'. repeat split; try assumption.
    + unfold vert_alt. now rewrite Ez.
    + symmetry. apply encode_interleave; try lia.
      * eapply (rel1_range (eh i) (ex i) oq x'); eauto; lia.
      * eapply (rel1_range (eh i) (ey i) oq y'); eauto; lia.
    + apply in_zrange. lia.
Qed.

(* ---- a failing ID (malformed, zoom outside 0..35) or a refused request gives an error ---- *)
Theorem e2q_bad_zoom {P} (par : P) b ids oh ov : qcheck oh ov = false -> e2q par b ids oh ov = Err.
Proof. intros H. unfold e2q, conv. now rewrite H. Qed.
Theorem e2q_malformed {P} (par : P) b ids oh ov s : In s ids -> parse_eid s = None -> e2q par b ids oh ov = Err.
Proof.
  intros Hin Hp. unfold e2q, conv. destruct (negb (qcheck oh ov)); [reflexivity|].
  eapply conv_loop_err; [exact Hin|]. unfold id_pairs. now rewrite Hp.
Qed.
Theorem e2q_inverted_heights {P} (par : P) ids oh ov : ids <> [] -> e2q par false ids oh ov = Err.
Proof.
  intros Hne. unfold e2q, conv. destruct (negb (qcheck oh ov)); [reflexivity|].
  destruct ids as [|s r]; [congruence|]. eapply conv_loop_err; [now left|].
  unfold id_pairs, vert_bad. destruct (parse_eid s); [|reflexivity]. now destruct (negb _).
Qed.

(* ---------- the inverse conversion ---------- *)
Definition tile_of (it : qitem) : eid :=
  let xy := decode (qk it) (qz it) in mk (qz it) (fst xy) (snd xy) (qvz it) (qvi it).
Definition qvalid (it : qitem) : Prop :=
  qcheck (qz it) (qvz it) = true /\ 0 <= qk it < 4 ^ qz it /\ qidx it = true.

Lemma pow4_le_limit z : 1 <= z <= 31 -> 4 ^ z <= quadkey_limit.
Proof.
  intros H. apply Z.le_trans with (4 ^ 31); [apply Z.pow_le_mono_r; lia|]. unfold quadkey_limit. vm_compute. discriminate.
Qed.

(* the decoded tile of a valid key lies in the grid and has that key *)
Lemma tile_of_valid it : qvalid it ->
  0 <= ex (tile_of it) < 2 ^ qz it /\ 0 <= ey (tile_of it) < 2 ^ qz it /\ encode (qz it) (ex (tile_of it)) (ey (tile_of it)) = qk it.
Proof.
  intros (Hc & Hk & _). apply qcheck_spec in Hc. unfold tile_of. cbn [ex ey mk].
  pose proof (encode_decode (qz it) (qk it) ltac:(lia) Hk) as D. destruct (decode (qk it) (qz it)) as [x y]. cbn [fst snd]. tauto.
Qed.

Lemma q2e_item_spec oh ov it : qvalid it -> 0 <= oh -> 0 <= ov ->
  exists l, q2e_item oh ov it = Ok l /\ forall s, In s l <-> exists j, zrel (tile_of it) oh ov j /\ s = print_eid j.
Proof.
  intros V Hoh Hov. pose proof (tile_of_valid it V) as (Bx & By & _). destruct V as (Hc & Hk & Hi).
  unfold q2e_item. rewrite Hc, Hi. cbn [negb]. pose proof Hc as Hc'. apply qcheck_spec in Hc'.
  pose proof (pow4_le_limit (qz it) ltac:(lia)).
  destruct (Z.ltb_spec quadkey_limit (qk it)); [lia|].
  eexists. split; [reflexivity|]. intros s. rewrite in_flat_map. unfold tile_of in *. cbn [ex ey mk] in *.
  set (xy := decode (qk it) (qz it)) in *. split.
  - intros ([x' y'] & Hh & Hs). apply in_map_iff in Hs. destruct Hs as (f & <- & Hf).
    apply hzoom_exact in Hh; try lia. apply vzoom_exact in Hf; try lia.
    exists (mk oh x' y' ov f). split; [|reflexivity]. unfold zrel. cbn. tauto.
  - intros (j & (Eh & Ev & Rx & Ry & Rf) & ->). cbn in Rx, Ry, Rf.
    exists (ex j, ey j). split; [apply hzoom_exact; try lia; auto|].
    apply in_map_iff. exists (ef j). split; [|apply vzoom_exact; try lia; auto].
    cbn [fst snd]. destruct j; cbn in *; subst; reflexivity.
Qed.

Lemma q2e_loop_spec oh ov items : Forall qvalid items -> 0 <= oh -> 0 <= ov ->
  exists l, q2e_loop oh ov items = Ok l /\
    forall s, In s l <-> exists it j, In it items /\ zrel (tile_of it) oh ov j /\ s = print_eid j.
Proof.
  intros F Hoh Hov. induction F as [|it r V F IH]; cbn [q2e_loop].
  - exists []. split; [reflexivity|]. intros s. split; [contradiction|]. intros (it & j & [] & _).
  - destruct (q2e_item_spec oh ov it V Hoh Hov) as (l & E & S). destruct IH as (t & Et & St).
    rewrite E, Et. exists (l ++ t)%list. split; [reflexivity|]. intros s. rewrite in_app_iff, S, St. split.
    + intros [(j & Z & ->)|(it' & j & Hin & Z & ->)]; [exists it, j|exists it', j]; cbn [In]; auto.
    + intros (it' & j & [<-|Hin] & Z & ->); [left; eauto|right; eauto].
Qed.

(* ConvertQuadkeysAndVerticalIDsToExtendedSpatialIDs on valid keys: exactly the zoom-changed IDs of the decoded tiles, none twice *)
Theorem q2e_spec items oh ov : Forall qvalid items -> echeck oh ov = true ->
  exists l, q2e items oh ov = Ok l /\ NoDup l /\
    forall s, In s l <-> exists it j, In it items /\ zrel (tile_of it) oh ov j /\ s = print_eid j.
Proof.
  intros F He. unfold q2e. rewrite He. cbn [negb]. apply echeck_spec in He.
  destruct (q2e_loop_spec oh ov items F ltac:(lia) ltac:(lia)) as (l & E & S). rewrite E.
  exists (dedup_strings l). split; [reflexivity|]. split; [apply dedup_strings_NoDup|].
  intros s. rewrite dedup_strings_In. apply S.
Qed.

(* ---------- round trip ---------- *)
Lemma zrel_valid_h i oh ov j : valid i -> 0 <= oh -> zrel i oh ov j -> 0 <= ex j < 2 ^ oh /\ 0 <= ey j < 2 ^ oh.
Proof.
  intros (Hh & Hv & Hx & Hy & Hf) Ho (_ & _ & Rx & Ry & _). split.
  - eapply (rel1_range (eh i) (ex i)); eauto; lia.
  - eapply (rel1_range (eh i) (ey i)); eauto; lia.
Qed.

(* IDs -> pairs at zooms (oh, ov) -> IDs at zooms (bh, bv): exactly the two successive per-axis zoom changes, no ID twice *)
Theorem roundtrip_spec {P} (par : P) es oh ov bh bv : qcheck oh ov = true -> echeck bh bv = true -> Forall valid es ->
  exists gs back, e2q par true (map print_eid es) oh ov = Ok gs /\ q2e (items_of gs) bh bv = Ok back /\ NoDup back /\
    forall s, In s back <-> exists i m j, In i es /\ zrel i oh ov m /\ zrel m bh bv j /\ s = print_eid j.
Proof.
  intros Hq He Hv. destruct (e2q_spec par es oh ov Hq Hv) as (gs & E & G & N & S).
  pose proof Hq as Hq'. apply qcheck_spec in Hq'. rewrite Forall_forall in Hv.
  (* every item built from the groups is (oh, key of m, ov, f of m) for a zoom-changed ID m *)
  assert (I : forall it, In it (items_of gs) <->
            exists i m, In i es /\ zrel i oh ov m /\ it = mkq oh (interleave oh (ex m) (ey m)) ov (ef m) true).
  { intros it. unfold items_of. rewrite in_flat_map. split.
    - intros (g & Hg & Hit). apply in_map_iff in Hit. destruct Hit as ([q f] & <- & Hp).
      destruct (G g Hg) as (-> & -> & _ & _).
      assert (Hc : In (q, f) (List.concat (map g_pairs gs))) by (apply in_concat; exists (g_pairs g); split; [now apply in_map|exact Hp]).
      apply S in Hc. destruct Hc as (i & m & Hi & Z & -> & ->). exists i, m. cbn [fst snd]. auto.
    - intros (i & m & Hi & Z & ->).
      assert (Hc : In (interleave oh (ex m) (ey m), ef m) (List.concat (map g_pairs gs))) by (apply S; exists i, m; auto).
      apply in_concat in Hc. destruct Hc as (ps & Hps & Hp). apply in_map_iff in Hps. destruct Hps as (g & <- & Hg).
      exists g. split; [exact Hg|]. destruct (G g Hg) as (-> & -> & _ & _).
      apply in_map_iff. exists (interleave oh (ex m) (ey m), ef m). split; [reflexivity|exact Hp]. }
  assert (T : forall i m, In i es -> zrel i oh ov m ->
            qvalid (mkq oh (interleave oh (ex m) (ey m)) ov (ef m) true) /\ tile_of (mkq oh (interleave oh (ex m) (ey m)) ov (ef m) true) = m).
  { intros i m Hi Z. destruct (zrel_valid_h i oh ov m (Hv i Hi) ltac:(lia) Z) as (Bx & By).
    rewrite <- encode_interleave by lia. split.
    - unfold qvalid. cbn [qz qvz qk qidx]. split; [exact Hq|]. split; [apply encode_bound; lia|reflexivity].
    - unfold tile_of. cbn [qz qvz qk qvi]. rewrite decode_encode by lia. cbn [fst snd].
      destruct Z as (Eh & Ev & _). destruct m; cbn in *; subst; reflexivity. }
  assert (F : Forall qvalid (items_of gs)).
  { apply Forall_forall. intros it Hit. apply I in Hit. destruct Hit as (i & m & Hi & Z & ->). now apply (T i m). }
  destruct (q2e_spec (items_of gs) bh bv F He) as (back & Eb & Nb & Sb).
  exists gs, back. split; [exact E|]. split; [exact Eb|]. split; [exact Nb|].
  intros s. rewrite Sb. split.
  - intros (it & j & Hit & Z & ->). apply I in Hit. destruct Hit as (i & m & Hi & Zm & ->).
    destruct (T i m Hi Zm) as (_ & Et). rewrite Et in Z. exists i, m, j. auto.
  - intros (i & m & j & Hi & Zm & Z & ->). destruct (T i m Hi Zm) as (_ & Et).
    exists (mkq oh (interleave oh (ex m) (ey m)) ov (ef m) true), j. split; [apply I; eauto|]. rewrite Et. auto.
Qed.

(* same zooms everywhere: the round trip returns exactly the input IDs *)
Theorem roundtrip_same {P} (par : P) es oh ov : qcheck oh ov = true -> Forall valid es ->
  (forall i, In i es -> eh i = oh /\ ev i = ov) ->
  exists gs back, e2q par true (map print_eid es) oh ov = Ok gs /\ q2e (items_of gs) oh ov = Ok back /\ NoDup back /\
    forall s, In s back <-> In s (map print_eid es).
Proof.
  intros Hq Hv Hz. assert (He : echeck oh ov = true) by (apply echeck_spec; apply qcheck_spec in Hq; lia).
  destruct (roundtrip_spec par es oh ov oh ov Hq He Hv) as (gs & back & E & Eb & N & S).
  exists gs, back. repeat split; try assumption.
  - intros Hs. apply S in Hs. destruct Hs as (i & m & j & Hi & Zm & Zj & ->).
    destruct (Hz i Hi) as (<- & <-). apply zrel_same in Zm. subst m. apply zrel_same in Zj. subst j. now apply in_map.
  - intros Hs. apply in_map_iff in Hs. destruct Hs as (i & <- & Hi). apply S.
    destruct (Hz i Hi) as (<- & <-). exists i, i, i. repeat split; try assumption; now apply zrel_same.
Qed.

(* ---------- spatial-ID notation: conjugation by the field permutation ---------- *)
Definition print_sid (z f x y : Z) : string := join [print z; print f; print x; print y].

Lemma sid_to_eid_print z f x y : sid_to_eid_str (print_sid z f x y) = Some (print_eid (mk z x y z f)).
Proof.
  unfold sid_to_eid_str, print_sid. rewrite split_join; [reflexivity|discriminate|].
  cbn [forallb]. now rewrite !print_noslash.
Qed.
Lemma eid_to_sid_print j : eid_to_sid_str (print_eid j) = Some (print_sid (eh j) (ef j) (ex j) (ey j)).
Proof.
  unfold eid_to_sid_str, print_eid. rewrite split_join; [reflexivity|discriminate|].
  cbn [forallb]. now rewrite !print_noslash.
Qed.

(* ConvertSpatialIDsToQuadkeysAndVerticalIDs on printed spatial IDs (z, f, x, y) = the extended form on (z, x, y, z, f) *)
Theorem s2q_conjugation {P} (par : P) b (l : list (Z * Z * Z * Z)) oh ov :
  s2q par b (map (fun t => let '(z, f, x, y) := t in print_sid z f x y) l) oh ov =
  e2q par b (map print_eid (map (fun t => let '(z, f, x, y) := t in mk z x y z f) l)) oh ov.
Proof.
  unfold s2q, sids_to_eids.
  assert (E : map_opt sid_to_eid_str (map (fun t => let '(z, f, x, y) := t in print_sid z f x y) l) =
              Some (map print_eid (map (fun t => let '(z, f, x, y) := t in mk z x y z f) l))).
  { induction l as [|[[[z f] x] y] r IH]; cbn [map map_opt]; [reflexivity|]. now rewrite sid_to_eid_print, IH. }
  now rewrite E.
Qed.
(* a spatial ID that does not have four fields is refused *)
Theorem s2q_malformed {P} (par : P) b sids oh ov s : In s sids -> sid_to_eid_str s = None -> s2q par b sids oh ov = Err.
Proof. intros Hin Hs. unfold s2q, sids_to_eids. now rewrite (map_opt_None _ _ _ Hin Hs). Qed.

(* ConvertQuadkeysAndVerticalIDsToSpatialIDs on valid keys: the extended result at zooms (z, z) rewritten as "z/f/x/y" *)
Theorem q2s_spec items z : Forall qvalid items -> echeck z z = true ->
  exists l, q2s items z = Ok l /\
    forall s, In s l <-> exists it j, In it items /\ zrel (tile_of it) z z j /\ s = print_sid z (ef j) (ex j) (ey j).
Proof.
  intros F He. destruct (q2e_spec items z z F He) as (l & E & N & S). unfold q2s. rewrite E.
  set (gf := fun s => match eid_to_sid_str s with Some t => t | None => EmptyString end).
  assert (M : map_opt eid_to_sid_str l = Some (map gf l)).
  { assert (A : forall s, In s l -> eid_to_sid_str s = Some (gf s)).
    { intros s Hs. apply S in Hs. destruct Hs as (it & j & _ & _ & ->). unfold gf. now rewrite eid_to_sid_print. }
    clear -A. induction l as [|a r IH]; cbn [map map_opt]; [reflexivity|].
    rewrite (A a (or_introl eq_refl)), IH; [reflexivity|]. intros s Hs. apply A. now right. }
  unfold eids_to_sids. rewrite M. exists (map gf l). split; [reflexivity|].
  intros s. rewrite in_map_iff. split.
  - intros (e & <- & He'). apply S in He'. destruct He' as (it & j & Hit & Z & ->). exists it, j. split; [exact Hit|]. split; [exact Z|].
    unfold gf. rewrite eid_to_sid_print. destruct Z as (-> & _). reflexivity.
  - intros (it & j & Hit & Z & ->). exists (print_eid j). split; [|apply S; eauto].
    unfold gf. rewrite eid_to_sid_print. destruct Z as (-> & _). reflexivity.
Qed.

(* NoDup of the spatial-ID result: the rewriting "h/x/y/v/f" -> "h/f/x/y" is injective on IDs whose zooms are both z *)
Lemma print_sid_inj z f x y f' x' y' : print_sid z f x y = print_sid z f' x' y' -> f = f' /\ x = x' /\ y = y'.
Proof.
  unfold print_sid. intros H. apply (f_equal split) in H.
  rewrite !split_join in H; try discriminate; try (cbn [forallb]; now rewrite !print_noslash).
  injection H as H1 H2 H3. repeat split; now apply print_inj.
Qed.
Theorem q2s_spec_nodup items z : Forall qvalid items -> echeck z z = true ->
  exists l, q2s items z = Ok l /\ NoDup l /\
    forall s, In s l <-> exists it j, In it items /\ zrel (tile_of it) z z j /\ s = print_sid z (ef j) (ex j) (ey j).
Proof.
  intros F He. destruct (q2e_spec items z z F He) as (l & E & N & S). unfold q2s. rewrite E.
  set (gf := fun s => match eid_to_sid_str s with Some t => t | None => EmptyString end).
  assert (A : forall s, In s l -> exists j, s = print_eid j /\ eh j = z /\ ev j = z /\ gf s = print_sid z (ef j) (ex j) (ey j)).
  { intros s Hs. apply S in Hs. destruct Hs as (it & j & _ & (Eh & Ev & _) & ->). exists j. repeat split; auto.
    unfold gf. rewrite eid_to_sid_print, Eh. reflexivity. }
  assert (M : map_opt eid_to_sid_str l = Some (map gf l)).
  { assert (A' : forall s, In s l -> eid_to_sid_str s = Some (gf s)).
    { intros s Hs. destruct (A s Hs) as (j & -> & _). unfold gf. now rewrite eid_to_sid_print. }
    clear -A'. induction l as [|a r IH]; cbn [map map_opt]; [reflexivity|].
    rewrite (A' a (or_introl eq_refl)), IH; [reflexivity|]. intros s Hs. apply A'. now right. }
  unfold eids_to_sids. rewrite M. exists (map gf l). split; [reflexivity|]. split.
  - (* injectivity of gf on l *)
    clear M E S. induction N as [|a r Ha Nr IH]; cbn [map]; constructor.
    + intros Hin. apply in_map_iff in Hin. destruct Hin as (b & Eb & Hb). apply Ha.
      destruct (A a (or_introl eq_refl)) as (ja & -> & Eha & Eva & Ga). destruct (A b (or_intror Hb)) as (jb & -> & Ehb & Evb & Gb).
      rewrite Ga, Gb in Eb. apply print_sid_inj in Eb. destruct Eb as (E1 & E2 & E3).
      replace ja with jb; [exact Hb|]. destruct ja, jb; cbn in *; congruence.
    + apply IH. intros s Hs. apply A. now right.
  - intros s. rewrite in_map_iff. split.
    + intros (e & <- & He'). destruct (A e He') as (j & -> & _ & _ & G). apply S in He'. destruct He' as (it & j' & Hit & Z & Ej).
      exists it, j'. split; [exact Hit|]. split; [exact Z|]. unfold gf. rewrite Ej, eid_to_sid_print. destruct Z as (-> & _). reflexivity.
    + intros (it & j & Hit & Z & ->). exists (print_eid j). split; [|apply S; eauto].
      unfold gf. rewrite eid_to_sid_print. destruct Z as (-> & _). reflexivity.
Qed.

(* ---------- refusals of the inverse conversion ---------- *)
Definition item_refused (it : qitem) : bool := negb (qcheck (qz it) (qvz it)) || (quadkey_limit <? qk it) || negb (qidx it).
Lemma q2e_item_refused oh ov it : item_refused it = true -> q2e_item oh ov it = Err.
Proof.
  unfold item_refused, q2e_item. destruct (negb (qcheck (qz it) (qvz it))); [reflexivity|].
  destruct (quadkey_limit <? qk it); [reflexivity|]. cbn [orb]. intros H. destruct (qidx it); [discriminate|reflexivity].
Qed.
Theorem q2e_bad_zoom items oh ov : echeck oh ov = false -> q2e items oh ov = Err.
Proof. intros H. unfold q2e. now rewrite H. Qed.
(* an element with a zoom outside 1..31 x 0..35, a key above the literal limit, or inverted heights — at any position — fails the call *)
Theorem q2e_refuses items oh ov it : In it items -> item_refused it = true -> q2e items oh ov = Err.
Proof.
  intros Hin Hr. unfold q2e. destruct (negb (echeck oh ov)); [reflexivity|].
  assert (E : q2e_loop oh ov items = Err).
  { induction items as [|a r IH]; [contradiction|]. cbn [q2e_loop]. destruct Hin as [->|Hin].
    - now rewrite (q2e_item_refused oh ov it Hr).
    - destruct (q2e_item oh ov a); [|reflexivity]. now rewrite (IH Hin). }
  now rewrite E.
Qed.
Theorem q2s_refuses items z it : In it items -> item_refused it = true -> q2s items z = Err.
Proof. intros Hin Hr. unfold q2s. now rewrite (q2e_refuses items z z it Hin Hr). Qed.
Theorem q2s_bad_zoom items z : echeck z z = false -> q2s items z = Err.
Proof. intros H. unfold q2s. now rewrite (q2e_bad_zoom items z z H). Qed.

(* ---------- the results stated against the C03 model ChangeZoom.change_eids ---------- *)
Lemma one_zrel i oh ov j : wf i -> 0 <= oh -> 0 <= ov -> In j (one oh ov i) <-> zrel i oh ov j.
Proof.
  intros W Hoh Hov. rewrite (one_exact oh ov i j W Hoh Hov). unfold zrel, overlaps. split.
  - intros (A & B & C & D & E). rewrite A, B in *. tauto.
  - intros (A & B & C & D & E). rewrite A, B. tauto.
Qed.
Lemma change_eids_zrel es oh ov j : Forall valid es -> 0 <= oh -> 0 <= ov ->
  In j (change_eids es oh ov) <-> exists i, In i es /\ zrel i oh ov j.
Proof.
  intros V Hoh Hov. rewrite Forall_forall in V. rewrite change_In. split; intros (i & Hi & H); exists i; (split; [exact Hi|]).
  - apply one_zrel in H; auto. apply valid_wf; auto.
  - apply one_zrel; auto. apply valid_wf; auto.
Qed.
(* the pairs are the (key, index) of ChangeExtendedSpatialIdsZoom's result *)
Theorem e2q_spec_change {P} (par : P) es oh ov : qcheck oh ov = true -> Forall valid es ->
  exists gs, e2q par true (map print_eid es) oh ov = Ok gs /\
    forall q f, In (q, f) (List.concat (map g_pairs gs)) <->
      exists j, In j (change_eids es oh ov) /\ q = interleave oh (ex j) (ey j) /\ f = ef j.
Proof.
  intros Hq Hv. destruct (e2q_spec par es oh ov Hq Hv) as (gs & E & _ & _ & S). exists gs. split; [exact E|].
  apply qcheck_spec in Hq. intros q f. rewrite S. split.
  - intros (i & j & Hi & Z & A & B). exists j. split; [apply change_eids_zrel; try lia; eauto|auto].
  - intros (j & Hj & A & B). apply change_eids_zrel in Hj; try lia; auto. destruct Hj as (i & Hi & Z). exists i, j. auto.
Qed.
Lemma change_eids_valid_h es oh ov m : Forall valid es -> 0 <= oh -> 0 <= ov -> In m (change_eids es oh ov) ->
  eh m = oh /\ ev m = ov /\ 0 <= ex m /\ 0 <= ey m.
Proof.
  intros V Hoh Hov Hm. apply change_eids_zrel in Hm; auto. destruct Hm as (i & Hi & Z). rewrite Forall_forall in V.
  destruct (zrel_valid_h i oh ov m (V i Hi) Hoh Z) as (Bx & By). destruct Z as (A & B & _). lia.
Qed.
(* the round trip returns exactly the printed IDs of change_eids (change_eids es oh ov) bh bv *)
Theorem roundtrip_spec_change {P} (par : P) es oh ov bh bv : qcheck oh ov = true -> echeck bh bv = true -> Forall valid es ->
  exists gs back, e2q par true (map print_eid es) oh ov = Ok gs /\ q2e (items_of gs) bh bv = Ok back /\ NoDup back /\
    forall s, In s back <-> exists j, In j (change_eids (change_eids es oh ov) bh bv) /\ s = print_eid j.
Proof.
  intros Hq He Hv. destruct (roundtrip_spec par es oh ov bh bv Hq He Hv) as (gs & back & E & Eb & N & S).
  exists gs, back. repeat split; try assumption.
  - intros Hs. apply S in Hs. destruct Hs as (i & m & j & Hi & Zm & Zj & ->). exists j. split; [|reflexivity].
    apply change_In. exists m. apply qcheck_spec in Hq. apply echeck_spec in He. split.
    + apply change_eids_zrel; try lia; eauto.
    + rewrite Forall_forall in Hv. destruct (zrel_valid_h i oh ov m (Hv i Hi) ltac:(lia) Zm) as (Bx & By). pose proof Zm as (A & B & _).
      apply one_zrel; [unfold wf; lia|lia|lia|exact Zj].
  - intros (j & Hj & ->). apply S. apply change_In in Hj. destruct Hj as (m & Hm & Hj).
    apply qcheck_spec in Hq. apply echeck_spec in He.
    destruct (change_eids_valid_h es oh ov m Hv ltac:(lia) ltac:(lia) Hm) as (A & B & C & D).
    apply change_eids_zrel in Hm; try lia; auto. destruct Hm as (i & Hi & Zm).
    apply one_zrel in Hj; [|unfold wf; lia|lia|lia]. exists i, m, j. auto.
Qed.

