(* BitAlt.v — C17: binary-subdivision altitude IDs (transform/convert_quadkey_and_Vertical_id.go).
   Part 1: calcBitIndex over an ABSTRACT carrier — only `geb` (altitude >= border) and `half` ((max-min)/2+min) are used, so the
           range of the result, its monotonicity in the altitude and the contiguity of the emitted list hold for ANY float
           semantics with a transitive comparison; no rounding analysis is needed for these parts.
   Part 2: the gap-fill list of convertVerticallIDToBit / convertBitToVerticalID and its set-level characterisation.
   Part 3: the bit-exact executable model on Coq primitive floats (binary64), operation by operation in the order of the Go code,
           and the models of the exported conversions in height-range mode (horizontal part: the code's own answers, as parameters).
   No real numbers here (this file is extracted); the Flocq side is in BitAltF.v, the exact twin in BitAltR.v. *)
From Coq Require Import ZArith Lia List Bool Floats String Permutation MSets.MSetAVL Structures.OrdersEx.
From SID Require Import Base Str Ids F64 PointF ZoomCore.
Import ListNotations.
Open Scope Z_scope.

(* ------------------------------------------------------------------------------------------------------------------ *)
(* Part 1 — calcBitIndex over an abstract comparison *)
Section Abstract.
  Variable F : Type.
  Variable geb : F -> F -> bool.                 (* a >= b *)
  Variable half : F -> F -> F.                   (* border of [mn, mx) *)

  (* `for i = 0; i < outputZoom; i++ { bit := bitIndex << 1; border := half(max,min); if alt >= border { bit++; min = border } else { max = border } }` *)
  Fixpoint bits (n : nat) (alt mx mn : F) (acc : Z) : Z :=
    match n with
    | O => acc
    | S m => let b := half mx mn in
             if geb alt b then bits m alt mx b (2 * acc + 1) else bits m alt b mn (2 * acc)
    end.

  Lemma bits_range n : forall alt mx mn acc,
    acc * 2 ^ Z.of_nat n <= bits n alt mx mn acc < (acc + 1) * 2 ^ Z.of_nat n.
  Proof.
    induction n as [|m IH]; intros alt mx mn acc; cbn [bits].
    - cbn. lia.
    - rewrite Nat2Z.inj_succ, Z.pow_succ_r by lia.
      destruct (geb alt (half mx mn)).
      + specialize (IH alt mx (half mx mn) (2 * acc + 1)). nia.
      + specialize (IH alt (half mx mn) mn (2 * acc)). nia.
  Qed.

  Hypothesis geb_trans : forall a b c, geb a b = true -> geb b c = true -> geb a c = true.

  (* monotone in the altitude *)
  Theorem bits_mono n : forall a1 a2 mx mn acc, geb a2 a1 = true ->
    bits n a1 mx mn acc <= bits n a2 mx mn acc.
  Proof.
    induction n as [|m IH]; intros a1 a2 mx mn acc H12; cbn [bits]; [lia|].
    set (b := half mx mn).
    destruct (geb a1 b) eqn:E1.
    - rewrite (geb_trans a2 a1 b H12 E1). now apply IH.
    - destruct (geb a2 b) eqn:E2; [|now apply IH].
      pose proof (bits_range m a1 b mn (2 * acc)). pose proof (bits_range m a2 mx b (2 * acc + 1)). nia.
  Qed.
End Abstract.

(* ------------------------------------------------------------------------------------------------------------------ *)
(* Part 2 — the emitted list: `if max == min { return [max] }; l := [max, min]; for i := min+1; i < max; i++ { l = append(l, i) }` *)
Definition run_of (maxb minb : Z) : list Z :=
  if maxb =? minb then [maxb] else maxb :: minb :: zrange (minb + 1) (maxb - 1).

Lemma run_of_In maxb minb x : minb <= maxb -> In x (run_of maxb minb) <-> minb <= x <= maxb.
Proof.
  intros H. unfold run_of. destruct (Z.eqb_spec maxb minb) as [->|Hne].
  - cbn. split; [intros [<-|[]]; lia | intros; left; lia].
  - cbn [In]. rewrite in_zrange. split; [intros [<-|[<-|?]]; lia | intros; lia].
Qed.
Lemma run_of_NoDup maxb minb : minb <= maxb -> NoDup (run_of maxb minb).
Proof.
  intros H. unfold run_of. destruct (Z.eqb_spec maxb minb) as [->|Hne].
  - constructor; [intros []|constructor].
  - constructor; [|constructor; [|apply zrange_NoDup]].
    + cbn [In]. rewrite in_zrange. lia.
    + rewrite in_zrange. lia.
Qed.
Lemma run_of_perm maxb minb : minb <= maxb -> Permutation (run_of maxb minb) (zrange minb maxb).
Proof.
  intros H. apply NoDup_Permutation; [now apply run_of_NoDup | apply zrange_NoDup|].
  intros x. rewrite run_of_In, in_zrange by exact H. tauto.
Qed.
Lemma run_of_length maxb minb : minb <= maxb -> List.length (run_of maxb minb) = Z.to_nat (maxb - minb + 1).
Proof. intros H. rewrite (Permutation_length (run_of_perm _ _ H)). apply zrange_length. Qed.
(* without the order hypothesis (never the case for the code, by monotonicity): just the two ends *)
Lemma run_of_reversed maxb minb : maxb < minb -> run_of maxb minb = [maxb; minb].
Proof. intros H. unfold run_of. destruct (Z.eqb_spec maxb minb); [lia|]. now rewrite zrange_empty by lia. Qed.

(* ------------------------------------------------------------------------------------------------------------------ *)
(* Part 3 — the bit-exact model on binary64 *)
Definition geF (a b : float) : bool := (b <=? a)%float.                    (* Go: a >= b (false when either is NaN) *)
Definition halfF (mx mn : float) : float := ((mx - mn) / 2 + mn)%float.    (* (maxHeight-minHeight)/2 + minHeight *)

(* calcBitIndex(altitude, outputZoom, maxHeight, minHeight); a non-positive zoom runs the loop zero times *)
Definition calc_bit_index (alt : float) (zoom : Z) (mx mn : float) : Z :=
  bits float geF halfF (Z.to_nat zoom) alt mx mn 0.

Theorem calc_bit_index_range alt zoom mx mn : 0 <= zoom -> 0 <= calc_bit_index alt zoom mx mn < 2 ^ zoom.
Proof.
  intros Hz. unfold calc_bit_index. pose proof (bits_range float geF halfF (Z.to_nat zoom) alt mx mn 0) as H.
  rewrite Z2Nat.id in H by exact Hz. lia.
Qed.
Lemma calc_bit_index_nonpos alt zoom mx mn : zoom <= 0 -> calc_bit_index alt zoom mx mn = 0.
Proof. intros H. unfold calc_bit_index. replace (Z.to_nat zoom) with 0%nat by lia. reflexivity. Qed.

(* float64(vIndex) * alt25 / math.Pow(2, float64(vZoom)) — the altitude of the lower face of vertical index f at zoom v *)
Definition vox_alt (f v : Z) : float := (of_Z f * pow2f 25 / pow2f v)%float.

(* convertVerticallIDToBit(vZoom, vIndex, outputZoom, maxHeight, minHeight) *)
Definition vid_to_bit (v f oz : Z) (mx mn : float) : list Z :=
  let hi := vox_alt (f + 1) v in
  let lo := vox_alt f v in
  run_of (calc_bit_index hi oz mx mn) (calc_bit_index lo oz mx mn).

(* every emitted index is inside 0 .. 2^zoom-1, whatever the floats are (clamping needs no separate argument) *)
Theorem vid_to_bit_range v f oz mx mn x : 0 <= oz -> In x (vid_to_bit v f oz mx mn) -> 0 <= x < 2 ^ oz.
Proof.
  intros Hz. unfold vid_to_bit.
  pose proof (calc_bit_index_range (vox_alt (f + 1) v) oz mx mn Hz) as Hh.
  pose proof (calc_bit_index_range (vox_alt f v) oz mx mn Hz) as Hl.
  set (hi := calc_bit_index _ _ _ _) in *. set (lo := calc_bit_index (vox_alt f v) _ _ _) in *.
  destruct (Z.le_gt_cases lo hi) as [Hle|Hgt].
  - rewrite run_of_In by exact Hle. lia.
  - rewrite run_of_reversed by lia. cbn. intros [<-|[<-|[]]]; lia.
Qed.

(* "zoom/index" *)
Definition vstr (oz i : Z) : string := (print oz ++ "/" ++ print i)%string.

(* convertBitToVerticalID(vZoom, vIndex, outputZoom, maxHeight, minHeight):
   voxelHeight := (max-min)/2^vZoom; the two bounds float64(vIndex+1)*voxelHeight+min and float64(vIndex)*voxelHeight+min go through
   NewPoint(0,0,alt) (which stores the altitude unchanged) and GetExtendedSpatialIdsOnPoints(.., 0, outputZoom), i.e. the C01 altitude index.
   `None`: an index is not a finite number (outside every domain the property speaks about). *)
Definition cell_height (vz : Z) (mx mn : float) : float := ((mx - mn) / pow2f vz)%float.
Definition cell_alt (k : Z) (h mn : float) : float := (of_Z k * h + mn)%float.
Definition bit_to_vid_idx (vz k oz : Z) (mx mn : float) : option (Z * Z) :=
  let h := cell_height vz mx mn in
  match f_f (cell_alt (k + 1) h mn) oz, f_f (cell_alt k h mn) oz with
  | Some hi, Some lo => Some (hi, lo)
  | _, _ => None
  end.
(* [max; min] always (twice the same when they coincide), then the gap *)
Definition vid_run (hi lo : Z) : list Z := hi :: lo :: (if hi =? lo then [] else zrange (lo + 1) (hi - 1)).
Definition bit_to_vid (vz k oz : Z) (mx mn : float) : option (list string) :=
  match bit_to_vid_idx vz k oz mx mn with
  | Some (hi, lo) => Some (map (vstr oz) (vid_run hi lo))
  | None => None
  end.

Lemma vid_run_In hi lo x : lo <= hi -> In x (vid_run hi lo) <-> lo <= x <= hi.
Proof.
  intros H. unfold vid_run. cbn [In]. destruct (Z.eqb_spec hi lo) as [->|Hne].
  - cbn. split; [intros [<-|[<-|[]]]; lia | intros; left; lia].
  - rewrite in_zrange. split; [intros [<-|[<-|?]]; lia | intros; lia].
Qed.

(* finite sets of (quadkey, index) pairs: the Go map `deduplication` *)
Module ZZ := PairOrderedType Z_as_OT Z_as_OT.
Module PS := MSetAVL.Make ZZ.

(* ---- zoom checks ---- *)
Definition quadkey_check_zoom (h v : Z) : bool := (1 <=? h) && (h <=? 31) && ((0 <=? v) && (v <=? 35)).
Definition ext_check_zoom (h v : Z) : bool := check_zoom h && check_zoom v.

(* ---- the exported conversions. The horizontal part (HorizontalZoom + quadkey encoding/decoding) is the subject of C11 and enters as a
        parameter answered by the code itself; everything vertical, the pairing, the cross-ID de-duplication and the error paths are modelled. ---- *)
Section Conversions.
  (* quadkeys of integrate.HorizontalZoom(h, x, y, outH), in the order of the Go loops *)
  Variable hkeys : Z -> Z -> Z -> Z -> list Z.
  (* horizontal ID strings "outH/x/y" of HorizontalZoom(qz, convertQuadkeyToHorizontalID(quadkey, qz), outH) *)
  Variable hids : Z -> Z -> Z -> list string.

  (* `if _, ok := deduplication[newID]; ok { continue }` over the quadkey × vertical product; the map keyed on [2]int64 is a finite set of pairs *)
  Fixpoint fresh_pairs (ps : list (Z * Z)) (seen : PS.t) : list (Z * Z) * PS.t :=
    match ps with
    | [] => ([], seen)
    | p :: r => if PS.mem p seen then fresh_pairs r seen
                else let '(o, s) := fresh_pairs r (PS.add p seen) in (p :: o, s)
    end.

  (* vertical indices of one ID: equal heights = plain zoom change (not C17), max > min = binary subdivision, else error *)
  Definition vertical_part (v f outV : Z) (mx mn : float) : result (list Z) :=
    if (mx =? mn)%float then Ok (vzoom v f outV)
    else if (mn <? mx)%float then Ok (vid_to_bit v f outV mx mn)
    else Err.

  Fixpoint to_qv_loop (ids : list string) (outH outV : Z) (mx mn : float) (seen : PS.t) : result (list (list (Z * Z))) :=
    match ids with
    | [] => Ok []
    | s :: r =>
        match parse_eid s with
        | None => Err
        | Some i =>
            if negb (ext_check_zoom (eh i) (ev i)) then Err
            else match vertical_part (ev i) (ef i) outV mx mn with
                 | Err => Err
                 | Ok vs =>
                     let ps := flat_map (fun q => map (fun v => (q, v)) vs) (hkeys (eh i) (ex i) (ey i) outH) in
                     let '(o, seen') := fresh_pairs ps seen in
                     match to_qv_loop r outH outV mx mn seen' with
                     | Err => Err
                     | Ok t => Ok (if match o with [] => true | _ => false end then t else o :: t)
                     end
                 end
        end
    end.
  (* ConvertExtendedSpatialIDsToQuadkeysAndVerticalIDs: the list of innerIDList's, one per input ID that contributed a new pair *)
  Definition ext_to_qv (ids : list string) (outH outV : Z) (mx mn : float) : result (list (list (Z * Z))) :=
    if negb (quadkey_check_zoom outH outV) then Err else to_qv_loop ids outH outV mx mn PS.empty.
  (* ConvertSpatialIDsToQuadkeysAndVerticalIDs: arity 4 check and field permutation first *)
  Definition sid_to_qv (ids : list string) (outH outV : Z) (mx mn : float) : result (list (list (Z * Z))) :=
    match map_opt sid_to_eid_str ids with
    | Some e => ext_to_qv e outH outV mx mn
    | None => Err
    end.

  (* one element of the reverse conversion: (quadkeyZoom, quadkey, vZoom, vIndex, maxHeight, minHeight) *)
  Record qvid := { q_hz : Z; q_key : Z; q_vz : Z; q_idx : Z; q_max : float; q_min : float }.
  Definition qkey_limit : Z := 4611686018427388064.
  Definition from_qv_one (q : qvid) (outH outV : Z) : option (result (list string)) :=
    if negb (quadkey_check_zoom (q_hz q) (q_vz q)) then Some Err
    else if qkey_limit <? q_key q then Some Err
    else if (q_max q =? q_min q)%float then
      Some (Ok (flat_map (fun hs => map (fun v => (hs ++ "/" ++ vstr outV v)%string) (vzoom (q_vz q) (q_idx q) outV)) (hids (q_hz q) (q_key q) outH)))
    else if (q_min q <? q_max q)%float then
      if 2 ^ (q_vz q + 1) <? q_idx q then Some Err
      else match bit_to_vid (q_vz q) (q_idx q) outV (q_max q) (q_min q) with
           | Some vs => Some (Ok (flat_map (fun hs => map (fun v => (hs ++ "/" ++ v)%string) vs) (hids (q_hz q) (q_key q) outH)))
           | None => None
           end
    else Some Err.
  Fixpoint from_qv_loop (l : list qvid) (outH outV : Z) : option (result (list string)) :=
    match l with
    | [] => Some (Ok [])
    | q :: r => match from_qv_one q outH outV with
                | None => None
                | Some Err => Some Err
                | Some (Ok a) => match from_qv_loop r outH outV with
                                 | None => None
                                 | Some Err => Some Err
                                 | Some (Ok t) => Some (Ok (a ++ t)%list)
                                 end
                end
    end.
  (* ConvertQuadkeysAndVerticalIDsToExtendedSpatialIDs (the result is de-duplicated through a map: a set) *)
  Definition qv_to_ext (l : list qvid) (outH outV : Z) : option (result (list string)) :=
    if negb (ext_check_zoom outH outV) then Some Err else from_qv_loop l outH outV.
  (* ConvertQuadkeysAndVerticalIDsToSpatialIDs: the extended conversion at (outputZoom, outputZoom), then each ID "z/x/y/z/f" rewritten
     as "z/f/x/y" (fields 0, 4, 1, 2 of the split) *)
  Definition qv_to_sid (l : list qvid) (z : Z) : option (result (list string)) :=
    match qv_to_ext l z z with
    | Some (Ok a) => match map_opt eid_to_sid_str a with Some r => Some (Ok r) | None => None end
    | o => o
    end.

End Conversions.
