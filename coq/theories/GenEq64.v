(* GenEq64.v — the integer kernels regenerated with Go's int64 semantics (generated/Generated64.v, vocabulary I64.v): bridge to the unbounded
   kernels of generated/Generated.v where nothing wraps, equality with the property owners' hand-written int64 models, split by kernel:
   GenEq64Tac (tactics, CalculateArithmeticShift, the zoom checks), GenEq64Alt (altitude keys: AltKey.v), GenEq64Zoom (zoom change, Higher),
   GenEq64Merge (merge threshold: Merge.v), GenEq64Quadkey (quadkey bit loops: Quadkey.v). *)
From SID Require Export I64 GenEq64Tac GenEq64Alt GenEq64Zoom GenEq64Merge GenEq64Quadkey.
