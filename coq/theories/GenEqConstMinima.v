(* GenEqConstMinima.v — generated constants = the literals the models use: consts.Minima, an exact decimal (m, e) = m * 10^e (cited by C20). *)
From Coq Require Import ZArith Bool Lia.
From SIDGen Require Import Generated.
Open Scope Z_scope.

Lemma gen_Minima_eq : Generated.Minima = (1, -10). Proof. reflexivity. Qed.
