(* GenC20.v — the threshold consts.Minima, as regenerated from the Go source on every run (generated/Generated.v, decimal (m, e) = m * 10^e),
   is the threshold the C20 models use: Quat.minima over R (fallback test of RotateBetweenVector, `cos+1 < Minima`, and the second
   fallback axis test `axis.Norm() < Minima`) and VecF.c_minima on binary64 (the float64 nearest to it, as the Go compiler rounds the
   constant). An edit of consts.Minima in /repo changes Generated.Minima and breaks these lemmas, hence properties/C20.v. *)
From Coq Require Import ZArith Reals Lra Floats.
From Flocq Require Import Core BinarySingleNaN.
From Interval Require Import Tactic.
From SIDGen Require Generated.
From SID Require Import Base F64 Vec Quat VecF VecExact OrdMax PointLaws GenEqConstMinima.
Open Scope R_scope.

(* value of a generated decimal constant (m, e), e <= 0 *)
Definition dec2R (c : Z * Z) : R := IZR (fst c) / IZR (10 ^ (- snd c)).

Theorem minima_is_generated : minima = dec2R Generated.Minima.
Proof. rewrite gen_Minima_eq. unfold minima, dec2R; cbn [fst snd]. change (- -10)%Z with 10%Z. rewrite pow_IZR. cbn. lra. Qed.

(* the float64 constant of the model: finite, and the binary64 number nearest to the generated decimal (half an ulp = 2^-87) *)
Theorem c_minima_is_generated : fin c_minima /\ Rabs (rv c_minima - dec2R Generated.Minima) <= / IZR (2 ^ 87).
Proof.
  rewrite gen_Minima_eq. split; [unfold fin; rewrite is_finite_Prim2B; reflexivity|].
  rewrite rv_SF. replace (Prim2SF c_minima) with (S754_finite false 7737125245533627 (-86)) by (vm_compute; reflexivity).
  unfold SF2R, F2R, dec2R; cbn [Fnum Fexp cond_Zopp fst snd]. change (- -10)%Z with 10%Z.
  replace (bpow radix2 (-86)) with (/ IZR (2 ^ 86)) by (cbn; lra).
  interval with (i_prec 120).
Qed.
Theorem minima_generated_both : minima = dec2R Generated.Minima /\ fin c_minima /\ Rabs (rv c_minima - minima) <= / IZR (2 ^ 87).
Proof. destruct c_minima_is_generated as [F B]. rewrite <- minima_is_generated in B. exact (conj minima_is_generated (conj F B)). Qed.

(* ======================================================================================================================================
   The float64 helpers of common / common/spatial as REGENERATED from the Go source (generated/GeneratedFS.v; struct values are tuples;
   math.Hypot/Sin/Cos are fields of the record GeneratedF.libm) — the main binary64 results of VecExact.v, FloatId.v, MatCtor.v, PointLaws.v
   restated over those generated definitions (through the GenEqFS* files, gen_*_eq). Not regenerated, hence not covered here: UniqueAppend,
   MaxPoint, MinPoint (slices of pointers, range loops): for them the tie to the source remains the bit-for-bit differential run only.
   ====================================================================================================================================== *)
From SIDGen Require GeneratedF GeneratedFS.
From SID Require Import FloatId MatCtor GenEqFSTac GenEqFSCommon GenEqFSR3 GenEqFSVector GenEqFSMatrix GenEqFSPoint GenEqFSLine GenEqFSQuat.
Import List. Import ListNotations.

Notation f3 := (pfloat * pfloat * pfloat)%type.
Notation f33 := (f3 * f3 * f3)%type.
(* tuples of the generated side as the records of the models: tv (vt t) = t, tm (mt t) = t *)
Definition vt (t : f3) : fvec := let '(a, b, c) := t in FV a b c.
Definition mt (t : f33) : fmat := let '((a, b, c), (d, e, f), (g, h, i)) := t in FM a b c d e f g h i.
Lemma tv_vt t : tv (vt t) = t.
Proof. destruct t as [[a b] c]. reflexivity. Qed.
Lemma tm_mt t : tm (mt t) = t.
Proof. destruct t as [[[[a b] c] [[d e] f]] [[g h] i]]. reflexivity. Qed.
Lemma vt_tv v : vt (tv v) = v.
Proof. destruct v. reflexivity. Qed.
Lemma mt_tm a : mt (tm a) = a.
Proof. destruct a. reflexivity. Qed.

(* bridges: each generated function on tuples is the model on the corresponding records (the gen_ lemmas, with tuples opened) *)
Ltac opent := repeat match goal with
  | t : f3 |- _ => let a := fresh "a" in let b := fresh "b" in let c := fresh "c" in destruct t as [[a b] c]
  | t : f33 |- _ => let r0 := fresh "r" in let r1 := fresh "r" in let r2 := fresh "r" in destruct t as [[r0 r1] r2]
  end.
Lemma B_dot a b : GeneratedFS.Vector3_Dot a b = fdot (vt a) (vt b).
Proof. opent. exact (gen_Vector3_Dot_eq (FV _ _ _) (FV _ _ _)). Qed.
Lemma B_cross a b : GeneratedFS.Vector3_Cross a b = tv (fcross (vt a) (vt b)).
Proof. opent. exact (gen_Vector3_Cross_eq (FV _ _ _) (FV _ _ _)). Qed.
Lemma B_l1 a : GeneratedFS.Vector3_L1Norm a = fl1norm (vt a).
Proof. opent. exact (gen_Vector3_L1Norm_eq (FV _ _ _)). Qed.
Lemma B_mul a b : GeneratedFS.Matrix3_Mul a b = tm (fmmul (mt a) (mt b)).
Proof. opent. exact (gen_Matrix3_Mul_eq (FM _ _ _ _ _ _ _ _ _) (FM _ _ _ _ _ _ _ _ _)). Qed.
Lemma B_mulvec a v : GeneratedFS.Matrix3_MulVec a v = tv (fmulvec (mt a) (vt v)).
Proof. opent. exact (gen_Matrix3_MulVec_eq (FM _ _ _ _ _ _ _ _ _) (FV _ _ _)). Qed.
Lemma B_unit : GeneratedFS.NewUnitMatrix3 = tm fmunit.
Proof. exact gen_NewUnitMatrix3_eq. Qed.
Lemma B_newline p q : GeneratedFS.NewLineFromPoints p q = (p, tv (fvec_from_points (vt p) (vt q))).
Proof. opent. exact (gen_NewLineFromPoints_eq (FV _ _ _) (FV _ _ _)). Qed.
Lemma B_topoint p d t : GeneratedFS.Line3_ToPoint (p, d) t = tv (fline_to_point (vt p) (vt d) t).
Proof. opent. exact (gen_Line3_ToPoint_eq (FV _ _ _) (FV _ _ _) t). Qed.
Lemma B_start p d : GeneratedFS.Line3_Start (p, d) = p.
Proof. opent. exact (gen_Line3_Start_eq (FV _ _ _) (FV _ _ _)). Qed.
Lemma B_isclose p q eps : GeneratedFS.Point3_IsClose p q eps = fis_close (vt p) (vt q) eps.
Proof. opent. exact (gen_Point3_IsClose_eq (FV _ _ _) (FV _ _ _) eps). Qed.
Lemma B_rotate M a b : GeneratedFS.RotateBetweenVector M a b =
  tq (frotate_between (GeneratedF.m_hypot M) (GeneratedF.m_sin M) (GeneratedF.m_cos M) (vt a) (vt b)).
Proof. opent. exact (gen_RotateBetweenVector_eq M (FV _ _ _) (FV _ _ _)). Qed.
Lemma B_axis_angle M a ang : GeneratedFS.QuatFromAxisAngle M a ang =
  tq (fquat_axis_angle (GeneratedF.m_hypot M) (GeneratedF.m_sin M) (GeneratedF.m_cos M) (vt a) ang).
Proof. opent. exact (gen_QuatFromAxisAngle_eq M (FV _ _ _) ang). Qed.

(* ---- line3.go ---- *)
Theorem gen_line_start p q : GeneratedFS.Line3_Start (GeneratedFS.NewLineFromPoints p q) = p.
Proof. rewrite B_newline, B_start. reflexivity. Qed.
Theorem gen_line_to_point_0 p d : finv (vt p) -> finv (vt d) -> veqR (vt (GeneratedFS.Line3_ToPoint (p, d) 0%float)) (vt p).
Proof. intros Fp Fd. rewrite B_topoint, vt_tv. now apply fline_to_point_0. Qed.
Theorem gen_line_to_point_1 p q : finv (vt p) -> finv (vt q) ->
  (Rabs (rnd (rv (fx (vt q)) - rv (fx (vt p)))) < emaxR /\ Rabs (rnd (rv (fx (vt p)) + rnd (rv (fx (vt q)) - rv (fx (vt p))))) < emaxR) ->
  (Rabs (rnd (rv (fy (vt q)) - rv (fy (vt p)))) < emaxR /\ Rabs (rnd (rv (fy (vt p)) + rnd (rv (fy (vt q)) - rv (fy (vt p))))) < emaxR) ->
  (Rabs (rnd (rv (fz (vt q)) - rv (fz (vt p)))) < emaxR /\ Rabs (rnd (rv (fz (vt p)) + rnd (rv (fz (vt q)) - rv (fz (vt p))))) < emaxR) ->
  let r := vt (GeneratedFS.Line3_ToPoint (GeneratedFS.NewLineFromPoints p q) 1%float) in
  finv r /\
  Rabs (rv (fx r) - rv (fx (vt q))) <= bpow radix2 (-51) * (Rabs (rv (fx (vt p))) + Rabs (rv (fx (vt q)))) /\
  Rabs (rv (fy r) - rv (fy (vt q))) <= bpow radix2 (-51) * (Rabs (rv (fy (vt p))) + Rabs (rv (fy (vt q)))) /\
  Rabs (rv (fz r) - rv (fz (vt q))) <= bpow radix2 (-51) * (Rabs (rv (fz (vt p))) + Rabs (rv (fz (vt q)))).
Proof.
  intros Fp Fq X Y Z. rewrite B_newline, B_topoint, !vt_tv. exact (fline_to_point_1 (vt p) (vt q) Fp Fq X Y Z).
Qed.
Theorem gen_line_exact_on_integers p q t mp mq mt' : ibv K (vt p) mp -> ibv K (vt q) mq -> ib K t mt' ->
  exists B, ibv B (vt (GeneratedFS.Line3_ToPoint (GeneratedFS.NewLineFromPoints p q) t)) (zadd mp (zscale mt' (zsub mq mp))).
Proof. intros Hp Hq Ht. rewrite B_newline, B_topoint, !vt_tv. now apply fline_exact. Qed.

(* ---- matrix3.go ---- *)
Theorem gen_unit_matrix_neutral a : finm (mt a) ->
  meqR (mt (GeneratedFS.Matrix3_Mul GeneratedFS.NewUnitMatrix3 a)) (mt a) /\ meqR (mt (GeneratedFS.Matrix3_Mul a GeneratedFS.NewUnitMatrix3)) (mt a).
Proof.
  intros F. rewrite !B_mul, B_unit, !mt_tm. split; [now apply fmmul_unit_l|now apply fmmul_unit_r].
Qed.
Theorem gen_unit_matrix_fixes_vectors v : finv (vt v) -> veqR (vt (GeneratedFS.Matrix3_MulVec GeneratedFS.NewUnitMatrix3 v)) (vt v).
Proof. intros F. rewrite B_mulvec, B_unit, mt_tm, vt_tv. now apply fmulvec_unit. Qed.
(* NewMatrix3 is row-major and its product with the basis vector e_k is the k-th column (finite entries; values, see MatCtor.v) *)
Theorem gen_new_matrix3_basis a b c d e f g h i : finm (FM a b c d e f g h i) ->
  GeneratedFS.NewMatrix3 a b c d e f g h i = ((a, b, c), (d, e, f), (g, h, i)) /\
  veqR (vt (GeneratedFS.Matrix3_MulVec (GeneratedFS.NewMatrix3 a b c d e f g h i) (1, 0, 0)%float)) (FV a d g) /\
  veqR (vt (GeneratedFS.Matrix3_MulVec (GeneratedFS.NewMatrix3 a b c d e f g h i) (0, 1, 0)%float)) (FV b e h) /\
  veqR (vt (GeneratedFS.Matrix3_MulVec (GeneratedFS.NewMatrix3 a b c d e f g h i) (0, 0, 1)%float)) (FV c f i).
Proof.
  intros F. rewrite gen_NewMatrix3_eq. split; [reflexivity|]. rewrite !B_mulvec, !mt_tm, !vt_tv.
  exact (fnew_matrix3_basis a b c d e f g h i F).
Qed.
Theorem gen_matrix_product_associative_on_integers a b c ma mb mc : ibm K (mt a) ma -> ibm K (mt b) mb -> ibm K (mt c) mc ->
  exists B, ibm B (mt (GeneratedFS.Matrix3_Mul (GeneratedFS.Matrix3_Mul a b) c)) (zmmul (zmmul ma mb) mc) /\
            ibm B (mt (GeneratedFS.Matrix3_Mul a (GeneratedFS.Matrix3_Mul b c))) (zmmul (zmmul ma mb) mc).
Proof. intros Ha Hb Hc. rewrite !B_mul, !mt_tm. now apply fmmul_assoc_exact. Qed.
Theorem gen_matrix_product_agrees_with_application_on_integers a b v ma mb mv : ibm K (mt a) ma -> ibm K (mt b) mb -> ibv K (vt v) mv ->
  exists B, ibv B (vt (GeneratedFS.Matrix3_MulVec (GeneratedFS.Matrix3_Mul a b) v)) (zmulvec (zmmul ma mb) mv) /\
            ibv B (vt (GeneratedFS.Matrix3_MulVec a (GeneratedFS.Matrix3_MulVec b v))) (zmulvec (zmmul ma mb) mv).
Proof. intros Ha Hb Hv. rewrite !B_mulvec, !B_mul, !mt_tm, !vt_tv. now apply fmulvec_fmmul_exact. Qed.

(* ---- vector3.go (and the gonum r3 callees) ---- *)
Theorem gen_dot_cross_exact_on_integers a b ma mb : ibv K (vt a) ma -> ibv K (vt b) mb ->
  ib (3 * (K * K)) (GeneratedFS.Vector3_Dot a b) (zdot ma mb) /\ ibv (2 * (K * K)) (vt (GeneratedFS.Vector3_Cross a b)) (zcross ma mb) /\
  is_int (GeneratedFS.Vector3_Dot a (GeneratedFS.Vector3_Cross a b)) 0 /\ is_int (GeneratedFS.Vector3_Dot b (GeneratedFS.Vector3_Cross a b)) 0.
Proof.
  intros Ha Hb. rewrite !B_dot, !B_cross, !vt_tv.
  destruct (fdot_fcross_exact_K _ _ _ _ Ha Hb) as [D C]. destruct (fcross_perp_exact _ _ _ _ Ha Hb) as [P1 P2]. auto.
Qed.
Theorem gen_l1norm_exact_on_integers a ma : ibv K (vt a) ma ->
  is_int (GeneratedFS.Vector3_L1Norm a) (Z.abs (zx ma) + Z.abs (zy ma) + Z.abs (zz ma)).
Proof. intros Ha. rewrite B_l1. now apply fl1norm_exact. Qed.

(* ---- common.AlmostEqual, Point3.IsClose ---- *)
Theorem gen_almost_equal_value x y tol : fin x -> fin y -> fin tol -> Rabs (rnd (rv x - rv y)) < emaxR ->
  (GeneratedFS.AlmostEqual x y tol = true <-> rv x = rv y \/ Rabs (rnd (rv x - rv y)) <= rv tol).
Proof. rewrite gen_AlmostEqual_eq. apply almost_equal_value. Qed.
Theorem gen_almost_equal_complete x y tol : fin x -> fin y -> fin tol -> Rabs (rnd (rv x - rv y)) < emaxR ->
  Rabs (rv x - rv y) <= rv tol -> GeneratedFS.AlmostEqual x y tol = true.
Proof. rewrite gen_AlmostEqual_eq. apply almost_equal_complete. Qed.
Theorem gen_almost_equal_refl_sym x y tol : fin x -> fin y -> fin tol -> Rabs (rnd (rv x - rv y)) < emaxR ->
  GeneratedFS.AlmostEqual x x tol = true /\ GeneratedFS.AlmostEqual x y tol = GeneratedFS.AlmostEqual y x tol.
Proof. intros Fx Fy Ft Ho. rewrite !gen_AlmostEqual_eq. split; [now apply almost_equal_refl|now apply almost_equal_sym]. Qed.
Theorem gen_is_close_refl p eps : finv (vt p) -> GeneratedFS.Point3_IsClose p p eps = true.
Proof. intros (A & B & C). rewrite B_isclose. now apply fis_close_refl. Qed.

(* ---- quat.go: the threshold and the two recorded defects, evaluated through the GENERATED RotateBetweenVector ---- *)
(* a concrete math library: Hypot computed naively as sqrt(x*x + y*y); Sin and Cos return at pi/2 (= float64(math.Pi) * 0.5) the values Go's
   math package returns there (1 and 6.123233995736757e-17) and NaN elsewhere; the other functions are not called by these helpers *)
Definition nanf (_ : pfloat) : pfloat := nan.
Definition nanf2 (_ _ : pfloat) : pfloat := nan.
Definition libm0 : GeneratedF.libm :=
  GeneratedF.mk_libm nanf nanf nanf
    (fun x => if (x =? c_pi * c_half)%float then 0x1.1a62633145c00p-54%float else nan)
    nanf nanf nanf nanf nanf nanf
    (fun x => if (x =? c_pi * c_half)%float then 1%float else nan)
    nanf nanf nanf nanf nanf nanf2
    (fun x y => sqrt (x * x + y * y)%float)
    nanf2 nanf2.
Definition dq_of_tuple (q : pfloat * pfloat * pfloat * pfloat) : option dquat :=
  let '(w, x, y, z) := q in
  match dy_of w, dy_of x, dy_of y, dy_of z with Some a, Some b, Some c, Some d => Some (a, b, c, d) | _, _, _, _ => None end.
Definition dv_of_tuple (v : f3) : option dvec := dvec_of (vt v).
(* verdicts of the run-time judges of DC20.d_rotate on the generated function's own output *)
Definition rot_verdicts (M : GeneratedF.libm) (a b : f3) : option (bool * bool * bool * bool * bool * bool) :=
  match dq_of_tuple (GeneratedFS.RotateBetweenVector M a b), dv_of_tuple a, dv_of_tuple b with
  | Some q, Some da, Some db =>
      Some (check_rotation q da db, frotate_fallback (GeneratedF.m_hypot M) (vt a) (vt b), check_half_turn q da,
            check_direction_loose_norm q da db, exactly_opposite da db, unit_quat q)
  | _, _, _ => None
  end.
(* finding quat_fallback_half_turn: (1,0,0) -> (-1,1e-6,0): fallback branch taken, a unit quaternion turning a onto -a, law violated *)
Theorem gen_rotate_half_turn_witness :
  rot_verdicts libm0 (1, 0, 0)%float (-1, 0x1.0c6f7a0b5ed8dp-20, 0)%float = Some (false, true, true, false, false, true).
Proof. vm_compute. reflexivity. Qed.
(* finding quat_norm_cancellation: (1,0,0) -> (-1,3e-5,0): generic branch, direction right within 2^-30, unit norm lost (but within 2^-16) *)
Theorem gen_rotate_cancellation_witness :
  rot_verdicts libm0 (1, 0, 0)%float (-1, 0x1.f75104d551d69p-16, 0)%float = Some (false, false, false, true, false, false).
Proof. vm_compute. reflexivity. Qed.
(* exactly opposite vectors along -z / +z (second fallback axis) and a generic pair: the law holds on the generated function's output *)
Theorem gen_rotate_opposite_and_generic_ok :
  rot_verdicts libm0 (0, 0, -2)%float (0, 0, 3)%float = Some (true, true, true, true, true, true) /\
  rot_verdicts libm0 (1, 2, 2)%float (2, -1, 2)%float = Some (true, false, false, true, false, true).
Proof. split; vm_compute; reflexivity. Qed.
(* the generated function takes its fallback branch exactly on the model's threshold test, with the regenerated constant (c_minima_is_generated) *)
Theorem gen_rotate_branches M a b :
  GeneratedFS.RotateBetweenVector M a b =
  tq (frotate_between (GeneratedF.m_hypot M) (GeneratedF.m_sin M) (GeneratedF.m_cos M) (vt a) (vt b)).
Proof. exact (B_rotate M a b). Qed.
(* non-vacuity of the finiteness hypotheses above *)
Example gen_hypotheses_inhabited :
  finm (FM 1 2 3 4 5 6 7 8 9) /\ finv (vt (1, 2, 3)%float) /\ ibv K (vt (3, -7, 3)%float) (ZV 3 (-7) 3).
Proof.
  destruct three_is_int as [T3 T7].
  split; [|split].
  - unfold finm; cbn [f00 f01 f02 f10 f11 f12 f20 f21 f22]. repeat split; unfold fin; rewrite is_finite_Prim2B; reflexivity.
  - unfold finv, vt; cbn [fx fy fz]. repeat split; unfold fin; rewrite is_finite_Prim2B; reflexivity.
  - unfold ibv, vt; cbn [fx fy fz zx zy zz]. exact (conj T3 (conj T7 T3)).
Qed.

(* ======================================================================================================================================
   CalculateArithmeticShift in the translator's int64 mode (generated/Generated64.v: every operation returns the wrapped 64-bit value and a
   flag "no wrap-around happened"; vocabulary theories/I64.v). On the property's own domain — |shift| < 63, index an int64, and for a left
   shift a product that fits — the regenerated 64-bit kernel returns exactly floor(index * 2^shift) with the flag true: that Go's wrapping
   `<<` / `>>` equal the unbounded model there is proved (GenEq64Zoom.gen64_CalculateArithmeticShift_fits), no longer assumed.
   ====================================================================================================================================== *)
From SIDGen Require Generated64.
From Coq Require Import Lia.
From SID Require SetOps.
From SID Require Import GenTac GenEq64Zoom.
Open Scope Z_scope.
Theorem gen64_shift_is_floor i s : - 63 < s < 63 -> - 2 ^ 63 <= i * 2 ^ Z.max 0 s < 2 ^ 63 ->
  Generated64.CalculateArithmeticShift i s = Some (ashift i s, true).
Proof.
  intros Hs Hi. rewrite gen64_CalculateArithmeticShift_fits by (try lia; exact Hi). now rewrite gen_CalculateArithmeticShift_eq.
Qed.
(* right shifts: unconditionally on int64 indices *)
Theorem gen64_shift_right_is_floor i s : - 63 < s <= 0 -> - 2 ^ 63 <= i < 2 ^ 63 ->
  Generated64.CalculateArithmeticShift i s = Some (ashift i s, true) /\ ashift i s * 2 ^ (- s) <= i < (ashift i s + 1) * 2 ^ (- s).
Proof.
  intros Hs Hi. split.
  - apply gen64_shift_is_floor; [lia|]. rewrite Z.max_l by lia. lia.
  - destruct (Z.eq_dec s 0) as [->|N]; [rewrite ashift_nonneg by lia; cbn; lia|]. apply SetOps.ashift_right_floor. lia.
Qed.
Theorem gen64_shift_both i s : - 63 < s < 63 -> - 2 ^ 63 <= i * 2 ^ Z.max 0 s < 2 ^ 63 ->
  Generated64.CalculateArithmeticShift i s = Some (ashift i s, true) /\ SetOps.is_floor_shift i s (ashift i s).
Proof. intros Hs Hi. split; [now apply gen64_shift_is_floor|apply SetOps.ashift_is_floor]. Qed.
(* evaluation of the regenerated 64-bit kernel: floor for a negative index, the extreme shift counts, and a left shift that does not fit
   (the wrapped value comes back with the flag false: outside the property's domain) *)
Example gen64_shift_examples :
  Generated64.CalculateArithmeticShift (-5) (-1) = Some (-3, true) /\ Generated64.CalculateArithmeticShift (-1) (-62) = Some (-1, true) /\
  Generated64.CalculateArithmeticShift 1 62 = Some (2 ^ 62, true) /\ Generated64.CalculateArithmeticShift (2 ^ 62) 1 = Some (- 2 ^ 63, false) /\
  Generated64.CalculateArithmeticShift 3 62 = Some (- 2 ^ 62, false).
Proof. repeat split; vm_compute; reflexivity. Qed.

(* ---- three more float companions: Vector3.Sub, Point3.Translate, Line3.End are exact on integers (VecExact.fsub_exact / fadd_exact) ---- *)
Theorem gen_sub_exact_on_integers a b ma mb : ibv K (vt a) ma -> ibv K (vt b) mb ->
  ibv (K + K) (vt (GeneratedFS.Vector3_Sub a b)) (zsub ma mb).
Proof.
  intros Ha Hb. replace (GeneratedFS.Vector3_Sub a b) with (tv (fsub (vt a) (vt b))) by (opent; symmetry; exact (gen_Vector3_Sub_eq (FV _ _ _) (FV _ _ _))).
  rewrite vt_tv. apply fsub_exact; auto. unfold K; lia.
Qed.
Theorem gen_translate_exact_on_integers p a mp ma : ibv K (vt p) mp -> ibv K (vt a) ma ->
  ibv (K + K) (vt (GeneratedFS.Point3_Translate p a)) (zadd mp ma).
Proof.
  intros Hp Ha. replace (GeneratedFS.Point3_Translate p a) with (tv (ftranslate (vt p) (vt a))) by (opent; symmetry; exact (gen_Point3_Translate_eq (FV _ _ _) (FV _ _ _))).
  rewrite vt_tv. apply fadd_exact; auto. unfold K; lia.
Qed.
Theorem gen_line_end_exact_on_integers p d mp md : ibv K (vt p) mp -> ibv K (vt d) md ->
  ibv (K + K) (vt (GeneratedFS.Line3_End (p, d))) (zadd mp md).
Proof.
  intros Hp Hd. replace (GeneratedFS.Line3_End (p, d)) with (tv (fline_end (vt p) (vt d))) by (opent; symmetry; exact (gen_Line3_End_eq (FV _ _ _) (FV _ _ _))).
  rewrite vt_tv. apply fadd_exact; auto. unfold K; lia.
Qed.

(* ---- common.DegreeToRadian / common.RadianToDegree as regenerated (generated/GeneratedF.v): they are VecF.deg2rad / rad2deg — one correctly
   rounded product with the rounded constant — so the value theorems of PointLaws.v hold of the regenerated code. Proved here by GenFTac
   directly (GenEqFPoint.v / GenEqFVertex.v, which hold the same equalities for C01 / C02, stay outside C20's closure). ---- *)
From SID Require GenFTac.
Lemma gen_DegreeToRadian_is_deg2rad d : GeneratedF.DegreeToRadian d = deg2rad d.
Proof. unfold deg2rad. GenFTac.gen_feq ltac:(unfold c_deg2rad). Qed.
Lemma gen_RadianToDegree_is_rad2deg r : GeneratedF.RadianToDegree r = rad2deg r.
Proof. unfold rad2deg. GenFTac.gen_feq ltac:(unfold c_rad2deg). Qed.
Open Scope R_scope.
Theorem gen_degree_to_radian_value d : fin d ->
  Rabs (round radix2 (SpecFloat.fexp FloatOps.prec FloatOps.emax) ZnearestE (rv d * c_d2r_R)) < bpow radix2 FloatOps.emax ->
  rv (GeneratedF.DegreeToRadian d) = round radix2 (SpecFloat.fexp FloatOps.prec FloatOps.emax) ZnearestE (rv d * c_d2r_R).
Proof. rewrite gen_DegreeToRadian_is_deg2rad. apply deg2rad_value. Qed.
Theorem gen_radian_to_degree_value r : fin r ->
  Rabs (round radix2 (SpecFloat.fexp FloatOps.prec FloatOps.emax) ZnearestE (rv r * c_r2d_R)) < bpow radix2 FloatOps.emax ->
  rv (GeneratedF.RadianToDegree r) = round radix2 (SpecFloat.fexp FloatOps.prec FloatOps.emax) ZnearestE (rv r * c_r2d_R).
Proof. rewrite gen_RadianToDegree_is_rad2deg. apply rad2deg_value. Qed.
(* evaluated on the regenerated code: 180 degrees is the float64 nearest to pi, and back *)
Example gen_degree_radian_evaluated :
  GeneratedF.DegreeToRadian 180%float = 0x1.921fb54442d18p+1%float /\ GeneratedF.RadianToDegree 0x1.921fb54442d18p+1%float = 180%float /\
  GeneratedF.DegreeToRadian 0%float = 0%float.
Proof. repeat split; vm_compute; reflexivity. Qed.
Close Scope R_scope.
