(* GenC20.v — the threshold consts.Minima, as regenerated from the Go source on every run (generated/Generated.v, decimal (m, e) = m * 10^e),
   is the threshold the C20 models use: Quat.minima over R (fallback test of RotateBetweenVector, `cos+1 < Minima`, and the second
   fallback axis test `axis.Norm() < Minima`) and VecF.c_minima on binary64 (the float64 nearest to it, as the Go compiler rounds the
   constant). An edit of consts.Minima in /repo changes Generated.Minima and breaks these lemmas, hence properties/C20.v. *)
From Coq Require Import ZArith Reals Lra Floats.
From Flocq Require Import Core BinarySingleNaN.
From Interval Require Import Tactic.
From SIDGen Require Generated.
From SID Require Import Base F64 Vec Quat VecF VecExact OrdMax PointLaws GenEqConstMinima.
Open Scope R_scope.

(* value of a generated decimal constant (m, e), e <= 0 *)
Definition dec2R (c : Z * Z) : R := IZR (fst c) / IZR (10 ^ (- snd c)).

Theorem minima_is_generated : minima = dec2R Generated.Minima.
Proof. rewrite gen_Minima_eq. unfold minima, dec2R; cbn [fst snd]. change (- -10)%Z with 10%Z. rewrite pow_IZR. cbn. lra. Qed.

(* the float64 constant of the model: finite, and the binary64 number nearest to the generated decimal (half an ulp = 2^-87) *)
Theorem c_minima_is_generated : fin c_minima /\ Rabs (rv c_minima - dec2R Generated.Minima) <= / IZR (2 ^ 87).
Proof.
  rewrite gen_Minima_eq. split; [unfold fin; rewrite is_finite_Prim2B; reflexivity|].
  rewrite rv_SF. replace (Prim2SF c_minima) with (S754_finite false 7737125245533627 (-86)) by (vm_compute; reflexivity).
  unfold SF2R, F2R, dec2R; cbn [Fnum Fexp cond_Zopp fst snd]. change (- -10)%Z with 10%Z.
  replace (bpow radix2 (-86)) with (/ IZR (2 ^ 86)) by (cbn; lra).
  interval with (i_prec 120).
Qed.
Theorem minima_generated_both : minima = dec2R Generated.Minima /\ fin c_minima /\ Rabs (rv c_minima - minima) <= / IZR (2 ^ 87).
Proof. destruct c_minima_is_generated as [F B]. rewrite <- minima_is_generated in B. exact (conj minima_is_generated (conj F B)). Qed.
