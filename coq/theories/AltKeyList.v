(* AltKeyList.v — property C12 through the LIST API transform.ConvertExtendedSpatialIDsToQuadkeysAndAltitudekeys(ids, qZoom, kZoom, E, O),
   projected to the altitude keys (the quadkey part is property C11's).

   Go code (transform/convert_quadkey_and_Vertical_id.go:378-441): quadkeyCheckZoom(qZoom, kZoom) first; then for every ID in order:
   parse, extendedSpatialIDCheckZoom(hZoom, vZoom), quadkeys of the tile at qZoom, ConvertZToMinMaxAltitudekey(f, vZoom, kZoom, E, O)
   (an error of any ID is the error of the call), and the pairs (quadkey, key) for key = min..max that were not produced by an earlier ID
   form the ID's group (no group when none is new).

   The harness issues IDs whose horizontal zoom IS qZoom, so every ID has exactly one quadkey and two IDs have the same quadkey iff they
   have the same (x, y) (C11: the interleaving is injective); a group is then observed as (label, keys) with label = position of the first
   input ID on the same tile.

   Model: the per-ID key range is the single conversion z2key on (f, vZoom) — a `map` over the list, so the range of an ID does not
   depend on the other IDs (list_ranges_is_map, list_range_independent); the groups remove, per tile, the keys of earlier ranges. *)
From Coq Require Import ZArith Lia Bool List.
From SID Require Import Base AltKeyCore AltKey.
Import ListNotations.
Open Scope Z_scope.

Definition lid : Type := (Z * Z * Z * Z * Z)%type.            (* (hZoom, x, y, vZoom, f) *)
Definition lh (i : lid) : Z := let '(h, _, _, _, _) := i in h.
Definition lx (i : lid) : Z := let '(_, x, _, _, _) := i in x.
Definition ly (i : lid) : Z := let '(_, _, y, _, _) := i in y.
Definition lv (i : lid) : Z := let '(_, _, _, v, _) := i in v.
Definition lf (i : lid) : Z := let '(_, _, _, _, f) := i in f.

Definition qcheck_list (qz kz : Z) : bool := (1 <=? qz) && (qz <=? 31) && zoom_ok kz.      (* transform.quadkeyCheckZoom *)

(* ---- unbounded model ---- *)
(* one ID: extendedSpatialIDCheckZoom(hZoom, vZoom), then THE SINGLE CONVERSION on (f, vZoom) *)
Definition id_range (kz E O : Z) (i : lid) : result (Z * Z) :=
  if zoom_ok (lh i) && zoom_ok (lv i) then z2key (lf i) (lv i) kz E O else Err.
Fixpoint list_ranges (kz E O : Z) (ids : list lid) : result (list (Z * Z)) :=
  match ids with
  | [] => Ok []
  | i :: rest =>
      match id_range kz E O i with
      | Err => Err
      | Ok p => match list_ranges kz E O rest with Err => Err | Ok t => Ok (p :: t) end
      end
  end.
Definition e2qa_ranges (qz kz E O : Z) (ids : list lid) : result (list (Z * Z)) :=
  if qcheck_list qz kz then list_ranges kz E O ids else Err.

(* THE LIST MODEL IS THE PER-ID MAP OF THE SINGLE CONVERSION *)
Theorem list_ranges_is_map kz E O ids rs :
  list_ranges kz E O ids = Ok rs <-> Forall2 (fun i r => id_range kz E O i = Ok r) ids rs.
Proof.
  revert rs. induction ids as [|i rest IH]; intros rs; cbn [list_ranges].
  - split; [intros H; injection H as <-; constructor|intros H; inversion H; reflexivity].
  - destruct (id_range kz E O i) as [p|] eqn:Hp.
    + destruct (list_ranges kz E O rest) as [t|] eqn:Ht.
      * split.
        -- intros H. injection H as <-. constructor; [exact Hp|]. now apply IH.
        -- intros H. inversion H as [|i' r' l l' H1 H2]; subst. rewrite Hp in H1. injection H1 as <-. apply IH in H2. now injection H2 as <-.
      * split; [discriminate|]. intros H. inversion H as [|i' r' l l' H1 H2]; subst. apply IH in H2. discriminate.
    + split; [discriminate|]. intros H. inversion H as [|i' r' l l' H1 H2]; subst. congruence.
Qed.
Theorem list_ranges_err_iff kz E O ids : list_ranges kz E O ids = Err <-> Exists (fun i => id_range kz E O i = Err) ids.
Proof.
  induction ids as [|i rest IH]; cbn [list_ranges].
  - split; [discriminate|intros H; inversion H].
  - destruct (id_range kz E O i) as [p|] eqn:Hp.
    + destruct (list_ranges kz E O rest) as [t|] eqn:Ht.
      * split; [discriminate|]. intros H. inversion H as [? ? H1|? ? H1]; subst; [congruence|]. apply IH in H1. discriminate.
      * split; [intros _; apply Exists_cons_tl; now apply IH|reflexivity].
    + split; [intros _; now apply Exists_cons_hd|reflexivity].
Qed.
(* hence the key range of the n-th ID is a function of that ID alone: other lists, other neighbours, same range *)
Theorem list_range_independent kz E O ids ids' rs rs' n m i :
  list_ranges kz E O ids = Ok rs -> list_ranges kz E O ids' = Ok rs' ->
  nth_error ids n = Some i -> nth_error ids' m = Some i ->
  exists r, nth_error rs n = Some r /\ nth_error rs' m = Some r /\ id_range kz E O i = Ok r.
Proof.
  intros H H' Hn Hm. apply list_ranges_is_map in H. apply list_ranges_is_map in H'.
  assert (A : forall l (qs : list (Z * Z)) k, Forall2 (fun i r => id_range kz E O i = Ok r) l qs -> nth_error l k = Some i ->
              exists r, nth_error qs k = Some r /\ id_range kz E O i = Ok r).
  { intros l qs k F. revert k. induction F as [|a b l' qs' Hab F IH]; intros k Hk; [destruct k; discriminate|].
    destruct k as [|k]; cbn in *; [injection Hk as ->; now exists b|now apply IH]. }
  destruct (A _ _ _ H Hn) as (r & R1 & R2). destruct (A _ _ _ H' Hm) as (r' & R1' & R2').
  assert (r' = r) by congruence. subst r'. now exists r.
Qed.
(* and each of those ranges meets the conversion specification of its own ID *)
Theorem list_ranges_meet_spec kz E O ids rs n i r :
  list_ranges kz E O ids = Ok rs -> nth_error ids n = Some i -> nth_error rs n = Some r ->
  conv_spec (sid_scale (lv i)) (lf i) (key_scale kz E O) (Ok r) /\ 0 <= lh i <= 35.
Proof.
  intros H Hn Hr. apply list_ranges_is_map in H. revert n Hn Hr.
  induction H as [|a b l qs Hab F IH]; intros n Hn Hr; [destruct n; discriminate|].
  destruct n as [|n]; cbn [nth_error] in *; [|now apply (IH n)]. injection Hn as ->. injection Hr as ->.
  unfold id_range in Hab. destruct (zoom_ok (lh i)) eqn:Zh; cbn [andb] in Hab; [|discriminate]. destruct (zoom_ok (lv i)); [|discriminate].
  split; [rewrite <- Hab; apply z2key_conv|now apply zoom_ok_spec].
Qed.

(* ---- the groups the list API returns (altitude-key projection) ---- *)
Definition same_tile (i j : lid) : bool := (lx i =? lx j) && (ly i =? ly j).
Definition inside (p : Z * Z) (k : Z) : bool := (fst p <=? k) && (k <=? snd p).
(* label of a tile = position of the first ID of the list on that tile *)
Fixpoint first_pos (ids : list lid) (i : lid) (n : Z) : Z :=
  match ids with [] => -1 | j :: r => if same_tile j i then n else first_pos r i (n + 1) end.
(* keys of range r that no earlier range on the same tile contains *)
Definition fresh_keys (prev : list (Z * Z)) (r : Z * Z) : list Z :=
  filter (fun k => negb (existsb (fun p => inside p k) prev)) (zrange (fst r) (snd r)).
Fixpoint groups_from (all : list lid) (done : list (lid * (Z * Z))) (todo : list (lid * (Z * Z))) : list (Z * list Z) :=
  match todo with
  | [] => []
  | (i, r) :: rest =>
      let prev := map snd (filter (fun d => same_tile (fst d) i) done) in
      let ks := fresh_keys prev r in
      let tl := groups_from all (done ++ [(i, r)]) rest in
      match ks with [] => tl | _ => (first_pos all i 0, ks) :: tl end
  end.
Definition groups (ids : list lid) (rs : list (Z * Z)) : list (Z * list Z) := groups_from ids [] (combine ids rs).

(* ---- the property on OBSERVED groups, per tile (order-free): never loses altitude — every key of the exact cover of every ID is among the
   keys returned for its tile —, nothing beyond the widened cover — every returned key lies in the widened cover of some ID on that tile —,
   and the error clauses of conv_spec per ID ---- *)
Definition id_src (i : lid) : scale := sid_scale (lv i).
Definition id_ok_zooms (kz : Z) (i : lid) : bool := zoom_ok (lh i) && zoom_ok (lv i) && zoom_ok kz.
(* the ID may not be answered with a result: a zoom is out of range, its index does not exist or its exact cover leaves the key range *)
Definition id_must_err (kz E O : Z) (i : lid) : bool :=
  let t := key_scale kz E O in
  negb (id_ok_zooms kz i && in_rangeb (id_src i) (lf i) && in_rangeb t (cov_min_z (id_src i) t (lf i)) && in_rangeb t (cov_max_z (id_src i) t (lf i))).
(* the ID may not be answered with an error: zooms fine, index exists, even the widened cover fits *)
Definition id_must_ok (kz E O : Z) (i : lid) : bool :=
  let t := key_scale kz E O in
  id_ok_zooms kz i && in_rangeb (id_src i) (lf i) && in_rangeb t (wid_min_z (id_src i) t (lf i)) && in_rangeb t (wid_max_z (id_src i) t (lf i)).
Definition tile_keys (obs : list (Z * list Z)) (label : Z) : list Z := flat_map (fun g => if fst g =? label then snd g else []) obs.
Definition memZ (k : Z) (l : list Z) : bool := existsb (Z.eqb k) l.
Definition list_prop (qz kz E O : Z) (ids : list lid) (obs : result (list (Z * list Z))) : bool :=
  let t := key_scale kz E O in
  match obs with
  | Err => negb (qcheck_list qz kz && forallb (id_must_ok kz E O) ids)
  | Ok gs =>
      qcheck_list qz kz && forallb (fun i => negb (id_must_err kz E O i)) ids
      && forallb (fun i => let ks := tile_keys gs (first_pos ids i 0) in
                           forallb (fun k => memZ k ks) (zrange (cov_min_z (id_src i) t (lf i)) (cov_max_z (id_src i) t (lf i)))) ids
      && forallb (fun g => forallb (fun k => existsb (fun i => (first_pos ids i 0 =? fst g)
                                                              && (wid_min_z (id_src i) t (lf i) <=? k) && (k <=? wid_max_z (id_src i) t (lf i))) ids)
                                   (snd g)) gs
  end.
Definition list_spec (qz kz E O : Z) (ids : list lid) (obs : result (list (Z * list Z))) : Prop :=
  let t := key_scale kz E O in
  match obs with
  | Err => ~ (qcheck_list qz kz = true /\ forall i, In i ids -> id_must_ok kz E O i = true)
  | Ok gs =>
      qcheck_list qz kz = true /\ (forall i, In i ids -> id_must_err kz E O i = false) /\
      (* never loses altitude *)
      (forall i k, In i ids -> cov_min t (cell_lo (id_src i) (lf i)) <= k <= cov_max t (cell_hi (id_src i) (lf i)) ->
                   In k (tile_keys gs (first_pos ids i 0))) /\
      (* nothing beyond the metre-widened cover of the IDs on that tile *)
      (forall g k, In g gs -> In k (snd g) ->
                   exists i, In i ids /\ first_pos ids i 0 = fst g /\
                             wid_min t (cell_lo (id_src i) (lf i)) <= k <= wid_max t (cell_hi (id_src i) (lf i)))
  end.
Lemma memZ_In k l : memZ k l = true <-> In k l.
Proof. unfold memZ. rewrite existsb_exists. split; [intros (x & H & E); apply Z.eqb_eq in E; now subst|intros H; exists k; split; [exact H|apply Z.eqb_refl]]. Qed.
Theorem list_prop_sound qz kz E O ids obs : list_prop qz kz E O ids obs = true <-> list_spec qz kz E O ids obs.
Proof.
  destruct obs as [gs|]; cbn [list_prop list_spec].
  - rewrite !andb_true_iff, !forallb_forall. split.
    + intros [[[Q M] L] W]. split; [exact Q|]. split; [intros i Hi; apply negb_true_iff; now apply M|]. split.
      * intros i k Hi Hk. rewrite cov_min_z_spec, cov_max_z_spec in Hk. specialize (L i Hi). cbv zeta in L. rewrite forallb_forall in L.
        apply memZ_In. apply L. now apply in_zrange.
      * intros g k Hg Hk. specialize (W g Hg). rewrite forallb_forall in W. specialize (W k Hk). apply existsb_exists in W.
        destruct W as (i & Hi & C). rewrite !andb_true_iff, Z.eqb_eq, !Z.leb_le in C. exists i. rewrite wid_min_z_spec, wid_max_z_spec. tauto.
    + intros (Q & M & L & W). repeat split.
      * exact Q.
      * intros i Hi. apply negb_true_iff. now apply M.
      * intros i Hi. cbv zeta. apply forallb_forall. intros k Hk. apply memZ_In. apply (L i k Hi). rewrite cov_min_z_spec, cov_max_z_spec. now apply in_zrange.
      * intros g Hg. apply forallb_forall. intros k Hk. apply existsb_exists. destruct (W g k Hg Hk) as (i & Hi & F & C).
        rewrite wid_min_z_spec, wid_max_z_spec in C. exists i. split; [exact Hi|]. rewrite !andb_true_iff, Z.eqb_eq, !Z.leb_le. tauto.
  - rewrite negb_true_iff, <- not_true_iff_false, andb_true_iff, forallb_forall. tauto.
Qed.
