(* Tile.v — property C13: 3D tile keys (hZoom, x, y, vZoom, z) convert to IDs that cover the tile and keep its footprint.

   Go code:  common/object/id_object.go          NewTileXYZ (SetHZoom / SetVZoom reject zooms outside 0..35 since ac7b3a2), accessors
             transform/convert_quadkey_and_Vertical_id.go
               ConvertTileXYZsToExtendedSpatialIDs   extendedSpatialIDCheckZoom(0, outputVZoom) before the loop (322d7d5), then
                                                     per tile: extendedSpatialIDCheckZoom(hZoom, outputVZoom), ConvertAltitudekeyToMinMaxZ
                                                     (z, vZoom, outputVZoom, zBaseExponent, zBaseOffset), `for z := zMin; z <= zMax; z++`
                                                     inserting (hZoom, x, y, outputVZoom, z) into a map keyed by the ID value (this is the
                                                     de-duplication); the first failing tile ends the call with `return nil, err`;
                                                     finally the map keys are copied into a slice (map iteration order)
               ConvertTileXYZsToSpatialIDs           the above, then ConvertExtendedSpatialIDToSpatialIDs on every extended ID, results
                                                     appended (NO de-duplication at this level); `return nil, err` on error
   Models:   new_tile, tile_ids, tiles_collect, tiles_to_eids, tiles_to_sids (strings) / tiles_to_sids_rec (records).
             Map iteration order is modelled by a fixed order (Base.nodupb); theorems are stated up to membership / Permutation.
   Built on: AltKeyCore.key2z (= ConvertAltitudekeyToMinMaxZ) with the C12 theorems of AltKey.v, and Notation.expand_eid / expand_rec
             (= ConvertExtendedSpatialIDToSpatialIDs) with the C10 theorems of Notation.v. *)
From Coq Require Import ZArith String List Bool Lia Lra Permutation Reals.
From Flocq Require Import Core.
From SID Require Import Base Str AltKeyCore AltKey Ids Voxel ZoomCore Notation.  (* AltKey before Ids: both define `ex` *)
Import ListNotations.
Open Scope list_scope.
Open Scope Z_scope.

(* =====================================================================================================================
   1. Models
   ===================================================================================================================== *)
Record tile := mkt { th : Z; tx : Z; ty : Z; tv : Z; tz : Z }.     (* hZoom, x, y, vZoom, z *)
Definition max_tile_zoom : Z := 35.                                  (* consts.MaxTileXYZZoom *)

(* object.NewTileXYZ: SetHZoom, SetX, SetY, SetVZoom, SetZ; the two zoom setters fail outside [0, MaxTileXYZZoom]; x, y, z are not checked *)
Definition tile_zoom_ok (z : Z) : bool := (0 <=? z) && (z <=? max_tile_zoom).
Definition new_tile (h x y v z : Z) : result tile :=
  if negb (tile_zoom_ok h) then Err
  else if negb (tile_zoom_ok v) then Err
  else Ok (mkt h x y v z).

(* extendedSpatialIDCheckZoom(hZoom, vZoom) *)
Definition ext_check_zoom (h v : Z) : bool := ((0 <=? h) && (h <=? 35)) && ((0 <=? v) && (v <=? 35)).

(* the body of the loop over the request, for one tile: zoom check, altitude conversion, `for z := zMin; z <= zMax; z++` *)
Definition tile_ids (E O outV : Z) (t : tile) : result (list eid) :=
  if negb (ext_check_zoom (th t) outV) then Err
  else match key2z (tz t) (tv t) outV E O with
       | Err => Err
       | Ok (mn, mx) => Ok (map (fun f => mk (th t) (tx t) (ty t) outV f) (zrange mn mx))
       end.

(* the loop over the request: the first failing tile ends the call *)
Fixpoint tiles_collect (E O outV : Z) (l : list tile) : result (list eid) :=
  match l with
  | [] => Ok []
  | t :: r => match tile_ids E O outV t with
              | Err => Err
              | Ok a => match tiles_collect E O outV r with Err => Err | Ok b => Ok (a ++ b) end
              end
  end.

(* equality of map keys (ID values). Same relation as Ids.eid_eqb, the vertical index compared first: executed on thousands of IDs that
   share their footprint, where the first four fields never decide *)
Definition eid_eqf (a b : eid) : bool := (ef a =? ef b) && eid_eqb a b.
Lemma eid_eqf_spec a b : reflect (a = b) (eid_eqf a b).
Proof.
  unfold eid_eqf. destruct (eid_eqb_spec a b) as [->|N].
  - rewrite Z.eqb_refl. now constructor.
  - rewrite andb_false_r. now constructor.
Qed.

(* ConvertTileXYZsToExtendedSpatialIDs(request, zBaseExponent, zBaseOffset, outputVZoom): the output vertical zoom is checked before
   the loop (since 322d7d5: also for an empty request); the result is the keys of the map *)
Definition tiles_to_eids (l : list tile) (E O outV : Z) : result (list eid) :=
  if negb (ext_check_zoom 0 outV) then Err
  else match tiles_collect E O outV l with Err => Err | Ok a => Ok (nodupb eid_eqf a) end.

(* ConvertTileXYZsToSpatialIDs: every extended ID expanded, results appended in turn *)
Definition tiles_to_sids (l : list tile) (E O outV : Z) : result (list string) :=
  match tiles_to_eids l E O outV with Err => Err | Ok r => Ok (flat_map expand_eid r) end.
Definition tiles_to_sids_rec (l : list tile) (E O outV : Z) : result (list eid) :=
  match tiles_to_eids l E O outV with Err => Err | Ok r => Ok (flat_map expand_rec r) end.

(* =====================================================================================================================
   2. NewTileXYZ
   ===================================================================================================================== *)
Theorem new_tile_spec h x y v z :
  (0 <= h <= 35 /\ 0 <= v <= 35 -> new_tile h x y v z = Ok (mkt h x y v z)) /\
  (~ (0 <= h <= 35 /\ 0 <= v <= 35) -> new_tile h x y v z = Err).
Proof.
  unfold new_tile, tile_zoom_ok, max_tile_zoom.
  destruct (Z.leb_spec 0 h), (Z.leb_spec h 35), (Z.leb_spec 0 v), (Z.leb_spec v 35); cbn; split; intros; try reflexivity; lia.
Qed.
Corollary new_tile_ok h x y v z t : new_tile h x y v z = Ok t ->
  0 <= th t <= 35 /\ 0 <= tv t <= 35 /\ th t = h /\ tx t = x /\ ty t = y /\ tv t = v /\ tz t = z.
Proof.
  intros H. destruct (new_tile_spec h x y v z) as [A B].
  assert (D : (0 <= h <= 35 /\ 0 <= v <= 35) \/ ~ (0 <= h <= 35 /\ 0 <= v <= 35)) by lia.
  destruct D as [D|D]; [|rewrite (B D) in H; discriminate]. rewrite (A D) in H. injection H as <-. cbn. lia.
Qed.
Corollary new_tile_rejects_negative_zoom h x y v z : h < 0 \/ v < 0 -> new_tile h x y v z = Err.
Proof. intros H. apply new_tile_spec. lia. Qed.

Lemma ext_check_zoom_spec h v : ext_check_zoom h v = true <-> 0 <= h <= 35 /\ 0 <= v <= 35.
Proof. unfold ext_check_zoom. rewrite !andb_true_iff, !Z.leb_le. tauto. Qed.
Lemma ext_check_zoom_0 v : ext_check_zoom 0 v = true <-> 0 <= v <= 35.
Proof. rewrite ext_check_zoom_spec. lia. Qed.
Lemma ext_check_zoom_weaken h v : ext_check_zoom h v = true -> ext_check_zoom 0 v = true.
Proof. rewrite ext_check_zoom_spec, ext_check_zoom_0. tauto. Qed.

(* =====================================================================================================================
   3. Structure of the result: membership, all-or-nothing, no duplicates
   ===================================================================================================================== *)
(* the tile passes both checks of the loop body, the altitude conversion returning [mn, mx] *)
Definition tile_accepted (E O outV : Z) (t : tile) (mn mx : Z) : Prop :=
  ext_check_zoom (th t) outV = true /\ key2z (tz t) (tv t) outV E O = Ok (mn, mx).
(* ID j stems from tile t: footprint of t, requested vertical zoom, vertical index inside the C12 range of t *)
Definition from_tile (E O outV : Z) (t : tile) (j : eid) : Prop :=
  exists mn mx, tile_accepted E O outV t mn mx /\
                eh j = th t /\ ex j = tx t /\ ey j = ty t /\ ev j = outV /\ mn <= ef j <= mx.
Definition tile_rejected (E O outV : Z) (t : tile) : Prop :=
  ext_check_zoom (th t) outV = false \/ key2z (tz t) (tv t) outV E O = Err.

Definition tile_out (E O outV : Z) (t : tile) : list eid := match tile_ids E O outV t with Ok b => b | Err => [] end.

Lemma tile_ids_Ok E O outV t b : tile_ids E O outV t = Ok b ->
  exists mn mx, tile_accepted E O outV t mn mx /\ b = map (fun f => mk (th t) (tx t) (ty t) outV f) (zrange mn mx).
Proof.
  unfold tile_ids, tile_accepted. destruct (ext_check_zoom (th t) outV); cbn [negb]; [|discriminate].
  destruct (key2z (tz t) (tv t) outV E O) as [[mn mx]|]; [|discriminate]. intros [= <-]. exists mn, mx. auto.
Qed.
Lemma tile_ids_accepted E O outV t mn mx : tile_accepted E O outV t mn mx ->
  tile_ids E O outV t = Ok (map (fun f => mk (th t) (tx t) (ty t) outV f) (zrange mn mx)).
Proof. intros [H1 H2]. unfold tile_ids. rewrite H1, H2. reflexivity. Qed.
Lemma tile_ids_Err E O outV t : tile_ids E O outV t = Err <-> tile_rejected E O outV t.
Proof.
  unfold tile_ids, tile_rejected. destruct (ext_check_zoom (th t) outV); cbn [negb].
  - destruct (key2z (tz t) (tv t) outV E O) as [[mn mx]|]; split; try discriminate; auto. intros [H|H]; discriminate.
  - split; auto.
Qed.
Lemma tile_out_In E O outV t j : In j (tile_out E O outV t) <-> from_tile E O outV t j.
Proof.
  unfold tile_out, from_tile. destruct (tile_ids E O outV t) as [b|] eqn:Hb.
  - apply tile_ids_Ok in Hb. destruct Hb as (mn & mx & Hacc & ->). rewrite in_map_iff. split.
    + intros (f & <- & Hf). apply in_zrange in Hf. exists mn, mx. split; [exact Hacc|]. cbn. repeat split; try reflexivity; lia.
    + intros (mn' & mx' & [_ Hk] & E1 & E2 & E3 & E4 & Hf). destruct Hacc as [_ Hk']. rewrite Hk' in Hk. injection Hk as <- <-.
      exists (ef j). split; [destruct j; cbn in *; subst; reflexivity|apply in_zrange; exact Hf].
  - split; [intros []|]. intros (mn & mx & Hacc & _). rewrite (tile_ids_accepted _ _ _ _ _ _ Hacc) in Hb. discriminate.
Qed.

Lemma tiles_collect_Ok E O outV l a : tiles_collect E O outV l = Ok a ->
  (forall t, In t l -> exists b, tile_ids E O outV t = Ok b) /\ a = flat_map (tile_out E O outV) l.
Proof.
  revert a. induction l as [|t r IH]; cbn [tiles_collect flat_map]; intros a H.
  - injection H as <-. split; [intros t []|reflexivity].
  - destruct (tile_ids E O outV t) as [b|] eqn:Hb; [|discriminate].
    destruct (tiles_collect E O outV r) as [c|]; [|discriminate]. injection H as <-.
    destruct (IH c eq_refl) as [H1 H2]. split.
    + intros t' [<-|Hin]; [eauto|auto].
    + unfold tile_out at 1. rewrite Hb, H2. reflexivity.
Qed.
Lemma tiles_collect_Err E O outV l : tiles_collect E O outV l = Err <-> exists t, In t l /\ tile_ids E O outV t = Err.
Proof.
  induction l as [|t r IH]; cbn [tiles_collect].
  - split; [discriminate|intros (t & [] & _)].
  - destruct (tile_ids E O outV t) as [b|] eqn:Hb.
    + destruct (tiles_collect E O outV r) as [c|].
      * split; [discriminate|]. intros (t' & [<-|Hin] & He); [congruence|]. assert (X : Ok c = (Err : result (list eid))) by (apply IH; eauto). discriminate.
      * split; [|reflexivity]. intros _. destruct (proj1 IH eq_refl) as (t' & Hin & He). exists t'. split; [now right|exact He].
    + split; [|reflexivity]. intros _. exists t. split; [now left|exact Hb].
Qed.

Lemma tiles_to_eids_Ok_inv l E O outV r : tiles_to_eids l E O outV = Ok r ->
  0 <= outV <= 35 /\ exists a, tiles_collect E O outV l = Ok a /\ r = nodupb eid_eqf a.
Proof.
  unfold tiles_to_eids. destruct (ext_check_zoom 0 outV) eqn:Z; cbn [negb]; [|discriminate]. apply ext_check_zoom_0 in Z.
  destruct (tiles_collect E O outV l) as [a|]; [|discriminate]. intros [= <-]. eauto.
Qed.

(* MEMBERSHIP: the result consists exactly of the IDs that stem from some tile of the request — hZoom, x, y of that tile untouched,
   vertical zoom as requested, vertical index in that tile's C12 range *)
Theorem tiles_to_eids_members l E O outV r : tiles_to_eids l E O outV = Ok r ->
  forall j, In j r <-> exists t, In t l /\ from_tile E O outV t j.
Proof.
  intros H j. apply tiles_to_eids_Ok_inv in H. destruct H as (_ & a & Ha & ->).
  apply tiles_collect_Ok in Ha. destruct Ha as [_ ->].
  rewrite (nodupb_In eid_eqf eid_eqf_spec), in_flat_map. split; intros (t & Hin & H); exists t; (split; [exact Hin|]); now apply tile_out_In.
Qed.

(* every result keeps the footprint of a tile of the request and has the requested vertical zoom *)
Corollary tiles_to_eids_footprint l E O outV r j : tiles_to_eids l E O outV = Ok r -> In j r ->
  ev j = outV /\ exists t, In t l /\ eh j = th t /\ ex j = tx t /\ ey j = ty t.
Proof.
  intros H Hj. apply (tiles_to_eids_members _ _ _ _ _ H) in Hj. destruct Hj as (t & Hin & mn & mx & _ & E1 & E2 & E3 & E4 & _).
  split; [exact E4|]. exists t. auto.
Qed.

(* no ID twice, whatever the tiles *)
Theorem tiles_to_eids_NoDup l E O outV r : tiles_to_eids l E O outV = Ok r -> NoDup r.
Proof.
  intros H. apply tiles_to_eids_Ok_inv in H. destruct H as (_ & a & _ & ->). apply (nodupb_NoDup eid_eqf eid_eqf_spec).
Qed.

(* ALL OR NOTHING: an error iff the requested vertical zoom is outside 0..35 (for EVERY request, the empty one included) or some tile is
   rejected (whatever its position in the request); then nothing is returned *)
Theorem tiles_to_eids_err_iff l E O outV :
  tiles_to_eids l E O outV = Err <-> ~ (0 <= outV <= 35) \/ exists t, In t l /\ tile_rejected E O outV t.
Proof.
  unfold tiles_to_eids. destruct (ext_check_zoom 0 outV) eqn:Z; cbn [negb].
  2:{ split; [|reflexivity]. intros _. left. intros N. apply ext_check_zoom_0 in N. congruence. }
  apply ext_check_zoom_0 in Z. destruct (tiles_collect E O outV l) as [a|] eqn:Ha.
  - split; [discriminate|]. intros [N|(t & Hin & Hr)]; [contradiction|]. apply tile_ids_Err in Hr.
    assert (X : tiles_collect E O outV l = Err) by (apply tiles_collect_Err; eauto). congruence.
  - split; [|reflexivity]. intros _. right. apply tiles_collect_Err in Ha. destruct Ha as (t & Hin & He). exists t. split; [exact Hin|]. now apply tile_ids_Err.
Qed.
Corollary tiles_to_eids_bad_output_zoom l E O outV : ~ (0 <= outV <= 35) -> tiles_to_eids l E O outV = Err.
Proof. intros N. apply tiles_to_eids_err_iff. now left. Qed.
Corollary tiles_to_eids_empty E O outV : tiles_to_eids [] E O outV = if ext_check_zoom 0 outV then Ok [] else Err.
Proof. unfold tiles_to_eids. destruct (ext_check_zoom 0 outV); reflexivity. Qed.
(* ... and when it succeeds every tile was accepted and its COMPLETE range is in the result *)
Theorem tiles_to_eids_complete l E O outV r t : tiles_to_eids l E O outV = Ok r -> In t l ->
  exists mn mx, tile_accepted E O outV t mn mx /\ forall f, mn <= f <= mx -> In (mk (th t) (tx t) (ty t) outV f) r.
Proof.
  intros H Hin. pose proof (tiles_to_eids_members _ _ _ _ _ H) as M.
  apply tiles_to_eids_Ok_inv in H. destruct H as (_ & a & Ha & _).
  apply tiles_collect_Ok in Ha. destruct Ha as [Hall _]. destruct (Hall t Hin) as (b & Hb).
  apply tile_ids_Ok in Hb. destruct Hb as (mn & mx & Hacc & _). exists mn, mx. split; [exact Hacc|].
  intros f Hf. apply M. exists t. split; [exact Hin|]. exists mn, mx. split; [exact Hacc|]. cbn. repeat split; try reflexivity; lia.
Qed.
(* one tile: the result is exactly zrange of the C12 range, in order *)
Theorem tiles_to_eids_single t E O outV :
  tiles_to_eids [t] E O outV =
  if ext_check_zoom (th t) outV then
    match key2z (tz t) (tv t) outV E O with
    | Ok (mn, mx) => Ok (map (fun f => mk (th t) (tx t) (ty t) outV f) (zrange mn mx))
    | Err => Err
    end
  else Err.
Proof.
  unfold tiles_to_eids. cbn [tiles_collect]. unfold tile_ids. destruct (ext_check_zoom (th t) outV) eqn:Z; cbn [negb].
  2:{ destruct (ext_check_zoom 0 outV); reflexivity. }
  rewrite (ext_check_zoom_weaken _ _ Z). cbn [negb].
  destruct (key2z (tz t) (tv t) outV E O) as [[mn mx]|]; [|reflexivity]. rewrite app_nil_r. f_equal.
  apply (nodupb_id eid_eqf eid_eqf_spec). apply NoDup_map_in; [|apply zrange_NoDup]. intros a b _ _ [= ->]. reflexivity.
Qed.

(* the vertical indices returned for the footprint and zoom of tile t contain the whole C12 range of t and nothing outside the ranges
   of the tiles sharing that footprint *)
Corollary tiles_to_eids_per_tile l E O outV r t : tiles_to_eids l E O outV = Ok r -> In t l ->
  exists mn mx, key2z (tz t) (tv t) outV E O = Ok (mn, mx) /\
    (forall f, mn <= f <= mx -> In (mk (th t) (tx t) (ty t) outV f) r) /\
    (forall f, In (mk (th t) (tx t) (ty t) outV f) r ->
       exists t' mn' mx', In t' l /\ th t' = th t /\ tx t' = tx t /\ ty t' = ty t /\ key2z (tz t') (tv t') outV E O = Ok (mn', mx') /\ mn' <= f <= mx').
Proof.
  intros H Hin. destruct (tiles_to_eids_complete _ _ _ _ _ _ H Hin) as (mn & mx & [_ Hk] & Hall). exists mn, mx.
  split; [exact Hk|]. split; [exact Hall|]. intros f Hf. apply (tiles_to_eids_members _ _ _ _ _ H) in Hf.
  destruct Hf as (t' & Hin' & mn' & mx' & [_ Hk'] & E1 & E2 & E3 & _ & Hr). cbn in *. exists t', mn', mx'. repeat split; auto; lia.
Qed.

(* the order of the request and repeated tiles do not matter: same tiles (as a set) => same result up to order, same error status *)
Theorem tiles_to_eids_set_invariant l1 l2 E O outV : (forall t, In t l1 <-> In t l2) ->
  match tiles_to_eids l1 E O outV, tiles_to_eids l2 E O outV with
  | Ok r1, Ok r2 => Permutation r1 r2
  | Err, Err => True
  | _, _ => False
  end.
Proof.
  intros Hs. destruct (tiles_to_eids l1 E O outV) as [r1|] eqn:H1, (tiles_to_eids l2 E O outV) as [r2|] eqn:H2.
  - apply NoDup_Permutation; [eapply tiles_to_eids_NoDup; eauto|eapply tiles_to_eids_NoDup; eauto|].
    intros j. rewrite (tiles_to_eids_members _ _ _ _ _ H1), (tiles_to_eids_members _ _ _ _ _ H2).
    split; intros (t & Hin & Hf); exists t; (split; [now apply Hs|exact Hf]).
  - apply tiles_to_eids_err_iff in H2.
    assert (X : tiles_to_eids l1 E O outV = Err).
    { apply tiles_to_eids_err_iff. destruct H2 as [N|(t & Hin & Hr)]; [now left|right]. exists t. split; [now apply Hs|exact Hr]. }
    congruence.
  - apply tiles_to_eids_err_iff in H1.
    assert (X : tiles_to_eids l2 E O outV = Err).
    { apply tiles_to_eids_err_iff. destruct H1 as [N|(t & Hin & Hr)]; [now left|right]. exists t. split; [now apply Hs|exact Hr]. }
    congruence.
  - exact I.
Qed.
Corollary tiles_to_eids_permutation l1 l2 E O outV : Permutation l1 l2 ->
  match tiles_to_eids l1 E O outV, tiles_to_eids l2 E O outV with
  | Ok r1, Ok r2 => Permutation r1 r2 | Err, Err => True | _, _ => False end.
Proof. intros P. apply tiles_to_eids_set_invariant. intros t. split; apply Permutation_in; [exact P|now apply Permutation_sym]. Qed.
Corollary tiles_to_eids_duplication l E O outV :
  match tiles_to_eids (l ++ l) E O outV, tiles_to_eids l E O outV with
  | Ok r1, Ok r2 => Permutation r1 r2 | Err, Err => True | _, _ => False end.
Proof. apply tiles_to_eids_set_invariant. intros t. rewrite in_app_iff. tauto. Qed.

(* =====================================================================================================================
   4. The C12 range per tile: results are valid IDs, cover the tile's altitude interval, and nothing strays beyond it
   ===================================================================================================================== *)
Definition tile_scale (E O : Z) (t : tile) : scale := key_scale (tv t) E O.       (* the altitude-key scale the tile's z lives on *)
Definition tile_lo (E O : Z) (t : tile) : R := cell_lo (tile_scale E O t) (tz t).  (* lower end of the tile's altitude interval, metres *)
Definition tile_hi (E O : Z) (t : tile) : R := cell_hi (tile_scale E O t) (tz t).  (* upper end (exclusive) *)

(* what acceptance means in terms of C12: z exists at vZoom, the range is the metre-widened cover of the tile's interval on the
   spatial-ID altitude axis at the requested zoom, it contains the exact cover, and it lies inside that zoom's index range *)
Lemma tile_accepted_C12 E O outV t mn mx : tile_accepted E O outV t mn mx ->
  let s := tile_scale E O t in let g := sid_scale outV in
  0 <= th t <= 35 /\ 0 <= outV <= 35 /\ 0 <= tz t < 2 ^ tv t /\
  mn = wid_min g (tile_lo E O t) /\ mx = wid_max g (tile_hi E O t) /\
  mn <= cov_min g (tile_lo E O t) /\ cov_max g (tile_hi E O t) <= mx /\ mn <= mx /\
  ((tv t <= E \/ outV <= zorigin) -> mn = cov_min g (tile_lo E O t) /\ mx = cov_max g (tile_hi E O t)) /\
  - 2 ^ outV <= mn /\ mx < 2 ^ outV /\ 0 <= tv t <= 35.
Proof.
  intros [Hz Hk] s g. apply ext_check_zoom_spec in Hz. apply key2z_ok in Hk. cbv zeta in Hk.
  unfold tile_lo, tile_hi, tile_scale, s, g. tauto.
Qed.

(* ---- the same in words that do not mention the conversion function: WHEN a tile is accepted and WHICH range it gets ---- *)
(* the tile fits: zooms in 0..35, z an index of its vertical zoom, and the metre-widened cover of its altitude interval on the
   spatial-ID axis at the requested zoom lies inside that zoom's index range [-2^outV, 2^outV) *)
Definition tile_fits (E O outV : Z) (t : tile) : Prop :=
  0 <= th t <= 35 /\ 0 <= outV <= 35 /\ 0 <= tv t <= 35 /\ 0 <= tz t < 2 ^ tv t /\
  - 2 ^ outV <= wid_min (sid_scale outV) (tile_lo E O t) /\ wid_max (sid_scale outV) (tile_hi E O t) < 2 ^ outV.
Definition stems_from (E O outV : Z) (t : tile) (j : eid) : Prop :=
  tile_fits E O outV t /\ eh j = th t /\ ex j = tx t /\ ey j = ty t /\ ev j = outV /\
  wid_min (sid_scale outV) (tile_lo E O t) <= ef j <= wid_max (sid_scale outV) (tile_hi E O t).

Theorem tile_rejected_iff E O outV t : tile_rejected E O outV t <-> ~ tile_fits E O outV t.
Proof.
  unfold tile_rejected, tile_fits, tile_lo, tile_hi, tile_scale.
  pose proof (key2z_err_iff (tz t) (tv t) outV E O) as K. cbv zeta in K. rewrite K. clear K.
  destruct (ext_check_zoom (th t) outV) eqn:Z.
  - apply ext_check_zoom_spec in Z. split; [intros [?|?]; [discriminate|lia]|]. intros N. right. lia.
  - split; [|auto]. intros _ N. assert (X : ext_check_zoom (th t) outV = true) by (apply ext_check_zoom_spec; lia). congruence.
Qed.
Theorem tile_accepted_iff E O outV t mn mx :
  tile_accepted E O outV t mn mx <->
  tile_fits E O outV t /\ mn = wid_min (sid_scale outV) (tile_lo E O t) /\ mx = wid_max (sid_scale outV) (tile_hi E O t).
Proof.
  split.
  - intros A. pose proof (tile_accepted_C12 _ _ _ _ _ _ A) as C. cbv zeta in C. unfold tile_fits. repeat split; lia.
  - intros (F & -> & ->). destruct (key2z (tz t) (tv t) outV E O) as [[mn mx]|] eqn:K.
    + assert (A : tile_accepted E O outV t mn mx) by (split; [apply ext_check_zoom_spec; unfold tile_fits in F; lia|exact K]).
      pose proof (tile_accepted_C12 _ _ _ _ _ _ A) as C. cbv zeta in C. destruct C as (_ & _ & _ & <- & <- & _). exact A.
    + exfalso. assert (R : tile_rejected E O outV t) by (right; exact K). apply tile_rejected_iff in R. contradiction.
Qed.
Theorem from_tile_iff E O outV t j : from_tile E O outV t j <-> stems_from E O outV t j.
Proof.
  unfold from_tile, stems_from. split.
  - intros (mn & mx & A & H). apply tile_accepted_iff in A. destruct A as (F & -> & ->). tauto.
  - intros (F & H). exists (wid_min (sid_scale outV) (tile_lo E O t)), (wid_max (sid_scale outV) (tile_hi E O t)).
    split; [apply tile_accepted_iff; auto|tauto].
Qed.

(* the three structural theorems again, without the conversion function *)
Theorem tiles_to_eids_members_ind l E O outV r : tiles_to_eids l E O outV = Ok r ->
  (forall t, In t l -> tile_fits E O outV t) /\ forall j, In j r <-> exists t, In t l /\ stems_from E O outV t j.
Proof.
  intros H. split.
  - intros t Ht. destruct (tiles_to_eids_complete _ _ _ _ _ _ H Ht) as (mn & mx & A & _). apply tile_accepted_iff in A. tauto.
  - intros j. rewrite (tiles_to_eids_members _ _ _ _ _ H). split; intros (t & Ht & X); exists t; (split; [exact Ht|]); now apply from_tile_iff.
Qed.
Theorem tiles_to_eids_err_iff_ind l E O outV :
  tiles_to_eids l E O outV = Err <-> ~ (0 <= outV <= 35) \/ exists t, In t l /\ ~ tile_fits E O outV t.
Proof.
  rewrite tiles_to_eids_err_iff. split; (intros [N|(t & Ht & R)]; [now left|right]); exists t; (split; [exact Ht|]); now apply tile_rejected_iff.
Qed.
Theorem tiles_to_eids_ok_iff_ind l E O outV :
  (exists r, tiles_to_eids l E O outV = Ok r) <-> 0 <= outV <= 35 /\ forall t, In t l -> tile_fits E O outV t.
Proof.
  split.
  - intros (r & H). split; [apply tiles_to_eids_Ok_inv in H; tauto|apply (tiles_to_eids_members_ind _ _ _ _ _ H)].
  - intros (Hz & Hall). destruct (tiles_to_eids l E O outV) as [r|] eqn:H; [eauto|]. exfalso.
    apply tiles_to_eids_err_iff_ind in H. destruct H as [N|(t & Ht & N)]; [contradiction|]. apply N, Hall, Ht.
Qed.

(* every result is a valid ID of the grid when the tiles' x, y are indices of their horizontal zoom *)
Definition footprint_ok (t : tile) : Prop := 0 <= tx t < 2 ^ th t /\ 0 <= ty t < 2 ^ th t.
Theorem tiles_to_eids_valid l E O outV r : tiles_to_eids l E O outV = Ok r -> (forall t, In t l -> footprint_ok t) ->
  forall j, In j r -> valid j.
Proof.
  intros H Hf j Hj. apply (tiles_to_eids_members _ _ _ _ _ H) in Hj. destruct Hj as (t & Hin & mn & mx & Hacc & E1 & E2 & E3 & E4 & Hr).
  apply tile_accepted_C12 in Hacc. cbv zeta in Hacc. destruct (Hf t Hin) as [Fx Fy]. unfold valid. rewrite E1, E2, E3, E4. lia.
Qed.

(* points: (u, w) = normalised longitude / Mercator fractions as in Voxel.v; the third coordinate of Voxel.inR is altitude / 2^25 *)
Definition metres (a : R) : R := (a * bpow radix2 zorigin)%R.
Definition inT (E O : Z) (t : tile) (p : pt) : Prop :=
  let '(u, w, a) := p in
  Zfloor (bpow radix2 (th t) * u) = tx t /\ Zfloor (bpow radix2 (th t) * w) = ty t /\
  in_cell (tile_scale E O t) (tz t) (metres a).

Lemma pos_sid_metres v a : pos (sid_scale v) (metres a) = (bpow radix2 v * a)%R.
Proof.
  unfold pos, sid_scale, metres. cbn [sz se so]. rewrite Rplus_0_r, Rmult_assoc, <- bpow_plus.
  replace (zorigin + (v - zorigin)) with v by lia. ring.
Qed.

(* COVER: every point of every tile of the request lies in one of the returned voxels *)
Theorem tiles_cover l E O outV r t p : tiles_to_eids l E O outV = Ok r -> In t l -> inT E O t p -> exists j, In j r /\ inR j p.
Proof.
  intros H Hin. destruct p as [[u w] a]. intros (Hx & Hy & Hc).
  destruct (tiles_to_eids_complete _ _ _ _ _ _ H Hin) as (mn & mx & Hacc & Hall).
  apply tile_accepted_C12 in Hacc. cbv zeta in Hacc. destruct Hacc as (_ & _ & _ & _ & _ & L1 & L2 & _).
  set (f := Zfloor (pos (sid_scale outV) (metres a))).
  assert (Hf : mn <= f <= mx) by (apply (cover_never_loses (sid_scale outV) (tile_lo E O t) (tile_hi E O t)); [exact L1|exact L2|exact Hc]).
  exists (mk (th t) (tx t) (ty t) outV f). split; [apply Hall; exact Hf|].
  cbn. repeat split; [exact Hx|exact Hy|]. unfold f. now rewrite pos_sid_metres.
Qed.

(* NOTHING STRAYS: every returned voxel has the footprint of a tile whose altitude interval, widened outward to whole metres, it meets;
   when the tile's cells or the target cells are at least one metre tall (vZoom <= zBaseExponent or outputVZoom <= 25) it meets the
   tile's interval itself *)
Theorem tiles_no_stray l E O outV r j : tiles_to_eids l E O outV = Ok r -> In j r ->
  exists t, In t l /\ eh j = th t /\ ex j = tx t /\ ey j = ty t /\ ev j = outV /\
    (exists a, (IZR (Zfloor (tile_lo E O t)) <= a < IZR (Zceil (tile_hi E O t)))%R /\ in_cell (sid_scale outV) (ef j) a) /\
    ((tv t <= E \/ outV <= zorigin) -> exists a, (tile_lo E O t <= a < tile_hi E O t)%R /\ in_cell (sid_scale outV) (ef j) a).
Proof.
  intros H Hj. apply (tiles_to_eids_members _ _ _ _ _ H) in Hj. destruct Hj as (t & Hin & mn & mx & Hacc & E1 & E2 & E3 & E4 & Hr).
  exists t. repeat split; try assumption.
  - apply tile_accepted_C12 in Hacc. cbv zeta in Hacc. destruct Hacc as (_ & _ & _ & -> & -> & _).
    apply cover_within_widened with (mn := wid_min (sid_scale outV) (tile_lo E O t)) (mx := wid_max (sid_scale outV) (tile_hi E O t));
      [lia|lia|apply cell_nonempty|exact Hr].
  - intros Hex. apply tile_accepted_C12 in Hacc. cbv zeta in Hacc. destruct Hacc as (_ & _ & _ & _ & _ & _ & _ & _ & X & _).
    destruct (X Hex) as [-> ->]. apply (cover_meets (sid_scale outV) (tile_lo E O t) (tile_hi E O t) (ef j)); [apply cell_nonempty|exact Hr].
Qed.

(* on the property's domain the int64 computation of the per-tile range is the unbounded one (no wrap-around): what the theorems say
   about key2z they say about ConvertAltitudekeyToMinMaxZ as executed *)
Theorem tile_range_int64_exact h x y v z t E O outV : new_tile h x y v z = Ok t -> ext_check_zoom (th t) outV = true ->
  0 <= E <= 35 -> - 2 ^ 50 <= O <= 2 ^ 50 ->
  key2z64m (tz t) (tv t) outV E O = Some (key2z (tz t) (tv t) outV E O, true).
Proof.
  intros Hn Hz HE HO. apply new_tile_ok in Hn. apply ext_check_zoom_spec in Hz. apply key2z64m_domain; lia.
Qed.

(* =====================================================================================================================
   5. The spatial-ID variant = the C10 expansion of those extended IDs
   ===================================================================================================================== *)
Theorem tiles_to_sids_is_expansion l E O outV :
  tiles_to_sids l E O outV = match tiles_to_eids l E O outV with Ok r => Ok (flat_map expand_eid r) | Err => Err end.
Proof. reflexivity. Qed.
Theorem tiles_to_sids_err_iff l E O outV : tiles_to_sids l E O outV = Err <-> tiles_to_eids l E O outV = Err.
Proof. unfold tiles_to_sids. destruct (tiles_to_eids l E O outV); split; congruence. Qed.
(* the strings are the canonical spatial IDs of the record-level expansion, in the same order *)
Theorem tiles_to_sids_print l E O outV :
  tiles_to_sids l E O outV = match tiles_to_sids_rec l E O outV with Ok js => Ok (map print_sid js) | Err => Err end.
Proof.
  unfold tiles_to_sids, tiles_to_sids_rec. destruct (tiles_to_eids l E O outV) as [r|]; [|reflexivity]. f_equal.
  rewrite map_flat_map'. apply flat_map_ext. intros i. apply expand_eid_rec.
Qed.

Lemma result_nonneg l E O outV r i : tiles_to_eids l E O outV = Ok r -> (forall t, In t l -> 0 <= tx t /\ 0 <= ty t) -> In i r ->
  0 <= eh i /\ 0 <= ev i /\ 0 <= ex i /\ 0 <= ey i.
Proof.
  intros H Hf Hi. apply (tiles_to_eids_members _ _ _ _ _ H) in Hi. destruct Hi as (t & Hin & mn & mx & Hacc & E1 & E2 & E3 & E4 & _).
  apply tile_accepted_C12 in Hacc. cbv zeta in Hacc. destruct (Hf t Hin). lia.
Qed.

(* members: exactly the voxels at the single zoom max(hZoom, outputVZoom) (on both axes) that overlap an extended ID of the result *)
Theorem tiles_to_sids_members l E O outV r js : tiles_to_eids l E O outV = Ok r -> tiles_to_sids_rec l E O outV = Ok js ->
  (forall t, In t l -> 0 <= tx t /\ 0 <= ty t) ->
  forall j, In j js <-> exists i, In i r /\ eh j = Z.max (eh i) outV /\ ev j = Z.max (eh i) outV /\ overlaps i j.
Proof.
  intros H Hs Hf j. unfold tiles_to_sids_rec in Hs. rewrite H in Hs. injection Hs as <-. rewrite in_flat_map.
  split; intros (i & Hi & X); exists i; (split; [exact Hi|]);
    destruct (result_nonneg _ _ _ _ _ _ H Hf Hi) as (A & B & C & D); destruct (tiles_to_eids_footprint _ _ _ _ _ _ H Hi) as [Ev _].
  - apply expand_rec_spec in X; try assumption. unfold tzoom in X. rewrite Ev in X. exact X.
  - apply expand_rec_spec; try assumption. unfold tzoom. rewrite Ev. exact X.
Qed.

(* SAME REGION: a point lies in a returned spatial ID iff it lies in one of the extended IDs *)
Theorem tiles_to_sids_region l E O outV r js : tiles_to_eids l E O outV = Ok r -> tiles_to_sids_rec l E O outV = Ok js ->
  (forall t, In t l -> 0 <= tx t /\ 0 <= ty t) ->
  forall p, (exists j, In j js /\ inR j p) <-> (exists i, In i r /\ inR i p).
Proof.
  intros H Hs Hf p. unfold tiles_to_sids_rec in Hs. rewrite H in Hs. injection Hs as <-. split.
  - intros (j & Hj & Hp). apply in_flat_map in Hj. destruct Hj as (i & Hi & Hj). exists i. split; [exact Hi|].
    destruct (result_nonneg _ _ _ _ _ _ H Hf Hi) as (A & B & C & D). apply (expand_region i p A B C D). eauto.
  - intros (i & Hi & Hp). destruct (result_nonneg _ _ _ _ _ _ H Hf Hi) as (A & B & C & D).
    apply (expand_region i p A B C D) in Hp. destruct Hp as (j & Hj & Hp). exists j. split; [|exact Hp]. apply in_flat_map. eauto.
Qed.
(* hence the spatial IDs cover every tile of the request too *)
Corollary tiles_to_sids_cover l E O outV js t p : tiles_to_sids_rec l E O outV = Ok js -> (forall t, In t l -> 0 <= tx t /\ 0 <= ty t) ->
  In t l -> inT E O t p -> exists j, In j js /\ inR j p.
Proof.
  intros Hs Hf Hin Hp. destruct (tiles_to_eids l E O outV) as [r|] eqn:H; [|unfold tiles_to_sids_rec in Hs; rewrite H in Hs; discriminate].
  apply (tiles_to_sids_region _ _ _ _ _ _ H Hs Hf). eapply tiles_cover; eauto.
Qed.

(* the returned strings: each is the canonical notation of a valid spatial ID (both zooms equal) of the record-level expansion *)
Theorem tiles_to_sids_strings l E O outV ss : tiles_to_sids l E O outV = Ok ss -> (forall t, In t l -> footprint_ok t) ->
  forall s, In s ss -> exists j, parse_sid s = Some j /\ s = print_sid j /\ valid j /\ eh j = ev j /\
                                 exists js, tiles_to_sids_rec l E O outV = Ok js /\ In j js.
Proof.
  intros Hs Hf s Hin. unfold tiles_to_sids in Hs. destruct (tiles_to_eids l E O outV) as [r|] eqn:H; [|discriminate]. injection Hs as <-.
  apply in_flat_map in Hin. destruct Hin as (i & Hi & Hs).
  pose proof (tiles_to_eids_valid _ _ _ _ _ H Hf i Hi) as Vi.
  destruct (expand_eid_members i s Vi Hs) as (j & P1 & P2 & P3 & P4 & P5 & P6). exists j.
  split; [exact P1|]. split; [exact P2|]. split; [exact P4|]. split; [congruence|].
  exists (flat_map expand_rec r). split; [unfold tiles_to_sids_rec; now rewrite H|]. apply in_flat_map. eauto.
Qed.

(* order of the request / repeated tiles: the spatial-ID result is the same multiset *)
Theorem tiles_to_sids_set_invariant l1 l2 E O outV : (forall t, In t l1 <-> In t l2) ->
  match tiles_to_sids l1 E O outV, tiles_to_sids l2 E O outV with
  | Ok s1, Ok s2 => Permutation s1 s2
  | Err, Err => True
  | _, _ => False
  end.
Proof.
  intros Hs. pose proof (tiles_to_eids_set_invariant l1 l2 E O outV Hs) as X. unfold tiles_to_sids.
  destruct (tiles_to_eids l1 E O outV), (tiles_to_eids l2 E O outV); try exact X. now apply Permutation_flat_map.
Qed.

(* the spatial-ID variant does NOT de-duplicate: tiles of different horizontal zooms whose footprints are nested expand to common IDs *)
Example tiles_to_sids_may_repeat :
  tiles_to_sids [mkt 0 0 0 1 0; mkt 1 0 0 1 0] 25 0 1 = Ok ["1/0/0/0"; "1/0/0/1"; "1/0/1/0"; "1/0/1/1"; "1/0/0/0"]%string.
Proof. vm_compute. reflexivity. Qed.

(* with one horizontal zoom in the request there is no repetition *)
Lemma overlaps_same_zoom_eq i1 i2 j : eh i1 = eh i2 -> ev i1 = ev i2 -> eh i1 <= eh j -> ev i1 <= ev j ->
  overlaps i1 j -> overlaps i2 j -> i1 = i2.
Proof.
  unfold overlaps, rel1. intros Eh Ev Lh Lv (X1 & Y1 & F1) (X2 & Y2 & F2). rewrite <- Eh, <- Ev in *.
  destruct (Z.leb_spec (eh i1) (eh j)); [|lia]. destruct (Z.leb_spec (ev i1) (ev j)); [|lia].
  destruct i1, i2; cbn in *. subst. reflexivity.
Qed.
Theorem tiles_to_sids_NoDup_one_hzoom l E O outV h js : tiles_to_sids_rec l E O outV = Ok js ->
  (forall t, In t l -> th t = h /\ 0 <= tx t /\ 0 <= ty t) -> NoDup js.
Proof.
  intros Hs Hf. unfold tiles_to_sids_rec in Hs. destruct (tiles_to_eids l E O outV) as [r|] eqn:H; [|discriminate]. injection Hs as <-.
  assert (Hf' : forall t, In t l -> 0 <= tx t /\ 0 <= ty t) by (intros t Ht; destruct (Hf t Ht); tauto).
  assert (Hz : forall i, In i r -> eh i = h /\ ev i = outV).
  { intros i Hi. destruct (tiles_to_eids_footprint _ _ _ _ _ _ H Hi) as (Ev & t & Ht & Eh & _). destruct (Hf t Ht) as [<- _]. auto. }
  assert (Hn : forall i, In i r -> 0 <= eh i /\ 0 <= ev i /\ 0 <= ex i /\ 0 <= ey i) by (intros i Hi; eapply result_nonneg; eauto).
  pose proof (tiles_to_eids_NoDup _ _ _ _ _ H) as Hnd. clear H Hf Hf'.
  induction r as [|i r IH]; cbn [flat_map]; [constructor|].
  inversion Hnd as [|? ? Hni Hnr]; subst. apply NoDup_app'; [apply expand_rec_NoDup| |].
  - apply IH; [intros; apply Hz; now right|intros; apply Hn; now right|exact Hnr].
  - intros j Hj1 Hj2. apply in_flat_map in Hj2. destruct Hj2 as (i2 & Hi2 & Hj2).
    destruct (Hn i (or_introl eq_refl)) as (A1 & B1 & C1 & D1). destruct (Hn i2 (or_intror Hi2)) as (A2 & B2 & C2 & D2).
    apply expand_rec_spec in Hj1; try assumption. apply expand_rec_spec in Hj2; try assumption.
    destruct (Hz i (or_introl eq_refl)) as [Z1 Z2]. destruct (Hz i2 (or_intror Hi2)) as [Z3 Z4].
    destruct Hj1 as (T1 & T2 & O1). destruct Hj2 as (_ & _ & O2). unfold tzoom in T1, T2.
    assert (i = i2) by (apply (overlaps_same_zoom_eq i i2 j); try congruence; lia). subst i2. contradiction.
Qed.

(* =====================================================================================================================
   6. Non-vacuity: the documentation's examples and the cases the unit tests do not reach
   ===================================================================================================================== *)
Example doc_example_1 : tiles_to_eids [mkt 20 85263 65423 23 0] 25 8 23 = Ok [mk 20 85263 65423 23 (-2)].
Proof. vm_compute. reflexivity. Qed.
Example doc_example_3 : tiles_to_eids [mkt 20 85263 65423 23 0] 25 7 23 = Ok [mk 20 85263 65423 23 (-2); mk 20 85263 65423 23 (-1)].
Proof. vm_compute. reflexivity. Qed.
(* two tiles with the same z at different vertical zooms: each gets the range of ITS OWN zoom *)
Example same_z_other_vzoom : tiles_to_eids [mkt 3 1 2 25 1; mkt 3 1 2 24 1] 25 0 25 = Ok [mk 3 1 2 25 1; mk 3 1 2 25 2; mk 3 1 2 25 3].
Proof. vm_compute. reflexivity. Qed.
(* ... and a z that exists at vZoom 3 but not at vZoom 2 fails the whole call, also as the last tile *)
Example same_z_invalid_at_other_vzoom :
  tiles_to_eids [mkt 3 1 2 3 5] 25 0 3 = Ok [mk 3 1 2 3 5] /\ tiles_to_eids [mkt 3 1 2 3 5; mkt 3 1 2 2 5] 25 0 3 = Err.
Proof. vm_compute. split; reflexivity. Qed.
(* overlapping ranges of adjacent tiles are merged without repetition *)
Example empty_request_bad_zoom : tiles_to_eids [] 25 0 36 = Err /\ tiles_to_eids [] 25 0 (-1) = Err /\ tiles_to_eids [] 25 0 35 = Ok [].
Proof. vm_compute. repeat split; reflexivity. Qed.
Example overlapping_tiles : tiles_to_eids [mkt 1 0 1 25 0; mkt 1 0 1 25 1; mkt 1 0 1 24 0] 25 0 25 = Ok [mk 1 0 1 25 0; mk 1 0 1 25 1].
Proof. vm_compute. reflexivity. Qed.
Example spatial_variant_example : tiles_to_sids [mkt 2 1 3 25 4] 25 0 3 = Ok ["3/0/2/6"; "3/0/2/7"; "3/0/3/6"; "3/0/3/7"]%string.
Proof. vm_compute. reflexivity. Qed.
(* a range that starts on a legal index and runs past the top of the target zoom is an error *)
Example range_past_the_top_is_an_error :
  key2z (2 ^ 24 - 1) 24 25 25 (-1) = Err /\ tiles_to_eids [mkt 20 85263 65423 23 0; mkt 20 85263 65423 24 (2 ^ 24 - 1)] 25 (-1) 25 = Err.
Proof. vm_compute. split; reflexivity. Qed.
(* output vertical zoom 0 with hZoom 3: the expansion raises the vertical axis to zoom 3 *)
Example output_zoom_0 : tiles_to_sids [mkt 3 5 2 3 3] 3 2 0 =
  Ok ["3/0/5/2"; "3/1/5/2"; "3/2/5/2"; "3/3/5/2"; "3/4/5/2"; "3/5/5/2"; "3/6/5/2"; "3/7/5/2"]%string.
Proof. vm_compute. reflexivity. Qed.
(* the hypotheses of the cover theorem are satisfiable: the point (u, w, altitude 2.5 m) of tile (1, 0, 1, 25, 2) with E = 25, O = 0 *)
Example cover_hypotheses_satisfiable : inT 25 0 (mkt 1 0 1 25 2) (0.25, 0.75, 2.5 * / 33554432)%R.
Proof.
  unfold inT, tile_scale, key_scale, in_cell, cell_hi, cell_lo, metres. cbn [th tx ty tv tz sz se so].
  replace (bpow radix2 1) with 2%R by (cbn; lra). replace (bpow radix2 (25 - 25)) with 1%R by reflexivity.
  replace (bpow radix2 zorigin) with 33554432%R by (unfold zorigin; cbn; lra).
  split; [apply Zfloor_imp; cbn; lra|]. split; [apply Zfloor_imp; cbn; lra|]. cbn. lra.
Qed.

(* =====================================================================================================================
   7. The TileXYZ object: constructor, setters, getters (common/object/id_object.go)
   ===================================================================================================================== *)
(* `&object.TileXYZ{}` *)
Definition zero_tile : tile := mkt 0 0 0 0 0.
(* the five setters. SetHZoom / SetVZoom return an error and leave the object unchanged outside [0, MaxTileXYZZoom]; SetX / SetY / SetZ
   store any value. Result: (error?, object afterwards) *)
Inductive tile_op := SetH (h : Z) | SetX (x : Z) | SetY (y : Z) | SetV (v : Z) | SetZ (z : Z).
Definition apply_op (t : tile) (o : tile_op) : bool * tile :=
  match o with
  | SetH h => if tile_zoom_ok h then (false, mkt h (tx t) (ty t) (tv t) (tz t)) else (true, t)
  | SetX x => (false, mkt (th t) x (ty t) (tv t) (tz t))
  | SetY y => (false, mkt (th t) (tx t) y (tv t) (tz t))
  | SetV v => if tile_zoom_ok v then (false, mkt (th t) (tx t) (ty t) v (tz t)) else (true, t)
  | SetZ z => (false, mkt (th t) (tx t) (ty t) (tv t) z)
  end.
(* a sequence of setter calls: the (error?, getters) observed after every call *)
Fixpoint run_ops (t : tile) (ops : list tile_op) : list (bool * tile) :=
  match ops with [] => [] | o :: r => let '(e, t') := apply_op t o in (e, t') :: run_ops t' r end.
Definition final_tile (t : tile) (ops : list tile_op) : tile := fold_left (fun s o => snd (apply_op s o)) ops t.

Lemma tile_zoom_ok_spec z : tile_zoom_ok z = true <-> 0 <= z <= 35.
Proof. unfold tile_zoom_ok, max_tile_zoom. rewrite andb_true_iff, !Z.leb_le. tauto. Qed.

(* get-after-set and frame, one theorem per setter *)
Theorem set_x_spec t x : let '(e, t') := apply_op t (SetX x) in e = false /\ tx t' = x /\ th t' = th t /\ ty t' = ty t /\ tv t' = tv t /\ tz t' = tz t.
Proof. cbn. tauto. Qed.
Theorem set_y_spec t y : let '(e, t') := apply_op t (SetY y) in e = false /\ ty t' = y /\ th t' = th t /\ tx t' = tx t /\ tv t' = tv t /\ tz t' = tz t.
Proof. cbn. tauto. Qed.
Theorem set_z_spec t z : let '(e, t') := apply_op t (SetZ z) in e = false /\ tz t' = z /\ th t' = th t /\ tx t' = tx t /\ ty t' = ty t /\ tv t' = tv t.
Proof. cbn. tauto. Qed.
Theorem set_h_spec t h : let '(e, t') := apply_op t (SetH h) in
  (0 <= h <= 35 -> e = false /\ th t' = h /\ tx t' = tx t /\ ty t' = ty t /\ tv t' = tv t /\ tz t' = tz t) /\
  (~ 0 <= h <= 35 -> e = true /\ t' = t).
Proof.
  cbn [apply_op]. destruct (tile_zoom_ok h) eqn:Z.
  - apply tile_zoom_ok_spec in Z. cbn. split; [tauto|]. intros N. contradiction.
  - split; [|tauto]. intros Hh. apply tile_zoom_ok_spec in Hh. congruence.
Qed.
Theorem set_v_spec t v : let '(e, t') := apply_op t (SetV v) in
  (0 <= v <= 35 -> e = false /\ tv t' = v /\ th t' = th t /\ tx t' = tx t /\ ty t' = ty t /\ tz t' = tz t) /\
  (~ 0 <= v <= 35 -> e = true /\ t' = t).
Proof.
  cbn [apply_op]. destruct (tile_zoom_ok v) eqn:Z.
  - apply tile_zoom_ok_spec in Z. cbn. split; [tauto|]. intros N. contradiction.
  - split; [|tauto]. intros Hv. apply tile_zoom_ok_spec in Hv. congruence.
Qed.
(* setting a field to the value it already has changes nothing; a refused call changes nothing *)
Theorem apply_op_error_keeps_object t o : fst (apply_op t o) = true -> snd (apply_op t o) = t.
Proof. destruct o; cbn; try discriminate; destruct (tile_zoom_ok _); cbn; congruence. Qed.

(* INVARIANT: whatever the sequence of setters, an object that came from NewTileXYZ (or from the zero value) keeps both zooms in 0..35 —
   so a request can only contain tiles that NewTileXYZ could have returned, and the conversions never see another zoom *)
Definition zooms_valid (t : tile) : Prop := 0 <= th t <= 35 /\ 0 <= tv t <= 35.
Lemma apply_op_zooms_valid t o : zooms_valid t -> zooms_valid (snd (apply_op t o)).
Proof.
  unfold zooms_valid. destruct o; cbn; try tauto; destruct (tile_zoom_ok _) eqn:Z; cbn; try tauto; apply tile_zoom_ok_spec in Z; tauto.
Qed.
Theorem setters_keep_zooms_valid t ops : zooms_valid t -> zooms_valid (final_tile t ops).
Proof. unfold final_tile. revert t. induction ops as [|o r IH]; intros t H; [exact H|]. cbn. apply IH, apply_op_zooms_valid, H. Qed.
Theorem zero_tile_zooms_valid : zooms_valid zero_tile.
Proof. unfold zooms_valid. cbn. lia. Qed.
Theorem new_tile_zooms_valid h x y v z t : new_tile h x y v z = Ok t -> zooms_valid t.
Proof. intros H. apply new_tile_ok in H. unfold zooms_valid. tauto. Qed.
Theorem reachable_tile_is_constructible t : zooms_valid t -> new_tile (th t) (tx t) (ty t) (tv t) (tz t) = Ok t.
Proof. intros [H V]. destruct (new_tile_spec (th t) (tx t) (ty t) (tv t) (tz t)) as [A _]. rewrite (A (conj H V)). now destruct t. Qed.
Example setter_sequence_example :
  run_ops zero_tile [SetH 36; SetH 20; SetX (-7); SetV (-1); SetV 23; SetZ 5; SetH 40] =
  [(true, mkt 0 0 0 0 0); (false, mkt 20 0 0 0 0); (false, mkt 20 (-7) 0 0 0); (true, mkt 20 (-7) 0 0 0); (false, mkt 20 (-7) 0 23 0);
   (false, mkt 20 (-7) 0 23 5); (true, mkt 20 (-7) 0 23 5)].
Proof. vm_compute. reflexivity. Qed.
