(* Overlap.v — detector/check_spatial_id_overlap.go (property C05):
     CheckExtendedSpatialIdsOverlap, CheckExtendedSpatialIdsArrayOverlap   (zoom-change based: ChangeZoom.v, property C03)
     getSpatialIdAttrs, CheckSpatialIdsArrayOverlap, CheckSpatialIdsOverlap (radix-tree based: Radix.v, Digits.v, AltKeyCore.v)
   Executable models that follow the Go code statement by statement (after the repairs e394a21, 84c8b2c, 72f5085, ef49a98), the
   specification (the ancestor-or-equal relation `Ids.overlaps` on both axes = the regions share a point, Voxel.overlaps_iff_meet),
   and the proofs. Error messages are not modelled; on an error the Go functions return (false, err): `Err`. *)
From Coq Require Import ZArith Lia String List Bool Reals Lra.
From Flocq Require Import Core.
From SID Require Import Base Str Ids Voxel ZoomCore AltKeyCore ChangeZoom Radix Digits.
Import ListNotations.
Open Scope Z_scope.

(* ================================================================================================================== *)
(* 1. Extended form: executable model                                                                                 *)
(* ================================================================================================================== *)

(* `n, _ := strconv.Atoi(s)`: the error is dropped. On a syntax error Go's value is 0; on a range error it is the clamped bound.
   The model uses 0 for both: a field on which Atoi fails makes ChangeExtendedSpatialIdsZoom refuse that ID whatever the target
   zooms are (`ext_overlap_at_malformed`), so the value never reaches the result. *)
Definition atoi_drop (s : string) : Z := match parse s with Some z => z | None => 0 end.
Definition field (n : nat) (l : list string) : string := nth n l EmptyString.

(* the two conversions at given target zooms and the comparison `extendedSpatialIds1[0] == extendedSpatialIds2[0]`
   (a successful conversion of a one-element list is never empty: `change_single_nonempty`, so `[0]` cannot panic) *)
Definition ext_overlap_at (H V : Z) (a b : string) : result bool :=
  match change_ext_api [a] H V with
  | Err => Err
  | Ok r1 => match change_ext_api [b] H V with
             | Err => Err
             | Ok r2 => Ok (String.eqb (hd EmptyString r1) (hd EmptyString r2))
             end
  end.
(* target zooms: per axis the smaller of the two zoom fields (fields 0 and 3) *)
Definition ext_targets (a b : string) : Z * Z :=
  let f1 := split a in let f2 := split b in
  let h1 := atoi_drop (field 0 f1) in let h2 := atoi_drop (field 0 f2) in
  let v1 := atoi_drop (field 3 f1) in let v2 := atoi_drop (field 3 f2) in
  ((if h2 <? h1 then h2 else h1), (if v2 <? v1 then v2 else v1)).
(* CheckExtendedSpatialIdsOverlap *)
Definition ext_overlap (a b : string) : result bool :=
  if negb (Nat.eqb (length (split a)) 5) || negb (Nat.eqb (length (split b)) 5) then Err
  else ext_overlap_at (fst (ext_targets a b)) (snd (ext_targets a b)) a b.

(* CheckExtendedSpatialIdsArrayOverlap: nested loops, first error ends the call, first hit ends the call *)
Fixpoint ext_inner (a : string) (l2 : list string) : result bool :=
  match l2 with
  | [] => Ok false
  | b :: r => match ext_overlap a b with
              | Err => Err
              | Ok true => Ok true
              | Ok false => ext_inner a r
              end
  end.
Fixpoint ext_array (l1 l2 : list string) : result bool :=
  match l1 with
  | [] => Ok false
  | a :: r => match ext_inner a l2 with
              | Err => Err
              | Ok true => Ok true
              | Ok false => ext_array r l2
              end
  end.

(* ================================================================================================================== *)
(* 2. Extended form: proofs                                                                                           *)
(* ================================================================================================================== *)

Lemma min_if a b : (if b <? a then b else a) = Z.min a b.
Proof. destruct (Z.ltb_spec b a); lia. Qed.

Lemma parse_eid_fields s i : parse_eid s = Some i ->
  length (split s) = 5%nat /\ atoi_drop (field 0 (split s)) = eh i /\ atoi_drop (field 3 (split s)) = ev i.
Proof.
  unfold parse_eid. destruct (split s) as [|a [|b [|c [|d [|e [|g r]]]]]]; try discriminate.
  unfold atoi_drop, field. cbn [nth].
  destruct (parse a) as [h|]; [|discriminate]. destruct (parse b) as [x|]; [|discriminate]. destruct (parse c) as [y|]; [|discriminate].
  destruct (parse d) as [v|]; [|discriminate]. destruct (parse e) as [f|]; [|discriminate]. intros [= <-]. cbn. auto.
Qed.

Lemma parse_all_cons s r es : parse_all (s :: r) = Some es ->
  exists i t, es = i :: t /\ parse_eid s = Some i /\ parse_all r = Some t.
Proof.
  cbn. destruct (parse_eid s) as [i|]; [|discriminate]. destruct (parse_all r) as [t|]; [|discriminate].
  intros [= <-]. eauto.
Qed.

(* one axis: bringing both indices to the smaller zoom and comparing is the ancestor-or-equal relation *)
Lemma axis_min z1 i1 z2 i2 :
  anc (z1 - Z.min z1 z2) i1 = anc (z2 - Z.min z1 z2) i2 <-> rel1 z1 i1 z2 i2.
Proof.
  unfold rel1. destruct (Z.leb_spec z1 z2).
  - rewrite Z.min_l by lia. rewrite Z.sub_diag, anc_0. split; congruence.
  - rewrite Z.min_r by lia. rewrite Z.sub_diag, anc_0. reflexivity.
Qed.
Lemma ancestor_eq_iff i j :
  ancestor i (Z.min (eh i) (eh j)) (Z.min (ev i) (ev j)) = ancestor j (Z.min (eh i) (eh j)) (Z.min (ev i) (ev j)) <-> overlaps i j.
Proof.
  unfold ancestor, mk, overlaps. rewrite <- !axis_min. split.
  - intros [= E1 E2 E3]. auto.
  - intros (E1 & E2 & E3). now rewrite E1, E2, E3.
Qed.

(* lowering a single valid ID: the API returns the one-element list holding the printed floor-ancestor *)
Lemma change_single a i H V : parse_eid a = Some i -> valid i -> 0 <= H <= eh i -> 0 <= V <= ev i ->
  change_ext_api [a] H V = Ok [print_eid (ancestor i H V)] /\ valid (ancestor i H V).
Proof.
  intros Hp Hv HH HV. pose proof Hv as (V1 & V2 & _).
  assert (Hall : forall k, In k [i] -> valid k) by (intros k [<-|[]]; exact Hv).
  assert (E : change_eids [i] H V = [ancestor i H V]).
  { unfold change_eids. cbn [flat_map]. rewrite app_nil_r.
    pose proof Hv as (_ & _ & Hx & Hy & _). unfold one. rewrite hzoom_down, vzoom_down by lia. reflexivity. }
  split.
  - rewrite (change_ext_api_parsed [a] [i] H V); [now rewrite E| cbn; now rewrite Hp | exact Hall | lia | lia].
  - apply (change_valid [i] H V); [exact Hall|lia|lia|]. rewrite E. now left.
Qed.

(* a successful conversion of a one-element list has at least one element: the `[0]` of the Go code cannot be out of range *)
Lemma change_single_nonempty a H V r : change_ext_api [a] H V = Ok r -> r <> [].
Proof.
  unfold change_ext_api. destruct (check_zoom H && check_zoom V); [|discriminate].
  cbn [parse_all]. destruct (parse_eid a) as [i|]; [|discriminate]. intros [= <-].
  cbn [flat_map]. rewrite app_nil_r, one_strs_print.
  assert (L : (0 < length (one H V i))%nat).
  { rewrite one_length. assert (0 < 4 ^ Z.max 0 (H - eh i)) by (apply Z.pow_pos_nonneg; lia).
    assert (0 < 2 ^ Z.max 0 (V - ev i)) by (apply Z.pow_pos_nonneg; lia). nia. }
  destruct (one H V i) as [|o t]; [cbn in L; lia|]. intros N.
  assert (I : In (print_eid o) (nodupb String.eqb (map print_eid (o :: t)))).
  { apply (nodupb_In String.eqb String.eqb_spec). now left. }
  rewrite N in I. exact I.
Qed.

(* a malformed ID is refused at any target zooms *)
Lemma ext_overlap_at_malformed H V a b : parse_eid a = None \/ parse_eid b = None -> ext_overlap_at H V a b = Err.
Proof.
  intros [N|N]; unfold ext_overlap_at.
  - rewrite (change_ext_api_malformed [a] a H V (or_introl eq_refl) N). reflexivity.
  - rewrite (change_ext_api_malformed [b] b H V (or_introl eq_refl) N). destruct (change_ext_api [a] H V); reflexivity.
Qed.
Theorem ext_overlap_malformed a b : parse_eid a = None \/ parse_eid b = None -> ext_overlap a b = Err.
Proof.
  intros N. unfold ext_overlap. destruct (negb _ || negb _); [reflexivity|]. now apply ext_overlap_at_malformed.
Qed.

(* C05, extended pairwise form: on strings that parse to valid IDs the check never fails and answers the ancestor-or-equal relation *)
Theorem ext_overlap_spec a b i j : parse_eid a = Some i -> parse_eid b = Some j -> valid i -> valid j ->
  ext_overlap a b = Ok (overlapsb i j).
Proof.
  intros Pa Pb Vi Vj. unfold ext_overlap.
  destruct (parse_eid_fields a i Pa) as (La & Ha & Va). destruct (parse_eid_fields b j Pb) as (Lb & Hb & Vb).
  rewrite La, Lb. cbn [Nat.eqb negb orb].
  unfold ext_targets. rewrite Ha, Hb, Va, Vb, !min_if. cbn [fst snd].
  pose proof Vi as (I1 & I2 & _). pose proof Vj as (J1 & J2 & _).
  set (H := Z.min (eh i) (eh j)). set (V := Z.min (ev i) (ev j)).
  destruct (change_single a i H V Pa Vi ltac:(unfold H; lia) ltac:(unfold V; lia)) as [Ea Wa].
  destruct (change_single b j H V Pb Vj ltac:(unfold H; lia) ltac:(unfold V; lia)) as [Eb Wb].
  unfold ext_overlap_at. rewrite Ea, Eb. cbn [hd]. f_equal.
  apply eq_true_iff_eq. rewrite String.eqb_eq, overlapsb_spec, <- ancestor_eq_iff. fold H V. split.
  - apply print_eid_inj; apply valid_fields_ok; assumption.
  - now intros ->.
Qed.

(* symmetric — for all strings, well-formed or not *)
Theorem ext_overlap_sym a b : ext_overlap a b = ext_overlap b a.
Proof.
  unfold ext_overlap. rewrite (orb_comm (negb (Nat.eqb (length (split a)) 5))).
  destruct (negb _ || negb _); [reflexivity|].
  assert (T : ext_targets a b = ext_targets b a).
  { unfold ext_targets. rewrite !min_if. f_equal; apply Z.min_comm. }
  rewrite T. unfold ext_overlap_at.
  destruct (change_ext_api [a] _ _), (change_ext_api [b] _ _); try reflexivity. now rewrite String.eqb_sym.
Qed.
(* an ID against itself: true whenever the call succeeds, and it succeeds for every valid ID *)
Theorem ext_overlap_refl_any a : ext_overlap a a = Err \/ ext_overlap a a = Ok true.
Proof.
  unfold ext_overlap. destruct (negb _ || negb _); [now left|]. unfold ext_overlap_at.
  destruct (change_ext_api [a] _ _); [right|now left]. now rewrite String.eqb_refl.
Qed.
Theorem ext_overlap_refl a i : parse_eid a = Some i -> valid i -> ext_overlap a a = Ok true.
Proof.
  intros P V. rewrite (ext_overlap_spec a a i i P P V V). f_equal. apply overlapsb_spec, overlaps_refl.
Qed.

(* array form = disjunction over all pairs *)
Lemma ext_inner_spec a i l2 : parse_eid a = Some i -> valid i -> forall e2, parse_all l2 = Some e2 -> (forall j, In j e2 -> valid j) ->
  ext_inner a l2 = Ok (existsb (overlapsb i) e2).
Proof.
  intros Pa Vi. induction l2 as [|b r IH]; intros e2 P2 V2.
  - cbn in P2. injection P2 as <-. reflexivity.
  - apply parse_all_cons in P2. destruct P2 as (j & t & -> & Pb & Pr).
    cbn [ext_inner existsb]. rewrite (ext_overlap_spec a b i j Pa Pb Vi (V2 j (or_introl eq_refl))).
    destruct (overlapsb i j); [reflexivity|]. cbn [orb]. apply IH; [exact Pr|]. intros k Hk. apply V2. now right.
Qed.
Theorem ext_array_spec l1 l2 e1 e2 : parse_all l1 = Some e1 -> parse_all l2 = Some e2 ->
  (forall i, In i e1 -> valid i) -> (forall j, In j e2 -> valid j) ->
  ext_array l1 l2 = Ok (existsb (fun i => existsb (overlapsb i) e2) e1).
Proof.
  intros P1 P2 V1 V2. revert e1 P1 V1. induction l1 as [|a r IH]; intros e1 P1 V1.
  - cbn in P1. injection P1 as <-. reflexivity.
  - apply parse_all_cons in P1. destruct P1 as (i & t & -> & Pa & Pr).
    cbn [ext_array existsb]. rewrite (ext_inner_spec a i l2 Pa (V1 i (or_introl eq_refl)) e2 P2 V2).
    destruct (existsb (overlapsb i) e2); [reflexivity|]. cbn [orb]. apply IH; [exact Pr|]. intros k Hk. apply V1. now right.
Qed.
(* the same, read as a proposition *)
Lemma exists_pair_iff (e1 e2 : list eid) :
  existsb (fun i => existsb (overlapsb i) e2) e1 = true <-> exists i j, In i e1 /\ In j e2 /\ overlaps i j.
Proof.
  rewrite existsb_exists. split.
  - intros (i & Hi & E). apply existsb_exists in E. destruct E as (j & Hj & E). apply overlapsb_spec in E. eauto.
  - intros (i & j & Hi & Hj & E). exists i. split; [exact Hi|]. apply existsb_exists. exists j. split; [exact Hj|]. now apply overlapsb_spec.
Qed.
(* either list empty: false, nothing is examined *)
Theorem ext_array_nil_l l2 : ext_array [] l2 = Ok false.
Proof. reflexivity. Qed.
Theorem ext_array_nil_r l1 : ext_array l1 [] = Ok false.
Proof. induction l1 as [|a r IH]; [reflexivity|]. cbn. exact IH. Qed.
(* the pairwise form is the array form on one-element lists *)
Theorem ext_array_single a b : ext_array [a] [b] = ext_overlap a b.
Proof. cbn. destruct (ext_overlap a b) as [[|]|]; reflexivity. Qed.
(* the array form is the disjunction of the pairwise form *)
Theorem ext_array_pairwise l1 l2 e1 e2 : parse_all l1 = Some e1 -> parse_all l2 = Some e2 ->
  (forall i, In i e1 -> valid i) -> (forall j, In j e2 -> valid j) ->
  (ext_array l1 l2 = Ok true <-> exists a b, In a l1 /\ In b l2 /\ ext_overlap a b = Ok true) /\
  (ext_array l1 l2 = Ok true \/ ext_array l1 l2 = Ok false).
Proof.
  intros P1 P2 V1 V2. rewrite (ext_array_spec l1 l2 e1 e2 P1 P2 V1 V2). split.
  2:{ destruct (existsb _ e1); auto. }
  assert (N : forall l e s, parse_all l = Some e -> In s l -> exists i, In i e /\ parse_eid s = Some i).
  { induction l as [|x r IH]; intros e s P Hs; [contradiction|]. apply parse_all_cons in P. destruct P as (i & t & -> & Px & Pr).
    destruct Hs as [->|Hs]; [exists i; split; [now left|exact Px]|]. destruct (IH t s Pr Hs) as (k & Hk & Pk). exists k. split; [now right|exact Pk]. }
  assert (M : forall l e i, parse_all l = Some e -> In i e -> exists s, In s l /\ parse_eid s = Some i).
  { induction l as [|x r IH]; intros e i P Hi.
    - cbn in P. injection P as <-. contradiction.
    - apply parse_all_cons in P. destruct P as (k & t & -> & Px & Pr).
      destruct Hi as [<-|Hi]; [exists x; split; [now left|exact Px]|]. destruct (IH t i Pr Hi) as (s & Hs & Ps). exists s. split; [now right|exact Ps]. }
  split.
  - intros [= E]. apply exists_pair_iff in E. destruct E as (i & j & Hi & Hj & O).
    destruct (M l1 e1 i P1 Hi) as (a & Ha & Pa). destruct (M l2 e2 j P2 Hj) as (b & Hb & Pb).
    exists a, b. repeat split; auto. rewrite (ext_overlap_spec a b i j Pa Pb (V1 i Hi) (V2 j Hj)). f_equal. now apply overlapsb_spec.
  - intros (a & b & Ha & Hb & E). destruct (N l1 e1 a P1 Ha) as (i & Hi & Pa). destruct (N l2 e2 b P2 Hb) as (j & Hj & Pb).
    rewrite (ext_overlap_spec a b i j Pa Pb (V1 i Hi) (V2 j Hj)) in E. injection E as E.
    f_equal. apply exists_pair_iff. exists i, j. split; [exact Hi|]. split; [exact Hj|]. now apply overlapsb_spec.
Qed.

(* ================================================================================================================== *)
(* 3. Spatial form: executable model                                                                                  *)
(* ================================================================================================================== *)

(* getSpatialIdAttrs (after the repair ef49a98): exactly four fields, every strconv.Atoi must succeed; returns (zoom, f, x, y).
   `ChangeZoom.parse_sid` is that parser, delivering the extended ID zoom/x/y/zoom/f. *)
Definition sid_attrs (s : string) : result (Z * Z * Z * Z) :=
  match parse_sid s with
  | Some i => Ok (eh i, ef i, ex i, ey i)
  | None => Err
  end.

(* the offset conversion of the vertical index:
     convertedFIndex, _, err := transform.ConvertZToMinMaxAltitudekey(f, zoom, zoom, consts.ZOriginValue, consts.ZBaseOffsetForNegativeFIndex)
     if convertedFIndex < 0 { return false, error }       (on an error the Go function returns (0, 0, err), so this test is passed)
     if err != nil { return false, err }
   Since the repair 9dab435 the conversion first refuses zooms outside 0..35 (AltKeyCore.zoom_ok), so no shift is ever taken with a
   hostile zoom: 36..63, >= 64, negative and MinInt64 are all plain errors. *)
Definition fkey (f z : Z) : result Z :=
  match z2key f z z zorigin zbase_offset_neg with
  | Err => Err
  | Ok (mn, _) => if mn <? 0 then Err else Ok mn
  end.

(* the radix-tree key of (f', x, y) at zoom z: tree.Indexs{f', x, y} with tree.ZoomSetLevel(z) *)
Definition skey (z f' x y : Z) : list Z := digits (Z.to_nat z) f' x y.

(* first loop: every ID of the first list is parsed, converted and appended; the first failure ends the call *)
Fixpoint sp_insert (l1 : list string) (t : trie) : result trie :=
  match l1 with
  | [] => Ok t
  | s :: r =>
      match parse_sid s with
      | None => Err
      | Some i => match fkey (ef i) (eh i) with
                  | Err => Err
                  | Ok f' => sp_insert r (rappend (skey (eh i) f' (ex i) (ey i)) t)
                  end
      end
  end.
(* second loop: parse, convert, then `if len(spatialIds1) == 0 { continue }` (repair 72f5085), then tr.IsOverlap; the first hit ends the call *)
Fixpoint sp_query (empty1 : bool) (t : trie) (l2 : list string) : result bool :=
  match l2 with
  | [] => Ok false
  | s :: r =>
      match parse_sid s with
      | None => Err
      | Some i => match fkey (ef i) (eh i) with
                  | Err => Err
                  | Ok f' => if empty1 then sp_query empty1 t r
                             else if rsearch (skey (eh i) f' (ex i) (ey i)) t then Ok true
                             else sp_query empty1 t r
                  end
      end
  end.
(* CheckSpatialIdsArrayOverlap / CheckSpatialIdsOverlap *)
Definition sp_array (l1 l2 : list string) : result bool :=
  match sp_insert l1 rempty with
  | Err => Err
  | Ok t => sp_query (match l1 with [] => true | _ => false end) t l2
  end.
Definition sp_overlap (a b : string) : result bool := sp_array [a] [b].

(* ================================================================================================================== *)
(* 4. Spatial form: the offset conversion                                                                             *)
(* ================================================================================================================== *)

(* the documented altitude domain at zoom z: -2^24 m <= altitude < 2^24 m, i.e. -2^(z-1) <= f < 2^(z-1); zoom 0 (one cell of 2^25 m) is outside *)
Definition altdom (z f : Z) : Prop := 1 <= z /\ - 2 ^ (z - 1) <= f < 2 ^ (z - 1).
Definition altdomb (z f : Z) : bool := (1 <=? z) && (- 2 ^ (z - 1) <=? f) && (f <? 2 ^ (z - 1)).
Lemma altdomb_spec z f : altdomb z f = true <-> altdom z f.
Proof. unfold altdomb, altdom. rewrite !andb_true_iff, !Z.leb_le, Z.ltb_lt. tauto. Qed.

Lemma ashift_0 x : ashift x 0 = x.
Proof. rewrite ashift_nonneg by lia. rewrite Z.pow_0_r. lia. Qed.

Lemma z2key_raw_offset z f : 1 <= z ->
  z2key_raw f z z zorigin zbase_offset_neg = (f + 2 ^ (z - 1), f + 2 ^ (z - 1)).
Proof.
  intros Hz. unfold z2key_raw, zorigin, zbase_offset_neg.
  destruct (Z.ltb_spec (z - 25) 0) as [L|L].
  - set (e := 25 - z). rewrite !Z.add_0_r. replace (z - 25 - 0) with (- e) by (unfold e; lia).
    assert (He : 0 < e) by (unfold e; lia). pose proof (pow2_pos e ltac:(lia)) as Hp.
    rewrite !(ashift_nonneg _ e) by lia. rewrite ashift_0. rewrite !ashift_neg by lia. rewrite Z.opp_involutive.
    assert (E : 2 ^ 24 = 2 ^ (z - 1) * 2 ^ e) by (rewrite <- Z.pow_add_r by lia; f_equal; unfold e; lia).
    rewrite E. set (p := 2 ^ (z - 1)). set (w := 2 ^ e) in *.
    replace (f * w + p * w) with ((f + p) * w) by ring.
    replace (- ((f + 1) * w + p * w)) with ((- (f + 1 + p)) * w) by ring.
    rewrite !Z.div_mul by lia. f_equal. lia.
  - replace (25 - z + (z - 25)) with 0 by lia. replace (z - 25 - (z - 25)) with 0 by lia. rewrite !ashift_0.
    rewrite ashift_nonneg by lia. rewrite <- Z.pow_add_r by lia. replace (24 + (z - 25)) with (z - 1) by lia.
    f_equal. lia.
Qed.

(* exactly when the conversion succeeds, and what it returns — for EVERY zoom and EVERY index: zoom 1..35 and inside the altitude domain:
   the index moved by 2^(z-1); otherwise (zoom 0, zoom outside 0..35, index outside the domain) an error *)
Lemma zoom_ok_spec z : zoom_ok z = true <-> 0 <= z <= 35.
Proof. unfold zoom_ok. rewrite andb_true_iff, !Z.leb_le. tauto. Qed.
Theorem fkey_exact z f : fkey f z = if zoom_ok z && altdomb z f then Ok (f + 2 ^ (z - 1)) else Err.
Proof.
  unfold fkey, z2key. destruct (zoom_ok z) eqn:Ez; cbn [negb orb andb]; [|reflexivity]. apply zoom_ok_spec in Ez.
  destruct (Z.eq_dec z 0) as [->|Nz].
  - (* zoom 0: the single pair of cells [-2^25,0), [0,2^25) m is larger than the domain *)
    replace (altdomb 0 f) with false by (unfold altdomb; reflexivity).
    destruct (index_exists f 0 true) eqn:E; [|reflexivity]. cbn [negb].
    unfold index_exists in E. rewrite ashift_0 in E. apply negb_true_iff, orb_false_iff in E. destruct E as [E1 E2].
    apply Z.ltb_ge in E1, E2. assert (C : f = -1 \/ f = 0) by lia. destruct C as [-> | ->]; vm_compute; reflexivity.
  - assert (Hz1 : 1 <= z) by lia. rewrite (z2key_raw_offset z f Hz1).
    unfold index_exists. rewrite ashift_nonneg by lia. rewrite Z.mul_1_l.
    assert (E2 : 2 ^ z = 2 * 2 ^ (z - 1)) by (rewrite <- Z.pow_succ_r by lia; f_equal; lia).
    pose proof (pow2_pos (z - 1) ltac:(lia)) as Hp. unfold altdomb. rewrite E2. set (p := 2 ^ (z - 1)) in *.
    destruct (Z.leb_spec 1 z); [|lia]. cbn [andb].
    destruct (Z.ltb_spec (2 * p - 1) f), (Z.ltb_spec f (- (2 * p))), (Z.ltb_spec (2 * p - 1) (f + p)), (Z.ltb_spec (f + p) 0),
      (Z.leb_spec (- p) f), (Z.ltb_spec f p); cbn [negb orb andb]; try lia; try reflexivity.
    destruct (Z.ltb_spec (f + p) 0); [lia|reflexivity].
Qed.
Corollary fkey_dom z f : 0 <= z <= 35 -> altdom z f -> fkey f z = Ok (f + 2 ^ (z - 1)).
Proof. intros Hz D. rewrite fkey_exact. apply zoom_ok_spec in Hz. apply altdomb_spec in D. now rewrite Hz, D. Qed.
Corollary fkey_err_iff z f : fkey f z = Err <-> ~ (0 <= z <= 35 /\ altdom z f).
Proof.
  rewrite fkey_exact, <- zoom_ok_spec, <- altdomb_spec.
  destruct (zoom_ok z), (altdomb z f); cbn [andb]; split; try discriminate; try reflexivity; intros H; try (exfalso; apply H; auto);
    intros [A B]; discriminate.
Qed.
(* zoom 0 is always refused; so is every zoom outside 0..35, whatever the index *)
Corollary fkey_zoom0 f : fkey f 0 = Err.
Proof. apply fkey_err_iff. unfold altdom. lia. Qed.
Corollary fkey_bad_zoom z f : z < 0 \/ 35 < z -> fkey f z = Err.
Proof. intros H. apply fkey_err_iff. lia. Qed.

(* moving by 2^(z-1) commutes with taking the floor-ancestor (z >= 1 on the coarser side) *)
Lemma offset_anc za zb fa fb : 1 <= za <= zb ->
  anc (zb - za) (fb + 2 ^ (zb - 1)) = fa + 2 ^ (za - 1) <-> anc (zb - za) fb = fa.
Proof.
  intros H. unfold anc. pose proof (pow2_pos (zb - za) ltac:(lia)) as Hp.
  assert (E : 2 ^ (zb - 1) = 2 ^ (za - 1) * 2 ^ (zb - za)) by (rewrite <- Z.pow_add_r by lia; f_equal; lia).
  rewrite E, Z.div_add by lia. lia.
Qed.

(* ================================================================================================================== *)
(* 5. Spatial form: the tree answers the ancestor-or-equal relation                                                   *)
(* ================================================================================================================== *)

(* a spatial ID (read as the extended ID z/x/y/z/f) of the documented domain: zoom 1..35, x and y in range, altitude inside +-2^24 m *)
Definition sdom (i : eid) : Prop :=
  ev i = eh i /\ 1 <= eh i <= 35 /\ 0 <= ex i < 2 ^ eh i /\ 0 <= ey i < 2 ^ eh i /\ - 2 ^ (eh i - 1) <= ef i < 2 ^ (eh i - 1).
Definition sdomb (i : eid) : bool :=
  (ev i =? eh i) && (1 <=? eh i) && (eh i <=? 35) && (0 <=? ex i) && (ex i <? 2 ^ eh i) && (0 <=? ey i) && (ey i <? 2 ^ eh i) &&
  (- 2 ^ (eh i - 1) <=? ef i) && (ef i <? 2 ^ (eh i - 1)).
Lemma sdomb_spec i : sdomb i = true <-> sdom i.
Proof. unfold sdomb, sdom. rewrite !andb_true_iff, !Z.leb_le, !Z.ltb_lt, Z.eqb_eq. tauto. Qed.
Lemma pow2_half z : 1 <= z -> 2 ^ z = 2 * 2 ^ (z - 1).
Proof. intros H. rewrite <- Z.pow_succ_r by lia. f_equal. lia. Qed.
Lemma sdom_valid i : sdom i -> valid i.
Proof.
  intros (E & Hz & Hx & Hy & Hf). unfold valid. rewrite E. pose proof (pow2_half (eh i) ltac:(lia)). pose proof (pow2_pos (eh i - 1) ltac:(lia)).
  repeat split; lia.
Qed.
Lemma sdom_altdom i : sdom i -> altdom (eh i) (ef i).
Proof. intros (E & Hz & Hx & Hy & Hf). unfold altdom. lia. Qed.

(* the key under which a domain ID is stored / searched *)
Definition qkey (i : eid) : list Z := skey (eh i) (ef i + 2 ^ (eh i - 1)) (ex i) (ey i).

Lemma qkey_prefix a b : sdom a -> sdom b -> eh a <= eh b ->
  (prefix (qkey a) (qkey b) <->
   anc (eh b - eh a) (ex b) = ex a /\ anc (eh b - eh a) (ey b) = ey a /\ anc (eh b - eh a) (ef b) = ef a).
Proof.
  intros (Ea & Hza & Hxa & Hya & Hfa) (Eb & Hzb & Hxb & Hyb & Hfb) Hle. unfold qkey, skey.
  set (za := Z.to_nat (eh a)). set (d := Z.to_nat (eh b - eh a)).
  replace (Z.to_nat (eh b)) with (d + za)%nat by (unfold d, za; lia).
  assert (Za : Z.of_nat za = eh a) by (unfold za; lia). assert (Zd : Z.of_nat d = eh b - eh a) by (unfold d; lia).
  assert (Zb : Z.of_nat (d + za) = eh b) by lia.
  pose proof (pow2_half (eh a) ltac:(lia)) as Pa. pose proof (pow2_half (eh b) ltac:(lia)) as Pb.
  rewrite prefix_iff_anc; rewrite ?Za, ?Zb, ?Zd; try lia.
  unfold anc. pose proof (offset_anc (eh a) (eh b) (ef a) (ef b) ltac:(lia)) as O. unfold anc in O. rewrite O. tauto.
Qed.

(* stored key and searched key are related by the prefix order exactly when the two voxels are related by the ancestor-or-equal relation *)
Theorem key_overlap_iff a b : sdom a -> sdom b ->
  (prefix (qkey a) (qkey b) \/ prefix (qkey b) (qkey a)) <-> overlaps a b.
Proof.
  intros Da Db. pose proof Da as (Ea & Hza & _). pose proof Db as (Eb & Hzb & _).
  unfold overlaps. rewrite Ea, Eb.
  destruct (Z.lt_trichotomy (eh a) (eh b)) as [L|[L|L]].
  - rewrite (qkey_prefix a b Da Db ltac:(lia)). rewrite !rel1_le by lia. split; [|tauto].
    intros [H|H]; [exact H|]. exfalso. revert H. unfold qkey, skey. apply prefix_longer. lia.
  - rewrite (qkey_prefix a b Da Db ltac:(lia)), (qkey_prefix b a Db Da ltac:(lia)). rewrite !rel1_le by lia.
    rewrite L, Z.sub_diag, !anc_0. intuition congruence.
  - rewrite (qkey_prefix b a Db Da ltac:(lia)). rewrite !rel1_ge by lia. split; [|intuition].
    intros [H|H]; [|intuition]. exfalso. revert H. unfold qkey, skey. apply prefix_longer. lia.
Qed.

(* the two loops on lists of domain IDs *)
Lemma map_opt_cons {A B} (f : A -> option B) a r es : map_opt f (a :: r) = Some es ->
  exists i t, es = i :: t /\ f a = Some i /\ map_opt f r = Some t.
Proof. cbn. destruct (f a) as [i|]; [|discriminate]. destruct (map_opt f r) as [t|]; [|discriminate]. intros [= <-]. eauto. Qed.

Lemma sp_insert_dom l1 : forall e1 t, map_opt parse_sid l1 = Some e1 -> (forall i, In i e1 -> sdom i) ->
  sp_insert l1 t = Ok (rbuild_from t (map qkey e1)).
Proof.
  induction l1 as [|s r IH]; intros e1 t P D.
  - cbn in P. injection P as <-. reflexivity.
  - apply map_opt_cons in P. destruct P as (i & e & -> & Ps & Pr). cbn [sp_insert]. rewrite Ps.
    pose proof (D i (or_introl eq_refl)) as Di. pose proof Di as (_ & Hz & _).
    rewrite (fkey_dom (eh i) (ef i) ltac:(lia) (sdom_altdom i Di)).
    rewrite (IH e _ Pr); [reflexivity|]. intros k Hk. apply D. now right.
Qed.
Lemma sp_query_dom l2 : forall e2 t, map_opt parse_sid l2 = Some e2 -> (forall i, In i e2 -> sdom i) ->
  sp_query false t l2 = Ok (existsb (fun j => rsearch (qkey j) t) e2) /\ sp_query true t l2 = Ok false.
Proof.
  induction l2 as [|s r IH]; intros e2 t P D.
  - cbn in P. injection P as <-. split; reflexivity.
  - apply map_opt_cons in P. destruct P as (j & e & -> & Ps & Pr). cbn [sp_query existsb]. rewrite Ps.
    pose proof (D j (or_introl eq_refl)) as Dj. pose proof Dj as (_ & Hz & _).
    rewrite (fkey_dom (eh j) (ef j) ltac:(lia) (sdom_altdom j Dj)). fold (qkey j).
    destruct (IH e t Pr ltac:(intros k Hk; apply D; now right)) as [I1 I2]. split; [|exact I2].
    destruct (rsearch (qkey j) t); [reflexivity|exact I1].
Qed.

Lemma existsb_false {A} (l : list A) : existsb (fun _ => false) l = false.
Proof. induction l; cbn; auto. Qed.

(* C05, spatial (radix-tree) form: on the documented domain the check never fails and answers whether some pair is related *)
Theorem sp_array_spec l1 l2 e1 e2 : map_opt parse_sid l1 = Some e1 -> map_opt parse_sid l2 = Some e2 ->
  (forall i, In i e1 -> sdom i) -> (forall j, In j e2 -> sdom j) ->
  sp_array l1 l2 = Ok (existsb (fun i => existsb (overlapsb i) e2) e1).
Proof.
  intros P1 P2 D1 D2. unfold sp_array. rewrite (sp_insert_dom l1 e1 rempty P1 D1).
  destruct (sp_query_dom l2 e2 (rbuild_from rempty (map qkey e1)) P2 D2) as [Q1 Q2].
  destruct l1 as [|s r].
  - cbn in P1. injection P1 as <-. rewrite Q2. reflexivity.
  - rewrite Q1. f_equal. fold (rbuild (map qkey e1)). apply eq_true_iff_eq. rewrite exists_pair_iff, existsb_exists. split.
    + intros (j & Hj & S). apply overlap_spec in S. destruct S as (k & Hk & Pk). apply in_map_iff in Hk. destruct Hk as (i & <- & Hi).
      exists i, j. split; [exact Hi|]. split; [exact Hj|]. apply key_overlap_iff; auto.
    + intros (i & j & Hi & Hj & O). exists j. split; [exact Hj|]. apply overlap_spec. exists (qkey i). split; [now apply in_map|].
      apply key_overlap_iff; auto.
Qed.
Corollary sp_overlap_spec a b i j : parse_sid a = Some i -> parse_sid b = Some j -> sdom i -> sdom j ->
  sp_overlap a b = Ok (overlapsb i j).
Proof.
  intros Pa Pb Di Dj. unfold sp_overlap. rewrite (sp_array_spec [a] [b] [i] [j]).
  - cbn. now rewrite !orb_false_r.
  - cbn. now rewrite Pa.
  - cbn. now rewrite Pb.
  - intros k [<-|[]]. exact Di.
  - intros k [<-|[]]. exact Dj.
Qed.

(* either list empty: false (the other list is still checked for format and altitude range) *)
Theorem sp_array_nil_l l2 e2 : map_opt parse_sid l2 = Some e2 -> (forall j, In j e2 -> sdom j) -> sp_array [] l2 = Ok false.
Proof. intros P D. now rewrite (sp_array_spec [] l2 [] e2 eq_refl P ltac:(intros i []) D). Qed.
Theorem sp_array_nil_r l1 e1 : map_opt parse_sid l1 = Some e1 -> (forall i, In i e1 -> sdom i) -> sp_array l1 [] = Ok false.
Proof.
  intros P D. rewrite (sp_array_spec l1 [] e1 [] P eq_refl D ltac:(intros i [])). f_equal. cbn. apply existsb_false.
Qed.

(* symmetric in its arguments *)
Lemma overlapsb_sym i j : overlapsb i j = overlapsb j i.
Proof. apply eq_true_iff_eq. rewrite !overlapsb_spec. apply overlaps_sym. Qed.
Lemma exists_pair_swap (e1 e2 : list eid) :
  existsb (fun i => existsb (overlapsb i) e2) e1 = existsb (fun j => existsb (overlapsb j) e1) e2.
Proof.
  apply eq_true_iff_eq. rewrite !exists_pair_iff. split; intros (i & j & Hi & Hj & O); exists j, i; repeat split; auto; now apply overlaps_sym.
Qed.
Theorem sp_array_sym l1 l2 e1 e2 : map_opt parse_sid l1 = Some e1 -> map_opt parse_sid l2 = Some e2 ->
  (forall i, In i e1 -> sdom i) -> (forall j, In j e2 -> sdom j) -> sp_array l1 l2 = sp_array l2 l1.
Proof.
  intros P1 P2 D1 D2. rewrite (sp_array_spec l1 l2 e1 e2 P1 P2 D1 D2), (sp_array_spec l2 l1 e2 e1 P2 P1 D2 D1). f_equal. apply exists_pair_swap.
Qed.
Theorem ext_array_sym l1 l2 e1 e2 : parse_all l1 = Some e1 -> parse_all l2 = Some e2 ->
  (forall i, In i e1 -> valid i) -> (forall j, In j e2 -> valid j) -> ext_array l1 l2 = ext_array l2 l1.
Proof.
  intros P1 P2 D1 D2. rewrite (ext_array_spec l1 l2 e1 e2 P1 P2 D1 D2), (ext_array_spec l2 l1 e2 e1 P2 P1 D2 D1). f_equal. apply exists_pair_swap.
Qed.
Theorem sp_overlap_refl a i : parse_sid a = Some i -> sdom i -> sp_overlap a a = Ok true.
Proof. intros P D. rewrite (sp_overlap_spec a a i i P P D D). f_equal. apply overlapsb_spec, overlaps_refl. Qed.

(* the two implementations agree: the radix-tree check on spatial IDs of the domain = the zoom-change check on the same voxels in extended notation *)
Theorem sp_equals_ext l1 l2 e1 e2 : map_opt parse_sid l1 = Some e1 -> map_opt parse_sid l2 = Some e2 ->
  (forall i, In i e1 -> sdom i) -> (forall j, In j e2 -> sdom j) ->
  exists m1 m2, sids_to_eids l1 = Ok m1 /\ sids_to_eids l2 = Ok m2 /\ sp_array l1 l2 = ext_array m1 m2.
Proof.
  intros P1 P2 D1 D2. destruct (parse_sids_factor l1 e1 P1) as (m1 & S1 & Q1). destruct (parse_sids_factor l2 e2 P2) as (m2 & S2 & Q2).
  exists m1, m2. split; [exact S1|]. split; [exact S2|].
  rewrite (sp_array_spec l1 l2 e1 e2 P1 P2 D1 D2).
  rewrite (ext_array_spec m1 m2 e1 e2 Q1 Q2); [reflexivity| |]; intros k Hk; apply sdom_valid; auto.
Qed.

(* region reading: true exactly when a voxel of the first list and a voxel of the second share a point of their (half-open) regions *)
Theorem overlap_region (e1 e2 : list eid) : (forall i, In i e1 -> valid i) -> (forall j, In j e2 -> valid j) ->
  existsb (fun i => existsb (overlapsb i) e2) e1 = true <-> exists i j p, In i e1 /\ In j e2 /\ inR i p /\ inR j p.
Proof.
  intros V1 V2. rewrite exists_pair_iff. split.
  - intros (i & j & Hi & Hj & O). pose proof (V1 i Hi) as (A1 & A2 & _). pose proof (V2 j Hj) as (B1 & B2 & _).
    apply overlaps_iff_meet in O; try lia. destruct O as (p & I1 & I2). exists i, j, p. auto.
  - intros (i & j & p & Hi & Hj & I1 & I2). pose proof (V1 i Hi) as (A1 & A2 & _). pose proof (V2 j Hj) as (B1 & B2 & _).
    exists i, j. split; [exact Hi|]. split; [exact Hj|]. apply overlaps_iff_meet; try lia. eauto.
Qed.

(* ================================================================================================================== *)
(* 6. Spatial form: error paths                                                                                       *)
(* ================================================================================================================== *)

(* a malformed ID anywhere in the first list, or an ID of the first list outside the altitude domain: error *)
Theorem sp_insert_malformed l1 s t : In s l1 -> parse_sid s = None -> sp_insert l1 t = Err.
Proof.
  revert t. induction l1 as [|a r IH]; intros t Hin N; [contradiction|]. cbn [sp_insert]. destruct Hin as [->|Hin].
  - now rewrite N.
  - destruct (parse_sid a); [|reflexivity]. destruct (fkey _ _); [|reflexivity]. now apply IH.
Qed.
Theorem sp_insert_out_of_domain l1 s i t : In s l1 -> parse_sid s = Some i -> ~ (0 <= eh i <= 35 /\ altdom (eh i) (ef i)) -> sp_insert l1 t = Err.
Proof.
  revert t. induction l1 as [|a r IH]; intros t Hin P N; [contradiction|]. cbn [sp_insert]. destruct Hin as [->|Hin].
  - rewrite P. apply fkey_err_iff in N. now rewrite N.
  - destruct (parse_sid a); [|reflexivity]. destruct (fkey _ _); [|reflexivity]. now apply IH.
Qed.
Corollary sp_array_first_list_error l1 l2 s : In s l1 ->
  (parse_sid s = None \/ exists i, parse_sid s = Some i /\ ~ (0 <= eh i <= 35 /\ altdom (eh i) (ef i))) -> sp_array l1 l2 = Err.
Proof.
  intros Hin [N|(i & P & N)]; unfold sp_array.
  - now rewrite (sp_insert_malformed l1 s rempty Hin N).
  - now rewrite (sp_insert_out_of_domain l1 s i rempty Hin P N).
Qed.
(* the pairwise form: an error exactly when one of the two IDs is outside the domain of the conversion (zoom 0, zoom outside 0..35, or
   |altitude| beyond 2^24 m) — no other hypothesis on the two well-formed IDs *)
Definition convdom (i : eid) : Prop := 0 <= eh i <= 35 /\ altdom (eh i) (ef i).
Theorem sp_overlap_error_iff a b i j : parse_sid a = Some i -> parse_sid b = Some j ->
  sp_overlap a b = Err <-> ~ convdom i \/ ~ convdom j.
Proof.
  intros Pa Pb. unfold convdom. rewrite <- !fkey_err_iff. unfold sp_overlap, sp_array. cbn [sp_insert sp_query]. rewrite Pa, Pb.
  destruct (fkey (ef i) (eh i)) as [fi|]; [|split; auto].
  cbn [sp_insert]. destruct (fkey (ef j) (eh j)) as [fj|]; [|split; auto].
  destruct (rsearch _ _); split; try discriminate; intros [H|H]; discriminate.
Qed.
Theorem sp_overlap_malformed a b : parse_sid a = None \/ parse_sid b = None -> sp_overlap a b = Err.
Proof.
  intros [N|N]; unfold sp_overlap, sp_array; cbn [sp_insert sp_query].
  - now rewrite N.
  - destruct (parse_sid a); [|reflexivity]. destruct (fkey _ _); [|reflexivity]. now rewrite N.
Qed.
(* getSpatialIdAttrs: four integers, or an error for any other string *)
Theorem sid_attrs_spec s : sid_attrs s = Err <->
  ~ exists a b c d z f x y, split s = [a; b; c; d] /\ parse a = Some z /\ parse b = Some f /\ parse c = Some x /\ parse d = Some y.
Proof.
  unfold sid_attrs, parse_sid. split.
  - intros E (a & b & c & d & z & f & x & y & S & A & B & C & D). rewrite S, A, B, C, D in E. discriminate.
  - intros N. destruct (split s) as [|a [|b [|c [|d [|e t]]]]]; try reflexivity.
    destruct (parse a) as [z|] eqn:A; [|reflexivity]. destruct (parse b) as [f|] eqn:B; [|reflexivity].
    destruct (parse c) as [x|] eqn:C; [|reflexivity]. destruct (parse d) as [y|] eqn:D; [|reflexivity].
    exfalso. apply N. exists a, b, c, d, z, f, x, y. auto.
Qed.
Theorem sid_attrs_printed z f x y : int64_ok z = true -> int64_ok f = true -> int64_ok x = true -> int64_ok y = true ->
  sid_attrs (join [print z; print f; print x; print y]) = Ok (z, f, x, y).
Proof.
  intros Hz Hf Hx Hy. unfold sid_attrs. change (join [print z; print f; print x; print y]) with (print_sid (mk z x y z f)).
  rewrite parse_print_sid; [reflexivity| |reflexivity]. unfold fields_ok. cbn. now rewrite Hz, Hf, Hx, Hy.
Qed.

(* ================================================================================================================== *)
(* 7. Run-time checker of an observed answer against the reference (independent of either algorithm)                   *)
(* ================================================================================================================== *)

Definition ref_pairs (e1 e2 : list eid) : bool := existsb (fun i => existsb (overlapsb i) e2) e1.
Definition spec_overlap (e1 e2 : list eid) (obs : result bool) : Prop :=
  exists b, obs = Ok b /\ (b = true <-> exists i j, In i e1 /\ In j e2 /\ overlaps i j).
Definition check_overlap (e1 e2 : list eid) (obs : result bool) : bool :=
  match obs with Ok b => Bool.eqb b (ref_pairs e1 e2) | Err => false end.
Theorem check_overlap_sound e1 e2 obs : check_overlap e1 e2 obs = true <-> spec_overlap e1 e2 obs.
Proof.
  unfold check_overlap, spec_overlap, ref_pairs. destruct obs as [b|].
  - rewrite eqb_true_iff. split.
    + intros ->. eexists. split; [reflexivity|]. apply exists_pair_iff.
    + intros (b' & [= <-] & H). apply eq_true_iff_eq. rewrite H. symmetry. apply exists_pair_iff.
  - split; [discriminate|]. intros (b & E & _). discriminate.
Qed.
(* the models pass the checker on their domains *)
Corollary ext_array_passes l1 l2 e1 e2 : parse_all l1 = Some e1 -> parse_all l2 = Some e2 ->
  (forall i, In i e1 -> valid i) -> (forall j, In j e2 -> valid j) -> check_overlap e1 e2 (ext_array l1 l2) = true.
Proof. intros P1 P2 V1 V2. rewrite (ext_array_spec l1 l2 e1 e2 P1 P2 V1 V2). unfold check_overlap, ref_pairs. apply eqb_reflx. Qed.
Corollary sp_array_passes l1 l2 e1 e2 : map_opt parse_sid l1 = Some e1 -> map_opt parse_sid l2 = Some e2 ->
  (forall i, In i e1 -> sdom i) -> (forall j, In j e2 -> sdom j) -> check_overlap e1 e2 (sp_array l1 l2) = true.
Proof. intros P1 P2 V1 V2. rewrite (sp_array_spec l1 l2 e1 e2 P1 P2 V1 V2). unfold check_overlap, ref_pairs. apply eqb_reflx. Qed.

(* ================================================================================================================== *)
(* 8. The radix-tree model by itself (validated against the real library directly, not only through the detector)      *)
(* ================================================================================================================== *)

Definition key4 := (Z * Z * Z * Z)%type.                   (* zoom, f', x, y  as passed to Append / IsOverlap *)
Definition tkey (q : key4) : list Z := let '(z, f, x, y) := q in skey z f x y.
Definition in_range4 (q : key4) : Prop := let '(z, f, x, y) := q in 0 <= z /\ 0 <= f < 2 ^ z /\ 0 <= x < 2 ^ z /\ 0 <= y < 2 ^ z.
Definition in_range4b (q : key4) : bool :=
  let '(z, f, x, y) := q in (0 <=? z) && (0 <=? f) && (f <? 2 ^ z) && (0 <=? x) && (x <? 2 ^ z) && (0 <=? y) && (y <? 2 ^ z).
Lemma in_range4b_spec q : in_range4b q = true <-> in_range4 q.
Proof. destruct q as [[[z f] x] y]. unfold in_range4b, in_range4. rewrite !andb_true_iff, !Z.leb_le, !Z.ltb_lt. tauto. Qed.
Definition rel4 (a b : key4) : Prop :=
  let '(za, fa, xa, ya) := a in let '(zb, fb, xb, yb) := b in rel1 za fa zb fb /\ rel1 za xa zb xb /\ rel1 za ya zb yb.
Definition rel4b (a b : key4) : bool :=
  let '(za, fa, xa, ya) := a in let '(zb, fb, xb, yb) := b in rel1b za fa zb fb && rel1b za xa zb xb && rel1b za ya zb yb.
Lemma rel4b_spec a b : rel4b a b = true <-> rel4 a b.
Proof. destruct a as [[[za fa] xa] ya], b as [[[zb fb] xb] yb]. unfold rel4b, rel4. rewrite !andb_true_iff, !rel1b_spec. tauto. Qed.

(* Append all keys, then IsOverlap for each query *)
Definition tree_model (keys qs : list key4) : list bool := map (fun q => rsearch (tkey q) (rbuild (map tkey keys))) qs.
Definition tree_ref (keys qs : list key4) : list bool := map (fun q => existsb (fun k => rel4b k q) keys) qs.

Lemma tkey_prefix za fa xa ya zb fb xb yb : in_range4 (za, fa, xa, ya) -> in_range4 (zb, fb, xb, yb) -> za <= zb ->
  (prefix (tkey (za, fa, xa, ya)) (tkey (zb, fb, xb, yb)) <->
   anc (zb - za) fb = fa /\ anc (zb - za) xb = xa /\ anc (zb - za) yb = ya).
Proof.
  intros (Hza & Hfa & Hxa & Hya) (Hzb & Hfb & Hxb & Hyb) Hle. unfold tkey, skey.
  set (na := Z.to_nat za). set (d := Z.to_nat (zb - za)).
  replace (Z.to_nat zb) with (d + na)%nat by (unfold d, na; lia).
  assert (Za : Z.of_nat na = za) by (unfold na; lia). assert (Zd : Z.of_nat d = zb - za) by (unfold d; lia).
  assert (Zb : Z.of_nat (d + na) = zb) by lia.
  rewrite prefix_iff_anc; rewrite ?Za, ?Zb, ?Zd; try lia. unfold anc. tauto.
Qed.
Theorem tkey_overlap_iff a b : in_range4 a -> in_range4 b ->
  (prefix (tkey a) (tkey b) \/ prefix (tkey b) (tkey a)) <-> rel4 a b.
Proof.
  destruct a as [[[za fa] xa] ya], b as [[[zb fb] xb] yb]. intros Ra Rb. unfold rel4.
  destruct (Z.lt_trichotomy za zb) as [L|[L|L]].
  - rewrite (tkey_prefix _ _ _ _ _ _ _ _ Ra Rb ltac:(lia)). rewrite !rel1_le by lia. split; [|tauto].
    intros [H|H]; [exact H|]. exfalso. revert H. unfold tkey, skey. apply prefix_longer. destruct Ra, Rb. lia.
  - rewrite (tkey_prefix _ _ _ _ _ _ _ _ Ra Rb ltac:(lia)), (tkey_prefix _ _ _ _ _ _ _ _ Rb Ra ltac:(lia)). rewrite !rel1_le by lia.
    rewrite L, Z.sub_diag, !anc_0. intuition congruence.
  - rewrite (tkey_prefix _ _ _ _ _ _ _ _ Rb Ra ltac:(lia)). rewrite !rel1_ge by lia. split; [|intuition].
    intros [H|H]; [|intuition]. exfalso. revert H. unfold tkey, skey. apply prefix_longer. destruct Ra, Rb. lia.
Qed.
(* the library model, for any in-range keys and queries (zoom 0 included), is the ancestor-or-equal relation on the three coordinates *)
Theorem tree_model_is_ref keys qs : (forall k, In k keys -> in_range4 k) -> (forall q, In q qs -> in_range4 q) ->
  tree_model keys qs = tree_ref keys qs.
Proof.
  intros Rk Rq. unfold tree_model, tree_ref. apply map_ext_in. intros q Hq.
  apply eq_true_iff_eq. rewrite overlap_spec, existsb_exists. split.
  - intros (k & Hk & P). apply in_map_iff in Hk. destruct Hk as (a & <- & Ha). exists a. split; [exact Ha|].
    apply rel4b_spec, tkey_overlap_iff; auto.
  - intros (a & Ha & R). exists (tkey a). split; [now apply in_map|]. apply tkey_overlap_iff; auto. now apply rel4b_spec.
Qed.

(* ================================================================================================================== *)
(* 9. Lists with members outside the quantifier: what the answer must still satisfy (per-member fallback checker)      *)
(* ================================================================================================================== *)

(* the members of a list that lie inside the property's quantifier *)
Definition vmem (l : list string) : list eid :=
  flat_map (fun s => match parse_eid s with Some i => if validb i then [i] else [] | None => [] end) l.
Definition smem (l : list string) : list eid :=
  flat_map (fun s => match parse_sid s with Some i => if sdomb i then [i] else [] | None => [] end) l.
Lemma vmem_In l i : In i (vmem l) <-> exists s, In s l /\ parse_eid s = Some i /\ valid i.
Proof.
  unfold vmem. rewrite in_flat_map. split.
  - intros (s & Hs & H). destruct (parse_eid s) as [k|] eqn:P; [|contradiction]. destruct (validb k) eqn:V; [|contradiction].
    destruct H as [<-|[]]. exists s. split; [exact Hs|]. split; [exact P|now apply validb_spec].
  - intros (s & Hs & P & V). exists s. split; [exact Hs|]. rewrite P. apply validb_spec in V. rewrite V. now left.
Qed.
Lemma smem_In l i : In i (smem l) <-> exists s, In s l /\ parse_sid s = Some i /\ sdom i.
Proof.
  unfold smem. rewrite in_flat_map. split.
  - intros (s & Hs & H). destruct (parse_sid s) as [k|] eqn:P; [|contradiction]. destruct (sdomb k) eqn:V; [|contradiction].
    destruct H as [<-|[]]. exists s. split; [exact Hs|]. split; [exact P|now apply sdomb_spec].
  - intros (s & Hs & P & V). exists s. split; [exact Hs|]. rewrite P. apply sdomb_spec in V. rewrite V. now left.
Qed.

(* whatever else the lists contain:  `false` without error means that every pair was examined, so no two in-quantifier members are related;
   `true` needs two non-empty lists; an error is possible (a member outside the quantifier was reached) *)
Definition nonnil {A} (l : list A) : bool := match l with [] => false | _ => true end.
Definition check_fallback (v1 v2 : list eid) (n1 n2 : bool) (obs : result bool) : bool :=
  match obs with
  | Ok false => negb (ref_pairs v1 v2)
  | Ok true => n1 && n2
  | Err => true
  end.
Definition spec_fallback (v1 v2 : list eid) (n1 n2 : bool) (obs : result bool) : Prop :=
  (obs = Ok false -> ~ exists i j, In i v1 /\ In j v2 /\ overlaps i j) /\ (obs = Ok true -> n1 = true /\ n2 = true).
Theorem check_fallback_sound v1 v2 n1 n2 obs : check_fallback v1 v2 n1 n2 obs = true <-> spec_fallback v1 v2 n1 n2 obs.
Proof.
  unfold check_fallback, spec_fallback, ref_pairs. destruct obs as [[|]|].
  - rewrite andb_true_iff. split; [intros H; split; [discriminate|auto]|intros [_ H]; auto].
  - rewrite negb_true_iff, <- exists_pair_iff. split.
    + intros H. split; [|discriminate]. intros _ E. congruence.
    + intros [H _]. destruct (existsb _ v1) eqn:E; [|reflexivity]. exfalso. now apply H.
  - split; [|reflexivity]. intros _. split; discriminate.
Qed.

(* --- the extended model satisfies it on ALL lists --- *)
Lemma ext_inner_false a l2 : ext_inner a l2 = Ok false -> forall b, In b l2 -> ext_overlap a b = Ok false.
Proof.
  induction l2 as [|c r IH]; intros H b Hb; [contradiction|]. cbn [ext_inner] in H.
  destruct (ext_overlap a c) as [[|]|] eqn:E; try discriminate. destruct Hb as [<-|Hb]; [exact E|now apply IH].
Qed.
Lemma ext_array_false l1 l2 : ext_array l1 l2 = Ok false -> forall a b, In a l1 -> In b l2 -> ext_overlap a b = Ok false.
Proof.
  induction l1 as [|c r IH]; intros H a b Ha Hb; [contradiction|]. cbn [ext_array] in H.
  destruct (ext_inner c l2) as [[|]|] eqn:E; try discriminate. destruct Ha as [<-|Ha]; [now apply (ext_inner_false c l2 E)|now apply IH].
Qed.
Theorem ext_array_fallback l1 l2 : check_fallback (vmem l1) (vmem l2) (nonnil l1) (nonnil l2) (ext_array l1 l2) = true.
Proof.
  apply check_fallback_sound. split.
  - intros E (i & j & Hi & Hj & O). apply vmem_In in Hi, Hj. destruct Hi as (a & Ha & Pa & Vi). destruct Hj as (b & Hb & Pb & Vj).
    pose proof (ext_array_false l1 l2 E a b Ha Hb) as F. rewrite (ext_overlap_spec a b i j Pa Pb Vi Vj) in F.
    apply overlapsb_spec in O. congruence.
  - intros E. destruct l1 as [|a r]; [discriminate|]. destruct l2 as [|b t]; [rewrite ext_array_nil_r in E; discriminate|]. split; reflexivity.
Qed.

(* --- the spatial model satisfies it on ALL lists --- *)
Lemma sp_insert_keys l1 : forall t t', sp_insert l1 t = Ok t' ->
  exists keys, t' = rbuild_from t keys /\ forall s i, In s l1 -> parse_sid s = Some i -> sdom i -> In (qkey i) keys.
Proof.
  induction l1 as [|a r IH]; intros t t' H.
  - cbn in H. injection H as <-. exists []. split; [reflexivity|]. intros s i [].
  - cbn [sp_insert] in H. destruct (parse_sid a) as [k|] eqn:P; [|discriminate]. destruct (fkey (ef k) (eh k)) as [f'|] eqn:F; [|discriminate].
    destruct (IH _ _ H) as (keys & -> & K). exists (skey (eh k) f' (ex k) (ey k) :: keys). split; [reflexivity|].
    intros s i [<-|Hs] Ps Di.
    + left. rewrite P in Ps. injection Ps as ->. pose proof Di as (_ & Hz & _).
      rewrite (fkey_dom (eh i) (ef i) ltac:(lia) (sdom_altdom i Di)) in F. injection F as <-. reflexivity.
    + right. now apply (K s i).
Qed.
Lemma sp_query_false t l2 : sp_query false t l2 = Ok false ->
  forall s j, In s l2 -> parse_sid s = Some j -> sdom j -> rsearch (qkey j) t = false.
Proof.
  induction l2 as [|a r IH]; intros H s j Hs Ps Dj; [contradiction|]. cbn [sp_query] in H.
  destruct (parse_sid a) as [k|] eqn:P; [|discriminate]. destruct (fkey (ef k) (eh k)) as [f'|] eqn:F; [|discriminate].
  destruct (rsearch (skey (eh k) f' (ex k) (ey k)) t) eqn:S; [discriminate|]. destruct Hs as [<-|Hs]; [|now apply (IH H s j)].
  rewrite P in Ps. injection Ps as ->. pose proof Dj as (_ & Hz & _).
  rewrite (fkey_dom (eh j) (ef j) ltac:(lia) (sdom_altdom j Dj)) in F. injection F as <-. exact S.
Qed.
Lemma sp_query_true e t l2 : sp_query e t l2 = Ok true -> e = false /\ l2 <> [].
Proof.
  induction l2 as [|a r IH]; intros H; [discriminate|]. split; [|discriminate]. cbn [sp_query] in H.
  destruct (parse_sid a); [|discriminate]. destruct (fkey _ _); [|discriminate]. destruct e; [|reflexivity]. now apply IH.
Qed.
Theorem sp_array_fallback l1 l2 : check_fallback (smem l1) (smem l2) (nonnil l1) (nonnil l2) (sp_array l1 l2) = true.
Proof.
  apply check_fallback_sound. unfold sp_array. split.
  - intros E (i & j & Hi & Hj & O). apply smem_In in Hi, Hj. destruct Hi as (a & Ha & Pa & Di). destruct Hj as (b & Hb & Pb & Dj).
    destruct (sp_insert l1 rempty) as [t|] eqn:I; [|discriminate]. destruct (sp_insert_keys l1 _ _ I) as (keys & -> & K).
    destruct l1 as [|a0 r0]; [contradiction|].
    pose proof (sp_query_false _ l2 E b j Hb Pb Dj) as S. fold (rbuild keys) in S.
    assert (T : rsearch (qkey j) (rbuild keys) = true).
    { apply overlap_spec. exists (qkey i). split; [now apply (K a i)|]. now apply key_overlap_iff. }
    congruence.
  - intros E. destruct (sp_insert l1 rempty) as [t|]; [|discriminate]. apply sp_query_true in E. destruct E as [E1 E2].
    destruct l1; [discriminate|]. destruct l2; [congruence|]. split; reflexivity.
Qed.

(* ================================================================================================================== *)
(* 10. Spatial array form = disjunction of the pairwise FUNCTION; the intersection of two related voxels is a voxel      *)
(* ================================================================================================================== *)

Lemma map_opt_In_fwd {A B} (f : A -> option B) l : forall e s, map_opt f l = Some e -> In s l -> exists i, In i e /\ f s = Some i.
Proof.
  induction l as [|x r IH]; intros e s P Hs; [contradiction|]. apply map_opt_cons in P. destruct P as (i & t & -> & Px & Pr).
  destruct Hs as [->|Hs]; [exists i; split; [now left|exact Px]|]. destruct (IH t s Pr Hs) as (k & Hk & Pk). exists k. split; [now right|exact Pk].
Qed.
Lemma map_opt_In_bwd {A B} (f : A -> option B) l : forall e i, map_opt f l = Some e -> In i e -> exists s, In s l /\ f s = Some i.
Proof.
  induction l as [|x r IH]; intros e i P Hi.
  - cbn in P. injection P as <-. contradiction.
  - apply map_opt_cons in P. destruct P as (k & t & -> & Px & Pr).
    destruct Hi as [<-|Hi]; [exists x; split; [now left|exact Px]|]. destruct (IH t i Pr Hi) as (s & Hs & Ps). exists s. split; [now right|exact Ps].
Qed.
Theorem sp_array_pairwise l1 l2 e1 e2 : map_opt parse_sid l1 = Some e1 -> map_opt parse_sid l2 = Some e2 ->
  (forall i, In i e1 -> sdom i) -> (forall j, In j e2 -> sdom j) ->
  (sp_array l1 l2 = Ok true <-> exists a b, In a l1 /\ In b l2 /\ sp_overlap a b = Ok true) /\
  (sp_array l1 l2 = Ok true \/ sp_array l1 l2 = Ok false).
Proof.
  intros P1 P2 D1 D2. rewrite (sp_array_spec l1 l2 e1 e2 P1 P2 D1 D2). split.
  2:{ destruct (existsb _ e1); auto. }
  split.
  - intros [= E]. apply exists_pair_iff in E. destruct E as (i & j & Hi & Hj & O).
    destruct (map_opt_In_bwd _ l1 e1 i P1 Hi) as (a & Ha & Pa). destruct (map_opt_In_bwd _ l2 e2 j P2 Hj) as (b & Hb & Pb).
    exists a, b. split; [exact Ha|]. split; [exact Hb|]. rewrite (sp_overlap_spec a b i j Pa Pb (D1 i Hi) (D2 j Hj)). f_equal. now apply overlapsb_spec.
  - intros (a & b & Ha & Hb & E). destruct (map_opt_In_fwd _ l1 e1 a P1 Ha) as (i & Hi & Pa). destruct (map_opt_In_fwd _ l2 e2 b P2 Hb) as (j & Hj & Pb).
    rewrite (sp_overlap_spec a b i j Pa Pb (D1 i Hi) (D2 j Hj)) in E. injection E as E.
    f_equal. apply exists_pair_iff. exists i, j. split; [exact Hi|]. split; [exact Hj|]. now apply overlapsb_spec.
Qed.

(* the per-axis finer voxel: when i and j are related, its box is exactly the intersection of the two boxes *)
Definition finer (i j : eid) : eid :=
  mk (Z.max (eh i) (eh j)) (if eh i <=? eh j then ex j else ex i) (if eh i <=? eh j then ey j else ey i)
     (Z.max (ev i) (ev j)) (if ev i <=? ev j then ef j else ef i).
Theorem related_boxes_intersect_in_a_box i j : 0 <= eh i -> 0 <= ev i -> 0 <= eh j -> 0 <= ev j -> overlaps i j ->
  forall p, inR (finer i j) p <-> inR i p /\ inR j p.
Proof.
  intros Hi Vi Hj Vj O p. pose proof O as (Rx & Ry & Rf).
  assert (Oi : overlaps i (finer i j)).
  { unfold overlaps, finer; cbn. destruct (Z.leb_spec (eh i) (eh j)), (Z.leb_spec (ev i) (ev j));
      rewrite ?(Z.max_l (eh i) (eh j)), ?(Z.max_r (eh i) (eh j)), ?(Z.max_l (ev i) (ev j)), ?(Z.max_r (ev i) (ev j)) by lia; repeat split; auto using rel1_refl. }
  assert (Oj : overlaps j (finer i j)).
  { apply overlaps_sym in O. destruct O as (Sx & Sy & Sf).
    unfold overlaps, finer; cbn. destruct (Z.leb_spec (eh i) (eh j)), (Z.leb_spec (ev i) (ev j));
      rewrite ?(Z.max_l (eh i) (eh j)), ?(Z.max_r (eh i) (eh j)), ?(Z.max_l (ev i) (ev j)), ?(Z.max_r (ev i) (ev j)) by lia; repeat split; auto using rel1_refl. }
  split.
  - intros F. split; [apply (inR_coarser i (finer i j) p)|apply (inR_coarser j (finer i j) p)]; cbn; auto; lia.
  - destruct p as [[u w] a]. unfold inR, finer; cbn. intros ((X1 & Y1 & F1) & (X2 & Y2 & F2)).
    destruct (Z.leb_spec (eh i) (eh j)), (Z.leb_spec (ev i) (ev j)); rewrite ?(Z.max_l (eh i) (eh j)), ?(Z.max_r (eh i) (eh j)), ?(Z.max_l (ev i) (ev j)), ?(Z.max_r (ev i) (ev j)) by lia; auto.
Qed.
(* and a voxel's box has non-empty interior: around its centre every point within a quarter of the cell size (per normalised axis) is inside *)
Theorem voxel_box_has_interior o : 0 <= eh o -> 0 <= ev o ->
  forall du dw da : R,
    (Rabs du <= bpow radix2 (- eh o - 2))%R -> (Rabs dw <= bpow radix2 (- eh o - 2))%R -> (Rabs da <= bpow radix2 (- ev o - 2))%R ->
    inR o (((IZR (ex o) + / 2) * bpow radix2 (- eh o) + du)%R, ((IZR (ey o) + / 2) * bpow radix2 (- eh o) + dw)%R,
           ((IZR (ef o) + / 2) * bpow radix2 (- ev o) + da)%R).
Proof.
  intros Hh Hv du dw da Bu Bw Ba.
  assert (A : forall z n d, 0 <= z -> (Rabs d <= bpow radix2 (- z - 2))%R ->
              Zfloor (bpow radix2 z * ((IZR n + / 2) * bpow radix2 (- z) + d)) = n).
  { intros z n d Hz Bd. apply Zfloor_imp.
    replace (bpow radix2 z * ((IZR n + / 2) * bpow radix2 (- z) + d))%R
      with ((IZR n + / 2) * (bpow radix2 z * bpow radix2 (- z)) + bpow radix2 z * d)%R by ring.
    rewrite <- bpow_plus. replace (z + - z) with 0 by lia. cbn [bpow]. rewrite Rmult_1_r.
    assert (Q : (Rabs (bpow radix2 z * d) <= / 4)%R).
    { rewrite Rabs_mult, (Rabs_pos_eq (bpow radix2 z)) by apply bpow_ge_0.
      apply Rle_trans with (bpow radix2 z * bpow radix2 (- z - 2))%R; [apply Rmult_le_compat_l; [apply bpow_ge_0|exact Bd]|].
      rewrite <- bpow_plus. replace (z + (- z - 2)) with (-2) by lia. cbn. lra. }
    apply Rabs_le_inv in Q. rewrite plus_IZR. split; lra. }
  cbn. rewrite !A by assumption. auto.
Qed.

(* ================================================================================================================== *)
(* 11. The radix tree under arbitrary operation sequences (entry RadixOps) and history independence of the detector models *)
(* ================================================================================================================== *)

(* the two operations the detector performs on the third-party tree, in any interleaving *)
Inductive rop := RAppend (k : key4) | RQuery (k : key4).
(* the answers of the queries, the tree being threaded through the sequence (this model IS stateful) *)
Fixpoint run_ops (t : trie) (ops : list rop) : list bool :=
  match ops with
  | [] => []
  | RAppend k :: r => run_ops (rappend (tkey k) t) r
  | RQuery q :: r => rsearch (tkey q) t :: run_ops t r
  end.
(* reference: a query is answered by the keys appended BEFORE it, through the ancestor-or-equal relation on the three coordinates *)
Fixpoint ops_ref (seen : list key4) (ops : list rop) : list bool :=
  match ops with
  | [] => []
  | RAppend k :: r => ops_ref (seen ++ [k]) r
  | RQuery q :: r => existsb (fun k => rel4b k q) seen :: ops_ref seen r
  end.
Definition rop_key (o : rop) : key4 := match o with RAppend k => k | RQuery k => k end.

Lemma rbuild_snoc keys k : rbuild (keys ++ [k]) = rappend k (rbuild keys).
Proof. unfold rbuild, rbuild_from. now rewrite fold_left_app. Qed.

(* the trie model satisfies the trie specification used by the overlap proof under every history: built from Radix.stored_append, twf_append,
   search_spec (through overlap_spec) and Digits.prefix_iff_anc (through tkey_overlap_iff) *)
Theorem run_ops_spec ops : forall seen, (forall k, In k seen -> in_range4 k) -> (forall o, In o ops -> in_range4 (rop_key o)) ->
  run_ops (rbuild (map tkey seen)) ops = ops_ref seen ops.
Proof.
  induction ops as [|o r IH]; intros seen Rs Ro; [reflexivity|]. destruct o as [k|q]; cbn [run_ops ops_ref].
  - rewrite <- rbuild_snoc. change (map tkey seen ++ [tkey k]) with (map tkey seen ++ map tkey [k]). rewrite <- map_app. apply IH.
    + intros x Hx. apply in_app_iff in Hx. destruct Hx as [Hx|[<-|[]]]; [now apply Rs|]. apply (Ro (RAppend k)). now left.
    + intros x Hx. apply Ro. now right.
  - f_equal.
    + pose proof (tree_model_is_ref seen [q] Rs ltac:(intros x [<-|[]]; apply (Ro (RQuery q)); now left)) as E.
      unfold tree_model, tree_ref in E. cbn in E. now injection E.
    + apply IH; [exact Rs|]. intros x Hx. apply Ro. now right.
Qed.
Corollary run_ops_spec_empty ops : (forall o, In o ops -> in_range4 (rop_key o)) -> run_ops rempty ops = ops_ref [] ops.
Proof. intros R. apply (run_ops_spec ops []); [intros k []|exact R]. Qed.
(* consequences: the answer of a query does not depend on the order or multiplicity of the earlier appends, nor on earlier queries *)
Lemma ops_ref_set_only ops : forall s1 s2, (forall k, In k s1 <-> In k s2) -> ops_ref s1 ops = ops_ref s2 ops.
Proof.
  induction ops as [|o r IH]; intros s1 s2 H; [reflexivity|]. destruct o as [k|q]; cbn [ops_ref].
  - apply IH. intros x. rewrite !in_app_iff. rewrite H. tauto.
  - f_equal; [|now apply IH]. apply eq_true_iff_eq. rewrite !existsb_exists. split; intros (k & Hk & R); exists k; (split; [now apply H|exact R]).
Qed.

(* --- the detector models are pure: a sequence of calls is answered call by call, whatever came before --- *)
Inductive dcall :=
| CExtPair (a b : string) | CExtArray (l1 l2 : list string) | CSpPair (a b : string) | CSpArray (l1 l2 : list string).
Definition eval_call (c : dcall) : result bool :=
  match c with
  | CExtPair a b => ext_overlap a b
  | CExtArray l1 l2 => ext_array l1 l2
  | CSpPair a b => sp_overlap a b
  | CSpArray l1 l2 => sp_array l1 l2
  end.
Definition eval_seq (cs : list dcall) : list (result bool) := map eval_call cs.
Theorem eval_seq_app h cs : eval_seq (h ++ cs) = eval_seq h ++ eval_seq cs.
Proof. apply map_app. Qed.
(* the answer to a call is the same after ANY two histories, and is the answer of the standalone call *)
Theorem eval_seq_history_independent h1 h2 c :
  nth (length h1) (eval_seq (h1 ++ [c])) Err = eval_call c /\ nth (length h2) (eval_seq (h2 ++ [c])) Err = eval_call c.
Proof.
  assert (A : forall h, nth (length h) (eval_seq (h ++ [c])) Err = eval_call c).
  { intros h. rewrite eval_seq_app. unfold eval_seq at 1. rewrite <- (map_length eval_call h). fold (eval_seq h).
    rewrite app_nth2 by lia. now rewrite Nat.sub_diag. }
  split; apply A.
Qed.
(* every spatial call starts from the empty tree: nothing stored by an earlier call can be seen *)
Theorem sp_array_starts_from_empty_tree l1 l2 :
  sp_array l1 l2 = match sp_insert l1 rempty with Err => Err | Ok t => sp_query (match l1 with [] => true | _ => false end) t l2 end.
Proof. reflexivity. Qed.
