(* Project.v — shape.ConvertPointListToProjectedPointList / ConvertProjectedPointListToPointList (shape/point.go).
   The two functions are list wrappers around the third-party datum transform wgs84.SafeTransform, which is NOT transcribed:
   it enters as a Section variable `tr` (answered by the library itself at run time). This file holds
     1. the executable model of the wrappers (function by function, including the error paths: unknown EPSG code, transform error,
        NewPoint refusal),
     2. structural theorems for EVERY oracle: length, order, altitude carried, error <-> (unknown code or oracle error or NewPoint
        refusal), prefix on error,
     3. the exact (rational) checkers of the numeric claims and their soundness over the reals (MercatorR18.v),
     4. the open finding alt_fed_to_datum (witness) and regression Examples for the two repaired defects (old control flow kept, labelled
        HISTORICAL). *)
From Coq Require Import ZArith Floats Bool List QArith Qreals Reals Lra Lia.
From SID Require Import Base F64 ExactRef MercatorR18.
Import ListNotations.

(* object.ProjectedPoint {X, Y, Alt} *)
Record ppoint := { px : float; py : float; pz : float }.

(* consts.GeoCrs, consts.OrthCrs *)
Definition geo_crs : Z := 4326.
Definition orth_crs : Z := 3857.

(* the EPSG codes bundled with wgs84 v1.1.7 (epsg.go: 23 literal codes, UTM north/south 1..60, RGF93 CC42..50, DHDN GK2..5, ETRS89 UTM 28..38) *)
Definition epsg_table : list Z :=
  [4326; 4978; 3857; 900913; 4258; 3416; 3035; 31287; 31284; 31285; 31286; 31257; 31258; 31259; 4314; 27700; 4277; 4171; 2154;
   4269; 6355; 6356; 6414]%Z
  ++ map (fun i => 32600 + i)%Z (zrange 1 60) ++ map (fun i => 32700 + i)%Z (zrange 1 60)
  ++ map (fun i => 3900 + i)%Z (zrange 42 50) ++ map (fun i => 31464 + i)%Z (zrange 2 5) ++ map (fun i => 25800 + i)%Z (zrange 28 38).
Definition epsg_known (c : Z) : bool := existsb (Z.eqb c) epsg_table.
Fixpoint zinsert (x : Z) (l : list Z) : list Z :=
  match l with [] => [x] | y :: r => if (x <=? y)%Z then x :: l else y :: zinsert x r end.
Definition epsg_table_sorted : list Z := fold_right zinsert [] epsg_table.

(* ------------------------------------------------------------------------------------------------------------------ *)
(* 1. the wrappers (control flow of /repo after the fix commits e07a6eb and dbefda0)                                   *)
(* the code of a SpatialIdError (common/errors/errors.go) *)
Inductive ekind := EInputValue | EOptionFailed | EValueConvert | EOther.
Definition ekind_eqb (a b : ekind) : bool :=
  match a, b with
  | EInputValue, EInputValue | EOptionFailed, EOptionFailed | EValueConvert, EValueConvert | EOther, EOther => true
  | _, _ => false
  end.

Section Wrapper.
  (* known c = (wgs84.EPSG().Code(c) != nil): the code is in the library's table *)
  Variable known : Z -> bool.
  (* tr from to a b c = wgs84.SafeTransform(wgs84.EPSG().Code(from), wgs84.EPSG().Code(to))(a, b, c); None = non-nil error *)
  Variable tr : Z -> Z -> float -> float -> float -> option (float * float * float).

  (* every error site of the two functions is errors.NewSpatialIdError(errors.ValueConvertErrorCode, "") *)
  Definition fwd_point (crs : Z) (p : point) : ppoint + ekind :=
    match tr geo_crs crs (plon p) (plat p) (palt p) with
    | Some (x, y, _) => inl {| px := x; py := y; pz := palt p |}     (* the height returned by the transform is dropped *)
    | None => inr EValueConvert
    end.
  (* the transformed coordinates go through object.NewPoint; its refusal is a conversion error as well *)
  Definition back_point (crs : Z) (q : ppoint) : point + ekind :=
    match tr crs geo_crs (px q) (py q) (pz q) with
    | Some (x, y, _) => let '(g, e) := new_point x y (pz q) in if e then inr EValueConvert else inl g
    | None => inr EValueConvert
    end.

  (* `for _, p := range l { v, err := f(p); if err != nil { return out, error }; out = append(out, v) }; return out, nil` *)
  (* the second component is the returned error: None = nil, Some k = a SpatialIdError with code k *)
  Fixpoint map_until {A B} (f : A -> B + ekind) (l : list A) : list B * option ekind :=
    match l with
    | [] => ([], None)
    | a :: r => match f a with
                | inr k => ([], Some k)
                | inl b => let '(t, e) := map_until f r in (b :: t, e)
                end
    end.

  (* `if proCrsCode == nil { return empty, error }` comes before the loop: also for the empty list *)
  Definition to_projected (l : list point) (crs : Z) : list ppoint * option ekind :=
    if known crs then map_until (fwd_point crs) l else ([], Some EValueConvert).
  Definition to_geographic (l : list ppoint) (crs : Z) : list point * option ekind :=
    if known crs then map_until (back_point crs) l else ([], Some EValueConvert).
  (* there and back through the same CRS (the second call is made only when the first returned no error) *)
  Definition round_trip (l : list point) (crs : Z) : (list ppoint * option ekind) * (list point * option ekind) :=
    let f := to_projected l crs in
    (f, match snd f with Some _ => ([], None) | None => to_geographic (fst f) crs end).

  (* a history of calls: each call is a function of its own arguments only (the two functions keep no state between calls) *)
  Inductive call := CallFwd (l : list point) (crs : Z) | CallBack (l : list ppoint) (crs : Z).
  Inductive call_result := ResFwd (r : list ppoint * option ekind) | ResBack (r : list point * option ekind).
  Definition run_call (c : call) : call_result :=
    match c with
    | CallFwd l crs => ResFwd (to_projected l crs)
    | CallBack l crs => ResBack (to_geographic l crs)
    end.
  Definition run_history (h : list call) : list call_result := map run_call h.

  (* HISTORICAL: the control flow before the two fix commits (no early check of the code; NewPoint's verdict ignored).
     Kept only for the regression Examples of section 4; nothing else refers to it. *)
  Definition back_point_old (crs : Z) (q : ppoint) : point + ekind :=
    match tr crs geo_crs (px q) (py q) (pz q) with
    | Some (x, y, _) => inl (fst (new_point x y (pz q)))
    | None => inr EValueConvert
    end.
  Definition to_projected_old (l : list point) (crs : Z) : list ppoint * option ekind := map_until (fwd_point crs) l.
  Definition to_geographic_old (l : list ppoint) (crs : Z) : list point * option ekind := map_until (back_point_old crs) l.
End Wrapper.

(* ------------------------------------------------------------------------------------------------------------------ *)
(* 3a. exact checkers (rational arithmetic on the floats' dyadic values)                                               *)
Definition fq (f : float) : option Q :=
  match dyadic f with
  | Some (m, e) => Some (if (0 <=? e)%Z then inject_Z (m * 2 ^ e) else Qmake m (Z.to_pos (2 ^ (- e))))
  | None => None
  end.
(* |a - b| <= tol *)
Definition qclose (a b tol : Q) : bool := Qle_bool (a - b) tol && Qle_bool (b - a) tol.
Definition fclose (a b : float) (tol : Q) : bool :=
  match fq a, fq b with Some A, Some B => qclose A B tol | _, _ => false end.

Definition tol_m : Q := 1 # 1000000.          (* 1e-6 m: observed easting / northing against the real-number projection *)
Definition tol_ref : Q := 9 # 10000000.       (* 9e-7 m against the float reference northing (whose own error is assumed <= 1e-7 m) *)
Definition eps_ref : Q := 1 # 10000000.       (* 1e-7 m *)
Definition tol_deg : Q := 2 # 10000000000.    (* 2e-10 degrees *)
Definition q_R : Q := 6378137 # 1.
Definition q_pi_lo : Q := 3141592653589793238462643383279502884197 # 1000000000000000000000000000000000000000.
Definition q_pi_hi : Q := 3141592653589793238462643383279502884198 # 1000000000000000000000000000000000000000.
Definition q_east (L p : Q) : Q := q_R * (L * p / (180 # 1)).
(* |x - R * lon * PI / 180| <= 1e-6, decided with both ends of an enclosure of PI of width 1e-39 *)
Definition check_x (x lon : float) : bool :=
  match fq x, fq lon with
  | Some X, Some L => qclose X (q_east L q_pi_lo) tol_m && qclose X (q_east L q_pi_hi) tol_m
  | _, _ => false
  end.
(* distance of two longitudes on the circle (+-180 are the same meridian) <= 2e-10 degrees *)
Definition q360 : Q := 360 # 1.
Definition lon_close (a b : float) : bool :=
  match fq a, fq b with
  | Some A, Some B => qclose A B tol_deg || qclose (A - B) q360 tol_deg || qclose (B - A) q360 tol_deg
  | _, _ => false
  end.

(* float reference northing: R * log(tan r + 1 / cos r) with r = |lat| * (pi/180), the sign of lat restored afterwards.
   (The formula is the one the ID grid of C01 uses for its Mercator fraction - PointF.y_f - but evaluated on |lat|: for southern
   latitudes tan r + 1/cos r cancels - at -85 degrees 11.47 - 11.43 - and the plain expression is off by up to ~1e-6 m there,
   which the certificate step exposed; on the northern branch the error stays below 1e-7 m.)
   tan / cos / log are Go's, asked through the oracle. *)
Definition c_R : float := 6378137%float.
Definition north_ref (m_tan m_cos m_log : float -> float) (lat : float) : float :=
  let r := (abs lat * c_deg2rad)%float in
  let y := (c_R * m_log (m_tan r + 1 / m_cos r))%float in
  if (lat <? 0)%float then (- y)%float else y.

Section Checks.
  Variable yref : float -> float.
  (* forward numeric claim for one point of EPSG:3857 *)
  Definition check_fwd_xy (p : point) (q : ppoint) : bool :=
    check_x (px q) (plon p) && fclose (py q) (yref (plat p)) tol_ref.
  (* round-trip claim for one point: g is what came back for p *)
  Definition check_back (p g : point) : bool :=
    lon_close (plon g) (plon p) && fclose (plat g) (plat p) tol_deg && feqb_bits (palt g) (palt p).
End Checks.

Definition alt_nonzero (a : float) : bool := negb (a =? 0)%float.

(* ---- the open finding alt_fed_to_datum, quantitatively ----
   The point's height is fed to the library's datum transform, whose detour through geocentric coordinates recovers the latitude with
   Bowring's closed formula: exact on the ellipsoid, off by an amount that grows like alt^2 * (a / (a + alt))^3 (a = 6378137 m; the
   factor is the distance from the earth's axis region: the formula is singular at the centre). Measured on the code over the whole
   horizontal domain (worst latitude 45 deg for the round trip, high latitudes for the northing), see meta/C18.json:
     northing            <= 1.39e-14 m   * alt^2 * (a/(a+alt))^3     for -6e6 m <= alt <= 2^25 m
     latitude there+back <= 1.68e-19 deg * alt^2 * (a/(a+alt))^3
   The class excuses a deviation only up to these laws with the coefficients rounded up (1.8e-14, 2.0e-19) on top of the nominal
   tolerance, only on the latitude axis (the easting, the longitude and the altitude are never excused), only for alt <> 0, and only when
   the same point at height 0 meets the nominal tolerances. Below -6e6 m (less than 380 km from the earth's centre, or beyond it) the
   detour is singular - observed: 6 deg at -6.3e6 m, antipodal output below the centre - and no bound is claimed: zone ZDeep.
   Altitudes outside +-2^25 m (the vertical extent of the ID space) are outside the property's domain: zone ZBeyond (case skipped);
   NaN / infinite altitudes do not belong to valid points: zone ZNone (bad case). *)
Definition q_a : Q := 6378137 # 1.
Definition q_alt_max : Q := 33554432 # 1.
Definition q_alt_deep : Q := - (6000000 # 1).
Definition alt_factor (A : Q) : Q := A * A * ((q_a / (q_a + A)) * (q_a / (q_a + A)) * (q_a / (q_a + A))).
Definition excess_y (A : Q) : Q := (18 # 1000000000000000) * alt_factor A.             (* 1.8e-14 m per m^2 *)
Definition excess_lat (A : Q) : Q := (2 # 10000000000000000000) * alt_factor A.        (* 2.0e-19 deg per m^2 *)
Inductive alt_zone := ZNone | ZBeyond | ZDeep | ZIn.
Definition alt_zone_of (alt : float) : alt_zone :=
  match fq alt with
  | None => ZNone
  | Some A => if negb (Qle_bool (- q_alt_max) A && Qle_bool A q_alt_max) then ZBeyond
              else if Qle_bool q_alt_deep A then ZIn else ZDeep
  end.
(* a finite longitude / latitude inside the documented domain *)
Definition lonlat_valid (lon lat : float) : bool :=
  match fq lon, fq lat with
  | Some _, Some _ => (abs lon <=? 180)%float && (abs lat <=? c_latmax)%float
  | _, _ => false
  end.
Section Excuses.
  Variable yref : float -> float.
  (* forward: only the northing may deviate, by at most the law *)
  Definition fwd_excused (p : point) (q : ppoint) : bool :=
    alt_nonzero (palt p) &&
    match alt_zone_of (palt p), fq (palt p) with
    | ZIn, Some A => check_x (px q) (plon p) && fclose (py q) (yref (plat p)) (tol_ref + excess_y A)
    | ZDeep, _ => true
    | _, _ => false
    end.
  (* there and back: only the latitude may deviate, by at most the law; longitude and altitude as always *)
  Definition back_excused (p g : point) : bool :=
    alt_nonzero (palt p) &&
    match alt_zone_of (palt p), fq (palt p) with
    | ZIn, Some A => lon_close (plon g) (plon p) && fclose (plat g) (plat p) (tol_deg + excess_lat A) && feqb_bits (palt g) (palt p)
    | ZDeep, _ => true
    | _, _ => false
    end.
  (* the way back refused the point (latitude above the limit): explicable only if the latitude is within the law of the limit *)
  Definition refusal_excused (p : point) : bool :=
    alt_nonzero (palt p) &&
    match alt_zone_of (palt p), fq (palt p), fq (abs (plat p)), fq c_latmax with
    | ZIn, Some A, Some L, Some M => Qle_bool (M - L) (tol_deg + excess_lat A)
    | ZDeep, _, _, _ => true
    | _, _, _, _ => false
    end.
End Excuses.

Definition ppoint_eqb (a b : ppoint) : bool := feqb_bits (px a) (px b) && feqb_bits (py a) (py b) && feqb_bits (pz a) (pz b).
Definition point_eqb (a b : point) : bool := feqb_bits (plon a) (plon b) && feqb_bits (plat a) (plat b) && feqb_bits (palt a) (palt b).
Fixpoint forall2b {A B} (f : A -> B -> bool) (l : list A) (m : list B) : bool :=
  match l, m with
  | [], [] => true
  | a :: l', b :: m' => f a b && forall2b f l' m'
  | _, _ => false
  end.

(* ------------------------------------------------------------------------------------------------------------------ *)
(* 2. structural theorems, for every table `known` and every transform `tr`                                            *)
Lemma map_until_ok {A B} (f : A -> B + ekind) l :
  snd (map_until f l) = None -> Forall2 (fun a b => f a = inl b) l (fst (map_until f l)).
Proof.
  induction l as [|a r IH]; cbn [map_until]; intros H; [constructor|].
  destruct (f a) as [b|k] eqn:E; [|discriminate].
  destruct (map_until f r) as [t e]; cbn [fst snd] in *. constructor; auto.
Qed.
Lemma map_until_err_iff {A B} (f : A -> B + ekind) l k :
  snd (map_until f l) = Some k <->
  exists l1 a l2, l = l1 ++ a :: l2 /\ f a = inr k /\ Forall2 (fun a b => f a = inl b) l1 (fst (map_until f l)).
Proof.
  induction l as [|a r IH]; cbn [map_until].
  - split; [discriminate|]. intros (l1 & a & l2 & E & _). destruct l1; discriminate.
  - destruct (f a) as [b|k'] eqn:E.
    + destruct (map_until f r) as [t e]; cbn [fst snd] in *. rewrite IH. split.
      * intros (l1 & a' & l2 & -> & Hn & HF). exists (a :: l1), a', l2. repeat split; auto.
      * intros (l1 & a' & l2 & El & Hn & HF). destruct l1 as [|a0 l1]; cbn in El; inversion El; subst.
        { congruence. }
        inversion HF; subst. exists l1, a', l2. repeat split; auto.
    + cbn [fst snd]. split.
      * intros H. assert (k' = k) by congruence. subst k'. exists [], a, r. split; [reflexivity|]. split; [exact E|]. constructor.
      * intros (l1 & a' & l2 & El & Hn & HF). destruct l1 as [|a0 l1]; cbn in El; inversion El; subst; [congruence|].
        inversion HF.
Qed.
Lemma map_until_err_exists {A B} (f : A -> B + ekind) l :
  snd (map_until f l) <> None <-> Exists (fun a => exists k, f a = inr k) l.
Proof.
  induction l as [|a r IH]; cbn [map_until].
  - cbn [snd]. split; [congruence|]. intros H; inversion H.
  - destruct (f a) as [b|k] eqn:E.
    + destruct (map_until f r) as [t e]; cbn [fst snd] in *. rewrite IH. split; intros H.
      * now apply Exists_cons_tl.
      * inversion H as [? ? (k & Hk)|]; subst; [congruence|assumption].
    + cbn [snd]. split; [|discriminate]. intros _. apply Exists_cons_hd. eauto.
Qed.
(* when every error site produces the same code, that is the code returned *)
Lemma map_until_kind {A B} (f : A -> B + ekind) K l : (forall a k, f a = inr k -> k = K) ->
  snd (map_until f l) = None \/ snd (map_until f l) = Some K.
Proof.
  intros HK. induction l as [|a r IH]; cbn [map_until]; [now left|].
  destruct (f a) as [b|k] eqn:E.
  - destruct (map_until f r) as [t e]; cbn [fst snd] in *. exact IH.
  - right. cbn. f_equal. eapply HK, E.
Qed.
Lemma Forall2_impl {A B} (R S : A -> B -> Prop) l m : (forall a b, R a b -> S a b) -> Forall2 R l m -> Forall2 S l m.
Proof. intros H. induction 1; constructor; auto. Qed.
Lemma Forall2_length' {A B} (R : A -> B -> Prop) l m : Forall2 R l m -> length l = length m.
Proof. induction 1; cbn; congruence. Qed.

(* object.NewPoint *)
Lemma new_point_accepts x y a : snd (new_point x y a) = false ->
  fst (new_point x y a) = {| plon := x; plat := setlat_trunc y; palt := a |}.
Proof. unfold new_point. destruct (180 <? abs x)%float; [discriminate|]. destruct (c_latmax <? abs (setlat_trunc y))%float; [discriminate|]. reflexivity. Qed.
Lemma new_point_refuses x y a : snd (new_point x y a) = true ->
  plat (fst (new_point x y a)) = 0%float /\ palt (fst (new_point x y a)) = 0%float.
Proof. unfold new_point. destruct (180 <? abs x)%float; [split; reflexivity|]. destruct (c_latmax <? abs (setlat_trunc y))%float; [split; reflexivity|discriminate]. Qed.

Section WrapperThm.
  Variable known : Z -> bool.
  Variable tr : Z -> Z -> float -> float -> float -> option (float * float * float).

  (* ---- forward ---- *)
  (* what one output element of the forward direction is *)
  Definition fwd_rel (crs : Z) (p : point) (q : ppoint) : Prop :=
    exists x y z, tr geo_crs crs (plon p) (plat p) (palt p) = Some (x, y, z) /\ px q = x /\ py q = y /\ pz q = palt p.
  Lemma fwd_point_rel crs p q : fwd_point tr crs p = inl q <-> fwd_rel crs p q.
  Proof.
    unfold fwd_point, fwd_rel. destruct (tr geo_crs crs (plon p) (plat p) (palt p)) as [[[x y] z]|].
    - split.
      + intros H. inversion H; subst. exists x, y, z. cbn. auto.
      + intros (x' & y' & z' & E & Hx & Hy & Hz). inversion E; subst. destruct q; cbn in *. now subst.
    - split; [discriminate|]. intros (? & ? & ? & E & _). discriminate.
  Qed.
  Lemma fwd_point_err crs p k : fwd_point tr crs p = inr k <-> tr geo_crs crs (plon p) (plat p) (palt p) = None /\ k = EValueConvert.
  Proof.
    unfold fwd_point. destruct (tr _ _ _ _ _) as [[[x y] z]|]; split.
    - discriminate. - intros [? _]; discriminate. - intros H; inversion H; auto. - intros [_ ->]; reflexivity.
  Qed.

  Lemma to_projected_known l crs : snd (to_projected known tr l crs) = None -> known crs = true.
  Proof. unfold to_projected. destruct (known crs); [reflexivity | discriminate]. Qed.
  Lemma to_geographic_known l crs : snd (to_geographic known tr l crs) = None -> known crs = true.
  Proof. unfold to_geographic. destruct (known crs); [reflexivity | discriminate]. Qed.

  (* every error of the two functions is a conversion error *)
  Theorem to_projected_kind l crs :
    snd (to_projected known tr l crs) = None \/ snd (to_projected known tr l crs) = Some EValueConvert.
  Proof.
    unfold to_projected. destruct (known crs); [|now right]. apply map_until_kind. intros p k H. now apply fwd_point_err in H.
  Qed.

  (* no error: the code is known, the i-th output is the transform of the i-th input (length and order), with the input's altitude *)
  Theorem to_projected_ok l crs :
    snd (to_projected known tr l crs) = None -> Forall2 (fwd_rel crs) l (fst (to_projected known tr l crs)).
  Proof.
    intros H. pose proof (to_projected_known _ _ H) as K. unfold to_projected in *. rewrite K in *.
    apply map_until_ok in H. eapply Forall2_impl; [|exact H]. intros p q. apply fwd_point_rel.
  Qed.
  Corollary to_projected_length l crs :
    snd (to_projected known tr l crs) = None -> length (fst (to_projected known tr l crs)) = length l.
  Proof. intros H. symmetry. eapply Forall2_length', to_projected_ok, H. Qed.
  (* a conversion error is returned exactly when the code is unknown or the transform refuses some point *)
  Theorem to_projected_err_iff l crs :
    snd (to_projected known tr l crs) = Some EValueConvert <->
    known crs = false \/ Exists (fun p => tr geo_crs crs (plon p) (plat p) (palt p) = None) l.
  Proof.
    pose proof (to_projected_kind l crs) as KD. unfold to_projected in *. destruct (known crs).
    - assert (E : snd (map_until (fwd_point tr crs) l) <> None <-> Exists (fun p => tr geo_crs crs (plon p) (plat p) (palt p) = None) l).
      { rewrite map_until_err_exists. split; intros H; (eapply Exists_impl; [|exact H]); intros p.
        - intros (k & Hk). now apply fwd_point_err in Hk.
        - intros Hn. exists EValueConvert. now apply fwd_point_err. }
      split.
      + intros H. right. apply E. congruence.
      + intros [H|H]; [discriminate|]. apply E in H. destruct KD; congruence.
    - cbn [snd]. split; auto.
  Qed.
  (* and, for a known code, the list returned with the error holds the images of the points before the first refused one *)
  Theorem to_projected_err_prefix l crs : known crs = true ->
    snd (to_projected known tr l crs) = Some EValueConvert ->
    exists l1 p l2, l = l1 ++ p :: l2 /\ tr geo_crs crs (plon p) (plat p) (palt p) = None /\
                    Forall2 (fwd_rel crs) l1 (fst (to_projected known tr l crs)).
  Proof.
    unfold to_projected. intros K. rewrite K. intros H.
    apply map_until_err_iff in H. destruct H as (l1 & p & l2 & E & Hn & F). exists l1, p, l2. repeat split; auto.
    - now apply fwd_point_err in Hn.
    - eapply Forall2_impl; [|exact F]. intros a b. apply fwd_point_rel.
  Qed.

  (* ---- backward ---- *)
  (* one output element: the transformed coordinates, accepted by NewPoint, latitude truncated by SetLat, the input's altitude *)
  Definition back_rel (crs : Z) (q : ppoint) (g : point) : Prop :=
    exists x y z, tr crs geo_crs (px q) (py q) (pz q) = Some (x, y, z) /\ snd (new_point x y (pz q)) = false /\
                  g = {| plon := x; plat := setlat_trunc y; palt := pz q |}.
  (* a point is refused when the transform refuses it or NewPoint refuses the transformed coordinates *)
  Definition back_refused (crs : Z) (q : ppoint) : Prop :=
    tr crs geo_crs (px q) (py q) (pz q) = None \/
    exists x y z, tr crs geo_crs (px q) (py q) (pz q) = Some (x, y, z) /\ snd (new_point x y (pz q)) = true.
  Lemma back_point_rel crs q g : back_point tr crs q = inl g <-> back_rel crs q g.
  Proof.
    unfold back_point, back_rel. destruct (tr crs geo_crs (px q) (py q) (pz q)) as [[[x y] z]|].
    - destruct (new_point x y (pz q)) as [g' e] eqn:N. split.
      + destruct e; [discriminate|]. intros H. inversion H; subst. exists x, y, z. rewrite N. cbn [snd]. repeat split.
        pose proof (new_point_accepts x y (pz q)) as A. rewrite N in A. cbn [fst snd] in A. now apply A.
      + intros (x' & y' & z' & E & Hs & ->). inversion E; subst. rewrite N in Hs. cbn [snd] in Hs. subst e.
        pose proof (new_point_accepts x' y' (pz q)) as A. rewrite N in A. cbn [fst snd] in A. now rewrite A.
    - split; [discriminate|]. intros (? & ? & ? & E & _). discriminate.
  Qed.
  Lemma back_point_err crs q k : back_point tr crs q = inr k <-> back_refused crs q /\ k = EValueConvert.
  Proof.
    unfold back_point, back_refused. destruct (tr crs geo_crs (px q) (py q) (pz q)) as [[[x y] z]|].
    - destruct (new_point x y (pz q)) as [g' e] eqn:N. destruct e; split.
      + intros H. inversion H. split; auto. right. exists x, y, z. rewrite N. auto.
      + intros [_ ->]. reflexivity.
      + discriminate.
      + intros [[H|(x' & y' & z' & E & Hs)] _]; [discriminate|]. inversion E; subst. rewrite N in Hs. discriminate.
    - split; [intros H; inversion H; auto | intros [_ ->]; reflexivity].
  Qed.

  Theorem to_geographic_kind l crs :
    snd (to_geographic known tr l crs) = None \/ snd (to_geographic known tr l crs) = Some EValueConvert.
  Proof.
    unfold to_geographic. destruct (known crs); [|now right]. apply map_until_kind. intros p k H. now apply back_point_err in H.
  Qed.
  (* no error: length and order, and every output point carries its input's altitude itself *)
  Theorem to_geographic_ok l crs :
    snd (to_geographic known tr l crs) = None -> Forall2 (back_rel crs) l (fst (to_geographic known tr l crs)).
  Proof.
    intros H. pose proof (to_geographic_known _ _ H) as K. unfold to_geographic in *. rewrite K in *.
    apply map_until_ok in H. eapply Forall2_impl; [|exact H]. intros p q. apply back_point_rel.
  Qed.
  Corollary to_geographic_length l crs :
    snd (to_geographic known tr l crs) = None -> length (fst (to_geographic known tr l crs)) = length l.
  Proof. intros H. symmetry. eapply Forall2_length', to_geographic_ok, H. Qed.
  Corollary to_geographic_altitude l crs :
    snd (to_geographic known tr l crs) = None -> Forall2 (fun q g => palt g = pz q) l (fst (to_geographic known tr l crs)).
  Proof. intros H. eapply Forall2_impl; [|apply to_geographic_ok, H]. intros q g (x & y & z & _ & _ & ->). reflexivity. Qed.
  Theorem to_geographic_err_iff l crs :
    snd (to_geographic known tr l crs) = Some EValueConvert <-> known crs = false \/ Exists (back_refused crs) l.
  Proof.
    pose proof (to_geographic_kind l crs) as KD. unfold to_geographic in *. destruct (known crs).
    - assert (E : snd (map_until (back_point tr crs) l) <> None <-> Exists (back_refused crs) l).
      { rewrite map_until_err_exists. split; intros H; (eapply Exists_impl; [|exact H]); intros p.
        - intros (k & Hk). now apply back_point_err in Hk.
        - intros Hn. exists EValueConvert. now apply back_point_err. }
      split.
      + intros H. right. apply E. congruence.
      + intros [H|H]; [discriminate|]. apply E in H. destruct KD; congruence.
    - cbn [snd]. split; auto.
  Qed.
  Theorem to_geographic_err_prefix l crs : known crs = true ->
    snd (to_geographic known tr l crs) = Some EValueConvert ->
    exists l1 q l2, l = l1 ++ q :: l2 /\ back_refused crs q /\ Forall2 (back_rel crs) l1 (fst (to_geographic known tr l crs)).
  Proof.
    unfold to_geographic. intros K. rewrite K. intros H.
    apply map_until_err_iff in H. destruct H as (l1 & p & l2 & E & Hn & F). exists l1, p, l2. repeat split; auto.
    - now apply back_point_err in Hn.
    - eapply Forall2_impl; [|exact F]. intros a b. apply back_point_rel.
  Qed.

  (* ---- unknown EPSG code: the empty list and a CONVERSION error (errors.ValueConvertErrorCode), whatever the input list (also the
     empty one), both directions ---- *)
  Theorem unknown_epsg crs : known crs = false ->
    (forall l, to_projected known tr l crs = ([], Some EValueConvert)) /\
    (forall l, to_geographic known tr l crs = ([], Some EValueConvert)).
  Proof. intros K. unfold to_projected, to_geographic. rewrite K. split; reflexivity. Qed.

  (* ---- there and back: same length, same order, every point keeps its altitude ---- *)
  Theorem round_trip_shape l crs :
    let r := round_trip known tr l crs in
    snd (fst r) = None -> snd (snd r) = None ->
    length (fst (snd r)) = length l /\
    Forall2 (fun p g => exists q, fwd_rel crs p q /\ back_rel crs q g /\ palt g = palt p) l (fst (snd r)).
  Proof.
    unfold round_trip. cbn zeta. cbn [fst snd]. intros H1. rewrite H1. intros H2.
    pose proof (to_projected_ok l crs H1) as F1. pose proof (to_geographic_ok _ crs H2) as F2.
    split. { rewrite to_geographic_length, to_projected_length; auto. }
    set (ql := fst (to_projected known tr l crs)) in *. set (gl := fst (to_geographic known tr ql crs)) in *. clearbody gl. clearbody ql.
    clear H1 H2. revert gl F2.
    induction F1 as [|p q l' ql' R F IH]; intros gl F2; inversion F2 as [|? g ? gl' Hb F2']; subst; [constructor|].
    constructor; [|apply IH; auto].
    exists q. repeat split; auto. destruct Hb as (x & y & z & _ & _ & ->). cbn [palt].
    destruct R as (? & ? & ? & _ & _ & _ & E). exact E.
  Qed.
  (* the back conversion of a round trip fails (with a conversion error) exactly when some projected image is refused *)
  Theorem round_trip_back_error l crs :
    let r := round_trip known tr l crs in
    snd (fst r) = None -> (snd (snd r) = Some EValueConvert <-> Exists (back_refused crs) (fst (fst r))).
  Proof.
    unfold round_trip. cbn zeta. cbn [fst snd]. intros H1. rewrite H1. rewrite to_geographic_err_iff.
    rewrite (to_projected_known _ _ H1). split; [intros [H|H]; [discriminate | exact H] | auto].
  Qed.
  (* ---- call histories: whatever was called before (valid codes, the same unknown code, the other direction), a call with an
     unknown code returns the empty list and a conversion error ---- *)
  Definition call_crs (c : call) : Z := match c with CallFwd _ crs | CallBack _ crs => crs end.
  Definition conversion_error_result (r : call_result) : Prop :=
    match r with ResFwd r => r = ([], Some EValueConvert) | ResBack r => r = ([], Some EValueConvert) end.
  Theorem unknown_epsg_in_any_history before c after :
    known (call_crs c) = false ->
    exists rb ra r, run_history known tr (before ++ c :: after) = rb ++ r :: ra /\ length rb = length before /\ conversion_error_result r.
  Proof.
    intros K. exists (run_history known tr before), (run_history known tr after), (run_call known tr c).
    unfold run_history. rewrite map_app. cbn [map]. split; [reflexivity|]. split; [apply map_length|].
    destruct (unknown_epsg _ K) as [F B]. destruct c as [l crs|l crs]; cbn [run_call conversion_error_result call_crs] in *; auto.
  Qed.
  (* and every call of a history returns what it returns on its own *)
  Theorem history_is_stateless h i c :
    nth_error h i = Some c -> nth_error (run_history known tr h) i = Some (run_call known tr c).
  Proof. intros H. unfold run_history. now apply map_nth_error. Qed.
End WrapperThm.

(* ------------------------------------------------------------------------------------------------------------------ *)
(* 3b. soundness of the exact checkers over the reals                                                                  *)
Local Open Scope R_scope.

Lemma qclose_spec a b tol : qclose a b tol = true <-> Rabs (Q2R a - Q2R b) <= Q2R tol.
Proof.
  unfold qclose. rewrite andb_true_iff, !Qle_bool_iff. split.
  - intros [H1 H2]. apply Qle_Rle in H1, H2. rewrite Q2R_minus in H1, H2. unfold Rabs. destruct (Rcase_abs _); lra.
  - intros H. split; apply Rle_Qle; rewrite Q2R_minus; unfold Rabs in H; destruct (Rcase_abs _) in H; lra.
Qed.

Theorem fclose_spec a b tol :
  fclose a b tol = true <-> exists A B, fq a = Some A /\ fq b = Some B /\ Rabs (Q2R A - Q2R B) <= Q2R tol.
Proof.
  unfold fclose. destruct (fq a) as [A|], (fq b) as [B|]; try (split; [discriminate | intros (? & ? & ? & ? & _); discriminate]).
  rewrite qclose_spec. split.
  - intros H. exists A, B. auto.
  - intros (A' & B' & E1 & E2 & H). inversion E1; inversion E2; subst. exact H.
Qed.

Lemma Q2R_inject n : Q2R (n # 1) = IZR n.
Proof. unfold Q2R. cbn [Qnum Qden]. lra. Qed.
Lemma Q2R_tol_m : Q2R tol_m = 1 / 1000000.
Proof. unfold Q2R, tol_m. cbn [Qnum Qden]. lra. Qed.
Lemma Q2R_tol_ref : Q2R tol_ref = 9 / 10000000.
Proof. unfold Q2R, tol_ref. cbn [Qnum Qden]. lra. Qed.
Lemma Q2R_tol_deg : Q2R tol_deg = 2 / 10000000000.
Proof. unfold Q2R, tol_deg. cbn [Qnum Qden]. lra. Qed.
Lemma Q2R_pi_lo : Q2R q_pi_lo = pi_lo.
Proof. unfold Q2R, q_pi_lo, pi_lo, Rdiv. cbn [Qnum Qden]. reflexivity. Qed.
Lemma Q2R_pi_hi : Q2R q_pi_hi = pi_hi.
Proof. unfold Q2R, q_pi_hi, pi_hi, Rdiv. cbn [Qnum Qden]. reflexivity. Qed.
Lemma Q2R_east L p : Q2R (q_east L p) = 6378137 * (Q2R L * Q2R p / 180).
Proof.
  unfold q_east, q_R. rewrite Q2R_mult, Q2R_div by discriminate. rewrite Q2R_mult, !Q2R_inject. reflexivity.
Qed.

(* the easting: accepted => within 1e-6 m of R * lon * PI / 180 *)
Theorem check_x_sound x lon : check_x x lon = true ->
  exists X L, fq x = Some X /\ fq lon = Some L /\ Rabs (Q2R X - merc_x (rad (Q2R L))) <= 1 / 1000000.
Proof.
  unfold check_x. destruct (fq x) as [X|]; [|discriminate]. destruct (fq lon) as [L|]; [|discriminate].
  rewrite andb_true_iff, !qclose_spec, !Q2R_east, Q2R_tol_m, Q2R_pi_lo, Q2R_pi_hi. intros [H1 H2].
  exists X, L. repeat split; auto.
  unfold merc_x, rad, Rearth. pose proof pi_bounds as [Pl Ph].
  set (c := 6378137 * Q2R L / 180).
  replace (6378137 * (Q2R L * pi_lo / 180)) with (c * pi_lo) in H1 by (unfold c; field).
  replace (6378137 * (Q2R L * pi_hi / 180)) with (c * pi_hi) in H2 by (unfold c; field).
  replace (6378137 * (Q2R L * PI / 180)) with (c * PI) by (unfold c; field).
  assert (Hc : c * pi_lo <= c * PI <= c * pi_hi \/ c * pi_hi <= c * PI <= c * pi_lo).
  { destruct (Rle_dec 0 c); [left | right]; split; nra. }
  unfold Rabs in *. destruct (Rcase_abs _) in H1; destruct (Rcase_abs _) in H2; destruct (Rcase_abs _); lra.
Qed.
(* ... and complete up to the width of the PI enclosure: rejected => off by more than 1e-6 m - 1e-25 m (for |lon| <= 180) *)
Theorem check_x_complete x lon X L : fq x = Some X -> fq lon = Some L -> Rabs (Q2R L) <= 180 ->
  check_x x lon = false -> Rabs (Q2R X - merc_x (rad (Q2R L))) > 1 / 1000000 - 1 / 10 ^ 25.
Proof.
  intros Ex El HL. unfold check_x. rewrite Ex, El. rewrite andb_false_iff. intros H.
  unfold merc_x, rad, Rearth. pose proof pi_bounds as [Pl Ph].
  set (c := 6378137 * Q2R L / 180).
  replace (6378137 * (Q2R L * PI / 180)) with (c * PI) by (unfold c; field).
  assert (Hw : pi_hi - pi_lo = 1 / 10 ^ 39) by (unfold pi_hi, pi_lo; field).
  assert (Hcb : Rabs c <= 6378137).
  { unfold c. unfold Rabs in *. destruct (Rcase_abs (Q2R L)) in HL; destruct (Rcase_abs _); lra. }
  assert (Hd : forall p, pi_lo <= p <= pi_hi -> Rabs (c * p - c * PI) <= 1 / 10 ^ 25).
  { intros p Hp. replace (c * p - c * PI) with (c * (p - PI)) by ring. rewrite Rabs_mult.
    assert (Rabs (p - PI) <= 1 / 10 ^ 39) by (unfold Rabs; destruct (Rcase_abs _); lra).
    pose proof (Rabs_pos c). pose proof (Rabs_pos (p - PI)).
    apply Rle_trans with (6378137 * (1 / 10 ^ 39)); [apply Rmult_le_compat; lra | lra]. }
  destruct H as [H|H]; apply not_true_iff_false in H; rewrite qclose_spec, Q2R_east, Q2R_tol_m in H; apply Rnot_le_gt in H.
  - rewrite Q2R_pi_lo in H. replace (6378137 * (Q2R L * pi_lo / 180)) with (c * pi_lo) in H by (unfold c; field).
    specialize (Hd pi_lo ltac:(lra)). unfold Rabs in *.
    destruct (Rcase_abs (Q2R X - c * pi_lo)) in H; destruct (Rcase_abs (c * pi_lo - c * PI)) in Hd; destruct (Rcase_abs (Q2R X - c * PI)); lra.
  - rewrite Q2R_pi_hi in H. replace (6378137 * (Q2R L * pi_hi / 180)) with (c * pi_hi) in H by (unfold c; field).
    specialize (Hd pi_hi ltac:(lra)). unfold Rabs in *.
    destruct (Rcase_abs (Q2R X - c * pi_hi)) in H; destruct (Rcase_abs (c * pi_hi - c * PI)) in Hd; destruct (Rcase_abs (Q2R X - c * PI)); lra.
Qed.

(* the northing is compared with a float reference; if that reference is within 1e-7 m of the real-number northing
   (certified per sample by the certificate step), acceptance means: within 1e-6 m of R * asinh(tan lat) *)
Theorem check_y_sound y yr : fclose y yr tol_ref = true ->
  exists Y YR, fq y = Some Y /\ fq yr = Some YR /\
    forall phi, Rabs (Q2R YR - merc_y phi) <= 1 / 10000000 -> Rabs (Q2R Y - merc_y phi) <= 1 / 1000000.
Proof.
  rewrite fclose_spec. intros (Y & YR & E1 & E2 & H). exists Y, YR. repeat split; auto. intros phi Hr.
  rewrite Q2R_tol_ref in H. unfold Rabs in *.
  destruct (Rcase_abs _) in H; destruct (Rcase_abs _) in Hr; destruct (Rcase_abs _); lra.
Qed.

(* longitudes are compared on the circle *)
Definition circle_close (a b tol : R) : Prop := Rabs (a - b) <= tol \/ Rabs (a - b - 360) <= tol \/ Rabs (b - a - 360) <= tol.
Theorem lon_close_spec a b :
  lon_close a b = true <-> exists A B, fq a = Some A /\ fq b = Some B /\ circle_close (Q2R A) (Q2R B) (2 / 10000000000).
Proof.
  unfold lon_close, circle_close.
  destruct (fq a) as [A|], (fq b) as [B|]; try (split; [discriminate | intros (? & ? & ? & ? & _); discriminate]).
  rewrite !orb_true_iff, !qclose_spec, !Q2R_minus, Q2R_tol_deg. unfold q360. rewrite Q2R_inject. split.
  - intros H. exists A, B. repeat split; auto. tauto.
  - intros (A' & B' & E1 & E2 & H). inversion E1; inversion E2; subst. tauto.
Qed.

(* bit equality of floats is Leibniz equality *)
Lemma feqb_bits_eq a b : feqb_bits a b = true -> a = b.
Proof.
  unfold feqb_bits. intros H. rewrite <- (SF2Prim_Prim2SF a), <- (SF2Prim_Prim2SF b). f_equal.
  destruct (Prim2SF a) as [s| s| |s m e], (Prim2SF b) as [t| t| |t n g]; try discriminate; try reflexivity.
  - apply eqb_prop in H. now subst.
  - apply eqb_prop in H. now subst.
  - rewrite !andb_true_iff in H. destruct H as [[H1 H2] H3].
    apply eqb_prop in H1. apply Pos.eqb_eq in H2. apply Z.eqb_eq in H3. now subst.
Qed.

(* the round-trip checker for one point decides exactly: longitude within 2e-10 degrees on the circle, latitude within 2e-10 degrees,
   altitude identical *)
Theorem check_back_spec p g :
  check_back p g = true <->
  (exists A B, fq (plon g) = Some A /\ fq (plon p) = Some B /\ circle_close (Q2R A) (Q2R B) (2 / 10000000000)) /\
  (exists A B, fq (plat g) = Some A /\ fq (plat p) = Some B /\ Rabs (Q2R A - Q2R B) <= 2 / 10000000000) /\
  feqb_bits (palt g) (palt p) = true.
Proof.
  unfold check_back. rewrite !andb_true_iff, lon_close_spec, fclose_spec, Q2R_tol_deg. tauto.
Qed.
Corollary check_back_altitude p g : check_back p g = true -> palt g = palt p.
Proof. rewrite check_back_spec. intros (_ & _ & H). now apply feqb_bits_eq. Qed.

(* the forward checker for one point of EPSG:3857, against the real-number projection (given the accuracy of the float reference) *)
Theorem check_fwd_xy_sound yref p q : check_fwd_xy yref p q = true ->
  (exists X L, fq (px q) = Some X /\ fq (plon p) = Some L /\ Rabs (Q2R X - merc_x (rad (Q2R L))) <= 1 / 1000000) /\
  (exists Y YR, fq (py q) = Some Y /\ fq (yref (plat p)) = Some YR /\
     forall phi, Rabs (Q2R YR - merc_y phi) <= 1 / 10000000 -> Rabs (Q2R Y - merc_y phi) <= 1 / 1000000).
Proof.
  unfold check_fwd_xy. rewrite andb_true_iff. intros [H1 H2]. split; [now apply check_x_sound | now apply check_y_sound].
Qed.

(* the excess allowed by the class, as a real-number law *)
Lemma Q2R_alt_factor A : Q2R q_a + Q2R A <> 0 ->
  Q2R (alt_factor A) = Q2R A * Q2R A * (6378137 / (6378137 + Q2R A)) ^ 3.
Proof.
  intros H. unfold alt_factor.
  assert (Hq : ~ (q_a + A == 0)%Q).
  { intros E. apply H. rewrite <- Q2R_plus. rewrite (Qeq_eqR _ _ E). unfold Q2R. cbn. lra. }
  rewrite !Q2R_mult, !Q2R_div by exact Hq. rewrite Q2R_plus.
  replace (Q2R q_a) with 6378137 by (unfold Q2R, q_a; cbn [Qnum Qden]; lra). unfold Rdiv. ring.
Qed.
Theorem excuse_is_bounded yref p q g :
  (fwd_excused yref p q = true -> alt_zone_of (palt p) = ZIn ->
   exists A X L Y YR, fq (palt p) = Some A /\ -6000000 <= Q2R A <= 33554432 /\
     fq (px q) = Some X /\ fq (plon p) = Some L /\ Rabs (Q2R X - merc_x (rad (Q2R L))) <= 1 / 1000000 /\
     fq (py q) = Some Y /\ fq (yref (plat p)) = Some YR /\
     Rabs (Q2R Y - Q2R YR) <= 9 / 10000000 + 18 / 10 ^ 15 * (Q2R A * Q2R A * (6378137 / (6378137 + Q2R A)) ^ 3)) /\
  (back_excused p g = true -> alt_zone_of (palt p) = ZIn ->
   exists A B C, fq (palt p) = Some A /\ -6000000 <= Q2R A <= 33554432 /\ fq (plat g) = Some B /\ fq (plat p) = Some C /\
     Rabs (Q2R B - Q2R C) <= 2 / 10 ^ 10 + 2 / 10 ^ 19 * (Q2R A * Q2R A * (6378137 / (6378137 + Q2R A)) ^ 3) /\
     lon_close (plon g) (plon p) = true /\ palt g = palt p).
Proof.
  assert (Z : forall a A, alt_zone_of a = ZIn -> fq a = Some A -> -6000000 <= Q2R A <= 33554432).
  { intros a A. unfold alt_zone_of. intros Hz E. rewrite E in Hz.
    destruct (Qle_bool (- q_alt_max) A) eqn:H1; [|discriminate]. destruct (Qle_bool A q_alt_max) eqn:H2; [|discriminate].
    cbn [andb negb] in Hz. destruct (Qle_bool q_alt_deep A) eqn:H3; [|discriminate].
    apply Qle_bool_iff, Qle_Rle in H2, H3.
    assert (E1 : Q2R q_alt_max = 33554432) by (unfold Q2R, q_alt_max; cbn [Qnum Qden]; lra).
    assert (E2 : Q2R q_alt_deep = -6000000) by (unfold q_alt_deep; rewrite Q2R_opp; unfold Q2R; cbn [Qnum Qden]; lra).
    lra. }
  split; intros H Hz.
  - unfold fwd_excused in H. rewrite Hz in H. apply andb_true_iff in H. destruct H as [_ H].
    destruct (fq (palt p)) as [A|] eqn:EA; [|discriminate]. apply andb_true_iff in H. destruct H as [Hx Hy].
    destruct (check_x_sound _ _ Hx) as (X & L & E1 & E2 & Bx). apply fclose_spec in Hy. destruct Hy as (Y & YR & E3 & E4 & By).
    pose proof (Z _ _ Hz EA) as ZA. exists A, X, L, Y, YR. repeat split; auto; try lra.
    rewrite Q2R_plus, Q2R_tol_ref in By. unfold excess_y in By. rewrite Q2R_mult, Q2R_alt_factor in By.
    + replace (Q2R (18 # 1000000000000000)) with (18 / 10 ^ 15) in By by (unfold Q2R; cbn [Qnum Qden]; lra). exact By.
    + unfold Q2R at 1, q_a. cbn [Qnum Qden]. lra.
  - unfold back_excused in H. rewrite Hz in H. apply andb_true_iff in H. destruct H as [_ H].
    destruct (fq (palt p)) as [A|] eqn:EA; [|discriminate]. rewrite !andb_true_iff in H. destruct H as [[Hl Hy] Ha].
    apply fclose_spec in Hy. destruct Hy as (B & C & E3 & E4 & By).
    pose proof (Z _ _ Hz EA) as ZA. exists A, B, C. repeat split; auto; try lra; [|now apply feqb_bits_eq].
    rewrite Q2R_plus, Q2R_tol_deg in By. unfold excess_lat in By. rewrite Q2R_mult, Q2R_alt_factor in By.
    + replace (Q2R (2 # 10000000000000000000)) with (2 / 10 ^ 19) in By by (unfold Q2R; cbn [Qnum Qden]; lra).
      replace (2 / 10 ^ 10) with (2 / 10000000000) by lra. exact By.
    + unfold Q2R at 1, q_a. cbn [Qnum Qden]. lra.
Qed.

Local Close Scope R_scope.
(* ------------------------------------------------------------------------------------------------------------------ *)
(* 4. the open finding (witness), the two repaired defects (regression Examples), non-vacuity                          *)

(* D17  alt_fed_to_datum (OPEN): the height is fed to the datum transform, whose geocentric detour (Bowring's closed formula) is only
   exact on the ellipsoid. Recorded from the code: NewPoint(139, 35, 1e6) comes back as latitude 35.000000086 (8.6e-8 degrees off) and
   its northing is 5.8 mm away from the northing of the same point at height 0, which itself passes. The checkers reject the former
   and accept the latter. *)
Example alt_fed_to_datum_witness :
  let p  := {| plon := 139; plat := 35; palt := 0x1.e848p+19 |} in
  let g  := {| plon := 139; plat := 0x1.1800000b8afp+05; palt := 0x1.e848p+19 |} in     (* observed round trip of p *)
  let p0 := {| plon := 139; plat := 35; palt := 0 |} in
  let g0 := {| plon := 139; plat := 0x1.17fffffffc906p+05; palt := 0 |} in               (* observed round trip of p0: 34.9999999999 *)
  check_back p g = false /\ check_back p0 g0 = true /\
  (* observed northings 4163881.1499103857 (at 1e6 m) and 4163881.1440642914 (at 0 m) *)
  fclose 0x1.fc49493304376p+21 0x1.fc4949270b2dep+21 tol_m = false.
Proof. vm_compute. repeat split; reflexivity. Qed.

(* the two answers recorded from wgs84 v1.1.7 for NewPoint(139, 85.0511287798, 1e6) and for its image: the latitude that comes back,
   85.05112878032632, is above the limit (a consequence of D17) *)
Definition tr_d18 (from to : Z) (a b c : float) : option (float * float * float) :=
  if (from =? 3857)%Z then Some (139, 0x1.54345b1a5d8b3p+06, 0x1.e8480003371e8p+19)%float
  else Some (0x1.d8360270c693ep+23, 0x1.31bf8457d6bb8p+24, 0x1.e8480003371ep+19)%float.
Definition p_d18 : point := {| plon := 139; plat := c_latmax; palt := 0x1.e848p+19 |}.    (* alt = 1 000 000 m *)
Definition q_d18 : ppoint := {| px := 0x1.d8360270c693ep+23; py := 0x1.31bf8457d6bb8p+24; pz := 0x1.e848p+19 |}.

(* REPAIRED by dbefda0 (was D18, lat_limit_overshoot). Current control flow: NewPoint's refusal is a conversion error, nothing is
   appended for the refused point ... *)
Example lat_limit_overshoot_now_error :
  round_trip epsg_known tr_d18 [p_d18] orth_crs = (([q_d18], None), ([], Some EValueConvert)).
Proof. vm_compute. reflexivity. Qed.
(* ... HISTORICAL behaviour before the repair: no error, and the point came back as (139, 0, 0) *)
Example lat_limit_overshoot_historical :
  to_geographic_old tr_d18 [q_d18] orth_crs = ([ {| plon := 139; plat := 0; palt := 0 |} ], None).
Proof. vm_compute. reflexivity. Qed.

(* REPAIRED by e07a6eb (was D19, unknown_epsg_empty_list). Current control flow: see `unknown_epsg`; on the regression input ... *)
Example unknown_epsg_empty_list_now_error :
  epsg_known 99999 = false /\
  forall tr, to_projected epsg_known tr [] 99999 = ([], Some EValueConvert) /\ to_geographic epsg_known tr [] 99999 = ([], Some EValueConvert).
Proof. split; [vm_compute; reflexivity | intros tr; split; reflexivity]. Qed.
(* ... HISTORICAL behaviour before the repair: the loop body, where the transform's error surfaced, never ran for the empty list *)
Example unknown_epsg_empty_list_historical :
  forall tr crs, to_projected_old tr [] crs = ([], None) /\ to_geographic_old tr [] crs = ([], None).
Proof. intros tr crs. split; reflexivity. Qed.

(* non-vacuity of the checkers: the observed image of (139, 35, 0) passes the easting check, +-180 are the same meridian *)
Example check_x_nonvacuous : check_x 0x1.d8360270c693ep+23 139 = true /\ check_x 0x1.d8360270c693ep+23 0x1.16p+07 = true /\
                             check_x 0x1.fc4949270b2dep+21 139 = false.
Proof. vm_compute. repeat split; reflexivity. Qed.
Example lon_close_circle : lon_close (-0x1.67ffffffffffep+07) 180 = true /\ lon_close (-180) 180 = true /\ lon_close 179 180 = false.
Proof. vm_compute. repeat split; reflexivity. Qed.
Example checkers_nonvacuous :
  check_x 0x1.d8360270c693ep+23 139 = true /\ check_x 0x1.fc4949270b2dep+21 139 = false /\
  lon_close (-0x1.67ffffffffffep+07) 180 = true /\ lon_close 179 180 = false.
Proof. vm_compute. repeat split; reflexivity. Qed.
Example epsg_table_size : length epsg_table = 167%nat /\ epsg_known 3857 = true /\ epsg_known 32654 = true /\ epsg_known 3395 = false.
Proof. vm_compute. repeat split; reflexivity. Qed.
(* a two-point list through a toy transform: order and altitudes are the input's; the same list under an unknown code *)
Example to_projected_nonvacuous :
  let tr := fun (_ _ : Z) (a b c : float) => Some ((a + a)%float, (b + 1)%float, 0%float) in
  let l := [ {| plon := 1; plat := 2; palt := 3 |}; {| plon := 1; plat := 2; palt := 4 |} ] in
  to_projected epsg_known tr l 3857 = ([ {| px := 2; py := 3; pz := 3 |}; {| px := 2; py := 3; pz := 4 |} ], None) /\
  to_projected epsg_known tr l 3395 = ([], Some EValueConvert).
Proof. vm_compute. split; reflexivity. Qed.
(* backward through a toy transform: the second point maps to latitude 86 and is refused; the first one is returned with the error *)
Example to_geographic_nonvacuous :
  let tr := fun (_ _ : Z) (a b c : float) => Some (a, b, 0%float) in
  to_geographic epsg_known tr [ {| px := 10; py := 20; pz := 0x1.b2fffffffffffp+8 |}; {| px := 10; py := 86; pz := 7 |} ] 3857
  = ([ {| plon := 10; plat := 20; palt := 0x1.b2fffffffffffp+8 |} ], Some EValueConvert).
Proof. vm_compute. reflexivity. Qed.

(* ------------------------------------------------------------------------------------------------------------------ *)
(* 5. statements in the form used by properties/C18.v *)
Theorem to_geographic_spec (known : Z -> bool) (tr : Z -> Z -> float -> float -> float -> option (float * float * float)) l crs :
  snd (to_geographic known tr l crs) = None ->
  Forall2 (fun q g => exists x y z, tr crs geo_crs (px q) (py q) (pz q) = Some (x, y, z) /\ snd (new_point x y (pz q)) = false /\
                                    g = {| plon := x; plat := setlat_trunc y; palt := pz q |})
          l (fst (to_geographic known tr l crs)).
Proof. apply to_geographic_ok. Qed.
Theorem error_iff (known : Z -> bool) (tr : Z -> Z -> float -> float -> float -> option (float * float * float)) crs :
  (forall l, snd (to_projected known tr l crs) = Some EValueConvert <->
             known crs = false \/ Exists (fun p => tr geo_crs crs (plon p) (plat p) (palt p) = None) l) /\
  (forall l, snd (to_geographic known tr l crs) = Some EValueConvert <->
             known crs = false \/
             Exists (fun q => tr crs geo_crs (px q) (py q) (pz q) = None \/
                              exists x y z, tr crs geo_crs (px q) (py q) (pz q) = Some (x, y, z) /\ snd (new_point x y (pz q)) = true) l).
Proof. split; intros l; [apply to_projected_err_iff | apply to_geographic_err_iff]. Qed.
Theorem error_kind (known : Z -> bool) (tr : Z -> Z -> float -> float -> float -> option (float * float * float)) crs :
  (forall l, snd (to_projected known tr l crs) = None \/ snd (to_projected known tr l crs) = Some EValueConvert) /\
  (forall l, snd (to_geographic known tr l crs) = None \/ snd (to_geographic known tr l crs) = Some EValueConvert).
Proof. split; intros l; [apply to_projected_kind | apply to_geographic_kind]. Qed.

(* ------------------------------------------------------------------------------------------------------------------ *)
(* 6. what `fq` means *)
From Flocq Require Import Core BinarySingleNaN.
(* the rational the checkers read off a float is the float's real value in the sense of Flocq (SF2R of its IEEE decoding) *)
Theorem fq_value f q : fq f = Some q -> Q2R q = SF2R radix2 (Prim2SF f).
Proof.
  unfold fq, dyadic. destruct (Prim2SF f) as [s|s| |s m e]; try discriminate.
  - intros H. inversion H; subst. cbn. unfold Q2R. cbn. lra.
  - intros H. inversion H; subst. clear H. unfold SF2R, F2R. cbn [Fnum Fexp].
    set (v := if s then Z.neg m else Z.pos m).
    assert (Ev : cond_Zopp s (Z.pos m) = v) by (unfold v; destruct s; reflexivity). rewrite Ev.
    destruct (0 <=? e)%Z eqn:He.
    + apply Z.leb_le in He. unfold Q2R. cbn [Qnum Qden inject_Z]. rewrite mult_IZR, Rinv_1, Rmult_1_r. f_equal.
      rewrite <- IZR_Zpower by exact He. reflexivity.
    + apply Z.leb_gt in He. unfold Q2R. cbn [Qnum Qden]. f_equal.
      assert (P : (0 < 2 ^ (- e))%Z) by (apply Z.pow_pos_nonneg; lia).
      rewrite Z2Pos.id by exact P.
      replace e with (- (- e))%Z at 2 by lia. rewrite bpow_opp. f_equal.
      rewrite <- IZR_Zpower by lia. reflexivity.
Qed.

