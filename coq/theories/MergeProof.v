(* MergeProof.v — unit cells, `in_units`, the key theorem `dense_iff` (the code's count test is a covering test), and
   `merge_spec_int`: the merge model is exactly {ineligible inputs} ∪ {covered targets} ∪ {members of uncovered groups}, where
   "covered" is still the integer-level statement on unit cells. MergeRegion.v reads it on regions. *)
From Coq Require Import ZArith Lia List Bool Permutation.
From SID Require Import Base Str Ids ZoomCore Merge MergeCheck.
Import ListNotations.
Open Scope Z_scope.

(* ---- the max-zoom loop ---- *)
Lemma maxz_fold (f : eid -> Z) l : forall m,
  m <= fold_left (fun m i => if m <? f i then f i else m) l m /\
  (forall i, In i l -> f i <= fold_left (fun m i => if m <? f i then f i else m) l m).
Proof.
  induction l as [|a r IH]; intros m; cbn [fold_left]; [split; [lia|contradiction]|].
  destruct (IH (if m <? f a then f a else m)) as [A B]. destruct (Z.ltb_spec m (f a)); split; try lia.
  - intros i [<-|Hi]; [lia|now apply B].
  - intros i [<-|Hi]; [lia|now apply B].
Qed.
Lemma maxz_ge f l i : In i l -> f i <= maxz f l.
Proof. intros Hi. unfold maxz. now apply (proj2 (maxz_fold f l 0)). Qed.
Lemma maxz_nonneg f l : 0 <= maxz f l.
Proof. unfold maxz. apply (proj1 (maxz_fold f l 0)). Qed.
Lemma maxz_fold_le (f : eid -> Z) l b : forall m, m <= b -> (forall i, In i l -> f i <= b) ->
  fold_left (fun m i => if m <? f i then f i else m) l m <= b.
Proof.
  induction l as [|a r IH]; intros m Hm Hl; cbn [fold_left]; [exact Hm|].
  apply IH; [|intros i Hi; apply Hl; now right].
  destruct (Z.ltb_spec m (f a)); [apply Hl; now left|exact Hm].
Qed.
Lemma maxz_le f l b : 0 <= b -> (forall i, In i l -> f i <= b) -> maxz f l <= b.
Proof. intros. unfold maxz. now apply maxz_fold_le. Qed.

(* ---- unit cells ---- *)
Lemma in_units MH MV i c : eh i <= MH -> ev i <= MV ->
  In c (units MH MV i) <->
  eh c = MH /\ ev c = MV /\ anc (MH - eh i) (ex c) = ex i /\ anc (MH - eh i) (ey c) = ey i /\ anc (MV - ev i) (ef c) = ef i.
Proof.
  intros Hh Hv. unfold units. cbv zeta. rewrite in_flat_map. split.
  - intros (x & Hx & H). apply in_flat_map in H. destruct H as (y & Hy & H).
    apply in_map_iff in H. destruct H as (z & <- & Hz). cbn [eh ex ey ev ef].
    apply in_zrange in Hx, Hy, Hz.
    repeat split; try reflexivity; (apply desc_iff; [lia|lia]).
  - intros (E1 & E2 & X & Y & F).
    apply desc_iff in X; [|lia]. apply desc_iff in Y; [|lia]. apply desc_iff in F; [|lia].
    exists (ex c). split; [apply in_zrange; lia|].
    apply in_flat_map. exists (ey c). split; [apply in_zrange; lia|].
    apply in_map_iff. exists (ef c). split; [|apply in_zrange; lia].
    destruct c; cbn in *; subst; reflexivity.
Qed.

(* all unit cells below a voxel, as a product: same members as `units`, with NoDup and length for free *)
Definition cells (MH MV : Z) (i : eid) : list eid :=
  let dh := 2 ^ (MH - eh i) in let dv := 2 ^ (MV - ev i) in
  map (fun p => {| eh := MH; ex := fst p; ey := fst (snd p); ev := MV; ef := snd (snd p) |})
    (list_prod (zrange (ex i * dh) ((ex i + 1) * dh - 1))
      (list_prod (zrange (ey i * dh) ((ey i + 1) * dh - 1)) (zrange (ef i * dv) ((ef i + 1) * dv - 1)))).

Lemma cells_units MH MV i c : In c (cells MH MV i) <-> In c (units MH MV i).
Proof.
  unfold cells, units. cbv zeta. rewrite in_map_iff, in_flat_map. split.
  - intros ([x [y z]] & <- & H). apply in_prod_iff in H. destruct H as [Hx H]. apply in_prod_iff in H. destruct H as [Hy Hz].
    exists x. split; [exact Hx|]. apply in_flat_map. exists y. split; [exact Hy|]. apply in_map_iff. exists z. cbn. tauto.
  - intros (x & Hx & H). apply in_flat_map in H. destruct H as (y & Hy & H). apply in_map_iff in H. destruct H as (z & <- & Hz).
    exists (x, (y, z)). split; [reflexivity|]. apply in_prod_iff. split; [exact Hx|]. apply in_prod_iff. tauto.
Qed.

Lemma cells_NoDup MH MV i : NoDup (cells MH MV i).
Proof.
  unfold cells. cbv zeta. apply FinFun.Injective_map_NoDup.
  - intros [x [y z]] [x' [y' z']] H. injection H as -> -> ->. reflexivity.
  - repeat apply NoDup_list_prod; apply zrange_NoDup.
Qed.

Lemma cells_length MH MV i : eh i <= MH -> ev i <= MV ->
  Z.of_nat (length (cells MH MV i)) = 2 ^ (MH - eh i) * 2 ^ (MH - eh i) * 2 ^ (MV - ev i).
Proof.
  intros Hh Hv. unfold cells. cbv zeta. rewrite map_length, !prod_length, !zrange_length.
  pose proof (pow2_pos (MH - eh i) ltac:(lia)). pose proof (pow2_pos (MV - ev i) ltac:(lia)).
  rewrite !Nat2Z.inj_mul, !Z2Nat.id by nia.
  ring_simplify. nia.
Qed.

Lemma flat_map_length_const {A B} (f : A -> list B) l n :
  (forall a, In a l -> length (f a) = n) -> length (flat_map f l) = (length l * n)%nat.
Proof.
  induction l as [|a r IH]; cbn [flat_map length]; intros E; [reflexivity|].
  rewrite app_length, (E a (or_introl eq_refl)), IH by (intros b Hb; apply E; now right). lia.
Qed.
Lemma units_cells_length MH MV i : length (units MH MV i) = length (cells MH MV i).
Proof.
  unfold units, cells. cbv zeta. rewrite map_length, !prod_length.
  erewrite flat_map_length_const; [reflexivity|]. intros x _.
  erewrite flat_map_length_const; [reflexivity|]. intros y _. apply map_length.
Qed.
Lemma units_length MH MV i : eh i <= MH -> ev i <= MV ->
  Z.of_nat (length (units MH MV i)) = 2 ^ (MH - eh i) * 2 ^ (MH - eh i) * 2 ^ (MV - ev i).
Proof. intros. rewrite units_cells_length. now apply cells_length. Qed.

(* the density test of the code is a covering test *)
Theorem dense_iff MH MV T (grp : list eid) :
  eh T <= MH -> ev T <= MV ->
  (forall i, In i grp -> incl (units MH MV i) (units MH MV T)) ->
  (Z.of_nat (length (nodupb eid_eqb (flat_map (units MH MV) grp))) =
     2 ^ (MH - eh T) * 2 ^ (MH - eh T) * 2 ^ (MV - ev T)
   <-> incl (units MH MV T) (flat_map (units MH MV) grp)).
Proof.
  intros Hh Hv Hsub. set (U := nodupb eid_eqb (flat_map (units MH MV) grp)).
  assert (HU : NoDup U) by apply (nodupb_NoDup eid_eqb eid_eqb_spec).
  assert (HUD : incl U (cells MH MV T)).
  { intros c Hc. apply cells_units. unfold U in Hc. apply (proj1 (nodupb_In eid_eqb eid_eqb_spec _ _)) in Hc. apply in_flat_map in Hc.
    destruct Hc as (i & Hi & Hc). now apply (Hsub i Hi). }
  rewrite <- cells_length by assumption. split.
  - intros E c Hc. apply (proj1 (nodupb_In eid_eqb eid_eqb_spec _ _)). fold U.
    assert (I : incl (cells MH MV T) U) by (apply (@NoDup_length_incl _ U (cells MH MV T) HU); [apply Nat2Z.inj in E; lia | exact HUD]).
    apply I. now apply cells_units.
  - intros Hcov. f_equal. apply Nat.le_antisymm.
    + apply NoDup_incl_length; assumption.
    + apply NoDup_incl_length; [apply cells_NoDup|]. intros c Hc. unfold U. apply (proj2 (nodupb_In eid_eqb eid_eqb_spec _ _)). apply Hcov. now apply cells_units.
Qed.

(* ---- weak well-formedness: all that the merge theorems need of an input ID (every valid ID has it) ---- *)
Definition wfz (i : eid) : Prop := 0 <= eh i /\ 0 <= ev i /\ 0 <= ex i /\ 0 <= ey i.
Lemma valid_wfz i : valid i -> wfz i.
Proof. unfold valid, wfz. tauto. Qed.

Section Spec.
  Variable ord : list eid -> list eid.
  Hypothesis ord_perm : forall l, Permutation (ord l) l.
  Variables H V : Z.
  Hypothesis H0 : 0 <= H.
  Hypothesis V0 : 0 <= V.
  Variable ids : list eid.
  Hypothesis ids_wf : forall i, In i ids -> wfz i.

  Let MH := maxz eh ids.
  Let MV := maxz ev ids.
  Let MH_ge i (Hi : In i ids) : eh i <= MH := maxz_ge eh ids i Hi.
  Let MV_ge i (Hi : In i ids) : ev i <= MV := maxz_ge ev ids i Hi.

  Notation eligible := (eligible H V).
  Notation target := (target H V).
  Notation tgt := (tgt H V).
  Definition el := filter eligible ids.
  Definition rest := filter (fun i => negb (eligible i)) ids.
  Notation grp := (group H V el).

  (* integer-level covering of a target voxel by its group *)
  Definition full (T : eid) : Prop := incl (units MH MV T) (flat_map (units MH MV) (grp T)).

  Lemma ord_In a l : In a (ord l) <-> In a l.
  Proof. split; apply Permutation_in; [apply ord_perm | apply Permutation_sym, ord_perm]. Qed.

  Lemma el_In i : In i el <-> In i ids /\ H <= eh i /\ V <= ev i.
  Proof. unfold el, Merge.eligible. rewrite filter_In, andb_true_iff, !Z.leb_le. tauto. Qed.

  (* on eligible well-formed inputs the code's Higher is the floor ancestor on all three axes *)
  Lemma target_tgt i : In i el -> target i = tgt i.
  Proof.
    intros Hi. apply el_In in Hi. destruct Hi as (Hin & Hh & Hv). destruct (ids_wf i Hin) as (A & B & C & D).
    unfold Merge.target. rewrite higher_anc by lia. unfold MergeCheck.tgt. f_equal; lia.
  Qed.

  Lemma grp_In T i : In i (grp T) <-> In i el /\ tgt i = T.
  Proof.
    unfold group. rewrite filter_In. split.
    - intros [Hi E]. split; [exact Hi|]. rewrite <- (target_tgt i Hi). now destruct (eid_eqb_spec (target i) T).
    - intros [Hi E]. split; [exact Hi|]. rewrite (target_tgt i Hi). now destruct (eid_eqb_spec (tgt i) T).
  Qed.

  Lemma units_sub T i : In i (grp T) -> incl (units MH MV i) (units MH MV T).
  Proof.
    intros Hi c Hc. apply grp_In in Hi. destruct Hi as [Hel <-]. apply el_In in Hel.
    destruct Hel as (Hin & Hh & Hv). pose proof (MH_ge i Hin). pose proof (MV_ge i Hin).
    apply in_units in Hc; [|lia|lia]. destruct Hc as (E1 & E2 & X & Y & F).
    apply in_units; cbn [eh ev ex ey ef MergeCheck.tgt]; [lia|lia|].
    repeat split; try assumption.
    - rewrite <- X, anc_compose by lia. f_equal. lia.
    - rewrite <- Y, anc_compose by lia. f_equal. lia.
    - rewrite <- F, anc_compose by lia. f_equal. lia.
  Qed.

  Lemma dense_full T : (exists i, In i el /\ tgt i = T) -> (dense H V MH MV el T = true <-> full T).
  Proof.
    intros (i & Hi & <-). unfold dense, full, thr. rewrite Z.eqb_eq.
    pose proof Hi as Hi'. apply el_In in Hi'. destruct Hi' as (Hin & Hh & Hv). pose proof (MH_ge i Hin). pose proof (MV_ge i Hin).
    apply (dense_iff MH MV (tgt i) (grp (tgt i))); cbn [eh ev MergeCheck.tgt]; [lia|lia|].
    intros j Hj. now apply units_sub.
  Qed.

  (* the merge result is exactly: untouched ineligible inputs, covered targets, members of uncovered groups *)
  Theorem merge_spec_int o : In o (merge ord H V ids) <->
    (In o ids /\ eligible o = false) \/
    (exists i, In i el /\ tgt i = o /\ full o) \/
    (In o el /\ ~ full (tgt o)).
  Proof.
    unfold merge. fold MH MV el rest. rewrite ord_In, (nodupb_In eid_eqb eid_eqb_spec), in_app_iff, in_flat_map. split.
    - intros [Hr|(T & HT & Ho)].
      + left. unfold rest in Hr. apply filter_In in Hr. now rewrite negb_true_iff in Hr.
      + apply (proj1 (ord_In _ _)) in HT. apply (proj1 (nodupb_In eid_eqb eid_eqb_spec _ _)) in HT. apply in_map_iff in HT. destruct HT as (i & <- & Hi).
        rewrite (target_tgt i Hi) in Ho.
        assert (Hex : exists j, In j el /\ tgt j = tgt i) by (exists i; auto).
        destruct (dense H V MH MV el (tgt i)) eqn:D.
        * destruct Ho as [<-|[]]. right; left. exists i. repeat split; auto. now apply dense_full.
        * right; right. apply grp_In in Ho. destruct Ho as [Hoe Hot]. split; [exact Hoe|].
          rewrite Hot. intros F. apply dense_full in F; [congruence|exact Hex].
    - intros [[Ho He]|[(i & Hi & <- & F)|[Hoe NF]]].
      + left. unfold rest. apply filter_In. now rewrite He.
      + right. exists (tgt i). split.
        * apply (proj2 (ord_In _ _)). apply (proj2 (nodupb_In eid_eqb eid_eqb_spec _ _)). rewrite <- (target_tgt i Hi). apply in_map. exact Hi.
        * assert (D : dense H V MH MV el (tgt i) = true) by (apply dense_full; [exists i; auto|exact F]).
          rewrite D. now left.
      + right. exists (tgt o). split.
        * apply (proj2 (ord_In _ _)). apply (proj2 (nodupb_In eid_eqb eid_eqb_spec _ _)). rewrite <- (target_tgt o Hoe). apply in_map. exact Hoe.
        * destruct (dense H V MH MV el (tgt o)) eqn:D.
          -- exfalso. apply NF. apply dense_full; [exists o; auto|exact D].
          -- apply grp_In. auto.
  Qed.

  Theorem merge_NoDup : NoDup (merge ord H V ids).
  Proof. unfold merge. eapply Permutation_NoDup; [apply Permutation_sym, ord_perm | apply (nodupb_NoDup eid_eqb eid_eqb_spec)]. Qed.
End Spec.

(* covering of a target by its group is decidable: the code's own count test decides it *)
Lemma full_dec H V ids (ids_wf : forall i, In i ids -> wfz i) T :
  (exists i, In i (el H V ids) /\ tgt H V i = T) -> full H V ids T \/ ~ full H V ids T.
Proof.
  intros Hex. destruct (dense H V (maxz eh ids) (maxz ev ids) (el H V ids) T) eqn:D.
  - left. now apply (dense_full H V ids ids_wf T Hex).
  - right. intros F. apply (dense_full H V ids ids_wf T Hex) in F. congruence.
Qed.
