(* MergeIdem.v — idempotence of merging (`merge (merge l) ≡ merge l` as sets) and covariance under vertical translation by
   whole zoom-0 cells (f ↦ f + k·2^v, altitude ↦ altitude + k·2^25 m): the precise form of "the rule is the same above and
   below ground level". Both go through the specification set S, to which MergeRegion.merge_is_S reduces the algorithm. *)
From Coq Require Import ZArith Reals Lia Lra List Bool Permutation.
From Flocq Require Import Core.
From SID Require Import Base Str Ids Voxel ZoomCore Merge MergeCheck MergeProof MergeRegion.
Import ListNotations.
Open Scope Z_scope.

Section Idem.
  Variables H V : Z.
  Hypothesis H0 : 0 <= H.
  Hypothesis V0 : 0 <= V.
  Notation tgt := (tgt H V).
  Notation elig := (elig H V).
  Notation fullS := (fullS H V).
  Notation S := (S H V).
  Variable ids : eid -> Prop.

  (* the eligible members of S ids below an unfilled target are exactly those of ids *)
  Lemma unfilled_same T : eh T = H -> ev T = V -> ~ fullS ids T -> (fullS (S ids) T <-> fullS ids T).
  Proof.
    intros E1 E2 NF. split; [|tauto]. intros F p Hp. destruct (F p Hp) as (j & Hj & Ej & Hjp).
    destruct Hj as [[_ N]|[(i & Hi & Ei & Ti & Fi)|(Hj & _)]].
    - contradiction.
    - exfalso. apply NF. assert (j = T) as <-; [|exact Fi].
      apply (inR_unique _ _ p); [rewrite <- Ti, E1; reflexivity|rewrite <- Ti, E2; reflexivity|exact Hjp|exact Hp].
    - exists j. auto.
  Qed.

  Lemma filled_stays T i : ids i -> elig i -> tgt i = T -> fullS ids T -> fullS (S ids) T.
  Proof.
    intros Hi Ei Ti F p Hp. exists T. split; [|split].
    - right; left. exists i. auto.
    - rewrite <- Ti. apply tgt_elig.
    - exact Hp.
  Qed.

  (* the specification set is idempotent *)
  Theorem S_idem o : S (S ids) o <-> S ids o.
  Proof.
    split.
    - intros [[Ho N]|[(j & Hj & Ej & Tj & F)|(Ho & Eo & NF)]].
      + destruct Ho as [Ho|[(i & _ & _ & Ti & _)|(_ & Eo & _)]]; [left; exact Ho| |contradiction].
        exfalso. apply N. rewrite <- Ti. apply tgt_elig.
      + destruct Hj as [[_ N]|[(i & Hi & Ei & Ti & Fi)|(Hj & _ & NFj)]]; [contradiction| |].
        * assert (Eoj : o = j) by (rewrite <- Tj, <- Ti; apply tgt_tgt).
          right; left. exists i. rewrite Eoj. split; [exact Hi|]. split; [exact Ei|]. split; [exact Ti|exact Fi].
        * exfalso. rewrite <- Tj in F. apply (unfilled_same (tgt j)) in F; [contradiction|reflexivity|reflexivity|exact NFj].
      + destruct Ho as [[_ N]|[(i & Hi & Ei & Ti & Fi)|Ho]]; [contradiction| |right; right; exact Ho].
        exfalso. apply NF. rewrite <- Ti, tgt_tgt. apply (filled_stays (tgt i) i); auto. now rewrite Ti.
    - intros [[Ho N]|[(i & Hi & Ei & Ti & F)|(Ho & Eo & NF)]].
      + left. split; [left; auto|exact N].
      + right; left. exists o. split; [right; left; exists i; auto|].
        assert (Eo : elig o) by (rewrite <- Ti; apply tgt_elig).
        assert (To : tgt o = o) by (rewrite <- Ti; apply tgt_tgt).
        split; [exact Eo|]. split; [exact To|]. now apply (filled_stays o i).
      + right; right. split; [right; right; auto|]. split; [exact Eo|].
        intros F. apply (unfilled_same (tgt o)) in F; [contradiction|reflexivity|reflexivity|exact NF].
  Qed.
End Idem.

(* C04: merging the result again changes nothing (as sets; the two runs may use different map orders) *)
Theorem merge_idem ord1 ord2 (P1 : forall l, Permutation (ord1 l) l) (P2 : forall l, Permutation (ord2 l) l) H V ids :
  0 <= H -> 0 <= V -> (forall i, In i ids -> wfz i) ->
  forall o, In o (merge ord2 H V (merge ord1 H V ids)) <-> In o (merge ord1 H V ids).
Proof.
  intros H0 V0 Hwf o.
  rewrite (merge_is_S ord2 P2 H V H0 V0 (merge ord1 H V ids) (merge_wfz ord1 P1 H V H0 V0 ids Hwf)).
  rewrite (merge_is_S ord1 P1 H V H0 V0 ids Hwf).
  rewrite (S_ext H V (fun j => In j (merge ord1 H V ids)) (S H V (fun i => In i ids)) o (fun j => merge_is_S ord1 P1 H V H0 V0 ids Hwf j)).
  apply S_idem; assumption.
Qed.

(* the result depends on the input only as a set (order and multiplicity of the input are irrelevant) *)
Theorem merge_set_ext ord1 ord2 (P1 : forall l, Permutation (ord1 l) l) (P2 : forall l, Permutation (ord2 l) l) H V l1 l2 :
  0 <= H -> 0 <= V -> (forall i, In i l1 -> wfz i) -> (forall i, In i l1 <-> In i l2) ->
  forall o, In o (merge ord1 H V l1) <-> In o (merge ord2 H V l2).
Proof.
  intros H0 V0 Hwf E o.
  assert (Hwf2 : forall i, In i l2 -> wfz i) by (intros i Hi; apply Hwf, E, Hi).
  rewrite (merge_is_S ord1 P1 H V H0 V0 l1 Hwf), (merge_is_S ord2 P2 H V H0 V0 l2 Hwf2).
  apply S_ext. exact E.
Qed.

(* ---- vertical translation by k whole zoom-0 cells ---- *)
Definition shiftf (k : Z) (i : eid) : eid :=
  {| eh := eh i; ex := ex i; ey := ey i; ev := ev i; ef := ef i + k * 2 ^ ev i |}.
Definition pshift (k : Z) (p : pt) : pt := let '(u, w, a) := p in (u, w, (a + IZR k)%R).

Lemma Zfloor_add_Z x n : Zfloor (x + IZR n) = Zfloor x + n.
Proof.
  apply Zfloor_imp. rewrite !plus_IZR. pose proof (Zfloor_lb x). pose proof (Zfloor_ub x). lra.
Qed.

Lemma shiftf_inv k i : shiftf (- k) (shiftf k i) = i.
Proof. destruct i as [h x y v f]. unfold shiftf. cbn [eh ex ey ev ef]. f_equal. ring. Qed.
Lemma shiftf_inv' k i : shiftf k (shiftf (- k) i) = i.
Proof. destruct i as [h x y v f]. unfold shiftf. cbn [eh ex ey ev ef]. f_equal. ring. Qed.
Lemma shiftf_inj k i j : shiftf k i = shiftf k j -> i = j.
Proof. intros E. rewrite <- (shiftf_inv k i), <- (shiftf_inv k j). now rewrite E. Qed.
Lemma pshift_inv' k p : pshift k (pshift (- k) p) = p.
Proof. destruct p as [[u w] a]. unfold pshift. f_equal. rewrite opp_IZR. ring. Qed.

Lemma inR_shift k i p : 0 <= ev i -> (inR (shiftf k i) (pshift k p) <-> inR i p).
Proof.
  intros Hv. destruct p as [[u w] a]. unfold inR, shiftf, pshift. cbn [eh ex ey ev ef].
  replace (bpow radix2 (ev i) * (a + IZR k))%R with (bpow radix2 (ev i) * a + IZR (k * 2 ^ ev i))%R
    by (rewrite mult_IZR, (IZR_pow2 (ev i) Hv); ring).
  rewrite Zfloor_add_Z. split; intros (A & B & C); repeat split; auto.
  - apply Z.add_cancel_r in C. exact C.
  - apply Z.add_cancel_r. exact C.
Qed.

Section Shift.
  Variables H V : Z.
  Hypothesis H0 : 0 <= H.
  Hypothesis V0 : 0 <= V.
  Variable k : Z.
  Notation tgt := (tgt H V).
  Notation elig := (elig H V).
  Notation fullS := (fullS H V).
  Notation S := (S H V).

  Lemma elig_shift i : elig (shiftf k i) <-> elig i.
  Proof. unfold MergeRegion.elig, shiftf. cbn. tauto. Qed.

  (* the ancestor of a translated voxel is the translated ancestor *)
  Lemma tgt_shift i : elig i -> tgt (shiftf k i) = shiftf k (tgt i).
  Proof.
    intros [Eh Ev]. unfold MergeCheck.tgt, shiftf. cbn [eh ex ey ev ef]. f_equal. unfold anc.
    pose proof (pow2_pos (ev i - V) ltac:(lia)) as Hp.
    replace (ef i + k * 2 ^ ev i) with (ef i + (k * 2 ^ V) * 2 ^ (ev i - V)).
    - rewrite Z.div_add by lia. reflexivity.
    - rewrite <- Z.mul_assoc, <- Z.pow_add_r by lia. do 3 f_equal. lia.
  Qed.

  Variable ids : eid -> Prop.
  Definition imgP (j : eid) : Prop := exists i, ids i /\ j = shiftf k i.

  Lemma imgP_shift i : imgP (shiftf k i) <-> ids i.
  Proof. split; [intros (j & Hj & E); apply shiftf_inj in E; now subst|intros Hi; exists i; auto]. Qed.

  Lemma fullS_shift T : 0 <= ev T -> (fullS imgP (shiftf k T) <-> fullS ids T).
  Proof.
    intros HT. split.
    - intros F p Hp. apply (proj2 (inR_shift k T p HT)) in Hp. destruct (F _ Hp) as (j' & (j & Hj & ->) & Ej & Hjp).
      apply (proj1 (elig_shift _)) in Ej. exists j. repeat split; try assumption; try apply Ej.
      apply (proj1 (inR_shift k j p ltac:(destruct Ej; lia))). exact Hjp.
    - intros F p' Hp'. rewrite <- (pshift_inv' k p') in Hp'. apply (proj1 (inR_shift k T _ HT)) in Hp'.
      destruct (F _ Hp') as (j & Hj & Ej & Hjp). exists (shiftf k j). split; [exists j; auto|]. split; [now apply (proj2 (elig_shift _))|].
      rewrite <- (pshift_inv' k p'). apply (proj2 (inR_shift k j _ ltac:(destruct Ej; lia))). exact Hjp.
  Qed.

  Theorem S_shift o : S imgP (shiftf k o) <-> S ids o.
  Proof.
    unfold MergeRegion.S. rewrite imgP_shift, elig_shift. split.
    - intros [A|[(i' & (i & Hi & ->) & Ei & Ti & F)|(Ho & Eo & NF)]].
      + left. exact A.
      + right; left. apply (proj1 (elig_shift _)) in Ei. rewrite (tgt_shift i Ei) in Ti. apply shiftf_inj in Ti.
        exists i. repeat split; try assumption; try apply Ei. apply (proj1 (fullS_shift o ltac:(rewrite <- Ti; cbn; lia))). exact F.
      + right; right. repeat split; try assumption; try apply Eo. intros F. apply NF. rewrite (tgt_shift o Eo).
        apply (proj2 (fullS_shift (tgt o) ltac:(cbn; lia))). exact F.
    - intros [A|[(i & Hi & Ei & Ti & F)|(Ho & Eo & NF)]].
      + left. exact A.
      + right; left. exists (shiftf k i). split; [exists i; auto|]. split; [now apply (proj2 (elig_shift _))|].
        split; [rewrite (tgt_shift i Ei); now rewrite Ti|]. apply (proj2 (fullS_shift o ltac:(rewrite <- Ti; cbn; lia))). exact F.
      + right; right. repeat split; try assumption; try apply Eo. rewrite (tgt_shift o Eo). intros F. apply NF.
        apply (proj1 (fullS_shift (tgt o) ltac:(cbn; lia))). exact F.
  Qed.
End Shift.

(* C04, "the same above and below ground": translating every input by k whole zoom-0 cells (any sign of k, hence across ground
   level) translates the result by the same amount — the merge of the translated list is the translated merge, as sets *)
Theorem merge_translation ord1 ord2 (P1 : forall l, Permutation (ord1 l) l) (P2 : forall l, Permutation (ord2 l) l) H V k ids :
  0 <= H -> 0 <= V -> (forall i, In i ids -> wfz i) ->
  forall o, In o (merge ord1 H V (map (shiftf k) ids)) <-> In o (map (shiftf k) (merge ord2 H V ids)).
Proof.
  intros H0 V0 Hwf o.
  assert (Hwf' : forall i, In i (map (shiftf k) ids) -> wfz i).
  { intros i Hi. apply in_map_iff in Hi. destruct Hi as (j & <- & Hj). apply Hwf in Hj. unfold wfz, shiftf in *. cbn. exact Hj. }
  rewrite (merge_is_S ord1 P1 H V H0 V0 _ Hwf').
  rewrite <- (shiftf_inv' k o) at 1.
  rewrite (S_ext H V (fun i => In i (map (shiftf k) ids)) (imgP k (fun i => In i ids)) _).
  - rewrite (S_shift H V V0 k). rewrite <- (merge_is_S ord2 P2 H V H0 V0 ids Hwf). rewrite in_map_iff. split.
    + intros Ho. exists (shiftf (- k) o). split; [apply shiftf_inv'|exact Ho].
    + intros (o' & <- & Ho'). now rewrite shiftf_inv.
  - intros j. rewrite in_map_iff. unfold imgP. split; intros (i & A & B); exists i; [split; [exact B|now symmetry]|split; [now symmetry|exact A]].
Qed.
