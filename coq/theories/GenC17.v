(* GenC17.v — C17's main results restated over the float kernels REGENERATED from the Go source (coq/generated/GeneratedF.v, rewritten by the
   translator on every run): the two face altitudes of convertVerticallIDToBit, one pass through the loop body of calcBitIndex, the cell height
   and the two cell altitudes of convertBitToVerticalID, and the vertical index of getVerticalTileIdOnAltitude. Each statement is obtained from
   the theorem about the hand model (BitAlt.v) by rewriting with the gen_ lemmas of GenEqFBit.v / GenEqFPoint.v, so a semantic edit of one of
   these kernels in the source breaks the statements below.
   NOT regenerated (still hand-written here, compared with the code only by the differential runs): the loop header of calcBitIndex
   (`for i = 0; i < outputZoom; i++`, start value 0, returned variable) — gen_calcBitIndex iterates the generated body that many times —, the gap
   filling and the string handling of the two conversions. *)
From Coq Require Import ZArith Reals Lia Floats List Bool String.
From Flocq Require Import Core.
From SIDGen Require Import GeneratedF.
From SID Require Import Base F64 ExactRef PointF BitAlt BitAltRef BitAltR BitAltF BitAltV BitAltT GenEqFBit GenEqFPoint.
Import ListNotations.
Open Scope Z_scope.

(* the loop of calcBitIndex over the generated body: n passes, counter i, accumulator (maxHeight, minHeight, bitIndex) *)
Fixpoint gen_bits (n : nat) (alt : pfloat) (oz : Z) (mx mn : pfloat) (acc i : Z) : Z :=
  match n with
  | O => acc
  | S m => let '(mx', mn', acc') := GeneratedF.calcBitIndex_step alt oz mx mn acc i in gen_bits m alt oz mx' mn' acc' (i + 1)
  end.
Definition gen_calcBitIndex (alt : pfloat) (zoom : Z) (mx mn : pfloat) : Z := gen_bits (Z.to_nat zoom) alt zoom mx mn 0 0.

Lemma gen_bits_eq n : forall alt oz mx mn acc i, gen_bits n alt oz mx mn acc i = bits pfloat geF halfF n alt mx mn acc.
Proof.
  induction n as [|m IH]; intros alt oz mx mn acc i; [reflexivity|].
  rewrite (bits_over_generated_step m alt oz mx mn acc i). cbn [gen_bits].
  destruct (GeneratedF.calcBitIndex_step alt oz mx mn acc i) as [[mx' mn'] acc']. apply IH.
Qed.
Lemma gen_calcBitIndex_eq alt zoom mx mn : gen_calcBitIndex alt zoom mx mn = calc_bit_index alt zoom mx mn.
Proof. unfold gen_calcBitIndex, calc_bit_index. apply gen_bits_eq. Qed.

Notation gen_top := GeneratedF.convertVerticallIDToBit_spatialIDMaxHeight.
Notation gen_bottom := GeneratedF.convertVerticallIDToBit_spatialIDMinHeight.
Notation gen_cell_top := GeneratedF.convertBitToVerticalID_maxAltitude.
Notation gen_cell_bottom := GeneratedF.convertBitToVerticalID_minAltitude.
Notation gen_vindex := GeneratedF.getVerticalTileIdOnAltitude_vIndex.

(* ---- forward ---- *)
Theorem gen_index_in_range alt zoom mx mn : 0 <= zoom -> 0 <= gen_calcBitIndex alt zoom mx mn < 2 ^ zoom.
Proof. rewrite gen_calcBitIndex_eq. apply calc_bit_index_range. Qed.
Theorem gen_index_monotone a1 a2 zoom mx mn : (a1 <=? a2)%float = true -> gen_calcBitIndex a1 zoom mx mn <= gen_calcBitIndex a2 zoom mx mn.
Proof. rewrite !gen_calcBitIndex_eq. apply calc_bit_index_mono. Qed.
Theorem gen_faces_exact v f oz mx mn : 0 <= v <= 35 -> Z.abs f < 2 ^ 52 ->
  val (gen_bottom v f oz mx mn) = (IZR f * bpow radix2 (25 - v))%R /\ fin (gen_bottom v f oz mx mn) /\
  val (gen_top v f oz mx mn) = (IZR (f + 1) * bpow radix2 (25 - v))%R /\ fin (gen_top v f oz mx mn).
Proof.
  intros Hv Hf. rewrite gen_convertVerticallIDToBit_spatialIDMinHeight_eq, gen_convertVerticallIDToBit_spatialIDMaxHeight_eq.
  destruct (vox_alt_exact f v Hv ltac:(lia)) as [V0 F0]. destruct (vox_alt_exact (f + 1) v Hv ltac:(lia)) as [V1 F1]. auto.
Qed.
(* the model of convertVerticallIDToBit is the gap-filled list between the generated loop applied to the two generated face altitudes; it is
   duplicate-free, and as a set exactly lo..hi with 0 <= lo <= hi < 2^zoom — every voxel, every height range *)
Theorem gen_forward_is_contiguous_run v f oz mx mn : 0 <= v <= 35 -> Z.abs f < 2 ^ 52 -> 0 <= oz ->
  let lo := gen_calcBitIndex (gen_bottom v f oz mx mn) oz mx mn in
  let hi := gen_calcBitIndex (gen_top v f oz mx mn) oz mx mn in
  vid_to_bit v f oz mx mn = run_of hi lo /\
  0 <= lo <= hi /\ hi < 2 ^ oz /\ NoDup (run_of hi lo) /\ forall x, In x (run_of hi lo) <-> lo <= x <= hi.
Proof.
  intros Hv Hf Hz. cbv zeta. rewrite !gen_calcBitIndex_eq, gen_convertVerticallIDToBit_spatialIDMinHeight_eq, gen_convertVerticallIDToBit_spatialIDMaxHeight_eq.
  split; [reflexivity|]. exact (vid_to_bit_run v f oz mx mn Hv Hf Hz).
Qed.
(* on short-mantissa dyadic ranges the generated loop returns the clamped floor of the normalised altitude *)
Theorem gen_index_exact_on_dyadic_ranges (alt mx mn : pfloat) (a b e zoom : Z) :
  fin alt -> fin mx -> fin mn -> val mn = (IZR a * bpow radix2 e)%R -> val mx = (IZR b * bpow radix2 e)%R -> a < b ->
  0 <= zoom -> Z.abs a * 2 ^ zoom < 2 ^ 51 -> Z.abs b * 2 ^ zoom < 2 ^ 51 -> -1074 <= e - zoom -> e + 54 <= 1024 ->
  gen_calcBitIndex alt zoom mx mn = clampZ 0 (2 ^ zoom - 1) (Zfloor ((val alt - val mn) / (val mx - val mn) * IZR (2 ^ zoom))).
Proof. rewrite gen_calcBitIndex_eq. apply calc_bit_index_dyadic_exact. Qed.
(* ... and the two generated indices of a voxel are the exact reference indices of its two faces *)
Theorem gen_forward_equals_reference_on_dyadic_ranges v f oz (mx mn : pfloat) (a b e : Z) :
  0 <= v <= 35 -> Z.abs f < 2 ^ 52 -> 0 <= oz ->
  fin mx -> fin mn -> val mn = (IZR a * bpow radix2 e)%R -> val mx = (IZR b * bpow radix2 e)%R -> a < b ->
  Z.abs a * 2 ^ oz < 2 ^ 51 -> Z.abs b * 2 ^ oz < 2 ^ 51 -> -1074 <= e - oz -> e + 54 <= 1024 ->
  (gen_calcBitIndex (gen_bottom v f oz mx mn) oz mx mn, gen_calcBitIndex (gen_top v f oz mx mn) oz mx mn) = fwd_ref v f oz (a, e) (b, e).
Proof.
  intros Hv Hf Hz Fx Fn Vn Vx Hab Ha Hb He1 He2. unfold fwd_ref.
  assert (Hlt : (dval (a, e) < dval (b, e))%R).
  { unfold dval. cbn [fst snd]. apply Rmult_lt_compat_r; [apply bpow_gt_0 | now apply IZR_lt]. }
  destruct (gen_faces_exact v f oz mx mn Hv Hf) as (V0 & F0 & V1 & F1).
  rewrite (gen_index_exact_on_dyadic_ranges _ mx mn a b e oz F0 Fx Fn Vn Vx Hab Hz Ha Hb He1 He2).
  rewrite (gen_index_exact_on_dyadic_ranges _ mx mn a b e oz F1 Fx Fn Vn Vx Hab Hz Ha Hb He1 He2).
  rewrite !idx_ref_real by assumption. rewrite V0, V1, Vn, Vx. reflexivity.
Qed.
(* elsewhere the generated loop differs from the exact reference: range [-1, 1+2^-52], voxel 20/0, zoom 1 *)
Lemma gen_float_differs_witness :
  exists (mx mn : pfloat) dmn dmx, dyadic mn = Some dmn /\ dyadic mx = Some dmx /\ range_ok dmn dmx = true /\
    gen_calcBitIndex (gen_bottom 20 0 1 mx mn) 1 mx mn = 1 /\ idx_ref (vox_dy 0 20) dmn dmx 1 = 0.
Proof.
  exists 0x1.0000000000001p+0%float, (-1)%float, (-4503599627370496, -52), (4503599627370497, -52).
  repeat split; vm_compute; reflexivity.
Qed.

(* ---- reverse ---- *)
(* the model's two indices are the generated vertical index of the two generated cell altitudes *)
Lemma gen_bit_to_vid_idx_eq vz k oz mx mn :
  bit_to_vid_idx vz k oz mx mn =
  match Ztrunc_f (gen_vindex (gen_cell_top vz k oz mx mn) oz), Ztrunc_f (gen_vindex (gen_cell_bottom vz k oz mx mn) oz) with
  | Some hi, Some lo => Some (hi, lo)
  | _, _ => None
  end.
Proof.
  rewrite !gen_getVerticalTileIdOnAltitude_vIndex_eq, gen_convertBitToVerticalID_maxAltitude_eq, gen_convertBitToVerticalID_minAltitude_eq. reflexivity.
Qed.
(* floor, not truncation, no rounding: the generated vertical index of an in-domain altitude *)
Theorem gen_vertical_index_is_exact_floor (a : pfloat) oz : 0 <= oz <= 35 -> alt_ok a oz ->
  Ztrunc_f (gen_vindex a oz) = Some (Zfloor (val a * bpow radix2 (oz - 25))).
Proof. intros Hz Hok. rewrite gen_getVerticalTileIdOnAltitude_vIndex_eq. now apply f_f_exact. Qed.
(* on dyadic ranges the generated cell altitudes are the exact bounds of the cell and their generated indices are the exact reference run *)
Theorem gen_reverse_equals_reference_on_dyadic_ranges (vz k oz : Z) (mx mn : pfloat) (a b e : Z) :
  0 <= vz <= 35 -> 0 <= oz <= 35 -> fin mx -> fin mn -> val mn = (IZR a * bpow radix2 e)%R -> val mx = (IZR b * bpow radix2 e)%R ->
  Z.abs k <= 2 ^ (vz + 1) -> (Z.abs a + Z.abs b) * 2 ^ (vz + 2) < 2 ^ 53 -> -900 <= e - vz -> e + 60 <= 1024 ->
  (IZR (Z.abs a + Z.abs b) * bpow radix2 (e + 2 + (oz - 25)) < bpow radix2 52)%R ->
  val (gen_cell_bottom vz k oz mx mn) = dval (cell_dy k vz (a, e) (b, e)) /\
  val (gen_cell_top vz k oz mx mn) = dval (cell_dy (k + 1) vz (a, e) (b, e)) /\
  (Ztrunc_f (gen_vindex (gen_cell_bottom vz k oz mx mn) oz), Ztrunc_f (gen_vindex (gen_cell_top vz k oz mx mn) oz)) =
  (let '(lo, hi) := rev_ref vz k oz (a, e) (b, e) in (Some lo, Some hi)).
Proof.
  intros Hv Hz Fx Fn Vn Vx Hk HM He1 He2 Hidx.
  rewrite gen_convertBitToVerticalID_maxAltitude_eq, gen_convertBitToVerticalID_minAltitude_eq.
  destruct (cell_alt_dyadic vz k oz mx mn a b e Hv Fx Fn Vn Vx ltac:(lia) HM He1 He2 Hidx) as [V0 Ok0].
  destruct (cell_alt_dyadic vz (k + 1) oz mx mn a b e Hv Fx Fn Vn Vx ltac:(lia) HM He1 He2 Hidx) as [V1 Ok1].
  split; [exact V0|]. split; [exact V1|]. unfold rev_ref.
  rewrite (gen_vertical_index_is_exact_floor _ oz Hz Ok0), (gen_vertical_index_is_exact_floor _ oz Hz Ok1).
  rewrite V0, V1, <- !vidx_ref_real. reflexivity.
Qed.
(* elsewhere not: range [0.1, 0.3], cell 14 of 2^5, output zoom 35 *)
Lemma gen_reverse_differs_witness :
  exists (mx mn : pfloat) dmn dmx, dyadic mn = Some dmn /\ dyadic mx = Some dmx /\ range_ok_rev dmn dmx 5 14 = true /\
    Ztrunc_f (gen_vindex (gen_cell_bottom 5 14 35 mx mn) 35) = Some 192 /\ Ztrunc_f (gen_vindex (gen_cell_top 5 14 35 mx mn) 35) = Some 198 /\
    rev_ref 5 14 35 dmn dmx = (191, 198).
Proof.
  exists 0x1.3333333333333p-2%float, 0x1.999999999999ap-4%float, (7205759403792794, -56), (5404319552844595, -54).
  repeat split; vm_compute; reflexivity.
Qed.

(* non-vacuity: the generated loop on the unit-test literals, the generated face altitudes of the documentation's voxel *)
Lemma gen_examples :
  gen_calcBitIndex 256 10 500 0 = 524 /\ gen_calcBitIndex 0 10 256 (-256) = 512 /\ gen_calcBitIndex (-200) 10 0 (-500) = 614 /\
  gen_calcBitIndex (gen_bottom 16 (-1) 4 768 (-256)) 4 768 (-256) = 0 /\ gen_calcBitIndex (gen_top 16 (-1) 4 768 (-256)) 4 768 (-256) = 4 /\
  Ztrunc_f (gen_vindex (gen_cell_bottom 8 85 26 1000 0) 26) = Some 664 /\ Ztrunc_f (gen_vindex (gen_cell_top 8 85 26 1000 0) 26) = Some 671.
Proof. vm_compute. repeat split. Qed.

(* ---- the cell height of convertBitToVerticalID as regenerated (the local voxelHeight at the end of the function): the two generated
   cell altitudes are k and k+1 generated cell heights above the lower end of the range; the height depends neither on the cell nor on
   the output zoom, and on an ordered finite range it is not negative (BitAltV.cell_height_nonneg of the regenerated code) ---- *)
Notation gen_cell_height := GeneratedF.convertBitToVerticalID_voxelHeight.
Theorem gen_cell_altitudes_over_generated_height vz k oz mx mn :
  gen_cell_bottom vz k oz mx mn = cell_alt k (gen_cell_height vz k oz mx mn) mn /\
  gen_cell_top vz k oz mx mn = cell_alt (k + 1) (gen_cell_height vz k oz mx mn) mn /\
  (forall k' oz', gen_cell_height vz k' oz' mx mn = gen_cell_height vz k oz mx mn) /\
  gen_cell_top vz k oz mx mn = gen_cell_bottom vz (k + 1) oz mx mn.
Proof.
  rewrite gen_convertBitToVerticalID_maxAltitude_eq, !gen_convertBitToVerticalID_minAltitude_eq, gen_convertBitToVerticalID_voxelHeight_eq.
  split; [reflexivity|]. split; [reflexivity|]. split; [|reflexivity].
  intros k' oz'. now rewrite gen_convertBitToVerticalID_voxelHeight_eq.
Qed.
Theorem gen_cell_height_nonneg vz k oz (mx mn : pfloat) : 0 <= vz <= 35 -> fin mx -> fin mn -> (val mn <= val mx)%R ->
  fin (mx - mn)%float -> fin (gen_cell_height vz k oz mx mn) -> (0 <= val (gen_cell_height vz k oz mx mn))%R.
Proof. rewrite gen_convertBitToVerticalID_voxelHeight_eq. apply cell_height_nonneg. Qed.
Example gen_cell_height_evaluated :
  gen_cell_height 8 3 25 1000%float 0%float = 3.90625%float /\ gen_cell_bottom 8 3 25 1000%float 0%float = 11.71875%float /\
  gen_cell_top 8 3 25 1000%float 0%float = 15.625%float.
Proof. repeat split; vm_compute; reflexivity. Qed.
