(* GenFTac.v — the tie between the float64 kernels and the source: tactic.
   generated/GeneratedF.v is rewritten by the translator (harness/cmd/vtrans, float.go) from the Go source on every run: Go float64 =
   Coq primitive float, operation by operation, in the vocabulary of F64.v, the functions of Go's math package without a model as
   fields of the record [GeneratedF.libm]. GenEqF*.v prove every generated definition equal to the hand-written model (PointF, VertexF,
   F64, BitAlt, ShiftF). The models are written operation by operation too, so a lemma is an equality of two terms that differ at
   most in the names and the nesting of their lets: [gen_feq] is conversion ([reflexivity]), then congruence up to the commutativity
   of + and * ([fcong]), then a case split on the conditions (the branch of [x == c], c a finite non-zero literal, knows x = c).
   No proof mentions a Go variable name. *)
From Coq Require Import ZArith Bool Floats Lia.
From SID Require Import F64.
Open Scope float_scope.

(* ---- IEEE addition and multiplication commute (Coq's binary64 has a single NaN: no payload to choose) ---- *)
Lemma SFadd_comm prec emax x y : SFadd prec emax x y = SFadd prec emax y x.
Proof.
  destruct x as [sx|sx| |sx mx ex], y as [sy|sy| |sy my ey]; cbn; try reflexivity;
    try (destruct sx, sy; reflexivity).
  rewrite (Z.min_comm ex ey), Z.add_comm. reflexivity.
Qed.
Lemma SFmul_comm prec emax x y : SFmul prec emax x y = SFmul prec emax y x.
Proof.
  destruct x as [sx|sx| |sx mx ex], y as [sy|sy| |sy my ey]; cbn; rewrite ?(xorb_comm sx sy); try reflexivity.
  rewrite (Pos.mul_comm mx my), (Z.add_comm ex ey). reflexivity.
Qed.
Lemma fadd_comm x y : x + y = y + x.
Proof.
  rewrite <- (SF2Prim_Prim2SF (x + y)), <- (SF2Prim_Prim2SF (y + x)), !add_spec. f_equal. apply SFadd_comm.
Qed.
Lemma fmul_comm x y : x * y = y * x.
Proof.
  rewrite <- (SF2Prim_Prim2SF (x * y)), <- (SF2Prim_Prim2SF (y * x)), !mul_spec. f_equal. apply SFmul_comm.
Qed.

(* ---- x == y is symmetric (IEEE comparison; from FloatAxioms.eqb_spec and SpecFloat.SFcompare) ---- *)
Lemma SFeqb_sym a b : SFeqb a b = SFeqb b a.
Proof.
  unfold SFeqb, SFcompare.
  destruct a as [s|s| |s m e], b as [t|t| |t n g]; try reflexivity; try (destruct s, t; reflexivity); try (destruct s; reflexivity); try (destruct t; reflexivity).
  change (Pos.compare_cont Eq m n) with (Pos.compare m n). change (Pos.compare_cont Eq n m) with (Pos.compare n m).
  rewrite (Z.compare_antisym e g), (Pos.compare_antisym m n).
  destruct s, t; try reflexivity; destruct (e ?= g)%Z; cbn; try reflexivity; destruct (m ?= n)%positive; reflexivity.
Qed.
Lemma feqb_sym x y : (x =? y) = (y =? x).
Proof. rewrite !eqb_spec. apply SFeqb_sym. Qed.

(* ---- congruence up to the commutativity of + and * and the symmetry of == ---- *)
Lemma app_cong {A B : Type} (f g : A -> B) (a b : A) : f = g -> a = b -> f a = g b.
Proof. intros -> ->. reflexivity. Qed.
Ltac fcong :=
  first
    [ reflexivity
    | match goal with
      | |- PrimFloat.add ?a ?b = PrimFloat.add ?c ?d =>
          first [ apply f_equal2; fcong | rewrite (fadd_comm c d); apply f_equal2; fcong ]
      | |- PrimFloat.mul ?a ?b = PrimFloat.mul ?c ?d =>
          first [ apply f_equal2; fcong | rewrite (fmul_comm c d); apply f_equal2; fcong ]
      | |- PrimFloat.eqb ?a ?b = PrimFloat.eqb ?c ?d =>
          first [ apply f_equal2; fcong | rewrite (feqb_sym c d); apply f_equal2; fcong ]
      | |- (if ?c then _ else _) = (if ?d then _ else _) =>
          let H := fresh in assert (H : c = d) by fcong; rewrite <- ?H; clear H; destruct c; fcong
      | |- ?f ?a = ?g ?b => apply app_cong; fcong
      end ].

(* ---- x == c with a finite non-zero constant c identifies x (false for c = 0: -0 == 0; NaN is never equal to anything) ---- *)
Definition nzfin (c : float) : bool := match Prim2SF c with S754_finite _ _ _ => true | _ => false end.
Lemma feqb_lit_eq c x : nzfin c = true -> (x =? c) = true -> x = c.
Proof.
  unfold nzfin. intros Hc H. rewrite eqb_spec in H. unfold SFeqb, SFcompare in H.
  rewrite <- (SF2Prim_Prim2SF x), <- (SF2Prim_Prim2SF c). f_equal.
  destruct (Prim2SF c) as [s|s| |s m e]; try discriminate.
  destruct (Prim2SF x) as [t|t| |t n g]; try discriminate; try (destruct t, s; discriminate).
  change (Pos.compare_cont Eq n m) with (Pos.compare n m) in H.
  destruct t, s; try discriminate;
    (destruct (Z.compare_spec g e); try discriminate; subst;
     destruct (Pos.compare_spec n m); cbn in H; try discriminate; now subst).
Qed.
Lemma feqb_lit_eq_l c x : nzfin c = true -> (c =? x) = true -> x = c.
Proof.
  unfold nzfin. intros Hc H. rewrite eqb_spec in H. unfold SFeqb, SFcompare in H.
  rewrite <- (SF2Prim_Prim2SF x), <- (SF2Prim_Prim2SF c). f_equal.
  destruct (Prim2SF c) as [s|s| |s m e]; try discriminate.
  destruct (Prim2SF x) as [t|t| |t n g]; try discriminate; try (destruct t, s; discriminate).
  change (Pos.compare_cont Eq m n) with (Pos.compare m n) in H.
  destruct s, t; try discriminate;
    (destruct (Z.compare_spec e g); try discriminate; subst;
     destruct (Pos.compare_spec m n); cbn in H; try discriminate; now subst).
Qed.

Ltac no_if_f t := lazymatch t with context [if _ then _ else _] => fail | _ => idtac end.
Ltac not_decided c := lazymatch c with true => fail | false => fail | _ => idtac end.
(* where the condition is an equality with a finite non-zero literal, the true branch learns the value *)
(* ... and a branch in which an earlier, differently written test of the same equality said otherwise is closed *)
Ltac eq_contra :=
  try solve [ exfalso;
              match goal with
              | H : PrimFloat.eqb _ _ = _ |- _ => vm_compute in H; discriminate H
              end ].
Ltac use_eq E x := first [ subst x | rewrite ?E in * ]; eq_contra.
Ltac fdestruct c :=
  lazymatch c with
  | PrimFloat.eqb ?x ?k =>
      let E := fresh "E" in
      destruct c eqn:E;
      [ try first [ apply (feqb_lit_eq k x) in E; [ use_eq E x | reflexivity ]
                  | apply (feqb_lit_eq_l x k) in E; [ use_eq E k | reflexivity ] ]
      | ]
  | _ => destruct c
  end.
(* case split on the conditions, innermost first; the boolean connectives are conditionals too *)
Ltac fsplit :=
  cbv beta iota zeta delta [negb andb orb];
  repeat match goal with
         | |- context [if ?c then _ else _] => no_if_f c; not_decided c; fdestruct c; cbv beta iota
         end.

(* congruence where it suffices, a case split where it does not: after a split the two sides are compared again up to conversion, so
   that what a branch has learnt ([x] is the literal) is computed with *)
Ltac fsolve :=
  first [ fcong
        | match goal with
          | |- context [if ?c then _ else _] => no_if_f c; not_decided c; fdestruct c; cbv beta iota; fsolve
          end ].

(* [models]: unfolds the hand-written definitions of the right-hand side *)
Ltac gen_feq models :=
  intros;
  first [ reflexivity
        | repeat autounfold with sidgenf; models; cbv beta iota zeta;
          first [ fcong | cbv beta iota zeta delta [negb andb orb]; fsolve ] ].
