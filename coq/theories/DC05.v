(* DC05.v — dispatch entries of property C05 (overlap detection): (arguments, observed output) ↦ verdict.
   corr = the executable model's answer equals the implementation's observed answer (boolean + error flag; messages are not compared);
   prop = the observed answer is the reference `existsb overlapsb` over the parsed pairs (Overlap.check_overlap, proved equivalent to
          "true exactly when some voxel of the first argument and some voxel of the second are related by ancestor-or-equal on both
          axes") — independent of either algorithm. The property quantifies over valid IDs (spatial form: the documented altitude domain).
          When some member lies outside the quantifier the per-member fallback Overlap.check_fallback is applied instead of `true`:
          `false` without error ⇒ no two in-quantifier members are related; `true` ⇒ both lists non-empty.
   An error must come with `false` (documented "(false, err)"): any other payload is rejected (corr and prop false). *)
From Coq Require Import ZArith String List Bool Lia.
From SID Require Import Base Str Ids Wire ZoomCore ChangeZoom Radix Digits Overlap.
Import ListNotations.
Open Scope Z_scope.

(* observed (bool, error) pair ↔ result bool *)
Definition res_val (r : result bool) : val := match r with Ok b => VB b | Err => VE (VB false) end.
Definition obs_res (v : val) : option (result bool) :=
  match v with VB b => Some (Ok b) | VE (VB false) => Some Err | _ => None end.   (* (true, err) is not an admissible observation *)
Definition res_eqb (a b : result bool) : bool :=
  match a, b with Ok x, Ok y => Bool.eqb x y | Err, Err => true | _, _ => false end.

(* Zoom fields above 62 are never generated and are refused (bad_case, never a pass): a zoom drop |dz| >= 63 makes the Go code evaluate
   int64(math.Pow(2, |dz|)), which saturates (amd64: MinInt64) where the model computes the exact 2^|dz| — outside the property's quantifier
   (zooms 0..35) and outside what the correspondence claims. With every zoom field <= 62 the drop is <= 62 (the target zoom is checked to be
   in 0..35 first), the power is exact, and every int64 index agrees. Negative zoom fields make the target negative: refused before any arithmetic. *)
Definition zoom_small (i : eid) : bool := (-300 <? eh i) && (eh i <=? 62) && (-300 <? ev i) && (ev i <=? 62).
(* An index equal to MaxInt64 is never generated and is refused too: integrate.HorizontalZoom / VerticalZoom enumerate `for v := min; v <= max; v++`,
   which never terminates when max = MaxInt64 (a defect of the library on an invalid ID, outside this property; reported). *)
Definition idx_small (i : eid) : bool := (ex i <? 2 ^ 63 - 1) && (ey i <? 2 ^ 63 - 1) && (ef i <? 2 ^ 63 - 1).
Definition ext_small (s : string) : bool := match parse_eid s with Some i => zoom_small i && idx_small i | None => true end.

Definition judge (m : result bool) (chk : result bool -> bool) (obs : val) : verdict :=
  match obs_res obs with
  | Some o => mkv (res_eqb m o) (chk o) "-"%string (res_val m)
  | None => mkv false false "-"%string (res_val m)       (* panic / timeout / malformed observation *)
  end.

(* property checkers per form: the full specification when every member is inside the quantifier, the per-member fallback otherwise *)
Definition chk_ext (l1 l2 : list string) : result bool -> bool :=
  match parse_all l1, parse_all l2 with
  | Some e1, Some e2 => if forallb validb e1 && forallb validb e2 then check_overlap e1 e2
                        else check_fallback (vmem l1) (vmem l2) (nonnil l1) (nonnil l2)
  | _, _ => check_fallback (vmem l1) (vmem l2) (nonnil l1) (nonnil l2)
  end.
Definition chk_sp (l1 l2 : list string) : result bool -> bool :=
  match map_opt parse_sid l1, map_opt parse_sid l2 with
  | Some e1, Some e2 => if forallb sdomb e1 && forallb sdomb e2 then check_overlap e1 e2
                        else check_fallback (smem l1) (smem l2) (nonnil l1) (nonnil l2)
  | _, _ => check_fallback (smem l1) (smem l2) (nonnil l1) (nonnil l2)
  end.

Definition run_ext_pair (a b : string) (obs : val) : verdict :=
  if ext_small a && ext_small b then judge (ext_overlap a b) (chk_ext [a] [b]) obs else bad_case.
Definition run_ext_array (l1 l2 : list string) (obs : val) : verdict :=
  if forallb ext_small l1 && forallb ext_small l2 then judge (ext_array l1 l2) (chk_ext l1 l2) obs else bad_case.
Definition run_sp_pair (a b : string) (obs : val) : verdict := judge (sp_overlap a b) (chk_sp [a] [b]) obs.
Definition run_sp_array (l1 l2 : list string) (obs : val) : verdict := judge (sp_array l1 l2) (chk_sp l1 l2) obs.

Definition d_ext_pair (args : list val) (obs : val) : verdict :=
  match args with [VS a; VS b] => run_ext_pair a b obs | _ => bad_case end.
Definition d_ext_array (args : list val) (obs : val) : verdict :=
  match args with
  | [l1; l2] => match as_LS l1, as_LS l2 with Some s1, Some s2 => run_ext_array s1 s2 obs | _, _ => bad_case end
  | _ => bad_case
  end.
Definition d_sp_pair (args : list val) (obs : val) : verdict :=
  match args with [VS a; VS b] => run_sp_pair a b obs | _ => bad_case end.
Definition d_sp_array (args : list val) (obs : val) : verdict :=
  match args with
  | [l1; l2] => match as_LS l1, as_LS l2 with Some s1, Some s2 => run_sp_array s1 s2 obs | _, _ => bad_case end
  | _ => bad_case
  end.

(* getSpatialIdAttrs(s) = (zoom, f, x, y, err): observed as the list of the four integers, or an error.
   prop: a well-formed ID yields its four fields (what the overlap check relies on); any other string must be refused (the documented error). *)
Definition d_attrs (args : list val) (obs : val) : verdict :=
  match args with
  | [VS s] =>
      let m := sid_attrs s in
      let mv := match m with Ok (z, f, x, y) => of_LZ [z; f; x; y] | Err => VE (of_LZ [0; 0; 0; 0]) end in
      match m, obs with
      | Err, VE _ => mkv true true "-"%string mv
      | Err, _ => mkv false false "-"%string mv
      | Ok (z, f, x, y), _ =>
          match as_LZ obs with
          | Some [z'; f'; x'; y'] => let e := (z =? z') && (f =? f') && (x =? x') && (y =? y') in mkv e e "-"%string mv
          | _ => mkv false false "-"%string mv
          end
      end
  | _ => bad_case
  end.

(* OverlapBoth(l1, l2) on extended-notation lists: [Ext(l1,l2); Ext(l2,l1)] and, when every ID is written with h = v (five fields, field 0
   = field 3 as strings), also [Sp(s1,s2); Sp(s2,s1)] on the same voxels in spatial notation. prop: all answers equal the reference. *)
Definition hv_string (s : string) : bool :=
  match split s with [h; _; _; v; _] => String.eqb h v | _ => false end.
Definition to_sids (l : list string) : list string :=
  map (fun s => match eid_to_sid_str s with Some t => t | None => EmptyString end) l.
Fixpoint judge_all (ms : list (result bool * (result bool -> bool))) (os : list val) : option (bool * bool) :=
  match ms, os with
  | [], [] => Some (true, true)
  | (m, chk) :: mr, o :: orr =>
      match judge_all mr orr with
      | None => None
      | Some (c, p) => match obs_res o with
                       | Some r => Some (res_eqb m r && c, chk r && p)
                       | None => Some (false, false)
                       end
      end
  | _, _ => None
  end.
Definition d_both (args : list val) (obs : val) : verdict :=
  match args with
  | [l1; l2] =>
      match as_LS l1, as_LS l2, as_L obs with
      | Some s1, Some s2, Some os =>
          if negb (forallb ext_small s1 && forallb ext_small s2) then bad_case else
          let ext := [(ext_array s1 s2, chk_ext s1 s2); (ext_array s2 s1, chk_ext s2 s1)] in
          let hv := forallb hv_string s1 && forallb hv_string s2 in
          let sp := if hv then let t1 := to_sids s1 in let t2 := to_sids s2 in
                               [(sp_array t1 t2, chk_sp t1 t2); (sp_array t2 t1, chk_sp t2 t1)] else [] in
          let ms := ext ++ sp in
          match judge_all ms os with
          | Some (c, p) => mkv c p "-"%string (VL (map (fun mp => res_val (fst mp)) ms))
          | None => mkv false false "-"%string (VL (map (fun mp => res_val (fst mp)) ms))
          end
      | _, _, _ => bad_case
      end
  | _ => bad_case
  end.

(* OverlapSequence(calls): related calls issued back to back on the implementation (stateful changes: caches keyed by part of the arguments);
   the model maps the pure functions over the list. A call is [name; a; b]. *)
Definition run_call (c : val) (obs : val) : verdict :=
  match c with
  | VL [VS fn; a; b] =>
      if String.eqb fn "CheckExtendedSpatialIdsOverlap" then d_ext_pair [a; b] obs
      else if String.eqb fn "CheckExtendedSpatialIdsArrayOverlap" then d_ext_array [a; b] obs
      else if String.eqb fn "CheckSpatialIdsOverlap" then d_sp_pair [a; b] obs
      else if String.eqb fn "CheckSpatialIdsArrayOverlap" then d_sp_array [a; b] obs
      else bad_case
  | _ => bad_case
  end.
Fixpoint run_calls (cs os : list val) : option (list verdict) :=
  match cs, os with
  | [], [] => Some []
  | c :: cr, o :: orr => match run_calls cr orr with Some t => Some (run_call c o :: t) | None => None end
  | _, _ => None
  end.
Definition d_sequence (args : list val) (obs : val) : verdict :=
  match args with
  | [VL cs] =>
      match as_L obs with
      | Some os =>
          match run_calls cs os with
          | Some vs =>
              if existsb (fun v => String.eqb (v_class v) "bad-case") vs then bad_case
              else mkv (forallb v_corr vs) (forallb v_prop vs) "-"%string (VL (map v_model vs))
          | None => bad_case
          end
      | None => mkv false false "-"%string VNil          (* panic / timeout of the whole sequence *)
      end
  | _ => bad_case
  end.

(* RadixTree(keys, queries): the third-party library called directly — CreateTree(Create3DTable()), Append of every key (zoom, f', x, y),
   then IsOverlap of every query. corr: the trie model of Radix.v gives the same answers (also for coordinates outside [0, 2^zoom), where the
   library masks bits as the digit extraction does); prop (coordinates in range): the answers are the ancestor-or-equal relation on the three
   coordinates (Overlap.tree_model_is_ref). *)
Definition as_key4 (v : val) : option key4 :=
  match as_LZ v with Some [z; f; x; y] => Some (z, f, x, y) | _ => None end.
Definition as_keys (v : val) : option (list key4) :=
  match as_L v with Some l => all_opt (map as_key4 l) | None => None end.
Definition as_LB (v : val) : option (list bool) :=
  match as_L v with Some l => all_opt (map as_B l) | None => None end.
Definition key_small (q : key4) : bool := let '(z, _, _, _) := q in (0 <=? z) && (z <=? 62).
(* per query: with every key in range the answer is the relation exactly; with some key out of range (masked by the library) an in-range
   key related to an in-range query must still give a hit; a query out of range is not judged *)
Fixpoint tree_prop (K Q : list key4) (o : list bool) : bool :=
  match Q, o with
  | q :: Qr, b :: orr =>
      (if in_range4b q then
         if forallb in_range4b K then Bool.eqb b (existsb (fun k => rel4b k q) K)
         else implb (existsb (fun k => rel4b k q) (filter in_range4b K)) b
       else true) && tree_prop K Qr orr
  | _, _ => true
  end.
Definition d_tree (args : list val) (obs : val) : verdict :=
  match args with
  | [ks; qs] =>
      match as_keys ks, as_keys qs with
      | Some K, Some Q =>
          if negb (forallb key_small K && forallb key_small Q) || match K with [] => true | _ => false end then bad_case
          else
            let m := tree_model K Q in
            match as_LB obs with
            | Some o =>
                mkv (list_eqb Bool.eqb m o) (Nat.eqb (length o) (length Q) && tree_prop K Q o) "-"%string (VL (map VB m))
            | None => match obs with VNil => bad_case | _ => mkv false false "-"%string (VL (map VB m)) end
            end
      | _, _ => bad_case
      end
  | _ => bad_case
  end.

(* RadixOps(ops): an arbitrary interleaving of the two operations the detector performs on the third-party tree — op = [0; zoom; f'; x; y] is
   Append, [1; zoom; f'; x; y] is IsOverlap — run on ONE real tree; observed = the answers of the queries in order.
   corr: Radix.v's trie threaded through the same sequence (Overlap.run_ops) gives the same answers;
   prop: each answer is the ancestor-or-equal relation against the keys appended BEFORE the query (Overlap.ops_ref; = run_ops by run_ops_spec).
   Refused (bad_case): zoom outside 0..62, a coordinate outside [0, 2^zoom) (the masking is the business of the RadixTree entry), a query before
   the first Append (the library indexes a nil slice there; the detector never does it). *)
Definition as_rop (v : val) : option rop :=
  match as_LZ v with
  | Some [0; z; f; x; y] => Some (RAppend (z, f, x, y))
  | Some [1; z; f; x; y] => Some (RQuery (z, f, x, y))
  | _ => None
  end.
Definition rop_ok (o : rop) : bool := key_small (rop_key o) && in_range4b (rop_key o).
Definition d_radix_ops (args : list val) (obs : val) : verdict :=
  match args with
  | [VL vops] =>
      match all_opt (map as_rop vops) with
      | Some ((RAppend _ :: _) as ops) =>
          if negb (forallb rop_ok ops) then bad_case else
          let m := run_ops rempty ops in
          match as_LB obs with
          | Some o => mkv (list_eqb Bool.eqb m o) (list_eqb Bool.eqb (ops_ref [] ops) o) "-"%string (VL (map VB m))
          | None => match obs with VNil => bad_case | _ => mkv false false "-"%string (VL (map VB m)) end
          end
      | _ => bad_case
      end
  | _ => bad_case
  end.

Definition table_C05 : table :=
  [("CheckExtendedSpatialIdsOverlap"%string, fun _ => d_ext_pair);
   ("CheckExtendedSpatialIdsArrayOverlap"%string, fun _ => d_ext_array);
   ("CheckSpatialIdsOverlap"%string, fun _ => d_sp_pair);
   ("CheckSpatialIdsArrayOverlap"%string, fun _ => d_sp_array);
   ("getSpatialIdAttrs"%string, fun _ => d_attrs);
   ("OverlapBoth"%string, fun _ => d_both);
   ("OverlapSequence"%string, fun _ => d_sequence);
   ("RadixTree"%string, fun _ => d_tree);
   ("RadixOps"%string, fun _ => d_radix_ops)].

(* the dispatch checkers are the proved checker on the property's quantifier *)
Lemma forallb_validb es : forallb validb es = true -> forall i, In i es -> valid i.
Proof. intros H i Hi. apply validb_spec. now apply (proj1 (forallb_forall _ _) H). Qed.
Lemma forallb_sdomb es : forallb sdomb es = true -> forall i, In i es -> sdom i.
Proof. intros H i Hi. apply sdomb_spec. now apply (proj1 (forallb_forall _ _) H). Qed.

Theorem chk_ext_is_spec l1 l2 e1 e2 obs : parse_all l1 = Some e1 -> parse_all l2 = Some e2 ->
  forallb validb e1 = true -> forallb validb e2 = true ->
  (chk_ext l1 l2 obs = true <-> spec_overlap e1 e2 obs).
Proof. intros P1 P2 V1 V2. unfold chk_ext. rewrite P1, P2, V1, V2. cbn [andb]. apply check_overlap_sound. Qed.
Theorem chk_sp_is_spec l1 l2 e1 e2 obs : map_opt parse_sid l1 = Some e1 -> map_opt parse_sid l2 = Some e2 ->
  forallb sdomb e1 = true -> forallb sdomb e2 = true ->
  (chk_sp l1 l2 obs = true <-> spec_overlap e1 e2 obs).
Proof. intros P1 P2 V1 V2. unfold chk_sp. rewrite P1, P2, V1, V2. cbn [andb]. apply check_overlap_sound. Qed.
(* on every other input the checker is the per-member fallback, which decides spec_fallback *)
Theorem chk_ext_otherwise l1 l2 obs : chk_ext l1 l2 obs = true ->
  (exists e1 e2, parse_all l1 = Some e1 /\ parse_all l2 = Some e2 /\ forallb validb e1 = true /\ forallb validb e2 = true /\ spec_overlap e1 e2 obs) \/
  spec_fallback (vmem l1) (vmem l2) (nonnil l1) (nonnil l2) obs.
Proof.
  unfold chk_ext. destruct (parse_all l1) as [e1|] eqn:P1; [|right; now apply check_fallback_sound].
  destruct (parse_all l2) as [e2|] eqn:P2; [|right; now apply check_fallback_sound].
  destruct (forallb validb e1) eqn:V1; [|right; now apply check_fallback_sound].
  destruct (forallb validb e2) eqn:V2; [|right; now apply check_fallback_sound]. cbn [andb].
  intros H. left. exists e1, e2. repeat split; auto. now apply check_overlap_sound.
Qed.
Theorem chk_sp_otherwise l1 l2 obs : chk_sp l1 l2 obs = true ->
  (exists e1 e2, map_opt parse_sid l1 = Some e1 /\ map_opt parse_sid l2 = Some e2 /\ forallb sdomb e1 = true /\ forallb sdomb e2 = true /\ spec_overlap e1 e2 obs) \/
  spec_fallback (smem l1) (smem l2) (nonnil l1) (nonnil l2) obs.
Proof.
  unfold chk_sp. destruct (map_opt parse_sid l1) as [e1|] eqn:P1; [|right; now apply check_fallback_sound].
  destruct (map_opt parse_sid l2) as [e2|] eqn:P2; [|right; now apply check_fallback_sound].
  destruct (forallb sdomb e1) eqn:V1; [|right; now apply check_fallback_sound].
  destruct (forallb sdomb e2) eqn:V2; [|right; now apply check_fallback_sound]. cbn [andb].
  intros H. left. exists e1, e2. repeat split; auto. now apply check_overlap_sound.
Qed.
(* the models' own answers pass on EVERY input: agreement with the model (corr) implies the property check (prop) *)
Theorem model_passes_ext l1 l2 : chk_ext l1 l2 (ext_array l1 l2) = true.
Proof.
  unfold chk_ext. destruct (parse_all l1) as [e1|] eqn:P1; [|apply ext_array_fallback]. destruct (parse_all l2) as [e2|] eqn:P2; [|apply ext_array_fallback].
  destruct (forallb validb e1) eqn:V1; [|apply ext_array_fallback]. destruct (forallb validb e2) eqn:V2; [|apply ext_array_fallback]. cbn [andb].
  apply (ext_array_passes l1 l2 e1 e2 P1 P2); [now apply forallb_validb|now apply forallb_validb].
Qed.
Theorem model_passes_sp l1 l2 : chk_sp l1 l2 (sp_array l1 l2) = true.
Proof.
  unfold chk_sp. destruct (map_opt parse_sid l1) as [e1|] eqn:P1; [|apply sp_array_fallback]. destruct (map_opt parse_sid l2) as [e2|] eqn:P2; [|apply sp_array_fallback].
  destruct (forallb sdomb e1) eqn:V1; [|apply sp_array_fallback]. destruct (forallb sdomb e2) eqn:V2; [|apply sp_array_fallback]. cbn [andb].
  apply (sp_array_passes l1 l2 e1 e2 P1 P2); [now apply forallb_sdomb|now apply forallb_sdomb].
Qed.
(* the trie model passes the direct-library checker on every input *)
Theorem model_passes_tree K Q : tree_prop K Q (tree_model K Q) = true.
Proof.
  unfold tree_model. induction Q as [|q Qr IH]; [reflexivity|]. cbn [map tree_prop]. rewrite IH, andb_true_r.
  destruct (in_range4b q) eqn:Rq; [|reflexivity]. apply in_range4b_spec in Rq.
  destruct (forallb in_range4b K) eqn:RK.
  - assert (HK : forall k, In k K -> in_range4 k) by (intros k Hk; apply in_range4b_spec; now apply (proj1 (forallb_forall _ _) RK)).
    pose proof (tree_model_is_ref K [q] HK ltac:(intros x [<-|[]]; exact Rq)) as E. unfold tree_model, tree_ref in E. cbn in E.
    injection E as ->. apply eqb_reflx.
  - destruct (existsb (fun k => rel4b k q) (filter in_range4b K)) eqn:E; [|reflexivity]. cbn [implb].
    apply existsb_exists in E. destruct E as (k & Hk & R). apply filter_In in Hk. destruct Hk as [Hk Rk]. apply in_range4b_spec in Rk.
    apply overlap_spec. exists (tkey k). split; [now apply in_map|]. apply tkey_overlap_iff; auto. now apply rel4b_spec.
Qed.

(* the trie model passes the RadixOps checker: on accepted cases corr implies prop *)
Theorem model_passes_radix_ops ops : forallb rop_ok ops = true -> list_eqb Bool.eqb (ops_ref [] ops) (run_ops rempty ops) = true.
Proof.
  intros H. rewrite run_ops_spec_empty.
  - generalize (ops_ref [] ops). induction l as [|b r IH]; [reflexivity|]. cbn. now rewrite eqb_reflx, IH.
  - intros o Ho. apply in_range4b_spec. pose proof (proj1 (forallb_forall _ _) H o Ho) as R. unfold rop_ok in R.
    apply andb_true_iff in R. tauto.
Qed.
(* a sequence is judged step by step: the verdicts of a sequence after any prefix are the verdicts of the steps alone *)
Theorem run_calls_app h oh cs os : length h = length oh ->
  run_calls (h ++ cs) (oh ++ os) = match run_calls h oh, run_calls cs os with Some a, Some b => Some (a ++ b) | _, _ => None end.
Proof.
  revert oh. induction h as [|c h IH]; intros [|o oh] L; try discriminate.
  - cbn. destruct (run_calls cs os); reflexivity.
  - cbn [app run_calls]. rewrite IH by (cbn in L; lia). destruct (run_calls h oh), (run_calls cs os); reflexivity.
Qed.
