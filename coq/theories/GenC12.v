(* GenC12.v — property C12 stated of the REGENERATED INT64 kernels (generated/Generated64.v: the altitude-key functions translated from
   /repo's Go source with Go's int64 semantics explicit; M A = option (A * bool): None = run-time panic, flag = no operation wrapped).
   Until now the step "Go's int64 code = the hand-written int64 model z2key64m / key2z64m / ... of AltKey.v" was an assumption validated by
   differential execution only; GenEq64Alt.v proves it for the regenerated code (gen64_*_z2key64m etc.), so the statements below are about
   what the translator reads from the source on every run:
     - on the documented domain the code returns, without any wrap, a result that meets conv_spec            (gen64_forward/backward_meets_spec)
     - for ANY arguments: if no operation wrapped, the result is the unbounded model's and meets conv_spec   (gen64_*_exact_meets_spec)
     - zooms outside 0..35 are answered with an error before any arithmetic                                   (gen64_*_bad_zoom)
     - no panic for |zBaseExponent| <= 2^62; a panic for zBaseExponent = MinInt64 + zoom                       (gen64_*_no_panic, gen64_exponent_panic)
     - finding class int64_overflow: the wrong answers for offsets 2^29 (forward) and 2^54 (backward), and the first forward wrap at
       offset 7*2^25, computed on the generated kernels themselves                                             (gen64_overflow_*, gen64_first_forward_wrap)
   An edit of one of these Go functions changes Generated64.v, breaks GenEq64Alt.v and therefore this file (and properties/C12.v).
   NOT imported by DC12.v / Dispatch.v (the extracted model must not depend on SIDGen); only properties/C12.v imports it. *)
From Coq Require Import ZArith Lia Bool.
From SID Require Import Base AltKeyCore AltKey GenTac.
From SID Require I64.
From SIDGen Require Generated Generated64.
From SID Require GenEqAlt GenEq64Alt.
Open Scope Z_scope.

(* results of the generated kernels are (min, max, err) triples: enc_zz (GenTac.v) encodes Ok (a,b) as (a, b, false) and Err as (0, 0, true) *)

(* ---- both exported conversions on the documented domain ---- *)
Theorem gen64_forward_meets_spec f z out E O :
  0 <= z <= 35 -> 0 <= out <= 35 -> 0 <= E <= 35 -> - 2 ^ 27 <= O <= 2 ^ 27 ->
  exists r, Generated64.ConvertZToMinMaxAltitudekey f z out E O = Some (enc_zz r, true) /\
            r = z2key f z out E O /\ conv_spec (sid_scale z) f (key_scale out E O) r.
Proof.
  intros Hz Ho HE HO. exists (z2key f z out E O).
  rewrite (GenEq64Alt.gen64_ConvertZToMinMaxAltitudekey_fits f z out E O Hz Ho HE HO), GenEqAlt.gen_ConvertZToMinMaxAltitudekey_eq.
  split; [reflexivity|]. split; [reflexivity|apply z2key_conv].
Qed.
Theorem gen64_backward_meets_spec k kz out E O :
  0 <= kz <= 35 -> 0 <= out <= 35 -> 0 <= E <= 35 -> - 2 ^ 50 <= O <= 2 ^ 50 ->
  exists r, Generated64.ConvertAltitudekeyToMinMaxZ k kz out E O = Some (enc_zz r, true) /\
            r = key2z k kz out E O /\ conv_spec (key_scale kz E O) k (sid_scale out) r.
Proof.
  intros Hz Ho HE HO. exists (key2z k kz out E O).
  rewrite (GenEq64Alt.gen64_ConvertAltitudekeyToMinMaxZ_fits k kz out E O Hz Ho HE HO), GenEqAlt.gen_ConvertAltitudekeyToMinMaxZ_eq.
  split; [reflexivity|]. split; [reflexivity|apply key2z_conv].
Qed.

(* ---- for ANY int64 arguments: a run in which no operation wrapped returns the unbounded model's result, which meets the specification ---- *)
Theorem gen64_forward_exact_meets_spec f z out E O v :
  Generated64.ConvertZToMinMaxAltitudekey f z out E O = Some (v, true) ->
  v = enc_zz (z2key f z out E O) /\ conv_spec (sid_scale z) f (key_scale out E O) (z2key f z out E O).
Proof.
  intros H. apply GenEq64Alt.gen64_ConvertZToMinMaxAltitudekey_exact in H. rewrite GenEqAlt.gen_ConvertZToMinMaxAltitudekey_eq in H.
  split; [exact H|apply z2key_conv].
Qed.
Theorem gen64_backward_exact_meets_spec k kz out E O v :
  Generated64.ConvertAltitudekeyToMinMaxZ k kz out E O = Some (v, true) ->
  v = enc_zz (key2z k kz out E O) /\ conv_spec (key_scale kz E O) k (sid_scale out) (key2z k kz out E O).
Proof.
  intros H. apply GenEq64Alt.gen64_ConvertAltitudekeyToMinMaxZ_exact in H. rewrite GenEqAlt.gen_ConvertAltitudekeyToMinMaxZ_eq in H.
  split; [exact H|apply key2z_conv].
Qed.
Theorem gen64_min_helper_exact_meets_spec f z out E O v :
  Generated64.convertZToMinAltitudekey f z out E O = Some (v, true) ->
  v = enc_z (z2minkey f z out E O) /\ minkey_spec (sid_scale z) f (key_scale out E O) (z2minkey f z out E O).
Proof.
  intros H. apply GenEq64Alt.gen64_convertZToMinAltitudekey_exact in H. rewrite GenEqAlt.gen_convertZToMinAltitudekey_eq in H.
  split; [exact H|apply z2minkey_conv].
Qed.

(* ---- helpers ---- *)
(* common.CalculateArithmeticShift: without wrap it is floor(i * 2^s) (Base.ashift, AltKey.ashift_floor) *)
Theorem gen64_shift_exact i s v : Generated64.CalculateArithmeticShift i s = Some (v, true) -> v = ashift i s.
Proof. rewrite GenEq64Alt.gen64_CalculateArithmeticShift_shiftm. apply shiftm_inv. Qed.
(* validateIndexExists at every zoom 0..62 (0..35 is the documented range): (error?, ok) with ok = membership in the index range *)
Theorem gen64_validate_spec i z neg : 0 <= z <= 62 ->
  exists ok, Generated64.validateIndexExists i z neg = Some ((negb ok, ok), true) /\
             (ok = true <-> (if neg then - 2 ^ z else 0) <= i < 2 ^ z).
Proof.
  intros Hz. exists (index_exists i z neg). rewrite GenEq64Alt.gen64_validateIndexExists_validatem, (validatem_ok i z neg Hz).
  split; [reflexivity|apply index_exists_spec].
Qed.

(* ---- zoom guard: any zoom outside 0..35 (MinInt64 included) is answered with an error, nothing wraps, nothing panics ---- *)
Theorem gen64_forward_bad_zoom f z out E O : ~ (0 <= z <= 35 /\ 0 <= out <= 35) ->
  Generated64.ConvertZToMinMaxAltitudekey f z out E O = Some (enc_zz Err, true).
Proof. intros N. rewrite GenEq64Alt.gen64_ConvertZToMinMaxAltitudekey_z2key64m, (z2key64m_bad_zoom f z out E O N). reflexivity. Qed.
Theorem gen64_backward_bad_zoom k kz out E O : ~ (0 <= kz <= 35 /\ 0 <= out <= 35) ->
  Generated64.ConvertAltitudekeyToMinMaxZ k kz out E O = Some (enc_zz Err, true).
Proof. intros N. rewrite GenEq64Alt.gen64_ConvertAltitudekeyToMinMaxZ_key2z64m, (key2z64m_bad_zoom k kz out E O N). reflexivity. Qed.

(* ---- panics ---- *)
Theorem gen64_forward_no_panic f z out E O : - 2 ^ 62 <= E <= 2 ^ 62 -> Generated64.ConvertZToMinMaxAltitudekey f z out E O <> None.
Proof. apply GenEq64Alt.gen64_ConvertZToMinMaxAltitudekey_no_panic. Qed.
Theorem gen64_backward_no_panic k kz out E O : - 2 ^ 62 <= E <= 2 ^ 62 -> Generated64.ConvertAltitudekeyToMinMaxZ k kz out E O <> None.
Proof. apply GenEq64Alt.gen64_ConvertAltitudekeyToMinMaxZ_no_panic. Qed.
(* zBaseExponent is not validated: MinInt64 + zoom makes a shift count MinInt64, whose negation wraps: "negative shift amount" *)
Theorem gen64_exponent_panic :
  Generated64.ConvertZToMinMaxAltitudekey 0 25 10 (- 2 ^ 63 + 10) 0 = None /\
  Generated64.ConvertAltitudekeyToMinMaxZ 0 3 25 (- 2 ^ 63 + 3) 0 = None.
Proof. split; vm_compute; reflexivity. Qed.

(* ---- finding class int64_overflow, computed on the generated int64 kernels ---- *)
(* forward, offset 2^29 (a power of two inside the property's quantifier): the code returns the whole key range with a nil error, flag off;
   the specification (and the unbounded kernel) demand an error *)
Theorem gen64_overflow_forward :
  Generated64.ConvertZToMinMaxAltitudekey 0 25 35 0 (2 ^ 29) = Some ((0, 2 ^ 35 - 1, false), false) /\
  Generated.ConvertZToMinMaxAltitudekey 0 25 35 0 (2 ^ 29) = (0, 0, true) /\
  ~ conv_spec (sid_scale 25) 0 (key_scale 35 0 (2 ^ 29)) (Ok (0, 2 ^ 35 - 1)).
Proof.
  split; [vm_compute; reflexivity|]. split; [vm_compute; reflexivity|].
  intros C. apply check_conv_sound in C. vm_compute in C. discriminate.
Qed.
(* backward, offset 2^54 *)
Theorem gen64_overflow_backward :
  Generated64.ConvertAltitudekeyToMinMaxZ 0 0 35 0 (2 ^ 54) = Some ((0, 1023, false), false) /\
  Generated.ConvertAltitudekeyToMinMaxZ 0 0 35 0 (2 ^ 54) = (0, 0, true) /\
  ~ conv_spec (key_scale 0 0 (2 ^ 54)) 0 (sid_scale 35) (Ok (0, 1023)).
Proof.
  split; [vm_compute; reflexivity|]. split; [vm_compute; reflexivity|].
  intros C. apply check_conv_sound in C. vm_compute in C. discriminate.
Qed.
(* the bounds 2^27 / 2^50 are sufficient, not tight: inside the zoom/exponent domain the first forward wrap is at offset 7 * 2^25
   (a harmless one: an error either way) *)
Theorem gen64_first_forward_wrap :
  I64.fits (Generated64.ConvertZToMinMaxAltitudekey (2 ^ 35 - 1) 35 35 0 (7 * 2 ^ 25)) = false /\
  I64.fits (Generated64.ConvertZToMinMaxAltitudekey (2 ^ 35 - 1) 35 35 0 (7 * 2 ^ 25 - 1)) = true /\
  I64.go_value (Generated64.ConvertZToMinMaxAltitudekey (2 ^ 35 - 1) 35 35 0 (7 * 2 ^ 25)) = Some (0, 0, true).
Proof. repeat split; vm_compute; reflexivity. Qed.

(* non-vacuity: the library's default scale (exponent 25, offset 2^24) on the generated int64 kernels, both directions, and a bad zoom *)
Example gen64_nonvacuous :
  Generated64.ConvertZToMinMaxAltitudekey 0 25 25 25 (2 ^ 24) = Some ((2 ^ 24, 2 ^ 24, false), true) /\
  Generated64.ConvertAltitudekeyToMinMaxZ (2 ^ 24) 25 25 25 (2 ^ 24) = Some ((0, 0, false), true) /\
  Generated64.ConvertZToMinMaxAltitudekey 1 24 24 25 1 = Some ((1, 2, false), true) /\
  Generated64.ConvertZToMinMaxAltitudekey 0 36 3 25 0 = Some ((0, 0, true), true) /\
  Generated64.ConvertZToMinMaxAltitudekey 0 (- 2 ^ 63) 3 25 0 = Some ((0, 0, true), true).
Proof. repeat split; vm_compute; reflexivity. Qed.
